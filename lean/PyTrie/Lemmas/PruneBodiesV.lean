import PyTrie.Lemmas.PruneBodies
import PyTrie.Lemmas.WorldBatch
import PyTrie.Lemmas.FreeView
/-! **Bodies through a `squash_changes` block on a pruning trie.** `storeDb st` is what the batch trie reads through its
    `ScratchDB`. On entry the view is the outer database; every batch operation keeps the view complete for the batch
    trie's root (under the run-level no-collision predicate over the view); a successful commit leaves the outer database
    complete for the new outer root. Together with `PruneInvV` (keys and counts over the would-be-committed view,
    `Lemmas/WorldBatch.lean`) this discharges the completeness hypothesis of the lockstep theorems
    (`Lemmas/FreeView.lean`) along every block on a pruning trie. -/
namespace PyTrie.HexW
open PyTrie.Hex hiding get set
open PyTrie.Hex.Node
open PyTrie.HexFree (storeDb)

variable (Hs : Hashing) (blankRootHash : Hash)

/-! ### completeness only depends on the bodies stored under live hashes -/

theorem ref_agree {d d' : Dict Bytes} (t : Node)
    (hk : ∀ h, 0 < occ Hs t h → Dict.get? d' h = Dict.get? d h) (hr : Ref Hs d t) : Ref Hs d' t := by
  induction t with
  | blank => exact ref_blank Hs d'
  | leaf p v => exact ⟨fun hh => by rw [hk _ (occ_pos_of_hashed Hs hh)]; exact hr.1 hh, trivial⟩
  | ext p c ih =>
    refine ⟨fun hh => by rw [hk _ (occ_pos_of_hashed Hs hh)]; exact hr.1 hh, ?_⟩
    show Ref Hs d' c
    exact ih (fun h hp => hk h (by simp only [occ]; omega)) hr.2
  | branch ch v ih =>
    refine ⟨fun hh => by rw [hk _ (occ_pos_of_hashed Hs hh)]; exact hr.1 hh, ?_⟩
    intro i
    show Ref Hs d' (ch i)
    refine ih i (fun h hp => hk h ?_) (hr.2 i)
    have := le_sumCh (fun j => occ Hs (ch j) h) i
    simp only [occ]; omega

theorem storedBelow_agree {d d' : Dict Bytes} (t : Node)
    (hk : ∀ h, 0 < occProper Hs t h → Dict.get? d' h = Dict.get? d h) (hs : StoredBelow Hs d t) :
    StoredBelow Hs d' t := by
  cases t with
  | blank => trivial
  | leaf p v => trivial
  | ext p c =>
    show Ref Hs d' c
    exact ref_agree Hs c (fun h hp => hk h hp) hs
  | branch ch v =>
    intro i
    show Ref Hs d' (ch i)
    refine ref_agree Hs (ch i) (fun h hp => hk h ?_) (hs i)
    have := le_sumCh (fun j => occ Hs (ch j) h) i
    simp only [occProper]; omega

/-- `Complete` only looks at the tree, the root pointer, and the bodies under the hashes of live nodes -/
theorem complete_agree {d d' : Dict Bytes} (T T' : TrieSt) (ht : T'.tree = T.tree) (hr : T'.root = T.root)
    (hk : ∀ h, 0 < occRoot Hs T.tree h → Dict.get? d' h = Dict.get? d h)
    (hc : Complete Hs blankRootHash d T) : Complete Hs blankRootHash d' T' := by
  obtain ⟨h1, h2⟩ := hc
  unfold Complete
  rw [ht, hr]
  refine ⟨?_, storedBelow_agree Hs _ (fun h hp => hk h (by unfold occRoot; omega)) h2⟩
  cases hb : isBlank T.tree
  · rw [hb] at h1
    simp only [Bool.false_eq_true, if_false] at h1 ⊢
    refine ⟨h1.1, h1.2.1, ?_⟩
    rw [hk _ (by rw [h1.1]; simp [occRoot, hb])]
    exact h1.2.2
  · rw [hb] at h1
    simp only [if_true] at h1 ⊢
    exact h1

/-! ### what a store reads after a write / a delete -/

theorem Store.write_get? (s : Store) (h : Hash) (b : Bytes) (s' : Store) (hw : s.write h b = some s') (x : Hash) :
    s'.get? x = if x = h then some b else s.get? x := by
  obtain ⟨base, cache, fa⟩ := s
  cases cache with
  | some c =>
    simp only [Store.write, Option.some.injEq] at hw
    subst hw
    simp only [Store.get?]
    by_cases hx : x = h
    · subst hx; rw [Dict.get?_insert_self']; simp
    · rw [Dict.get?_insert_other' c h x _ hx]; simp [hx]
  | none =>
    have hb : s'.cache = none ∧ s'.base = Dict.insert base h b := by
      cases fa with
      | none => simp only [Store.write, Option.some.injEq] at hw; subst hw; exact ⟨rfl, rfl⟩
      | some n =>
        cases n with
        | zero => simp [Store.write] at hw
        | succ n => simp only [Store.write, Option.some.injEq] at hw; subst hw; exact ⟨rfl, rfl⟩
    obtain ⟨sb, sc, sf⟩ := s'
    simp only at hb
    obtain ⟨rfl, rfl⟩ := hb
    simp only [Store.get?]
    by_cases hx : x = h
    · subst hx; rw [get?_insert_self]; simp
    · rw [get?_insert_other _ _ _ _ hx]; simp [hx]

theorem Store.del_get? (s : Store) (h : Hash) (s' : Store) (hd : s.del h = some s') :
    s'.view h = false ∧ ∀ x, x ≠ h → s'.view x = s.view x ∧ s'.get? x = s.get? x := by
  obtain ⟨base, cache, fa⟩ := s
  cases cache with
  | some c =>
    simp only [Store.del, Option.some.injEq] at hd
    subst hd
    refine ⟨?_, fun x hx => ⟨?_, ?_⟩⟩
    · simp only [Store.view]; rw [Dict.get?_insert_self']
    · simp only [Store.view]; rw [Dict.get?_insert_other' c h x _ hx]
    · simp only [Store.get?]; rw [Dict.get?_insert_other' c h x _ hx]
  | none =>
    simp only [Store.del] at hd
    split at hd
    · simp only [Option.some.injEq] at hd
      subst hd
      refine ⟨?_, fun x hx => ⟨?_, ?_⟩⟩
      · simp only [Store.view]; exact Dict.contains_erase_self _ _
      · simp only [Store.view]; exact Dict.contains_erase_other _ _ _ hx
      · simp only [Store.get?]; exact Dict.get?_erase_other _ _ _ hx
    · cases hd

/-- the store reads exactly as the dict `D` -/
def ReadsAs (st : Store) (D : Dict Bytes) : Prop := ∀ x, st.get? x = Dict.get? D x

/-- every key of the would-be-committed view reads as in the dict `D` -/
def ViewAs (st : Store) (D : Dict Bytes) : Prop := ∀ x, st.view x = true → st.get? x = Dict.get? D x

theorem ReadsAs.viewAs {st : Store} {D : Dict Bytes} (h : ReadsAs st D) : ViewAs st D := fun x _ => h x

theorem readsAs_storeDb (st : Store) (hnd : st.CacheNoDup) : ReadsAs st (storeDb st) :=
  fun x => (PyTrie.HexFree.lookup_storeDb st x hnd).symm

theorem readsAs_write (s : Store) (h : Hash) (b : Bytes) (s' : Store) (hw : s.write h b = some s')
    (D : Dict Bytes) (hD : ReadsAs s D) : ReadsAs s' (Dict.insert D h b) := by
  intro x
  rw [Store.write_get? s h b s' hw x]
  by_cases hx : x = h
  · subst hx; rw [get?_insert_self]; simp
  · rw [get?_insert_other _ _ _ _ hx, hD x]; simp [hx]

theorem runEv_readsAs (p : Bool) (root key : Bytes) (s : OpSt) (e : Ev) (s1 : OpSt)
    (h : runEv p root key s e = .ok s1) (D : Dict Bytes) (hD : ReadsAs s.store D) :
    ReadsAs s1.store (applyWrites D (writesOf [e])) := by
  cases e with
  | read x =>
    simp only [runEv] at h
    split at h
    · cases h; exact hD
    · cases h
  | prune x =>
    simp only [runEv] at h
    cases h
    cases p <;> exact hD
  | persist x b =>
    simp only [runEv, setDbValue] at h
    split at h
    · cases h
    · next st hw =>
      cases h
      exact readsAs_write s.store x b st hw D hD

theorem runEvs_readsAs (p : Bool) (root key : Bytes) (es : List Ev) (s s' : OpSt)
    (h : runEvs p root key s es = (s', none)) (D : Dict Bytes) (hD : ReadsAs s.store D) :
    ReadsAs s'.store (applyWrites D (writesOf es)) := by
  induction es generalizing s D with
  | nil =>
    simp only [runEvs] at h
    cases h
    exact hD
  | cons e es ih =>
    simp only [runEvs] at h
    split at h
    · next s1 h1 =>
      have := ih s1 h _ (runEv_readsAs p root key s e s1 h1 D hD)
      rw [← applyWrites_append, ← writesOf_append] at this
      exact this
    · cases h

theorem writeRoot_readsAs (T : TrieSt) (new : Node) (s s' : OpSt) (r : Hash)
    (h : writeRoot Hs blankRootHash T new s = .ok (s', r)) (D : Dict Bytes) (hD : ReadsAs s.store D) :
    ReadsAs s'.store (applyWrites D (if isBlank new then [] else [(Hs.hashOf new, Hs.encOf new)])) ∧
      r = (if isBlank new then blankRootHash else Hs.hashOf new) := by
  unfold writeRoot at h
  cases hb : isBlank new
  · simp only [hb, Bool.false_eq_true, if_false, setDbValue] at h ⊢
    cases hw : s.store.write (Hs.hashOf new) (Hs.encOf new) with
    | none => rw [hw] at h; cases h
    | some st =>
      rw [hw] at h
      cases h
      exact ⟨readsAs_write s.store _ _ st hw D hD, rfl⟩
  · simp only [hb, if_true] at h ⊢
    cases h
    exact ⟨hD, rfl⟩

theorem pruneStep_viewAs (s : OpSt) (kn : Hash × Nat) (s' : OpSt) (h : pruneStep s kn = .ok s')
    (D : Dict Bytes) (hD : ViewAs s.store D) : ViewAs s'.store D := by
  unfold pruneStep at h
  simp only at h
  split at h
  · split at h
    · cases h
    · next st hd =>
      cases h
      obtain ⟨h1, h2⟩ := Store.del_get? s.store kn.1 st hd
      intro x hx
      have hne : x ≠ kn.1 := by
        intro e; subst e; rw [h1] at hx; cases hx
      obtain ⟨e1, e2⟩ := h2 x hne
      show st.get? x = _
      rw [e2]
      exact hD x (by rw [← e1]; exact hx)
  · cases h
    exact hD

theorem completePruning_viewAs (l : List (Hash × Nat)) (s s' : OpSt) (h : completePruning s l = (s', none))
    (D : Dict Bytes) (hD : ViewAs s.store D) : ViewAs s'.store D := by
  induction l generalizing s with
  | nil =>
    simp only [completePruning] at h
    cases h
    exact hD
  | cons kn rest ih =>
    simp only [completePruning] at h
    split at h
    · next s1 h1 => exact ih s1 h (pruneStep_viewAs s kn s1 h1 D hD)
    · cases h

theorem finishPrune_viewAs (T : TrieSt) (s s' : OpSt) (h : finishPrune T s = (s', none))
    (D : Dict Bytes) (hD : ViewAs s.store D) : ViewAs s'.store D := by
  unfold finishPrune at h
  split at h
  · exact completePruning_viewAs _ s s' h D hD
  · cases h
    exact hD

/-- a successful `set` / `delete` over any store, pruning on or off: every key of the exit view reads as in the entry
    read view after all the operation's writes -/
theorem opCore_viewAs (T : TrieSt) (key : Bytes) (val : Option Bytes) (s : OpSt) (T' : TrieSt)
    (h : (opCore Hs blankRootHash T key val s).2 = .ok T') (D : Dict Bytes) (hD : ReadsAs s.store D) :
    ViewAs (opCore Hs blankRootHash T key val s).1.store (applyWrites D (opWrites Hs T key val)) ∧
      T' = { T with tree := (opTree Hs T key val).1,
                    root := if isBlank (opTree Hs T key val).1 then blankRootHash
                            else Hs.hashOf (opTree Hs T key val).1 } := by
  unfold opCore at h ⊢
  split
  · next hr => rw [if_pos hr] at h; cases h
  · next hr =>
    rw [if_neg hr] at h
    split
    · next s1 x h1 => rw [h1] at h; cases h
    · next s1 h1 =>
      rw [h1] at h
      simp only at h
      have r1 := runEvs_readsAs T.prune T.root key _ s s1 h1 D hD
      have hst := schedOldRoot_store Hs blankRootHash T s1
      split
      · next x h3 => rw [h3] at h; cases h
      · next s3 newRoot h3 =>
        rw [h3] at h
        simp only at h
        obtain ⟨r3, e3⟩ := writeRoot_readsAs Hs blankRootHash T _ _ s3 newRoot h3 _ (by rw [hst]; exact r1)
        split
        · next s4 x h4 => rw [h4] at h; cases h
        · next s4 h4 =>
          rw [h4] at h
          simp only at h
          rw [← applyWrites_append] at r3
          refine ⟨finishPrune_viewAs T s3 s4 h4 _ r3.viewAs, ?_⟩
          cases h
          rw [e3]

/-- entering a block: the batch trie reads the outer database -/
theorem batchBegin_complete (w : World) (i : Nat) (hnb : w.batch = none)
    (hcomp : Complete Hs blankRootHash w.base (w.tries[i]!)) :
    ∃ b, (w.batchBegin i).batch = some b ∧
      Complete Hs blankRootHash (storeDb ((w.batchBegin i).batchOpSt b).store) b.trie := by
  have _ := hnb
  refine ⟨_, rfl, ?_⟩
  show Complete Hs blankRootHash w.base _
  exact hcomp

/-- one operation of the batch trie keeps the view complete for its new root -/
theorem opSetDel_prune_complete_view (T : TrieSt) (hc : Canon T.tree) (key : Bytes) (val : Option Bytes) (s : OpSt)
    (hfa : s.store.failAfter = none) (hinv : PruneInvV Hs blankRootHash T s)
    (hcomp : Complete Hs blankRootHash (storeDb s.store) T)
    (hrs : RefSound Hs T.tree (nibs key))
    (hnc : NoClobber (storeDb s.store) (opWrites Hs T key val))
    (hblank : isBlank (opTree Hs T key val).1 = false → Hs.hashOf (opTree Hs T key val).1 ≠ blankRootHash)
    (T' : TrieSt) (hok : (opSetDel Hs blankRootHash T key val s).2 = .ok T') :
    Complete Hs blankRootHash (storeDb (opSetDel Hs blankRootHash T key val s).1.store) T' := by
  -- the keys of the exit view
  obtain ⟨T'', hok', _, hpi, _⟩ := opSetDel_pruneInvV Hs blankRootHash T hc key val s hfa hinv hrs hblank
  rw [hok] at hok'
  cases hok'
  -- every key of the exit view reads as in the entry read view after the operation's writes
  have hok2 : (opCore Hs blankRootHash T key val { s with pending := [] }).2 = .ok T' := hok
  obtain ⟨hva, hT'⟩ := opCore_viewAs Hs blankRootHash T key val { s with pending := [] } T' hok2 (storeDb s.store)
    (readsAs_storeDb s.store hinv.cacheNoDup)
  have hva' : ViewAs (opSetDel Hs blankRootHash T key val s).1.store
      (applyWrites (storeDb s.store) (opWrites Hs T key val)) := hva
  generalize (opSetDel Hs blankRootHash T key val s).1 = sf at hpi hva'
  obtain ⟨hpres, hwr⟩ := applyWrites_noClobber _ _ hnc
  have hst1 : StoredBelow Hs (applyWrites (storeDb s.store) (opWrites Hs T key val)) (opTree Hs T key val).1 := by
    apply opTree_stored Hs _ T key val (storedBelow_mono Hs _ _ hpres _ hcomp.2)
    intro h b hm
    exact hwr h b (List.mem_append_left _ hm)
  have htree : T'.tree = (opTree Hs T key val).1 := by rw [hT']
  have hroot := hpi.root
  -- the entry read view after the writes is complete for the new root
  have hcD : Complete Hs blankRootHash (applyWrites (storeDb s.store) (opWrites Hs T key val)) T' := by
    refine ⟨?_, by rw [htree]; exact hst1⟩
    cases hb : isBlank T'.tree
    · rw [hb] at hroot
      simp only [Bool.false_eq_true, if_false] at hroot ⊢
      refine ⟨hroot.1, hroot.2, ?_⟩
      rw [hroot.1, htree]
      apply hwr
      unfold opWrites
      rw [htree] at hb
      simp only [hb, Bool.false_eq_true, if_false]
      exact List.mem_append_right _ (List.mem_singleton.2 rfl)
    · rw [hb] at hroot
      simp only [if_true] at hroot ⊢
      exact hroot
  -- the exit read view agrees with it on every live hash
  refine complete_agree Hs blankRootHash T' T' rfl rfl ?_ hcD
  intro h hp
  have hv := (hpi.keys h).2 hp
  rw [← readsAs_storeDb sf.store hpi.cacheNoDup h]
  exact hva' h hv

/-! ### the commit loop: bodies -/

/-- `batch_commit(do_deletes=True)` without write faults, unique cache keys: what the committed database holds under `h` -/
theorem commitLoop_get? (cache : Dict (Option Bytes)) (base : Dict Bytes) (hnd : NoDupKeys cache) (h : Hash) :
    Dict.get? (commitLoop true cache base none).2.1 h =
      match Dict.get? cache h with
      | some (some v) => some v
      | some none => none
      | none => Dict.get? base h := by
  induction cache generalizing base with
  | nil => simp [commitLoop, Dict.get?_nil]
  | cons e rest ih =>
    obtain ⟨k, o⟩ := e
    have hnd' := hnd
    unfold NoDupKeys at hnd'
    rw [List.map_cons, List.nodup_cons] at hnd'
    have hrest : Dict.contains rest k = false := by
      cases hb : Dict.contains rest k
      · rfl
      · exact absurd ((Dict.contains_iff_mem_keys rest k).1 hb) hnd'.1
    rw [Dict.get?_cons]
    cases o with
    | some v =>
      have e : (commitLoop true ((k, some v) :: rest) base none).2.1 =
          (commitLoop true rest (Dict.insert base k v) none).2.1 := by simp [commitLoop]
      rw [e, ih _ hnd'.2]
      by_cases hk : k = h
      · subst hk
        rw [Dict.get?_eq_none_of_not_contains rest k hrest, get?_insert_self]
        simp
      · have hk' : (k == h) = false := by simpa using hk
        simp only [hk', Bool.false_eq_true, if_false]
        rw [get?_insert_other _ _ _ _ (fun e => hk e.symm)]
    | none =>
      have e : (commitLoop true ((k, none) :: rest) base none).2.1 =
          (commitLoop true rest (Dict.erase base k) none).2.1 := by simp [commitLoop]
      rw [e, ih _ hnd'.2]
      by_cases hk : k = h
      · subst hk
        rw [Dict.get?_eq_none_of_not_contains rest k hrest, Dict.get?_erase_self]
        simp
      · have hk' : (k == h) = false := by simpa using hk
        simp only [hk', Bool.false_eq_true, if_false]
        rw [Dict.get?_erase_other _ _ _ (fun e => hk e.symm)]

/-- a key of the would-be-committed view is committed with the body the batch trie reads -/
theorem commitLoop_get?_of_view (cache : Dict (Option Bytes)) (base : Dict Bytes) (fa : Option Nat) (h : Hash)
    (hnd : NoDupKeys cache)
    (hv : Store.view { base := base, cache := some cache, failAfter := fa } h = true) :
    Dict.get? (commitLoop true cache base none).2.1 h =
      Store.get? { base := base, cache := some cache, failAfter := fa } h := by
  rw [commitLoop_get? _ _ hnd]
  simp only [Store.view] at hv
  simp only [Store.get?]
  cases hg : Dict.get? cache h with
  | none => rfl
  | some o =>
    cases o with
    | none => rw [hg] at hv; cases hv
    | some v => rfl

/-- a successful commit on a pruning outer trie leaves the outer database complete for the new outer root -/
theorem batchEnd_complete (w : World) (b : Batch) (hb : w.batch = some b)
    (hi : b.outer < w.tries.size) (hic : b.outer < w.counts.size)
    (hop : (w.tries[b.outer]!).prune = true) (hfa : w.failAfter = none)
    (hinv : PruneInvV Hs blankRootHash b.trie (w.batchOpSt b))
    (hcomp : Complete Hs blankRootHash (storeDb (w.batchOpSt b).store) b.trie) :
    Complete Hs blankRootHash (w.batchEnd false).2.base ((w.batchEnd false).2.tries[b.outer]!) := by
  have _ := hic
  have hnd : NoDupKeys b.cache := hinv.cacheNoDup b.cache rfl
  have hcl := commitLoop_view b.cache w.base hnd
  have hk := hinv.keys
  have hcnd := hinv.cacheNoDup
  simp only [World.batchOpSt, hfa] at hk hcomp hcnd
  have hg : ∀ h, 0 < occRoot Hs b.trie.tree h →
      Dict.get? (commitLoop true b.cache w.base none).2.1 h =
        Dict.get? (storeDb { base := w.base, cache := some b.cache, failAfter := none }) h := by
    intro h hp
    rw [commitLoop_get?_of_view _ _ none h hnd ((hk h).2 hp)]
    exact readsAs_storeDb _ hcnd h
  simp only [World.batchEnd, hb, Bool.false_eq_true, ↓reduceIte, hop, hfa]
  generalize commitLoop true b.cache w.base none = q at hcl hg ⊢
  obtain ⟨ok, base', fa'⟩ := q
  simp only at hcl hg
  obtain ⟨rfl, rfl, _⟩ := hcl
  simp only [↓reduceIte]
  have ht : (w.tries.set! b.outer { tree := b.trie.tree, root := b.trie.root, prune := true })[b.outer]! =
      { tree := b.trie.tree, root := b.trie.root, prune := true } := by
    simp [hi]
  rw [ht]
  exact complete_agree Hs blankRootHash b.trie _ rfl rfl hg hcomp

end PyTrie.HexW
