import PyTrie.Lemmas.FreePartial
import PyTrie.Lemmas.PruneBodies
import PyTrie.Lemmas.PartialInvAux
/-! **Partial consistency is an invariant** (C07 over whole histories with withheld node bodies). `RootPartial` / `PartialD`
    say: whatever the database holds under the hash of the root / of a hashed subtree of the trie's tree is that node's
    encoding (it may hold nothing). They hold of every complete database, survive the removal of any entries, and are
    preserved by every `set` / `delete` — successful or failing, pruning on or off — under the run-level no-collision
    predicates. Since the tree-free executor equals the tree-carrying one on every partially consistent state
    (`Free.op_partial`), the two stay equal along every history of operations interleaved with removals and re-insertions of
    node bodies.

    The no-collision predicates: `NoClobber` (no write is bound, in the database or by another write, to a different
    body) does not speak about nodes of the tree whose bodies are *withheld*; a write under the hash of such a node with a
    different body would break partial consistency, so the operation theorem also assumes `hold` (a write under the hash
    of a node of the old tree carries that node's encoding), the exact analogue of `partial_insert_node`'s `hnc`. -/
namespace PyTrie.HexFree
open PyTrie PyTrie.Hex PyTrie.HexD PyTrie.HexW PyTrie.HexRaw

variable (H : Bytes → Bytes)

/-! ### helpers -/

/-- the body of `PartialC` -/
def PartialBody (db : Db) (c : Node) : Prop :=
  hashOf H c ≠ blankRoot H ∧ (∀ b, lookup db (hashOf H c) = some b → b = enc H c) ∧
    rlpDecode (enc H c) = some (toItem H c)

theorem partialD_iff_allBelow (db : Db) (t : Node) :
    PartialD H db t ↔ AllBelow (stdHashing H) (PartialBody H db) t := by
  induction t with
  | blank => exact Iff.rfl
  | leaf p v => exact Iff.rfl
  | ext p c ih => exact and_congr Iff.rfl ih
  | branch ch v ih => exact forall_congr' fun i => and_congr Iff.rfl (ih i)

/-- `RootPartial` and `PartialD` only get easier when the database answers less -/
theorem rootPartial_anti (db db' : Db) (root : Hash) (t : Node)
    (hsub : ∀ b, lookup db' root = some b → lookup db root = some b)
    (h : RootPartial H db root t) : RootPartial H db' root t := by
  unfold RootPartial at h ⊢
  cases hb : isBlank t with
  | true => rw [hb] at h; simpa using h
  | false =>
    rw [hb] at h
    simp only [Bool.false_eq_true, if_false] at h ⊢
    exact ⟨h.1, h.2.1, fun b hl => h.2.2.1 b (hsub b hl), h.2.2.2⟩

theorem partialD_anti (db db' : Db) (t : Node)
    (hsub : ∀ k b, lookup db' k = some b → lookup db k = some b)
    (h : PartialD H db t) : PartialD H db' t := by
  rw [partialD_iff_allBelow] at h ⊢
  refine allBelow_mono (stdHashing H) ?_ t h
  intro n _ hn
  exact ⟨hn.1, fun b hl => hn.2.1 b (hsub _ b hl), hn.2.2⟩

theorem lookup_insert_cases (d : Dict Bytes) (h k : Hash) (x b : Bytes)
    (hl : lookup (Dict.insert d h x) k = some b) : (k = h ∧ b = x) ∨ lookup d k = some b := by
  by_cases he : k = h
  · subst he
    have := get?_insert_self d k x
    change Dict.get? (Dict.insert d k x) k = some b at hl
    rw [this] at hl
    cases hl
    exact Or.inl ⟨rfl, rfl⟩
  · change Dict.get? (Dict.insert d h x) k = some b at hl
    rw [get?_insert_other _ _ _ _ he] at hl
    exact Or.inr hl

/-- a complete database is partially consistent -/
theorem partial_of_complete (T : TrieSt) (d : Dict Bytes)
    (hcomp : Complete (stdHashing H) (blankRoot H) d T)
    (hbk : Dict.get? d (blankRoot H) = none) (hsm : ∀ h b, Dict.get? d h = some b → b.length < 2 ^ 64) :
    RootPartial H d T.root T.tree ∧ PartialD H d T.tree := by
  have hag : DbAgrees d d := fun _ => rfl
  have hC : ∀ c : Node, Dict.get? d (hashOf H c) = some (enc H c) → PartialBody H d c := by
    intro c hg
    obtain ⟨hne, hl, hd⟩ := storedC_of H hag hbk hsm c hg
    exact ⟨hne, fun b hb => by rw [hl] at hb; exact (Option.some.inj hb).symm, hd⟩
  obtain ⟨h1, h2⟩ := hcomp
  refine ⟨?_, ?_⟩
  · unfold RootPartial
    cases hb : isBlank T.tree with
    | true => rw [hb] at h1; simpa using h1
    | false =>
      rw [hb] at h1
      simp only [Bool.false_eq_true, if_false] at h1 ⊢
      obtain ⟨hr, hne, hg⟩ := h1
      have hr' : T.root = hashOf H T.tree := hr
      rw [hr'] at hg ⊢
      obtain ⟨hne', hl, hd⟩ := hC T.tree hg
      exact ⟨rfl, hne', hl, hd⟩
  · rw [partialD_iff_allBelow]
    have h2' : AllBelow (stdHashing H) (fun c => Dict.get? d (hashOf H c) = some (enc H c)) T.tree := by
      generalize T.tree = t at h2
      induction t with
      | blank => trivial
      | leaf p v => trivial
      | ext p c ih => exact ⟨h2.1, ih h2.2⟩
      | branch ch v ih => intro i; exact ⟨(h2 i).1, ih i (h2 i).2⟩
    exact allBelow_mono (stdHashing H) (fun n _ hn => hC n hn) _ h2'

/-- withholding node bodies keeps partial consistency -/
theorem partial_erase (T : TrieSt) (d : Dict Bytes) (h : Hash)
    (hp : RootPartial H d T.root T.tree ∧ PartialD H d T.tree) :
    RootPartial H (Dict.erase d h) T.root T.tree ∧ PartialD H (Dict.erase d h) T.tree := by
  have hsub : ∀ k b, lookup (Dict.erase d h) k = some b → lookup d k = some b :=
    fun k b hl => get?_erase_sub d h k b hl
  exact ⟨rootPartial_anti H d _ _ _ (hsub _) hp.1, partialD_anti H d _ _ hsub hp.2⟩

/-- supplying the body of a node of the tree keeps it.

    *Changed statement*: `hc : Canon T.tree` added. `hnc` speaks about the nodes `nodeAt` reaches, and `nodeAt` does not
    reach the child of an extension with an empty path (`nodeAt (ext [] c) (a :: k) = nodeAt c (a :: k)`); for
    `T.tree = ext [] c` with `c` a hashed leaf whose body is withheld and a node `n` with `hashOf H n = hashOf H c`,
    `enc H n ≠ enc H c`, `hashOf H n ≠ hashOf H T.tree` the original statement fails. -/
theorem partial_insert_node (T : TrieSt) (hc : Canon T.tree) (d : Dict Bytes) (n : Node)
    (hp : RootPartial H d T.root T.tree ∧ PartialD H d T.tree)
    (hnc : ∀ m : Node, hashOf H m = hashOf H n → (m = T.tree ∨ ∃ q, nodeAt T.tree q = some m) → enc H m = enc H n) :
    RootPartial H (Dict.insert d (hashOf H n) (enc H n)) T.root T.tree ∧
    PartialD H (Dict.insert d (hashOf H n) (enc H n)) T.tree := by
  obtain ⟨hroot, hst⟩ := hp
  refine ⟨?_, ?_⟩
  · unfold RootPartial at hroot ⊢
    cases hb : isBlank T.tree with
    | true => rw [hb] at hroot; simpa using hroot
    | false =>
      rw [hb] at hroot
      simp only [Bool.false_eq_true, if_false] at hroot ⊢
      obtain ⟨hr, hne, hl, hd⟩ := hroot
      refine ⟨hr, hne, ?_, hd⟩
      intro b hb'
      rcases lookup_insert_cases d _ _ _ _ hb' with ⟨hk, hx⟩ | hold
      · rw [hx]
        exact (hnc T.tree (hr ▸ hk) (Or.inl rfl)).symm
      · exact hl b hold
  · rw [partialD_iff_allBelow] at hst ⊢
    have hR : AllBelow (stdHashing H) (fun m => hashOf H m = hashOf H n → enc H m = enc H n) T.tree :=
      allBelow_of_nodeAt (stdHashing H) T.tree hc (fun q m hq _ he => hnc m he (Or.inr ⟨q, hq⟩))
    refine allBelow_mono2 (stdHashing H) ?_ T.tree hst hR
    intro m _ hm hr
    refine ⟨hm.1, ?_, hm.2.2⟩
    intro b hb'
    rcases lookup_insert_cases d _ _ _ _ hb' with ⟨hk, hx⟩ | hold
    · rw [hx]; exact (hr hk).symm
    · exact hm.2.1 b hold

/-- **every `set` / `delete` keeps partial consistency** — for the new trie when it returns, for the old one when it raises
    (whatever it raises: a missing node, a failing write at any position, a failing prune), pruning on or off.
    Side conditions on the writes: the blank-root hash is not a key, no body has 2^64 bytes.

    *Changed statement*: hypothesis `hold` added — a write under the hash of a hashed node of the old tree (or of its
    root) carries that node's encoding. `NoClobber` compares the writes with what the database *holds*; the body of a
    node of the tree that is withheld from the database is invisible to it, and a write with a different body under that
    node's hash makes the database answer wrongly for a node that is still part of the new tree (an untouched sibling)
    or of the old one (when the operation raises after the write). -/
theorem opSetDel_partial_preserved (hlen : ∀ b, (H b).length = 32) (T : TrieSt) (hc : Canon T.tree) (key : Bytes)
    (val : Option Bytes) (s : OpSt) (hcache : s.store.cache = none)
    (hroot : RootPartial H s.store.base T.root T.tree) (hst : PartialD H s.store.base T.tree)
    (hrs : RefSound (stdHashing H) T.tree (nibs key))
    (hnc : NoClobber s.store.base (opWrites (stdHashing H) T key val))
    (hold : ∀ (m : Node) (b : Bytes), (hashOf H m, b) ∈ opWrites (stdHashing H) T key val →
      (m = T.tree ∨ (isHashed H m = true ∧ ∃ q, nodeAt T.tree q = some m)) → b = enc H m)
    (hblank : isBlank (opTree (stdHashing H) T key val).1 = false → hashOf H (opTree (stdHashing H) T key val).1 ≠ blankRoot H)
    (hbk : ∀ h b, (h, b) ∈ opWrites (stdHashing H) T key val → h ≠ blankRoot H)
    (hsm : ∀ h b, (h, b) ∈ opWrites (stdHashing H) T key val → b.length < 2 ^ 64) :
    (match (opSetDel (stdHashing H) (blankRoot H) T key val s).2 with
     | .ok T' => RootPartial H (opSetDel (stdHashing H) (blankRoot H) T key val s).1.store.base T'.root T'.tree ∧
                 PartialD H (opSetDel (stdHashing H) (blankRoot H) T key val s).1.store.base T'.tree
     | .error _ => RootPartial H (opSetDel (stdHashing H) (blankRoot H) T key val s).1.store.base T.root T.tree ∧
                   PartialD H (opSetDel (stdHashing H) (blankRoot H) T key val s).1.store.base T.tree) := by
  -- not needed: the exit base is characterised for every store and every outcome
  have _ := hlen
  have _ := hcache
  have _ := hrs
  have hadds := opSetDel_adds (stdHashing H) (blankRoot H) T key val s
  generalize (opSetDel (stdHashing H) (blankRoot H) T key val s).1.store.base = base' at hadds ⊢
  -- what the exit base holds under the key of a write is that write's body
  have hwritten : ∀ h b b', (h, b) ∈ opWrites (stdHashing H) T key val → lookup base' h = some b' → b' = b := by
    intro h b b' hm hl
    rcases hadds h b' hl with h0 | hw
    · exact hnc.1 h b b' hm h0
    · exact hnc.2 h b' b hw hm
  -- the old tree is partially stored in the exit base
  have hroot' : RootPartial H base' T.root T.tree := by
    unfold RootPartial at hroot ⊢
    cases hb : isBlank T.tree with
    | true => rw [hb] at hroot; simpa using hroot
    | false =>
      rw [hb] at hroot
      simp only [Bool.false_eq_true, if_false] at hroot ⊢
      obtain ⟨hr, hne, hl, hd⟩ := hroot
      refine ⟨hr, hne, ?_, hd⟩
      intro b hb'
      rcases hadds _ b hb' with h0 | hw
      · exact hl b h0
      · exact hold T.tree b (hr ▸ hw) (Or.inl rfl)
  have hst0 := (partialD_iff_allBelow H _ _).1 hst
  have hst' : AllBelow (stdHashing H) (PartialBody H base') T.tree := by
    have hR : AllBelow (stdHashing H)
        (fun m => ∀ b, (hashOf H m, b) ∈ opWrites (stdHashing H) T key val → b = enc H m) T.tree :=
      allBelow_of_nodeAt (stdHashing H) T.tree hc (fun q m hq hh b hm => hold m b hm (Or.inr ⟨hh, q, hq⟩))
    refine allBelow_mono2 (stdHashing H) ?_ T.tree hst0 hR
    intro m _ hm hr
    refine ⟨hm.1, ?_, hm.2.2⟩
    intro b hb'
    rcases hadds _ b hb' with h0 | hw
    · exact hm.2.1 b h0
    · exact hr b hw
  split
  · next T' hok =>
    have hT' := opSetDel_ok_shape (stdHashing H) (blankRoot H) T key val s T' hok
    subst hT'
    -- a node written by the operation is partially stored in the exit base
    have hnew : ∀ n : Node, (hashOf H n, enc H n) ∈ opWrites (stdHashing H) T key val → PartialBody H base' n := by
      intro n hm
      refine ⟨hbk _ _ hm, fun b hl => hwritten _ _ b hm hl, ?_⟩
      exact rlpDecode_rlp_of_length_lt _ (hsm _ _ hm)
    refine ⟨?_, ?_⟩
    · show RootPartial H base'
        (if isBlank (opTree (stdHashing H) T key val).1 then blankRoot H
         else (stdHashing H).hashOf (opTree (stdHashing H) T key val).1) (opTree (stdHashing H) T key val).1
      unfold RootPartial
      cases hb : isBlank (opTree (stdHashing H) T key val).1 with
      | true => simp
      | false =>
        simp only [Bool.false_eq_true, if_false]
        have hm : (hashOf H (opTree (stdHashing H) T key val).1, enc H (opTree (stdHashing H) T key val).1) ∈
            opWrites (stdHashing H) T key val := by
          unfold opWrites
          simp only [hb, Bool.false_eq_true, if_false]
          exact List.mem_append_right _ (List.mem_singleton.2 rfl)
        obtain ⟨h1, h2, h3⟩ := hnew _ hm
        exact ⟨rfl, hblank hb, h2, h3⟩
    · show PartialD H base' (opTree (stdHashing H) T key val).1
      rw [partialD_iff_allBelow]
      refine opTree_allBelow (stdHashing H) T key val hst' ?_
      intro h b hm n _ hh hb
      apply hnew
      have hm' : (h, b) ∈ opWrites (stdHashing H) T key val := List.mem_append_left _ hm
      have e1 : hashOf H n = h := hh
      have e2 : enc H n = b := hb
      rw [e1, e2]; exact hm'
  · next e herr =>
    exact ⟨hroot', (partialD_iff_allBelow H _ _).2 hst'⟩

end PyTrie.HexFree
