import PyTrie.Model.HexWorld
import PyTrie.Lemmas.HexEff
import PyTrie.Lemmas.WorldMonoDict
/-! C04: a non-pruning trie only ever *adds* content-addressed entries to its database.

`opSetDel` is `HexaryTrie.set/delete` (with `_prune_on_success`) on a store; with `prune = false` and a
plain dict (`cache = none`) every database write is `db[hashOf n] = encOf n` for some node `n`.
No injectivity of the hash is assumed: an existing entry is preserved *or the run exhibits a
collision* (`Clobber`: an entry was overwritten with a different body under the same key). -/
namespace PyTrie.HexW
open PyTrie.Hex hiding get set
open PyTrie.Hex.Node

variable (Hs : Hashing) (blankRootHash : Hash)

/-- the store's dict before (`d`) and after (`d'`): every old binding is still there, unless some key
    was overwritten with a different body (which, for content-addressed writes, is a hash collision) -/
def Preserved (d d' : Dict Bytes) : Prop := ∀ h b, Dict.get? d h = some b → Dict.get? d' h = some b

/-- an overwrite with a different body happened while going from `d` to `d'` via the listed writes -/
def Clobbers (d : Dict Bytes) (writes : List (Hash × Bytes)) : Prop :=
  ∃ h b b', (h, b') ∈ writes ∧ b ≠ b' ∧ Dict.get? d h = some b

/-- every binding of `d'` is a binding of `d` or one of the writes -/
def OnlyAdds (d d' : Dict Bytes) (writes : List (Hash × Bytes)) : Prop :=
  ∀ h b, Dict.get? d' h = some b → Dict.get? d h = some b ∨ (h, b) ∈ writes

/-- the `(key, value)` pairs an event list writes -/
def writesOf : List Ev → List (Hash × Bytes)
  | [] => []
  | .persist h b :: r => (h, b) :: writesOf r
  | _ :: r => writesOf r

theorem writesOf_append (a b : List Ev) : writesOf (a ++ b) = writesOf a ++ writesOf b := by
  induction a with
  | nil => rfl
  | cons e r ih => cases e <;> simp [writesOf, ih]

/-- every write of the event list is `(hashOf n, encOf n)` for some node -/
def Addr (evs : List Ev) : Prop := ∀ e ∈ writesOf evs, ∃ n, e = (Hs.hashOf n, Hs.encOf n)

theorem Addr_nil : Addr Hs [] := by intro e he; cases he
theorem Addr_append {a b : List Ev} : Addr Hs (a ++ b) ↔ Addr Hs a ∧ Addr Hs b := by
  simp only [Addr, writesOf_append, List.mem_append]
  constructor
  · intro h; exact ⟨fun e he => h e (Or.inl he), fun e he => h e (Or.inr he)⟩
  · rintro ⟨h1, h2⟩ e (he | he)
    · exact h1 e he
    · exact h2 e he
theorem Addr_pruneEv (n : Node) : Addr Hs (pruneEv Hs n) := by
  unfold pruneEv; split <;> simp [Addr, writesOf]
theorem Addr_readEv (n : Node) : Addr Hs (readEv Hs n) := by
  unfold readEv; split <;> simp [Addr, writesOf]
theorem Addr_persistEv (n : Node) : Addr Hs (persistEv Hs n) := by
  unfold persistEv; split
  · intro e he; simp [writesOf] at he; exact ⟨n, he⟩
  · exact Addr_nil Hs
theorem Addr_ite (c : Prop) [Decidable c] (x : List Ev) (hx : Addr Hs x) : Addr Hs (if c then [] else x) := by
  split
  · exact Addr_nil Hs
  · exact hx

theorem setE_Addr (t : Node) (k : Path) (v : Bytes) : Addr Hs (setE Hs t k v).2 := by
  induction t generalizing k with
  | blank => simp [setE, Addr_nil]
  | leaf p pv =>
    simp only [setE]
    split <;> simp [Addr_append, Addr_pruneEv, Addr_persistEv, Addr_ite]
  | ext p c ih =>
    simp only [setE]
    split <;> simp [Addr_append, Addr_pruneEv, Addr_persistEv, Addr_readEv, Addr_ite, ih]
  | branch ch bv ih =>
    cases k with
    | nil => simp [setE, Addr_pruneEv]
    | cons n k => simp [setE, Addr_append, Addr_pruneEv, Addr_persistEv, Addr_readEv, ih]

theorem normalizeE_Addr (ch : Nib → Node) (v : Bytes) : Addr Hs (normalizeE Hs ch v).2 := by
  unfold normalizeE
  split
  · exact Addr_nil Hs
  · exact Addr_nil Hs
  · split <;> simp [Addr_append, Addr_pruneEv, Addr_readEv]
  · exact Addr_nil Hs

theorem deleteE_Addr (t : Node) (k : Path) : Addr Hs (deleteE Hs t k).2 := by
  induction t generalizing k with
  | blank => simp [deleteE, Addr_nil]
  | leaf p pv => simp [deleteE, Addr_pruneEv]
  | ext p c ih =>
    simp only [deleteE]
    have h := ih (k.drop p.length)
    split
    · split
      · simp [Addr_append, Addr_pruneEv, Addr_persistEv, Addr_readEv, h]
      · split <;> simp [Addr_append, Addr_pruneEv, Addr_persistEv, Addr_readEv, h]
    · exact Addr_pruneEv Hs _
  | branch ch bv ih =>
    cases k with
    | nil => simp [deleteE, Addr_append, Addr_pruneEv, normalizeE_Addr]
    | cons n k =>
      have h := ih n k
      simp only [deleteE]
      split
      · simp [Addr_append, Addr_pruneEv, Addr_persistEv, Addr_readEv, h]
      · split <;> simp [Addr_append, Addr_pruneEv, Addr_persistEv, Addr_readEv, h, normalizeE_Addr]

theorem get?_insert_self (d : Dict Bytes) (h : Hash) (b : Bytes) : Dict.get? (Dict.insert d h b) h = some b := by
  exact Dict.get?_insert_self' d h b

theorem get?_insert_other (d : Dict Bytes) (h h' : Hash) (b : Bytes) (hne : h' ≠ h) :
    Dict.get? (Dict.insert d h b) h' = Dict.get? d h' := by
  exact Dict.get?_insert_other' d h h' b hne

/-- `d'` is reachable from `d` by (some of) the writes `ws` -/
structure Good (d : Dict Bytes) (ws : List (Hash × Bytes)) (d' : Dict Bytes) : Prop where
  pres : ¬ Clobbers d ws → Preserved d d'
  adds : OnlyAdds d d' ws

theorem Good.refl (d : Dict Bytes) (ws : List (Hash × Bytes)) : Good d ws d :=
  ⟨fun _ _ _ h => h, fun _ _ h => Or.inl h⟩

theorem Good.insert {d : Dict Bytes} {ws : List (Hash × Bytes)} {d' : Dict Bytes} (g : Good d ws d')
    (h : Hash) (b : Bytes) (hm : (h, b) ∈ ws) : Good d ws (Dict.insert d' h b) := by
  constructor
  · intro hnc h0 b0 h0b
    by_cases he : h0 = h
    · subst he
      rw [get?_insert_self]
      by_cases hb : b0 = b
      · rw [hb]
      · exact absurd ⟨h0, b0, b, hm, hb, h0b⟩ hnc
    · rw [get?_insert_other _ _ _ _ he]
      exact g.pres hnc h0 b0 h0b
  · intro h0 b0 h0b
    by_cases he : h0 = h
    · subst he
      rw [get?_insert_self] at h0b
      cases h0b
      exact Or.inr hm
    · rw [get?_insert_other _ _ _ _ he] at h0b
      exact g.adds h0 b0 h0b

theorem Good.final {d : Dict Bytes} {ws : List (Hash × Bytes)} {d' : Dict Bytes} (g : Good d ws d') :
    (Preserved d d' ∨ Clobbers d ws) ∧ OnlyAdds d d' ws := by
  refine ⟨?_, g.adds⟩
  rcases Classical.em (Clobbers d ws) with hc | hc
  · exact Or.inr hc
  · exact Or.inl (g.pres hc)

theorem write_plain (s : Store) (hc : s.cache = none) (h : Hash) (b : Bytes) (s' : Store)
    (hw : s.write h b = some s') : s'.cache = none ∧ s'.base = Dict.insert s.base h b := by
  unfold Store.write at hw
  rw [hc] at hw
  simp only at hw
  split at hw
  · cases hw
  · cases hw; exact ⟨rfl, rfl⟩
  · cases hw; exact ⟨rfl, rfl⟩

theorem setDbValue_plain (s : OpSt) (hc : s.store.cache = none) (h : Hash) (b : Bytes) (s' : OpSt)
    (hw : setDbValue false s h b = .ok s') :
    s'.store.cache = none ∧ s'.store.base = Dict.insert s.store.base h b := by
  unfold setDbValue at hw
  split at hw
  · cases hw
  · next st hst =>
    cases hw
    exact write_plain s.store hc h b st hst

theorem runEv_plain (root key : Bytes) (s : OpSt) (hc : s.store.cache = none) (e : Ev) (s' : OpSt)
    (hr : runEv false root key s e = .ok s') :
    s'.store.cache = none ∧
      (s'.store.base = s.store.base ∨ ∃ h b, e = .persist h b ∧ s'.store.base = Dict.insert s.store.base h b) := by
  cases e with
  | read x =>
    simp only [runEv] at hr
    split at hr
    · cases hr; exact ⟨hc, Or.inl rfl⟩
    · cases hr
  | prune x =>
    simp only [runEv] at hr
    cases hr; exact ⟨hc, Or.inl rfl⟩
  | persist x b =>
    simp only [runEv] at hr
    obtain ⟨h1, h2⟩ := setDbValue_plain s hc x b s' hr
    exact ⟨h1, Or.inr ⟨x, b, rfl, h2⟩⟩

theorem mem_writesOf_persist (h : Hash) (b : Bytes) (es : List Ev) : (h, b) ∈ writesOf (.persist h b :: es) := by
  simp [writesOf]

theorem writesOf_subset_cons (e : Ev) (es : List Ev) : ∀ x ∈ writesOf es, x ∈ writesOf (e :: es) := by
  intro x hx
  cases e <;> simp [writesOf, hx]

theorem runEvs_plain (root key : Bytes) (d : Dict Bytes) (ws : List (Hash × Bytes)) (es : List Ev) (s : OpSt)
    (hc : s.store.cache = none) (g : Good d ws s.store.base) (hsub : ∀ x ∈ writesOf es, x ∈ ws) :
    (runEvs false root key s es).1.store.cache = none ∧ Good d ws (runEvs false root key s es).1.store.base := by
  induction es generalizing s with
  | nil => exact ⟨hc, g⟩
  | cons e es ih =>
    simp only [runEvs]
    split
    · next s' h =>
      obtain ⟨h1, h2⟩ := runEv_plain root key s hc e s' h
      have hsub' : ∀ x ∈ writesOf es, x ∈ ws := fun x hx => hsub x (writesOf_subset_cons e es x hx)
      refine ih s' h1 ?_ hsub'
      rcases h2 with h2 | ⟨x, b, rfl, h2⟩
      · rw [h2]; exact g
      · rw [h2]; exact g.insert x b (hsub _ (mem_writesOf_persist x b es))
    · exact ⟨hc, g⟩

theorem schedOldRoot_noprune (T : TrieSt) (hp : T.prune = false) (s : OpSt) :
    schedOldRoot Hs blankRootHash T s = s := by
  unfold schedOldRoot; simp [hp]

theorem finishPrune_noprune (T : TrieSt) (hp : T.prune = false) (s : OpSt) : finishPrune T s = (s, none) := by
  unfold finishPrune; simp [hp]

theorem writeRoot_plain (T : TrieSt) (hp : T.prune = false) (new : Node) (s : OpSt) (hc : s.store.cache = none)
    (d : Dict Bytes) (ws : List (Hash × Bytes)) (g : Good d ws s.store.base)
    (hm : (Hs.hashOf new, Hs.encOf new) ∈ ws) (s' : OpSt) (r : Hash)
    (hw : writeRoot Hs blankRootHash T new s = .ok (s', r)) :
    s'.store.cache = none ∧ Good d ws s'.store.base := by
  unfold writeRoot at hw
  rw [hp] at hw
  split at hw
  · cases hw; exact ⟨hc, g⟩
  · split at hw
    · next s1 h1 =>
      cases hw
      obtain ⟨a, b⟩ := setDbValue_plain s hc _ _ s' h1
      exact ⟨a, b ▸ g.insert _ _ hm⟩
    · cases hw

theorem opCore_plain (T : TrieSt) (hp : T.prune = false) (key : Bytes) (val : Option Bytes)
    (s : OpSt) (hc : s.store.cache = none) :
    let ws := writesOf (opTree Hs T key val).2 ++ [(Hs.hashOf (opTree Hs T key val).1, Hs.encOf (opTree Hs T key val).1)]
    (opCore Hs blankRootHash T key val s).1.store.cache = none ∧
    Good s.store.base ws (opCore Hs blankRootHash T key val s).1.store.base := by
  intro ws
  have g0 : Good s.store.base ws s.store.base := Good.refl _ _
  unfold opCore
  split
  · exact ⟨hc, g0⟩
  · rw [hp]
    have h1 := runEvs_plain T.root key s.store.base ws (opTree Hs T key val).2 s hc g0
      (fun x hx => List.mem_append_left _ hx)
    split
    · next s1 x he => rw [he] at h1; exact h1
    · next s1 he =>
      rw [he] at h1
      rw [schedOldRoot_noprune Hs blankRootHash T hp]
      split
      · exact h1
      · next s3 newRoot hw =>
        have h3 := writeRoot_plain Hs blankRootHash T hp _ s1 h1.1 _ ws h1.2
          (List.mem_append_right _ (List.mem_singleton.2 rfl)) s3 newRoot hw
        rw [finishPrune_noprune T hp]
        exact h3

/-- every persist of `setE` / `deleteE` is content addressed: key = `hashOf n`, body = `encOf n` of one node -/
theorem setE_writes_addressed (t : Node) (k : Path) (v : Bytes) :
    ∀ e ∈ writesOf (setE Hs t k v).2, ∃ n, e = (Hs.hashOf n, Hs.encOf n) := by
  exact setE_Addr Hs t k v

theorem deleteE_writes_addressed (t : Node) (k : Path) :
    ∀ e ∈ writesOf (deleteE Hs t k).2, ∃ n, e = (Hs.hashOf n, Hs.encOf n) := by
  exact deleteE_Addr Hs t k

/-- **set/delete on a non-pruning trie over a plain dict**: whatever happens (success, a missing
    node, a failing write at any position) the database afterwards contains every old binding unchanged —
    or a binding was overwritten with a different body under the same hash — and everything new is one of
    the operation's content-addressed writes; nothing is ever deleted. -/
theorem opSetDel_noprune_db (T : TrieSt) (hp : T.prune = false) (key : Bytes) (val : Option Bytes)
    (s : OpSt) (hc : s.store.cache = none) :
    let r := opSetDel Hs blankRootHash T key val s
    let ws := writesOf (opTree Hs T key val).2 ++ [(Hs.hashOf (opTree Hs T key val).1, Hs.encOf (opTree Hs T key val).1)]
    r.1.store.cache = none ∧
    (Preserved s.store.base r.1.store.base ∨ Clobbers s.store.base ws) ∧
    OnlyAdds s.store.base r.1.store.base ws := by
  intro r ws
  have h := opCore_plain Hs blankRootHash T hp key val { s with pending := [] } hc
  exact ⟨h.1, h.2.final⟩

/-- a failed operation leaves the trie (root pointer and tree) as it was: the world keeps its `TrieSt`
    unless `opSetDel` returns `.ok` -/
theorem setDel_error_keeps_tries (w : World) (i : Nat) (key : Bytes) (val : Option Bytes) (e : Exn)
    (h : (w.setDel Hs blankRootHash (.trie i) key val).1 = .error e) :
    (w.setDel Hs blankRootHash (.trie i) key val).2.tries = w.tries := by
  simp only [World.setDel] at h ⊢
  generalize opSetDel Hs blankRootHash w.tries[i]! key val (w.opSt i) = q at h ⊢
  obtain ⟨st', r⟩ := q
  cases r with
  | ok T' => simp at h
  | error x => rfl

theorem commitLoop_good (d : Dict Bytes) (ws : List (Hash × Bytes)) (cache : List (Hash × Option Bytes))
    (base : Dict Bytes) (fa : Option Nat) (g : Good d ws base)
    (hsub : ∀ x ∈ cache.filterMap (fun e => e.2.map (fun v => (e.1, v))), x ∈ ws) :
    Good d ws (commitLoop false cache base fa).2.1 := by
  induction cache generalizing base fa with
  | nil => exact g
  | cons e rest ih =>
    obtain ⟨k, v⟩ := e
    cases v with
    | none =>
      simp only [commitLoop]
      exact ih base fa g (fun x hx => hsub x (by simpa [List.filterMap_cons] using hx))
    | some v =>
      have hm : (k, v) ∈ ws := hsub _ (by simp)
      have hsub' : ∀ x ∈ rest.filterMap (fun e => e.2.map (fun v => (e.1, v))), x ∈ ws :=
        fun x hx => hsub x (by simp only [List.filterMap_cons, Option.map_some, List.mem_cons]; exact Or.inr hx)
      cases fa with
      | none => simp only [commitLoop]; exact ih _ _ (g.insert k v hm) hsub'
      | some n =>
        cases n with
        | zero => simp only [commitLoop]; exact g
        | succ n => simp only [commitLoop]; exact ih _ _ (g.insert k v hm) hsub'

/-- `ScratchDB.batch_commit` without deletes (non-pruning outer trie): the commit loop only inserts;
    this holds for every prefix of the loop, i.e. also when a write fails midway -/
theorem commitLoop_noDeletes (cache : List (Hash × Option Bytes)) (base : Dict Bytes) (fa : Option Nat) :
    let r := commitLoop false cache base fa
    let ws := cache.filterMap (fun e => e.2.map (fun v => (e.1, v)))
    (Preserved base r.2.1 ∨ Clobbers base ws) ∧ OnlyAdds base r.2.1 ws := by
  intro r ws
  exact (commitLoop_good base ws cache base fa (Good.refl _ _) (fun _ hx => hx)).final

end PyTrie.HexW
