import PyTrie.Model.Fog
import PyTrie.Lemmas.HexDbProofs
import PyTrie.Lemmas.PathOrder
/-! `HexaryTrieFog` as a strictly sorted, prefix-free list of nibble paths. -/
namespace PyTrie.Fog
open PyTrie.Hex

def Sorted (f : Fog) : Prop := f.Pairwise (fun a b => plt a b = true)
/-- INVARIANT of the class: no unexplored prefix starts with another one -/
def Antichain (f : Fog) : Prop := ∀ a ∈ f, ∀ b ∈ f, a <+: b → a = b
def Wf (f : Fog) : Prop := Sorted f ∧ Antichain f

/-! ### `insert`, `erase` -/

theorem mem_insert (f : Fog) (p q : Path) : q ∈ insert f p ↔ q = p ∨ q ∈ f := by
  induction f with
  | nil => simp [insert]
  | cons x rest ih =>
    unfold insert
    split
    · simp
    · split
      · next h => subst h; simp
      · simp [ih]; grind

theorem sorted_insert (f : Fog) (hs : Sorted f) (p : Path) : Sorted (insert f p) := by
  induction f with
  | nil => simp [insert, Sorted]
  | cons x rest ih =>
    have ⟨hx, hr⟩ := List.pairwise_cons.1 hs
    unfold insert
    split
    · next h =>
      refine List.pairwise_cons.2 ⟨?_, hs⟩
      intro a ha
      rcases List.mem_cons.1 ha with rfl | ha
      · exact h
      · exact plt_trans h (hx a ha)
    · split
      · exact hs
      · next h1 h2 =>
        refine List.pairwise_cons.2 ⟨?_, ih hr⟩
        intro a ha
        rcases (mem_insert rest p a).1 ha with rfl | ha
        · rcases plt_total a x with h | h | h
          · exact absurd h h1
          · exact absurd h h2
          · exact h
        · exact hx a ha

theorem mem_foldl_insert (l : List Path) (f : Fog) (q : Path) :
    q ∈ l.foldl insert f ↔ q ∈ l ∨ q ∈ f := by
  induction l generalizing f with
  | nil => simp
  | cons x xs ih => simp [ih, mem_insert]; grind

theorem sorted_foldl_insert (l : List Path) (f : Fog) (hs : Sorted f) : Sorted (l.foldl insert f) := by
  induction l generalizing f with
  | nil => exact hs
  | cons x xs ih => exact ih _ (sorted_insert f hs x)

theorem mem_erase (f : Fog) (p q : Path) : q ∈ erase f p ↔ q ∈ f ∧ q ≠ p := by
  simp [erase]

theorem sorted_erase (f : Fog) (hs : Sorted f) (p : Path) : Sorted (erase f p) :=
  List.Pairwise.sublist List.filter_sublist hs

theorem wf_init : Wf init := by
  refine ⟨by simp [init, Sorted], ?_⟩
  intro a ha b hb _
  simp [init] at ha hb
  rw [ha, hb]

theorem isComplete_iff (f : Fog) : isComplete f = true ↔ f = [] := by
  simp [isComplete]

theorem nested_iff (subs : List Path) :
    ((subs.map List.length).eraseDups.length > 1 && nestedSegment subs) = false ↔
      (∀ a ∈ subs, ∀ b ∈ subs, a <+: b → a = b) := by
  constructor
  · intro h a ha b hb hab
    apply Classical.byContradiction
    intro hne
    have hlen : a.length < b.length := by
      have h1 := hab.length_le
      rcases Nat.lt_or_ge a.length b.length with h2 | h2
      · exact h2
      · exact absurd (hab.eq_of_length (by omega)) hne
    have hnest : nestedSegment subs = true := by
      simp only [nestedSegment, List.any_eq_true, Bool.and_eq_true, decide_eq_true_eq]
      refine ⟨b, hb, a.length, List.mem_map.2 ⟨a, ha, rfl⟩, hlen, ?_⟩
      rw [← List.prefix_iff_eq_take.1 hab]
      simpa using ha
    have h2 : 1 < (subs.map List.length).eraseDups.length := by
      have ma : a.length ∈ (subs.map List.length).eraseDups :=
        List.mem_eraseDups.2 (List.mem_map.2 ⟨a, ha, rfl⟩)
      have mb : b.length ∈ (subs.map List.length).eraseDups :=
        List.mem_eraseDups.2 (List.mem_map.2 ⟨b, hb, rfl⟩)
      generalize (subs.map List.length).eraseDups = l at ma mb
      match l, ma, mb with
      | [], ma, _ => simp at ma
      | [x], ma, mb => simp at ma mb; omega
      | _ :: _ :: _, _, _ => simp
    simp [hnest, h2] at h
  · intro h
    have : nestedSegment subs = false := by
      cases hn : nestedSegment subs with
      | false => rfl
      | true =>
        simp only [nestedSegment, List.any_eq_true, Bool.and_eq_true, decide_eq_true_eq] at hn
        obtain ⟨seg, hseg, n, _, hlt, hmem⟩ := hn
        have hmem' : seg.take n ∈ subs := by simpa using hmem
        have := h _ hmem' _ hseg (List.take_prefix n seg)
        have hl := congrArg List.length this
        simp at hl; omega
    simp [this]

theorem explore_eq_ok_iff (f : Fog) (old : Path) (subs : List Path) (f' : Fog) :
    explore f old subs = .ok f' ↔
      (old ∈ f ∧ subs.Nodup ∧ (∀ a ∈ subs, ∀ b ∈ subs, a <+: b → a = b)) ∧
        f' = (subs.map (old ++ ·)).foldl insert (erase f old) := by
  rw [← nested_iff]
  unfold explore
  by_cases h1 : old ∈ f
  · by_cases h2 : subs.Nodup
    · cases h3 : ((subs.map List.length).eraseDups.length > 1 && nestedSegment subs)
      · simp [h1, h2]; exact eq_comm
      · simp [h1, h2]
    · simp [h1, h2]
  · simp [h1]

theorem explore_ok_iff (f : Fog) (old : Path) (subs : List Path) :
    (∃ f', explore f old subs = .ok f') ↔
      old ∈ f ∧ subs.Nodup ∧ (∀ a ∈ subs, ∀ b ∈ subs, a <+: b → a = b) := by
  simp only [explore_eq_ok_iff]
  constructor
  · rintro ⟨_, h, _⟩; exact h
  · intro h; exact ⟨_, h, rfl⟩

theorem explore_err (f : Fog) (old : Path) (subs : List Path) (e : Err) (h : explore f old subs = .error e) :
    e = .validation := by
  unfold explore at h
  split at h
  · cases h; rfl
  · split at h
    · cases h; rfl
    · split at h
      · cases h; rfl
      · cases h

theorem explore_mem {f : Fog} {old : Path} {subs : List Path} {f' : Fog}
    (h : explore f old subs = .ok f') (q : Path) :
    q ∈ f' ↔ (q ∈ f ∧ q ≠ old) ∨ ∃ s ∈ subs, q = old ++ s := by
  obtain ⟨_, rfl⟩ := (explore_eq_ok_iff f old subs f').1 h
  rw [mem_foldl_insert, mem_erase, List.mem_map]
  constructor
  · rintro (⟨s, hs, rfl⟩ | h)
    · exact Or.inr ⟨s, hs, rfl⟩
    · exact Or.inl h
  · rintro (h | ⟨s, hs, rfl⟩)
    · exact Or.inr h
    · exact Or.inl ⟨s, hs, rfl⟩

theorem explore_spec (f : Fog) (hw : Wf f) (old : Path) (subs : List Path) (f' : Fog)
    (h : explore f old subs = .ok f') :
    Wf f' ∧ ∀ q, q ∈ f' ↔ (q ∈ f ∧ q ≠ old) ∨ ∃ s ∈ subs, q = old ++ s := by
  refine ⟨⟨?_, ?_⟩, explore_mem h⟩
  · obtain ⟨_, rfl⟩ := (explore_eq_ok_iff f old subs f').1 h
    exact sorted_foldl_insert _ _ (sorted_erase f hw.1 old)
  · obtain ⟨⟨hold, _, hanti⟩, _⟩ := (explore_eq_ok_iff f old subs f').1 h
    intro a ha b hb hab
    rcases (explore_mem h a).1 ha with ⟨ha, hane⟩ | ⟨s, hs, rfl⟩ <;>
      rcases (explore_mem h b).1 hb with ⟨hb, hbne⟩ | ⟨t, ht, rfl⟩
    · exact hw.2 a ha b hb hab
    · exfalso
      rcases List.prefix_or_prefix_of_prefix hab (List.prefix_append old t) with h1 | h1
      · exact hane (hw.2 a ha old hold h1)
      · exact hane (hw.2 old hold a ha h1).symm
    · exfalso
      exact hbne (hw.2 old hold b hb ((List.prefix_append old s).trans hab)).symm
    · rw [List.prefix_append_right_inj] at hab
      rw [hanti s hs t ht hab]

theorem sorted_ext (f g : Fog) (hf : Sorted f) (hg : Sorted g) (h : ∀ q, q ∈ f ↔ q ∈ g) : f = g := by
  induction f generalizing g with
  | nil =>
    cases g with
    | nil => rfl
    | cons y ys => have := (h y).2 List.mem_cons_self; simp at this
  | cons x xs ih =>
    cases g with
    | nil => have := (h x).1 List.mem_cons_self; simp at this
    | cons y ys =>
      have ⟨hx, hxs⟩ := List.pairwise_cons.1 hf
      have ⟨hy, hys⟩ := List.pairwise_cons.1 hg
      have hxy : x = y := by
        rcases List.mem_cons.1 ((h x).1 List.mem_cons_self) with e | hx'
        · exact e
        · rcases List.mem_cons.1 ((h y).2 List.mem_cons_self) with e | hy'
          · exact e.symm
          · have h1 := hy x hx'
            have h2 := hx y hy'
            rw [plt_asymm h1] at h2; exact absurd h2 (by simp)
      subst hxy
      congr 1
      apply ih _ hxs hys
      intro q
      constructor
      · intro hq
        rcases List.mem_cons.1 ((h q).1 (List.mem_cons_of_mem _ hq)) with e | h'
        · subst e; exact absurd (hx q hq) (by simp [plt_irrefl])
        · exact h'
      · intro hq
        rcases List.mem_cons.1 ((h q).2 (List.mem_cons_of_mem _ hq)) with e | h'
        · subst e; exact absurd (hy q hq) (by simp [plt_irrefl])
        · exact h'

theorem explore_comm (f : Fog) (hw : Wf f) (p q : Path) (hpq : p ≠ q) (s₁ s₂ : List Path)
    (f₁ f₁₂ f₂ f₂₁ : Fog)
    (h1 : explore f p s₁ = .ok f₁) (h12 : explore f₁ q s₂ = .ok f₁₂)
    (h2 : explore f q s₂ = .ok f₂) (h21 : explore f₂ p s₁ = .ok f₂₁) : f₁₂ = f₂₁ := by
  have w1 := (explore_spec f hw p s₁ f₁ h1).1
  have w2 := (explore_spec f hw q s₂ f₂ h2).1
  have w12 := (explore_spec f₁ w1 q s₂ f₁₂ h12).1
  have w21 := (explore_spec f₂ w2 p s₁ f₂₁ h21).1
  have hp : p ∈ f := ((explore_eq_ok_iff _ _ _ _).1 h1).1.1
  have hq : q ∈ f := ((explore_eq_ok_iff _ _ _ _).1 h2).1.1
  have e1 : ∀ s, p ++ s ≠ q := fun s e =>
    hpq (hw.2 p hp q hq (e ▸ List.prefix_append p s))
  have e2 : ∀ s, q ++ s ≠ p := fun s e =>
    hpq (hw.2 q hq p hp (e ▸ List.prefix_append q s)).symm
  apply sorted_ext _ _ w12.1 w21.1
  intro x
  rw [explore_mem h12, explore_mem h21, explore_mem h1, explore_mem h2]
  constructor
  · rintro (⟨⟨hx, hxp⟩ | ⟨s, hs, rfl⟩, hxq⟩ | ⟨s, hs, rfl⟩)
    · exact Or.inl ⟨Or.inl ⟨hx, hxq⟩, hxp⟩
    · exact Or.inr ⟨s, hs, rfl⟩
    · exact Or.inl ⟨Or.inr ⟨s, hs, rfl⟩, e2 s⟩
  · rintro (⟨⟨hx, hxp⟩ | ⟨s, hs, rfl⟩, hxq⟩ | ⟨s, hs, rfl⟩)
    · exact Or.inl ⟨Or.inl ⟨hx, hxq⟩, hxp⟩
    · exact Or.inr ⟨s, hs, rfl⟩
    · exact Or.inl ⟨Or.inr ⟨s, hs, rfl⟩, e1 s⟩

theorem explore_comm_ok (f : Fog) (hw : Wf f) (p q : Path) (hpq : p ≠ q) (s₁ s₂ : List Path)
    (f₁ f₁₂ : Fog) (h1 : explore f p s₁ = .ok f₁) (h12 : explore f₁ q s₂ = .ok f₁₂) (hq : q ∈ f) :
    ∃ f₂ f₂₁, explore f q s₂ = .ok f₂ ∧ explore f₂ p s₁ = .ok f₂₁ := by
  have _ := hw  -- well-formedness is not needed for this direction
  have a1 := ((explore_eq_ok_iff _ _ _ _).1 h1).1
  have a12 := ((explore_eq_ok_iff _ _ _ _).1 h12).1
  obtain ⟨f₂, h2⟩ := (explore_ok_iff f q s₂).2 ⟨hq, a12.2⟩
  have hp2 : p ∈ f₂ := (explore_mem h2 p).2 (Or.inl ⟨a1.1, hpq⟩)
  obtain ⟨f₂₁, h21⟩ := (explore_ok_iff f₂ p s₁).2 ⟨hp2, a1.2⟩
  exact ⟨f₂, f₂₁, h2, h21⟩

theorem explore_nil (g : Fog) (p : Path) :
    explore g p [] = if g.contains p then .ok (erase g p) else .error .validation := by
  unfold explore
  by_cases h : p ∈ g <;> simp [h, nestedSegment]

theorem markAllComplete_eq_fold (f : Fog) (ps : List Path) :
    markAllComplete f ps = ps.foldlM (fun g p => explore g p []) f := by
  induction ps generalizing f with
  | nil => rfl
  | cons p ps ih =>
    rw [List.foldlM_cons, explore_nil, markAllComplete]
    split
    · rw [ih]; rfl
    · rfl

theorem insert_append_last (g : Fog) (x : Path) (h : ∀ a ∈ g, plt a x = true) :
    insert g x = g ++ [x] := by
  induction g with
  | nil => rfl
  | cons y ys ih =>
    have hy := h y List.mem_cons_self
    have h1 : plt x y = false := plt_asymm hy
    have h2 : x ≠ y := (plt_ne hy).symm
    simp [insert, h1, h2, ih (fun a ha => h a (List.mem_cons_of_mem _ ha))]

theorem foldl_insert_sorted (f g : Fog) (hs : Sorted (g ++ f)) : f.foldl insert g = g ++ f := by
  induction f generalizing g with
  | nil => simp
  | cons x xs ih =>
    have hs' : Sorted ((g ++ [x]) ++ xs) := by simpa using hs
    rw [List.foldl_cons, insert_append_last, ih _ hs']
    · simp
    · intro a ha
      have := List.pairwise_append.1 hs
      exact this.2.2 a ha x List.mem_cons_self

theorem deserialize_serialize (f : Fog) (hs : Sorted f) : deserialize (serialize f) = some f := by
  have h : ((serialize f).mapM fun b => (HexD.hpDecode b).map (·.1)) = some f := by
    unfold serialize
    induction f with
    | nil => rfl
    | cons x xs ih =>
      have := ih (List.pairwise_cons.1 hs).2
      simp [List.mapM_cons, HexD.hpDecode_hp, this]
  unfold deserialize
  rw [h]
  simp [foldl_insert_sorted f [] (by simpa using hs)]

/-! ### the split of a sorted fog around a key -/

theorem bisect_view (f : Fog) (key : Path) (hs : Sorted f) :
    ∃ L R, f = L ++ R ∧ bisect f key = L.length ∧
      (∀ a ∈ L, plt key a = false) ∧ (∀ b ∈ R, plt key b = true) := by
  induction f with
  | nil => exact ⟨[], [], rfl, rfl, by simp, by simp⟩
  | cons x xs ih =>
    have ⟨hx, hxs⟩ := List.pairwise_cons.1 hs
    cases hk : plt key x with
    | true =>
      refine ⟨[], x :: xs, rfl, by simp [bisect, hk], by simp, ?_⟩
      intro b hb
      rcases List.mem_cons.1 hb with rfl | hb
      · exact hk
      · exact plt_trans hk (hx b hb)
    | false =>
      obtain ⟨L, R, e, hb, hL, hR⟩ := ih hxs
      refine ⟨x :: L, R, by rw [e]; rfl, ?_, ?_, hR⟩
      · simp only [bisect] at hb ⊢
        simp [hk, hb]
      · intro a ha
        rcases List.mem_cons.1 ha with rfl | ha
        · exact hk
        · exact hL a ha

theorem sorted_mid {L : Fog} {m : Path} {R : Fog} (hs : Sorted (L ++ m :: R)) :
    (∀ a ∈ L, plt a m = true) ∧ (∀ b ∈ R, plt m b = true) := by
  have h := List.pairwise_append.1 hs
  exact ⟨fun a ha => h.2.2 a ha m List.mem_cons_self, (List.pairwise_cons.1 h.2.1).1⟩

/-- the unexplored prefix containing the key is the last element `≤ key` -/
theorem containing_is_left {L : Fog} {left : Path} {R : Fog} {key q : Path}
    (hw : Wf (L ++ left :: R))
    (hL : ∀ a ∈ L ++ [left], plt key a = false) (hR : ∀ b ∈ R, plt key b = true)
    (hq : q ∈ L ++ left :: R) (hqk : q <+: key) : q = left := by
  have ⟨m1, m2⟩ := sorted_mid hw.1
  have hkq := prefix_le hqk
  have h1 : plt left q = false := by
    rcases List.mem_append.1 hq with h | h
    · exact plt_asymm (m1 q h)
    · rcases List.mem_cons.1 h with rfl | h
      · exact plt_irrefl _
      · rw [hR q h] at hkq; exact absurd hkq (by simp)
  have h2 : plt key left = false := hL left (by simp)
  exact hw.2 q hq left (by simp) (prefix_between hqk h1 h2)

theorem no_containing_of_nil_left {R : Fog} {key q : Path}
    (hR : ∀ b ∈ R, plt key b = true) (hq : q ∈ R) : ¬ q <+: key := by
  intro hqk
  have := prefix_le hqk
  rw [hR q hq] at this; exact absurd this (by simp)

theorem adj_left {L : Fog} {left : Path} {R : Fog} {key : Path}
    (hs : Sorted (L ++ left :: R))
    (hL : ∀ a ∈ L ++ [left], plt key a = false) (hR : ∀ b ∈ R, plt key b = true) :
    ∀ q ∈ L ++ left :: R,
      ¬ (plt left q = true ∧ plt q key = true) ∧ ¬ (plt key q = true ∧ plt q left = true) := by
  have ⟨m1, m2⟩ := sorted_mid hs
  intro q hq
  rcases List.mem_append.1 hq with h | h
  · have := plt_asymm (m1 q h)
    have := hL q (by simp [h])
    simp [*]
  · rcases List.mem_cons.1 h with rfl | h
    · simp [plt_irrefl]
    · have := plt_asymm (m2 q h)
      have := plt_asymm (hR q h)
      simp [*]

theorem adj_right {L : Fog} {right : Path} {R : Fog} {key : Path}
    (hs : Sorted (L ++ right :: R))
    (hL : ∀ a ∈ L, plt key a = false) (hR : ∀ b ∈ right :: R, plt key b = true) :
    ∀ q ∈ L ++ right :: R,
      ¬ (plt right q = true ∧ plt q key = true) ∧ ¬ (plt key q = true ∧ plt q right = true) := by
  have ⟨m1, m2⟩ := sorted_mid hs
  intro q hq
  rcases List.mem_append.1 hq with h | h
  · have := plt_asymm (m1 q h)
    have := hL q h
    simp [*]
  · rcases List.mem_cons.1 h with rfl | h
    · simp [plt_irrefl]
    · have := plt_asymm (m2 q h)
      have := plt_asymm (hR q (by simp [h]))
      simp [*]

theorem right_least {L : Fog} {right : Path} {R : Fog} {key : Path}
    (hs : Sorted (L ++ right :: R)) (hL : ∀ a ∈ L, plt key a = false) :
    ∀ q ∈ L ++ right :: R, plt key q = true → plt q right = false := by
  have ⟨m1, m2⟩ := sorted_mid hs
  intro q hq hk
  rcases List.mem_append.1 hq with h | h
  · rw [hL q h] at hk; exact absurd hk (by simp)
  · rcases List.mem_cons.1 h with rfl | h
    · exact plt_irrefl _
    · exact plt_asymm (m2 q h)

/-! ### evaluation of the two queries on a split fog -/

theorem nearestRight_eval0 (R : Fog) (key : Path) (h : bisect R key = 0) :
    nearestRight R key = match R with | [] => .error .perfect | x :: _ => .ok x := by
  cases R with
  | nil => rfl
  | cons x xs => simp [nearestRight, h]

theorem nearestRight_eval1 (L : Fog) (left : Path) (R : Fog) (key : Path)
    (h : bisect (L ++ left :: R) key = L.length + 1) :
    nearestRight (L ++ left :: R) key =
      if left <+: key then .ok left
      else match R.head? with | some x => .ok x | none => .error .fullDir := by
  simp only [nearestRight, h]
  have e1 : (L ++ left :: R).getD (L.length + 1 - 1) [] = left := by
    simp [List.getD_eq_getElem?_getD]
  have e2 : (L ++ left :: R)[L.length + 1]? = R.head? := by
    rw [List.getElem?_append_right (by omega)]
    cases R <;> simp
  rw [e1, e2, if_neg (by omega)]
  split
  · rfl
  · cases R <;> rfl

theorem nearestUnknown_eval0 (R : Fog) (key : Path) (h : bisect R key = 0) :
    nearestUnknown R key = match R with | [] => .error .perfect | x :: _ => .ok x := by
  cases R with
  | nil => rfl
  | cons x xs => simp [nearestUnknown, h]

theorem nearestUnknown_eval1 (L : Fog) (left : Path) (key : Path)
    (h : bisect (L ++ [left]) key = L.length + 1) :
    nearestUnknown (L ++ [left]) key = .ok left := by
  simp [nearestUnknown, h]

theorem nearestUnknown_eval2 (L : Fog) (left right : Path) (R : Fog) (key : Path)
    (h : bisect (L ++ left :: right :: R) key = L.length + 1) :
    nearestUnknown (L ++ left :: right :: R) key =
      if ilt (prefixDistance left key) (prefixDistance key right) then .ok left else .ok right := by
  simp only [nearestUnknown, h]
  have e1 : (L ++ left :: right :: R).getD (L.length + 1 - 1) [] = left := by
    simp [List.getD_eq_getElem?_getD]
  have e2 : (L ++ left :: right :: R).getD (L.length + 1) [] = right := by
    rw [List.getD_eq_getElem?_getD, List.getElem?_append_right (by omega)]
    simp
  rw [e1, e2]
  simp

/-! ### the distance comparison -/

theorem dist_lt (p key right : Path) (hp : p <+: key) (hlt : plt key right = true)
    (hnp : ¬ p <+: right) : ilt (prefixDistance p key) (prefixDistance key right) = true := by
  induction p generalizing key right with
  | nil => exact absurd List.nil_prefix hnp
  | cons x xs ih =>
    cases key with
    | nil => simp at hp
    | cons y ks =>
      have ⟨hxy, hp'⟩ := List.cons_prefix_cons.1 hp
      subst hxy
      cases right with
      | nil => simp [plt] at hlt
      | cons z zs =>
        rw [plt_cons] at hlt
        simp only [prefixDistance, ilt]
        rcases hlt with hlt | ⟨rfl, hlt⟩
        · have : (x.val : Int) - x.val < (z.val : Int) - x.val := by omega
          rw [if_pos this]
        · have hnp' : ¬ xs <+: zs := fun h => hnp (List.cons_prefix_cons.2 ⟨rfl, h⟩)
          simp [ih ks zs hp' hlt hnp']

theorem nearestRight_spec (f : Fog) (hw : Wf f) (key : Path) :
    (nearestRight f key = .error .perfect ↔ f = []) ∧
    (nearestRight f key ≠ .error .validation) ∧
    (∀ r, nearestRight f key = .ok r → r ∈ f) ∧
    (∀ q ∈ f, q <+: key → nearestRight f key = .ok q) ∧
    ((∀ q ∈ f, ¬ q <+: key) → ∀ r, nearestRight f key = .ok r →
        plt key r = true ∧ ∀ q ∈ f, plt key q = true → plt q r = false) ∧
    (nearestRight f key = .error .fullDir ↔
        f ≠ [] ∧ (∀ q ∈ f, ¬ q <+: key) ∧ ∀ q ∈ f, plt key q = false) := by
  obtain ⟨L, R, rfl, hb, hL, hR⟩ := bisect_view f key hw.1
  rcases List.eq_nil_or_concat L with rfl | ⟨L', left, rfl⟩
  · -- nothing `≤ key`
    rw [List.nil_append] at hb hw ⊢
    rw [nearestRight_eval0 R key hb]
    cases R with
    | nil => simp
    | cons x R' =>
      have hkx := hR x List.mem_cons_self
      refine ⟨by simp, by simp, ?_, ?_, ?_, ?_⟩
      · intro r hr; cases hr; exact List.mem_cons_self
      · intro q hq hqk; exact absurd hqk (no_containing_of_nil_left hR hq)
      · intro _ r hr; cases hr
        exact ⟨hkx, right_least (L := []) hw.1 (by simp)⟩
      · constructor
        · intro h; cases h
        · rintro ⟨_, _, h⟩
          rw [h x List.mem_cons_self] at hkx; exact absurd hkx (by simp)
  · rw [List.concat_eq_append] at hb hL
    rw [List.concat_eq_append, List.append_assoc, List.singleton_append] at hw ⊢
    have hb' : bisect (L' ++ left :: R) key = L'.length + 1 := by
      rw [← List.singleton_append, ← List.append_assoc, hb]; simp
    rw [nearestRight_eval1 L' left R key hb']
    have hcont := fun q hq hqk => containing_is_left (q := q) hw hL hR hq hqk
    by_cases hpre : left <+: key
    · rw [if_pos hpre]
      refine ⟨by simp, by simp, ?_, ?_, ?_, ?_⟩
      · intro r hr; cases hr; simp
      · intro q hq hqk; rw [hcont q hq hqk]
      · intro h; exact absurd hpre (h left (by simp))
      · constructor
        · intro h; cases h
        · rintro ⟨_, h, _⟩; exact absurd hpre (h left (by simp))
    · rw [if_neg hpre]
      have hnone : ∀ q ∈ L' ++ left :: R, ¬ q <+: key := fun q hq hqk =>
        hpre (hcont q hq hqk ▸ hqk)
      cases R with
      | nil =>
        refine ⟨by simp, by simp, by simp, ?_, by simp, ?_⟩
        · intro q hq hqk; exact absurd hqk (hnone q hq)
        · simp only [List.head?_nil, true_iff]
          refine ⟨by simp, hnone, ?_⟩
          intro q hq; exact hL q (by simpa using hq)
      | cons right R' =>
        have hkr := hR right List.mem_cons_self
        have hs' : Sorted ((L' ++ [left]) ++ right :: R') := by simpa using hw.1
        have hleast := right_least hs' hL
        refine ⟨by simp, by simp, ?_, ?_, ?_, ?_⟩
        · intro r hr; cases hr; simp
        · intro q hq hqk; exact absurd hqk (hnone q hq)
        · intro _ r hr; cases hr
          refine ⟨hkr, ?_⟩
          intro q hq; exact hleast q (by simpa using hq)
        · constructor
          · intro h; cases h
          · rintro ⟨_, _, h⟩
            rw [h right (by simp)] at hkr; exact absurd hkr (by simp)

theorem nearestUnknown_spec (f : Fog) (hw : Wf f) (key : Path) :
    (nearestUnknown f key = .error .perfect ↔ f = []) ∧
    (∀ e, nearestUnknown f key = .error e → e = .perfect) ∧
    (∀ r, nearestUnknown f key = .ok r → r ∈ f) ∧
    (∀ q ∈ f, q <+: key → nearestUnknown f key = .ok q) ∧
    (∀ r, nearestUnknown f key = .ok r → ∀ q ∈ f,
        ¬ (plt r q = true ∧ plt q key = true) ∧ ¬ (plt key q = true ∧ plt q r = true)) := by
  obtain ⟨L, R, rfl, hb, hL, hR⟩ := bisect_view f key hw.1
  rcases List.eq_nil_or_concat L with rfl | ⟨L', left, rfl⟩
  · rw [List.nil_append] at hb hw ⊢
    rw [nearestUnknown_eval0 R key hb]
    cases R with
    | nil => simp
    | cons x R' =>
      refine ⟨by simp, by simp, ?_, ?_, ?_⟩
      · intro r hr; cases hr; exact List.mem_cons_self
      · intro q hq hqk; exact absurd hqk (no_containing_of_nil_left hR hq)
      · intro r hr; cases hr
        exact adj_right (L := []) hw.1 (by simp) hR
  · rw [List.concat_eq_append] at hb hL
    rw [List.concat_eq_append, List.append_assoc, List.singleton_append] at hw ⊢
    have hb' : bisect (L' ++ left :: R) key = L'.length + 1 := by
      rw [← List.singleton_append, ← List.append_assoc, hb]; simp
    have hcont := fun q hq hqk => containing_is_left (q := q) hw hL hR hq hqk
    have hadjL := adj_left hw.1 hL hR
    cases R with
    | nil =>
      rw [nearestUnknown_eval1 L' left key hb']
      refine ⟨by simp, by simp, ?_, ?_, ?_⟩
      · intro r hr; cases hr; simp
      · intro q hq hqk; rw [hcont q hq hqk]
      · intro r hr; cases hr; exact hadjL
    | cons right R' =>
      have hs' : Sorted ((L' ++ [left]) ++ right :: R') := by simpa using hw.1
      have hadjR : ∀ q ∈ L' ++ left :: right :: R', _ :=
        fun q hq => adj_right hs' hL hR q (by simpa using hq)
      rw [nearestUnknown_eval2 L' left right R' key hb']
      refine ⟨?_, ?_, ?_, ?_, ?_⟩
      · split <;> simp
      · intro e he; split at he <;> cases he
      · intro r hr; split at hr <;> cases hr <;> simp
      · intro q hq hqk
        have e := hcont q hq hqk
        subst e
        have hlr : plt q right = true := (sorted_mid hw.1).2 right List.mem_cons_self
        have hnp : ¬ q <+: right := fun h =>
          plt_ne hlr (hw.2 q hq right (by simp) h)
        rw [if_pos (dist_lt q key right hqk (hR right List.mem_cons_self) hnp)]
      · intro r hr
        split at hr <;> cases hr
        · exact hadjL
        · exact hadjR

end PyTrie.Fog
