import PyTrie.Lemmas.BinProofs
import PyTrie.Lemmas.EncProofs
import PyTrie.Lemmas.BranchTree
/-! Binary-trie branches and witnesses (C13): tree-level facts about `get_branch`,
    `check_if_branch_exist`, `get_trie_nodes`, `get_witness_for_key_prefix`, and the Layer-D reader
    `bgetD` / `if_branch_valid` over an arbitrary list of offered byte strings. No injectivity of the
    hash: collisions are excluded by run-level predicates about the concrete node list. -/
namespace PyTrie.Bin
open BNode

/-- `x` is a node of the trie `t` (reflexive-transitive child relation) -/
inductive Sub : BNode → BNode → Prop where
  | refl (t : BNode) : Sub t t
  | kv {x : BNode} (p : Bits) {c : BNode} : Sub x c → Sub x (kv p c)
  | left {x l : BNode} (r : BNode) : Sub x l → Sub x (branch l r)
  | right {x r : BNode} (l : BNode) : Sub x r → Sub x (branch l r)

/-- `get_trie_nodes` returns exactly the nodes of the trie -/
theorem mem_trieNodes_iff (t x : BNode) : x ∈ trieNodes t ↔ Sub x t := by
  constructor
  · intro h
    induction t with
    | leaf v =>
      have : x = leaf v := by simpa [trieNodes] using h
      subst this; exact Sub.refl _
    | kv p c ih =>
      simp only [trieNodes, List.mem_cons] at h
      rcases h with h | h
      · subst h; exact Sub.refl _
      · exact Sub.kv p (ih h)
    | branch l r ihl ihr =>
      simp only [trieNodes, List.mem_cons, List.mem_append] at h
      rcases h with h | h | h
      · subst h; exact Sub.refl _
      · exact Sub.left r (ihl h)
      · exact Sub.right l (ihr h)
  · intro h
    induction h with
    | refl => exact self_mem_trieNodes _
    | kv p _ ih => simp [trieNodes, ih]
    | left r _ ih => simp [trieNodes, ih]
    | right l _ ih => simp [trieNodes, ih]

/-- `check_if_branch_exist(p)` ⇔ some stored key starts with `p` -/
theorem branchExists_iff (t : BNode) (hc : BCanon t) (p : Bits) :
    branchExists t p = true ↔ ∃ k v, bget t k = some v ∧ p <+: k := by
  induction t generalizing p with
  | leaf v =>
    simp only [branchExists, decide_eq_true_eq]
    constructor
    · rintro rfl; exact ⟨[], v, rfl, List.prefix_refl _⟩
    · rintro ⟨k, v', h1, h2⟩
      rw [bget_leaf] at h1
      split at h1
      · next hk => subst hk; simpa using h2
      · cases h1
  | kv q c ih =>
    obtain ⟨hq, hnk, hcc⟩ := hc
    obtain ⟨k0, v0, hk0⟩ := exists_key c hcc
    have hkey : bget (kv q c) (q ++ k0) = some v0 := (bget_kv_some ..).2 ⟨by simp [hq], k0, rfl, hk0⟩
    simp only [branchExists]
    split
    · next hp => subst hp; simp only [true_iff]; exact ⟨_, _, hkey, List.nil_prefix⟩
    · next hp =>
      split
      · next hlt =>
        simp only [decide_eq_true_eq]
        constructor
        · intro h; exact ⟨_, _, hkey, h.trans (List.prefix_append _ _)⟩
        · rintro ⟨k, v, h1, h2⟩
          obtain ⟨_, r, rfl, _⟩ := (bget_kv_some ..).1 h1
          exact List.prefix_of_prefix_length_le h2 (List.prefix_append _ _) (by omega)
      · next hlt =>
        split
        · next hqp =>
          obtain ⟨p', rfl⟩ := hqp
          rw [List.drop_left, ih hcc p']
          constructor
          · rintro ⟨k, v, h1, h2⟩
            exact ⟨q ++ k, v, (bget_kv_some ..).2 ⟨by simp [hq], k, rfl, h1⟩,
              by simpa [List.prefix_append_right_inj] using h2⟩
          · rintro ⟨k, v, h1, h2⟩
            obtain ⟨_, r, rfl, h3⟩ := (bget_kv_some ..).1 h1
            exact ⟨r, v, h3, by simpa [List.prefix_append_right_inj] using h2⟩
        · next hqp =>
          simp only [Bool.false_eq_true, false_iff]
          rintro ⟨k, v, h1, h2⟩
          obtain ⟨_, r, rfl, _⟩ := (bget_kv_some ..).1 h1
          exact hqp (List.prefix_of_prefix_length_le (List.prefix_append _ _) h2 (by omega))
  | branch l r ihl ihr =>
    cases p with
    | nil =>
      simp only [branchExists, true_iff]
      obtain ⟨k0, v0, hk0⟩ := exists_key l hc.1
      exact ⟨false :: k0, v0, by rw [bget_branch_cons]; simpa using hk0, List.nil_prefix⟩
    | cons b p' =>
      simp only [branchExists]
      split
      · next hb =>
        subst hb
        rw [ihl hc.1 p']
        constructor
        · rintro ⟨k, v, h1, h2⟩
          exact ⟨false :: k, v, by simpa [bget_branch_cons] using h1, by simpa [List.cons_prefix_cons] using h2⟩
        · rintro ⟨k, v, h1, h2⟩
          cases k with
          | nil => simp at h2
          | cons b' k' =>
            obtain ⟨hb, h3⟩ := List.cons_prefix_cons.1 h2
            subst hb
            exact ⟨k', v, by simpa [bget_branch_cons] using h1, h3⟩
      · next hb =>
        have hb : b = true := by simpa using hb
        subst hb
        rw [ihr hc.2 p']
        constructor
        · rintro ⟨k, v, h1, h2⟩
          exact ⟨true :: k, v, by simpa [bget_branch_cons] using h1, by simpa [List.cons_prefix_cons] using h2⟩
        · rintro ⟨k, v, h1, h2⟩
          cases k with
          | nil => simp at h2
          | cons b' k' =>
            obtain ⟨hb, h3⟩ := List.cons_prefix_cons.1 h2
            subst hb
            exact ⟨k', v, by simpa [bget_branch_cons] using h1, h3⟩

/-- The statement first proposed for `getBranch_error_iff`
    (`… ↔ bget t k = none ∧ ∃ k' v', bget t k' = some v' ∧ Related k' k`) is FALSE in the `←` direction:
    in the trie `{01 ↦ v}` the key `0` is a proper prefix of the stored key `01`, yet `get_branch` does not
    raise — the key ends strictly inside the kv node's path and `_get_branch` just returns `[root]`. -/
theorem getBranch_error_iff_original_false :
    ¬ ∀ (t : BNode) (_ : BCanon t) (k : Bits),
      ((∃ e, getBranch t k = .error e) ↔ bget t k = none ∧ ∃ k' v', bget t k' = some v' ∧ Related k' k) := by
  intro h
  have hcanon : BCanon (kv [false, true] (leaf [1])) := ⟨by simp, (by intro _ _ e; cases e), (by simp [BCanon])⟩
  obtain ⟨e, he⟩ := (h (kv [false, true] (leaf [1])) hcanon [false]).2
    ⟨by decide, [false, true], [1], by decide, by decide, .inr (by decide)⟩
  simp [getBranch] at he

/-- (corrected statement) `get_branch` refuses a key (InvalidKeyError) exactly when the key is not stored and
    is a proper extension of a stored key (“too long”), or a proper prefix of a stored key that ends AT a node
    of the trie (“too short”). A proper prefix that ends strictly inside the path of a kv node is NOT refused
    (`get_branch` returns the nodes down to that kv node). `AtNode t k` says in terms of the stored keys only
    that `k` ends at a node: `k = []`, or stored keys diverge right after `k`, or right before its last bit. -/
theorem getBranch_error_iff (t : BNode) (hc : BCanon t) (k : Bits) :
    (∃ e, getBranch t k = .error e) ↔
      bget t k = none ∧ ∃ k' v', bget t k' = some v' ∧ Related k' k ∧ (k <+: k' → AtNode t k) :=
  getBranch_error_iff_gbErr t hc k

/-- the true direction of the first proposal: a refused key is not stored and is related to a stored key -/
theorem getBranch_error_related (t : BNode) (hc : BCanon t) (k : Bits) (h : ∃ e, getBranch t k = .error e) :
    bget t k = none ∧ ∃ k' v', bget t k' = some v' ∧ Related k' k := by
  obtain ⟨h0, k', v', h1, h2, _⟩ := (getBranch_error_iff t hc k).1 h
  exact ⟨h0, k', v', h1, h2⟩

/-- a proper extension of a stored key is always refused -/
theorem getBranch_error_of_extension (t : BNode) (hc : BCanon t) (k k' : Bits) (v' : Bytes)
    (h1 : bget t k' = some v') (h2 : k' <+: k) (h3 : k' ≠ k) : ∃ e, getBranch t k = .error e := by
  refine (getBranch_error_iff t hc k).2 ⟨?_, k', v', h1, ⟨h3, .inl h2⟩, fun hpre => ?_⟩
  · cases hk : bget t k with
    | none => rfl
    | some v => exact absurd (prefix_key_eq t k' k v' v h1 hk h2) h3
  · exact absurd (h2.eq_of_length_le hpre.length_le) h3

/-- the nodes of a branch are nodes of the trie, starting with the root -/
theorem getBranch_sub (t : BNode) (k : Bits) (l : List BNode) (h : getBranch t k = .ok l) :
    l.head? = some t ∧ ∀ x ∈ l, Sub x t := by
  have e := getBranch_ok_eq t k l h
  subst e
  exact ⟨pathNodes_head t k, fun x hx => (mem_trieNodes_iff t x).1 (pathNodes_sub_trieNodes t k x hx)⟩

/-- the witness nodes are nodes of the trie -/
theorem getWitness_sub (t : BNode) (p : Bits) (w : List BNode) (h : getWitness t p = .ok w) :
    ∀ x ∈ w, Sub x t := by
  intro x hx
  exact (mem_trieNodes_iff t x).1 (getWitness_sub_trieNodes t p w h x hx)

/-- a witness is refused only when the prefix runs past a stored key -/
theorem getWitness_error (t : BNode) (hc : BCanon t) (p : Bits) (e : KeyErr) (h : getWitness t p = .error e) :
    ∃ k v, bget t k = some v ∧ k <+: p ∧ k ≠ p := by
  induction t generalizing p with
  | leaf v =>
    rw [getWitness_leaf] at h
    split at h
    · cases h
    · next hp => exact ⟨[], v, rfl, List.nil_prefix, fun e => hp e.symm⟩
  | kv q c ih =>
    rw [getWitness_kv] at h
    split at h
    · cases h
    · split at h
      · next hqp =>
        obtain ⟨p', rfl⟩ := hqp
        rw [except_map_error, List.drop_left] at h
        obtain ⟨k, v, h1, h2, h3⟩ := ih hc.2.2 p' h
        exact ⟨q ++ k, v, (bget_kv_some ..).2 ⟨by simp [hc.1], k, rfl, h1⟩,
          by simpa [List.prefix_append_right_inj] using h2, by simpa using h3⟩
      · cases h
  | branch l r ihl ihr =>
    cases p with
    | nil =>
      rw [getWitness_branch_nil, except_map_error] at h
      obtain ⟨k, v, h1, h2, h3⟩ := ihr hc.2 [] h
      exact absurd (List.prefix_nil.1 h2) h3
    | cons b p' =>
      rw [getWitness_branch_cons] at h
      split at h
      · next hb =>
        subst hb
        rw [except_map_error] at h
        obtain ⟨k, v, h1, h2, h3⟩ := ihl hc.1 p' h
        exact ⟨false :: k, v, by simpa [bget_branch_cons] using h1, by simpa [List.cons_prefix_cons] using h2,
          by simpa using h3⟩
      · next hb =>
        have hb : b = true := by simpa using hb
        subst hb
        rw [except_map_error] at h
        obtain ⟨k, v, h1, h2, h3⟩ := ihr hc.2 p' h
        exact ⟨true :: k, v, by simpa [bget_branch_cons] using h1, by simpa [List.cons_prefix_cons] using h2,
          by simpa using h3⟩

section layerD
variable (H : Bytes → Bytes)

/-- the database answers for node `n` with its encoding, and its hash is not mistaken for the blank hash -/
def Resolves (db : Db) (n : BNode) : Prop :=
  hashNode H n ≠ H [] ∧ lookup db (hashNode H n) = some (encNode H n)

/-- whatever the database holds under the hash of `n` is the encoding of `n` (it may hold nothing) -/
def Compatible (db : Db) (n : BNode) : Prop :=
  hashNode H n ≠ H [] ∧ ∀ b, lookup db (hashNode H n) = some b → b = encNode H n

theorem hashNode_eq (n : BNode) : hashNode H n = H (encNode H n) := by
  cases n <;> simp [hashNode, encNode]

theorem hashNode_length (hlen : ∀ b, (H b).length = 32) (n : BNode) : (hashNode H n).length = 32 := by
  rw [hashNode_eq]; exact hlen _

/-- `parse_node` of the encoding of a canonical tree node gives back its parts -/
theorem parseNode_encNode (hlen : ∀ b, (H b).length = 32) (n : BNode) (hc : BCanon n) :
    parseNode (encNode H n) = .ok (match n with
      | leaf v => .leaf v
      | kv p c => .kv p (hashNode H c)
      | branch l r => .branch (hashNode H l) (hashNode H r)) := by
  cases n with
  | leaf v =>
    show parseNode (encNode H (leaf v)) = .ok (.leaf v)
    rw [encNode, EncBits.parseNode_two, if_neg hc]
  | kv p c =>
    obtain ⟨b, hb1, hb2⟩ := EncSpec.parseNode_encodeKv p hc.1 (hashNode H c) (hashNode_length H hlen c)
    simp only [encodeKv, hc.1, hashNode_length H hlen c, ne_eq, not_true_eq_false, ↓reduceIte,
      Except.ok.injEq] at hb1
    subst hb1
    simpa [encNode] using hb2
  | branch l r =>
    obtain ⟨b, hb1, hb2⟩ := EncSpec.parseNode_encodeBranch (hashNode H l) (hashNode H r)
      (hashNode_length H hlen l) (hashNode_length H hlen r)
    simp only [encodeBranch, hashNode_length H hlen l, hashNode_length H hlen r, ne_eq, not_true_eq_false,
      or_self, ↓reduceIte, Except.ok.injEq] at hb1
    subst hb1
    simpa [encNode] using hb2

/-- one step of `bgetD` once the node is found and parsed -/
theorem bgetD_step (blank : Hash) (db : Db) (fuel : Nat) (h : Hash) (k : Bits) (body : Bytes) (pn : Parsed)
    (hne : h ≠ blank) (hl : lookup db h = some body) (hp : parseNode body = .ok pn) :
    bgetD blank db (fuel + 1) h k = (match pn with
      | .leaf v => if k ≠ [] then .ok none else .ok (some v)
      | .kv p c => if k = [] then .ok none
          else if p <+: k then bgetD blank db fuel c (k.drop p.length) else .ok none
      | .branch l r => match k with
        | [] => .ok none
        | b :: k' => bgetD blank db fuel (if b = false then l else r) k') := by
  rw [bgetD, if_neg hne]
  simp only [hl, hp]
  cases pn <;> rfl

theorem bgetD_missing (blank : Hash) (db : Db) (fuel : Nat) (h : Hash) (k : Bits)
    (hne : h ≠ blank) (hl : lookup db h = none) :
    bgetD blank db (fuel + 1) h k = .error (.keyError h) := by
  rw [bgetD, if_neg hne]
  simp only [hl]

/-- the one generalised lemma: if the database does not contradict the nodes on the key's path, the reader
    returns the trie's answer, or stops at a node of the path the database does not hold -/
theorem bgetD_path (hlen : ∀ b, (H b).length = 32) (t : BNode) (hc : BCanon t) (db : Db) (k : Bits)
    (hcomp : ∀ n ∈ pathNodes t k, Compatible H db n) (fuel : Nat) (hf : k.length < fuel) :
    bgetD (H []) db fuel (hashNode H t) k = .ok (bget t k) ∨
    ∃ n ∈ pathNodes t k, lookup db (hashNode H n) = none ∧
      bgetD (H []) db fuel (hashNode H t) k = .error (.keyError (hashNode H n)) := by
  induction t generalizing k fuel with
  | leaf v =>
    cases fuel with
    | zero => omega
    | succ f =>
      obtain ⟨hne, hb⟩ := hcomp _ (self_mem_pathNodes _ _)
      cases hl : lookup db (hashNode H (leaf v)) with
      | none => exact .inr ⟨_, self_mem_pathNodes _ _, hl, bgetD_missing _ _ _ _ _ hne hl⟩
      | some body =>
        left
        have := hb body hl
        subst this
        rw [bgetD_step _ _ _ _ _ _ _ hne hl (parseNode_encNode H hlen _ hc)]
        simp only [bget_leaf]
        split <;> simp_all
  | kv p c ih =>
    cases fuel with
    | zero => omega
    | succ f =>
      obtain ⟨hne, hb⟩ := hcomp _ (self_mem_pathNodes _ _)
      cases hl : lookup db (hashNode H (kv p c)) with
      | none => exact .inr ⟨_, self_mem_pathNodes _ _, hl, bgetD_missing _ _ _ _ _ hne hl⟩
      | some body =>
        have := hb body hl
        subst this
        rw [bgetD_step _ _ _ _ _ _ _ hne hl (parseNode_encNode H hlen _ hc)]
        simp only [bget_kv]
        by_cases hk : k = []
        · left; simp [hk]
        · simp only [hk, ↓reduceIte]
          by_cases hpk : p <+: k
          · simp only [hpk, ↓reduceIte]
            have hpn : pathNodes (kv p c) k = kv p c :: pathNodes c (k.drop p.length) := by
              rw [pathNodes_kv, if_neg hk, if_pos hpk]
            have hplen : 0 < p.length := List.length_pos_iff.2 hc.1
            have hklen : 0 < k.length := List.length_pos_iff.2 hk
            rcases ih hc.2.2 (k.drop p.length) (fun n hn => hcomp n (by rw [hpn]; exact List.mem_cons_of_mem _ hn)) f
                (by rw [List.length_drop]; omega) with h1 | ⟨n, hn, h1, h2⟩
            · exact .inl h1
            · exact .inr ⟨n, by rw [hpn]; exact List.mem_cons_of_mem _ hn, h1, h2⟩
          · left; simp [hpk]
  | branch l r ihl ihr =>
    cases fuel with
    | zero => omega
    | succ f =>
      obtain ⟨hne, hb⟩ := hcomp _ (self_mem_pathNodes _ _)
      cases hl : lookup db (hashNode H (branch l r)) with
      | none => exact .inr ⟨_, self_mem_pathNodes _ _, hl, bgetD_missing _ _ _ _ _ hne hl⟩
      | some body =>
        have := hb body hl
        subst this
        rw [bgetD_step _ _ _ _ _ _ _ hne hl (parseNode_encNode H hlen _ hc)]
        cases k with
        | nil => left; rfl
        | cons b k' =>
          simp only [bget_branch_cons, pathNodes_branch_cons] at hcomp ⊢
          cases b with
          | false =>
            simp only [↓reduceIte] at hcomp ⊢
            rcases ihl hc.1 k' (fun n hn => hcomp n (List.mem_cons_of_mem _ hn)) f
                (by simp at hf; omega) with h1 | ⟨n, hn, h1, h2⟩
            · exact .inl h1
            · exact .inr ⟨n, List.mem_cons_of_mem _ hn, h1, h2⟩
          | true =>
            simp only [Bool.true_eq_false, ↓reduceIte] at hcomp ⊢
            rcases ihr hc.2 k' (fun n hn => hcomp n (List.mem_cons_of_mem _ hn)) f
                (by simp at hf; omega) with h1 | ⟨n, hn, h1, h2⟩
            · exact .inl h1
            · exact .inr ⟨n, List.mem_cons_of_mem _ hn, h1, h2⟩

theorem compatible_of_resolves (db : Db) (n : BNode) (h : Resolves H db n) : Compatible H db n :=
  ⟨h.1, fun b hb => by rw [h.2] at hb; exact (Option.some.inj hb).symm⟩

/-- completeness in its general form: the nodes `_get` reads all resolve -/
theorem bgetD_complete (hlen : ∀ b, (H b).length = 32) (t : BNode) (hc : BCanon t) (db : Db) (k : Bits)
    (hres : ∀ n ∈ pathNodes t k, Resolves H db n) (fuel : Nat) (hf : k.length < fuel) :
    bgetD (H []) db fuel (hashNode H t) k = .ok (bget t k) := by
  rcases bgetD_path H hlen t hc db k (fun n hn => compatible_of_resolves H db n (hres n hn)) fuel hf with
    h | ⟨n, hn, h1, _⟩
  · exact h
  · have := (hres n hn).2
    rw [h1] at this
    cases this

/-- **completeness of the reader**: if every node on the key's path resolves (the nodes of
    `get_branch`, or of a witness, or of the whole trie), `_get` over the database returns the trie's answer -/
theorem bgetD_of_path (hlen : ∀ b, (H b).length = 32) (t : BNode) (hc : BCanon t) (db : Db) (k : Bits)
    (path : List BNode) (hp : getBranch t k = .ok path ∨ (∀ x, Sub x t → x ∈ path))
    (hres : ∀ n ∈ path, Resolves H db n) (fuel : Nat) (hf : k.length + 1 < fuel) :
    bgetD (H []) db fuel (hashNode H t) k = .ok (bget t k) := by
  apply bgetD_complete H hlen t hc db k _ fuel (by omega)
  intro n hn
  rcases hp with hp | hp
  · rw [getBranch_ok_eq t k path hp] at hres
    exact hres n hn
  · exact hres n (hp n ((mem_trieNodes_iff t n).1 (pathNodes_sub_trieNodes t k n hn)))

/-- **soundness of the reader**: over ANY database that does not contradict the trie's nodes, `_get`
    returns the trie's answer or fails with a missing node — never another answer -/
theorem bgetD_sound (hlen : ∀ b, (H b).length = 32) (t : BNode) (hc : BCanon t) (db : Db) (k : Bits)
    (hcomp : ∀ n, Sub n t → Compatible H db n) (fuel : Nat) (hf : k.length + 1 < fuel) :
    bgetD (H []) db fuel (hashNode H t) k = .ok (bget t k) ∨
    ∃ h, bgetD (H []) db fuel (hashNode H t) k = .error (.keyError h) := by
  rcases bgetD_path H hlen t hc db k
      (fun n hn => hcomp n ((mem_trieNodes_iff t n).1 (pathNodes_sub_trieNodes t k n hn))) fuel (by omega) with
    h | ⟨n, _, _, h⟩
  · exact .inl h
  · exact .inr ⟨_, h⟩

/-- the database `if_branch_valid` builds from the offered nodes -/
def offeredDb (nodes : List Bytes) : Db := (nodes.map fun n => (H n, n)).reverse

/-- no offered byte string collides with a node of the trie: an offered string hashing to a trie
    node's hash is that node's encoding, and no trie node hashes to the blank hash -/
def NoCollision (t : BNode) (nodes : List Bytes) : Prop :=
  ∀ n, Sub n t → hashNode H n ≠ H [] ∧ ∀ b ∈ nodes, H b = hashNode H n → b = encNode H n

theorem lookup_offered_some (nodes : List Bytes) (h : Hash) (b : Bytes)
    (hl : lookup (offeredDb H nodes) h = some b) : b ∈ nodes ∧ H b = h := by
  unfold lookup at hl
  obtain ⟨e, he, rfl⟩ := Option.map_eq_some_iff.1 hl
  have h1 := List.find?_some he
  have h2 := List.mem_of_find?_eq_some he
  simp only [offeredDb, List.mem_reverse, List.mem_map] at h2
  obtain ⟨a, ha, rfl⟩ := h2
  exact ⟨ha, by simpa using h1⟩

theorem lookup_offered_mem (nodes : List Bytes) (h : Hash) (b : Bytes) (hb : b ∈ nodes) (hh : H b = h)
    (hu : ∀ b' ∈ nodes, H b' = h → b' = b) : lookup (offeredDb H nodes) h = some b := by
  cases hl : lookup (offeredDb H nodes) h with
  | none =>
    exfalso
    unfold lookup at hl
    simp only [Option.map_eq_none_iff, List.find?_eq_none] at hl
    have := hl (H b, b) (by simp only [offeredDb, List.mem_reverse, List.mem_map]; exact ⟨b, hb, rfl⟩)
    simp [hh] at this
  | some b' =>
    obtain ⟨h1, h2⟩ := lookup_offered_some H nodes h b' hl
    rw [hu b' h1 h2]

theorem compatible_of_noCollision (t : BNode) (nodes : List Bytes) (hnc : NoCollision H t nodes)
    (n : BNode) (hn : Sub n t) : Compatible H (offeredDb H nodes) n :=
  ⟨(hnc n hn).1, fun b hl =>
    have ⟨h1, h2⟩ := lookup_offered_some H nodes _ b hl
    (hnc n hn).2 b h1 h2⟩

theorem resolves_of_noCollision (t : BNode) (nodes : List Bytes) (hnc : NoCollision H t nodes)
    (n : BNode) (hn : Sub n t) (hmem : encNode H n ∈ nodes) : Resolves H (offeredDb H nodes) n :=
  ⟨(hnc n hn).1, lookup_offered_mem H nodes _ _ hmem (hashNode_eq H n).symm
    (fun b' hb' hh => (hnc n hn).2 b' hb' hh)⟩

theorem isBinNode_encNode (n : BNode) : isBinNode (H []) (encNode H n) = true := by
  cases n <;> simp [isBinNode, encNode]

theorem ifBranchValid_of_ok (nodes : List Bytes) (root : Hash) (key : Bits) (value r : Option Bytes)
    (hne : nodes ≠ []) (hall : nodes.all (isBinNode (H [])) = true)
    (hget : bgetD (H []) (offeredDb H nodes) (nodes.length + key.length + 2) root key = .ok r) :
    ifBranchValid H nodes root key value = if r = value then .valid else .assertion := by
  unfold ifBranchValid
  unfold offeredDb at hget
  rw [if_neg hne]
  simp only [hall, Bool.not_true, Bool.false_eq_true, ↓reduceIte, hget]

theorem ifBranchValid_valid (nodes : List Bytes) (root : Hash) (key : Bits) (value : Option Bytes)
    (hv : ifBranchValid H nodes root key value = .valid) :
    bgetD (H []) (offeredDb H nodes) (nodes.length + key.length + 2) root key = .ok value := by
  unfold ifBranchValid at hv
  unfold offeredDb
  split at hv
  · cases hv
  · split at hv
    · cases hv
    · dsimp only at hv
      split at hv
      · next r hr =>
        split at hv
        · next e => rw [← e]; exact hr
        · cases hv
      all_goals cases hv

/-- **a branch validates the trie's answer**: `if_branch_valid(get_branch(key), root, key, get(key))` -/
theorem branch_valid (hlen : ∀ b, (H b).length = 32) (t : BNode) (hc : BCanon t) (k : Bits) (path : List BNode)
    (hp : getBranch t k = .ok path) (hnc : NoCollision H t (path.map (encNode H))) :
    ifBranchValid H (path.map (encNode H)) (hashNode H t) k (bget t k) = .valid := by
  obtain ⟨hhead, hsub⟩ := getBranch_sub t k path hp
  have hne : path.map (encNode H) ≠ [] := by
    cases path with
    | nil => cases hhead
    | cons a l => simp
  have hall : (path.map (encNode H)).all (isBinNode (H [])) = true := by
    simp only [List.all_eq_true, List.mem_map]
    rintro b ⟨n, _, rfl⟩
    exact isBinNode_encNode H n
  have hget := bgetD_of_path H hlen t hc (offeredDb H (path.map (encNode H))) k path (.inl hp)
    (fun n hn => resolves_of_noCollision H t _ hnc n (hsub n hn) (List.mem_map_of_mem hn))
    ((path.map (encNode H)).length + k.length + 2) (by omega)
  rw [ifBranchValid_of_ok H _ _ _ _ _ hne hall hget, if_pos rfl]

/-- **unforgeable**: whatever byte strings are offered — altered, truncated, for another key, from
    another trie — `if_branch_valid` never confirms an answer the trie does not give -/
theorem branch_sound (hlen : ∀ b, (H b).length = 32) (t : BNode) (hc : BCanon t) (k : Bits)
    (nodes : List Bytes) (hnc : NoCollision H t nodes) (claimed : Option Bytes)
    (hv : ifBranchValid H nodes (hashNode H t) k claimed = .valid) : claimed = bget t k := by
  have hget := ifBranchValid_valid H nodes _ k claimed hv
  rcases bgetD_sound H hlen t hc (offeredDb H nodes) k (compatible_of_noCollision H t nodes hnc)
      (nodes.length + k.length + 2) (by omega) with h | ⟨e, h⟩
  · rw [hget] at h
    exact Except.ok.inj h
  · rw [hget] at h
    cases h

/-- **a witness is sufficient**: the nodes of `get_witness_for_key_prefix(p)` answer `get(k)` correctly
    for every key `k` starting with `p` -/
theorem witness_sufficient (hlen : ∀ b, (H b).length = 32) (t : BNode) (hc : BCanon t) (p : Bits) (w : List BNode)
    (hw : getWitness t p = .ok w) (hnc : NoCollision H t (w.map (encNode H)))
    (k : Bits) (hpk : p <+: k) (fuel : Nat) (hf : k.length + 1 < fuel) :
    bgetD (H []) (offeredDb H (w.map (encNode H))) fuel (hashNode H t) k = .ok (bget t k) := by
  apply bgetD_complete H hlen t hc _ k _ fuel (by omega)
  intro n hn
  have hw' := pathNodes_sub_getWitness t p w hw k hpk n hn
  exact resolves_of_noCollision H t _ hnc n
    ((mem_trieNodes_iff t n).1 (pathNodes_sub_trieNodes t k n hn)) (List.mem_map_of_mem hw')

end layerD
end PyTrie.Bin
