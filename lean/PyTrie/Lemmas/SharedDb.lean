import PyTrie.Lemmas.FailAfterNone
import PyTrie.Lemmas.WorldComplete
/-! General facts for several tries over one database (`Props/C04Shared.lean`): array updates at a general index, the
    world after `newTrie` / `openAt` / a successful `setDel` on trie `i`, including the recorded roots. -/
namespace PyTrie.HexW
open PyTrie.Hex hiding get set
open PyTrie.Hex.Node

theorem array_set!_size {α} (a : Array α) (i : Nat) (x : α) : (a.set! i x).size = a.size := by
  simp [Array.set!_eq_setIfInBounds]

theorem array_set!_self {α} [Inhabited α] (a : Array α) (i : Nat) (x : α) (h : i < a.size) :
    (a.set! i x)[i]! = x := by
  simp [Array.set!_eq_setIfInBounds, h]

theorem array_set!_other {α} [Inhabited α] (a : Array α) (i j : Nat) (x : α) (h : j ≠ i) :
    (a.set! i x)[j]! = a[j]! := by
  by_cases hj : j < a.size
  · simp [Array.set!_eq_setIfInBounds, hj, Ne.symm h]
  · simp [Array.set!_eq_setIfInBounds, hj]

theorem array_push_lt {α} [Inhabited α] (a : Array α) (i : Nat) (x : α) (h : i < a.size) :
    (a.push x)[i]! = a[i]! := by
  have h' : i < (a.push x).size := by simp; omega
  rw [getElem!_pos (a.push x) i h', getElem!_pos a i h, Array.getElem_push_lt]

theorem array_push_last {α} [Inhabited α] (a : Array α) (x : α) : (a.push x)[a.size]! = x := by
  simp

variable (Hs : Hashing) (blankRootHash : Hash)

theorem World.noteRoot_roots_sub (w : World) (T : TrieSt) (e : Hash × Node) (he : e ∈ (w.noteRoot T).roots) :
    e ∈ w.roots ∨ e = (T.root, T.tree) := by
  unfold World.noteRoot at he
  split at he
  · exact Or.inl he
  · simp only [List.mem_cons] at he
    rcases he with he | he
    · exact Or.inr he
    · exact Or.inl he

theorem World.noteRoot_recorded (w : World) (T : TrieSt) : ∃ t, (T.root, t) ∈ (w.noteRoot T).roots := by
  unfold World.noteRoot
  split
  · next h =>
    obtain ⟨e, he, heq⟩ := List.any_eq_true.1 h
    have : e.1 = T.root := by simpa using heq
    exact ⟨e.2, by rw [← this]; exact he⟩
  · exact ⟨T.tree, List.mem_cons_self⟩

/-- the recorded roots after a successful operation on trie `i`: the old ones and possibly the new root with its tree;
    the new root is recorded -/
theorem World.setDel_trie_ok_roots (w : World) (i : Nat) (key : Bytes) (val : Option Bytes) (T' : TrieSt)
    (hok : (opSetDel Hs blankRootHash w.tries[i]! key val (w.opSt i)).2 = .ok T') :
    (∀ e ∈ (w.setDel Hs blankRootHash (.trie i) key val).2.roots, e ∈ w.roots ∨ e = (T'.root, T'.tree)) ∧
    ∃ t, (T'.root, t) ∈ (w.setDel Hs blankRootHash (.trie i) key val).2.roots := by
  unfold World.setDel
  simp only []
  rcases hr : opSetDel Hs blankRootHash w.tries[i]! key val (w.opSt i) with ⟨st', r⟩
  rw [hr] at hok
  simp only [] at hok
  subst hok
  simp only []
  refine ⟨fun e he => ?_, World.noteRoot_recorded _ T'⟩
  have h := World.noteRoot_roots_sub _ T' e he
  exact h

/-- `HexaryTrie(db, root)`: refused, or a new non-pruning trie whose tree is blank (blank root) or the recorded one -/
theorem World.openAt_cases (w : World) (r : Hash) :
    w.openAt blankRootHash r = none ∨
    ∃ t, w.openAt blankRootHash r =
        some ({ w with tries := w.tries.push { tree := t, root := r, prune := false },
                       counts := w.counts.push [] }, w.tries.size) ∧
      ((r = blankRootHash ∧ t = blank) ∨ (r, t) ∈ w.roots) := by
  unfold World.openAt
  by_cases hb : (r == blankRootHash) = true
  · refine Or.inr ⟨blank, by simp [hb], Or.inl ⟨by simpa using hb, rfl⟩⟩
  · simp only [hb, Bool.false_eq_true, if_false]
    cases hf : w.roots.find? (fun e => e.1 == r) with
    | none => exact Or.inl (by simp)
    | some e =>
      refine Or.inr ⟨e.2, by simp, Or.inr ?_⟩
      have h1 := List.mem_of_find?_eq_some hf
      have h2 : e.1 = r := by simpa using List.find?_some hf
      rw [← h2]; exact h1

/-- the blank tree at the blank root is complete over any database -/
theorem complete_blank (d : Dict Bytes) (p : Bool) :
    Complete Hs blankRootHash d { tree := blank, root := blankRootHash, prune := p } :=
  ⟨by simp [isBlank], trivial⟩

theorem preserved_refl (d : Dict Bytes) : Preserved d d := fun _ _ h => h

theorem preserved_trans {d1 d2 d3 : Dict Bytes} (h1 : Preserved d1 d2) (h2 : Preserved d2 d3) : Preserved d1 d3 :=
  fun h b hb => h2 h b (h1 h b hb)

end PyTrie.HexW
