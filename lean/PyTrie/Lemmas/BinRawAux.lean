import PyTrie.Model.BinRaw
import PyTrie.Lemmas.BranchProofs
/-! Helper layer for `BinRawRefines.lean`: the raw-level `_set` split into its steps, and each step tied to
    the tree-level `bsetS`. -/
namespace PyTrie.BinRaw
open PyTrie.Bin PyTrie.Bin.BNode

variable (H : Bytes → Bytes)

abbrev TRes := Except Bin.Err (Option BNode) × List BNode
abbrev RRes := Except BinRaw.Err (Hash × St)

/-! ### databases after a list of saves -/

def saveAll (db : Db) (saves : List BNode) : Db :=
  saves.foldl (fun d n => (hashNode H n, encNode H n) :: d) db

def after (st : St) (l : List BNode) : St := { db := saveAll H st.db l }

theorem after_nil (st : St) : after H st [] = st := rfl

theorem after_append (st : St) (a b : List BNode) : after H st (a ++ b) = after H (after H st a) b := by
  simp [after, saveAll, List.foldl_append]

theorem after_cons (st : St) (a : BNode) (b : List BNode) : after H st (a :: b) = after H (after H st [a]) b :=
  after_append H st [a] b

/-- what the raw level returns when the tree level returns `r` -/
def expected (st : St) (r : TRes) : RRes :=
  match r.1 with
  | .ok t' => .ok (rootOf H t', after H st r.2)
  | .error _ => .error .override

theorem expected_error (st : St) (e : Bin.Err) (s : List BNode) : expected H st (.error e, s) = .error .override := rfl
theorem expected_ok (st : St) (o : Option BNode) (s : List BNode) :
    expected H st (.ok o, s) = .ok (rootOf H o, after H st s) := rfl

/-! ### the savers on encodings of tree nodes -/

theorem saveLeaf_enc (st : St) (v : Bytes) (hv : v ≠ []) :
    saveLeaf H st v = .ok (hashNode H (leaf v), after H st [leaf v]) := by
  simp [saveLeaf, encodeLeaf, hv, save, after, saveAll, hashNode, encNode]

theorem saveKv_enc (hlen : ∀ b, (H b).length = 32) (st : St) (p : Bits) (hp : p ≠ []) (c : BNode) :
    saveKv H st p (hashNode H c) = .ok (hashNode H (kv p c), after H st [kv p c]) := by
  simp [saveKv, encodeKv, hp, hashNode_length H hlen c, save, after, saveAll, hashNode, encNode]

theorem saveBranch_enc (hlen : ∀ b, (H b).length = 32) (st : St) (l r : BNode) :
    saveBranch H st (hashNode H l) (hashNode H r) = .ok (hashNode H (branch l r), after H st [branch l r]) := by
  simp [saveBranch, encodeBranch, hashNode_length H hlen l, hashNode_length H hlen r, save, after, saveAll,
    hashNode, encNode]

/-! ### loading a stored tree node -/

def parsedOf : BNode → Parsed
  | leaf v => .leaf v
  | kv p c => .kv p (hashNode H c)
  | branch l r => .branch (hashNode H l) (hashNode H r)

theorem load_stored (hlen : ∀ b, (H b).length = 32) (st : St) (n : BNode) (hc : BCanon n)
    (hl : lookup st.db (hashNode H n) = some (encNode H n)) :
    load st (hashNode H n) = .ok (parsedOf H n) := by
  have := parseNode_encNode H hlen n hc
  simp only [load, hl, this]
  cases n <;> rfl

theorem lookup_cons (db : Db) (h h' : Hash) (b : Bytes) :
    lookup ((h', b) :: db) h = if h' = h then some b else lookup db h := by
  simp only [lookup, List.find?_cons]
  by_cases e : h' = h
  · simp [e]
  · have he : (h' == h) = false := beq_false_of_ne e
    simp [e, he]

/-- looking up, after a list of saves, a node that was saved or was stored before: the first match in the
    write log carries the node's encoding as soon as equal hashes mean equal encodings among the saves -/
theorem lookup_saveAll (db : Db) (saves : List BNode) (n : BNode)
    (hcol : ∀ s ∈ saves, hashNode H s = hashNode H n → encNode H s = encNode H n)
    (hin : n ∈ saves ∨ lookup db (hashNode H n) = some (encNode H n)) :
    lookup (saveAll H db saves) (hashNode H n) = some (encNode H n) := by
  induction saves generalizing db with
  | nil =>
    rcases hin with h | h
    · cases h
    · exact h
  | cons x rest ih =>
    show lookup (saveAll H ((hashNode H x, encNode H x) :: db) rest) (hashNode H n) = _
    apply ih
    · intro s hs; exact hcol s (List.mem_cons_of_mem _ hs)
    · by_cases hx : hashNode H x = hashNode H n
      · right
        rw [lookup_cons, if_pos hx, hcol x List.mem_cons_self hx]
      · rcases hin with h | h
        · rcases List.mem_cons.1 h with h | h
          · subst h; exact absurd rfl hx
          · exact .inl h
        · right
          rw [lookup_cons, if_neg hx]; exact h

end PyTrie.BinRaw
