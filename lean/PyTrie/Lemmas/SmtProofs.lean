import PyTrie.Model.Smt
/-! Sparse Merkle tree (C14) and streamed proof (C15) at database level. The database is the log of
    all writes; `Functional` (no hash bound to two bodies) is the run-level no-collision predicate,
    needed only where a value is read back. Nothing is assumed about `H` except its 32-byte output
    (`node[:32] / node[32:]` in the code relies on it). -/
namespace PyTrie.Smt
open PyTrie.Bin (Bits)

def Functional (db : Db) : Prop := ∀ h b b', (h, b) ∈ db → (h, b') ∈ db → b = b'

variable (H : Bytes → Bytes)

/-- Merkle root of the full depth-`d` tree whose leaf at path `p` is `H (f p)` -/
def merkleRoot : Nat → (Bits → Bytes) → Hash
  | 0, f => H (f [])
  | d + 1, f => H (merkleRoot d (fun p => f (false :: p)) ++ merkleRoot d (fun p => f (true :: p)))

/-- `h` resolves through `db` to the full depth-`d` tree with leaves `f` -/
def Rep (db : Db) : Nat → Hash → (Bits → Bytes) → Prop
  | 0, h, f => h = H (f []) ∧ (h, f []) ∈ db
  | d + 1, h, f => ∃ l r, h = H (l ++ r) ∧ (h, l ++ r) ∈ db ∧ l.length = 32 ∧
      Rep db d l (fun p => f (false :: p)) ∧ Rep db d r (fun p => f (true :: p))

/-- the sibling hashes along a path in the ideal tree, root → leaf (what `branch(key)` must return) -/
def siblings : (d : Nat) → (Bits → Bytes) → Bits → List Hash
  | d + 1, f, b :: bs =>
    (if b then merkleRoot H d (fun p => f (false :: p)) else merkleRoot H d (fun p => f (true :: p))) ::
      siblings d (fun p => f (b :: p)) bs
  | _, _, _ => []

/-- the hashes of the nodes on a path in the ideal tree, root → leaf, root excluded, leaf included
    (what `set` must return) -/
def pathHashes : (d : Nat) → (Bits → Bytes) → Bits → List Hash
  | d + 1, f, b :: bs => merkleRoot H d (fun p => f (b :: p)) :: pathHashes d (fun p => f (b :: p)) bs
  | _, _, _ => []

/-- the leaf function after writing `value` at `key` -/
def upd (f : Bits → Bytes) (key : Bits) (value : Bytes) : Bits → Bytes := fun p => if p = key then value else f p

theorem lookup_of_mem {db : Db} (hf : Functional db) {h : Hash} {b : Bytes} (hm : (h, b) ∈ db) :
    lookup db h = some b := by
  induction db with
  | nil => simp at hm
  | cons x xs ih =>
    obtain ⟨h', b'⟩ := x
    by_cases e : h' = h
    · subst e
      have := hf h' b b' hm (List.mem_cons_self)
      simp [lookup, List.find?, this]
    · have hm' : (h, b) ∈ xs := by
        rcases List.mem_cons.1 hm with e' | e'
        · cases e'; exact absurd rfl e
        · exact e'
      have := ih (fun h b b' m1 m2 => hf h b b' (List.mem_cons_of_mem _ m1) (List.mem_cons_of_mem _ m2)) hm'
      have e' : (h' == h) = false := by simpa using e
      simpa [lookup, List.find?, e'] using this

theorem rep_root (db : Db) (d : Nat) (h : Hash) (f : Bits → Bytes) (hr : Rep H db d h f) :
    h = merkleRoot H d f := by
  induction d generalizing h f with
  | zero => exact hr.1
  | succ d ih =>
    obtain ⟨l, r, hh, _, _, hl, hrr⟩ := hr
    rw [hh, ih l _ hl, ih r _ hrr]; rfl

theorem rep_mono (db db' : Db) (hsub : ∀ x ∈ db, x ∈ db') (d : Nat) (h : Hash) (f : Bits → Bytes)
    (hr : Rep H db d h f) : Rep H db' d h f := by
  induction d generalizing h f with
  | zero => exact ⟨hr.1, hsub _ hr.2⟩
  | succ d ih =>
    obtain ⟨l, r, hh, hm, hlen, hl, hrr⟩ := hr
    exact ⟨l, r, hh, hsub _ hm, hlen, ih l _ hl, ih r _ hrr⟩

theorem merkleRoot_length (hlen : ∀ b, (H b).length = 32) (d : Nat) (f : Bits → Bytes) :
    (merkleRoot H d f).length = 32 := by
  cases d <;> simp [merkleRoot, hlen]

/-- body of the depth-`n` all-default tree -/
def dfltBody (dflt : Bytes) : Nat → Bytes
  | 0 => dflt
  | n + 1 => H (dfltBody dflt n) ++ H (dfltBody dflt n)

theorem initLoop_fst (dflt : Bytes) (n k : Nat) (db : Db) :
    (initLoop H n (dfltBody H dflt k) db).1 = dfltBody H dflt (k + n) := by
  induction n generalizing k db with
  | zero => rfl
  | succ n ih =>
    have := ih (k + 1) ((H (dfltBody H dflt k), dfltBody H dflt k) :: db)
    simp only [initLoop]
    rw [show k + (n + 1) = k + 1 + n by omega, ← this]; rfl

theorem initLoop_mono (n : Nat) (node : Bytes) (db : Db) (x : Hash × Bytes) (hx : x ∈ db) :
    x ∈ (initLoop H n node db).2 := by
  induction n generalizing node db with
  | zero => exact hx
  | succ n ih => exact ih _ _ (List.mem_cons_of_mem _ hx)

theorem initLoop_mem (dflt : Bytes) (n k : Nat) (db : Db) (j : Nat) (h1 : k ≤ j) (h2 : j < k + n) :
    (H (dfltBody H dflt j), dfltBody H dflt j) ∈ (initLoop H n (dfltBody H dflt k) db).2 := by
  induction n generalizing k db with
  | zero => omega
  | succ n ih =>
    simp only [initLoop]
    by_cases e : j = k
    · subst e
      exact initLoop_mono H _ _ _ _ List.mem_cons_self
    · exact ih (k + 1) _ (by omega) (by omega)

theorem dflt_rep (hlen : ∀ b, (H b).length = 32) (dflt : Bytes) (db : Db) (d : Nat)
    (hm : ∀ j, j ≤ d → (H (dfltBody H dflt j), dfltBody H dflt j) ∈ db) :
    Rep H db d (H (dfltBody H dflt d)) (fun _ => dflt) := by
  induction d with
  | zero => exact ⟨rfl, hm 0 (Nat.le_refl _)⟩
  | succ d ih =>
    have IH := ih (fun j hj => hm j (by omega))
    exact ⟨H (dfltBody H dflt d), H (dfltBody H dflt d), rfl, hm (d + 1) (Nat.le_refl _), hlen _, IH, IH⟩

/-- the constructor builds the tree of defaults -/
theorem init_rep (hlen : ∀ b, (H b).length = 32) (d : Nat) (dflt : Bytes) :
    Rep H (init H d dflt).db d (init H d dflt).root (fun _ => dflt) ∧ (init H d dflt).depth = d := by
  refine ⟨?_, rfl⟩
  have h1 : (initLoop H d dflt []).1 = dfltBody H dflt d := by
    have := initLoop_fst H dflt d 0 []
    simpa [dfltBody] using this
  simp only [init, h1]
  apply dflt_rep H hlen
  intro j hj
  by_cases e : j = d
  · subst e; exact List.mem_cons_self
  · apply List.mem_cons_of_mem
    have := initLoop_mem H dflt d 0 [] j (Nat.zero_le _) (by omega)
    simpa [dfltBody] using this

/-- `_get` returns the leaf value and exactly the sibling list of the ideal tree -/
theorem getAux_of_rep (db : Db) (hf : Functional db) (d : Nat) (h : Hash) (f : Bits → Bytes)
    (hr : Rep H db d h f) (bits : Bits) (hb : bits.length = d) :
    getAux db h bits = some (f bits, siblings H d f bits) := by
  induction d generalizing h f bits with
  | zero =>
    have : bits = [] := by simpa using hb
    subst this
    simp [getAux, lookup_of_mem hf hr.2, siblings]
  | succ d ih =>
    obtain ⟨l, r, hh, hm, hlen, hl, hrr⟩ := hr
    cases bits with
    | nil => simp at hb
    | cons b bs =>
      have hb' : bs.length = d := by simpa using hb
      simp only [getAux, lookup_of_mem hf hm]
      have e1 : (l ++ r).take 32 = l := by rw [← hlen]; simp
      have e2 : (l ++ r).drop 32 = r := by rw [← hlen]; simp
      simp only [e1, e2]
      cases b with
      | true =>
        simp only [↓reduceIte, ih r _ hrr bs hb', Option.map_some, siblings]
        rw [← rep_root H db d l _ hl]
      | false =>
        simp only [Bool.false_eq_true, ↓reduceIte, ih l _ hl bs hb', Option.map_some, siblings]
        rw [← rep_root H db d r _ hrr]

/-- `calc_root(key, value, branch(key))` is the root -/
theorem calcRoot_siblings (d : Nat) (f : Bits → Bytes) (bits : Bits) (hb : bits.length = d) :
    calcRoot H bits (f bits) (siblings H d f bits) = merkleRoot H d f := by
  induction d generalizing f bits with
  | zero =>
    have : bits = [] := by simpa using hb
    subst this
    simp [calcRoot, merkleRoot]
  | succ d ih =>
    cases bits with
    | nil => simp at hb
    | cons b bs =>
      have hb' : bs.length = d := by simpa using hb
      have IH := ih (fun p => f (b :: p)) bs hb'
      cases b <;> simp only [siblings, calcRoot, merkleRoot] <;> simp [IH]

theorem upd_cons_eq (f : Bits → Bytes) (b : Bool) (bs : Bits) (v : Bytes) :
    (fun p => upd f (b :: bs) v (b :: p)) = upd (fun p => f (b :: p)) bs v := by
  funext p; simp [upd]

theorem upd_cons_ne (f : Bits → Bytes) (a b : Bool) (hab : a ≠ b) (bs : Bits) (v : Bytes) :
    (fun p => upd f (b :: bs) v (a :: p)) = fun p => f (a :: p) := by
  funext p; simp [upd, hab]

/-- `set` re-establishes the representation for the updated leaf function, in any db that contains the
    old entries and the writes of this `set`. -/
theorem set_rep (hlen : ∀ b, (H b).length = 32) (db db' : Db) (hsub : ∀ x ∈ db, x ∈ db')
    (d : Nat) (h : Hash) (f : Bits → Bytes) (hr : Rep H db d h f)
    (bits : Bits) (hb : bits.length = d) (value : Bytes)
    (hw : ∀ x ∈ (setAux H bits (siblings H d f bits) value).2.1, x ∈ db')
    (htop : (H (setAux H bits (siblings H d f bits) value).1, (setAux H bits (siblings H d f bits) value).1) ∈ db') :
    Rep H db' d (H (setAux H bits (siblings H d f bits) value).1) (upd f bits value) := by
  induction d generalizing h f bits with
  | zero =>
    have : bits = [] := by simpa using hb
    subst this
    simp only [setAux] at htop ⊢
    exact ⟨by simp [upd], by simpa [upd] using htop⟩
  | succ d ih =>
    obtain ⟨l, r, hh, hm, hlenl, hl, hrr⟩ := hr
    cases bits with
    | nil => simp at hb
    | cons b bs =>
      have hb' : bs.length = d := by simpa using hb
      have hL := rep_root H db d l _ hl
      have hR := rep_root H db d r _ hrr
      cases b with
      | true =>
        simp only [siblings, setAux, ↓reduceIte] at hw htop ⊢
        have hsub_w : ∀ x ∈ (setAux H bs (siblings H d (fun p => f (true :: p)) bs) value).2.1, x ∈ db' :=
          fun x hx => hw x (List.mem_append_left _ hx)
        have hch : (H (setAux H bs (siblings H d (fun p => f (true :: p)) bs) value).1,
            (setAux H bs (siblings H d (fun p => f (true :: p)) bs) value).1) ∈ db' :=
          hw _ (List.mem_append_right _ (by simp))
        have IH := ih r (fun p => f (true :: p)) hrr bs hb' hsub_w hch
        refine ⟨_, _, rfl, htop, merkleRoot_length H hlen _ _, ?_, ?_⟩
        · rw [← hL, upd_cons_ne f false true (by decide)]
          exact rep_mono H db db' hsub d l _ hl
        · rw [upd_cons_eq]; exact IH
      | false =>
        simp only [siblings, setAux, Bool.false_eq_true, ↓reduceIte] at hw htop ⊢
        have hsub_w : ∀ x ∈ (setAux H bs (siblings H d (fun p => f (false :: p)) bs) value).2.1, x ∈ db' :=
          fun x hx => hw x (List.mem_append_left _ hx)
        have hch : (H (setAux H bs (siblings H d (fun p => f (false :: p)) bs) value).1,
            (setAux H bs (siblings H d (fun p => f (false :: p)) bs) value).1) ∈ db' :=
          hw _ (List.mem_append_right _ (by simp))
        have IH := ih l (fun p => f (false :: p)) hl bs hb' hsub_w hch
        refine ⟨_, _, rfl, htop, hlen _, ?_, ?_⟩
        · rw [upd_cons_eq]; exact IH
        · rw [← hR, upd_cons_ne f true false (by decide)]
          exact rep_mono H db db' hsub d r _ hrr

/-- the rebuilt body hashes to the ideal root of the updated leaf function, and the returned hashes are
    its path hashes -/
theorem setAux_hashes (d : Nat) (f : Bits → Bytes) (bits : Bits) (hb : bits.length = d) (value : Bytes) :
    H (setAux H bits (siblings H d f bits) value).1 = merkleRoot H d (upd f bits value) ∧
    (setAux H bits (siblings H d f bits) value).2.2 = pathHashes H d (upd f bits value) bits := by
  induction d generalizing f bits with
  | zero =>
    have : bits = [] := by simpa using hb
    subst this
    simp [setAux, merkleRoot, pathHashes, upd]
  | succ d ih =>
    cases bits with
    | nil => simp at hb
    | cons b bs =>
      have hb' : bs.length = d := by simpa using hb
      obtain ⟨IH1, IH2⟩ := ih (fun p => f (b :: p)) bs hb'
      cases b with
      | true =>
        simp only [siblings, setAux, ↓reduceIte, merkleRoot, pathHashes, upd_cons_eq,
          upd_cons_ne f false true (by decide), IH1, IH2, and_self]
      | false =>
        simp only [siblings, setAux, Bool.false_eq_true, ↓reduceIte, merkleRoot, pathHashes, upd_cons_eq,
          upd_cons_ne f true false (by decide), IH1, IH2, and_self]

/-- **`set`** re-establishes the representation for the updated leaf function, only adds to the
    database, and returns the new path hashes root → leaf -/
theorem set_spec (hlen : ∀ b, (H b).length = 32) (t : Tree) (f : Bits → Bytes)
    (hfun : Functional t.db) (hr : Rep H t.db t.depth t.root f) (key : Bits) (hk : key.length = t.depth)
    (value : Bytes) :
    ∃ t' ups, set H t key value = some (t', ups) ∧
      t'.depth = t.depth ∧ t'.default = t.default ∧
      (∀ x ∈ t.db, x ∈ t'.db) ∧
      Rep H t'.db t'.depth t'.root (upd f key value) ∧
      ups = pathHashes H t.depth (upd f key value) key := by
  have hg := getAux_of_rep H t.db hfun t.depth t.root f hr key hk
  simp only [set, hg]
  refine ⟨_, _, rfl, rfl, rfl, ?_, ?_, ?_⟩
  · intro x hx
    exact List.mem_cons_of_mem _ (List.mem_append_right _ hx)
  · apply set_rep H hlen t.db _ _ t.depth t.root f hr key hk value
    · intro x hx
      exact List.mem_cons_of_mem _ (List.mem_append_left _ (List.mem_reverse.2 hx))
    · exact List.mem_cons_self
    · intro x hx
      exact List.mem_cons_of_mem _ (List.mem_append_right _ hx)
  · exact (setAux_hashes H t.depth f key hk value).2

/-- how the sibling list of a tracked key changes when another key is written: only the entry at the
    first differing bit changes, and it becomes the new path hash of the written key at that depth -/
theorem siblings_upd (d : Nat) (f : Bits → Bytes) (k0 key : Bits) (h0 : k0.length = d) (hk : key.length = d)
    (value : Bytes) (i : Nat) (hi : firstDiff k0 key = some i) :
    siblings H d (upd f key value) k0 =
      (siblings H d f k0).set i ((pathHashes H d (upd f key value) key).getD i []) := by
  induction d generalizing f k0 key i with
  | zero =>
    have : k0 = [] := by simpa using h0
    subst this
    simp [firstDiff] at hi
  | succ d ih =>
    cases k0 with
    | nil => simp at h0
    | cons a as =>
      cases key with
      | nil => simp at hk
      | cons b bs =>
        have h0' : as.length = d := by simpa using h0
        have hk' : bs.length = d := by simpa using hk
        by_cases hab : a = b
        · subst hab
          simp only [firstDiff, ↓reduceIte, Option.map_eq_some_iff] at hi
          obtain ⟨j, hj, rfl⟩ := hi
          have IH := ih (fun p => f (a :: p)) as bs h0' hk' j hj
          cases a with
          | true =>
            simp only [siblings, pathHashes, ↓reduceIte, upd_cons_eq, upd_cons_ne f false true (by decide),
              List.set_cons_succ, List.getD_cons_succ, IH]
          | false =>
            simp only [siblings, pathHashes, Bool.false_eq_true, ↓reduceIte, upd_cons_eq,
              upd_cons_ne f true false (by decide), List.set_cons_succ, List.getD_cons_succ, IH]
        · simp only [firstDiff, hab, ↓reduceIte, Option.some.injEq] at hi
          subst hi
          cases a <;> cases b <;> first | exact absurd rfl hab | skip
          · simp only [siblings, pathHashes, Bool.false_eq_true, ↓reduceIte, upd_cons_eq,
              upd_cons_ne f false true (by decide), List.set_cons_zero, List.getD_cons_zero]
          · simp only [siblings, pathHashes, ↓reduceIte, upd_cons_eq,
              upd_cons_ne f true false (by decide), List.set_cons_zero, List.getD_cons_zero]

theorem firstDiff_none_iff (a b : Bits) (h : a.length = b.length) : firstDiff a b = none ↔ a = b := by
  induction a generalizing b with
  | nil =>
    have : b = [] := by simpa using h.symm
    subst this; simp [firstDiff]
  | cons x xs ih =>
    cases b with
    | nil => simp at h
    | cons y ys =>
      have h' : xs.length = ys.length := by simpa using h
      by_cases e : x = y
      · subst e; simp [firstDiff, ih ys h']
      · simp [firstDiff, e]

theorem firstDiff_lt (a b : Bits) (i : Nat) (h : firstDiff a b = some i) : i < a.length ∧ i < b.length := by
  induction a generalizing b i with
  | nil => simp [firstDiff] at h
  | cons x xs ih =>
    cases b with
    | nil => simp [firstDiff] at h
    | cons y ys =>
      by_cases e : x = y
      · subst e
        simp only [firstDiff, ↓reduceIte, Option.map_eq_some_iff] at h
        obtain ⟨j, hj, rfl⟩ := h
        have := ih ys j hj
        simp only [List.length_cons]; omega
      · simp only [firstDiff, e, ↓reduceIte, Option.some.injEq] at h
        subst h; simp

theorem siblings_upd_self (d : Nat) (f : Bits → Bytes) (key : Bits) (value : Bytes) :
    siblings H d (upd f key value) key = siblings H d f key := by
  induction d generalizing f key with
  | zero => simp [siblings]
  | succ d ih =>
    cases key with
    | nil => simp [siblings]
    | cons b bs =>
      cases b with
      | true =>
        simp only [siblings, ↓reduceIte, upd_cons_eq, upd_cons_ne f false true (by decide), ih]
      | false =>
        simp only [siblings, Bool.false_eq_true, ↓reduceIte, upd_cons_eq,
          upd_cons_ne f true false (by decide), ih]

theorem pathHashes_length (d : Nat) (f : Bits → Bytes) (key : Bits) (hk : key.length = d) :
    (pathHashes H d f key).length = d := by
  induction d generalizing f key with
  | zero => cases key <;> simp [pathHashes]
  | succ d ih =>
    cases key with
    | nil => simp at hk
    | cons b bs => simp [pathHashes, ih _ bs (by simpa using hk)]

/-- **C15, one update**: a proof that is in sync with the leaf function `f` (value and branch of the
    tracked key) stays in sync after the tree wrote `value` at `key`, given any prefix of the returned
    hashes that reaches the first differing bit; a shorter prefix is rejected -/
theorem proof_update_tracks (d : Nat) (f : Bits → Bytes) (p : Proof) (hp : p.key.length = d)
    (hv : p.value = f p.key) (hb : p.branch = siblings H d f p.key)
    (key : Bits) (hk : key.length = d) (value : Bytes) (n : Nat) :
    let ups := (pathHashes H d (upd f key value) key).take n
    (key = p.key → ∃ p', p.update key value ups = .ok p' ∧ p'.key = p.key ∧
        p'.value = upd f key value p.key ∧ p'.branch = siblings H d (upd f key value) p.key) ∧
    (∀ i, firstDiff p.key key = some i → i < n → ∃ p', p.update key value ups = .ok p' ∧ p'.key = p.key ∧
        p'.value = upd f key value p.key ∧ p'.branch = siblings H d (upd f key value) p.key) ∧
    (∀ i, firstDiff p.key key = some i → n ≤ i → p.update key value ups = .error .validation) := by
  intro ups
  have hlenups : ups.length = min n d := by
    simp [ups, pathHashes_length H d _ key hk]
  refine ⟨?_, ?_, ?_⟩
  · intro hkey
    subst hkey
    have hnone : firstDiff p.key p.key = none := (firstDiff_none_iff _ _ rfl).2 rfl
    refine ⟨{ p with value := value }, ?_, rfl, ?_, ?_⟩
    · simp [Proof.update, hnone]
    · simp [upd]
    · simp only [siblings_upd_self]; exact hb
  · intro i hi hin
    have hlt := firstDiff_lt _ _ i hi
    have hne : p.key ≠ key := by
      intro e
      have := (firstDiff_none_iff p.key key (by omega)).2 e
      rw [this] at hi; cases hi
    have hnle : ¬ ups.length ≤ i := by omega
    refine ⟨{ p with branch := p.branch.set i (ups.getD i []) }, ?_, rfl, ?_, ?_⟩
    · simp only [Proof.update, hi, hnle, ↓reduceIte]
    · simp only [upd, hne, ↓reduceIte]; exact hv
    · have hg : ups.getD i [] = (pathHashes H d (upd f key value) key).getD i [] := by
        simp only [ups, List.getD_eq_getElem?_getD, List.getElem?_take, hin, ↓reduceIte]
      simp only [hg, hb]
      exact (siblings_upd H d f p.key key hp hk value i hi).symm
  · intro i hi hni
    have hle : ups.length ≤ i := by omega
    simp only [Proof.update, hi, hle, ↓reduceIte]

/-- a proof in sync has the tree's root hash -/
theorem proof_root (d : Nat) (f : Bits → Bytes) (p : Proof) (hp : p.key.length = d)
    (hv : p.value = f p.key) (hb : p.branch = siblings H d f p.key) : p.rootHash H = merkleRoot H d f := by
  simp only [Proof.rootHash, hv, hb]
  exact calcRoot_siblings H d f p.key hp


end PyTrie.Smt
