import PyTrie.Lemmas.BinRawSteps
/-! `bsetS` unfolded one level with the same parts named as on the raw side, and each raw part tied to its
    tree part. -/
namespace PyTrie.BinRaw
open PyTrie.Bin PyTrie.Bin.BNode

variable (H : Bytes → Bytes)

def kvRes (p : Bits) : TRes → TRes
  | (.error e, s) => (.error e, s)
  | (.ok none, s) => (.ok none, s)
  | (.ok (some x), s) => (.ok (some (mkKv p x)), s ++ [mkKv p x])

def valNodeOf (k : Bits) (n : Nat) (v : Bytes) : BNode :=
  if k.length = n + 1 then leaf v else kv (k.drop (n + 1)) (leaf v)
def valSaves (k : Bits) (n : Nat) (v : Bytes) : List BNode :=
  if k.length = n + 1 then [leaf v] else [leaf v, kv (k.drop (n + 1)) (leaf v)]
def oldNodeOf (p : Bits) (n : Nat) (c : BNode) : BNode :=
  if p.length = n + 1 then c else kv (p.drop (n + 1)) c
def oldSaves (p : Bits) (n : Nat) (c : BNode) : List BNode :=
  if p.length = n + 1 then [] else [kv (p.drop (n + 1)) c]
def newSubOf (k : Bits) (n : Nat) (o vn : BNode) : BNode :=
  if (k.drop n).head? = some true then branch o vn else branch vn o

def splitRes (p : Bits) (c : BNode) (k : Bits) (v : Bytes) : TRes :=
  if k.length ≤ cpl p k then (.error .override, [])
  else if cpl p k = 0 then
    (.ok (some (newSubOf k (cpl p k) (oldNodeOf p (cpl p k) c) (valNodeOf k (cpl p k) v))),
      valSaves k (cpl p k) v ++ oldSaves p (cpl p k) c ++
        [newSubOf k (cpl p k) (oldNodeOf p (cpl p k) c) (valNodeOf k (cpl p k) v)])
  else
    (.ok (some (kv (p.take (cpl p k)) (newSubOf k (cpl p k) (oldNodeOf p (cpl p k) c) (valNodeOf k (cpl p k) v)))),
      valSaves k (cpl p k) v ++ oldSaves p (cpl p k) c ++
        [newSubOf k (cpl p k) (oldNodeOf p (cpl p k) c) (valNodeOf k (cpl p k) v),
         kv (p.take (cpl p k)) (newSubOf k (cpl p k) (oldNodeOf p (cpl p k) c) (valNodeOf k (cpl p k) v))])

def brRes (b : Bool) (l r : BNode) : TRes → TRes
  | (.error e, s) => (.error e, s)
  | (.ok none, s) =>
    if b = false then (.ok (some (mkKv [true] r)), s ++ [mkKv [true] r])
    else (.ok (some (mkKv [false] l)), s ++ [mkKv [false] l])
  | (.ok (some x), s) =>
    if b = false then (.ok (some (branch x r)), s ++ [branch x r])
    else (.ok (some (branch l x)), s ++ [branch l x])

theorem bsetS_leaf (x : Bytes) (k : Bits) (v : Bytes) (sub : Bool) :
    bsetS (leaf x) k v sub =
      if k ≠ [] then (.error .override, [])
      else if sub then (.ok none, [])
      else if v ≠ [] then (.ok (some (leaf v)), [leaf v]) else (.ok none, []) := by
  rw [bsetS]

theorem bsetS_kv (p : Bits) (c : BNode) (k : Bits) (v : Bytes) (sub : Bool) :
    bsetS (kv p c) k v sub =
      if k = [] then (if sub then (.ok none, []) else (.error .override, []))
      else if sub ∧ k.length < p.length ∧ k <+: p then (.ok none, [])
      else if p <+: k then kvRes p (bsetS c (k.drop p.length) v sub)
      else if v = [] ∨ sub then (.ok (some (kv p c)), []) else splitRes p c k v := by
  rw [bsetS]
  rfl

theorem bsetS_branch_nil (l r : BNode) (v : Bytes) (sub : Bool) :
    bsetS (branch l r) [] v sub = if sub then (.ok none, []) else (.error .override, []) := by
  rw [bsetS]

theorem bsetS_branch_cons (l r : BNode) (b : Bool) (k : Bits) (v : Bytes) (sub : Bool) :
    bsetS (branch l r) (b :: k) v sub = brRes b l r (if b = false then bsetS l k v sub else bsetS r k v sub) := by
  rw [bsetS]
  cases b
  · simp only [if_true]; rfl
  · simp only [Bool.true_eq_false, if_false]; rfl

/-! ### the split of a kv node -/

theorem valStep_ok (hlen : ∀ b, (H b).length = 32) (st : St) (k : Bits) (n : Nat) (v : Bytes) (hv : v ≠ [])
    (hk : n < k.length) :
    valStep H st k n v = .ok (hashNode H (valNodeOf k n v), after H st (valSaves k n v)) := by
  unfold valStep valNodeOf valSaves
  by_cases h : k.length = n + 1
  · simp only [if_pos h]; exact saveLeaf_enc H st v hv
  · have h2 : ¬ k.length ≤ n := by omega
    simp only [if_neg h, if_neg h2]
    rw [saveLeaf_enc H st v hv]
    show saveKv H _ _ (hashNode H (leaf v)) = _
    rw [saveKv_enc H hlen _ _ (by simp; omega)]
    rfl

theorem oldStep_ok (hlen : ∀ b, (H b).length = 32) (st : St) (p : Bits) (n : Nat) (c : BNode) (hn : n < p.length) :
    oldStep H st p n (hashNode H c) = .ok (hashNode H (oldNodeOf p n c), after H st (oldSaves p n c)) := by
  unfold oldStep oldNodeOf oldSaves
  by_cases h : p.length = n + 1
  · simp only [if_pos h]; rfl
  · simp only [if_neg h]
    exact saveKv_enc H hlen _ _ (by simp; omega) c

theorem brStep_ok (hlen : ∀ b, (H b).length = 32) (st : St) (k : Bits) (n : Nat) (o vn : BNode) :
    brStep H st k n (hashNode H o) (hashNode H vn) =
      .ok (hashNode H (newSubOf k n o vn), after H st [newSubOf k n o vn]) := by
  unfold brStep newSubOf
  by_cases h : (k.drop n).head? = some true
  · simp only [if_pos h]; exact saveBranch_enc H hlen st o vn
  · simp only [if_neg h]; exact saveBranch_enc H hlen st vn o

theorem splitBody_expected (hlen : ∀ b, (H b).length = 32) (st : St) (p : Bits) (c : BNode) (k : Bits) (v : Bytes)
    (hv : v ≠ []) (hp : p ≠ []) (hpre : ¬ p <+: k) :
    splitBody H st p (hashNode H c) k v = expected H st (splitRes p c k v) := by
  have hn : cpl p k < p.length := by
    have := cpl_le_left p k
    have : cpl p k ≠ p.length := fun e => hpre ((cpl_eq_length_iff p k).1 e)
    omega
  unfold splitBody splitRes
  by_cases hk : k.length ≤ cpl p k
  · have h1 : ¬ k.length = cpl p k + 1 := by omega
    simp only [valStep, if_neg h1, if_pos hk]
    rfl
  · rw [valStep_ok H hlen st k _ v hv (by omega)]
    simp only [if_neg hk]
    rw [oldStep_ok H hlen _ p _ c hn]
    simp only []
    rw [brStep_ok H hlen]
    simp only [topStep]
    by_cases h0 : cpl p k = 0
    · simp only [h0, ne_eq, not_true_eq_false, if_false, if_true, expected_ok, rootOf, after_append]
    · simp only [ne_eq, h0, not_false_eq_true, if_true, if_false, expected_ok, rootOf]
      rw [saveKv_enc H hlen _ _ (by
        intro e
        rcases List.take_eq_nil_iff.1 e with h | h
        · exact h0 h
        · exact hp h)]
      rw [after_append, after_append]
      rfl

end PyTrie.BinRaw
