import PyTrie.Model.Bin
import PyTrie.Lemmas.BinSub
import PyTrie.Lemmas.BinSaves
/-! The binary trie on trees: map semantics of `_set` in all its modes, the shape invariant, canonical
    uniqueness, and the save list. `bget t k = some v` ⇔ key `k` (a bit string) holds `v`. -/
namespace PyTrie.Bin
open BNode

/-- shape invariant of honest tries: leaf values and kv paths are non-empty, a kv node never points to a
    kv node (paths are compressed) -/
def BCanon : BNode → Prop
  | leaf v => v ≠ []
  | kv p c => p ≠ [] ∧ (∀ p' c', c ≠ kv p' c') ∧ BCanon c
  | branch l r => BCanon l ∧ BCanon r

def BCanonTop : Option BNode → Prop
  | none => True
  | some n => BCanon n

/-- two stored keys are *related* when one is a proper prefix of the other -/
def Related (a b : Bits) : Prop := a ≠ b ∧ (a <+: b ∨ b <+: a)

/-! ### helper lemmas about `BCanon` -/

theorem wf_of_bcanon (t : BNode) (h : BCanon t) : WF t := by
  induction t with
  | leaf v => exact h
  | kv p c ih => exact ⟨h.1, ih h.2.2⟩
  | branch l r ihl ihr => exact ⟨ihl h.1, ihr h.2⟩

theorem bcanon_mkKv (p : Bits) (s : BNode) (hp : p ≠ []) (hs : BCanon s) : BCanon (mkKv p s) := by
  cases s with
  | leaf v => exact ⟨hp, (by intro _ _ h; cases h), hs⟩
  | kv p2 c2 => exact ⟨by simp [hp], hs.2.1, hs.2.2⟩
  | branch l r => exact ⟨hp, (by intro _ _ h; cases h), hs⟩

theorem bcanon_bset (t : BNode) (k : Bits) (v : Bytes) (sub : Bool) (ht : BCanon t) (t' : BNode)
    (h : bset t k v sub = .ok (some t')) : BCanon t' := by
  induction t generalizing k t' with
  | leaf x =>
    simp only [bset] at h
    split at h
    · cases h
    · split at h
      · cases h
      · split at h
        · next hv => cases h; exact hv
        · cases h
  | kv p c ih =>
    obtain ⟨hp, hnk, hc⟩ := ht
    simp only [bset] at h
    split at h
    · split at h <;> cases h
    · split at h
      · cases h
      · split at h
        · split at h
          · cases h
          · cases h
          · next s hs => cases h; exact bcanon_mkKv p s hp (ih _ hc s hs)
        · next hk hsub hpre =>
          split at h
          · cases h; exact ⟨hp, hnk, hc⟩
          · next hv =>
            split at h
            · cases h
            · next hlen =>
              cases h
              have hn : cpl p k < p.length := by
                have := cpl_le_left p k
                have : cpl p k ≠ p.length := fun e => hpre ((cpl_eq_length_iff p k).1 e)
                omega
              have hval : BCanon (if k.length = cpl p k + 1 then leaf v else kv (k.drop (cpl p k + 1)) (leaf v)) := by
                have hv' : v ≠ [] := fun e => hv (Or.inl e)
                split
                · exact hv'
                · exact ⟨by simp; omega, (by intro _ _ e; cases e), hv'⟩
              have hold : BCanon (if p.length = cpl p k + 1 then c else kv (p.drop (cpl p k + 1)) c) := by
                split
                · exact hc
                · exact ⟨by simp; omega, hnk, hc⟩
              have hnew : BCanon (if (k.drop (cpl p k)).head? = some true then
                  branch (if p.length = cpl p k + 1 then c else kv (p.drop (cpl p k + 1)) c)
                    (if k.length = cpl p k + 1 then leaf v else kv (k.drop (cpl p k + 1)) (leaf v))
                else branch (if k.length = cpl p k + 1 then leaf v else kv (k.drop (cpl p k + 1)) (leaf v))
                    (if p.length = cpl p k + 1 then c else kv (p.drop (cpl p k + 1)) c)) := by
                split
                · exact ⟨hold, hval⟩
                · exact ⟨hval, hold⟩
              split
              · exact hnew
              · next hn0 =>
                refine ⟨fun e => ?_, ?_, hnew⟩
                · rcases List.take_eq_nil_iff.1 e with h | h
                  · exact hn0 h
                  · exact hp h
                · intro p' c' e
                  split at e <;> cases e
  | branch l r ihl ihr =>
    obtain ⟨hl, hr⟩ := ht
    cases k with
    | nil => simp only [bset] at h; split at h <;> cases h
    | cons b k' =>
      simp only [bset] at h
      split at h
      · split at h
        · cases h
        · cases h; exact bcanon_mkKv _ _ (by simp) hr
        · next nl hnl => cases h; exact ⟨ihl _ hl nl hnl, hr⟩
      · split at h
        · cases h
        · cases h; exact bcanon_mkKv _ _ (by simp) hl
        · next nr hnr => cases h; exact ⟨hl, ihr _ hr nr hnr⟩

/-- every key of a canonical `kv p c` starts with `q` only if `q` is a prefix of `p` -/
theorem kv_prefix_le (p : Bits) (c : BNode) (hc : BCanon (kv p c)) (q : Bits)
    (h : ∀ k v, bget (kv p c) k = some v → q <+: k) : q <+: p := by
  obtain ⟨hp, hnk, hcc⟩ := hc
  cases c with
  | leaf v => exact h p v ((bget_kv_some ..).2 ⟨hp, [], by simp, rfl⟩)
  | kv p' c' => exact absurd rfl (hnk p' c')
  | branch l r =>
    obtain ⟨x, vx, hx⟩ := wf_exists_key l (wf_of_bcanon _ hcc.1)
    obtain ⟨y, vy, hy⟩ := wf_exists_key r (wf_of_bcanon _ hcc.2)
    have h1 := h (p ++ false :: x) vx
      ((bget_kv_some ..).2 ⟨by simp, false :: x, rfl, by rw [bget_branch_cons]; exact hx⟩)
    have h2 := h (p ++ true :: y) vy
      ((bget_kv_some ..).2 ⟨by simp, true :: y, rfl, by rw [bget_branch_cons]; exact hy⟩)
    rcases List.prefix_or_prefix_of_prefix h1 (List.prefix_append p _) with h3 | ⟨s, rfl⟩
    · exact h3
    · rw [List.prefix_append_right_inj] at h1 h2
      cases s with
      | nil => simp
      | cons b s' =>
        have e1 := (List.cons_prefix_cons.1 h1).1
        have e2 := (List.cons_prefix_cons.1 h2).1
        rw [e1] at e2; cases e2

theorem kv_branch_keys_ne (p : Bits) (c l r : BNode) (hkv : BCanon (kv p c)) (hbr : BCanon (branch l r))
    (h : ∀ k, bget (kv p c) k = bget (branch l r) k) : False := by
  obtain ⟨x, vx, hx⟩ := wf_exists_key l (wf_of_bcanon _ hbr.1)
  obtain ⟨y, vy, hy⟩ := wf_exists_key r (wf_of_bcanon _ hbr.2)
  have h1 : bget (kv p c) (false :: x) = some vx := by rw [h, bget_branch_cons]; exact hx
  have h2 : bget (kv p c) (true :: y) = some vy := by rw [h, bget_branch_cons]; exact hy
  obtain ⟨_, r1, e1, _⟩ := (bget_kv_some ..).1 h1
  obtain ⟨_, r2, e2, _⟩ := (bget_kv_some ..).1 h2
  cases p with
  | nil => exact hkv.1 rfl
  | cons b p' =>
    have a1 : false = b := by simpa using (List.cons.inj e1).1
    have a2 : true = b := by simpa using (List.cons.inj e2).1
    rw [← a1] at a2; cases a2

/-! ### the target theorems -/

/-- every canonical subtree stores at least one key -/
theorem exists_key (t : BNode) (hc : BCanon t) : ∃ k v, bget t k = some v := by
  exact wf_exists_key t (wf_of_bcanon t hc)

/-- stored keys are never related (values live in leaves only) -/
theorem keys_prefix_free (t : BNode) (a b : Bits) (va vb : Bytes)
    (ha : bget t a = some va) (hb : bget t b = some vb) : ¬ Related a b := by
  rintro ⟨hne, h | h⟩
  · exact hne (prefix_key_eq t a b va vb ha hb h)
  · exact hne (prefix_key_eq t b a vb va hb ha h).symm

/-- the shape invariant is preserved by every successful `_set` (store, delete, delete_subtrie) -/
theorem bcanon_bsetTop (t : Option BNode) (hc : BCanonTop t) (k : Bits) (v : Bytes) (sub : Bool) (hk : k ≠ [])
    (t' : Option BNode) (h : bsetTop t k v sub = .ok t') : BCanonTop t' := by
  cases t with
  | none =>
    simp only [bsetTop] at h
    split at h
    · next hv => cases h; exact ⟨hk, (by intro _ _ e; cases e), hv⟩
    · cases h; trivial
  | some n =>
    cases t' with
    | none => trivial
    | some n' => exact bcanon_bset n k v sub hc n' h

/-- **store**: a successful `set(k, v)` with `v ≠ b""` changes exactly key `k` -/
theorem bget_set (t : Option BNode) (hc : BCanonTop t) (k : Bits) (hk : k ≠ []) (v : Bytes) (hv : v ≠ [])
    (t' : Option BNode) (h : bsetTop t k v false = .ok t') (k' : Bits) :
    bgetTop t' k' = if k' = k then some v else bgetTop t k' := by
  cases t with
  | none =>
    simp only [bsetTop, ne_eq, hv, not_false_eq_true, ↓reduceIte] at h
    cases h
    have := bget_valNode k v k'
    unfold valNode at this
    rw [if_neg hk] at this
    exact this
  | some n =>
    cases t' with
    | none => exact absurd h (bset_ne_none n k v hv)
    | some n' => exact bget_bset n k v hv (wf_of_bcanon n hc) n' h k'

/-- … and it is refused with `NodeOverrideError` exactly when a related key is stored -/
theorem set_override_iff (t : Option BNode) (hc : BCanonTop t) (k : Bits) (hk : k ≠ []) (v : Bytes) (hv : v ≠ []) :
    bsetTop t k v false = .error .override ↔ ∃ k' v', bgetTop t k' = some v' ∧ Related k' k := by
  cases t with
  | none =>
    simp only [bsetTop]
    constructor
    · intro h; split at h <;> cases h
    · rintro ⟨k', v', h, _⟩; cases h
  | some n => exact bset_override_iff n (wf_of_bcanon n hc) k v hv

/-- **delete**: a successful `delete(k)` removes exactly key `k` (nothing if it was absent) -/
theorem bget_delete (t : Option BNode) (hc : BCanonTop t) (k : Bits) (hk : k ≠ [])
    (t' : Option BNode) (h : bsetTop t k [] false = .ok t') (k' : Bits) :
    bgetTop t' k' = if k' = k then none else bgetTop t k' := by
  cases t with
  | none =>
    simp [bsetTop] at h
    subst h
    simp [bgetTop]
  | some n => exact bget_bset_delete n (wf_of_bcanon n hc) k t' h k'

/-- … and it can be refused only for an absent key that is related to a stored key -/
theorem delete_override (t : Option BNode) (hc : BCanonTop t) (k : Bits) (hk : k ≠ [])
    (h : bsetTop t k [] false = .error .override) :
    bgetTop t k = none ∧ ∃ k' v', bgetTop t k' = some v' ∧ Related k' k := by
  cases t with
  | none => simp [bsetTop] at h
  | some n => exact bset_delete_override n (wf_of_bcanon n hc) k h

/-- **delete_subtrie**: a successful `delete_subtrie(p)` removes exactly the keys starting with `p` -/
theorem bget_delete_subtrie (t : Option BNode) (hc : BCanonTop t) (p : Bits) (hp : p ≠ [])
    (t' : Option BNode) (h : bsetTop t p [] true = .ok t') (k' : Bits) :
    bgetTop t' k' = if p <+: k' then none else bgetTop t k' := by
  cases t with
  | none =>
    simp [bsetTop] at h
    subst h
    simp [bgetTop]
  | some n => exact bget_bset_sub n (wf_of_bcanon n hc) p t' h k'

/-- … and it is refused only when `p` runs past a stored key (then no stored key starts with `p`) -/
theorem delete_subtrie_override (t : Option BNode) (hc : BCanonTop t) (p : Bits) (hp : p ≠ [])
    (h : bsetTop t p [] true = .error .override) :
    (∃ k' v', bgetTop t k' = some v' ∧ k' <+: p ∧ k' ≠ p) ∧ ∀ k' v', bgetTop t k' = some v' → ¬ p <+: k' := by
  cases t with
  | none => simp [bsetTop] at h
  | some n =>
    obtain ⟨k0, v0, h1, h2, h3⟩ := bset_sub_override n (wf_of_bcanon n hc) p h
    refine ⟨⟨k0, v0, h1, h2, h3⟩, fun k' v' hk' hp' => ?_⟩
    have e := prefix_key_eq n k0 k' v0 v' h1 hk' (h2.trans hp')
    subst e
    exact h3 (h2.eq_of_length_le hp'.length_le)

/-- **canonical form**: two canonical trees with the same contents are equal -/
theorem bcanon_unique (a b : BNode) (ha : BCanon a) (hb : BCanon b) (h : ∀ k, bget a k = bget b k) : a = b := by
  induction a generalizing b with
  | leaf v =>
    cases b with
    | leaf w => have := h []; simp [bget_leaf] at this; rw [this]
    | kv q d => have := h []; simp [bget_leaf, bget_kv] at this
    | branch l r => have := h []; simp [bget_leaf, bget_branch_nil] at this
  | kv p c ih =>
    cases b with
    | leaf w => have := h []; simp [bget_leaf, bget_kv] at this
    | kv q d =>
      have h1 : q <+: p := kv_prefix_le p c ha q (fun k v hk => by
        rw [h k] at hk
        obtain ⟨_, r, rfl, _⟩ := (bget_kv_some ..).1 hk
        exact List.prefix_append _ _)
      have h2 : p <+: q := kv_prefix_le q d hb p (fun k v hk => by
        rw [← h k] at hk
        obtain ⟨_, r, rfl, _⟩ := (bget_kv_some ..).1 hk
        exact List.prefix_append _ _)
      have hpq : p = q := h2.eq_of_length_le h1.length_le
      subst hpq
      have : c = d := ih d ha.2.2 hb.2.2 (fun k => by
        have := h (p ++ k)
        simpa [bget_kv, ha.1] using this)
      rw [this]
    | branch l r => exact (kv_branch_keys_ne p c l r ha hb h).elim
  | branch l r ihl ihr =>
    cases b with
    | leaf w => have := h []; simp [bget_leaf, bget_branch_nil] at this
    | kv q d => exact (kv_branch_keys_ne q d l r hb ha (fun k => (h k).symm)).elim
    | branch l' r' =>
      rw [ihl l' ha.1 hb.1 (fun k => by simpa [bget_branch_cons] using h (false :: k)),
        ihr r' ha.2 hb.2 (fun k => by simpa [bget_branch_cons] using h (true :: k))]

/-- `bsetS` computes `bset` … -/
theorem bsetTopS_fst (t : Option BNode) (k : Bits) (v : Bytes) (sub : Bool) :
    (bsetTopS t k v sub).1 = bsetTop t k v sub := by
  cases t with
  | none => simp only [bsetTopS, bsetTop]; split <;> rfl
  | some n => exact bsetS_fst n k v sub

/-- … and a call that raises has saved nothing: root *and* database are untouched -/
theorem raise_before_save (t : Option BNode) (k : Bits) (v : Bytes) (sub : Bool) (e : Err)
    (h : (bsetTopS t k v sub).1 = .error e) : (bsetTopS t k v sub).2 = [] := by
  cases t with
  | none => simp only [bsetTopS] at h ⊢; split at h <;> cases h
  | some n => exact bsetS_raise n k v sub e h

/-- every node of the new trie was already a node of the old one or has just been saved -/
theorem saves_complete (t : Option BNode) (k : Bits) (v : Bytes) (sub : Bool) (n' : BNode)
    (h : (bsetTopS t k v sub).1 = .ok (some n')) (x : BNode) (hx : x ∈ trieNodes n') :
    x ∈ (bsetTopS t k v sub).2 ∨ ∃ n, t = some n ∧ x ∈ trieNodes n := by
  cases t with
  | none =>
    simp only [bsetTopS] at h ⊢
    split at h
    · next hv =>
      rw [if_pos hv]
      have e : kv k (leaf v) = n' := by simpa using h
      subst e
      left
      simpa [trieNodes, or_comm] using hx
    · simp at h
  | some n =>
    rcases bsetS_complete n k v sub n' h x hx with h1 | h1
    · exact .inl h1
    · exact .inr ⟨n, rfl, h1⟩

end PyTrie.Bin
