import PyTrie.Lemmas.RawItems
/-! `_set` / `_set_kv_node` / `_set_branch_node` at raw level refine `setE`. -/
set_option linter.unusedSimpArgs false
namespace PyTrie.HexRaw
open PyTrie.Hex PyTrie.HexD PyTrie.Hex.Node
variable (H : Bytes → Bytes)

theorem fold_leaf (p : Path) (v : Bytes) : Item.list [leafKey p, .str v] = toItem H (leaf p v) := rfl
theorem fold_ext (p : Path) (c : Node) : Item.list [extKey p, refOf H c] = toItem H (ext p c) := rfl
theorem fold_branch (ch : Nib → Node) (v : Bytes) : Item.list (brItems H ch v) = toItem H (branch ch v) := rfl

theorem wrap_nil' (n : Node) : wrap [] n = n := rfl
theorem wrap_ne {c : Path} (h : c ≠ []) (n : Node) : wrap c n = ext c n := by simp [wrap, h]

/-- `_set_kv_node` on a leaf -/
theorem rawSetKv_leaf (fuel : Nat) (st : St) (p : Path) (pv : Bytes) (k : Path) (v : Bytes) :
    rawSetKv H (fuel + 1) (st.app (pruneEv (stdHashing H) (leaf p pv))) (toItem H (leaf p pv)) p (.str pv) false k v =
      .ok (toItem H (setE (stdHashing H) (leaf p pv) k v).1, st.app (setE (stdHashing H) (leaf p pv) k v).2) := by
  simp only [rawSetKv, setE, toItem_leaf]
  generalize p.drop (cpl p k) = pr
  generalize k.drop (cpl p k) = kr
  generalize p.take (cpl p k) = cm
  cases pr <;> cases kr <;> simp only [Bool.not_false, ↓reduceIte, Bool.false_eq_true, and_false]
  · rfl
  all_goals
    simp only [fold_leaf H, persistNodeR_toItem, replicate16_eq H, blank17_eq H, setAt_brItems_child,
      setAt_brItems_val, fold_branch H, app_app]
    by_cases hcm : cm = []
    · subst hcm
      simp [wrap_nil']
    · simp [hcm, wrap_ne hcm, fold_ext H, List.append_assoc]

/-- `_set_kv_node` on an extension, given the refinement for the recursive `_set` on its child -/
theorem rawSetKv_ext (hlen : ∀ b, (H b).length = 32) (fuel : Nat) (st : St) (p : Path) (c : Node) (k : Path)
    (v : Bytes) (hp : p ≠ []) (hsc : StoredC H st.db c)
    (ih : p.drop (cpl p k) = [] → ∀ st' : St, st'.db = st.db →
      rawSet H fuel st' (toItem H c) (k.drop (cpl p k)) v =
      .ok (toItem H (setE (stdHashing H) c (k.drop (cpl p k)) v).1,
           st'.app (setE (stdHashing H) c (k.drop (cpl p k)) v).2)) :
    rawSetKv H (fuel + 1) (st.app (pruneEv (stdHashing H) (ext p c))) (toItem H (ext p c)) p (refOf H c) true k v =
      .ok (toItem H (setE (stdHashing H) (ext p c) k v).1, st.app (setE (stdHashing H) (ext p c) k v).2) := by
  have hsplit : p.take (cpl p k) ++ p.drop (cpl p k) = p := List.take_append_drop _ _
  simp only [rawSetKv, setE, toItem_ext]
  generalize p.drop (cpl p k) = pr at hsplit ih ⊢
  generalize k.drop (cpl p k) = kr at ih ⊢
  generalize p.take (cpl p k) = cm at hsplit ⊢
  cases pr with
  | nil =>
    have : cm = p := by simpa using hsplit
    subst this
    have hg := getNodeR_refOf H hlen (st.app (pruneEv (stdHashing H) (ext cm c))) c (by simpa using hsc)
    have hi := ih rfl (st.app (pruneEv (stdHashing H) (ext cm c) ++ readEv (stdHashing H) c)) (by simp)
    cases kr <;> simp only [Bool.not_true, Bool.false_eq_true, ↓reduceIte, hg, app_app, hi, Except.map, ne_eq, hp,
      not_false_eq_true, persistNodeR_toItem, fold_ext H, List.append_assoc]
  | cons ph pt =>
    clear ih hsplit
    cases kr <;> simp only [and_true, ↓reduceIte] <;>
    (by_cases hpt : pt = []
     · subst hpt
       simp only [↓reduceIte, wrap_nil', fold_leaf H, persistNodeR_toItem, blank17_eq H, setAt_brItems_child,
         setAt_brItems_val, fold_branch H, app_app]
       by_cases hcm : cm = []
       · subst hcm
         simp [wrap_nil']
       · simp [hcm, wrap_ne hcm, fold_ext H, List.append_assoc]
     · simp only [hpt, ↓reduceIte, wrap_ne hpt, fold_ext H, fold_leaf H, persistNodeR_toItem, blank17_eq H,
         setAt_brItems_child, setAt_brItems_val, fold_branch H, app_app]
       by_cases hcm : cm = []
       · subst hcm
         simp [wrap_nil']
       · simp [hcm, wrap_ne hcm, fold_ext H, List.append_assoc])

theorem drop_cpl_length (p k : Path) (hp : p ≠ []) (h : p.drop (cpl p k) = []) :
    (k.drop (cpl p k)).length + 1 ≤ k.length := by
  have h1 := cpl_le_right p k
  have h2 : p.length ≤ cpl p k := List.drop_eq_nil_iff.1 h
  have h3 : 0 < p.length := List.length_pos_iff.2 hp
  simp only [List.length_drop]
  omega

/-- **`_set` refines `setE`** (in terms of `St.app`) -/
theorem rawSet_refines_app (hlen : ∀ b, (H b).length = 32) (v : Bytes) (t : Node) :
    Canon t → ∀ (k : Path) (st : St) (fuel : Nat), StoredD H st.db t → 2 * k.length + 2 ≤ fuel →
    rawSet H fuel st (toItem H t) k v =
      .ok (toItem H (setE (stdHashing H) t k v).1, st.app (setE (stdHashing H) t k v).2) := by
  induction t with
  | blank =>
    intro _ k st fuel _ hf
    obtain ⟨f, rfl⟩ : ∃ f, fuel = f + 1 := ⟨fuel - 1, by omega⟩
    simp [rawSet, classify_blank, pruneNodeR_toItem, setE, pruneEv, stdHashing, isHashed, isBlank, fold_leaf H]
  | leaf p pv =>
    intro _ k st fuel _ hf
    obtain ⟨f, rfl⟩ : ∃ f, fuel = f + 2 := ⟨fuel - 2, by omega⟩
    simp only [rawSet, classify_leaf, pruneNodeR_toItem]
    exact rawSetKv_leaf H f st p pv k v
  | ext p c ih =>
    intro hc k st fuel hst hf
    obtain ⟨hpne, _, hcc⟩ := hc
    obtain ⟨hsc, hstc⟩ := hst
    obtain ⟨f, rfl⟩ : ∃ f, fuel = f + 2 := ⟨fuel - 2, by omega⟩
    simp only [rawSet, classify_ext, pruneNodeR_toItem]
    refine rawSetKv_ext H hlen f st p c k v hpne hsc (fun hpr st' hdb => ?_)
    have := drop_cpl_length p k hpne hpr
    exact ih hcc _ st' f (by rw [hdb]; exact hstc) (by omega)
  | branch ch bv ih =>
    intro hc k st fuel hst hf
    obtain ⟨f, rfl⟩ : ∃ f, fuel = f + 1 := ⟨fuel - 1, by omega⟩
    cases k with
    | nil =>
      simp only [rawSet, classify_branch, pruneNodeR_toItem, setE, setAt_brItems_val, fold_branch H]
    | cons a rest =>
      have hg := getNodeR_refOf H hlen (st.app (pruneEv (stdHashing H) (branch ch bv))) (ch a)
        (by rw [app_db_pruneEv]; exact (hst a).1)
      have hi := ih a (hc.1 a) rest (st.app (pruneEv (stdHashing H) (branch ch bv) ++ readEv (stdHashing H) (ch a))) f
        (by rw [app_db_prune_read]; exact (hst a).2) (by simp at hf; omega)
      simp only [rawSet, classify_branch, pruneNodeR_toItem, brItems_getD, hg, app_app, hi, persistNodeR_toItem,
        setAt_brItems_child, fold_branch H, setE, List.append_assoc]

end PyTrie.HexRaw
