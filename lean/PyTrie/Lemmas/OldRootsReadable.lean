import PyTrie.Lemmas.PruneBodies
import PyTrie.Lemmas.RawHistoryGet
import PyTrie.Lemmas.WorldMono
/-! C04 at history level: after ANY history on a non-pruning trie, the database is complete for EVERY earlier version —
    each root the trie ever had still resolves, through the raw-level reader over the final database, to exactly the
    contents of its moment. -/
namespace PyTrie.HexRaw
open PyTrie PyTrie.Hex PyTrie.HexD PyTrie.HexW
open PyTrie.Props.C01 (Op run spec)

variable (H : Bytes → Bytes)

/-- a complete database pins the root pointer to the root hash of the tree -/
theorem complete_root_eq (d : Dict Bytes) (T : TrieSt)
    (hcomp : Complete (stdHashing H) (blankRoot H) d T) : T.root = rootHash H T.tree := by
  have h1 := hcomp.1
  cases hb : isBlank T.tree with
  | true =>
    rw [hb] at h1
    simp only [if_true] at h1
    rw [h1, (isBlank_iff T.tree).1 hb]
    simp [rootHash, enc_blank, blankRoot]
  | false =>
    rw [hb] at h1
    simp only [Bool.false_eq_true, if_false] at h1
    exact h1.1

/-- every prefix of a non-pruning history is itself such a history, and its database is preserved in the final one -/
theorem noprune_history_prefix (ops : List Op) (T : TrieSt) (s : OpSt)
    (h : ReachOpsNC (stdHashing H) (blankRoot H) false ops T s) (i : Nat) :
    ∃ Ti si, ReachOpsNC (stdHashing H) (blankRoot H) false (ops.take i) Ti si ∧ Preserved si.store.base s.store.base := by
  induction h with
  | init => exact ⟨_, _, by simpa using ReachOpsNC.init, Preserved.refl _⟩
  | step ops T s o T' hreach hrs hbl hnc hok ih =>
    by_cases hle : i ≤ ops.length
    · obtain ⟨Ti, si, hr, hp⟩ := ih
      refine ⟨Ti, si, ?_, ?_⟩
      · rw [List.take_append_of_le_length hle]; exact hr
      · obtain ⟨htree, hprune, hcache, hfa, hdb⟩ :=
          reachOps_inv (stdHashing H) (blankRoot H) false ops T s
            (reachOpsNC_reachOps (stdHashing H) (blankRoot H) false ops T s hreach)
        simp only [Bool.false_eq_true, if_false] at hdb
        have hcanon : Canon T.tree := htree ▸ PyTrie.Props.C01.canon_run ops
        obtain ⟨T'', _, _, _, hpres, _⟩ := opSetDel_complete (stdHashing H) (blankRoot H) T hprune hcanon
          (opKey o) (opVal o) s hcache hfa hdb hrs hnc hbl
        exact hp.trans hpres
    · refine ⟨T', _, ?_, Preserved.refl _⟩
      rw [List.take_of_length_le (by simp; omega)]
      exact ReachOpsNC.step ops T s o T' hreach hrs hbl hnc hok

/-- the final database of a non-pruning history is complete for every earlier version (as a trie opened at that root) -/
theorem noprune_history_complete_for_all (ops : List Op) (T : TrieSt) (s : OpSt)
    (h : ReachOpsNC (stdHashing H) (blankRoot H) false ops T s) (i : Nat) (hi : i ≤ ops.length) :
    Complete (stdHashing H) (blankRoot H) s.store.base
      { tree := run (ops.take i), root := rootHash H (run (ops.take i)), prune := false } := by
  obtain ⟨Ti, si, hr, hp⟩ := noprune_history_prefix H ops T s h i
  have hcomp := complete_mono (stdHashing H) (blankRoot H) _ _ hp Ti
    (reachOpsNC_complete (stdHashing H) (blankRoot H) false _ Ti si hr)
  obtain ⟨htree, hprune⟩ := reachOps_tree (stdHashing H) (blankRoot H) false _ Ti si
    (reachOpsNC_reachOps (stdHashing H) (blankRoot H) false _ Ti si hr)
  have hroot := complete_root_eq H _ Ti hcomp
  have hT : Ti = { tree := run (ops.take i), root := rootHash H (run (ops.take i)), prune := false } := by
    cases Ti
    simp only at htree hprune hroot
    subst htree hprune hroot
    rfl
  rw [← hT]; exact hcomp

/-- **old roots stay fully readable**: `get` over the final database at the root of version `i` returns what was stored
    at that moment, for every key -/
theorem noprune_old_roots_readable (hlen : ∀ b, (H b).length = 32) (ops : List Op) (T : TrieSt) (s : OpSt)
    (h : ReachOpsNC (stdHashing H) (blankRoot H) false ops T s)
    (hbk : Dict.get? s.store.base (blankRoot H) = none)
    (hsm : ∀ h b, Dict.get? s.store.base h = some b → b.length < 2 ^ 64)
    (i : Nat) (hi : i ≤ ops.length) (key : Bytes) :
    getD H s.store.base (rootHash H (run (ops.take i))) (nibs key) = .ok (spec (ops.take i) key) := by
  have hcomp := noprune_history_complete_for_all H ops T s h i hi
  have hcanon : Canon (run (ops.take i)) := PyTrie.Props.C01.canon_run (ops.take i)
  have hag : DbAgrees s.store.base s.store.base := fun _ => rfl
  have := getD_of_complete H hlen _ hcanon s.store.base hcomp hbk hsm s.store.base hag (nibs key)
  rw [this]
  show Except.ok (Hex.get (run (ops.take i)) (nibs key)) = _
  rw [PyTrie.Props.C01.run_get]

/-- … and nothing was ever removed: every binding any intermediate database held is still there -/
theorem noprune_history_preserves (ops : List Op) (T : TrieSt) (s : OpSt)
    (h : ReachOpsNC (stdHashing H) (blankRoot H) false ops T s) (i : Nat) (hi : i ≤ ops.length) :
    ∃ Ti si, ReachOpsNC (stdHashing H) (blankRoot H) false (ops.take i) Ti si ∧ Preserved si.store.base s.store.base :=
  noprune_history_prefix H ops T s h i

end PyTrie.HexRaw
