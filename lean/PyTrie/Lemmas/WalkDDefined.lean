import PyTrie.Lemmas.WalkDRun
/-! The raw-level walk is never stuck: when every scheduled prefix is taken from the fog as it is at that step (what
    `nearest_unknown` / `nearest_right` return), no step is rejected — `explore` accepts every description, real or simulated. -/
namespace PyTrie.HexD
open PyTrie PyTrie.Hex PyTrie.Fog PyTrie.HexRaw PyTrie.Walk

variable (H : Bytes → Bytes)

/-- every scheduled prefix is an unexplored prefix of the fog at that step -/
def InFogRun : CStateD → List StepD → Prop
  | _, [] => True
  | s, e :: rest => e.p ∈ s.fog ∧ ∀ s', cstepDR H e.db e.root s e.p = .ok (some s') → InFogRun s' rest

/-! ### the tree-level step is defined -/

/-- the part of the concrete step after the description is defined whenever the abstract step on that version is -/
theorem cfinish_defined (v : Node) (s : CState) (p : Path) (w' : WState)
    (h : wstep (toW s) v p = some w') :
    ∃ s', cfinish s p (traverseOut v p).desc = some s' ∧ s'.fog = w'.fog := by
  obtain ⟨d, f', hd, hf, rfl⟩ := wstep_some h
  simp only [toW] at hf
  unfold cfinish
  rw [hd]
  simp only [hf]
  exact ⟨_, rfl, rfl⟩

/-- **the concrete step (with the cache) is never rejected** on an unexplored prefix of a well-formed fog: a cache hit
    consults a description equal to that of a canonical version seen, a miss the current version -/
theorem cstep_defined (V : List Node) (t : Node) (ht : t ∈ V) (hcv : ∀ v ∈ V, Canon v)
    (s : CState) (hc : CacheOkV V s.cache) (hw : Wf s.fog) (p : Path) (hp : p ∈ s.fog) :
    ∃ s', cstep t s p = some s' ∧ Wf s'.fog := by
  rw [cstep_eq]
  cases hg : Frontier.get s.cache p with
  | none =>
    obtain ⟨w', hw1, hw2⟩ := wstep_defined (toW s) hw t (hcv t ht) p hp
    obtain ⟨s', hs1, hs2⟩ := cfinish_defined t s p w' hw1
    exact ⟨s', hs1, by rw [hs2]; exact hw2⟩
  | some e =>
    obtain ⟨parent, seg⟩ := e
    obtain ⟨v, hv, hcan, hdesc⟩ := hc p parent seg hg
    simp only
    rw [hdesc]
    obtain ⟨w', hw1, hw2⟩ := wstep_defined (toW s) hw v hcan p hp
    obtain ⟨s', hs1, hs2⟩ := cfinish_defined v s p w' hw1
    exact ⟨s', hs1, by rw [hs2]; exact hw2⟩

/-- the run from an arbitrary state with a well-formed fog: `V` are the versions of the steps already taken -/
theorem crunDR_defined_aux (hlen : ∀ b, (H b).length = 32) (rest : List StepT) :
    ∀ (V : List Node) (s : CState),
      (∀ v ∈ V, Canon v ∧ ∀ e ∈ rest, PartialD H e.db v) →
      (∀ e ∈ rest, Canon e.t ∧ RootPartial H e.db e.root e.t ∧ (isBlank e.t = false → (lookup e.db e.root).isSome) ∧
        StoredD H e.db e.t) →
      rest.Pairwise (fun e e' => PartialD H e'.db e.t) →
      CacheP (Derived V) s.cache → CacheOkV V s.cache → Wf s.fog →
      InFogRun H (toCD H s) (rest.map StepT.toD) →
      ∃ s' : CState, crunDR H (toCD H s) (rest.map StepT.toD) = .ok (some (toCD H s')) := by
  induction rest with
  | nil =>
    intro V s _ _ _ _ _ _ _
    exact ⟨s, rfl⟩
  | cons e rest ih =>
    intro V s hV hrest hpw hder hokv hwf hfog
    obtain ⟨hct, hroot, hrootIn, hst⟩ := hrest e List.mem_cons_self
    obtain ⟨hpw1, hpw2⟩ := List.pairwise_cons.1 hpw
    have hcacheD : CacheOkD H e.db s.cache := fun p parent seg hg =>
      Derived.canon_partial H e.db (fun v hv => ⟨(hV v hv).1, (hV v hv).2 e List.mem_cons_self⟩) (hder p parent seg hg)
    obtain ⟨s0, hs0, hstep⟩ := cstepDR_complete H hlen e.db e.root e.t hct hroot hrootIn hst s hcacheD e.p
    have hfog0 : s0.fog = s.fog := by rcases hs0 with rfl | rfl <;> rfl
    have hsubV : ∀ v ∈ V, v ∈ e.t :: V := fun v hv => List.mem_cons_of_mem _ hv
    have hder0 : CacheP (Derived (e.t :: V)) s0.cache := by
      rcases hs0 with rfl | rfl
      · exact fun p parent seg hg => (hder p parent seg hg).mono hsubV
      · exact fun p parent seg hg => (hder p parent seg (frontier_get_erase _ _ _ _ hg)).mono hsubV
    have hokv0 : CacheOkV (e.t :: V) s0.cache := by
      rcases hs0 with rfl | rfl
      · exact cacheOkV_sub hsubV hokv
      · exact cacheOkV_sub hsubV (cacheOkV_erase hokv e.p)
    have hcanV : ∀ v ∈ e.t :: V, Canon v := by
      intro v hv
      rcases List.mem_cons.1 hv with rfl | hv
      · exact hct
      · exact (hV v hv).1
    simp only [List.map_cons, InFogRun] at hfog
    obtain ⟨hpin, hnext⟩ := hfog
    have hp : (StepT.toD e).p = e.p := rfl
    have hdb : (StepT.toD e).db = e.db := rfl
    have hrt : (StepT.toD e).root = e.root := rfl
    rw [hp, hdb, hrt] at hnext
    rw [hp] at hpin
    have hpin0 : e.p ∈ s0.fog := by rw [hfog0]; exact hpin
    obtain ⟨s1, hcs, hwf1⟩ := cstep_defined (e.t :: V) e.t List.mem_cons_self hcanV s0 hokv0
      (by rw [hfog0]; exact hwf) e.p hpin0
    rw [hcs] at hstep
    simp only [Option.map_some] at hstep
    have hfog1 := hnext (toCD H s1) hstep
    simp only [List.map_cons, crunDR]
    rw [hp, hdb, hrt, hstep]
    simp only
    obtain ⟨_, hokv1⟩ := cstep_is_wstep (e.t :: V) e.t List.mem_cons_self hcanV s0 hokv0 e.p s1 hcs
    have hder1 := cstep_cacheDerived (e.t :: V) e.t List.mem_cons_self s0 hder0 e.p s1 hcs
    have hV' : ∀ v ∈ e.t :: V, Canon v ∧ ∀ e' ∈ rest, PartialD H e'.db v := by
      intro v hv
      refine ⟨hcanV v hv, fun e' he' => ?_⟩
      rcases List.mem_cons.1 hv with rfl | hv
      · exact hpw1 e' he'
      · exact (hV v hv).2 e' (List.mem_cons_of_mem _ he')
    exact ih (e.t :: V) s1 hV' (fun e' he' => hrest e' (List.mem_cons_of_mem _ he')) hpw2 hder1 hokv1 hwf1 hfog1

/-- **never rejected, never raises**: the whole raw-level walk runs to the end of the schedule -/
theorem crunDR_defined (hlen : ∀ b, (H b).length = 32) (sched : List StepT) (hok : SchedOk H sched)
    (hfog : InFogRun H cstartD (sched.map StepT.toD)) :
    ∃ s' : CState, crunDR H cstartD (sched.map StepT.toD) = .ok (some (toCD H s')) := by
  obtain ⟨hok1, hok2⟩ := hok
  have hpw : sched.Pairwise (fun e e' => PartialD H e'.db e.t) := by
    rw [List.pairwise_iff_getElem]
    intro i j hi hj hij
    exact hok2 i j (by omega) hj
  have hstart : toCD H cstart = cstartD := rfl
  rw [← hstart] at hfog ⊢
  exact crunDR_defined_aux H hlen sched [] cstart (by simp) hok1 hpw
    (fun p parent seg hg => by simp [cstart, Frontier.get] at hg) (cacheOkV_empty _) wf_init hfog

end PyTrie.HexD
