import PyTrie.Lemmas.WorldBatch
/-! Machine-checked counterexamples to two statements of `WorldBatch.lean` *as originally given*, which is
    why `commitLoop_view` got the hypothesis `NoDupKeys cache` (and `PruneInvV` the field `cacheNoDup`), and
    `batchEnd_pruneInv` the hypothesis `b.outer < w.counts.size`. -/
namespace PyTrie.HexW
open PyTrie.Hex hiding get set
open PyTrie.Hex.Node

/-- `commitLoop_view` without `NoDupKeys cache` is false: for the cache `[(k, some v), (k, none)]` the view
    reads the first entry (present) while the commit loop writes and then deletes the key (absent). -/
theorem commitLoop_view_needs_nodup :
    ¬ (∀ (cache : Dict (Option Bytes)) (base : Dict Bytes),
      (commitLoop true cache base none).1 = true ∧ (commitLoop true cache base none).2.2 = none ∧
      ∀ h, Dict.contains (commitLoop true cache base none).2.1 h =
        Store.view { base := base, cache := some cache, failAfter := none } h) := by
  intro H
  have := (H [([], some []), ([], none)] []).2.2 []
  revert this
  decide

/-- `batchEnd_pruneInv` without `b.outer < w.counts.size` is false (for every hashing): a world whose
    `counts` array has no slot for the outer trie drops the batch's counts on exit (`Array.set!` out of range
    is a no-op, `[i]!` then reads `[]`), so the counts of the outer trie are not the reference counts of the
    one-leaf tree. All other hypotheses of the original statement hold, including the strengthened
    `PruneInvV`. -/
theorem batchEnd_pruneInv_needs_counts_slot (Hs : Hashing) :
    ∃ (blankRootHash : Hash) (w : World) (b : Batch),
      w.batch = some b ∧ b.outer < w.tries.size ∧ (w.tries[b.outer]!).prune = true ∧ w.failAfter = none ∧
      PruneInvV Hs blankRootHash b.trie (w.batchOpSt b) ∧
      ¬ PruneInv Hs blankRootHash ((w.batchEnd false).2.tries[b.outer]!) ((w.batchEnd false).2.opSt b.outer) := by
  let x : Hash := Hs.hashOf (leaf [] [])
  let T : TrieSt := { tree := leaf [] [], root := x, prune := true }
  let b : Batch := { outer := 0, cache := [], trie := T, counts := [(x, 1)] }
  let w : World := { base := [(x, [])], tries := #[T], counts := #[], batch := some b }
  have hne : x ≠ 0 :: x := by
    intro e
    have := congrArg List.length e
    simp at this
  refine ⟨0 :: x, w, b, rfl, by simp [w, b], rfl, rfl, ⟨rfl, ?_, ?_, ?_, rfl, ?_⟩, ?_⟩
  · simp only [isBlank, T, b]
    exact ⟨rfl, hne⟩
  · intro h
    show Counts.val [(x, 1)] h = occRoot Hs (leaf [] []) h
    rw [Counts.val_cons, Counts.val_nil]
    simp only [occRoot, occProper, isBlank, true_and, Nat.zero_add, beq_iff_eq]
    rfl
  · intro h
    show Store.view { base := [(x, [])], cache := some [], failAfter := none } h = true ↔
      0 < occRoot Hs (leaf [] []) h
    simp only [Store.view, Dict.get?_nil, Dict.contains_cons, Dict.contains_nil, Bool.or_false, beq_iff_eq,
      occRoot, occProper, isBlank, true_and, Nat.zero_add]
    show x = h ↔ 0 < if x = h then 1 else 0
    split <;> simp_all
  · intro c hc
    cases hc
    exact NoDupKeys.nil
  · intro hP
    have hc := hP.counts x
    have e : ((w.batchEnd false).2.opSt b.outer).counts = [] := by
      simp [World.batchEnd, World.opSt, commitLoop, w, b, T]
      rfl
    rw [e, Counts.val_nil] at hc
    have e2 : ((w.batchEnd false).2.tries[b.outer]!).tree = leaf [] [] := by
      simp [World.batchEnd, commitLoop, w, b, T]
    rw [e2] at hc
    simp only [occRoot, occProper, isBlank, true_and, Nat.zero_add] at hc
    have : (if Hs.hashOf (leaf [] []) = x then 1 else 0) = 1 := if_pos rfl
    omega

end PyTrie.HexW
