import PyTrie.Lemmas.RawDefs
import PyTrie.Lemmas.RawSet
import PyTrie.Lemmas.RawDel
/-! **Refinement**: the raw-level transcription of the write path (`Model/HexRaw.lean`: `_set`,
    `_set_kv_node`, `_set_branch_node`, `_delete*`, `_normalize_branch_node`, `_persist_node`,
    `_prune_node`, `get_node` over raw nodes and a database of rlp bytes) computes, on the raw encoding
    of a canonical tree whose hashed subtrees are stored, the raw encoding of the tree-level result and
    emits exactly the event list of the effect layer (`setE` / `deleteE`). Hence every theorem about the
    tree, effect and world layers speaks about this statement-by-statement transcription of the code.

    The definitions used in the statements (`stdHashing`, `StoredD`, `applyPersists`) live in
    `Lemmas/RawDefs.lean`; the proofs are in `Lemmas/RawPrims.lean` (one-step lemmas for the primitives),
    `Lemmas/RawItems.lean` (list operations on the 17 items of a branch), `Lemmas/RawSet.lean` and
    `Lemmas/RawDel.lean`. -/
namespace PyTrie.HexRaw
open PyTrie.Hex PyTrie.HexD PyTrie.Hex.Node

variable (H : Bytes → Bytes)

/-- **`_set` refines `setE`** -/
theorem rawSet_refines (hlen : ∀ b, (H b).length = 32) (t : Node) (hc : Canon t) (k : Path) (v : Bytes)
    (st : St) (hst : StoredD H st.db t) (fuel : Nat) (hf : 2 * k.length + 2 ≤ fuel) :
    rawSet H fuel st (toItem H t) k v =
      .ok (toItem H (setE (stdHashing H) t k v).1,
           { db := applyPersists st.db (setE (stdHashing H) t k v).2, evs := st.evs ++ (setE (stdHashing H) t k v).2 }) :=
  rawSet_refines_app H hlen v t hc k st fuel hst hf

/-- **`_delete` refines `deleteE`** -/
theorem rawDelete_refines (hlen : ∀ b, (H b).length = 32) (t : Node) (hc : Canon t) (k : Path)
    (st : St) (hst : StoredD H st.db t) (fuel : Nat) (hf : 2 * k.length + 2 ≤ fuel) :
    rawDelete H fuel st (toItem H t) k =
      .ok (toItem H (deleteE (stdHashing H) t k).1,
           { db := applyPersists st.db (deleteE (stdHashing H) t k).2, evs := st.evs ++ (deleteE (stdHashing H) t k).2 }) :=
  rawDelete_refines_app H hlen t hc k st fuel hst hf

end PyTrie.HexRaw
