import PyTrie.Lemmas.HexEff
/-! Reference-count balance of `deleteE` / `normalizeE`, for every hashing whose reference equality is sound. -/
namespace PyTrie.Hex
open Node
variable (Hs : Hashing)

theorem normalizeE_fst (ch : Nib → Node) (v : Bytes) : (normalizeE Hs ch v).1 = normalize ch v := by
  unfold normalizeE normalize
  generalize liveIdx ch = l
  match l, v with
  | [], [] => rfl
  | [], _ :: _ => rfl
  | [i], [] => simp only []; split <;> simp_all
  | [i], _ :: _ => rfl
  | _ :: _ :: _, _ => rfl

/-- sum of `occ` over children that are all blank except possibly `i` -/
theorem sumCh_single_live (ch : Nib → Node) (i : Nib) (hl : liveIdx ch = [i]) (h : Hash) :
    sumCh (fun j => occ Hs (ch j) h) = occ Hs (ch i) h := by
  have hb : ∀ j, j ≠ i → ch j = blank := fun j hj => (isBlank_iff _).1 (blank_of_liveIdx_single hl j hj)
  have e : (fun j => occ Hs (ch j) h) = (fun j => if j = i then occ Hs (ch i) h else occ Hs (emptyCh j) h) := by
    funext j
    by_cases hj : j = i
    · simp [hj]
    · simp [hj, hb j hj, emptyCh]
  rw [e]
  have := sumCh_upd (fun j => occ Hs (emptyCh j) h) i (occ Hs (ch i) h)
  rw [sumCh_occ_emptyCh] at this
  simpa [emptyCh, occ] using this

theorem sumCh_no_live (ch : Nib → Node) (hl : liveIdx ch = []) (h : Hash) :
    sumCh (fun j => occ Hs (ch j) h) = 0 := by
  have hb : ∀ j, ch j = blank := fun j => (isBlank_iff _).1 (all_blank_of_liveIdx_nil hl j)
  have e : (fun j => occ Hs (ch j) h) = (fun _ => 0) := by funext j; simp [hb j, occ]
  rw [e, sumCh_zero]

/-- balance of normalisation: the merged child loses its own reference, nothing else changes -/
theorem normalizeE_balance (ch : Nib → Node) (v : Bytes) (h : Hash) :
    occProper Hs (normalizeE Hs ch v).1 h + cntPrune (normalizeE Hs ch v).2 h =
      sumCh (fun j => occ Hs (ch j) h) ∧ cntPersist (normalizeE Hs ch v).2 h = 0 := by
  unfold normalizeE
  generalize hl : liveIdx ch = l
  match l, v with
  | [], [] => simp [occProper, sumCh_no_live Hs ch hl]
  | [], _ :: _ => simp [occProper, sumCh_no_live Hs ch hl]
  | [i], [] =>
    rw [sumCh_single_live Hs ch i hl]
    simp only []
    split
    · next p lv e => simp [occProper, e, occ]
    · next p c e => simp [occProper, e, occ]; omega
    · simp [occProper]
  | [i], _ :: _ => simp [occProper]
  | _ :: _ :: _, _ => simp [occProper]

theorem self_blank (h : Hash) : self Hs blank h = 0 := by simp [self, Hs.hashed_blank]

theorem occ_of_isBlank {n : Node} (hb : isBlank n = true) (h : Hash) : occ Hs n h = 0 := by
  rw [(isBlank_iff n).1 hb]; rfl
theorem occProper_of_isBlank {n : Node} (hb : isBlank n = true) (h : Hash) : occProper Hs n h = 0 := by
  rw [(isBlank_iff n).1 hb]; rfl
theorem self_of_isBlank {n : Node} (hb : isBlank n = true) (h : Hash) : self Hs n h = 0 := by
  rw [(isBlank_iff n).1 hb]; exact self_blank Hs h

/-- The two "reference unchanged" short-circuits of `_delete_kv_node` / `_delete_branch_node` met on
    the way down to `k` are sound: an unchanged reference means an unchanged subtree. This is a
    statement about one run; it can fail only if that very run exhibits a hash collision. -/
def RefSound : Node → Path → Prop
  | ext p c, k => p <+: k → RefSound c (k.drop p.length) ∧
      (Hs.refEq (deleteE Hs c (k.drop p.length)).1 c = true → (deleteE Hs c (k.drop p.length)).1 = c)
  | branch ch _, n :: k => RefSound (ch n) k ∧
      (Hs.refEq (deleteE Hs (ch n) k).1 (ch n) = true → (deleteE Hs (ch n) k).1 = ch n)
  | _, _ => True

/-- a hashing whose reference equality is sound everywhere is sound on every run -/
theorem refSound_of_sound (hre : ∀ a b, Hs.refEq a b = true → a = b) (t : Node) (k : Path) :
    RefSound Hs t k := by
  induction t generalizing k with
  | blank => simp [RefSound]
  | leaf p v => simp [RefSound]
  | ext p c ih => simp only [RefSound]; intro _; exact ⟨ih _, hre _ _⟩
  | branch ch v ih =>
    cases k with
    | nil => simp [RefSound]
    | cons n k => simp only [RefSound]; exact ⟨ih n k, hre _ _⟩

/-- Reference-count balance for delete, for every hashing, on every run whose reference
    comparisons are sound. -/
theorem deleteE_balance (t : Node) (k : Path) (hrs : RefSound Hs t k) (h : Hash) :
    occProper Hs (deleteE Hs t k).1 h + cntPrune (deleteE Hs t k).2 h =
    occ Hs t h + cntPersist (deleteE Hs t k).2 h := by
  induction t generalizing k with
  | blank => simp [deleteE, occ, occProper]
  | leaf p v =>
    simp only [deleteE]
    split <;> simp [occ, occProper]
  | ext p c ih =>
    simp only [deleteE]
    split
    · next hpk =>
      simp only [RefSound] at hrs
      obtain ⟨hrs1, hrs2⟩ := hrs hpk
      have IH := ih (k.drop p.length) hrs1
      generalize deleteE Hs c (k.drop p.length) = r at IH hrs2
      split
      · next hr =>
        have e := hrs2 hr
        rw [e] at IH
        rw [occ_eq Hs c] at IH
        simp only [occProper, occ, cntPrune_append, cntPersist_append, cntPrune_pruneEv, cntPrune_readEv,
          cntPersist_pruneEv, cntPersist_readEv, cntPrune_persistEv, cntPersist_persistEv]
        rw [e, occ_eq Hs c]
        omega
      · split
        · next e =>
          rw [e] at IH
          simp only [occProper, occ, cntPrune_append, cntPersist_append, cntPrune_pruneEv, cntPrune_readEv,
            cntPersist_pruneEv, cntPersist_readEv, cntPrune_persistEv, cntPersist_persistEv, e,
            self_blank] at *
          omega
        · next p' v' e =>
          rw [e] at IH
          simp only [occProper, occ, cntPrune_append, cntPersist_append, cntPrune_pruneEv, cntPrune_readEv,
            cntPersist_pruneEv, cntPersist_readEv, cntPrune_persistEv, cntPersist_persistEv, e] at *
          omega
        · next p' c' e =>
          rw [e] at IH
          simp only [occProper, occ, cntPrune_append, cntPersist_append, cntPrune_pruneEv, cntPrune_readEv,
            cntPersist_pruneEv, cntPersist_readEv, cntPrune_persistEv, cntPersist_persistEv, e] at *
          omega
        · next ch v e =>
          rw [e] at IH
          simp only [occProper, occ, cntPrune_append, cntPersist_append, cntPrune_pruneEv, cntPrune_readEv,
            cntPersist_pruneEv, cntPersist_readEv, cntPrune_persistEv, cntPersist_persistEv, e] at *
          omega
    · simp [occ, occProper]; omega
  | branch ch v ih =>
    cases k with
    | nil =>
      have := normalizeE_balance Hs ch [] h
      simp only [deleteE, occ, cntPrune_append, cntPersist_append, cntPrune_pruneEv, cntPersist_pruneEv]
      omega
    | cons n k =>
      simp only [RefSound] at hrs
      obtain ⟨hrs1, hrs2⟩ := hrs
      have IH := ih n k hrs1
      simp only [deleteE]
      generalize deleteE Hs (ch n) k = r at IH hrs2
      split
      · next hr =>
        have e := hrs2 hr
        rw [e] at IH
        rw [occ_eq Hs (ch n)] at IH
        simp only [occProper, occ, cntPrune_append, cntPersist_append, cntPrune_pruneEv, cntPrune_readEv,
          cntPersist_pruneEv, cntPersist_readEv, cntPrune_persistEv, cntPersist_persistEv]
        rw [e]
        omega
      · split
        · next hb =>
          have nb := normalizeE_balance Hs (upd ch n r.1) v h
          have hs := sumCh_occ_upd Hs ch n r.1 h
          have h0 := occ_of_isBlank Hs hb h
          have h1 := occProper_of_isBlank Hs hb h
          have h2 := self_of_isBlank Hs hb h
          simp only [occProper, occ, cntPrune_append, cntPersist_append, cntPrune_pruneEv, cntPrune_readEv,
            cntPersist_pruneEv, cntPersist_readEv, cntPrune_persistEv, cntPersist_persistEv] at *
          omega
        · have hs := sumCh_occ_upd Hs ch n r.1 h
          rw [occ_eq Hs r.1] at hs
          simp only [occProper, occ, cntPrune_append, cntPersist_append, cntPrune_pruneEv, cntPrune_readEv,
            cntPersist_pruneEv, cntPersist_readEv, cntPrune_persistEv, cntPersist_persistEv] at *
          omega

end PyTrie.Hex
