import PyTrie.Model.HexWorld
import PyTrie.Lemmas.WorldMonoDict
/-! `Dict` / `Counts` lemmas for the exact-pruning proof (C06): observational behaviour of
    `insert` / `erase` / `inc` under `contains` and `val`, and the well-formedness of the pending dict. -/
namespace PyTrie.HexW
open PyTrie.Hex hiding get set

theorem Dict.contains_nil {α} (h : Hash) : Dict.contains ([] : Dict α) h = false := rfl

theorem Dict.contains_cons {α} (e : Hash × α) (r : Dict α) (h : Hash) :
    Dict.contains (e :: r) h = (e.1 == h || Dict.contains r h) := by
  simp [Dict.contains]

theorem Dict.contains_iff_mem_keys {α} (d : Dict α) (h : Hash) :
    Dict.contains d h = true ↔ h ∈ d.map (·.1) := by
  induction d with
  | nil => simp [Dict.contains]
  | cons e r ih =>
    rw [Dict.contains_cons, Bool.or_eq_true, ih]
    simp only [List.map_cons, List.mem_cons, beq_iff_eq]
    constructor
    · rintro (h1 | h1)
      · exact Or.inl h1.symm
      · exact Or.inr h1
    · rintro (h1 | h1)
      · exact Or.inl h1.symm
      · exact Or.inr h1

theorem Dict.keys_map_replace {α} (d : Dict α) (h : Hash) (v : α) :
    (d.map (fun e => if e.1 == h then (h, v) else e)).map (·.1) = d.map (·.1) := by
  induction d with
  | nil => rfl
  | cons e r ih =>
    simp only [List.map_cons, ih, List.cons.injEq, and_true]
    by_cases he : (e.1 == h) = true
    · simp only [he, ↓reduceIte]; exact (beq_iff_eq.1 he).symm
    · simp only [he]; rfl

theorem Dict.keys_insert {α} (d : Dict α) (h : Hash) (v : α) :
    (Dict.insert d h v).map (·.1) = if Dict.contains d h then d.map (·.1) else d.map (·.1) ++ [h] := by
  unfold Dict.insert
  split
  · exact Dict.keys_map_replace d h v
  · simp

theorem Dict.contains_insert {α} (d : Dict α) (h x : Hash) (v : α) :
    (Dict.contains (Dict.insert d h v) x = true) ↔ (Dict.contains d x = true ∨ x = h) := by
  rw [Dict.contains_iff_mem_keys, Dict.keys_insert]
  split
  · next hc =>
    rw [Dict.contains_iff_mem_keys] at hc ⊢
    constructor
    · exact Or.inl
    · rintro (h1 | rfl)
      · exact h1
      · exact hc
  · rw [Dict.contains_iff_mem_keys]; simp

theorem Dict.contains_erase {α} (d : Dict α) (h x : Hash) :
    (Dict.contains (Dict.erase d h) x = true) ↔ (Dict.contains d x = true ∧ x ≠ h) := by
  induction d with
  | nil => simp [Dict.erase, Dict.contains]
  | cons e r ih =>
    unfold Dict.erase at ih ⊢
    rw [List.filter_cons]
    by_cases he : (e.1 == h) = true
    · simp only [he, Bool.not_true, Bool.false_eq_true, ↓reduceIte]
      rw [ih, Dict.contains_cons, Bool.or_eq_true]
      have e1 : e.1 = h := beq_iff_eq.1 he
      constructor
      · rintro ⟨a, b⟩; exact ⟨Or.inr a, b⟩
      · rintro ⟨a | a, b⟩
        · exact absurd ((beq_iff_eq.1 a).symm.trans e1) b
        · exact ⟨a, b⟩
    · have he' : (e.1 == h) = false := by simpa using he
      simp only [he', Bool.not_false, ↓reduceIte]
      rw [Dict.contains_cons, Dict.contains_cons, Bool.or_eq_true, Bool.or_eq_true, ih]
      constructor
      · rintro (a | ⟨a, b⟩)
        · refine ⟨Or.inl a, ?_⟩
          intro hx; subst hx; rw [a] at he'; cases he'
        · exact ⟨Or.inr a, b⟩
      · rintro ⟨a | a, b⟩
        · exact Or.inl a
        · exact Or.inr ⟨a, b⟩

theorem Dict.get?_erase_self {α} (d : Dict α) (h : Hash) : Dict.get? (Dict.erase d h) h = none := by
  apply Dict.get?_eq_none_of_not_contains
  cases hc : Dict.contains (Dict.erase d h) h
  · rfl
  · exact absurd rfl ((Dict.contains_erase d h h).1 hc).2

theorem Dict.get?_erase_other {α} (d : Dict α) (h x : Hash) (hne : x ≠ h) :
    Dict.get? (Dict.erase d h) x = Dict.get? d x := by
  induction d with
  | nil => rfl
  | cons e r ih =>
    unfold Dict.erase at ih ⊢
    rw [List.filter_cons]
    by_cases he : (e.1 == h) = true
    · simp only [he, Bool.not_true, Bool.false_eq_true, ↓reduceIte]
      rw [ih, Dict.get?_cons]
      have e1 : e.1 = h := beq_iff_eq.1 he
      have : (e.1 == x) = false := by
        rw [e1]; simpa using (Ne.symm hne)
      simp [this]
    · have he' : (e.1 == h) = false := by simpa using he
      simp only [he', Bool.not_false, ↓reduceIte]
      rw [Dict.get?_cons, Dict.get?_cons, ih]

theorem Counts.val_nil (h : Hash) : Counts.val [] h = 0 := rfl

theorem Counts.val_cons (e : Hash × Nat) (r : Counts) (h : Hash) :
    Counts.val (e :: r) h = if e.1 == h then e.2 else Counts.val r h := by
  unfold Counts.val
  rw [Dict.get?_cons]
  split <;> rfl

theorem Counts.val_of_not_contains (c : Counts) (h : Hash) (hc : Dict.contains c h = false) :
    Counts.val c h = 0 := by
  unfold Counts.val
  rw [Dict.get?_eq_none_of_not_contains c h hc]; rfl

theorem Counts.val_insert (c : Counts) (h x : Hash) (v : Nat) :
    Counts.val (Dict.insert c h v) x = if x = h then v else Counts.val c x := by
  unfold Counts.val
  split
  · next e => subst e; rw [Dict.get?_insert_self']; rfl
  · next e => rw [Dict.get?_insert_other' c h x v e]

theorem Counts.val_erase (c : Counts) (h x : Hash) :
    Counts.val (Dict.erase c h) x = if x = h then 0 else Counts.val c x := by
  unfold Counts.val
  split
  · next e => subst e; rw [Dict.get?_erase_self]; rfl
  · next e => rw [Dict.get?_erase_other c h x e]

theorem Counts.val_inc (c : Counts) (h x : Hash) :
    Counts.val (Counts.inc c h) x = Counts.val c x + (if x = h then 1 else 0) := by
  unfold Counts.inc
  rw [Counts.val_insert]
  split
  · next e => subst e; rfl
  · rfl

/-- well-formed pending dict: unique keys -/
def NoDupKeys {α} (d : Dict α) : Prop := (d.map (·.1)).Nodup

theorem NoDupKeys.nil {α} : NoDupKeys ([] : Dict α) := List.nodup_nil

theorem NoDupKeys.insert {α} {d : Dict α} (hd : NoDupKeys d) (h : Hash) (v : α) :
    NoDupKeys (Dict.insert d h v) := by
  unfold NoDupKeys at hd ⊢
  rw [Dict.keys_insert]
  split
  · exact hd
  · next hc =>
    rw [Dict.contains_iff_mem_keys] at hc
    rw [List.nodup_append]
    refine ⟨hd, by simp, ?_⟩
    intro a ha b hb
    simp only [List.mem_singleton] at hb
    subst hb
    intro hab; subst hab; exact hc ha

theorem NoDupKeys.inc {c : Counts} (hd : NoDupKeys c) (h : Hash) : NoDupKeys (Counts.inc c h) :=
  NoDupKeys.insert hd h _

/-- every entry of a counts dict is positive -/
def PosVals (c : Counts) : Prop := ∀ e ∈ c, 0 < e.2

theorem PosVals.nil : PosVals [] := by intro e he; cases he

theorem PosVals.insert {c : Counts} (hp : PosVals c) (h : Hash) (v : Nat) (hv : 0 < v) :
    PosVals (Dict.insert c h v) := by
  unfold Dict.insert
  intro e he
  split at he
  · obtain ⟨e0, he0, rfl⟩ := List.mem_map.1 he
    split
    · exact hv
    · exact hp e0 he0
  · rcases List.mem_append.1 he with h1 | h1
    · exact hp e h1
    · simp only [List.mem_singleton] at h1; subst h1; exact hv

theorem PosVals.inc {c : Counts} (hp : PosVals c) (h : Hash) : PosVals (Counts.inc c h) :=
  PosVals.insert hp h _ (Nat.succ_pos _)

/-- with unique keys an entry's value is what `val` reads -/
theorem Counts.val_of_mem {c : Counts} (hd : NoDupKeys c) (e : Hash × Nat) (he : e ∈ c) :
    Counts.val c e.1 = e.2 := by
  induction c with
  | nil => cases he
  | cons a r ih =>
    rw [Counts.val_cons]
    unfold NoDupKeys at hd
    rw [List.map_cons, List.nodup_cons] at hd
    rcases List.mem_cons.1 he with rfl | h1
    · simp
    · have hne : (a.1 == e.1) = false := by
        cases hb : (a.1 == e.1)
        · rfl
        · exfalso
          apply hd.1
          rw [beq_iff_eq.1 hb]
          exact List.mem_map.2 ⟨e, h1, rfl⟩
      simp only [hne, Bool.false_eq_true, ↓reduceIte]
      exact ih hd.2 h1

end PyTrie.HexW
