import PyTrie.Model.HexRead
import PyTrie.Lemmas.RawRefines
import PyTrie.Lemmas.HexTravProofs
/-! Helper lemmas for `Lemmas/ReadRefines.lean`: the decoder-side traversal under `StoredD`, and the
    branch sub-segments of `annotateD` vs `liveIdx`. -/
namespace PyTrie.HexD
open PyTrie.Hex PyTrie.Hex.Node PyTrie.HexRaw

variable (H : Bytes → Bytes)

theorem fetch_storedC (hlen : ∀ b, (H b).length = 32) (db : Db) (c : Node) (used : Path)
    (hs : StoredC H db c) : fetch H db (refOf H c) used = .ok (toItem H c) :=
  fetch_ref_ok H hlen db c used (fun hh => by
    obtain ⟨a, b, d⟩ := hs hh
    exact ⟨⟨a, b⟩, d⟩)

/-- `trav_ok` phrased with `StoredD` -/
theorem trav_okD (hlen : ∀ b, (H b).length = 32) (db : Db) (t : Node) :
    Canon t → StoredD H db t → ∀ (k : Path) (fuel : Nat) (used : Path), k.length ≤ fuel →
    traverseD H db fuel (toItem H t) k used = .ok (toItem H (traverseT t k).1, (traverseT t k).2) := by
  induction t with
  | blank =>
    intro _ _ k fuel used hf
    cases k with
    | nil => simp [traverseD_nil, traverseT]
    | cons a rest =>
      cases fuel with
      | zero => simp at hf
      | succ fuel => simp only [traverseD, classify_blank, traverseT]; rfl
  | leaf p v =>
    intro _ _ k fuel used hf
    cases k with
    | nil => simp [traverseD_nil, traverseT]
    | cons a rest =>
      cases fuel with
      | zero => simp at hf
      | succ fuel =>
        simp only [traverseD, classify_leaf, traverseT]
        split <;> simp [toItem]
  | ext p c ih =>
    intro hc hst k fuel used hf
    obtain ⟨hpne, hbr, hcc⟩ := hc
    obtain ⟨hsc, hsd⟩ := hst
    cases k with
    | nil => simp [traverseD_nil, traverseT]
    | cons a rest =>
      cases fuel with
      | zero => simp at hf
      | succ fuel =>
        simp only [traverseD, classify_ext, traverseT]
        by_cases hpre : p <+: a :: rest
        · have h1 := (cpl_drop_left_nil_iff p (a :: rest)).2 hpre
          obtain ⟨r, hr⟩ := hpre
          rw [← hr] at hf ⊢
          have hlp : 0 < p.length := List.length_pos_iff.2 hpne
          have hf' : r.length ≤ fuel := by simp at hf; omega
          simp only [cpl_append_left, List.drop_left, List.take_left, ↓reduceIte, List.drop_eq_nil_of_le (Nat.le_refl _)]
          rw [fetch_storedC H hlen db c _ hsc]
          exact ih hcc hsd r fuel _ hf'
        · have h1 : ¬ (p.drop (cpl p (a :: rest)) = []) := fun h => hpre ((cpl_drop_left_nil_iff _ _).1 h)
          simp only [h1, ↓reduceIte]
          split <;> simp [toItem]
  | branch ch v ih =>
    intro hc hst k fuel used hf
    cases k with
    | nil => simp [traverseD_nil, traverseT]
    | cons a rest =>
      cases fuel with
      | zero => simp at hf
      | succ fuel =>
        simp only [traverseD, classify_branch, traverseT, brItems_getD]
        rw [fetch_storedC H hlen db (ch a) _ (hst a).1]
        exact ih a (hc.1 a) (hst a).2 rest fuel _ (by simpa using hf)

/-- the sub-segments `annotate_node` computes from the 17 raw items are the live indices -/
theorem subs_brItems (hlen : ∀ b, (H b).length = 32) (ch : Nib → Node) (v : Bytes) :
    ((List.range 16).filter fun i => truthy ((brItems H ch v).getD i (.str []))).map (fun i => [toNib i]) =
      (liveIdx ch).map (fun i => [i]) := by
  rw [range16, List.filter_map, List.map_map]
  have e : ((fun i => truthy ((brItems H ch v).getD i (.str []))) ∘ fun (x : Nib) => x.val) =
      fun i => !isBlank (ch i) := by
    funext i; simp only [Function.comp, brItems_getD, truthy_refOf H hlen]
  have e2 : ((fun i => [toNib i]) ∘ fun (x : Nib) => x.val) = fun (i : Nib) => [i] := by
    funext i; simp only [Function.comp, toNib_val]
  rw [e, e2, liveIdx]

end PyTrie.HexD
