import PyTrie.Lemmas.WorldGet
import PyTrie.Lemmas.WorldPrune
import PyTrie.Lemmas.RawHistoryGet
/-! **Bodies in a pruned database.** The pruning invariant (`PruneInv`, `Lemmas/WorldPrune.lean`) says *which keys* a
    pruning trie's database holds (exactly the hashes of live nodes) and what the reference counts are; the executor
    carries the tree along, so it never needed to know what is stored *under* those keys. Here: under the run-level
    no-collision predicate (`NoClobber`, now for pruning histories too) the stored bodies are the encodings of the live
    nodes — the database is `Complete` for the current root, exactly as for a non-pruning trie — and therefore the
    raw-level database reader (`HexD.getD`: `HexaryTrie.get` over rlp-decoded nodes fetched from that pruned database)
    returns the map model's value for every key after every history, pruning on or off. -/
namespace PyTrie.HexW
open PyTrie.Hex hiding get set
open PyTrie.Hex.Node
open PyTrie.Props.C01 (Op run spec applyOp)

variable (Hs : Hashing) (blankRootHash : Hash)

/-- a history (pruning on or off) with the run-level no-collision facts of every step, `NoClobber` included in both modes -/
inductive ReachOpsNC (prune : Bool) : List Op → TrieSt → OpSt → Prop where
  | init : ReachOpsNC prune [] { tree := .blank, root := blankRootHash, prune := prune }
      { store := { base := [], cache := none, failAfter := none }, counts := [], pending := [] }
  | step (ops : List Op) (T : TrieSt) (s : OpSt) (o : Op) (T' : TrieSt) :
      ReachOpsNC prune ops T s →
      RefSound Hs T.tree (nibs (opKey o)) →
      (isBlank (opTree Hs T (opKey o) (opVal o)).1 = false → Hs.hashOf (opTree Hs T (opKey o) (opVal o)).1 ≠ blankRootHash) →
      NoClobber s.store.base (opWrites Hs T (opKey o) (opVal o)) →
      (opSetDel Hs blankRootHash T (opKey o) (opVal o) s).2 = .ok T' →
      ReachOpsNC prune (ops ++ [o]) T' (opSetDel Hs blankRootHash T (opKey o) (opVal o) s).1


/-! ### erasing keys -/

/-- `d'` is `d` with some keys erased: whatever `d'` still holds, it holds as `d` did -/
def ErasedFrom (d d' : Dict Bytes) : Prop :=
  ∀ h, Dict.contains d' h = true → Dict.contains d h = true ∧ Dict.get? d' h = Dict.get? d h

theorem ErasedFrom.refl (d : Dict Bytes) : ErasedFrom d d := fun _ hc => ⟨hc, rfl⟩

theorem ErasedFrom.trans {a b c : Dict Bytes} (h1 : ErasedFrom a b) (h2 : ErasedFrom b c) : ErasedFrom a c := by
  intro h hc
  obtain ⟨hb, e2⟩ := h2 h hc
  obtain ⟨ha, e1⟩ := h1 h hb
  exact ⟨ha, e2.trans e1⟩

theorem ErasedFrom.erase (d : Dict Bytes) (k : Hash) : ErasedFrom d (Dict.erase d k) := by
  intro h hc
  obtain ⟨h1, h2⟩ := (Dict.contains_erase d k h).1 hc
  exact ⟨h1, Dict.get?_erase_other d k h h2⟩

/-- a reference that is fine in `d` stays fine in `d'` when every hashed node at or below it is still a key of `d'` -/
theorem ref_erased {d d' : Dict Bytes} (he : ErasedFrom d d') (t : Node)
    (hk : ∀ h, 0 < occ Hs t h → Dict.contains d' h = true) (hr : Ref Hs d t) : Ref Hs d' t := by
  have hfst : Hs.hashed t = true → Dict.get? d' (Hs.hashOf t) = some (Hs.encOf t) := by
    intro hh
    have hc := hk _ (occ_pos_of_hashed Hs hh)
    rw [(he _ hc).2]
    exact hr.1 hh
  induction t with
  | blank => exact ref_blank Hs d'
  | leaf p v => exact ⟨hfst, trivial⟩
  | ext p c ih =>
    refine ⟨hfst, ?_⟩
    have hrc : Ref Hs d c := hr.2
    have hkc : ∀ h, 0 < occ Hs c h → Dict.contains d' h = true := by
      intro h hp
      apply hk
      simp only [occ]; omega
    show Ref Hs d' c
    exact ih hkc hrc (fun hh => by
      have hc := hkc _ (occ_pos_of_hashed Hs hh)
      rw [(he _ hc).2]
      exact hrc.1 hh)
  | branch ch v ih =>
    refine ⟨hfst, ?_⟩
    intro i
    have hrc : Ref Hs d (ch i) := hr.2 i
    have hkc : ∀ h, 0 < occ Hs (ch i) h → Dict.contains d' h = true := by
      intro h hp
      apply hk
      have := le_sumCh (fun j => occ Hs (ch j) h) i
      simp only [occ]; omega
    show Ref Hs d' (ch i)
    exact ih i hkc hrc (fun hh => by
      have hc := hkc _ (occ_pos_of_hashed Hs hh)
      rw [(he _ hc).2]
      exact hrc.1 hh)

theorem storedBelow_erased {d d' : Dict Bytes} (he : ErasedFrom d d') (t : Node)
    (hk : ∀ h, 0 < occProper Hs t h → Dict.contains d' h = true) (hs : StoredBelow Hs d t) :
    StoredBelow Hs d' t := by
  cases t with
  | blank => trivial
  | leaf p v => trivial
  | ext p c =>
    show Ref Hs d' c
    exact ref_erased Hs he c (fun h hp => hk h hp) hs
  | branch ch v =>
    intro i
    show Ref Hs d' (ch i)
    refine ref_erased Hs he (ch i) (fun h hp => hk h ?_) (hs i)
    have := le_sumCh (fun j => occ Hs (ch j) h) i
    simp only [occProper]; omega

/-! ### what a successful operation does to the base, pruning on or off -/

theorem runEv_base (p : Bool) (root key : Bytes) (s : OpSt) (e : Ev) (s1 : OpSt)
    (h : runEv p root key s e = .ok s1) (hc : s.store.cache = none) (hf : s.store.failAfter = none) :
    s1.store.cache = none ∧ s1.store.failAfter = none ∧
      s1.store.base = applyWrites s.store.base (writesOf [e]) := by
  cases e with
  | read x =>
    simp only [runEv] at h
    split at h
    · cases h; exact ⟨hc, hf, rfl⟩
    · cases h
  | prune x =>
    simp only [runEv] at h
    cases h
    cases p
    · exact ⟨hc, hf, rfl⟩
    · exact ⟨hc, hf, rfl⟩
  | persist x b =>
    have hw : s.store.write x b = some { s.store with base := Dict.insert s.store.base x b } := by
      unfold Store.write; rw [hc, hf]; simp [hc, hf]
    simp only [runEv, setDbValue, hw] at h
    cases h
    exact ⟨hc, hf, rfl⟩

theorem runEvs_base (p : Bool) (root key : Bytes) (es : List Ev) (s s' : OpSt)
    (h : runEvs p root key s es = (s', none)) (hc : s.store.cache = none) (hf : s.store.failAfter = none) :
    s'.store.cache = none ∧ s'.store.failAfter = none ∧
      s'.store.base = applyWrites s.store.base (writesOf es) := by
  induction es generalizing s with
  | nil =>
    simp only [runEvs] at h
    cases h
    exact ⟨hc, hf, rfl⟩
  | cons e es ih =>
    simp only [runEvs] at h
    split at h
    · next s1 h1 =>
      obtain ⟨c1, f1, b1⟩ := runEv_base p root key s e s1 h1 hc hf
      obtain ⟨c2, f2, b2⟩ := ih s1 h c1 f1
      refine ⟨c2, f2, ?_⟩
      rw [b2, b1, ← applyWrites_append, ← writesOf_append]
      rfl
    · cases h

theorem schedOldRoot_store (T : TrieSt) (s : OpSt) : (schedOldRoot Hs blankRootHash T s).store = s.store := by
  unfold schedOldRoot
  split <;> rfl

theorem writeRoot_base (T : TrieSt) (new : Node) (s s' : OpSt) (r : Hash)
    (h : writeRoot Hs blankRootHash T new s = .ok (s', r)) (hc : s.store.cache = none)
    (hf : s.store.failAfter = none) :
    s'.store.cache = none ∧
      s'.store.base = applyWrites s.store.base (if isBlank new then [] else [(Hs.hashOf new, Hs.encOf new)]) ∧
      r = (if isBlank new then blankRootHash else Hs.hashOf new) := by
  unfold writeRoot at h
  cases hb : isBlank new
  · have hw : s.store.write (Hs.hashOf new) (Hs.encOf new) =
        some { s.store with base := Dict.insert s.store.base (Hs.hashOf new) (Hs.encOf new) } := by
      unfold Store.write; rw [hc, hf]; simp [hc, hf]
    simp only [hb, Bool.false_eq_true, if_false, setDbValue, hw] at h ⊢
    cases h
    exact ⟨hc, rfl, rfl⟩
  · simp only [hb, if_true] at h ⊢
    cases h
    exact ⟨hc, rfl, rfl⟩

theorem pruneStep_erased (s : OpSt) (kn : Hash × Nat) (s' : OpSt) (h : pruneStep s kn = .ok s')
    (hc : s.store.cache = none) :
    s'.store.cache = none ∧ ErasedFrom s.store.base s'.store.base := by
  unfold pruneStep at h
  simp only at h
  split at h
  · cases hk : s.store.base.contains kn.1
    · have hd : s.store.del kn.1 = none := by
        unfold Store.del; rw [hc]; simp [hk]
      rw [hd] at h; cases h
    · have hd : s.store.del kn.1 = some { s.store with base := Dict.erase s.store.base kn.1 } := by
        unfold Store.del; rw [hc]; simp [hk, hc]
      rw [hd] at h; cases h
      exact ⟨hc, ErasedFrom.erase _ _⟩
  · cases h
    exact ⟨hc, ErasedFrom.refl _⟩

theorem completePruning_erased (l : List (Hash × Nat)) (s s' : OpSt) (h : completePruning s l = (s', none))
    (hc : s.store.cache = none) : ErasedFrom s.store.base s'.store.base := by
  induction l generalizing s with
  | nil =>
    simp only [completePruning] at h
    cases h
    exact ErasedFrom.refl _
  | cons kn rest ih =>
    simp only [completePruning] at h
    split at h
    · next s1 h1 =>
      obtain ⟨c1, e1⟩ := pruneStep_erased s kn s1 h1 hc
      exact e1.trans (ih s1 h c1)
    · cases h

theorem finishPrune_erased (T : TrieSt) (s s' : OpSt) (h : finishPrune T s = (s', none))
    (hc : s.store.cache = none) : ErasedFrom s.store.base s'.store.base := by
  unfold finishPrune at h
  split at h
  · exact completePruning_erased _ s s' h hc
  · cases h
    exact ErasedFrom.refl _

/-- a successful `set` / `delete` over a plain dict without injected faults, pruning on or off: the base afterwards is
    the base after all the operation's writes with some keys erased -/
theorem opCore_base (T : TrieSt) (key : Bytes) (val : Option Bytes) (s : OpSt) (T' : TrieSt)
    (h : (opCore Hs blankRootHash T key val s).2 = .ok T')
    (hc : s.store.cache = none) (hf : s.store.failAfter = none) :
    ErasedFrom (applyWrites s.store.base (opWrites Hs T key val)) (opCore Hs blankRootHash T key val s).1.store.base ∧
      T' = { T with tree := (opTree Hs T key val).1,
                    root := if isBlank (opTree Hs T key val).1 then blankRootHash
                            else Hs.hashOf (opTree Hs T key val).1 } := by
  unfold opCore at h ⊢
  split
  · next hr => rw [if_pos hr] at h; cases h
  · next hr =>
    rw [if_neg hr] at h
    split
    · next s1 x h1 => rw [h1] at h; cases h
    · next s1 h1 =>
      rw [h1] at h
      simp only at h
      obtain ⟨c1, f1, b1⟩ := runEvs_base T.prune T.root key _ s s1 h1 hc hf
      have hst := schedOldRoot_store Hs blankRootHash T s1
      split
      · next x h3 => rw [h3] at h; cases h
      · next s3 newRoot h3 =>
        rw [h3] at h
        simp only at h
        obtain ⟨c3, b3, r3⟩ := writeRoot_base Hs blankRootHash T _ _ s3 newRoot h3
          (by rw [hst]; exact c1) (by rw [hst]; exact f1)
        split
        · next s4 x h4 => rw [h4] at h; cases h
        · next s4 h4 =>
          rw [h4] at h
          simp only at h
          have e4 := finishPrune_erased T s3 s4 h4 c3
          refine ⟨?_, ?_⟩
          · have : s3.store.base = applyWrites s.store.base (opWrites Hs T key val) := by
              rw [b3, hst, b1, opWrites, applyWrites_append]
            rw [← this]; exact e4
          · cases h
            rw [r3]

theorem reachOpsNC_reachOps (prune : Bool) (ops : List Op) (T : TrieSt) (s : OpSt)
    (h : ReachOpsNC Hs blankRootHash prune ops T s) : ReachOps Hs blankRootHash prune ops T s := by
  induction h with
  | init => exact ReachOps.init
  | step ops T s o T' _ hrs hbl hnc hok ih => exact ReachOps.step ops T s o T' ih hrs hbl (fun _ => hnc) hok

/-- one pruning operation keeps the database complete for the new root: every hashed node of the new tree (and the root)
    is stored under its hash **with its encoding** -/
theorem opSetDel_prune_complete (T : TrieSt) (hc : Canon T.tree) (key : Bytes) (val : Option Bytes) (s : OpSt)
    (hfa : s.store.failAfter = none) (hinv : PruneInv Hs blankRootHash T s)
    (hcomp : Complete Hs blankRootHash s.store.base T)
    (hrs : RefSound Hs T.tree (nibs key))
    (hnc : NoClobber s.store.base (opWrites Hs T key val))
    (hblank : isBlank (opTree Hs T key val).1 = false → Hs.hashOf (opTree Hs T key val).1 ≠ blankRootHash)
    (T' : TrieSt) (hok : (opSetDel Hs blankRootHash T key val s).2 = .ok T') :
    Complete Hs blankRootHash (opSetDel Hs blankRootHash T key val s).1.store.base T' := by
  -- the keys of the final base
  obtain ⟨T'', hok', _, hpi⟩ := opSetDel_pruneInv Hs blankRootHash T hc key val s hfa hinv hrs hblank
  rw [hok] at hok'
  cases hok'
  -- the final base is the base after the writes, with keys erased
  have hok2 : (opCore Hs blankRootHash T key val { s with pending := [] }).2 = .ok T' := hok
  obtain ⟨her, hT'⟩ := opCore_base Hs blankRootHash T key val { s with pending := [] } T' hok2 hinv.plain hfa
  have her' : ErasedFrom (applyWrites s.store.base (opWrites Hs T key val))
      (opSetDel Hs blankRootHash T key val s).1.store.base := her
  generalize (opSetDel Hs blankRootHash T key val s).1 = sf at hpi her'
  obtain ⟨hpres, hwr⟩ := applyWrites_noClobber _ _ hnc
  have hst1 : StoredBelow Hs (applyWrites s.store.base (opWrites Hs T key val)) (opTree Hs T key val).1 := by
    apply opTree_stored Hs _ T key val (storedBelow_mono Hs _ _ hpres _ hcomp.2)
    intro h b hm
    exact hwr h b (List.mem_append_left _ hm)
  have htree : T'.tree = (opTree Hs T key val).1 := by rw [hT']
  have hkeys := hpi.keys
  have hroot := hpi.root
  rw [htree] at hkeys hroot
  refine ⟨?_, ?_⟩
  · rw [htree]
    cases hb : isBlank (opTree Hs T key val).1
    · rw [hb] at hroot
      simp only [Bool.false_eq_true, if_false] at hroot ⊢
      refine ⟨hroot.1, hroot.2, ?_⟩
      have hcn : Dict.contains sf.store.base (Hs.hashOf (opTree Hs T key val).1) = true := by
        rw [hkeys]; simp [occRoot, hb]
      rw [hroot.1, (her' _ hcn).2]
      apply hwr
      unfold opWrites
      simp only [hb, Bool.false_eq_true, if_false]
      exact List.mem_append_right _ (List.mem_singleton.2 rfl)
    · rw [hb] at hroot
      simp only [if_true] at hroot ⊢
      exact hroot
  · rw [htree]
    apply storedBelow_erased Hs her' _ _ hst1
    intro h hp
    rw [hkeys]
    unfold occRoot; omega

/-- **after every history, pruning on or off, the database is complete for the current root** -/
theorem reachOpsNC_complete (prune : Bool) (ops : List Op) (T : TrieSt) (s : OpSt)
    (h : ReachOpsNC Hs blankRootHash prune ops T s) : Complete Hs blankRootHash s.store.base T := by
  induction h with
  | init => exact ⟨by simp [isBlank], trivial⟩
  | step ops T s o T' hreach hrs hbl hnc hok ih =>
    obtain ⟨htree, hprune, hcache, hfa, hdb⟩ :=
      reachOps_inv Hs blankRootHash prune ops T s (reachOpsNC_reachOps Hs blankRootHash prune ops T s hreach)
    have hcanon : Canon T.tree := htree ▸ PyTrie.Props.C01.canon_run ops
    cases prune with
    | false =>
      obtain ⟨T'', hok', _, _, _, hcomp⟩ := opSetDel_complete Hs blankRootHash T hprune hcanon (opKey o) (opVal o) s
        hcache hfa ih hrs hnc hbl
      rw [hok] at hok'
      cases hok'
      exact hcomp
    | true =>
      simp only [if_true] at hdb
      exact opSetDel_prune_complete Hs blankRootHash T hcanon (opKey o) (opVal o) s hfa hdb ih hrs hnc hbl T' hok

end PyTrie.HexW

namespace PyTrie.HexRaw
open PyTrie PyTrie.Hex PyTrie.HexD PyTrie.HexW
open PyTrie.Props.C01 (Op run spec)

/-- **C01 / C06 through the raw-level reader on the pruned database**: after any history on a pruning (or non-pruning)
    trie, `get` over rlp-decoded nodes fetched from the database as the executor left it returns the last value stored
    under the key (`b""` if none) — no node that is still needed has been pruned, and what is stored is what is needed -/
theorem pruned_db_get (H : Bytes → Bytes) (hlen : ∀ b, (H b).length = 32) (prune : Bool) (ops : List Op) (T : TrieSt) (s : OpSt)
    (h : ReachOpsNC (stdHashing H) (blankRoot H) prune ops T s)
    (hbk : Dict.get? s.store.base (blankRoot H) = none)
    (hsm : ∀ h b, Dict.get? s.store.base h = some b → b.length < 2 ^ 64) (key : Bytes) :
    getD H s.store.base T.root (nibs key) = .ok (spec ops key) := by
  have hcomp := reachOpsNC_complete (stdHashing H) (blankRoot H) prune ops T s h
  have htree : T.tree = run ops :=
    (reachOps_tree (stdHashing H) (blankRoot H) prune ops T s
      (reachOpsNC_reachOps (stdHashing H) (blankRoot H) prune ops T s h)).1
  have hcanon : Canon T.tree := htree ▸ PyTrie.Props.C01.canon_run ops
  have hag : DbAgrees s.store.base s.store.base := fun _ => rfl
  rw [getD_of_complete H hlen T hcanon s.store.base hcomp hbk hsm s.store.base hag (nibs key), htree,
    PyTrie.Props.C01.run_get]

end PyTrie.HexRaw
