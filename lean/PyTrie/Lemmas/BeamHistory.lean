import PyTrie.Lemmas.PartialInv
import PyTrie.Lemmas.FreePartial
/-! C07 over whole histories with withheld node bodies ("beam sync"): `set` / `delete` calls interleaved with node bodies
    disappearing from the database (not yet downloaded, withheld) and being supplied. Along every such history the tree-free
    executor (what is run against the code) and the tree-carrying executor return the same outcome at every call and reach
    the same database / counts; a call that raises `MissingTrieNode` leaves database, counts and pending marks exactly as
    they were and names a node that is absent; the partial-consistency invariant holds throughout. -/
namespace PyTrie.HexFree
open PyTrie PyTrie.Hex PyTrie.HexD PyTrie.HexW PyTrie.HexRaw

variable (H : Bytes → Bytes)

inductive BEv where
  | op (key : Bytes) (val : Option Bytes)
  | withhold (h : Hash)
  | supply (n : Node)

def withBase (s : OpSt) (d : Dict Bytes) : OpSt := { s with store := { s.store with base := d } }

/-- one event on the tree-carrying side; the outcome of a call is recorded (`none` for database events) -/
def bstepT (T : TrieSt) (s : OpSt) : BEv → (TrieSt × OpSt) × Option (Except Exn Unit)
  | .op k v =>
    match opSetDel (stdHashing H) (blankRoot H) T k v s with
    | (s', .ok T') => ((T', s'), some (.ok ()))
    | (s', .error e) => ((T, s'), some (.error e))
  | .withhold h => ((T, withBase s (Dict.erase s.store.base h)), none)
  | .supply n => ((T, withBase s (Dict.insert s.store.base (hashOf H n) (enc H n))), none)

/-- the same event on the tree-free side -/
def bstepF (F : Free) (s : OpSt) : BEv → (Free × OpSt) × Option (Except Exn Unit)
  | .op k v =>
    match freeSetDel H F k v s with
    | (s', .ok F') => ((F', s'), some (.ok ()))
    | (s', .error e) => ((F, s'), some (.error e))
  | .withhold h => ((F, withBase s (Dict.erase s.store.base h)), none)
  | .supply n => ((F, withBase s (Dict.insert s.store.base (hashOf H n) (enc H n))), none)

def brunT (T : TrieSt) (s : OpSt) : List BEv → (TrieSt × OpSt) × List (Option (Except Exn Unit))
  | [] => ((T, s), [])
  | e :: r => let (st, o) := bstepT H T s e; let (fin, os) := brunT st.1 st.2 r; (fin, o :: os)

def brunF (F : Free) (s : OpSt) : List BEv → (Free × OpSt) × List (Option (Except Exn Unit))
  | [] => ((F, s), [])
  | e :: r => let (st, o) := bstepF H F s e; let (fin, os) := brunF st.1 st.2 r; (fin, o :: os)

/-- the run-level premises of one event at a state (no collision among the data the event touches; physical side conditions) -/
def GoodEv (T : TrieSt) (s : OpSt) : BEv → Prop
  | .op key val =>
    RefSound (stdHashing H) T.tree (nibs key) ∧
    NoClobber s.store.base (opWrites (stdHashing H) T key val) ∧
    (∀ (m : Node) (b : Bytes), (hashOf H m, b) ∈ opWrites (stdHashing H) T key val →
      (m = T.tree ∨ (isHashed H m = true ∧ ∃ q, nodeAt T.tree q = some m)) → b = enc H m) ∧
    (isBlank (opTree (stdHashing H) T key val).1 = false → hashOf H (opTree (stdHashing H) T key val).1 ≠ blankRoot H) ∧
    (∀ h b, (h, b) ∈ opWrites (stdHashing H) T key val → h ≠ blankRoot H) ∧
    (∀ h b, (h, b) ∈ opWrites (stdHashing H) T key val → b.length < 2 ^ 64)
  | .withhold _ => True
  | .supply n =>
    ∀ m : Node, hashOf H m = hashOf H n → (m = T.tree ∨ ∃ q, nodeAt T.tree q = some m) → enc H m = enc H n

/-- the premises hold at every event of the history (states taken from the tree-carrying run) -/
def GoodRun : TrieSt → OpSt → List BEv → Prop
  | _, _, [] => True
  | T, s, e :: r => GoodEv H T s e ∧ GoodRun (bstepT H T s e).1.1 (bstepT H T s e).1.2 r

/-- the invariant: plain store, canonical tree, partially consistent database -/
def BeamInv (T : TrieSt) (s : OpSt) : Prop :=
  s.store.cache = none ∧ Canon T.tree ∧ RootPartial H s.store.base T.root T.tree ∧ PartialD H s.store.base T.tree


/-! ### a plain store stays plain (pruning on or off, whatever the outcome) -/

theorem setDbValue_cache (prune : Bool) (s : OpSt) (hc : s.store.cache = none) (h : Hash) (b : Bytes) (s' : OpSt)
    (hw : setDbValue prune s h b = .ok s') : s'.store.cache = none := by
  unfold setDbValue at hw
  split at hw
  · cases hw
  · next st hst =>
    cases hw
    exact (write_plain s.store hc h b st hst).1

theorem runEv_cache (prune : Bool) (root key : Bytes) (s : OpSt) (hc : s.store.cache = none) (e : Ev) (s' : OpSt)
    (hr : runEv prune root key s e = .ok s') : s'.store.cache = none := by
  cases e with
  | read x =>
    simp only [runEv] at hr
    split at hr
    · cases hr; exact hc
    · cases hr
  | prune x =>
    simp only [runEv] at hr
    cases hr
    split
    · exact hc
    · exact hc
  | persist x b =>
    simp only [runEv] at hr
    exact setDbValue_cache prune s hc x b s' hr

theorem runEvs_cache (prune : Bool) (root key : Bytes) (es : List Ev) (s : OpSt) (hc : s.store.cache = none) :
    (runEvs prune root key s es).1.store.cache = none := by
  induction es generalizing s with
  | nil => exact hc
  | cons e es ih =>
    simp only [runEvs]
    split
    · next s' hr => exact ih s' (runEv_cache prune root key s hc e s' hr)
    · exact hc

theorem pruneStep_cache (s : OpSt) (kn : Hash × Nat) (hc : s.store.cache = none) (s' : OpSt)
    (hr : pruneStep s kn = .ok s') : s'.store.cache = none := by
  unfold pruneStep at hr
  simp only at hr
  split at hr
  · split at hr
    · cases hr
    · next st hd =>
      cases hr
      unfold Store.del at hd
      rw [hc] at hd
      simp only at hd
      split at hd
      · cases hd; rfl
      · cases hd
  · cases hr; exact hc

theorem completePruning_cache (l : List (Hash × Nat)) (s : OpSt) (hc : s.store.cache = none) :
    (completePruning s l).1.store.cache = none := by
  induction l generalizing s with
  | nil => exact hc
  | cons kn rest ih =>
    simp only [completePruning]
    split
    · next s' hr => exact ih s' (pruneStep_cache s kn hc s' hr)
    · exact hc

theorem schedOldRoot_cache (T : TrieSt) (s : OpSt) (hc : s.store.cache = none) :
    (schedOldRoot (stdHashing H) (blankRoot H) T s).store.cache = none := by
  unfold schedOldRoot
  split
  · exact hc
  · exact hc

theorem opCore_cache (T : TrieSt) (key : Bytes) (val : Option Bytes) (s : OpSt) (hc : s.store.cache = none) :
    (opCore (stdHashing H) (blankRoot H) T key val s).1.store.cache = none := by
  unfold opCore
  split
  · exact hc
  · have h1 := runEvs_cache T.prune T.root key (opTree (stdHashing H) T key val).2 s hc
    split
    · next s1 x he => rw [he] at h1; exact h1
    · next s1 he =>
      rw [he] at h1
      have h2 := schedOldRoot_cache H T s1 h1
      split
      · exact h2
      · next s3 newRoot hw =>
        have h3 : s3.store.cache = none := by
          unfold writeRoot at hw
          split at hw
          · cases hw; exact h2
          · split at hw
            · next s' hs => cases hw; exact setDbValue_cache _ _ h2 _ _ _ hs
            · cases hw
        have h4 : (finishPrune T s3).1.store.cache = none := by
          unfold finishPrune
          split
          · exact completePruning_cache _ _ h3
          · exact h3
        split
        · next s4 x hf => rw [hf] at h4; exact h4
        · next s4 hf => rw [hf] at h4; exact h4

theorem opSetDel_cache (T : TrieSt) (key : Bytes) (val : Option Bytes) (s : OpSt) (hc : s.store.cache = none) :
    (opSetDel (stdHashing H) (blankRoot H) T key val s).1.store.cache = none :=
  opCore_cache H T key val { s with pending := [] } hc

/-- the tree a `set` / `delete` produces from a canonical tree is canonical -/
theorem opTree_canon (T : TrieSt) (key : Bytes) (val : Option Bytes) (hc : Canon T.tree)
    (hrs : RefSound (stdHashing H) T.tree (nibs key)) : Canon (opTree (stdHashing H) T key val).1 := by
  unfold opTree
  cases val with
  | none => simp only; rw [deleteE_fst (stdHashing H) _ _ hrs hc]; exact canon_delete _ _ hc
  | some v =>
    simp only
    split
    · rw [deleteE_fst (stdHashing H) _ _ hrs hc]; exact canon_delete _ _ hc
    · next hne => rw [setE_fst]; exact canon_set _ _ _ hne hc

/-- the invariant is kept by every event -/
theorem beam_inv_step (hlen : ∀ b, (H b).length = 32) (T : TrieSt) (s : OpSt) (e : BEv)
    (hinv : BeamInv H T s) (hg : GoodEv H T s e) : BeamInv H (bstepT H T s e).1.1 (bstepT H T s e).1.2 := by
  obtain ⟨hcache, hc, hroot, hst⟩ := hinv
  cases e with
  | op key val =>
    obtain ⟨hrs, hnc, hold, hblank, hbk, hsm⟩ := hg
    have hpres := opSetDel_partial_preserved H hlen T hc key val s hcache hroot hst hrs hnc hold hblank hbk hsm
    have hcache' := opSetDel_cache H T key val s hcache
    have hshape := opSetDel_ok_shape (stdHashing H) (blankRoot H) T key val s
    simp only [bstepT]
    rcases hr : opSetDel (stdHashing H) (blankRoot H) T key val s with ⟨s', r⟩
    rw [hr] at hpres hcache' hshape
    cases r with
    | ok T' =>
      simp only at hpres hcache' hshape ⊢
      refine ⟨hcache', ?_, hpres.1, hpres.2⟩
      rw [hshape T' rfl]
      exact opTree_canon H T key val hc hrs
    | error x =>
      simp only at hpres hcache' ⊢
      exact ⟨hcache', hc, hpres.1, hpres.2⟩
  | withhold h =>
    have hp := partial_erase H T s.store.base h ⟨hroot, hst⟩
    exact ⟨hcache, hc, hp.1, hp.2⟩
  | supply n =>
    have hp := partial_insert_node H T hc s.store.base n ⟨hroot, hst⟩ hg
    exact ⟨hcache, hc, hp.1, hp.2⟩

theorem brunT_cons (T : TrieSt) (s : OpSt) (e : BEv) (r : List BEv) :
    brunT H T s (e :: r) =
      ((brunT H (bstepT H T s e).1.1 (bstepT H T s e).1.2 r).1, (bstepT H T s e).2 :: (brunT H (bstepT H T s e).1.1 (bstepT H T s e).1.2 r).2) := rfl

theorem brunF_cons (F : Free) (s : OpSt) (e : BEv) (r : List BEv) :
    brunF H F s (e :: r) =
      ((brunF H (bstepF H F s e).1.1 (bstepF H F s e).1.2 r).1, (bstepF H F s e).2 :: (brunF H (bstepF H F s e).1.1 (bstepF H F s e).1.2 r).2) := rfl

/-- one event: the tree-free step is the image of the tree-carrying step -/
theorem beam_step_lockstep (hlen : ∀ b, (H b).length = 32) (T : TrieSt) (s : OpSt) (e : BEv)
    (hinv : BeamInv H T s) :
    bstepF H (toFree T) s e = ((toFree (bstepT H T s e).1.1, (bstepT H T s e).1.2), (bstepT H T s e).2) := by
  obtain ⟨hcache, hc, hroot, hst⟩ := hinv
  cases e with
  | op key val =>
    simp only [bstepF, bstepT]
    rw [freeSetDel_partial H hlen T hc key val s hcache hroot hst]
    rcases opSetDel (stdHashing H) (blankRoot H) T key val s with ⟨s', r⟩
    cases r <;> rfl
  | withhold h => rfl
  | supply n => rfl

/-- **lockstep over whole histories with withheld bodies**: same outcomes, same final state -/
theorem beam_history_lockstep (hlen : ∀ b, (H b).length = 32) (T : TrieSt) (s : OpSt) (evs : List BEv)
    (hinv : BeamInv H T s) (hg : GoodRun H T s evs) :
    brunF H (toFree T) s evs = ((toFree (brunT H T s evs).1.1, (brunT H T s evs).1.2), (brunT H T s evs).2) ∧
    BeamInv H (brunT H T s evs).1.1 (brunT H T s evs).1.2 := by
  induction evs generalizing T s with
  | nil => exact ⟨rfl, hinv⟩
  | cons e r ih =>
    obtain ⟨hge, hgr⟩ := hg
    have hinv' := beam_inv_step H hlen T s e hinv hge
    obtain ⟨h1, h2⟩ := ih _ _ hinv' hgr
    have hs := beam_step_lockstep H hlen T s e hinv
    rw [brunF_cons, brunT_cons, hs]
    simp only
    rw [h1]
    exact ⟨rfl, h2⟩

/-- **a call that raises `MissingTrieNode` anywhere in such a history changed nothing and names an absent node** -/
theorem beam_failed_call_atomic (hlen : ∀ b, (H b).length = 32) (T : TrieSt) (s : OpSt) (key : Bytes) (val : Option Bytes)
    (hinv : BeamInv H T s) (hg : GoodEv H T s (.op key val)) (h root rk : Bytes) (pre : Option Path)
    (he : (bstepF H (toFree T) s (.op key val)).2 = some (.error (.missingTrieNode h root rk pre))) :
    (bstepF H (toFree T) s (.op key val)).1.1 = toFree T ∧
    (bstepF H (toFree T) s (.op key val)).1.2.store = s.store ∧
    (bstepF H (toFree T) s (.op key val)).1.2.counts = s.counts ∧
    (bstepF H (toFree T) s (.op key val)).1.2.pending = [] ∧
    s.store.contains h = false ∧
    (h = T.root ∨ OnPath (stdHashing H) T.tree (nibs key) h ∨ SiblingOnPath (stdHashing H) T.tree (nibs key) h) := by
  obtain ⟨hcache, hc, hroot, hst⟩ := hinv
  have hat := freeSetDel_missing_atomic H hlen T hc key val s hcache hroot hst hg.1 h root rk pre
  simp only [bstepF] at he ⊢
  rcases hr : freeSetDel H (toFree T) key val s with ⟨s', r⟩
  rw [hr] at he hat
  cases r with
  | ok F' => simp at he
  | error x =>
    simp only [Option.some.injEq, Except.error.injEq] at he
    subst he
    obtain ⟨a, b, c, d, f⟩ := hat rfl
    exact ⟨rfl, a, b, c, d, f⟩

end PyTrie.HexFree
