import PyTrie.Model.HexFree
import PyTrie.Lemmas.PruneBodies
import PyTrie.Lemmas.RawAtomic
/-! **The tree-free executor computes what the tree-carrying executor computes.** `Model/HexFree.lean` runs `set` /
    `delete` the way the code does — root hash + database, raw-level `_set` / `_delete` producing the events, the pruning
    bookkeeping applying them — with no tree anywhere. On a database that is complete for the trie's root (which every
    reachable database is: `reachOpsNC_complete`, pruning on or off) it returns exactly the state and root the
    tree-carrying executor of `Model/HexWorld.lean` returns. No run-level hypothesis is needed for this step: only that
    the blank-root hash is not a key and no stored body has 2^64 bytes. Hence every theorem about the tree-carrying
    executor (C01 map semantics through the database, C04 completeness, C06 exact pruning, C07 truthful failures) is a
    theorem about the tree-free transcription, which is what the correspondence check runs against the code. -/
namespace PyTrie.HexFree
open PyTrie PyTrie.Hex PyTrie.HexD PyTrie.HexW PyTrie.HexRaw PyTrie.HexRawT
open PyTrie.Props.C01 (Op run spec)

variable (H : Bytes → Bytes)

def toFree (T : TrieSt) : Free := ⟨T.root, T.prune⟩


/-! ### helper lemmas -/

theorem rlp_blank_length : (rlp (.str [])).length = 1 := by
  simp [rlp, rlpLen]

/-- `len(rlp(node)) ≥ 32` on the raw encoding of a tree node is the tree-level `hashed` -/
theorem hashed_toItem (t : Node) :
    decide ((rlp (toItem H t)).length ≥ 32) = isHashed H t := by
  cases hb : isBlank t with
  | true =>
    rw [(isBlank_iff t).1 hb]
    simp [toItem, isHashed, isBlank, rlp_blank_length]
  | false =>
    rw [Bool.eq_iff_iff]
    simp only [isHashed, hb, enc, Bool.not_false, Bool.true_and, ge_iff_le]
    exact decide_eq_true_iff.trans decide_eq_true_iff.symm

theorem schedOldRootF_eq (T : TrieSt) (s : OpSt) :
    schedOldRootF H (toFree T) (toItem H T.tree) s = schedOldRoot (stdHashing H) (blankRoot H) T s := by
  unfold schedOldRootF schedOldRoot
  rw [hashed_toItem]
  rfl

theorem writeRootF_eq (T : TrieSt) (new : Node) (s : OpSt) :
    writeRootF H (toFree T) (toItem H new) s = writeRoot (stdHashing H) (blankRoot H) T new s := by
  unfold writeRootF writeRoot
  cases hb : isBlank new with
  | true =>
    rw [(isBlank_iff new).1 hb]
    simp [toItem]
  | false =>
    obtain ⟨l, hl⟩ := PyTrie.HexD.toItem_list H new hb
    have e1 : (stdHashing H).hashOf new = H (rlp (toItem H new)) := rfl
    have e2 : (stdHashing H).encOf new = rlp (toItem H new) := rfl
    rw [e1, e2, hl]
    simp only [Bool.false_eq_true, if_false]
    rfl

theorem forget_ok_inv {α : Type} (r : St × Except Err α) (x : α) (st : St) (h : forget r = .ok (x, st)) :
    r = (st, .ok x) := by
  obtain ⟨st', e⟩ := r
  cases e with
  | error e => simp at h
  | ok y => simp at h; obtain ⟨h1, h2⟩ := h; subst h1; subst h2; rfl

/-- the body of an operation on the raw encoding of the tree: events and new root node of `opTree` -/
theorem bodyT_eq (hlen : ∀ b, (H b).length = 32) (T : TrieSt) (hc : Canon T.tree) (key : Bytes) (val : Option Bytes)
    (db : Db) (hst : StoredD H db T.tree) :
    bodyT H db (toItem H T.tree) key val =
      ({ db := applyPersists db (opTree (stdHashing H) T key val).2, evs := (opTree (stdHashing H) T key val).2 },
       .ok (toItem H (opTree (stdHashing H) T key val).1)) := by
  have hin := rawOp_inner H hlen T hc key val { db := db, evs := [] } hst
  simp only [List.nil_append] at hin
  apply forget_ok_inv
  rw [← hin]
  unfold bodyT
  cases val with
  | none => simp only []; rw [rawDeleteT_agrees]
  | some v =>
    simp only []
    split
    · rw [rawDeleteT_agrees]
    · rw [rawSetT_agrees]

theorem root_check (T : TrieSt) (s : OpSt) (hcache : s.store.cache = none)
    (hcomp : Complete (stdHashing H) (blankRoot H) s.store.base T) :
    (T.root != blankRoot H && !(s.store.contains T.root)) = false := by
  have h1 := hcomp.1
  by_cases hb : isBlank T.tree = true
  · simp only [hb, if_true] at h1; simp [h1]
  · simp only [hb] at h1
    have : s.store.contains T.root = true := by
      unfold Store.contains; rw [hcache]; exact contains_of_get? h1.2.2
    simp [this]

theorem freeCore_is_opCore (hlen : ∀ b, (H b).length = 32) (T : TrieSt) (hc : Canon T.tree) (key : Bytes) (val : Option Bytes)
    (s : OpSt) (hcache : s.store.cache = none)
    (hcomp : Complete (stdHashing H) (blankRoot H) s.store.base T)
    (hbk : Dict.get? s.store.base (blankRoot H) = none)
    (hsm : ∀ h b, Dict.get? s.store.base h = some b → b.length < 2 ^ 64) :
    freeCore H (toFree T) key val s =
      ((opCore (stdHashing H) (blankRoot H) T key val s).1,
       match (opCore (stdHashing H) (blankRoot H) T key val s).2 with
       | .ok T' => .ok (toFree T')
       | .error e => .error e) := by
  have hag : DbAgrees s.store.base s.store.base := fun _ => rfl
  have hst : StoredD H s.store.base T.tree := storedD_of_storedBelow H hag hbk hsm T.tree hcomp.2
  obtain ⟨evs0, hroot⟩ := getNodeR_root H hlen T hag hbk hsm hcomp
  have hrootT := getNodeT_ok H _ _ _ _ hroot
  have hbody := bodyT_eq H hlen T hc key val s.store.base hst
  have hchk := root_check H T s hcache hcomp
  have hdb : storeDb s.store = s.store.base := by simp [storeDb, hcache]
  unfold freeCore opCore
  rw [hdb]
  rw [if_neg (by rw [hchk]; simp)]
  have e0 : (toFree T).root = T.root := rfl
  have e1 : (toFree T).prune = T.prune := rfl
  rw [e0, e1, hrootT]
  simp only []
  rw [hbody]
  simp only []
  rcases hre : runEvs T.prune T.root key s (opTree (stdHashing H) T key val).2 with ⟨s1, _ | x⟩
  · simp only []
    rw [schedOldRootF_eq, writeRootF_eq]
    rcases hw : writeRoot (stdHashing H) (blankRoot H) T (opTree (stdHashing H) T key val).1
        (schedOldRoot (stdHashing H) (blankRoot H) T s1) with x | ⟨s3, nr⟩
    · simp only []
    · simp only []
      have e2 : (if T.prune = true then completePruning s3 s3.pending else (s3, none)) = finishPrune T s3 := rfl
      rw [e2]
      rcases hf : finishPrune T s3 with ⟨s4, _ | x⟩
      · simp only []; rfl
      · simp only []
  · simp only []

/-- **one operation** (pruning on or off, plain store) -/
theorem freeSetDel_is_opSetDel (hlen : ∀ b, (H b).length = 32) (T : TrieSt) (hc : Canon T.tree) (key : Bytes) (val : Option Bytes)
    (s : OpSt) (hcache : s.store.cache = none) (hfa : s.store.failAfter = none)
    (hcomp : Complete (stdHashing H) (blankRoot H) s.store.base T)
    (hbk : Dict.get? s.store.base (blankRoot H) = none)
    (hsm : ∀ h b, Dict.get? s.store.base h = some b → b.length < 2 ^ 64) :
    freeSetDel H (toFree T) key val s =
      ((opSetDel (stdHashing H) (blankRoot H) T key val s).1,
       match (opSetDel (stdHashing H) (blankRoot H) T key val s).2 with
       | .ok T' => .ok (toFree T')
       | .error e => .error e) := by
  have _ := hfa
  unfold freeSetDel opSetDel
  simp only []
  rw [freeCore_is_opCore H hlen T hc key val { s with pending := [] } hcache hcomp hbk hsm]

/-- a history with the run-level no-collision facts (as `ReachOpsNC`) and the two physical side conditions at every state -/
inductive ReachFree (prune : Bool) : List Op → TrieSt → OpSt → Prop where
  | init : ReachFree prune [] { tree := .blank, root := blankRoot H, prune := prune }
      { store := { base := [], cache := none, failAfter := none }, counts := [], pending := [] }
  | step (ops : List Op) (T : TrieSt) (s : OpSt) (o : Op) (T' : TrieSt) :
      ReachFree prune ops T s →
      RefSound (stdHashing H) T.tree (nibs (opKey o)) →
      (isBlank (opTree (stdHashing H) T (opKey o) (opVal o)).1 = false →
        hashOf H (opTree (stdHashing H) T (opKey o) (opVal o)).1 ≠ blankRoot H) →
      NoClobber s.store.base (opWrites (stdHashing H) T (opKey o) (opVal o)) →
      Dict.get? s.store.base (blankRoot H) = none →
      (∀ h b, Dict.get? s.store.base h = some b → b.length < 2 ^ 64) →
      (opSetDel (stdHashing H) (blankRoot H) T (opKey o) (opVal o) s).2 = .ok T' →
      ReachFree prune (ops ++ [o]) T' (opSetDel (stdHashing H) (blankRoot H) T (opKey o) (opVal o) s).1

theorem reachFree_nc (prune : Bool) (ops : List Op) (T : TrieSt) (s : OpSt) (h : ReachFree H prune ops T s) :
    ReachOpsNC (stdHashing H) (blankRoot H) prune ops T s := by
  induction h with
  | init => exact ReachOpsNC.init
  | step ops T s o T' _ hrs hbl hnc _ _ hok ih => exact ReachOpsNC.step ops T s o T' ih hrs hbl hnc hok

theorem freeRun_snoc (prune : Bool) (l : List (Bytes × Option Bytes)) (k : Bytes) (v : Option Bytes) :
    ∀ (st0 : Free × OpSt) (F : Free) (s : OpSt), freeRun H prune l st0 = .ok (F, s) →
    freeRun H prune (l ++ [(k, v)]) st0 =
      match freeSetDel H F k v s with
      | (s', .ok F') => .ok (F', s')
      | (_, .error e) => .error e := by
  induction l with
  | nil =>
    intro st0 F s h
    simp only [freeRun] at h
    injection h with h
    subst h
    simp only [List.nil_append, freeRun]
    split <;> simp_all
  | cons a rest ih =>
    intro st0 F s h
    obtain ⟨F0, s0⟩ := st0
    obtain ⟨k0, v0⟩ := a
    simp only [List.cons_append, freeRun] at h ⊢
    split
    · next s' F' he =>
      rw [he] at h
      exact ih _ F s h
    · next s' e he => rw [he] at h; cases h

/-- **whole histories**: the tree-free run reaches the executor's state with the executor's root -/
theorem freeRun_is_world_run (hlen : ∀ b, (H b).length = 32) (prune : Bool) (ops : List Op) (T : TrieSt) (s : OpSt)
    (h : ReachFree H prune ops T s) :
    freeRun H prune (ops.map fun o => (opKey o, opVal o))
      (⟨blankRoot H, prune⟩, { store := { base := [], cache := none, failAfter := none }, counts := [], pending := [] }) =
      .ok (toFree T, s) := by
  induction h with
  | init => rfl
  | step ops T s o T' hreach hrs hbl hnc hbk hsm hok ih =>
    have hnc' := reachFree_nc H prune ops T s hreach
    have hro := reachOpsNC_reachOps _ _ prune ops T s hnc'
    obtain ⟨htree, hprune, hcache, hfa, _⟩ := reachOps_inv _ _ prune ops T s hro
    have hcanon : Canon T.tree := htree ▸ PyTrie.Props.C01.canon_run ops
    have hcomp := reachOpsNC_complete _ _ prune ops T s hnc'
    have hone := freeSetDel_is_opSetDel H hlen T hcanon (opKey o) (opVal o) s hcache hfa hcomp hbk hsm
    rw [hok] at hone
    simp only [List.map_append, List.map_cons, List.map_nil]
    rw [freeRun_snoc H prune _ (opKey o) (opVal o) _ _ _ ih, hone]

/-- **C01 / C06 for the tree-free executor**: after any history, pruning on or off, its `get` returns the map model's value -/
theorem freeRun_get (hlen : ∀ b, (H b).length = 32) (prune : Bool) (ops : List Op) (T : TrieSt) (s : OpSt)
    (h : ReachFree H prune ops T s)
    (hbk : Dict.get? s.store.base (blankRoot H) = none)
    (hsm : ∀ h b, Dict.get? s.store.base h = some b → b.length < 2 ^ 64) (key : Bytes) :
    freeGet H (toFree T) key s = .ok (spec ops key) := by
  have hg := pruned_db_get H hlen prune ops T s (reachFree_nc H prune ops T s h) hbk hsm key
  have hcache : s.store.cache = none :=
    (reachOps_inv _ _ prune ops T s (reachOpsNC_reachOps _ _ prune ops T s (reachFree_nc H prune ops T s h))).2.2.1
  have hdb : storeDb s.store = s.store.base := by simp [storeDb, hcache]
  unfold freeGet
  rw [hdb]
  have e0 : (toFree T).root = T.root := rfl
  rw [e0, hg]

end PyTrie.HexFree

