import PyTrie.Lemmas.RawDefs
/-! One-step lemmas: the raw primitives (`_prune_node`, `_persist_node`, `get_node`) on the raw encoding
    of a tree node are the event helpers of the effect layer. -/
namespace PyTrie.HexRaw
open PyTrie.Hex PyTrie.HexD PyTrie.Hex.Node
open PyTrie.HexW (NoPersist noPersist_pruneEv noPersist_readEv noPersist_append noPersist_nil normalizeE_noPersist deleteE_blank_noPersist)

variable (H : Bytes → Bytes)

/-- the state after the events `evs`: persists applied to the database, events appended -/
def St.app (st : St) (evs : List Ev) : St := { db := applyPersists st.db evs, evs := st.evs ++ evs }

@[simp] theorem applyPersists_nil (db : Db) : applyPersists db [] = db := rfl
theorem applyPersists_append (db : Db) (a b : List Ev) :
    applyPersists db (a ++ b) = applyPersists (applyPersists db a) b := by
  simp [applyPersists, List.foldl_append]

@[simp] theorem app_nil (st : St) : st.app [] = st := by
  cases st; simp [St.app]
@[simp] theorem app_app (st : St) (a b : List Ev) : (st.app a).app b = st.app (a ++ b) := by
  simp [St.app, applyPersists_append]
@[simp] theorem app_evs (st : St) (a : List Ev) : (st.app a).evs = st.evs ++ a := rfl

theorem applyPersists_noPersist (db : Db) (evs : List Ev) (h : NoPersist evs) : applyPersists db evs = db := by
  induction evs generalizing db with
  | nil => rfl
  | cons e es ih =>
    have hes : NoPersist es := fun x hx => h x (List.mem_cons_of_mem _ hx)
    cases e with
    | read x => exact ih db hes
    | prune x => exact ih db hes
    | persist x b => exact absurd rfl (h _ (List.mem_cons_self ..) x b)

theorem app_db_noPersist (st : St) (evs : List Ev) (h : NoPersist evs) : (st.app evs).db = st.db :=
  applyPersists_noPersist st.db evs h

@[simp] theorem app_db_pruneEv (st : St) (Hs : Hashing) (n : Node) : (st.app (pruneEv Hs n)).db = st.db :=
  app_db_noPersist _ _ (by simp)
@[simp] theorem app_db_readEv (st : St) (Hs : Hashing) (n : Node) : (st.app (readEv Hs n)).db = st.db :=
  app_db_noPersist _ _ (by simp)
@[simp] theorem app_db_prune_read (st : St) (Hs : Hashing) (n m : Node) :
    (st.app (pruneEv Hs n ++ readEv Hs m)).db = st.db :=
  app_db_noPersist _ _ (by simp)

/-- `_node_to_db_mapping` on the raw encoding of a tree node -/
theorem nodeToDb_toItem (n : Node) :
    nodeToDb H (toItem H n) =
      if isBlank n then (.str [], none)
      else if isHashed H n then (.str (hashOf H n), some (enc H n)) else (toItem H n, none) := by
  cases hb : isBlank n with
  | true => rw [(isBlank_iff n).1 hb]; simp [toItem, nodeToDb]
  | false =>
    obtain ⟨l, hl⟩ := toItem_list H n hb
    simp only [isHashed, hashOf, enc, hb, hl, nodeToDb]
    by_cases h : (rlp (.list l)).length < 32
    · have h' : ¬ 32 ≤ (rlp (.list l)).length := by omega
      simp [h, h']
    · have h' : 32 ≤ (rlp (.list l)).length := by omega
      simp [h, h']

theorem pruneNodeR_toItem (st : St) (n : Node) :
    pruneNodeR H st (toItem H n) = st.app (pruneEv (stdHashing H) n) := by
  unfold pruneNodeR pruneEv
  rw [nodeToDb_toItem]
  cases hb : isBlank n with
  | true => rw [(isBlank_iff n).1 hb]; simp [stdHashing, isHashed, isBlank]
  | false =>
    cases hh : isHashed H n with
    | true => simp [stdHashing, hh, St.app, applyPersists]
    | false => simp [stdHashing, hh]

theorem persistNodeR_toItem (st : St) (n : Node) :
    persistNodeR H st (toItem H n) = (refOf H n, st.app (persistEv (stdHashing H) n)) := by
  unfold persistNodeR persistEv
  rw [nodeToDb_toItem]
  cases hb : isBlank n with
  | true => rw [(isBlank_iff n).1 hb]; simp [stdHashing, isHashed, isBlank, refOf_blank]
  | false =>
    cases hh : isHashed H n with
    | true => simp [stdHashing, hh, St.app, applyPersists, refOf_hashed H n hh]
    | false => simp [stdHashing, hh, refOf_embedded H n hb hh]

/-- a child is readable: if hashed, it is stored under its hash with an encoding that decodes back -/
def StoredC (db : Db) (c : Node) : Prop :=
  isHashed H c = true → hashOf H c ≠ blankRoot H ∧ lookup db (hashOf H c) = some (enc H c) ∧
    rlpDecode (enc H c) = some (toItem H c)

theorem getNodeR_refOf (hlen : ∀ b, (H b).length = 32) (st : St) (c : Node) (hs : StoredC H st.db c) :
    getNodeR H st (refOf H c) = .ok (toItem H c, st.app (readEv (stdHashing H) c)) := by
  unfold readEv
  cases hb : isBlank c with
  | true => rw [(isBlank_iff c).1 hb]; simp [refOf_blank, getNodeR, toItem, stdHashing, isHashed, isBlank]
  | false =>
    cases hh : isHashed H c with
    | false =>
      rw [refOf_embedded H c hb hh]
      obtain ⟨l, hl⟩ := toItem_list H c hb
      simp [hl, getNodeR, stdHashing, hh]
    | true =>
      obtain ⟨hne, hl, hd⟩ := hs hh
      rw [refOf_hashed H c hh]
      have h32 : (hashOf H c).length = 32 := hlen _
      have h1 : hashOf H c ≠ [] := by intro h; rw [h] at h32; simp at h32
      have h2 : ¬ (hashOf H c).length < 32 := by omega
      simp [getNodeR, h1, hne, h2, hl, hd, stdHashing, hh, St.app, applyPersists]

end PyTrie.HexRaw
