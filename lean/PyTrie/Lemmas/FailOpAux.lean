import PyTrie.Lemmas.WorldMono
import PyTrie.Lemmas.WorldComplete
/-! General facts for a direct `set` / `delete` on a NON-pruning trie over a plain dict that may be cut short at any point
    (a failing write, a missing node): the reference counts are untouched, and under the run-level no-collision predicate
    `NoClobber` for the call's writes every old binding of the database survives (`Props/HistoryFailOp.lean`). -/
namespace PyTrie.HexW
open PyTrie.Hex hiding get set
open PyTrie.Hex.Node

variable (Hs : Hashing) (blankRootHash : Hash)

theorem setDbValue_false_counts (s : OpSt) (h : Hash) (b : Bytes) (s' : OpSt)
    (hw : setDbValue false s h b = .ok s') : s'.counts = s.counts ∧ s'.pending = s.pending := by
  unfold setDbValue at hw
  split at hw
  · cases hw
  · cases hw; exact ⟨rfl, rfl⟩

theorem runEv_false_counts (root key : Bytes) (s : OpSt) (e : Ev) (s' : OpSt)
    (hr : runEv false root key s e = .ok s') : s'.counts = s.counts ∧ s'.pending = s.pending := by
  cases e with
  | read x =>
    simp only [runEv] at hr
    split at hr
    · cases hr; exact ⟨rfl, rfl⟩
    · cases hr
  | prune x =>
    simp only [runEv] at hr
    cases hr; exact ⟨rfl, rfl⟩
  | persist x b =>
    simp only [runEv] at hr
    exact setDbValue_false_counts s x b s' hr

theorem runEvs_false_counts (root key : Bytes) (es : List Ev) (s : OpSt) :
    (runEvs false root key s es).1.counts = s.counts ∧ (runEvs false root key s es).1.pending = s.pending := by
  induction es generalizing s with
  | nil => exact ⟨rfl, rfl⟩
  | cons e es ih =>
    simp only [runEvs]
    split
    · next s' h =>
      obtain ⟨h1, h2⟩ := runEv_false_counts root key s e s' h
      obtain ⟨i1, i2⟩ := ih s'
      exact ⟨i1.trans h1, i2.trans h2⟩
    · exact ⟨rfl, rfl⟩

/-- `opCore` on a non-pruning trie never touches the reference counts, whatever happens -/
theorem opCore_noprune_counts (T : TrieSt) (hp : T.prune = false) (key : Bytes) (val : Option Bytes) (s : OpSt) :
    (opCore Hs blankRootHash T key val s).1.counts = s.counts := by
  unfold opCore
  split
  · rfl
  · rw [hp]
    have h1 := (runEvs_false_counts T.root key (opTree Hs T key val).2 s).1
    split
    · next s1 x he => rw [he] at h1; exact h1
    · next s1 he =>
      rw [he] at h1
      rw [schedOldRoot_noprune Hs blankRootHash T hp]
      split
      · exact h1
      · next s3 newRoot hw =>
        rw [finishPrune_noprune T hp]
        show s3.counts = s.counts
        unfold writeRoot at hw
        rw [hp] at hw
        split at hw
        · cases hw; exact h1
        · split at hw
          · next s' h' =>
            cases hw
            exact (setDbValue_false_counts s1 _ _ s3 h').1.trans h1
          · cases hw

/-- **the reference counts of a non-pruning trie are untouched by `set` / `delete`**, successful or cut short -/
theorem opSetDel_noprune_counts (T : TrieSt) (hp : T.prune = false) (key : Bytes) (val : Option Bytes) (s : OpSt) :
    (opSetDel Hs blankRootHash T key val s).1.counts = s.counts :=
  opCore_noprune_counts Hs blankRootHash T hp key val { s with pending := [] }

theorem writeRoot_plain' (T : TrieSt) (hp : T.prune = false) (new : Node) (s : OpSt) (hc : s.store.cache = none)
    (d : Dict Bytes) (ws : List (Hash × Bytes)) (g : Good d ws s.store.base)
    (hm : isBlank new = false → (Hs.hashOf new, Hs.encOf new) ∈ ws) (s' : OpSt) (r : Hash)
    (hw : writeRoot Hs blankRootHash T new s = .ok (s', r)) :
    s'.store.cache = none ∧ Good d ws s'.store.base := by
  unfold writeRoot at hw
  rw [hp] at hw
  split at hw
  · cases hw; exact ⟨hc, g⟩
  · next hb =>
    split at hw
    · next s1 h1 =>
      cases hw
      obtain ⟨a, b⟩ := setDbValue_plain s hc _ _ s' h1
      exact ⟨a, b ▸ g.insert _ _ (hm (by simpa using hb))⟩
    · cases hw

/-- `opCore_plain` with the writes of `opWrites` (no root write for a blank new root) -/
theorem opCore_plain' (T : TrieSt) (hp : T.prune = false) (key : Bytes) (val : Option Bytes)
    (s : OpSt) (hc : s.store.cache = none) :
    (opCore Hs blankRootHash T key val s).1.store.cache = none ∧
    Good s.store.base (opWrites Hs T key val) (opCore Hs blankRootHash T key val s).1.store.base := by
  have g0 : Good s.store.base (opWrites Hs T key val) s.store.base := Good.refl _ _
  unfold opCore
  split
  · exact ⟨hc, g0⟩
  · rw [hp]
    have h1 := runEvs_plain T.root key s.store.base (opWrites Hs T key val) (opTree Hs T key val).2 s hc g0
      (fun x hx => List.mem_append_left _ hx)
    split
    · next s1 x he => rw [he] at h1; exact h1
    · next s1 he =>
      rw [he] at h1
      rw [schedOldRoot_noprune Hs blankRootHash T hp]
      split
      · exact h1
      · next s3 newRoot hw =>
        have h3 := writeRoot_plain' Hs blankRootHash T hp _ s1 h1.1 _ (opWrites Hs T key val) h1.2
          (fun hb => by
            unfold opWrites
            rw [hb]
            exact List.mem_append_right _ (List.mem_singleton.2 rfl)) s3 newRoot hw
        rw [finishPrune_noprune T hp]
        exact h3

theorem not_clobbers_of_noClobber (d : Dict Bytes) (ws : List (Hash × Bytes)) (hnc : NoClobber d ws) :
    ¬ Clobbers d ws := by
  rintro ⟨h, b, b', hm, hne, hg⟩
  exact hne (hnc.1 h b' b hm hg)

/-- **a `set` / `delete` on a non-pruning trie over a plain dict, successful or cut short at any point, keeps every binding
    of the database** when none of its writes collides with what the database holds -/
theorem opSetDel_noprune_preserved (T : TrieSt) (hp : T.prune = false) (key : Bytes) (val : Option Bytes)
    (s : OpSt) (hc : s.store.cache = none) (hnc : NoClobber s.store.base (opWrites Hs T key val)) :
    Preserved s.store.base (opSetDel Hs blankRootHash T key val s).1.store.base := by
  have h := opCore_plain' Hs blankRootHash T hp key val { s with pending := [] } hc
  exact h.2.pres (not_clobbers_of_noClobber _ _ hnc)

/-- a direct call that raises: only the database, the fault counter and the trie's reference counts are replaced -/
theorem World.setDel_trie_error_eq (w : World) (i : Nat) (key : Bytes) (val : Option Bytes) (e : Exn)
    (h : (w.setDel Hs blankRootHash (.trie i) key val).1 = .error e) :
    (w.setDel Hs blankRootHash (.trie i) key val).2 =
      { w with base := (opSetDel Hs blankRootHash w.tries[i]! key val (w.opSt i)).1.store.base,
               failAfter := (opSetDel Hs blankRootHash w.tries[i]! key val (w.opSt i)).1.store.failAfter,
               counts := w.counts.set! i (opSetDel Hs blankRootHash w.tries[i]! key val (w.opSt i)).1.counts } := by
  simp only [World.setDel] at h ⊢
  generalize opSetDel Hs blankRootHash w.tries[i]! key val (w.opSt i) = q at h ⊢
  obtain ⟨st', r⟩ := q
  cases r with
  | ok T' => simp at h
  | error x => rfl

theorem array_set!_getElem! {α} [Inhabited α] (a : Array α) (i : Nat) : a.set! i a[i]! = a := by
  apply Array.ext
  · simp [Array.set!_eq_setIfInBounds]
  · intro j h1 h2
    simp only [Array.set!_eq_setIfInBounds]
    rw [Array.getElem_setIfInBounds]
    split
    · next hij => subst hij; simp [getElem!_pos, h2]
    · rfl

end PyTrie.HexW
