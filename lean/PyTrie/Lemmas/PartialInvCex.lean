import PyTrie.Lemmas.PartialInv
/-! Machine-checked counterexamples to two statements of `PartialInv.lean` *as originally given*, which is why
    `partial_insert_node` got the hypothesis `Canon T.tree` and `opSetDel_partial_preserved` the hypothesis `hold`.
    Both need a hash function with one collision (the statements quantify over every `H : Bytes → Bytes`). -/
namespace PyTrie.HexFree.Cex
open PyTrie PyTrie.Hex PyTrie.HexD PyTrie.HexW PyTrie.HexRaw PyTrie.Hex.Node

/-! ### 1. `partial_insert_node` without `Canon T.tree` -/

/-- the withheld child: a leaf with a 32-byte value (35 bytes of rlp, so it is referenced by hash) -/
def c1 : Node := leaf [] (List.replicate 32 1)
/-- the node whose body is supplied: another such leaf, colliding with `c1` under `H1` -/
def n1 : Node := leaf [] (List.replicate 32 2)
/-- a hash function under which the encodings of `c1` and `n1` collide (the encoding of a leaf does not depend on the
    hash function) -/
def H1 (b : Bytes) : Bytes :=
  if b = enc (fun _ => []) c1 ∨ b = enc (fun _ => []) n1 then List.replicate 32 1
  else if b = [0x80] then List.replicate 32 2 else List.replicate 32 0
/-- a non-canonical tree: an extension with an empty path; `nodeAt` does not reach its child -/
def t1 : Node := ext [] c1
def T1 : TrieSt := { tree := t1, root := hashOf H1 t1, prune := false }

theorem nodeAt_t1 (q : Path) (m : Node) (h : nodeAt t1 q = some m) : m = t1 := by
  cases q with
  | nil => simp [nodeAt] at h; exact h.symm
  | cons a k => simp [t1, c1, nodeAt] at h

/-- **the original `partial_insert_node` (no `Canon T.tree`) is false** -/
theorem partial_insert_node_needs_canon :
    ¬ (∀ (H : Bytes → Bytes) (T : TrieSt) (d : Dict Bytes) (n : Node),
      (RootPartial H d T.root T.tree ∧ PartialD H d T.tree) →
      (∀ m : Node, hashOf H m = hashOf H n → (m = T.tree ∨ ∃ q, nodeAt T.tree q = some m) → enc H m = enc H n) →
      RootPartial H (Dict.insert d (hashOf H n) (enc H n)) T.root T.tree ∧
      PartialD H (Dict.insert d (hashOf H n) (enc H n)) T.tree) := by
  intro hAll
  have hp : RootPartial H1 [] T1.root T1.tree ∧ PartialD H1 [] T1.tree := by
    refine ⟨?_, ⟨?_, trivial⟩⟩
    · show RootPartial H1 [] (hashOf H1 t1) t1
      unfold RootPartial
      simp only [t1, isBlank, Bool.false_eq_true, if_false]
      refine ⟨trivial, by decide +kernel, fun b hb => by simp [lookup] at hb, ?_⟩
      exact rlpDecode_rlp_of_length_lt _ (by decide +kernel)
    · intro _
      refine ⟨by decide +kernel, fun b hb => by simp [lookup] at hb, ?_⟩
      exact rlpDecode_rlp_of_length_lt _ (by decide +kernel)
  have hnc : ∀ m : Node, hashOf H1 m = hashOf H1 n1 → (m = T1.tree ∨ ∃ q, nodeAt T1.tree q = some m) →
      enc H1 m = enc H1 n1 := by
    intro m hm hr
    have e : m = t1 := by
      rcases hr with e | ⟨q, hq⟩
      · exact e
      · exact nodeAt_t1 q m hq
    subst e
    exact absurd hm (by decide +kernel)
  have h := (hAll H1 T1 [] n1 hp hnc).2
  have hc : PartialC H1 (Dict.insert [] (hashOf H1 n1) (enc H1 n1)) c1 := h.1
  have := (hc (by decide +kernel)).2.1 (enc H1 n1) (by decide +kernel)
  revert this
  decide +kernel

/-! ### 2. `opSetDel_partial_preserved` without `hold` -/

/-- the withheld child: a hashed leaf below nibble 2 of the root branch -/
def c2 : Node := leaf [0] (List.replicate 32 1)
def ch2 : Nib → Node := upd emptyCh 2 c2
/-- the old root: a branch with the child `c2` and the value `[7]` (stored under the empty key) -/
def t2 : Node := branch ch2 [7]
/-- the hash of `c2`, and (by collision) of the new root -/
def X : Hash := List.replicate 32 1
/-- the encoding of the new root `branch ch2 [9]` (it mentions `c2` by its hash `X`) -/
def R' : Bytes := enc (fun _ => X) (branch ch2 [9])
/-- a hash function under which the encoding of the new root collides with that of `c2` -/
def H2 (b : Bytes) : Bytes :=
  if b = enc (fun _ => []) c2 ∨ b = R' then X
  else if b = [0x80] then List.replicate 32 2 else List.replicate 32 0
def T2 : TrieSt := { tree := t2, root := hashOf H2 t2, prune := false }
/-- the database holds the root node; the body of `c2` is withheld -/
def s2 : OpSt :=
  { store := { base := [(hashOf H2 t2, enc H2 t2)], cache := none, failAfter := none }, counts := [], pending := [] }

theorem H2_len (b : Bytes) : (H2 b).length = 32 := by
  unfold H2
  split
  · rfl
  · split <;> rfl

theorem opWrites2 : opWrites (stdHashing H2) T2 [] (some [9]) = [(X, R')] := by decide +kernel

theorem partialC2 (i : Nib) : PartialC H2 s2.store.base (ch2 i) ∧ PartialD H2 s2.store.base (ch2 i) := by
  unfold ch2 upd
  split
  · refine ⟨fun _ => ⟨by decide +kernel, fun b hb => ?_, ?_⟩, trivial⟩
    · have e : lookup s2.store.base (hashOf H2 c2) = none := by decide +kernel
      rw [e] at hb; cases hb
    · exact rlpDecode_rlp_of_length_lt _ (by decide +kernel)
  · exact ⟨fun hh => by simp [emptyCh, isHashed, isBlank] at hh, trivial⟩

/-- **the original `opSetDel_partial_preserved` (no `hold`) is false**: setting the value of the empty key in `t2`
    writes the new root under a hash that is also the hash of the untouched child `c2`, whose body the database does not
    hold — `NoClobber` sees nothing — and afterwards the database answers the hash of `c2` with the new root's body. -/
theorem opSetDel_partial_preserved_needs_hold :
    ¬ (∀ (H : Bytes → Bytes) (_ : ∀ b, (H b).length = 32) (T : TrieSt) (_ : Canon T.tree) (key : Bytes)
      (val : Option Bytes) (s : OpSt) (_ : s.store.cache = none)
      (_ : RootPartial H s.store.base T.root T.tree) (_ : PartialD H s.store.base T.tree)
      (_ : RefSound (stdHashing H) T.tree (nibs key))
      (_ : NoClobber s.store.base (opWrites (stdHashing H) T key val))
      (_ : isBlank (opTree (stdHashing H) T key val).1 = false →
        hashOf H (opTree (stdHashing H) T key val).1 ≠ blankRoot H)
      (_ : ∀ h b, (h, b) ∈ opWrites (stdHashing H) T key val → h ≠ blankRoot H)
      (_ : ∀ h b, (h, b) ∈ opWrites (stdHashing H) T key val → b.length < 2 ^ 64),
      (match (opSetDel (stdHashing H) (blankRoot H) T key val s).2 with
       | .ok T' => RootPartial H (opSetDel (stdHashing H) (blankRoot H) T key val s).1.store.base T'.root T'.tree ∧
                   PartialD H (opSetDel (stdHashing H) (blankRoot H) T key val s).1.store.base T'.tree
       | .error _ => RootPartial H (opSetDel (stdHashing H) (blankRoot H) T key val s).1.store.base T.root T.tree ∧
                     PartialD H (opSetDel (stdHashing H) (blankRoot H) T key val s).1.store.base T.tree)) := by
  intro hAll
  have hcanon : Canon T2.tree := by
    refine ⟨fun i => ?_, by decide +kernel⟩
    show Canon (ch2 i)
    unfold ch2 upd
    split
    · show (List.replicate 32 (1 : UInt8)) ≠ []
      decide
    · trivial
  have hroot : RootPartial H2 s2.store.base T2.root T2.tree := by
    show RootPartial H2 s2.store.base (hashOf H2 t2) t2
    unfold RootPartial
    simp only [t2, isBlank, Bool.false_eq_true, if_false]
    refine ⟨trivial, by decide +kernel, fun b hb => ?_, ?_⟩
    · have e : lookup s2.store.base (hashOf H2 (branch ch2 [7])) = some (enc H2 (branch ch2 [7])) := by
        decide +kernel
      rw [e] at hb
      exact (Option.some.inj hb).symm
    · exact rlpDecode_rlp_of_length_lt _ (by decide +kernel)
  have hst : PartialD H2 s2.store.base T2.tree := fun i => partialC2 i
  have hrs : RefSound (stdHashing H2) T2.tree (nibs []) := by
    show RefSound (stdHashing H2) (branch ch2 [7]) []
    simp [RefSound]
  have hnc : NoClobber s2.store.base (opWrites (stdHashing H2) T2 [] (some [9])) := by
    rw [opWrites2]
    constructor
    · intro h b b' hm hg
      simp only [List.mem_singleton, Prod.mk.injEq] at hm
      obtain ⟨rfl, rfl⟩ := hm
      have e : Dict.get? s2.store.base X = none := by decide +kernel
      rw [e] at hg; cases hg
    · intro h b b' hm hm'
      simp only [List.mem_singleton, Prod.mk.injEq] at hm hm'
      rw [hm.2, hm'.2]
  have hblank : isBlank (opTree (stdHashing H2) T2 [] (some [9])).1 = false →
      hashOf H2 (opTree (stdHashing H2) T2 [] (some [9])).1 ≠ blankRoot H2 := fun _ => by decide +kernel
  have hbk : ∀ h b, (h, b) ∈ opWrites (stdHashing H2) T2 [] (some [9]) → h ≠ blankRoot H2 := by
    rw [opWrites2]
    intro h b hm
    simp only [List.mem_singleton, Prod.mk.injEq] at hm
    rw [hm.1]
    decide +kernel
  have hsm : ∀ h b, (h, b) ∈ opWrites (stdHashing H2) T2 [] (some [9]) → b.length < 2 ^ 64 := by
    rw [opWrites2]
    intro h b hm
    simp only [List.mem_singleton, Prod.mk.injEq] at hm
    rw [hm.2]
    decide +kernel
  have h := hAll H2 H2_len T2 hcanon [] (some [9]) s2 rfl hroot hst hrs hnc hblank hbk hsm
  -- what the exit database answers for the hash of `c2`
  have hl : lookup (opSetDel (stdHashing H2) (blankRoot H2) T2 [] (some [9]) s2).1.store.base (hashOf H2 c2) =
      some R' := by decide +kernel
  have hh : isHashed H2 c2 = true := by decide +kernel
  have hne : R' ≠ enc H2 c2 := by decide +kernel
  -- the child `c2` sits below nibble 2 of the old and of the new tree
  have hbad : ∀ v : Bytes,
      ¬ PartialD H2 (opSetDel (stdHashing H2) (blankRoot H2) T2 [] (some [9]) s2).1.store.base (branch ch2 v) := by
    intro v hP
    have hc : PartialC H2 (opSetDel (stdHashing H2) (blankRoot H2) T2 [] (some [9]) s2).1.store.base c2 := (hP 2).1
    exact hne ((hc hh).2.1 R' hl)
  split at h
  · next T' hok =>
    have hT' := opSetDel_ok_shape (stdHashing H2) (blankRoot H2) T2 [] (some [9]) s2 T' hok
    subst hT'
    exact hbad [9] h.2
  · exact hbad [7] h.2

end PyTrie.HexFree.Cex
