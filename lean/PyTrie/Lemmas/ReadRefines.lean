import PyTrie.Model.HexRead
import PyTrie.Lemmas.RawRefines
import PyTrie.Lemmas.HexTravProofs
import PyTrie.Lemmas.ReadRefinesAux
/-! The raw-level read path (`Model/HexRead.lean`: `annotate_node`, `_make_simulated_node`, `traverse` /
    `traverse_from`, `_get_proof` over raw nodes and a database of rlp bytes) agrees with the tree level on the
    raw encoding of a canonical tree whose hashed subtrees are stored (`HexRaw.StoredD`). -/
namespace PyTrie.HexD
open PyTrie.Hex PyTrie.Hex.Node PyTrie.HexRaw

variable (H : Bytes → Bytes)

/-- a tree-level annotation seen at raw level -/
def Ann.toD (a : Ann) : AnnD := ⟨a.subs, a.value, a.suffix, toItem H a.raw, a.kind⟩

/-- Without an assumption on the hash function `annotate_node` on the raw encoding does NOT agree with the
    tree level: with the degenerate `H = fun _ => []` a hashed child is referenced by `b""`, which is falsy,
    so the raw branch shows no sub-segment for it. -/
theorem annotateD_toItem_needs_hlen :
    ∃ (H : Bytes → Bytes) (n : Node), annotateD (toItem H n) ≠ some (Ann.toD H (annotate n)) := by
  refine ⟨fun _ => [], branch (fun i => if i = 0 then leaf [] (List.replicate 40 0) else blank) [], ?_⟩
  intro h
  have h2 := congrArg (fun o => o.map (fun a => a.subs.length)) h
  revert h2
  decide

/-- `annotate_node` on the raw encoding of a node -/
theorem annotateD_toItem (hlen : ∀ b, (H b).length = 32) (n : Node) :
    annotateD (toItem H n) = some (Ann.toD H (annotate n)) := by
  cases n with
  | blank => simp only [annotateD, classify_blank]; rfl
  | leaf p v => simp only [annotateD, classify_leaf]; rfl
  | ext p c => simp only [annotateD, classify_ext]; rfl
  | branch ch v =>
    simp only [annotateD, classify_branch, subs_brItems H hlen, brItems_getD_16]
    rfl

theorem no_pair_of_17 {α : Type} (l : List Item) (h : l.length = 17) (f : Item → α) :
    (match Item.list l with
      | .list [_, v] => some (f v)
      | _ => none) = none := by
  split
  · next heq => cases heq; simp at h
  · rfl

/-- `_make_simulated_node` commutes with the encoding, on the annotation of any node -/
theorem simulateD_annotate (n : Node) (tail : Path) :
    simulateD (Ann.toD H (annotate n)) tail = (simulate (annotate n) tail).map (Ann.toD H) := by
  cases n with
  | blank =>
    simp only [simulateD, simulate, annotate, Ann.toD, rewrapLeaf, toItem]
    by_cases h : tail <+: [] <;> simp [h]
  | leaf p v =>
    simp only [simulateD, simulate, annotate, Ann.toD, rewrapLeaf, toItem]
    by_cases h : tail <+: p <;> simp [h, toItem, Ann.toD]
  | ext p c =>
    simp only [simulateD, simulate, annotate, Ann.toD, rewrapExt, toItem]
    by_cases h : tail <+: p
    · by_cases h2 : tail.length = p.length <;> simp [h, h2, toItem, Ann.toD]
    · simp [h]
  | branch ch v =>
    have hl := brItems_length H ch v
    simp only [simulateD, simulate, annotate, Ann.toD, rewrapLeaf, rewrapExt, toItem_branch]
    generalize (liveIdx ch).map (fun i => [i]) = s
    generalize brItems H ch v = l at hl
    rcases l with _ | ⟨x, _ | ⟨y, _ | ⟨z, l⟩⟩⟩
    · simp at hl
    · simp at hl
    · simp at hl
    rcases s with _ | ⟨e, _ | ⟨e2, s⟩⟩
    · by_cases h : tail <+: [] <;> simp [h]
    · by_cases h : tail <+: e
      · by_cases h2 : tail.length = e.length <;> simp [h, h2]
      · simp [h]
    · simp

/-- `_make_simulated_node` commutes with the encoding -/
theorem simulateD_toD (a : Ann) (tail : Path) (hk : a.kind = .leaf ∨ a.kind = .ext)
    (hraw : ∃ n, a = annotate n) :
    simulateD (Ann.toD H a) tail = (simulate a tail).map (Ann.toD H) := by
  obtain ⟨n, rfl⟩ := hraw
  exact simulateD_annotate H n tail

def TravOut.toD : TravOut → TravOutD
  | .node a => .node (Ann.toD H a)
  | .partialPath tr a tail sim => .partialPath tr (Ann.toD H a) tail (sim.map (Ann.toD H))

/-- `traverse_from(node, path)` at raw level = `traverseOut` on the tree, for a stored canonical tree -/
theorem traverseOutD_refines (hlen : ∀ b, (H b).length = 32) (t : Node) (hc : Canon t) (db : Db) (hst : StoredD H db t)
    (p : Path) (fuel : Nat) (hf : p.length < fuel) :
    ∃ r, traverseOutD H db fuel (toItem H t) p = .ok r ∧
      match r, traverseOut t p with
      | .node a, .node b => a.subs = b.subs ∧ a.value = b.value ∧ a.suffix = b.suffix ∧ a.kind = b.kind ∧ a.raw = toItem H b.raw
      | .partialPath tr a tail sim, .partialPath tr' b tail' sim' =>
        tr = tr' ∧ tail = tail' ∧ a.subs = b.subs ∧ a.value = b.value ∧ a.suffix = b.suffix ∧ a.raw = toItem H b.raw ∧
        (match sim, sim' with
          | some x, some y => x.subs = y.subs ∧ x.value = y.value ∧ x.suffix = y.suffix ∧ x.raw = toItem H y.raw
          | none, none => True
          | _, _ => False)
      | _, _ => False := by
  have htr := trav_okD H hlen db t hc hst p fuel [] (by omega)
  unfold traverseOutD traverseOut
  rw [htr]
  generalize traverseT t p = r
  obtain ⟨n, rem⟩ := r
  simp only [annotateD_toItem H hlen]
  by_cases hrem : rem = []
  · simp only [hrem, ↓reduceIte]
    exact ⟨_, rfl, by simp [Ann.toD]⟩
  · simp only [hrem, ↓reduceIte]
    refine ⟨_, rfl, ?_⟩
    simp only [simulateD_annotate]
    refine ⟨trivial, trivial, rfl, rfl, rfl, rfl, ?_⟩
    cases simulate (annotate n) rem with
    | none => trivial
    | some y => exact ⟨rfl, rfl, rfl, rfl⟩

theorem getProofD_ok (hlen : ∀ b, (H b).length = 32) (db : Db) (t : Node) :
    Canon t → StoredD H db t → ∀ (k : Path) (fuel : Nat), k.length < fuel →
    getProofD H db fuel (toItem H t) k = .ok ((getProof t k).map (toItem H)) := by
  induction t with
  | blank =>
    intro _ _ k fuel hf
    cases fuel with
    | zero => omega
    | succ fuel => simp only [getProofD, classify_blank, getProof, List.map_nil]
  | leaf p v =>
    intro _ _ k fuel hf
    cases fuel with
    | zero => omega
    | succ fuel => simp only [getProofD, classify_leaf, getProof, List.map_cons, List.map_nil]
  | ext p c ih =>
    intro hc hst k fuel hf
    obtain ⟨hpne, hbr, hcc⟩ := hc
    obtain ⟨hsc, hsd⟩ := hst
    cases fuel with
    | zero => omega
    | succ fuel =>
      simp only [getProofD, classify_ext, getProof]
      by_cases hpre : p <+: k
      · have hlp : 0 < p.length := List.length_pos_iff.2 hpne
        have hle := hpre.length_le
        simp only [hpre, ↓reduceIte, fetch_storedC H hlen db c _ hsc]
        rw [ih hcc hsd (k.drop p.length) fuel (by simp; omega)]
        rfl
      · simp only [hpre, ↓reduceIte, List.map_cons, List.map_nil]
  | branch ch v ih =>
    intro hc hst k fuel hf
    cases fuel with
    | zero => omega
    | succ fuel =>
      cases k with
      | nil => simp only [getProofD, classify_branch, getProof, List.map_cons, List.map_nil]
      | cons a rest =>
        simp only [getProofD, classify_branch, getProof, brItems_getD,
          fetch_storedC H hlen db (ch a) _ (hst a).1]
        rw [ih a (hc.1 a) (hst a).2 rest fuel (by simpa using hf)]
        rfl

/-- `_get_proof` at raw level = the tree-level proof, node for node -/
theorem getProofD_refines (hlen : ∀ b, (H b).length = 32) (t : Node) (hc : Canon t) (db : Db) (hst : StoredD H db t)
    (k : Path) (fuel : Nat) (hf : k.length + 1 < fuel) :
    getProofD H db fuel (toItem H t) k = .ok ((getProof t k).map (toItem H)) :=
  getProofD_ok H hlen db t hc hst k fuel (by omega)

end PyTrie.HexD
