import PyTrie.Lemmas.BinOps
/-! delete and delete_subtrie on nodes, under `WF`. -/
namespace PyTrie.Bin
open BNode

theorem bgetTop_none (k : Bits) : bgetTop none k = none := rfl
theorem bgetTop_some (n : BNode) (k : Bits) : bgetTop (some n) k = bget n k := rfl

/-- a successful delete removes exactly key `k` -/
theorem bget_bset_delete (t : BNode) (ht : WF t) (k : Bits) (t' : Option BNode)
    (h : bset t k [] false = .ok t') (k' : Bits) :
    bgetTop t' k' = if k' = k then none else bget t k' := by
  induction t generalizing k t' k' with
  | leaf x =>
    simp only [bset] at h
    split at h
    · cases h
    · next hk =>
      have hk : k = [] := by simpa using hk
      subst hk
      simp at h
      subst h
      rw [bgetTop_none, bget_leaf]
      split <;> simp_all
  | kv p c ih =>
    obtain ⟨hp, hc⟩ := ht
    simp only [bset] at h
    split at h
    · simp at h
    · next hk =>
      simp only [Bool.false_eq_true, false_and, ↓reduceIte] at h
      split at h
      · next hpre =>
        obtain ⟨kr, rfl⟩ := hpre
        simp only [List.drop_left] at h
        split at h
        · cases h
        · next heq =>
          cases h
          have hi := ih hc kr none heq
          rw [bgetTop_none]
          split
          · rfl
          · next hne =>
            rw [bget_kv]
            split
            · rfl
            · split
              · next hpre' =>
                obtain ⟨r, rfl⟩ := hpre'
                have := hi r
                rw [bgetTop_none, if_neg (by simpa using hne)] at this
                simpa using this
              · rfl
        · next s hs =>
          cases h
          have hws := wf_bset c kr [] false hc s hs
          rw [bgetTop_some, bget_mkKv p s hws, bget_kv, bget_kv]
          by_cases hk' : k' = []
          · subst hk'; simp
          · simp only [hk', ↓reduceIte]
            by_cases hpre' : p <+: k'
            · obtain ⟨r, rfl⟩ := hpre'
              have := ih hc kr (some s) hs r
              rw [bgetTop_some] at this
              simp [this]
            · have : k' ≠ p ++ kr := fun e => hpre' (e ▸ List.prefix_append _ _)
              simp [hpre', this]
      · next hpre =>
        simp only [true_or, ↓reduceIte] at h
        cases h
        rw [bgetTop_some]
        split
        · next e => subst e; rw [bget_kv, if_neg hk, if_neg hpre]
        · rfl
  | branch l r ihl ihr =>
    obtain ⟨hl, hr⟩ := ht
    cases k with
    | nil => simp [bset] at h
    | cons b k1 =>
      simp only [bset] at h
      split at h
      · next hb =>
        subst hb
        split at h
        · cases h
        · next heq =>
          cases h
          have hi := ihl hl k1 none heq
          rw [bgetTop_some, bget_mkKv _ _ hr]
          cases k' with
          | nil => simp [bget_kv, bget_branch_nil]
          | cons b' k2 =>
            rw [bget_kv, bget_branch_cons]
            have := hi k2
            rw [bgetTop_none] at this
            cases b' <;> simp [← this]
        · next nl hnl =>
          cases h
          have hi := ihl hl k1 (some nl) hnl
          rw [bgetTop_some]
          cases k' with
          | nil => simp [bget_branch_nil]
          | cons b' k2 =>
            have := hi k2
            rw [bgetTop_some] at this
            simp only [bget_branch_cons]
            cases b' <;> simp [this]
      · next hb =>
        have hb : b = true := by simpa using hb
        subst hb
        split at h
        · cases h
        · next heq =>
          cases h
          have hi := ihr hr k1 none heq
          rw [bgetTop_some, bget_mkKv _ _ hl]
          cases k' with
          | nil => simp [bget_kv, bget_branch_nil]
          | cons b' k2 =>
            rw [bget_kv, bget_branch_cons]
            have := hi k2
            rw [bgetTop_none] at this
            cases b' <;> simp [← this]
        · next nr hnr =>
          cases h
          have hi := ihr hr k1 (some nr) hnr
          rw [bgetTop_some]
          cases k' with
          | nil => simp [bget_branch_nil]
          | cons b' k2 =>
            have := hi k2
            rw [bgetTop_some] at this
            simp only [bget_branch_cons]
            cases b' <;> simp [this]

/-- delete is refused only for an absent key related to a stored key -/
theorem bset_delete_override (t : BNode) (ht : WF t) (k : Bits)
    (h : bset t k [] false = .error .override) :
    bget t k = none ∧ ∃ k' v', bget t k' = some v' ∧ Rel k' k := by
  induction t generalizing k with
  | leaf x =>
    simp only [bset] at h
    split at h
    · next hk =>
      have hk : k ≠ [] := by simpa using hk
      exact ⟨by simp [bget_leaf, hk], [], x, rfl, Ne.symm hk, .inl List.nil_prefix⟩
    · simp at h
  | kv p c ih =>
    obtain ⟨hp, hc⟩ := ht
    simp only [bset] at h
    split at h
    · next hk =>
      subst hk
      obtain ⟨k', v', h'⟩ := wf_exists_key (kv p c) ⟨hp, hc⟩
      exact ⟨rfl, k', v', h', ((bget_kv_some ..).1 h').1, .inr List.nil_prefix⟩
    · next hk =>
      simp only [Bool.false_eq_true, false_and, ↓reduceIte] at h
      split at h
      · next hpre =>
        obtain ⟨kr, rfl⟩ := hpre
        simp only [List.drop_left] at h
        split at h
        · next e heq =>
          cases e
          obtain ⟨h1, h2⟩ := ih hc kr heq
          refine ⟨?_, (rel_kv p c kr hp).2 h2⟩
          rw [bget_kv, if_neg hk, if_pos (List.prefix_append _ _), List.drop_left]; exact h1
        · cases h
        · cases h
      · simp at h
  | branch l r ihl ihr =>
    obtain ⟨hl, hr⟩ := ht
    cases k with
    | nil =>
      obtain ⟨k', v', h'⟩ := wf_exists_key (branch l r) ⟨hl, hr⟩
      refine ⟨rfl, k', v', h', ?_, .inr List.nil_prefix⟩
      rintro rfl; simp [bget_branch_nil] at h'
    | cons b k1 =>
      rw [rel_branch, bget_branch_cons]
      simp only [bset] at h
      split at h
      · next hb =>
        rw [if_pos hb, if_pos hb]
        split at h
        · next e heq => cases e; exact ihl hl k1 heq
        · cases h
        · cases h
      · next hb =>
        rw [if_neg hb, if_neg hb]
        split at h
        · next e heq => cases e; exact ihr hr k1 heq
        · cases h
        · cases h

end PyTrie.Bin
