import PyTrie.Lemmas.WorldComplete
import PyTrie.Lemmas.WorldPrune
import PyTrie.Lemmas.FailAfterNone
import PyTrie.Props.C01
/-! C01 at world level: after any history of `set` / `delete` through the executor (`opSetDel`:
    database traffic, pruning bookkeeping, root pointer) on an initially empty database, the lookup the
    code performs through the database (`opGet`: root fetch, `_traverse_from`'s fetches, `_get`) returns the
    map model's value and never raises — pruning on or off. Run-level hypotheses: the per-step no-collision
    predicates (`RefSound`, `NoClobber`, no node hashing to the blank root). -/
namespace PyTrie.HexW
open PyTrie.Hex hiding get set
open PyTrie.Props.C01 (Op run spec applyOp)

variable (Hs : Hashing) (blankRootHash : Hash)

def opKey : Op → Bytes
  | .set k _ => k
  | .delete k => k

def opVal : Op → Option Bytes
  | .set _ v => some v
  | .delete _ => none

/-- the world reached by applying a history to a fresh trie (`prune` on or off) over an empty plain dict,
    together with the run-level no-collision facts of every step -/
inductive ReachOps (prune : Bool) : List Op → TrieSt → OpSt → Prop where
  | init : ReachOps prune [] { tree := .blank, root := blankRootHash, prune := prune }
      { store := { base := [], cache := none, failAfter := none }, counts := [], pending := [] }
  | step (ops : List Op) (T : TrieSt) (s : OpSt) (o : Op) (T' : TrieSt) :
      ReachOps prune ops T s →
      RefSound Hs T.tree (nibs (opKey o)) →
      (isBlank (opTree Hs T (opKey o) (opVal o)).1 = false → Hs.hashOf (opTree Hs T (opKey o) (opVal o)).1 ≠ blankRootHash) →
      (prune = false → NoClobber s.store.base (opWrites Hs T (opKey o) (opVal o))) →
      (opSetDel Hs blankRootHash T (opKey o) (opVal o) s).2 = .ok T' →
      ReachOps prune (ops ++ [o]) T' (opSetDel Hs blankRootHash T (opKey o) (opVal o) s).1

/-! ### bridging lemmas: nodes on a path are stored / counted -/

theorem ref_nodeAt (d : Dict Bytes) (t : Node) (q : Path) (n : Node) (hr : Ref Hs d t)
    (hn : nodeAt t q = some n) (hh : Hs.hashed n = true) : Dict.contains d (Hs.hashOf n) = true := by
  induction t generalizing q with
  | blank =>
    cases q with
    | nil => simp only [nodeAt, Option.some.injEq] at hn; subst hn; exact contains_of_get? (hr.1 hh)
    | cons a k => simp [nodeAt] at hn
  | leaf p v =>
    cases q with
    | nil => simp only [nodeAt, Option.some.injEq] at hn; subst hn; exact contains_of_get? (hr.1 hh)
    | cons a k => simp [nodeAt] at hn
  | ext p c ih =>
    cases q with
    | nil => simp only [nodeAt, Option.some.injEq] at hn; subst hn; exact contains_of_get? (hr.1 hh)
    | cons a k =>
      simp only [nodeAt] at hn
      split at hn
      · exact ih _ hr.2 hn
      · cases hn
  | branch ch v ih =>
    cases q with
    | nil => simp only [nodeAt, Option.some.injEq] at hn; subst hn; exact contains_of_get? (hr.1 hh)
    | cons a k =>
      simp only [nodeAt] at hn
      exact ih a k (hr.2 a) hn

/-- (a) every hashed node strictly below the root of a tree whose subtrees are stored is in the database -/
theorem storedBelow_nodeAt (d : Dict Bytes) (t : Node) (q : Path) (n : Node) (hs : StoredBelow Hs d t)
    (hn : nodeAt t q = some n) (hq : q ≠ []) (hh : Hs.hashed n = true) :
    Dict.contains d (Hs.hashOf n) = true := by
  cases q with
  | nil => exact absurd rfl hq
  | cons a k =>
    cases t with
    | blank => simp [nodeAt] at hn
    | leaf p v => simp [nodeAt] at hn
    | ext p c =>
      simp only [nodeAt] at hn
      split at hn
      · exact ref_nodeAt Hs d c _ n hs hn hh
      · cases hn
    | branch ch v =>
      simp only [nodeAt] at hn
      exact ref_nodeAt Hs d (ch a) k n (hs a) hn hh

theorem occ_nodeAt (t : Node) (q : Path) (n : Node)
    (hn : nodeAt t q = some n) (hh : Hs.hashed n = true) : 0 < occ Hs t (Hs.hashOf n) := by
  induction t generalizing q with
  | blank =>
    cases q with
    | nil => simp only [nodeAt, Option.some.injEq] at hn; subst hn; exact occ_pos_of_hashed Hs hh
    | cons a k => simp [nodeAt] at hn
  | leaf p v =>
    cases q with
    | nil => simp only [nodeAt, Option.some.injEq] at hn; subst hn; exact occ_pos_of_hashed Hs hh
    | cons a k => simp [nodeAt] at hn
  | ext p c ih =>
    cases q with
    | nil => simp only [nodeAt, Option.some.injEq] at hn; subst hn; exact occ_pos_of_hashed Hs hh
    | cons a k =>
      simp only [nodeAt] at hn
      split at hn
      · have := ih _ hn
        simp only [occ]; omega
      · cases hn
  | branch ch v ih =>
    cases q with
    | nil => simp only [nodeAt, Option.some.injEq] at hn; subst hn; exact occ_pos_of_hashed Hs hh
    | cons a k =>
      simp only [nodeAt] at hn
      have h1 := ih a k hn
      have h2 := le_sumCh (fun i => occ Hs (ch i) (Hs.hashOf n)) a
      simp only [occ]; omega

/-- (b) every hashed node strictly below the root is counted by `occProper` -/
theorem occProper_nodeAt (t : Node) (q : Path) (n : Node)
    (hn : nodeAt t q = some n) (hq : q ≠ []) (hh : Hs.hashed n = true) :
    0 < occProper Hs t (Hs.hashOf n) := by
  cases q with
  | nil => exact absurd rfl hq
  | cons a k =>
    cases t with
    | blank => simp [nodeAt] at hn
    | leaf p v => simp [nodeAt] at hn
    | ext p c =>
      simp only [nodeAt] at hn
      split at hn
      · simp only [occProper]; exact occ_nodeAt Hs c _ n hn hh
      · cases hn
    | branch ch v =>
      simp only [nodeAt] at hn
      have h1 := occ_nodeAt Hs (ch a) k n hn hh
      have h2 := le_sumCh (fun i => occ Hs (ch i) (Hs.hashOf n)) a
      simp only [occProper]; omega

/-! ### the invariant of a history -/

/-- what holds of the world after a history: the tree is the tree-level run, the database is a plain dict
    without injected faults, and the database invariant of the trie's mode holds -/
def Inv (prune : Bool) (ops : List Op) (T : TrieSt) (s : OpSt) : Prop :=
  T.tree = run ops ∧ T.prune = prune ∧ s.store.cache = none ∧ s.store.failAfter = none ∧
  (if prune = true then PruneInv Hs blankRootHash T s else Complete Hs blankRootHash s.store.base T)

theorem run_snoc (ops : List Op) (o : Op) : run (ops ++ [o]) = applyOp (run ops) o := by
  simp [run, List.foldl_append]

theorem inv_init (prune : Bool) :
    Inv Hs blankRootHash prune [] { tree := .blank, root := blankRootHash, prune := prune }
      { store := { base := [], cache := none, failAfter := none }, counts := [], pending := [] } := by
  refine ⟨rfl, rfl, rfl, rfl, ?_⟩
  cases prune
  · simp only [Bool.false_eq_true, if_false]
    exact ⟨by simp [isBlank], trivial⟩
  · simp only [if_true]
    exact pruneInv_init Hs blankRootHash

theorem inv_step (prune : Bool) (ops : List Op) (T : TrieSt) (s : OpSt)
    (hinv : Inv Hs blankRootHash prune ops T s) (o : Op)
    (hrs : RefSound Hs T.tree (nibs (opKey o)))
    (hbl : isBlank (opTree Hs T (opKey o) (opVal o)).1 = false → Hs.hashOf (opTree Hs T (opKey o) (opVal o)).1 ≠ blankRootHash)
    (hnc : prune = false → NoClobber s.store.base (opWrites Hs T (opKey o) (opVal o))) :
    ∃ T', (opSetDel Hs blankRootHash T (opKey o) (opVal o) s).2 = .ok T' ∧
      Inv Hs blankRootHash prune (ops ++ [o]) T' (opSetDel Hs blankRootHash T (opKey o) (opVal o) s).1 := by
  obtain ⟨htree, hprune, hcache, hfa, hdb⟩ := hinv
  have hcanon : Canon T.tree := htree ▸ PyTrie.Props.C01.canon_run ops
  have hfa' := failAfter_none_preserved Hs blankRootHash T (opKey o) (opVal o) s hfa
  cases prune with
  | false =>
    simp only [Bool.false_eq_true, if_false] at hdb
    obtain ⟨T', hok, ht, hp', _, hcomp⟩ := opSetDel_complete Hs blankRootHash T hprune hcanon (opKey o) (opVal o) s
      hcache hfa hdb hrs (hnc rfl) hbl
    have hc' := (opSetDel_noprune_db Hs blankRootHash T hprune (opKey o) (opVal o) s hcache).1
    refine ⟨T', hok, ?_, hp', hc', hfa', ?_⟩
    · have ht' : T'.tree = applyOp T.tree o := by cases o <;> exact ht
      rw [ht', run_snoc, htree]
    · simp only [Bool.false_eq_true, if_false]; exact hcomp
  | true =>
    simp only [if_true] at hdb
    obtain ⟨T', hok, ht, hpi⟩ := opSetDel_pruneInv Hs blankRootHash T hcanon (opKey o) (opVal o) s hfa hdb hrs hbl
    refine ⟨T', hok, ?_, hpi.prune, hpi.plain, hfa', ?_⟩
    · have ht' : T'.tree = applyOp T.tree o := by cases o <;> exact ht
      rw [ht', run_snoc, htree]
    · simp only [if_true]; exact hpi

theorem reachOps_inv (prune : Bool) (ops : List Op) (T : TrieSt) (s : OpSt)
    (h : ReachOps Hs blankRootHash prune ops T s) : Inv Hs blankRootHash prune ops T s := by
  induction h with
  | init => exact inv_init Hs blankRootHash prune
  | step ops T s o T' _ hrs hbl hnc hok ih =>
    obtain ⟨T'', hok', hinv⟩ := inv_step Hs blankRootHash prune ops T s ih o hrs hbl hnc
    rw [hok] at hok'
    cases hok'
    exact hinv

/-- after a history every fetch of a lookup finds its node -/
theorem inv_reads_present (prune : Bool) (ops : List Op) (T : TrieSt) (s : OpSt)
    (hinv : Inv Hs blankRootHash prune ops T s) (q : Path) (n : Node)
    (hn : nodeAt T.tree q = some n) (hq : q ≠ []) (hh : Hs.hashed n = true) :
    s.store.contains (Hs.hashOf n) = true := by
  obtain ⟨_, _, hcache, _, hdb⟩ := hinv
  rw [Store.contains_plain _ hcache]
  cases prune with
  | false =>
    simp only [Bool.false_eq_true, if_false] at hdb
    exact storedBelow_nodeAt Hs _ _ q n hdb.2 hn hq hh
  | true =>
    simp only [if_true] at hdb
    rw [hdb.keys]
    have := occProper_nodeAt Hs _ q n hn hq hh
    unfold occRoot; omega

theorem inv_root_present (prune : Bool) (ops : List Op) (T : TrieSt) (s : OpSt)
    (hinv : Inv Hs blankRootHash prune ops T s) :
    (T.root != blankRootHash && !(s.store.contains T.root)) = false := by
  obtain ⟨_, _, hcache, _, hdb⟩ := hinv
  rw [Store.contains_plain _ hcache]
  cases prune with
  | false =>
    simp only [Bool.false_eq_true, if_false] at hdb
    have h1 := hdb.1
    by_cases hb : isBlank T.tree = true
    · simp only [hb, if_true] at h1; simp [h1]
    · simp only [hb] at h1
      simp [contains_of_get? h1.2.2]
  | true =>
    simp only [if_true] at hdb
    have h1 := hdb.root
    cases hb : isBlank T.tree
    · rw [hb] at h1
      simp only [Bool.false_eq_true, if_false] at h1
      have : Dict.contains s.store.base T.root = true := by
        rw [hdb.keys, h1.1]; simp [occRoot, hb]
      simp [this]
    · rw [hb] at h1
      simp only [if_true] at h1
      simp [h1]

/-- the executor computes the tree-level history -/
theorem reachOps_tree (prune : Bool) (ops : List Op) (T : TrieSt) (s : OpSt)
    (h : ReachOps Hs blankRootHash prune ops T s) : T.tree = run ops ∧ T.prune = prune := by
  have hi := reachOps_inv Hs blankRootHash prune ops T s h
  exact ⟨hi.1, hi.2.1⟩

/-- no step of such a history raises: every `set` / `delete` returns normally -/
theorem reachOps_progress (prune : Bool) (ops : List Op) (T : TrieSt) (s : OpSt)
    (h : ReachOps Hs blankRootHash prune ops T s) (o : Op)
    (hrs : RefSound Hs T.tree (nibs (opKey o)))
    (hbl : isBlank (opTree Hs T (opKey o) (opVal o)).1 = false → Hs.hashOf (opTree Hs T (opKey o) (opVal o)).1 ≠ blankRootHash)
    (hnc : prune = false → NoClobber s.store.base (opWrites Hs T (opKey o) (opVal o))) :
    ∃ T', (opSetDel Hs blankRootHash T (opKey o) (opVal o) s).2 = .ok T' := by
  obtain ⟨T', hok, _⟩ := inv_step Hs blankRootHash prune ops T s
    (reachOps_inv Hs blankRootHash prune ops T s h) o hrs hbl hnc
  exact ⟨T', hok⟩

/-- **C01 through the database**: `get(k)` after any history returns the last value stored under `k`
    (`b""` otherwise) and never raises — every byte-string key, pruning on or off -/
theorem reachOps_get (prune : Bool) (ops : List Op) (T : TrieSt) (s : OpSt)
    (h : ReachOps Hs blankRootHash prune ops T s) (key : Bytes) :
    opGet Hs blankRootHash T key s = .ok (spec ops key) := by
  have hinv := reachOps_inv Hs blankRootHash prune ops T s h
  have htree : T.tree = run ops := hinv.1
  have hcanon : Canon T.tree := htree ▸ PyTrie.Props.C01.canon_run ops
  have hroot := inv_root_present Hs blankRootHash prune ops T s hinv
  have hfind : (traverseReads Hs T.tree (nibs key) []).find? (fun e => !(s.store.contains e.1)) = none := by
    rw [List.find?_eq_none]
    intro e he
    obtain ⟨h', used⟩ := e
    obtain ⟨q, n, _, _, hq, hn, hh, hh2⟩ := traverseReads_on_path Hs _ hcanon _ _ _ _ he
    have := inv_reads_present Hs blankRootHash prune ops T s hinv q n hn hq hh
    rw [hh2] at this
    simp [this]
  unfold opGet
  rw [hroot, hfind]
  simp only [Bool.false_eq_true, if_false]
  rw [getT_eq_get T.tree hcanon (nibs key), htree, PyTrie.Props.C01.run_get]

end PyTrie.HexW
