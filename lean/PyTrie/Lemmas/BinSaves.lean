import PyTrie.Model.Bin
/-! `bsetS`: first component is `bset`, nothing saved on raise, saves are complete. -/
namespace PyTrie.Bin
open BNode

theorem bsetS_fst (n : BNode) (k : Bits) (v : Bytes) (sub : Bool) :
    (bsetS n k v sub).1 = bset n k v sub := by
  induction n generalizing k with
  | leaf x =>
    simp only [bsetS, bset]
    split
    · rfl
    · split
      · rfl
      · split <;> rfl
  | kv p c ih =>
    simp only [bsetS, bset]
    split
    · split <;> rfl
    · split
      · rfl
      · split
        · rw [← ih]
          rcases bsetS c (k.drop p.length) v sub with ⟨r, s⟩
          rcases r with e | o
          · rfl
          · cases o <;> rfl
        · split
          · rfl
          · split
            · rfl
            · split <;> rfl
  | branch l r ihl ihr =>
    cases k with
    | nil => simp only [bsetS, bset]; split <;> rfl
    | cons b k1 =>
      simp only [bsetS, bset]
      split
      · rw [← ihl]
        rcases bsetS l k1 v sub with ⟨r, s⟩
        rcases r with e | o
        · rfl
        · cases o <;> rfl
      · rw [← ihr]
        rcases bsetS r k1 v sub with ⟨r, s⟩
        rcases r with e | o
        · rfl
        · cases o <;> rfl

theorem bsetS_raise (n : BNode) (k : Bits) (v : Bytes) (sub : Bool) (e : Err)
    (h : (bsetS n k v sub).1 = .error e) : (bsetS n k v sub).2 = [] := by
  induction n generalizing k with
  | leaf x =>
    simp only [bsetS] at h ⊢
    split
    · rfl
    · split
      · rfl
      · rw [if_neg ‹_›, if_neg ‹_›] at h
        split at h <;> cases h
  | kv p c ih =>
    simp only [bsetS] at h ⊢
    split
    · split <;> rfl
    · split
      · rfl
      · rw [if_neg ‹_›, if_neg ‹_›] at h
        split
        · rw [if_pos ‹_›] at h
          have := ih (k.drop p.length)
          rcases hr : bsetS c (k.drop p.length) v sub with ⟨r, s⟩
          rw [hr] at h this
          rcases r with e' | o
          · exact this rfl
          · cases o <;> cases h
        · rw [if_neg ‹_›] at h
          split
          · rfl
          · split
            · rfl
            · rw [if_neg ‹_›, if_neg ‹_›] at h
              split at h <;> cases h
  | branch l r ihl ihr =>
    cases k with
    | nil => simp only [bsetS]; split <;> rfl
    | cons b k1 =>
      simp only [bsetS] at h ⊢
      split
      · rw [if_pos ‹_›] at h
        have := ihl k1
        rcases hr : bsetS l k1 v sub with ⟨r, s⟩
        rw [hr] at h this
        rcases r with e' | o
        · exact this rfl
        · cases o <;> cases h
      · rw [if_neg ‹_›] at h
        have := ihr k1
        rcases hr : bsetS r k1 v sub with ⟨r', s⟩
        rw [hr] at h this
        rcases r' with e' | o
        · exact this rfl
        · cases o <;> cases h


theorem self_mem_trieNodes (n : BNode) : n ∈ trieNodes n := by
  cases n <;> simp [trieNodes]

theorem mem_trieNodes_mkKv (p : Bits) (s x : BNode) (h : x ∈ trieNodes (mkKv p s)) :
    x = mkKv p s ∨ x ∈ trieNodes s := by
  cases s with
  | leaf v => simpa [mkKv, trieNodes] using h
  | branch l r => simpa [mkKv, trieNodes] using h
  | kv p2 c2 =>
    simp only [mkKv, trieNodes, List.mem_cons] at h ⊢
    rcases h with h | h
    · exact .inl h
    · exact .inr (.inr h)

theorem split_complete (p k : Bits) (c : BNode) (v : Bytes) (n : Nat) (x : BNode)
    (hx : x ∈ trieNodes (if (k.drop n).head? = some true then
        branch (if p.length = n + 1 then c else kv (p.drop (n + 1)) c)
          (if k.length = n + 1 then leaf v else kv (k.drop (n + 1)) (leaf v))
      else branch (if k.length = n + 1 then leaf v else kv (k.drop (n + 1)) (leaf v))
          (if p.length = n + 1 then c else kv (p.drop (n + 1)) c))) :
    x ∈ (if k.length = n + 1 then [leaf v] else [leaf v, kv (k.drop (n + 1)) (leaf v)]) ++
        (if p.length = n + 1 then [] else [kv (p.drop (n + 1)) c]) ++
        [if (k.drop n).head? = some true then
        branch (if p.length = n + 1 then c else kv (p.drop (n + 1)) c)
          (if k.length = n + 1 then leaf v else kv (k.drop (n + 1)) (leaf v))
      else branch (if k.length = n + 1 then leaf v else kv (k.drop (n + 1)) (leaf v))
          (if p.length = n + 1 then c else kv (p.drop (n + 1)) c)] ∨ x ∈ trieNodes c := by
  split at hx <;> split at hx <;> split at hx <;>
    simp_all [trieNodes] <;> grind

theorem bsetS_complete' (n : BNode) (k : Bits) (v : Bytes) (sub : Bool) (n' : BNode) (s : List BNode)
    (h : bsetS n k v sub = (.ok (some n'), s)) (x : BNode) (hx : x ∈ trieNodes n') :
    x ∈ s ∨ x ∈ trieNodes n := by
  induction n generalizing k n' s x with
  | leaf y =>
    simp only [bsetS] at h
    split at h
    · cases h
    · split at h
      · cases h
      · split at h
        · cases h; exact .inl hx
        · cases h
  | kv p c ih =>
    simp only [bsetS] at h
    split at h
    · split at h <;> cases h
    · split at h
      · cases h
      · split at h
        · rcases hr : bsetS c (k.drop p.length) v sub with ⟨r, s'⟩
          rw [hr] at h
          rcases r with e | o
          · cases h
          · cases o with
            | none => cases h
            | some y =>
              cases h
              rcases mem_trieNodes_mkKv _ _ _ hx with h1 | h1
              · exact .inl (by simp [h1])
              · rcases ih _ _ _ hr x h1 with h2 | h2
                · exact .inl (by simp [h2])
                · exact .inr (by simp [trieNodes, h2])
        · split at h
          · cases h; exact .inr hx
          · split at h
            · cases h
            · split at h
              · cases h
                rcases split_complete p k c v _ x hx with h1 | h1
                · exact .inl h1
                · exact .inr (by simp [trieNodes, h1])
              · cases h
                simp only [trieNodes, List.mem_cons] at hx
                rcases hx with hx | hx
                · exact .inl (by simp [hx])
                · rcases split_complete p k c v _ x hx with h1 | h1
                  · refine .inl ?_
                    simp only [List.mem_append, List.mem_cons] at h1 ⊢
                    rcases h1 with h1 | h1
                    · exact .inl h1
                    · rcases h1 with h1 | h1
                      · exact .inr (.inl h1)
                      · cases h1
                  · exact .inr (by simp [trieNodes, h1])
  | branch l r ihl ihr =>
    cases k with
    | nil => simp only [bsetS] at h; split at h <;> cases h
    | cons b k1 =>
      simp only [bsetS] at h
      split at h
      · rcases hr : bsetS l k1 v sub with ⟨r', s'⟩
        rw [hr] at h
        rcases r' with e | o
        · cases h
        · cases o with
          | none =>
            cases h
            rcases mem_trieNodes_mkKv _ _ _ hx with h1 | h1
            · exact .inl (by simp [h1])
            · exact .inr (by simp [trieNodes, h1])
          | some y =>
            cases h
            simp only [trieNodes, List.mem_cons, List.mem_append] at hx
            rcases hx with hx | hx | hx
            · exact .inl (by simp [hx])
            · rcases ihl _ _ _ hr x hx with h2 | h2
              · exact .inl (by simp [h2])
              · exact .inr (by simp [trieNodes, h2])
            · exact .inr (by simp [trieNodes, hx])
      · rcases hr : bsetS r k1 v sub with ⟨r', s'⟩
        rw [hr] at h
        rcases r' with e | o
        · cases h
        · cases o with
          | none =>
            cases h
            rcases mem_trieNodes_mkKv _ _ _ hx with h1 | h1
            · exact .inl (by simp [h1])
            · exact .inr (by simp [trieNodes, h1])
          | some y =>
            cases h
            simp only [trieNodes, List.mem_cons, List.mem_append] at hx
            rcases hx with hx | hx | hx
            · exact .inl (by simp [hx])
            · exact .inr (by simp [trieNodes, hx])
            · rcases ihr _ _ _ hr x hx with h2 | h2
              · exact .inl (by simp [h2])
              · exact .inr (by simp [trieNodes, h2])

theorem bsetS_complete (n : BNode) (k : Bits) (v : Bytes) (sub : Bool) (n' : BNode)
    (h : (bsetS n k v sub).1 = .ok (some n')) (x : BNode) (hx : x ∈ trieNodes n') :
    x ∈ (bsetS n k v sub).2 ∨ x ∈ trieNodes n :=
  bsetS_complete' n k v sub n' _ (by rw [← h]) x hx

end PyTrie.Bin
