import PyTrie.Lemmas.FreeExec
import PyTrie.Lemmas.StoreView
import PyTrie.Lemmas.CacheNoDupPres
/-! **The tree-free executor over a `ScratchDB`** (the batch trie of `squash_changes`). `storeDb st` is what the trie can
    read through its database object: the buffered writes in front of the wrapped dict. When that view is complete for
    the trie's root, the tree-free `set` / `delete` over any store — plain or `ScratchDB` — returns exactly the exit
    state, root and exception of the tree-carrying executor; and the tree-free world (`FWorld`: one outer trie, one open
    block) moves in lockstep with the tree-carrying `World` through `setDel`, `batchBegin` and `batchEnd`. -/
namespace PyTrie.HexFree
open PyTrie PyTrie.Hex PyTrie.HexD PyTrie.HexW PyTrie.HexRaw PyTrie.HexRawT

variable (H : Bytes → Bytes)

theorem lookup_eq_get? (d : Dict Bytes) (h : Hash) : lookup d h = Dict.get? d h := rfl

/-- the buffered writes of a cache with unique keys, in front of a dict: first the cache entry (a buffered delete
    reads through), then the dict -/
theorem get?_cacheView (c : Dict (Option Bytes)) (base : Dict Bytes) (h : Hash) (hnd : NoDupKeys c) :
    Dict.get? ((c.filterMap fun e => e.2.map fun v => (e.1, v)) ++ base) h =
      match Dict.get? c h with
      | some (some v) => some v
      | _ => Dict.get? base h := by
  induction c with
  | nil => simp [Dict.get?]
  | cons e r ih =>
    obtain ⟨k, o⟩ := e
    unfold NoDupKeys at hnd
    rw [List.map_cons, List.nodup_cons] at hnd
    have ih' := ih hnd.2
    rw [Dict.get?_cons]
    cases hk : (k == h) with
    | false =>
      simp only [Bool.false_eq_true, if_false]
      rw [← ih']
      cases o with
      | none => simp
      | some v =>
        simp only [List.filterMap_cons, Option.map_some, List.cons_append]
        rw [Dict.get?_cons]
        simp [hk]
    | true =>
      simp only [if_true]
      cases o with
      | none =>
        simp only [List.filterMap_cons, Option.map_none]
        rw [ih']
        have hkh : k = h := by simpa using hk
        have hnc : Dict.contains r h = false := by
          cases hc : Dict.contains r h with
          | false => rfl
          | true => exact absurd ((Dict.contains_iff_mem_keys r h).1 hc) (hkh ▸ hnd.1)
        rw [Dict.get?_eq_none_of_not_contains r h hnc]
      | some v =>
        simp only [List.filterMap_cons, Option.map_some, List.cons_append]
        rw [Dict.get?_cons]
        simp [hk]

/-- reading through the database object = looking up the view (the `ScratchDB` cache has unique keys) -/
theorem lookup_storeDb (st : Store) (h : Hash) (hnd : st.CacheNoDup) : lookup (storeDb st) h = st.get? h := by
  rw [lookup_eq_get?]
  unfold storeDb Store.get?
  cases hc : st.cache with
  | none => rfl
  | some c => exact get?_cacheView c st.base h (hnd c hc)

/-- without unique cache keys the two differ: a buffered delete in front of a buffered write of the same key -/
theorem lookup_storeDb_needs_nodup : ∃ (st : Store) (h : Hash),
    lookup (storeDb st) h ≠ st.get? h ∧ st.contains h ≠ (lookup (storeDb st) h).isSome :=
  ⟨⟨[], some [([1], none), ([1], some [7])], none⟩, [1], by decide, by decide⟩

theorem contains_eq_isSome_get? (st : Store) (h : Hash) : st.contains h = (st.get? h).isSome := by
  have hb : st.base.contains h = (Dict.get? st.base h).isSome := by
    cases hc : Dict.contains st.base h with
    | false => rw [Dict.get?_eq_none_of_not_contains _ _ hc]; rfl
    | true =>
      cases hg : Dict.get? st.base h with
      | some b => rfl
      | none =>
        exfalso
        simp only [Dict.get?, Option.map_eq_none_iff, List.find?_eq_none] at hg
        simp only [Dict.contains, List.any_eq_true] at hc
        obtain ⟨e, he, hh⟩ := hc
        exact hg e he hh
  unfold Store.contains Store.get?
  cases st.cache with
  | none => exact hb
  | some c =>
    simp only []
    cases Dict.get? c h with
    | none => exact hb
    | some o =>
      cases o with
      | none => exact hb
      | some v => rfl

theorem contains_storeDb (st : Store) (h : Hash) (hnd : st.CacheNoDup) :
    st.contains h = (lookup (storeDb st) h).isSome := by
  rw [lookup_storeDb st h hnd, contains_eq_isSome_get?]

theorem root_check_view (T : TrieSt) (s : OpSt) (hnd : s.store.CacheNoDup)
    (hcomp : Complete (stdHashing H) (blankRoot H) (storeDb s.store) T) :
    (T.root != blankRoot H && !(s.store.contains T.root)) = false := by
  have h1 := hcomp.1
  by_cases hb : isBlank T.tree = true
  · simp only [hb, if_true] at h1; simp [h1]
  · simp only [hb] at h1
    have : s.store.contains T.root = true := by
      rw [contains_storeDb s.store T.root hnd, lookup_eq_get?, h1.2.2]; rfl
    simp [this]

theorem freeCore_is_opCore_view (hlen : ∀ b, (H b).length = 32) (T : TrieSt) (hc : Canon T.tree) (key : Bytes)
    (val : Option Bytes) (s : OpSt) (hnd : s.store.CacheNoDup)
    (hcomp : Complete (stdHashing H) (blankRoot H) (storeDb s.store) T)
    (hbk : Dict.get? (storeDb s.store) (blankRoot H) = none)
    (hsm : ∀ h b, Dict.get? (storeDb s.store) h = some b → b.length < 2 ^ 64) :
    freeCore H (toFree T) key val s =
      ((opCore (stdHashing H) (blankRoot H) T key val s).1,
       match (opCore (stdHashing H) (blankRoot H) T key val s).2 with
       | .ok T' => .ok (toFree T')
       | .error e => .error e) := by
  have hag : DbAgrees (storeDb s.store) (storeDb s.store) := fun _ => rfl
  have hst : StoredD H (storeDb s.store) T.tree := storedD_of_storedBelow H hag hbk hsm T.tree hcomp.2
  obtain ⟨evs0, hroot⟩ := getNodeR_root H hlen T hag hbk hsm hcomp
  have hrootT := getNodeT_ok H _ _ _ _ hroot
  have hbody := bodyT_eq H hlen T hc key val (storeDb s.store) hst
  have hchk := root_check_view H T s hnd hcomp
  unfold freeCore opCore
  rw [if_neg (by rw [hchk]; simp)]
  have e0 : (toFree T).root = T.root := rfl
  have e1 : (toFree T).prune = T.prune := rfl
  rw [e0, e1, hrootT]
  simp only []
  rw [hbody]
  simp only []
  rcases hre : runEvs T.prune T.root key s (opTree (stdHashing H) T key val).2 with ⟨s1, _ | x⟩
  · simp only []
    rw [schedOldRootF_eq, writeRootF_eq]
    rcases hw : writeRoot (stdHashing H) (blankRoot H) T (opTree (stdHashing H) T key val).1
        (schedOldRoot (stdHashing H) (blankRoot H) T s1) with x | ⟨s3, nr⟩
    · simp only []
    · simp only []
      have e2 : (if T.prune = true then completePruning s3 s3.pending else (s3, none)) = finishPrune T s3 := rfl
      rw [e2]
      rcases hf : finishPrune T s3 with ⟨s4, _ | x⟩
      · simp only []; rfl
      · simp only []
  · simp only []

/-- **one operation over any store** (plain dict or `ScratchDB`), pruning on or off. The `ScratchDB` cache must have
    unique keys (`CacheNoDup`; every cache built by `Dict.insert` from `[]` has): otherwise a buffered delete in front of
    a buffered write of the same key makes `Store.contains` (first entry) and the view (first *write*) disagree. -/
theorem freeSetDel_is_opSetDel_view (hlen : ∀ b, (H b).length = 32) (T : TrieSt) (hc : Canon T.tree) (key : Bytes) (val : Option Bytes)
    (s : OpSt) (hnd : s.store.CacheNoDup)
    (hcomp : Complete (stdHashing H) (blankRoot H) (storeDb s.store) T)
    (hbk : Dict.get? (storeDb s.store) (blankRoot H) = none)
    (hsm : ∀ h b, Dict.get? (storeDb s.store) h = some b → b.length < 2 ^ 64) :
    freeSetDel H (toFree T) key val s =
      ((opSetDel (stdHashing H) (blankRoot H) T key val s).1,
       match (opSetDel (stdHashing H) (blankRoot H) T key val s).2 with
       | .ok T' => .ok (toFree T')
       | .error e => .error e) := by
  unfold freeSetDel opSetDel
  simp only []
  rw [freeCore_is_opCore_view H hlen T hc key val { s with pending := [] } hnd hcomp hbk hsm]

/-- the tree-free world and the tree-carrying world describe the same situation: same database, one outer trie with the
    same root / prune flag / counts, and the same open block (cache, batch root, batch counts) -/
def Sim (fw : FWorld) (w : World) : Prop :=
  fw.base = w.base ∧ fw.failAfter = w.failAfter ∧ w.tries.size = 1 ∧ w.counts.size = 1 ∧ fw.outer = toFree w.tries[0]! ∧
  fw.counts = w.counts[0]! ∧
  (match fw.batch, w.batch with
   | none, none => True
   | some fb, some b => b.outer = 0 ∧ fb.cache = b.cache ∧ fb.trie = toFree b.trie ∧ fb.counts = b.counts
   | _, _ => False)

theorem sim_batchBegin (fw : FWorld) (w : World) (h : Sim fw w) (hb : w.batch = none) :
    Sim fw.batchBegin (w.batchBegin 0) := by
  have _ := hb
  obtain ⟨hbase, hfa, hsz, hcsz, hout, hcnt, _⟩ := h
  refine ⟨hbase, hfa, hsz, hcsz, hout, hcnt, ?_⟩
  simp only [FWorld.batchBegin, World.batchBegin]
  rw [hout, hcnt]
  exact ⟨trivial, trivial, rfl, rfl⟩

theorem sim_batchEnd (fw : FWorld) (w : World) (h : Sim fw w) (raised : Bool) :
    (fw.batchEnd raised).1 = (w.batchEnd raised).1 ∧ Sim (fw.batchEnd raised).2 (w.batchEnd raised).2 := by
  obtain ⟨hbase, hfa, hsz, hcsz, hout, hcnt, hbt⟩ := h
  unfold FWorld.batchEnd World.batchEnd
  cases hfb : fw.batch with
  | none =>
    cases hwb : w.batch with
    | none =>
      refine ⟨rfl, hbase, hfa, hsz, hcsz, hout, hcnt, ?_⟩
      simp only [hfb, hwb]
    | some b => rw [hfb, hwb] at hbt; exact hbt.elim
  | some fb =>
    cases hwb : w.batch with
    | none => rw [hfb, hwb] at hbt; exact hbt.elim
    | some b =>
      rw [hfb, hwb] at hbt
      obtain ⟨hbo, hbc, hbtr, hbcn⟩ := hbt
      simp only []
      cases raised with
      | true =>
        simp only [if_true]
        exact ⟨by trivial, hbase, hfa, hsz, hcsz, hout, hcnt, trivial⟩
      | false =>
        simp only [Bool.false_eq_true, if_false]
        have hpr : fw.outer.prune = w.tries[b.outer]!.prune := by rw [hbo, hout]; rfl
        rw [hpr, hbc, hbase, hfa]
        rcases hcl : commitLoop w.tries[b.outer]!.prune b.cache w.base w.failAfter with ⟨ok, base', fa'⟩
        simp only []
        cases ok with
        | false =>
          simp only [Bool.false_eq_true, if_false]
          exact ⟨by trivial, rfl, rfl, hsz, hcsz, hout, hcnt, trivial⟩
        | true =>
          simp only [if_true]
          refine ⟨by trivial, rfl, rfl, ?_, ?_, ?_, ?_, trivial⟩
          · simp only [Array.set!_eq_setIfInBounds, Array.size_setIfInBounds]; exact hsz
          · split <;> simp only [Array.set!_eq_setIfInBounds, Array.size_setIfInBounds] <;> exact hcsz
          · simp only [hbo]
            rw [hbtr]
            have : (w.tries.set! 0 { tree := b.trie.tree, root := b.trie.root, prune := w.tries[0]!.prune })[0]! =
                { tree := b.trie.tree, root := b.trie.root, prune := w.tries[0]!.prune } := by
              simp [Array.set!_eq_setIfInBounds, hsz]
            rw [this]; rfl
          · simp only [hbo]
            cases hp : w.tries[0]!.prune with
            | false => simp [hcnt]
            | true =>
              simp only [if_true]
              rw [hbcn]
              simp [Array.set!_eq_setIfInBounds, hcsz]

theorem sim_noteRoot (fw : FWorld) (w : World) (T : TrieSt) (h : Sim fw w) : Sim fw (w.noteRoot T) := by
  unfold World.noteRoot
  split
  · exact h
  · exact h

theorem array_set!_zero {α} [Inhabited α] (a : Array α) (x : α) (hsz : a.size = 1) :
    (a.set! 0 x).size = 1 ∧ (a.set! 0 x)[0]! = x := by
  simp [Array.set!_eq_setIfInBounds, hsz]

/-- an operation on the outer trie (a block may be open or not) keeps the two worlds in step -/
theorem sim_setDel_outer (hlen : ∀ b, (H b).length = 32) (fw : FWorld) (w : World) (h : Sim fw w) (key : Bytes)
    (val : Option Bytes)
    (hc : Canon w.tries[0]!.tree)
    (hcomp : Complete (stdHashing H) (blankRoot H) (storeDb (w.opSt 0).store) w.tries[0]!)
    (hbk : Dict.get? (storeDb (w.opSt 0).store) (blankRoot H) = none)
    (hsm : ∀ x b, Dict.get? (storeDb (w.opSt 0).store) x = some b → b.length < 2 ^ 64) :
    (match (fw.setDel H false key val).1, (w.setDel (stdHashing H) (blankRoot H) (.trie 0) key val).1 with
     | .ok _, .ok _ => True
     | .error e, .error e' => e = e'
     | _, _ => False) ∧
    Sim (fw.setDel H false key val).2 (w.setDel (stdHashing H) (blankRoot H) (.trie 0) key val).2 := by
  obtain ⟨hbase, hfa, hsz, hcsz, hout, hcnt, hbt⟩ := h
  have hop : fw.opSt = w.opSt 0 := by
    unfold FWorld.opSt World.opSt; rw [hbase, hfa, hcnt]
  have hone := freeSetDel_is_opSetDel_view H hlen w.tries[0]! hc key val (w.opSt 0)
    (Store.cacheNoDup_plain _ rfl) hcomp hbk hsm
  unfold FWorld.setDel World.setDel
  simp only [Bool.not_false, if_true]
  rw [hout, hop, hone]
  rcases hr : opSetDel (stdHashing H) (blankRoot H) w.tries[0]! key val (w.opSt 0) with ⟨s', e | T'⟩
  · simp only []
    refine ⟨by trivial, rfl, rfl, hsz, (array_set!_zero _ _ hcsz).1, rfl, (array_set!_zero _ _ hcsz).2.symm, hbt⟩
  · simp only []
    refine ⟨by trivial, sim_noteRoot _ _ _ ?_⟩
    exact ⟨rfl, rfl, (array_set!_zero _ _ hsz).1, (array_set!_zero _ _ hcsz).1,
      congrArg toFree (array_set!_zero _ _ hsz).2.symm, (array_set!_zero _ _ hcsz).2.symm, hbt⟩

/-- an operation on the batch trie of the open block `b` keeps the two worlds in step -/
theorem sim_setDel_batch (hlen : ∀ b, (H b).length = 32) (fw : FWorld) (w : World) (h : Sim fw w) (b : Batch)
    (hwb : w.batch = some b) (hnd : NoDupKeys b.cache) (key : Bytes) (val : Option Bytes)
    (hc : Canon b.trie.tree)
    (hcomp : Complete (stdHashing H) (blankRoot H) (storeDb (w.batchOpSt b).store) b.trie)
    (hbk : Dict.get? (storeDb (w.batchOpSt b).store) (blankRoot H) = none)
    (hsm : ∀ x b', Dict.get? (storeDb (w.batchOpSt b).store) x = some b' → b'.length < 2 ^ 64) :
    (match (fw.setDel H true key val).1, (w.setDel (stdHashing H) (blankRoot H) .batch key val).1 with
     | .ok _, .ok _ => True
     | .error e, .error e' => e = e'
     | _, _ => False) ∧
    Sim (fw.setDel H true key val).2 (w.setDel (stdHashing H) (blankRoot H) .batch key val).2 := by
  obtain ⟨hbase, hfa, hsz, hcsz, hout, hcnt, hbt⟩ := h
  cases hfb : fw.batch with
  | none => rw [hfb, hwb] at hbt; exact hbt.elim
  | some fb =>
    rw [hfb, hwb] at hbt
    obtain ⟨hbo, hbc, hbtr, hbcn⟩ := hbt
    have hop : fw.batchOpSt fb = w.batchOpSt b := by
      unfold FWorld.batchOpSt World.batchOpSt; rw [hbase, hfa, hbc, hbcn]
    have hnd' : (w.batchOpSt b).store.CacheNoDup := by
      intro c hcc
      simp only [World.batchOpSt, Option.some.injEq] at hcc
      exact hcc ▸ hnd
    have hone := freeSetDel_is_opSetDel_view H hlen b.trie hc key val (w.batchOpSt b) hnd' hcomp hbk hsm
    unfold FWorld.setDel World.setDel
    simp only [Bool.not_true, Bool.false_eq_true, if_false, hfb, hwb]
    rw [hbtr, hop, hone]
    rcases hr : opSetDel (stdHashing H) (blankRoot H) b.trie key val (w.batchOpSt b) with ⟨s', e | T'⟩
    · simp only []
      refine ⟨by trivial, rfl, rfl, hsz, hcsz, hout, hcnt, ?_⟩
      exact ⟨hbo, rfl, rfl, rfl⟩
    · simp only []
      refine ⟨by trivial, sim_noteRoot _ _ _ ?_⟩
      refine ⟨rfl, rfl, hsz, hcsz, hout, hcnt, ?_⟩
      exact ⟨hbo, rfl, rfl, rfl⟩

/-- an operation on the outer trie (block open or not) or on the batch trie keeps the two worlds in step, provided the view
    the operated trie reads is complete for its root (and the two physical side conditions), and — for the batch trie —
    the `ScratchDB` cache has unique keys (`hnd`; from `World.BatchNoDup`, which `batchBegin` establishes and every
    `setDel` / `batchEnd` keeps: `Lemmas/CacheNoDupPres.lean`) -/
theorem sim_setDel (hlen : ∀ b, (H b).length = 32) (fw : FWorld) (w : World) (h : Sim fw w) (inBatch : Bool) (key : Bytes)
    (val : Option Bytes)
    (hopen : inBatch = true → w.batch.isSome)
    (hnd : inBatch = true → ∀ b, w.batch = some b → NoDupKeys b.cache)
    (hc : Canon (w.trieOf (if inBatch then .batch else .trie 0)).tree)
    (hcomp : Complete (stdHashing H) (blankRoot H)
      (storeDb (if inBatch then (w.batchOpSt (w.batch.getD ⟨0, [], default, []⟩)).store else (w.opSt 0).store))
      (w.trieOf (if inBatch then .batch else .trie 0)))
    (hbk : Dict.get? (storeDb (if inBatch then (w.batchOpSt (w.batch.getD ⟨0, [], default, []⟩)).store else (w.opSt 0).store))
      (blankRoot H) = none)
    (hsm : ∀ x b, Dict.get? (storeDb (if inBatch then (w.batchOpSt (w.batch.getD ⟨0, [], default, []⟩)).store else (w.opSt 0).store))
      x = some b → b.length < 2 ^ 64) :
    (match (fw.setDel H inBatch key val).1, (w.setDel (stdHashing H) (blankRoot H) (if inBatch then .batch else .trie 0) key val).1 with
     | .ok _, .ok _ => True
     | .error e, .error e' => e = e'
     | _, _ => False) ∧
    Sim (fw.setDel H inBatch key val).2 (w.setDel (stdHashing H) (blankRoot H) (if inBatch then .batch else .trie 0) key val).2 := by
  cases inBatch with
  | false =>
    simp only [Bool.false_eq_true, if_false] at hc hcomp hbk hsm ⊢
    exact sim_setDel_outer H hlen fw w h key val hc hcomp hbk hsm
  | true =>
    simp only [if_true] at hc hcomp hbk hsm ⊢
    cases hwb : w.batch with
    | none => have := hopen rfl; rw [hwb] at this; cases this
    | some b =>
      simp only [hwb, Option.getD_some, World.trieOf] at hc hcomp hbk hsm
      exact sim_setDel_batch H hlen fw w h b hwb (hnd rfl b hwb) key val hc hcomp hbk hsm

end PyTrie.HexFree
