import PyTrie.Lemmas.HexIterProofs
import PyTrie.Lemmas.YPEntries
import PyTrie.Model.HexEnc
/-! The Yellow Paper's trie construction (Appendix D: `c(I, i)`, `n(I, i)`, `TRIE(I)`) written out
    literally over a list of (nibble key, value) pairs, and the theorem that the raw node structure of
    every canonical tree — hence of every trie py-trie can reach — *is* that construction applied to
    its contents. Holds for every hash function `H` (KEC in the paper). -/
namespace PyTrie.YP
open PyTrie PyTrie.Hex PyTrie.Hex.Node

abbrev Entries := List (Path × Bytes)

/-- `j = max {x | ∃ l, ‖l‖ = x ∧ ∀ I ∈ J, I₀[0..x-1] = l}`: the length of the longest common prefix of all keys -/
def lcp : Path → Path → Path
  | a :: as, b :: bs => if a = b then a :: lcp as bs else []
  | _, _ => []

def lcpAll : List Path → Path
  | [] => []
  | [k] => k
  | k :: rest => lcp k (lcpAll rest)

variable (H : Bytes → Bytes)

/-- `n(J, i)` given `c(J, i)`: `()` for the empty set, the structure itself when its RLP is shorter than
    32 bytes, its Keccak hash otherwise -/
def ypRef (J : Entries) (c : Item) : Item :=
  if J.isEmpty then .str [] else if (rlp c).length < 32 then c else .str (H (rlp c))

/-- `c(J, i)` (fuel bounds the recursion depth; `ypC_fuel` shows the result is fuel-independent once large enough) -/
def ypC : Nat → Entries → Nat → Item
  | 0, _, _ => .str []
  | fuel + 1, J, i =>
    match J with
    | [] => .str []
    | [(k, v)] => .list [.str (hp (k.drop i) true), .str v]
    | (k0, _) :: _ :: _ =>
      let j := (lcpAll (J.map (·.1))).length
      if i ≠ j then
        .list [.str (hp ((k0.drop i).take (j - i)) false), ypRef H J (ypC fuel J j)]
      else
        let u (x : Nib) : Item :=
          let Jx := J.filter (fun e => e.1[i]? = some x)
          ypRef H Jx (ypC fuel Jx (i + 1))
        let v : Bytes := match J.find? (fun e => e.1.length = i) with
          | some e => e.2
          | none => []
        .list ((List.finRange 16).map u ++ [.str v])

/-- `TRIE(J) = KEC(RLP(c(J, 0)))`, and `KEC(RLP(()))` for the empty mapping -/
def ypRoot (fuel : Nat) (J : Entries) : Hash :=
  if J.isEmpty then H [0x80] else H (rlp (ypC H fuel J 0))

/-- height of a tree (bounds the recursion depth of the construction) -/
def height : Node → Nat
  | blank => 0
  | leaf _ _ => 1
  | ext _ c => height c + 1
  | branch ch _ => ((List.finRange 16).map (fun i => height (ch i))).foldl max 0 + 1

/-- the contents of a subtree as absolute entries: keys prefixed by the path leading to it -/
def entriesAt (t : Node) (pre : Path) : Entries := (itemsOf t).map fun e => (pre ++ e.1, e.2)

/-! ### `entriesAt` is the structural `ent` -/

theorem entriesAt_eq_ent (t : Node) (pre : Path) : entriesAt t pre = ent t pre :=
  (ent_eq_map_itemsOf t pre).symm

/-! ### longest common prefix -/

theorem lcp_prefix_left (a b : Path) : lcp a b <+: a := by
  induction a generalizing b with
  | nil => simp [lcp]
  | cons x xs ih =>
    cases b with
    | nil => simp [lcp]
    | cons y ys =>
      simp only [lcp]
      split
      · exact (List.cons_prefix_cons).2 ⟨rfl, ih ys⟩
      · simp

theorem lcp_prefix_right (a b : Path) : lcp a b <+: b := by
  induction a generalizing b with
  | nil => simp [lcp]
  | cons x xs ih =>
    cases b with
    | nil => simp [lcp]
    | cons y ys =>
      simp only [lcp]
      split
      · next h => exact (List.cons_prefix_cons).2 ⟨h, ih ys⟩
      · simp

theorem prefix_lcp (q a b : Path) (ha : q <+: a) (hb : q <+: b) : q <+: lcp a b := by
  induction q generalizing a b with
  | nil => simp
  | cons x xs ih =>
    obtain ⟨a', rfl⟩ := ha
    obtain ⟨b', rfl⟩ := hb
    simp only [List.cons_append, lcp, ↓reduceIte]
    exact (List.cons_prefix_cons).2 ⟨rfl, ih _ _ (List.prefix_append _ _) (List.prefix_append _ _)⟩

theorem lcpAll_cons_cons (k k' : Path) (rest : List Path) :
    lcpAll (k :: k' :: rest) = lcp k (lcpAll (k' :: rest)) := rfl

theorem lcpAll_prefix (L : List Path) (k : Path) (hk : k ∈ L) : lcpAll L <+: k := by
  induction L with
  | nil => simp at hk
  | cons a L ih =>
    cases L with
    | nil =>
      simp only [List.mem_singleton] at hk
      subst hk
      simp [lcpAll]
    | cons b L =>
      rw [lcpAll_cons_cons]
      rcases List.mem_cons.1 hk with rfl | hk
      · exact lcp_prefix_left _ _
      · exact (lcp_prefix_right _ _).trans (ih hk)

theorem prefix_lcpAll (L : List Path) (hL : L ≠ []) (q : Path) (h : ∀ k ∈ L, q <+: k) :
    q <+: lcpAll L := by
  induction L with
  | nil => exact absurd rfl hL
  | cons a L ih =>
    cases L with
    | nil => simpa [lcpAll] using h a (by simp)
    | cons b L =>
      rw [lcpAll_cons_cons]
      exact prefix_lcp _ _ _ (h a (by simp))
        (ih (by simp) (fun k hk => h k (List.mem_cons_of_mem _ hk)))

/-- the keys below a canonical branch reached via `pre` have exactly `pre` in common -/
theorem lcpAll_branch (ch : Nib → Node) (v : Bytes) (hc : Canon (branch ch v)) (pre : Path) :
    lcpAll ((ent (branch ch v) pre).map (·.1)) = pre := by
  have hne : (ent (branch ch v) pre).map (·.1) ≠ [] := by
    simpa using ent_ne_nil _ hc rfl pre
  have h1 : pre <+: lcpAll ((ent (branch ch v) pre).map (·.1)) := by
    refine prefix_lcpAll _ hne pre ?_
    intro k hk
    obtain ⟨e, he, rfl⟩ := List.mem_map.1 hk
    obtain ⟨s, hs⟩ := ent_prefix _ _ e he
    exact ⟨s, hs.symm⟩
  obtain ⟨s, hs⟩ := h1
  by_cases hs0 : s = []
  · rw [← hs, hs0, List.append_nil]
  · exfalso
    apply branch_no_common_prefix ch v hc s hs0
    intro k hk
    have hm : pre ++ k ∈ (ent (branch ch v) pre).map (·.1) :=
      List.mem_map.2 ⟨_, (mem_ent_iff _ hc pre _).2 ⟨k, rfl, hk⟩, rfl⟩
    have := lcpAll_prefix _ _ hm
    rw [← hs] at this
    exact (List.prefix_append_right_inj pre).1 this

/-! ### unfolding `ypC` -/

theorem ypC_single (fuel : Nat) (k : Path) (v : Bytes) (i : Nat) :
    ypC H (fuel + 1) [(k, v)] i = .list [.str (hp (k.drop i) true), .str v] := rfl

theorem ypC_ext_case (fuel : Nat) (J : Entries) (i : Nat) (k0 : Path) (v0 : Bytes) (rest : Entries)
    (hJ : J = (k0, v0) :: rest) (h2 : 2 ≤ J.length)
    (hij : i ≠ (lcpAll (J.map (·.1))).length) :
    ypC H (fuel + 1) J i =
      .list [.str (hp ((k0.drop i).take ((lcpAll (J.map (·.1))).length - i)) false),
        ypRef H J (ypC H fuel J (lcpAll (J.map (·.1))).length)] := by
  subst hJ
  cases rest with
  | nil => simp at h2
  | cons e2 rest =>
    simp only [ypC]
    rw [if_pos hij]

theorem ypC_branch_case (fuel : Nat) (J : Entries) (i : Nat) (h2 : 2 ≤ J.length)
    (hij : i = (lcpAll (J.map (·.1))).length) :
    ypC H (fuel + 1) J i =
      .list ((List.finRange 16).map (fun x =>
          ypRef H (J.filter (fun e => e.1[i]? = some x))
            (ypC H fuel (J.filter (fun e => e.1[i]? = some x)) (i + 1))) ++
        [.str (match J.find? (fun e => e.1.length = i) with
          | some e => e.2
          | none => [])]) := by
  match J, h2 with
  | (k0, v0) :: e2 :: rest, _ =>
    simp only [ypC]
    rw [if_neg (by simpa using hij)]

/-! ### height -/

theorem le_foldl_max (l : List Nat) (a : Nat) : a ≤ l.foldl max a ∧ ∀ x ∈ l, x ≤ l.foldl max a := by
  induction l generalizing a with
  | nil => simp
  | cons b l ih =>
    simp only [List.foldl_cons, List.mem_cons]
    obtain ⟨h1, h2⟩ := ih (max a b)
    refine ⟨by omega, ?_⟩
    rintro x (rfl | hx)
    · omega
    · exact h2 x hx

theorem height_child_lt (ch : Nib → Node) (v : Bytes) (i : Nib) :
    height (ch i) + 1 ≤ height (branch ch v) := by
  simp only [height, Nat.add_le_add_iff_right]
  exact (le_foldl_max _ 0).2 _ (List.mem_map.2 ⟨i, List.mem_finRange i, rfl⟩)

/-! ### references -/

theorem toItem_isList (t : Node) (hb : isBlank t = false) : ∃ l, toItem H t = .list l := by
  cases t with
  | blank => simp [isBlank] at hb
  | leaf p v => exact ⟨_, rfl⟩
  | ext p c => exact ⟨_, rfl⟩
  | branch ch v => exact ⟨_, rfl⟩

theorem mkRef_list (l : List Item) :
    mkRef H (.list l) = if (rlp (.list l)).length < 32 then .list l else .str (H (rlp (.list l))) := rfl

theorem ypRef_of_ne_nil (J : Entries) (hJ : J ≠ []) (l : List Item) :
    ypRef H J (.list l) = mkRef H (.list l) := by
  cases J with
  | nil => exact absurd rfl hJ
  | cons a J => rfl

/-- the reference equation follows from the structure equation -/
theorem refOf_ent_of_toItem (t : Node) (hc : Canon t) (pre : Path) (fuel : Nat)
    (hT : isBlank t = false → toItem H t = ypC H fuel (ent t pre) pre.length) :
    refOf H t = ypRef H (ent t pre) (ypC H fuel (ent t pre) pre.length) := by
  cases hb : isBlank t with
  | true =>
    rw [ent_of_isBlank hb, (isBlank_iff t).1 hb]
    rfl
  | false =>
    rw [← hT hb]
    obtain ⟨l, hl⟩ := toItem_isList H t hb
    rw [refOf, hl, ypRef_of_ne_nil H _ (ent_ne_nil t hc hb pre)]

/-! ### the main induction, over `ent` -/

theorem toItem_leaf_ent (p : Path) (v : Bytes) (hc : Canon (leaf p v)) (pre : Path) (fuel : Nat)
    (hf : height (leaf p v) ≤ fuel) :
    toItem H (leaf p v) = ypC H fuel (ent (leaf p v) pre) pre.length := by
  have hv : v ≠ [] := hc
  obtain ⟨f, rfl⟩ : ∃ f, fuel = f + 1 := ⟨fuel - 1, by simp only [height] at hf; omega⟩
  simp only [ent, ne_eq, hv, not_false_eq_true, ↓reduceIte, ypC_single, List.drop_left, toItem]

theorem toItem_ext_ent (p : Path) (ch : Nib → Node) (v : Bytes) (hc : Canon (ext p (branch ch v)))
    (pre : Path) (fuel : Nat) (hf : height (ext p (branch ch v)) ≤ fuel)
    (ih : ∀ pre fuel, height (branch ch v) ≤ fuel →
      toItem H (branch ch v) = ypC H fuel (ent (branch ch v) pre) pre.length) :
    toItem H (ext p (branch ch v)) = ypC H fuel (ent (ext p (branch ch v)) pre) pre.length := by
  obtain ⟨hpne, _, hcc⟩ := hc
  obtain ⟨f, rfl⟩ : ∃ f, fuel = f + 1 := ⟨fuel - 1, by simp only [height] at hf; omega⟩
  have hf' : height (branch ch v) ≤ f := by simp only [height] at hf ⊢; omega
  have hent : ent (ext p (branch ch v)) pre = ent (branch ch v) (pre ++ p) := rfl
  rw [hent]
  have h2 := ent_branch_two ch v hcc (pre ++ p)
  have hl := lcpAll_branch ch v hcc (pre ++ p)
  match hJ : ent (branch ch v) (pre ++ p), h2 with
  | (k0, v0) :: rest, h2 =>
    have hk0 : ∃ s, k0 = (pre ++ p) ++ s := by
      have : (k0, v0) ∈ ent (branch ch v) (pre ++ p) := by rw [hJ]; simp
      exact ent_prefix _ _ _ this
    obtain ⟨s, rfl⟩ := hk0
    rw [← hJ] at h2 ⊢
    have hij : pre.length ≠ (lcpAll ((ent (branch ch v) (pre ++ p)).map (·.1))).length := by
      rw [hl, List.length_append]
      have : 0 < p.length := List.length_pos_iff.2 hpne
      omega
    rw [ypC_ext_case H f _ pre.length _ v0 rest hJ h2 hij, hl]
    have hd : (((pre ++ p ++ s).drop pre.length).take ((pre ++ p).length - pre.length)) = p := by
      simp [List.append_assoc]
    rw [hd, ← ih (pre ++ p) f hf']
    obtain ⟨l, hl'⟩ := toItem_isList H (branch ch v) rfl
    rw [hl', ypRef_of_ne_nil H _ (ent_ne_nil _ hcc rfl _)]
    simp only [toItem]
    rw [← hl']
    rfl

theorem toItem_branch_ent (ch : Nib → Node) (v : Bytes) (hc : Canon (branch ch v))
    (pre : Path) (fuel : Nat) (hf : height (branch ch v) ≤ fuel)
    (ih : ∀ i pre fuel, height (ch i) ≤ fuel → isBlank (ch i) = false →
      toItem H (ch i) = ypC H fuel (ent (ch i) pre) pre.length) :
    toItem H (branch ch v) = ypC H fuel (ent (branch ch v) pre) pre.length := by
  obtain ⟨f, rfl⟩ : ∃ f, fuel = f + 1 := ⟨fuel - 1, by simp only [height] at hf; omega⟩
  have h2 := ent_branch_two ch v hc pre
  have hl := lcpAll_branch ch v hc pre
  rw [ypC_branch_case H f _ pre.length h2 (by rw [hl]), ent_branch_find?]
  have hv : (match (if v = [] then none else some (pre, v) : Option (Path × Bytes)) with
      | some e => e.2
      | none => []) = v := by
    by_cases hv : v = [] <;> simp [hv]
  rw [hv]
  simp only [ent_branch_filter, toItem]
  congr 2
  apply List.map_congr_left
  intro i _
  have hfi : height (ch i) ≤ f := by
    have := height_child_lt ch v i
    omega
  have := refOf_ent_of_toItem H (ch i) (hc.1 i) (pre ++ [i]) f (ih i (pre ++ [i]) f hfi)
  rw [List.length_append, List.length_singleton] at this
  exact this

theorem toItem_eq_ypC_ent (t : Node) (hc : Canon t) (hb : isBlank t = false) (pre : Path) (fuel : Nat)
    (hf : height t ≤ fuel) :
    toItem H t = ypC H fuel (ent t pre) pre.length := by
  induction t generalizing pre fuel with
  | blank => simp [isBlank] at hb
  | leaf p v => exact toItem_leaf_ent H p v hc pre fuel hf
  | ext p c ih =>
    cases c with
    | branch ch v =>
      exact toItem_ext_ent H p ch v hc pre fuel hf (fun pre fuel hf => ih hc.2.2 rfl pre fuel hf)
    | _ => simp [Canon, isBranch] at hc
  | branch ch v ih =>
    exact toItem_branch_ent H ch v hc pre fuel hf
      (fun i pre fuel hf hb => ih i (hc.1 i) hb pre fuel hf)

/-- **every canonical subtree is the Yellow Paper's `c(J, i)`** of its contents `J` (absolute keys) at
    depth `i = ‖pre‖` -/
theorem toItem_eq_ypC (t : Node) (hc : Canon t) (hb : isBlank t = false) (pre : Path) (fuel : Nat)
    (hf : height t ≤ fuel) :
    toItem H t = ypC H fuel (entriesAt t pre) pre.length := by
  rw [entriesAt_eq_ent]
  exact toItem_eq_ypC_ent H t hc hb pre fuel hf

/-- … and a child reference is the paper's `n(J, i)` -/
theorem refOf_eq_ypRef (t : Node) (hc : Canon t) (pre : Path) (fuel : Nat) (hf : height t ≤ fuel) :
    refOf H t = ypRef H (entriesAt t pre) (ypC H fuel (entriesAt t pre) pre.length) := by
  rw [entriesAt_eq_ent]
  exact refOf_ent_of_toItem H t hc pre fuel (fun hb => toItem_eq_ypC_ent H t hc hb pre fuel hf)

/-- **the root hash is the Yellow Paper's `TRIE` of the contents** -/
theorem rootHash_eq_ypRoot (t : Node) (hc : Canon t) (fuel : Nat) (hf : height t ≤ fuel) :
    rootHash H t = ypRoot H fuel (itemsOf t) := by
  rw [itemsOf_eq_ent]
  cases hb : isBlank t with
  | true =>
    rw [(isBlank_iff t).1 hb]
    simp [rootHash, enc, toItem, ypRoot, ent, rlp, rlpLen]
  | false =>
    have hne := ent_ne_nil t hc hb []
    have := toItem_eq_ypC_ent H t hc hb [] fuel hf
    simp only [List.length_nil] at this
    simp only [rootHash, enc, ypRoot, List.isEmpty_iff, hne, ↓reduceIte, this]

end PyTrie.YP
