import PyTrie.Lemmas.WorldPruneV
import PyTrie.Lemmas.FailAfterNone
/-! `squash_changes` on a **pruning** trie at world level (C05 / C06): the exact-pruning invariant,
    stated over what the batch *will commit* (`Store.view`: buffered writes are present, buffered deletes are
    absent, everything else as in the wrapped database), is preserved by every `set` / `delete` on the batch
    trie, and a normal exit (`batch_commit(do_deletes=True)`) turns it into the plain invariant of the outer
    trie: root, counts and database are exactly those of the batch's final tree. Together with
    `C05.abort_restores_world` this is all-or-nothing for pruning tries, with exactness preserved.

    (`Store.view` itself is defined in `StoreView.lean`, so that the helper files can use it.) -/
namespace PyTrie.HexW
open PyTrie.Hex hiding get set
open PyTrie.Hex.Node

variable (Hs : Hashing) (blankRootHash : Hash)

/-- a key that the commit will keep is readable now (reads fall through DELETED markers, so the converse fails) -/
theorem contains_of_view (s : Store) (h : Hash) (hv : s.view h = true) : s.contains h = true :=
  Store.contains_of_view' s h hv

/-- the pruning invariant over the view (for a plain store it is `PruneInv`).
    `cacheNoDup` (added): the ScratchDB cache has unique keys — without it `Store.view` (first entry wins)
    and the commit loop (last entry wins) disagree; it holds initially (`[]`) and is preserved because the
    cache is only changed by `Dict.insert`. -/
structure PruneInvV (T : TrieSt) (s : OpSt) : Prop where
  prune : T.prune = true
  root : if isBlank T.tree then T.root = blankRootHash else T.root = Hs.hashOf T.tree ∧ T.root ≠ blankRootHash
  counts : ∀ h, s.counts.val h = occRoot Hs T.tree h
  keys : ∀ h, s.store.view h = true ↔ 0 < occRoot Hs T.tree h
  pending : s.pending = []
  cacheNoDup : s.store.CacheNoDup

theorem pruneInvV_of_plain (T : TrieSt) (s : OpSt) (h : PruneInv Hs blankRootHash T s) : PruneInvV Hs blankRootHash T s := by
  refine ⟨h.prune, h.root, h.counts, fun x => ?_, h.pending, Store.cacheNoDup_plain _ h.plain⟩
  rw [Store.view_plain _ h.plain]
  exact h.keys x

/-- the whole body of a pruning `set` / `delete` on a state satisfying the invariant over the view -/
theorem opCore_pruneV (T : TrieSt) (key : Bytes) (val : Option Bytes) (s : OpSt)
    (hfa : s.store.failAfter = none) (hinv : PruneInvV Hs blankRootHash T s)
    (hrs : RefSound Hs T.tree (nibs key))
    (hblank : isBlank (opTree Hs T key val).1 = false → Hs.hashOf (opTree Hs T key val).1 ≠ blankRootHash) :
    ∃ s4 r, opCore Hs blankRootHash T key val { s with pending := [] } =
        (s4, .ok { T with tree := (opTree Hs T key val).1, root := r }) ∧
      s4.store.CacheNoDup ∧
      (if isBlank (opTree Hs T key val).1 then r = blankRootHash
        else r = Hs.hashOf (opTree Hs T key val).1 ∧ r ≠ blankRootHash) ∧
      (∀ h, s4.counts.val h = occRoot Hs (opTree Hs T key val).1 h) ∧
      (∀ h, s4.store.view h = true ↔ 0 < occRoot Hs (opTree Hs T key val).1 h) := by
  have hroot := hinv.root
  -- the root is present
  have hrootc : isBlank T.tree = false → s.store.view T.root = true := by
    intro hb
    rw [hb] at hroot
    simp only [Bool.false_eq_true, ↓reduceIte] at hroot
    rw [hinv.keys, hroot.1]
    simp [occRoot, hb]
  have hcheck : (T.root != blankRootHash &&
      !(({ s with pending := [] } : OpSt).store.contains T.root)) = false := by
    cases hb : isBlank T.tree
    · have := Store.contains_of_view' _ _ (hrootc hb)
      simp [this]
    · rw [hb] at hroot
      simp only [↓reduceIte] at hroot
      simp [hroot]
  -- the events
  obtain ⟨s1, h1, R⟩ := runEvs_specV T.root key (opTree Hs T key val).2 { s with pending := [] }
    hinv.cacheNoDup hfa NoDupKeys.nil PosVals.nil (by
      intro h hm
      have := opTree_reads_occ Hs T key val h hm
      show s.store.view h = true
      rw [hinv.keys]
      unfold occRoot; omega)
  -- scheduling the old root
  obtain ⟨e2s, e2c, nd2, pos2, hp2⟩ := schedOldRoot_specV Hs blankRootHash T s1 hinv.prune hroot
    (fun hb => (R.keys _).2 (Or.inl (hrootc hb))) R.nodup R.pos
  -- writing the new root
  obtain ⟨s3, h3, hc3, _, hpend3, hcnt3, hkeys3⟩ := writeRoot_specV Hs blankRootHash T hinv.prune
    (opTree Hs T key val).1 (schedOldRoot Hs blankRootHash T s1) (by rw [e2s]; exact R.wf) (by rw [e2s]; exact R.fa)
  -- the accounting before `_complete_pruning`
  have hacc : ∀ h, s3.counts.val h = occRoot Hs (opTree Hs T key val).1 h + s3.pending.val h := by
    intro h
    have hb := opTree_balance Hs T key val hrs h
    have hs := root_split Hs T.tree h
    have hoe := occ_eq Hs T.tree h
    have c0 : s.counts.val h = occRoot Hs T.tree h := hinv.counts h
    have c1 := R.counts h
    have p1 := R.pending h
    have p2 := hp2 h
    have c3 := hcnt3 h
    rw [hpend3, c3, e2c, c1, p2, p1]
    show s.counts.val h + _ + _ = _ + (Counts.val [] h + _ + _)
    rw [c0, Counts.val_nil]
    unfold occRoot
    omega
  have hpos3 : ∀ h, s3.store.view h = true ↔ 0 < s3.counts.val h := by
    intro h
    have c0 : s.counts.val h = occRoot Hs T.tree h := hinv.counts h
    have k0 := hinv.keys h
    have c1 := R.counts h
    have k1 := R.keys h
    have c3 := hcnt3 h
    rw [c3, e2c, c1, hkeys3, e2s, k1]
    change (s.store.view h = true ∨ _) ∨ _ ↔ 0 < s.counts.val h + _ + _
    rw [k0, ← c0]
    by_cases hn : isBlank (opTree Hs T key val).1 = false ∧ Hs.hashOf (opTree Hs T key val).1 = h
    · rw [if_pos hn]
      exact ⟨fun _ => by omega, fun _ => Or.inr hn⟩
    · rw [if_neg hn]
      constructor
      · rintro ((a | a) | a)
        · omega
        · omega
        · exact absurd a hn
      · intro a
        left
        omega
  -- `_complete_pruning`
  obtain ⟨s4, h4, hc4, _, _, hcnt4, hkeys4⟩ := completePruning_specV s3.pending
    (by rw [hpend3]; exact nd2) s3 hc3 (by
      intro e he
      apply (hpos3 _).2
      have hv := Counts.val_of_mem (by rw [hpend3]; exact nd2) e he
      have hp : 0 < e.2 := by
        have := pos2
        rw [← hpend3] at this
        exact this e he
      have := hacc e.1
      omega)
  have hfin : finishPrune T s3 = (s4, none) := by
    unfold finishPrune; rw [hinv.prune]; simp only [↓reduceIte]; exact h4
  refine ⟨s4, _, opCore_eq Hs blankRootHash T key val _ hcheck s1 (by rw [hinv.prune]; exact h1) s3 _ h3 s4 hfin,
    hc4, ?_, ?_, ?_⟩
  · cases hb : isBlank (opTree Hs T key val).1
    · simp only [Bool.false_eq_true, ↓reduceIte, true_and]
      exact hblank hb
    · simp
  · intro h
    rw [hcnt4, hacc h]
    omega
  · intro h
    rw [hkeys4]
    have ha := hacc h
    constructor
    · rintro ⟨a, b⟩
      have hp := (hpos3 h).1 a
      cases hcn : Dict.contains s3.pending h
      · have := Counts.val_of_not_contains _ _ hcn
        omega
      · have := b hcn
        omega
    · intro hp
      exact ⟨(hpos3 h).2 (by omega), fun _ => by omega⟩

/-- **every `set` / `delete` on the batch trie (or on a plain pruning trie) preserves the invariant** and never raises -/
theorem opSetDel_pruneInvV (T : TrieSt) (hc : Canon T.tree) (key : Bytes) (val : Option Bytes) (s : OpSt)
    (hfa : s.store.failAfter = none) (hinv : PruneInvV Hs blankRootHash T s)
    (hrs : RefSound Hs T.tree (nibs key))
    (hblank : isBlank (opTree Hs T key val).1 = false → Hs.hashOf (opTree Hs T key val).1 ≠ blankRootHash) :
    ∃ T', (opSetDel Hs blankRootHash T key val s).2 = .ok T' ∧
      T'.tree = (opTree Hs T key val).1 ∧
      PruneInvV Hs blankRootHash T' (opSetDel Hs blankRootHash T key val s).1 ∧
      (opSetDel Hs blankRootHash T key val s).1.store.failAfter = none := by
  obtain ⟨s4, r, hop, hcache, hrootNew, hcounts, hkeys⟩ :=
    opCore_pruneV Hs blankRootHash T key val s hfa hinv hrs hblank
  refine ⟨{ T with tree := (opTree Hs T key val).1, root := r }, ?_, rfl, ?_,
    failAfter_none_preserved Hs blankRootHash T key val s hfa⟩
  · unfold opSetDel; simp only; rw [hop]
  · unfold opSetDel; simp only; rw [hop]
    exact ⟨hinv.prune, hrootNew, hcounts, hkeys, rfl, hcache⟩

/-! ### the commit loop -/

theorem Store.view_cache_cons (base : Dict Bytes) (k : Hash) (o : Option Bytes) (rest : Dict (Option Bytes))
    (fa : Option Nat) (h : Hash) :
    Store.view { base := base, cache := some ((k, o) :: rest), failAfter := fa } h =
      if k == h then o.isSome else Store.view { base := base, cache := some rest, failAfter := fa } h := by
  simp only [Store.view, Dict.get?_cons]
  cases hk : (k == h)
  · simp
  · cases o <;> simp

theorem Store.view_cache_not_contains (base : Dict Bytes) (c : Dict (Option Bytes)) (fa : Option Nat) (h : Hash)
    (hc : Dict.contains c h = false) :
    Store.view { base := base, cache := some c, failAfter := fa } h = base.contains h := by
  simp only [Store.view, Dict.get?_eq_none_of_not_contains c h hc]

theorem Store.view_base_congr (base base' : Dict Bytes) (c : Dict (Option Bytes)) (fa : Option Nat) (h : Hash)
    (hb : base'.contains h = base.contains h) :
    Store.view { base := base', cache := some c, failAfter := fa } h =
      Store.view { base := base, cache := some c, failAfter := fa } h := by
  simp only [Store.view, hb]

theorem Dict.contains_insert_other {α} (d : Dict α) (h x : Hash) (v : α) (hne : x ≠ h) :
    Dict.contains (Dict.insert d h v) x = Dict.contains d x := by
  rw [Bool.eq_iff_iff, Dict.contains_insert]
  exact ⟨fun a => a.elim id (fun e => absurd e hne), Or.inl⟩

theorem Dict.contains_erase_self {α} (d : Dict α) (h : Hash) : Dict.contains (Dict.erase d h) h = false := by
  cases hc : Dict.contains (Dict.erase d h) h
  · rfl
  · exact absurd rfl ((Dict.contains_erase d h h).1 hc).2

theorem Dict.contains_erase_other {α} (d : Dict α) (h x : Hash) (hne : x ≠ h) :
    Dict.contains (Dict.erase d h) x = Dict.contains d x := by
  rw [Bool.eq_iff_iff, Dict.contains_erase]
  exact ⟨fun a => a.1, fun a => ⟨a, hne⟩⟩

/-- `ScratchDB.batch_commit(do_deletes=True)` without write faults completes and produces exactly the view.
    (`hnd` added: with a repeated key the view reads the first entry, the loop applies the last.) -/
theorem commitLoop_view (cache : Dict (Option Bytes)) (base : Dict Bytes) (hnd : NoDupKeys cache) :
    (commitLoop true cache base none).1 = true ∧ (commitLoop true cache base none).2.2 = none ∧
    ∀ h, Dict.contains (commitLoop true cache base none).2.1 h =
      Store.view { base := base, cache := some cache, failAfter := none } h := by
  induction cache generalizing base with
  | nil =>
    refine ⟨rfl, rfl, fun h => ?_⟩
    simp [commitLoop, Store.view, Dict.get?_nil]
  | cons e rest ih =>
    obtain ⟨k, o⟩ := e
    have hnd' := hnd
    unfold NoDupKeys at hnd'
    rw [List.map_cons, List.nodup_cons] at hnd'
    have hrest : Dict.contains rest k = false := by
      cases hb : Dict.contains rest k
      · rfl
      · exact absurd ((Dict.contains_iff_mem_keys rest k).1 hb) hnd'.1
    cases o with
    | some v =>
      obtain ⟨i1, i2, i3⟩ := ih (Dict.insert base k v) hnd'.2
      refine ⟨by simpa [commitLoop] using i1, by simpa [commitLoop] using i2, fun h => ?_⟩
      have e : (commitLoop true ((k, some v) :: rest) base none).2.1 =
          (commitLoop true rest (Dict.insert base k v) none).2.1 := by simp [commitLoop]
      rw [e, i3, Store.view_cache_cons]
      by_cases hk : k = h
      · subst hk
        rw [Store.view_cache_not_contains _ _ _ _ hrest, Dict.contains_insert_self]
        simp
      · have hk' : (k == h) = false := by simpa using hk
        rw [hk']
        simp only [Bool.false_eq_true, ↓reduceIte]
        exact Store.view_base_congr _ _ _ _ _ (Dict.contains_insert_other _ _ _ _ (fun e => hk e.symm))
    | none =>
      obtain ⟨i1, i2, i3⟩ := ih (Dict.erase base k) hnd'.2
      refine ⟨by simpa [commitLoop] using i1, by simpa [commitLoop] using i2, fun h => ?_⟩
      have e : (commitLoop true ((k, none) :: rest) base none).2.1 =
          (commitLoop true rest (Dict.erase base k) none).2.1 := by simp [commitLoop]
      rw [e, i3, Store.view_cache_cons]
      by_cases hk : k = h
      · subst hk
        rw [Store.view_cache_not_contains _ _ _ _ hrest, Dict.contains_erase_self]
        simp
      · have hk' : (k == h) = false := by simpa using hk
        rw [hk']
        simp only [Bool.false_eq_true, ↓reduceIte]
        exact Store.view_base_congr _ _ _ _ _ (Dict.contains_erase_other _ _ _ (fun e => hk e.symm))

/-- **normal exit of a block on a pruning trie**: if the batch trie satisfies the invariant over the view,
    then after `batchEnd` the outer trie has the batch's tree and root, and (with the adopted counts and the
    committed database) satisfies the plain invariant: counts are the true reference counts and the
    database holds exactly the live nodes.
    (`hic` added: the outer trie has a counts slot — `World.newTrie` / `openAt` push to `tries` and `counts`
    together, but an arbitrary `World` need not have `counts.size = tries.size`.) -/
theorem batchEnd_pruneInv (w : World) (b : Batch) (hb : w.batch = some b) (hi : b.outer < w.tries.size)
    (hic : b.outer < w.counts.size)
    (hop : (w.tries[b.outer]!).prune = true) (hfa : w.failAfter = none)
    (hinv : PruneInvV Hs blankRootHash b.trie (w.batchOpSt b)) :
    let w' := (w.batchEnd false).2
    (w.batchEnd false).1 = .ok () ∧ w'.batch = none ∧
    (w'.tries[b.outer]!).tree = b.trie.tree ∧ (w'.tries[b.outer]!).root = b.trie.root ∧
    PruneInv Hs blankRootHash (w'.tries[b.outer]!) (w'.opSt b.outer) := by
  have hcl := commitLoop_view b.cache w.base (hinv.cacheNoDup b.cache rfl)
  have hk := hinv.keys
  have hcn := hinv.counts
  have hr := hinv.root
  simp only [World.batchOpSt, hfa] at hk hcn
  simp only [World.batchEnd, hb, Bool.false_eq_true, ↓reduceIte, hop, hfa]
  generalize commitLoop true b.cache w.base none = q at hcl ⊢
  obtain ⟨ok, base', fa'⟩ := q
  simp only at hcl
  obtain ⟨rfl, rfl, hv⟩ := hcl
  simp only [↓reduceIte, World.opSt, true_and]
  have ht : (w.tries.set! b.outer { tree := b.trie.tree, root := b.trie.root, prune := true })[b.outer]! =
      { tree := b.trie.tree, root := b.trie.root, prune := true } := by
    simp [hi]
  have hc : (w.counts.set! b.outer b.counts)[b.outer]! = b.counts := by
    simp [hic]
  rw [ht, hc]
  refine ⟨rfl, rfl, rfl, rfl, hr, hcn, fun h => ?_, rfl⟩
  show Dict.contains base' h = true ↔ _
  rw [hv h]
  exact hk h

/-- entering the block: the batch trie starts in the invariant when the outer trie is in it -/
theorem batchBegin_pruneInvV (w : World) (i : Nat) (hi : i < w.tries.size) (hnb : w.batch = none)
    (hinv : PruneInv Hs blankRootHash (w.tries[i]!) (w.opSt i)) :
    ∃ b, (w.batchBegin i).batch = some b ∧ b.outer = i ∧ b.trie.tree = (w.tries[i]!).tree ∧
      PruneInvV Hs blankRootHash b.trie ((w.batchBegin i).batchOpSt b) := by
  refine ⟨_, rfl, rfl, rfl, rfl, hinv.root, ?_, ?_, rfl, ?_⟩
  · intro h
    have := hinv.counts h
    simp only [World.opSt] at this
    simp only [World.batchBegin, World.batchOpSt, hinv.prune, ↓reduceIte]
    exact this
  · intro h
    have := hinv.keys h
    simp only [World.opSt] at this
    simp only [World.batchBegin, World.batchOpSt, Store.view, Dict.get?_nil]
    exact this
  · intro c hc
    simp only [World.batchBegin, World.batchOpSt, Option.some.injEq] at hc
    subst hc
    exact NoDupKeys.nil

end PyTrie.HexW
