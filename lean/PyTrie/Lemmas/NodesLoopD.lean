import PyTrie.Lemmas.WalkDRefines
import PyTrie.Lemmas.NodesLoop
/-! `NodeIterator.nodes()` at raw level (`nodesLoopD`: root hash + database + cache of raw node bodies) yields, on a
    database that stores the trie, exactly the annotated images of what the tree-level loop yields — hence the pre-order
    sequence (`C10.nodes_loop_is_preorder`). -/
namespace PyTrie.HexD
open PyTrie PyTrie.Hex PyTrie.Fog PyTrie.HexRaw

variable (H : Bytes → Bytes)

/-- the raw image of a frontier cache of tree nodes -/
def mapCache (c : Frontier Node) : Frontier Item := c.map (fun e => (e.1, (toItem H e.2.1, e.2.2)))

/-! ### helpers -/

/-- `traverse_from(node, path)` on a complete database: exactly the raw image of the tree-level description -/
theorem traverseOutD_stored (hlen : ∀ b, (H b).length = 32) (db : Db) (t : Node) (hc : Canon t) (hst : StoredD H db t)
    (p : Path) (fuel : Nat) (hf : p.length < fuel) :
    traverseOutD H db fuel (toItem H t) p = .ok (TravOut.toD H (traverseOut t p)) := by
  have htr := trav_okD H hlen db t hc hst p fuel [] (by omega)
  unfold traverseOutD
  rw [htr]
  simp only [traverseOut]
  generalize traverseT t p = r
  obtain ⟨n, rem⟩ := r
  simp only [annotateD_toItem H hlen]
  by_cases hrem : rem = []
  · simp only [hrem, ↓reduceIte, TravOut.toD]
  · simp only [hrem, ↓reduceIte, TravOut.toD, simulateD_annotate]

/-- a node reached by a traversal of a stored canonical tree is canonical and stored -/
theorem storedD_traverseT (db : Db) (t : Node) :
    ∀ (p : Path), Canon t → StoredD H db t →
      Canon (traverseT t p).1 ∧ StoredD H db (traverseT t p).1 := by
  induction t with
  | blank => intro p hc hs; cases p <;> exact ⟨hc, hs⟩
  | leaf q v =>
    intro p hc hs
    cases p with
    | nil => exact ⟨hc, hs⟩
    | cons a r =>
      rw [traverseT_leaf _ _ _ (by simp)]
      split
      · exact ⟨hc, hs⟩
      · exact ⟨trivial, trivial⟩
  | ext q c ih =>
    intro p hc hs
    cases p with
    | nil => exact ⟨hc, hs⟩
    | cons a r =>
      rw [traverseT_ext _ _ _ (by simp)]
      split
      · exact ih _ hc.2.2 hs.2
      · split
        · exact ⟨hc, hs⟩
        · exact ⟨trivial, trivial⟩
  | branch ch v ih =>
    intro p hc hs
    cases p with
    | nil => exact ⟨hc, hs⟩
    | cons a r =>
      simp only [traverseT]
      exact ih a r (hc.1 a) (hs a).2

/-- a `.node` result of a traversal is the annotation of the node reached -/
theorem traverseOut_node {v : Node} {p : Path} {a : Ann} (h : traverseOut v p = .node a) :
    a = annotate (traverseT v p).1 := by
  unfold traverseOut at h
  generalize traverseT v p = r at h ⊢
  obtain ⟨n, rem⟩ := r
  simp only at h
  split at h
  · cases h; rfl
  · cases h

theorem mapCache_eq_mapC (c : Frontier Node) : mapCache H c = mapC H c := rfl

/-- the cache invariant of the loop -/
def CacheStD (db : Db) (c : Frontier Node) : Prop :=
  ∀ p parent seg, Frontier.get c p = some (parent, seg) → Canon parent ∧ StoredD H db parent

theorem cacheStD_erase {db : Db} {c : Frontier Node} (hc : CacheStD H db c) (p : Path) :
    CacheStD H db (Frontier.erase c p) :=
  fun q parent seg h => hc q parent seg (frontier_get_erase c p q _ h)

theorem cacheStD_put {db : Db} {c : Frontier Node} (hc : CacheStD H db c) (p seg : Path) (n : Node)
    (hn : Canon n ∧ StoredD H db n) : CacheStD H db (Frontier.put c p (n, seg)) := by
  intro q parent seg' h
  rcases frontier_get_put c _ q _ _ h with ⟨rfl, h2⟩ | h2
  · cases h2; exact hn
  · exact hc q parent seg' h2

theorem cacheStD_foldl_put {db : Db} (p : Path) (n : Node) (hn : Canon n ∧ StoredD H db n) (subs : List Path) :
    ∀ c : Frontier Node, CacheStD H db c →
      CacheStD H db (subs.foldl (fun acc seg => Frontier.put acc (p ++ seg) (n, seg)) c) := by
  induction subs with
  | nil => intro c hc; exact hc
  | cons s subs ih =>
    intro c hc
    exact ih _ (cacheStD_put H hc (p ++ s) s n hn)

theorem cacheStD_add {db : Db} {c : Frontier Node} (hc : CacheStD H db c) (p : Path) (n : Node)
    (hn : Canon n ∧ StoredD H db n) (subs : List Path) : CacheStD H db (Frontier.add c p n subs) := by
  unfold Frontier.add
  apply cacheStD_foldl_put H p n hn subs
  split
  · exact cacheStD_erase H hc p
  · exact hc

/-- the traversal of one iteration on a complete database -/
theorem walkTraverseD_stored (hlen : ∀ b, (H b).length = 32) (db : Db) (root : Hash) (t : Node) (hc : Canon t)
    (hroot : RootPartial H db root t) (hrootIn : isBlank t = false → (lookup db root).isSome)
    (hst : StoredD H db t) (fog : Fog) (cache : Frontier Node) (hcache : CacheStD H db cache) (p : Path) :
    walkTraverseD H db root ⟨fog, mapCache H cache, []⟩ p =
      .ok (TravOut.toD H (match Frontier.get cache p with
        | none => traverseOut t p
        | some (parent, seg) => traverseOut parent seg)) := by
  unfold walkTraverseD
  simp only [mapCache, frontier_get_map]
  cases hg : Frontier.get cache p with
  | some e =>
    obtain ⟨parent, seg⟩ := e
    obtain ⟨hcp, hsp⟩ := hcache p parent seg hg
    simp only [Option.map_some]
    exact traverseOutD_stored H hlen db parent hcp hsp seg _ (by omega)
  | none =>
    simp only [Option.map_none]
    have htrav := traverseOutD_stored H hlen db t hc hst p (db.length + p.length + 2) (by omega)
    unfold RootPartial at hroot
    cases hb : isBlank t with
    | true =>
      simp only [hb, ↓reduceIte] at hroot
      subst hroot
      have ht := (isBlank_iff t).1 hb
      subst ht
      have hfetch : fetch H db (.str (blankRoot H)) [] = .ok (toItem H Node.blank) := root_fetch_blank H db
      rw [hfetch]
      exact htrav
    | false =>
      simp only [hb, Bool.false_eq_true, ↓reduceIte] at hroot
      obtain ⟨hr, hne, hl, hd⟩ := hroot
      subst hr
      cases hlk : lookup db (hashOf H t) with
      | none =>
        have := hrootIn hb
        rw [hlk] at this
        cases this
      | some b =>
        have := hl b hlk
        subst this
        rw [fetch_hash_some H hlen db t [] hne hlk hd]
        exact htrav

/-- the loop with the traversal result named -/
theorem nodesLoop_succ (t : Node) (fuel : Nat) (fog : Fog) (cache : Frontier Node) :
    nodesLoop t (fuel + 1) fog cache =
      match nearestRight fog [] with
      | .error _ => []
      | .ok p =>
        match (match Frontier.get cache p with
          | none => traverseOut t p
          | some (parent, seg) => traverseOut parent seg) with
        | .partialPath _ _ _ _ => []
        | .node a =>
          match Fog.explore fog p a.subs with
          | .error _ => []
          | .ok fog' =>
            (p, a.raw) :: nodesLoop t fuel fog'
              (if a.subs ≠ [] then Frontier.add cache p a.raw a.subs else Frontier.delete cache p) := rfl

theorem nodesLoopD_refines_aux (hlen : ∀ b, (H b).length = 32) (db : Db) (root : Hash) (t : Node) (hc : Canon t)
    (hroot : RootPartial H db root t) (hrootIn : isBlank t = false → (lookup db root).isSome)
    (hst : StoredD H db t) (fuel : Nat) :
    ∀ (fog : Fog) (cache : Frontier Node), CacheStD H db cache →
    nodesLoopD H db root fuel fog (mapCache H cache) =
      .ok ((nodesLoop t fuel fog cache).map (fun e => (e.1, Ann.toD H (annotate e.2)))) := by
  induction fuel with
  | zero => intro fog cache _; rfl
  | succ fuel ih =>
    intro fog cache hcache
    rw [nodesLoop_succ]
    unfold nodesLoopD
    cases hnr : nearestRight fog [] with
    | error e => rfl
    | ok p =>
      simp only
      rw [walkTraverseD_stored H hlen db root t hc hroot hrootIn hst fog cache hcache p]
      -- the node the traversal started from
      have hv : ∃ v p', Canon v ∧ StoredD H db v ∧
          (match Frontier.get cache p with
            | none => traverseOut t p
            | some (parent, seg) => traverseOut parent seg) = traverseOut v p' := by
        cases hg : Frontier.get cache p with
        | none => exact ⟨t, p, hc, hst, rfl⟩
        | some e =>
          obtain ⟨parent, seg⟩ := e
          obtain ⟨hcp, hsp⟩ := hcache p parent seg hg
          exact ⟨parent, seg, hcp, hsp, rfl⟩
      obtain ⟨v, p', hcv, hsv, hout⟩ := hv
      rw [hout]
      cases ho : traverseOut v p' with
      | partialPath tr a tail sim => rfl
      | node a =>
        simp only [TravOut.toD]
        have ha := traverseOut_node ho
        have hraw : Canon a.raw ∧ StoredD H db a.raw := by
          rw [ha, annotate_raw]
          exact storedD_traverseT H db v p' hcv hsv
        have hann : annotate a.raw = a := by rw [ha, annotate_raw]
        have hsubs : (Ann.toD H a).subs = a.subs := rfl
        have hrawD : (Ann.toD H a).raw = toItem H a.raw := rfl
        rw [hsubs, hrawD]
        cases he : Fog.explore fog p a.subs with
        | error e => rfl
        | ok fog' =>
          simp only
          have hcache' : CacheStD H db
              (if a.subs ≠ [] then Frontier.add cache p a.raw a.subs else Frontier.delete cache p) := by
            split
            · exact cacheStD_add H hcache p a.raw hraw a.subs
            · exact cacheStD_erase H hcache p
          have hmap : (if a.subs ≠ [] then Frontier.add (mapCache H cache) p (toItem H a.raw) a.subs
                else Frontier.delete (mapCache H cache) p) =
              mapCache H (if a.subs ≠ [] then Frontier.add cache p a.raw a.subs else Frontier.delete cache p) := by
            split
            · exact mapC_add H cache p a.raw a.subs
            · exact mapC_delete H cache p
          rw [hmap, ih fog' _ hcache']
          simp only [List.map_cons, hann]

/-- **the raw-level loop = the tree-level loop** on a stored canonical trie (complete database: no node is missing) -/
theorem nodesLoopD_refines (hlen : ∀ b, (H b).length = 32) (db : Db) (root : Hash) (t : Node) (hc : Canon t)
    (hroot : RootPartial H db root t) (hrootIn : isBlank t = false → (lookup db root).isSome)
    (hst : StoredD H db t) (fuel : Nat) (fog : Fog) (cache : Frontier Node)
    (hcache : ∀ p parent seg, Frontier.get cache p = some (parent, seg) → Canon parent ∧ StoredD H db parent) :
    nodesLoopD H db root fuel fog (mapCache H cache) =
      .ok ((nodesLoop t fuel fog cache).map (fun e => (e.1, Ann.toD H (annotate e.2)))) :=
  nodesLoopD_refines_aux H hlen db root t hc hroot hrootIn hst fuel fog cache hcache

theorem nodesOfD_refines (hlen : ∀ b, (H b).length = 32) (db : Db) (root : Hash) (t : Node) (hc : Canon t)
    (hroot : RootPartial H db root t) (hrootIn : isBlank t = false → (lookup db root).isSome)
    (hst : StoredD H db t) (fuel : Nat) :
    nodesOfD H db root fuel = .ok ((nodesOf t fuel).map (fun e => (e.1, Ann.toD H (annotate e.2)))) := by
  have h := nodesLoopD_refines H hlen db root t hc hroot hrootIn hst fuel Fog.init []
    (fun p parent seg hg => by simp [Frontier.get] at hg)
  exact h

end PyTrie.HexD
