import PyTrie.Model.BranchRaw
import PyTrie.Lemmas.BinRawRefines
import PyTrie.Lemmas.BranchProofs
/-! The raw-level transcription of `trie/branches.py` (over hashes and the database) computes, on a database that
    stores a canonical tree, the encodings of what the tree-level functions return. -/
namespace PyTrie.BranchRaw
open PyTrie PyTrie.Bin PyTrie.BinRaw

variable (H : Bytes → Bytes)

def bheight : BNode → Nat
  | .leaf _ => 0
  | .kv _ c => bheight c + 1
  | .branch l r => max (bheight l) (bheight r) + 1

def keyErr : KeyErr → Err
  | .tooLong => .tooLong
  | .tooShort => .tooShort

def liftR (r : Except KeyErr (List BNode)) : Except Err (List Bytes) :=
  match r with
  | .ok l => .ok (l.map (encNode H))
  | .error e => .error (keyErr e)

/-! ### helpers -/

theorem parse_enc (hlen : ∀ b, (H b).length = 32) (n : BNode) (hc : BCanon n) :
    parse (encNode H n) = .ok (parsedOf H n) := by
  have := parseNode_encNode H hlen n hc
  simp only [parse, this]
  cases n <;> rfl

theorem allStored_kv {db : Db} {p : Bits} {c : BNode} (h : AllStored H db (.kv p c)) : AllStored H db c :=
  fun n hn => h n (Sub.kv p hn)

theorem allStored_left {db : Db} {l r : BNode} (h : AllStored H db (.branch l r)) : AllStored H db l :=
  fun n hn => h n (Sub.left r hn)

theorem allStored_right {db : Db} {l r : BNode} (h : AllStored H db (.branch l r)) : AllStored H db r :=
  fun n hn => h n (Sub.right l hn)

theorem take_eq_iff_prefix (p k : Bits) : k.take p.length = p ↔ p <+: k := by
  rw [List.prefix_iff_eq_take]; exact eq_comm

theorem eq_take_iff_prefix (p k : Bits) : k = p.take k.length ↔ k <+: p :=
  List.prefix_iff_eq_take.symm

theorem liftR_map_cons (r : Except KeyErr (List BNode)) (x : BNode) :
    liftR H (r.map (x :: ·)) = (liftR H r).map (encNode H x :: ·) := by
  cases r <;> rfl

theorem liftR_map_app (r : Except KeyErr (List BNode)) (hd : List BNode) (x : BNode) :
    liftR H (r.map (fun w => hd ++ x :: w)) = (liftR H r).map (fun w => hd.map (encNode H) ++ encNode H x :: w) := by
  cases r <;> simp [liftR, Except.map]

/-! ### one step of each function once the node is found and parsed -/

theorem existsD_step (blank : Hash) (db : Db) (fuel : Nat) (h : Hash) (k : Bits) (body : Bytes) (pn : Parsed)
    (hne : h ≠ blank) (hl : lookup db h = some body) (hp : parse body = .ok pn) :
    existsD blank db (fuel + 1) h k = (match pn with
      | .leaf _ => if k ≠ [] then .ok false else .ok true
      | .kv p c =>
        if k = [] then .ok true
        else if k.length < p.length then (if k = p.take k.length then .ok true else .ok false)
        else if k.take p.length = p then existsD blank db fuel c (k.drop p.length) else .ok false
      | .branch l r =>
        if k = [] then .ok true
        else if k.take 1 = [false] then existsD blank db fuel l (k.drop 1)
        else existsD blank db fuel r (k.drop 1)) := by
  rw [existsD, if_neg hne]
  simp only [hl, hp]
  cases pn <;> rfl

theorem getBranchD_step (blank : Hash) (db : Db) (fuel : Nat) (h : Hash) (k : Bits) (node : Bytes) (pn : Parsed)
    (hne : h ≠ blank) (hl : lookup db h = some node) (hp : parse node = .ok pn) :
    getBranchD blank db (fuel + 1) h k = (match pn with
      | .leaf _ => if k = [] then .ok [node] else .error .tooLong
      | .kv p c =>
        if k = [] then .error .tooShort
        else if k.take p.length = p then (getBranchD blank db fuel c (k.drop p.length)).map (node :: ·)
        else .ok [node]
      | .branch l r =>
        if k = [] then .error .tooShort
        else if k.take 1 = [false] then (getBranchD blank db fuel l (k.drop 1)).map (node :: ·)
        else (getBranchD blank db fuel r (k.drop 1)).map (node :: ·)) := by
  rw [getBranchD, if_neg hne]
  simp only [hl, hp]
  cases pn <;> rfl

theorem trieNodesD_step (db : Db) (fuel : Nat) (h : Hash) (node : Bytes) (pn : Parsed)
    (hl : lookup db h = some node) (hp : parse node = .ok pn) :
    trieNodesD db (fuel + 1) h = (match pn with
      | .kv _ c => (trieNodesD db fuel c).map (node :: ·)
      | .branch l r =>
        match trieNodesD db fuel l with
        | .error e => .error e
        | .ok ls => (trieNodesD db fuel r).map (fun rs => node :: (ls ++ rs))
      | .leaf _ => .ok [node]) := by
  rw [trieNodesD]
  simp only [hl, hp]
  cases pn <;> rfl

theorem witnessD_step (db : Db) (tfuel fuel : Nat) (h : Hash) (k : Bits) (node : Bytes) (pn : Parsed) (head : List Bytes)
    (hh : (if k = [] then trieNodesD db tfuel h else .ok []) = .ok head)
    (hl : lookup db h = some node) (hp : parse node = .ok pn) :
    witnessD db tfuel (fuel + 1) h k = (match pn with
      | .leaf _ => if k ≠ [] then .error .tooLong else .ok head
      | .kv p c =>
        if k.length < p.length ∧ p.take k.length = k then
          (trieNodesD db tfuel c).map (fun w => head ++ node :: w)
        else if k.take p.length = p then
          (witnessD db tfuel fuel c (k.drop p.length)).map (fun w => head ++ node :: w)
        else .ok (head ++ [node])
      | .branch l r =>
        if k.take 1 = [false] then (witnessD db tfuel fuel l (k.drop 1)).map (fun w => head ++ node :: w)
        else (witnessD db tfuel fuel r (k.drop 1)).map (fun w => head ++ node :: w)) := by
  rw [witnessD]
  simp only [hh, hl, hp]
  cases pn <;> rfl

theorem existsD_refines (hlen : ∀ b, (H b).length = 32) (t : BNode) (hc : BCanon t) (db : Db) (hst : AllStored H db t)
    (k : Bits) (fuel : Nat) (hf : k.length + 1 < fuel) :
    existsD (H []) db fuel (hashNode H t) k = .ok (branchExists t k) := by
  induction t generalizing k fuel with
  | leaf v =>
    cases fuel with
    | zero => omega
    | succ f =>
      obtain ⟨hne, hl⟩ := hst _ (Sub.refl _)
      rw [existsD_step _ _ _ _ _ _ _ hne hl (parse_enc H hlen _ hc)]
      simp only [parsedOf, branchExists]
      by_cases hk : k = [] <;> simp [hk]
  | kv p c ih =>
    cases fuel with
    | zero => omega
    | succ f =>
      obtain ⟨hne, hl⟩ := hst _ (Sub.refl _)
      rw [existsD_step _ _ _ _ _ _ _ hne hl (parse_enc H hlen _ hc)]
      simp only [parsedOf, branchExists]
      by_cases hk : k = []
      · simp [hk]
      · simp only [hk, ↓reduceIte]
        by_cases hlt : k.length < p.length
        · simp only [hlt, ↓reduceIte, eq_take_iff_prefix]
          by_cases hpre : k <+: p <;> simp [hpre]
        · simp only [hlt, ↓reduceIte, take_eq_iff_prefix]
          by_cases hpre : p <+: k
          · simp only [hpre, ↓reduceIte]
            have hplen : 0 < p.length := List.length_pos_iff.2 hc.1
            exact ih hc.2.2 (allStored_kv H hst) _ _ (by rw [List.length_drop]; omega)
          · simp [hpre]
  | branch l r ihl ihr =>
    cases fuel with
    | zero => omega
    | succ f =>
      obtain ⟨hne, hl⟩ := hst _ (Sub.refl _)
      rw [existsD_step _ _ _ _ _ _ _ hne hl (parse_enc H hlen _ hc)]
      simp only [parsedOf]
      cases k with
      | nil => simp [branchExists]
      | cons b k' =>
        simp only [List.length_cons] at hf
        cases b with
        | false =>
          simp only [branchExists, List.take_succ_cons, List.take_zero, List.drop_succ_cons, List.drop_zero,
            reduceCtorEq, ↓reduceIte]
          exact ihl hc.1 (allStored_left H hst) _ _ (by omega)
        | true =>
          simp only [branchExists, List.take_succ_cons, List.take_zero, List.drop_succ_cons, List.drop_zero,
            reduceCtorEq, ↓reduceIte, List.cons.injEq, Bool.true_eq_false, and_true]
          exact ihr hc.2 (allStored_right H hst) _ _ (by omega)

theorem getBranchD_refines (hlen : ∀ b, (H b).length = 32) (t : BNode) (hc : BCanon t) (db : Db) (hst : AllStored H db t)
    (k : Bits) (fuel : Nat) (hf : k.length + 1 < fuel) :
    getBranchD (H []) db fuel (hashNode H t) k = liftR H (getBranch t k) := by
  induction t generalizing k fuel with
  | leaf v =>
    cases fuel with
    | zero => omega
    | succ f =>
      obtain ⟨hne, hl⟩ := hst _ (Sub.refl _)
      rw [getBranchD_step _ _ _ _ _ _ _ hne hl (parse_enc H hlen _ hc)]
      simp only [parsedOf, getBranch]
      by_cases hk : k = [] <;> simp [hk, liftR, keyErr]
  | kv p c ih =>
    cases fuel with
    | zero => omega
    | succ f =>
      obtain ⟨hne, hl⟩ := hst _ (Sub.refl _)
      rw [getBranchD_step _ _ _ _ _ _ _ hne hl (parse_enc H hlen _ hc)]
      simp only [parsedOf, getBranch]
      by_cases hk : k = []
      · simp [hk, liftR, keyErr]
      · simp only [hk, ↓reduceIte, take_eq_iff_prefix]
        by_cases hpre : p <+: k
        · simp only [hpre, ↓reduceIte]
          have hplen : 0 < p.length := List.length_pos_iff.2 hc.1
          have hklen : 0 < k.length := List.length_pos_iff.2 hk
          rw [liftR_map_cons, ih hc.2.2 (allStored_kv H hst) _ _ (by rw [List.length_drop]; omega)]
        · simp [hpre, liftR]
  | branch l r ihl ihr =>
    cases fuel with
    | zero => omega
    | succ f =>
      obtain ⟨hne, hl⟩ := hst _ (Sub.refl _)
      rw [getBranchD_step _ _ _ _ _ _ _ hne hl (parse_enc H hlen _ hc)]
      simp only [parsedOf]
      cases k with
      | nil => simp [getBranch, liftR, keyErr]
      | cons b k' =>
        simp only [List.length_cons] at hf
        cases b with
        | false =>
          simp only [getBranch, List.take_succ_cons, List.take_zero, List.drop_succ_cons, List.drop_zero,
            reduceCtorEq, ↓reduceIte]
          rw [liftR_map_cons, ihl hc.1 (allStored_left H hst) _ _ (by omega)]
        | true =>
          simp only [getBranch, List.take_succ_cons, List.take_zero, List.drop_succ_cons, List.drop_zero,
            reduceCtorEq, ↓reduceIte, List.cons.injEq, Bool.true_eq_false, and_true]
          rw [liftR_map_cons, ihr hc.2 (allStored_right H hst) _ _ (by omega)]

theorem trieNodesD_refines (hlen : ∀ b, (H b).length = 32) (t : BNode) (hc : BCanon t) (db : Db) (hst : AllStored H db t)
    (fuel : Nat) (hf : bheight t < fuel) :
    trieNodesD db fuel (hashNode H t) = .ok ((trieNodes t).map (encNode H)) := by
  induction t generalizing fuel with
  | leaf v =>
    cases fuel with
    | zero => omega
    | succ f =>
      obtain ⟨_, hl⟩ := hst _ (Sub.refl _)
      rw [trieNodesD_step _ _ _ _ _ hl (parse_enc H hlen _ hc)]
      simp [parsedOf, trieNodes]
  | kv p c ih =>
    cases fuel with
    | zero => omega
    | succ f =>
      obtain ⟨_, hl⟩ := hst _ (Sub.refl _)
      rw [trieNodesD_step _ _ _ _ _ hl (parse_enc H hlen _ hc)]
      simp only [parsedOf, bheight] at hf ⊢
      rw [ih hc.2.2 (allStored_kv H hst) _ (by omega)]
      simp [trieNodes, Except.map]
  | branch l r ihl ihr =>
    cases fuel with
    | zero => omega
    | succ f =>
      obtain ⟨_, hl⟩ := hst _ (Sub.refl _)
      rw [trieNodesD_step _ _ _ _ _ hl (parse_enc H hlen _ hc)]
      simp only [parsedOf, bheight] at hf ⊢
      rw [ihl hc.1 (allStored_left H hst) _ (by omega), ihr hc.2 (allStored_right H hst) _ (by omega)]
      simp [trieNodes, Except.map]

/-- the general form: the recursion depth of `witnessD` is bounded by the height of the tree (with the empty
    key the code keeps descending into right children, so a bound in terms of `k.length` alone is not enough) -/
theorem witnessD_refines_of_height (hlen : ∀ b, (H b).length = 32) (t : BNode) (hc : BCanon t) (db : Db)
    (hst : AllStored H db t) (k : Bits) (tfuel fuel : Nat) (htf : bheight t < tfuel) (hf : bheight t < fuel) :
    witnessD db tfuel fuel (hashNode H t) k = liftR H (getWitness t k) := by
  induction t generalizing k fuel with
  | leaf v =>
    cases fuel with
    | zero => omega
    | succ f =>
      obtain ⟨_, hl⟩ := hst _ (Sub.refl _)
      have hh : (if k = [] then trieNodesD db tfuel (hashNode H (.leaf v)) else .ok []) =
          .ok ((if k = [] then trieNodes (.leaf v) else []).map (encNode H)) := by
        split
        · rw [trieNodesD_refines H hlen _ hc db hst tfuel htf]
        · rfl
      rw [witnessD_step _ _ _ _ _ _ _ _ hh hl (parse_enc H hlen _ hc)]
      simp only [parsedOf, getWitness]
      by_cases hk : k = [] <;> simp [hk, liftR, keyErr]
  | kv p c ih =>
    cases fuel with
    | zero => omega
    | succ f =>
      obtain ⟨_, hl⟩ := hst _ (Sub.refl _)
      have hh : (if k = [] then trieNodesD db tfuel (hashNode H (.kv p c)) else .ok []) =
          .ok ((if k = [] then trieNodes (.kv p c) else []).map (encNode H)) := by
        split
        · rw [trieNodesD_refines H hlen _ hc db hst tfuel htf]
        · rfl
      rw [witnessD_step _ _ _ _ _ _ _ _ hh hl (parse_enc H hlen _ hc)]
      simp only [bheight] at htf hf
      simp only [parsedOf, getWitness, take_eq_iff_prefix]
      by_cases h1 : k.length < p.length ∧ k <+: p
      · rw [if_pos h1, if_pos h1, trieNodesD_refines H hlen _ hc.2.2 db (allStored_kv H hst) tfuel (by omega)]
        simp [liftR, Except.map]
      · rw [if_neg h1, if_neg h1]
        by_cases hpre : p <+: k
        · rw [if_pos hpre, if_pos hpre, liftR_map_app,
            ih hc.2.2 (allStored_kv H hst) _ _ (by omega) (by omega)]
        · rw [if_neg hpre, if_neg hpre]
          simp [liftR]
  | branch l r ihl ihr =>
    cases fuel with
    | zero => omega
    | succ f =>
      obtain ⟨_, hl⟩ := hst _ (Sub.refl _)
      have hh : (if k = [] then trieNodesD db tfuel (hashNode H (.branch l r)) else .ok []) =
          .ok ((if k = [] then trieNodes (.branch l r) else []).map (encNode H)) := by
        split
        · rw [trieNodesD_refines H hlen _ hc db hst tfuel htf]
        · rfl
      rw [witnessD_step _ _ _ _ _ _ _ _ hh hl (parse_enc H hlen _ hc)]
      simp only [bheight] at htf hf
      simp only [parsedOf]
      cases k with
      | nil =>
        simp only [getWitness, List.take_nil, List.drop_nil, reduceCtorEq, ↓reduceIte]
        rw [liftR_map_app, ihr hc.2 (allStored_right H hst) _ _ (by omega) (by omega)]
      | cons b k' =>
        cases b with
        | false =>
          simp only [getWitness, List.take_succ_cons, List.take_zero, List.drop_succ_cons, List.drop_zero,
            reduceCtorEq, ↓reduceIte]
          rw [liftR_map_app, ihl hc.1 (allStored_left H hst) _ _ (by omega) (by omega)]
        | true =>
          simp only [getWitness, List.take_succ_cons, List.take_zero, List.drop_succ_cons, List.drop_zero,
            reduceCtorEq, ↓reduceIte, List.cons.injEq, Bool.true_eq_false, and_true]
          rw [liftR_map_app, ihr hc.2 (allStored_right H hst) _ _ (by omega) (by omega)]

/-- STATEMENT CHANGED: the original bound `k.length + 1 < fuel` is not enough (with the key exhausted at a branch
    node the code keeps descending into right children with the empty key: `t = branch (leaf [1]) (branch (leaf [2])
    (leaf [3]))`, `k = []`, `fuel = 2` gives `.error .fuel`). The bound now also covers the height of the tree. -/
theorem witnessD_refines (hlen : ∀ b, (H b).length = 32) (t : BNode) (hc : BCanon t) (db : Db) (hst : AllStored H db t)
    (k : Bits) (tfuel fuel : Nat) (htf : bheight t < tfuel) (hf : k.length + bheight t + 1 < fuel) :
    witnessD db tfuel fuel (hashNode H t) k = liftR H (getWitness t k) :=
  witnessD_refines_of_height H hlen t hc db hst k tfuel fuel htf (by omega)

/-- the empty trie: root hash `H []` is never a key of a database written by the trie; here simply absent -/
theorem top_blank (db : Db) (hb : lookup db (H []) = none) (k : Bits) (tfuel fuel : Nat) (hf : 0 < fuel) (htf : 0 < tfuel) :
    existsD (H []) db fuel (H []) k = .ok false ∧ getBranchD (H []) db fuel (H []) k = .ok [] ∧
    trieNodesD db tfuel (H []) = .ok [] ∧ witnessD db tfuel fuel (H []) k = .ok [] := by
  have ht : trieNodesD db tfuel (H []) = .ok [] := by
    cases tfuel with
    | zero => omega
    | succ tf => rw [trieNodesD]; simp only [hb]
  cases fuel with
  | zero => omega
  | succ f =>
    refine ⟨?_, ?_, ht, ?_⟩
    · rw [existsD, if_pos rfl]
    · rw [getBranchD, if_pos rfl]
    · rw [witnessD]
      simp only [ht, ite_self, hb]

end PyTrie.BranchRaw
