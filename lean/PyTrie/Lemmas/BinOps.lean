import PyTrie.Lemmas.BinBasic
/-! Map semantics of delete / delete_subtrie and the override conditions, under `WF`. -/
namespace PyTrie.Bin
open BNode

/-- same as `Related` of `BinProofs` -/
def Rel (a b : Bits) : Prop := a ≠ b ∧ (a <+: b ∨ b <+: a)

theorem cpl_comm (p k : Bits) : cpl p k = cpl k p := by
  induction p generalizing k with
  | nil => cases k <;> simp [cpl]
  | cons a as ih =>
    cases k with
    | nil => simp [cpl]
    | cons b bs =>
      simp only [cpl]
      by_cases h : a = b
      · subst h; simp [ih]
      · simp [h, Ne.symm h]

theorem bget_kv_some (p : Bits) (c : BNode) (k : Bits) (v : Bytes) :
    bget (kv p c) k = some v ↔ k ≠ [] ∧ ∃ r, k = p ++ r ∧ bget c r = some v := by
  rw [bget_kv]
  constructor
  · intro h
    split at h
    · cases h
    · next hk =>
      split at h
      · next hp => obtain ⟨r, rfl⟩ := hp; exact ⟨hk, r, rfl, by simpa using h⟩
      · cases h
  · rintro ⟨hk, r, rfl, h⟩
    rw [if_neg hk, if_pos (List.prefix_append _ _), List.drop_left]; exact h

theorem wf_exists_key (t : BNode) (h : WF t) : ∃ k v, bget t k = some v := by
  induction t with
  | leaf v => exact ⟨[], v, rfl⟩
  | kv p c ih =>
    obtain ⟨k, v, hkv⟩ := ih h.2
    exact ⟨p ++ k, v, (bget_kv_some ..).2 ⟨by simp [h.1], k, rfl, hkv⟩⟩
  | branch l r ihl _ =>
    obtain ⟨k, v, hkv⟩ := ihl h.1
    exact ⟨false :: k, v, by simpa [bget_branch_cons] using hkv⟩

theorem prefix_key_eq (t : BNode) (a b : Bits) (va vb : Bytes)
    (ha : bget t a = some va) (hb : bget t b = some vb) (hp : a <+: b) : a = b := by
  induction t generalizing a b with
  | leaf v =>
    simp only [bget_leaf] at ha hb
    split at ha
    · split at hb
      · simp_all
      · cases hb
    · cases ha
  | kv p c ih =>
    obtain ⟨_, ra, rfl, ha'⟩ := (bget_kv_some ..).1 ha
    obtain ⟨_, rb, rfl, hb'⟩ := (bget_kv_some ..).1 hb
    have : ra <+: rb := by simpa [List.prefix_append_right_inj] using hp
    rw [ih ra rb ha' hb' this]
  | branch l r ihl ihr =>
    cases a with
    | nil => simp [bget_branch_nil] at ha
    | cons x a1 =>
      cases b with
      | nil => simp [bget_branch_nil] at hb
      | cons y b1 =>
        obtain ⟨hxy, hp1⟩ := List.cons_prefix_cons.1 hp
        subst hxy
        rw [bget_branch_cons] at ha hb
        split at ha
        · next hx => rw [if_pos hx] at hb; rw [ihl a1 b1 ha hb hp1]
        · next hx => rw [if_neg hx] at hb; rw [ihr a1 b1 ha hb hp1]

theorem rel_kv (p : Bits) (c : BNode) (kr : Bits) (hp : p ≠ []) :
    (∃ k' v', bget (kv p c) k' = some v' ∧ Rel k' (p ++ kr)) ↔
      (∃ k' v', bget c k' = some v' ∧ Rel k' kr) := by
  constructor
  · rintro ⟨k', v', h1, h2, h3⟩
    obtain ⟨_, r, rfl, h4⟩ := (bget_kv_some ..).1 h1
    exact ⟨r, v', h4, by simpa using h2, by simpa [List.prefix_append_right_inj] using h3⟩
  · rintro ⟨k', v', h1, h2, h3⟩
    exact ⟨p ++ k', v', (bget_kv_some ..).2 ⟨by simp [hp], k', rfl, h1⟩, by simpa using h2,
      by simpa [List.prefix_append_right_inj] using h3⟩

theorem rel_branch (l r : BNode) (b : Bool) (k1 : Bits) :
    (∃ k' v', bget (branch l r) k' = some v' ∧ Rel k' (b :: k1)) ↔
      (∃ k' v', bget (if b = false then l else r) k' = some v' ∧ Rel k' k1) := by
  constructor
  · rintro ⟨k', v', h1, h2, h3⟩
    cases k' with
    | nil => simp [bget_branch_nil] at h1
    | cons b' k2 =>
      have hb : b' = b := by
        rcases h3 with h3 | h3
        · exact (List.cons_prefix_cons.1 h3).1
        · exact (List.cons_prefix_cons.1 h3).1.symm
      subst hb
      rw [bget_branch_cons] at h1
      have h1' : bget (if b' = false then l else r) k2 = some v' := by cases b' <;> exact h1
      exact ⟨k2, v', h1', by simpa using h2, by simpa [List.cons_prefix_cons] using h3⟩
  · rintro ⟨k', v', h1, h2, h3⟩
    exact ⟨b :: k', v', by rw [bget_branch_cons]; cases b <;> exact h1, by simpa using h2,
      by simpa [List.cons_prefix_cons] using h3⟩

theorem prefix_iff_cpl (p k : Bits) : k <+: p ↔ k.length ≤ cpl p k := by
  have h1 := cpl_le_left k p
  have h2 := cpl_eq_length_iff k p
  rw [cpl_comm] at h1 h2
  rw [← h2]; omega

theorem bset_override_iff (t : BNode) (ht : WF t) (k : Bits) (v : Bytes) (hv : v ≠ []) :
    bset t k v false = .error .override ↔ ∃ k' v', bget t k' = some v' ∧ Rel k' k := by
  induction t generalizing k with
  | leaf x =>
    simp only [bset]
    by_cases hk : k = []
    · subst hk
      simp only [ne_eq, not_true_eq_false, ↓reduceIte, Bool.false_eq_true]
      constructor
      · intro h; cases h
      · rintro ⟨k', v', h1, h2, _⟩
        rw [bget_leaf] at h1
        split at h1
        · contradiction
        · cases h1
    · simp only [ne_eq, hk, not_false_eq_true, ↓reduceIte, true_iff]
      exact ⟨[], x, rfl, Ne.symm hk, .inl (List.nil_prefix)⟩
  | kv p c ih =>
    obtain ⟨hp, hc⟩ := ht
    simp only [bset]
    split
    · next hk =>
      subst hk
      simp only [Bool.false_eq_true, ↓reduceIte, true_iff]
      obtain ⟨k', v', h⟩ := wf_exists_key (kv p c) ⟨hp, hc⟩
      exact ⟨k', v', h, ((bget_kv_some ..).1 h).1, .inr List.nil_prefix⟩
    · next hk =>
      simp only [Bool.false_eq_true, false_and, ↓reduceIte]
      split
      · next hpre =>
        obtain ⟨kr, rfl⟩ := hpre
        simp only [List.drop_left]
        rw [rel_kv p c kr hp, ← ih hc kr]
        cases hr : bset c kr v false with
        | error e => cases e; simp
        | ok o => cases o <;> simp
      · next hpre =>
        simp only [hv, false_or, ↓reduceIte]
        constructor
        · intro h
          split at h
          · next hlen =>
            have hkp : k <+: p := (prefix_iff_cpl p k).2 hlen
            obtain ⟨k', v', h1⟩ := wf_exists_key (kv p c) ⟨hp, hc⟩
            obtain ⟨_, r, rfl, h4⟩ := (bget_kv_some ..).1 h1
            refine ⟨p ++ r, v', h1, ?_, .inr (hkp.trans (List.prefix_append _ _))⟩
            intro e; exact hpre (e ▸ List.prefix_append _ _)
          · cases h
        · rintro ⟨k', v', h1, h2, h3⟩
          obtain ⟨_, r, rfl, h4⟩ := (bget_kv_some ..).1 h1
          have hkp : k <+: p := by
            rcases h3 with h3 | h3
            · exact absurd ((List.prefix_append _ _).trans h3) hpre
            · rcases List.prefix_or_prefix_of_prefix h3 (List.prefix_append p r) with h5 | h5
              · exact h5
              · exact absurd h5 hpre
          rw [if_pos ((prefix_iff_cpl p k).1 hkp)]
  | branch l r ihl ihr =>
    obtain ⟨hl, hr⟩ := ht
    cases k with
    | nil =>
      simp only [bset, Bool.false_eq_true, ↓reduceIte, true_iff]
      obtain ⟨k', v', h⟩ := wf_exists_key (branch l r) ⟨hl, hr⟩
      refine ⟨k', v', h, ?_, .inr List.nil_prefix⟩
      rintro rfl; simp [bget_branch_nil] at h
    | cons b k1 =>
      rw [rel_branch]
      simp only [bset]
      split
      · next hb =>
        rw [← ihl hl k1]
        cases hr : bset l k1 v false with
        | error e => cases e; simp
        | ok o => cases o <;> simp
      · next hb =>
        rw [← ihr hr k1]
        cases hr : bset r k1 v false with
        | error e => cases e; simp
        | ok o => cases o <;> simp

end PyTrie.Bin
