import PyTrie.Lemmas.FogProofs
import PyTrie.Lemmas.HexTravProofs
/-! The fog-guided walk (C09), abstractly. A walk state is the fog plus the (key, value) pairs met so
    far. One step takes an unexplored prefix `p` and the description (`traverseOut … |>.desc`: the node, or
    the simulated node when the path ends inside a leaf / extension) of *some version* `t` of the trie at
    `p` — the current one when traversing from the root, an older one when a frontier-cache entry is
    used (`traverse_from (node at parent) seg = traverse (parent ++ seg)`, C08) — and explores. -/
namespace PyTrie.Walk
open PyTrie PyTrie.Hex PyTrie.Fog

structure WState where
  fog : Fog
  met : List (Path × Bytes)

def start : WState := ⟨Fog.init, []⟩

/-- one walk step with version `t` at prefix `p`; `none` = the step could not be carried out
    (no description, or `explore` rejected it) -/
def wstep (s : WState) (t : Node) (p : Path) : Option WState :=
  match (traverseOut t p).desc with
  | none => none
  | some d =>
    match Fog.explore s.fog p d.subs with
    | .ok f' => some ⟨f', if d.value ≠ [] then (p ++ d.suffix, d.value) :: s.met else s.met⟩
    | .error _ => none

/-- a schedule: which version is consulted at which prefix, step by step (mutations between steps
    only change which versions appear later) -/
def wrun (s : WState) : List (Node × Path) → Option WState
  | [] => some s
  | (t, p) :: rest => match wstep s t p with
    | some s' => wrun s' rest
    | none => none

/-- every step takes a prefix that is unexplored at that moment -/
def Valid (s : WState) : List (Node × Path) → Prop
  | [] => True
  | (t, p) :: rest => p ∈ s.fog ∧ ∀ s', wstep s t p = some s' → Valid s' rest

/-! ### helper lemmas -/

/-- the sub-segments of any description are duplicate-free and at most 16 -/
theorem annotate_subs_small (n : Node) : (annotate n).subs.Nodup ∧ (annotate n).subs.length ≤ 16 := by
  cases n with
  | blank => simp [annotate]
  | leaf q v => simp [annotate]
  | ext q c => simp [annotate]
  | branch ch v =>
    simp only [annotate, List.length_map]
    refine ⟨?_, ?_⟩
    · refine List.Pairwise.map _ ?_ (liveIdx_nodup ch)
      intro a b hab h
      exact hab (by simpa using h)
    · have := List.length_filter_le (fun i => !(isBlank (ch i))) (List.finRange 16)
      simpa [liveIdx] using this

theorem simulate_subs_small (a : Ann) (tail : Path) (d : Ann) (h : simulate a tail = some d) :
    d.subs.Nodup ∧ d.subs.length ≤ 16 := by
  unfold simulate at h
  split at h
  · split at h
    · simp only [Option.map_eq_some_iff] at h
      obtain ⟨r, _, rfl⟩ := h
      simp
    · cases h
  · split at h
    · cases h
    · split at h
      · cases h
      · simp only [Option.map_eq_some_iff] at h
        obtain ⟨r, _, rfl⟩ := h
        simp
  · cases h

theorem desc_subs_small (t : Node) (p : Path) (d : Ann) (hd : (traverseOut t p).desc = some d) :
    d.subs.Nodup ∧ d.subs.length ≤ 16 := by
  rw [desc_eq] at hd
  unfold descOf at hd
  split at hd
  · cases hd; exact annotate_subs_small _
  · exact simulate_subs_small _ _ _ hd

theorem desc_exists (t : Node) (hc : Canon t) (p : Path) : ∃ d, (traverseOut t p).desc = some d := by
  cases h : traverseOut t p with
  | node a => exact ⟨a, rfl⟩
  | partialPath tr a tail sim =>
    have := (traverse_partial_sim t hc p tr tail a sim h).1
    cases sim with
    | none => simp at this
    | some d => exact ⟨d, rfl⟩

/-- unfolding a successful step -/
theorem wstep_some {s s' : WState} {t : Node} {p : Path} (h : wstep s t p = some s') :
    ∃ d f', (traverseOut t p).desc = some d ∧ Fog.explore s.fog p d.subs = .ok f' ∧
      s' = ⟨f', if d.value ≠ [] then (p ++ d.suffix, d.value) :: s.met else s.met⟩ := by
  unfold wstep at h
  split at h
  · cases h
  · next d hd =>
    split at h
    · next f' hf =>
      cases h
      exact ⟨d, f', hd, hf, rfl⟩
    · cases h

/-- one step of the invariant -/
theorem wstep_invariant {s s1 : WState} (hw : Wf s.fog) {t : Node} (hc : Canon t) {p : Path}
    (h1 : wstep s t p = some s1) (k : Path) (val : Bytes) (hval : val ≠ []) (hst : get t k = val)
    (hinv : (k, val) ∈ s.met ∨ ∃ q ∈ s.fog, q <+: k) :
    Wf s1.fog ∧ ((k, val) ∈ s1.met ∨ ∃ q ∈ s1.fog, q <+: k) := by
  obtain ⟨d, f', hd, hf, rfl⟩ := wstep_some h1
  obtain ⟨hw', hmem⟩ := explore_spec s.fog hw p d.subs f' hf
  refine ⟨hw', ?_⟩
  simp only
  rcases hinv with hm | ⟨q, hq, hqk⟩
  · left
    split
    · exact List.mem_cons_of_mem _ hm
    · exact hm
  · by_cases hqp : q = p
    · subst hqp
      have hk : get t k ≠ [] := by rw [hst]; exact hval
      rcases traverse_covers t hc q d hd k hqk hk with ⟨e1, e2⟩ | ⟨s0, hs0, hsk⟩
      · left
        rw [hst] at e2
        have hv : d.value ≠ [] := by rw [e2]; exact hval
        rw [if_pos hv, e2, ← e1]
        exact List.mem_cons_self
      · exact Or.inr ⟨q ++ s0, (hmem _).2 (Or.inr ⟨s0, hs0, rfl⟩), hsk⟩
    · exact Or.inr ⟨q, (hmem q).2 (Or.inl ⟨hq, hqp⟩), hqk⟩

/-- one step of soundness -/
theorem wstep_sound {s s1 : WState} {t : Node} (hc : Canon t) {p : Path}
    (h1 : wstep s t p = some s1) (k : Path) (v : Bytes) (hm : (k, v) ∈ s1.met) :
    (k, v) ∈ s.met ∨ (v ≠ [] ∧ get t k = v) := by
  obtain ⟨d, f', hd, hf, rfl⟩ := wstep_some h1
  simp only at hm
  split at hm
  · next hv =>
    rcases List.mem_cons.1 hm with e | hm
    · simp only [Prod.mk.injEq] at e
      obtain ⟨rfl, rfl⟩ := e
      exact Or.inr ⟨hv, traverse_value t hc p d hd hv⟩
    · exact Or.inl hm
  · exact Or.inl hm

/-- `explore` never rejects the sub-segments of a description, so a step on an unexplored prefix
    of a well-formed fog always succeeds and keeps the fog well-formed -/
theorem wstep_defined (s : WState) (hw : Wf s.fog) (t : Node) (hc : Canon t) (p : Path) (hp : p ∈ s.fog) :
    ∃ s', wstep s t p = some s' ∧ Wf s'.fog := by
  obtain ⟨d, hd⟩ := desc_exists t hc p
  obtain ⟨f', hf⟩ := (explore_ok_iff s.fog p d.subs).2
    ⟨hp, (desc_subs_small t p d hd).1, (traverse_subs t hc p d hd).2⟩
  refine ⟨⟨f', if d.value ≠ [] then (p ++ d.suffix, d.value) :: s.met else s.met⟩, ?_,
    (explore_spec s.fog hw p d.subs f' hf).1⟩
  unfold wstep
  rw [hd]
  simp only [hf]

/-- **nothing stable is missed**: a key that holds `val` in every version consulted during the walk has
    been met with that value, or still lies under an unexplored prefix -/
theorem walk_invariant (sched : List (Node × Path)) (s s' : WState) (hw : Wf s.fog)
    (hcanon : ∀ e ∈ sched, Canon e.1) (k : Path) (val : Bytes) (hval : val ≠ [])
    (hstable : ∀ e ∈ sched, get e.1 k = val)
    (hinv : (k, val) ∈ s.met ∨ ∃ q ∈ s.fog, q <+: k)
    (hrun : wrun s sched = some s') :
    (k, val) ∈ s'.met ∨ ∃ q ∈ s'.fog, q <+: k := by
  induction sched generalizing s with
  | nil =>
    simp only [wrun, Option.some.injEq] at hrun
    subst hrun
    exact hinv
  | cons e rest ih =>
    obtain ⟨t, p⟩ := e
    simp only [wrun] at hrun
    cases h1 : wstep s t p with
    | none => rw [h1] at hrun; cases hrun
    | some s1 =>
      rw [h1] at hrun
      have hc : Canon t := hcanon (t, p) List.mem_cons_self
      have hst : get t k = val := hstable (t, p) List.mem_cons_self
      obtain ⟨hw1, hinv1⟩ := wstep_invariant hw hc h1 k val hval hst hinv
      exact ih s1 hw1 (fun e he => hcanon e (List.mem_cons_of_mem _ he))
        (fun e he => hstable e (List.mem_cons_of_mem _ he)) hinv1 hrun

theorem walk_finds_stable (sched : List (Node × Path)) (s' : WState)
    (hcanon : ∀ e ∈ sched, Canon e.1) (k : Path) (val : Bytes) (hval : val ≠ [])
    (hstable : ∀ e ∈ sched, get e.1 k = val)
    (hrun : wrun start sched = some s') (hdone : s'.fog = []) : (k, val) ∈ s'.met := by
  have := walk_invariant sched start s' wf_init hcanon k val hval hstable
    (Or.inr ⟨[], by simp [start, Fog.init], List.nil_prefix⟩) hrun
  rcases this with h | ⟨q, hq, _⟩
  · exact h
  · rw [hdone] at hq; cases hq

/-- **nothing is met that was never stored** -/
theorem walk_sound (sched : List (Node × Path)) (s s' : WState)
    (hcanon : ∀ e ∈ sched, Canon e.1) (hrun : wrun s sched = some s') (k : Path) (v : Bytes)
    (hm : (k, v) ∈ s'.met) : (k, v) ∈ s.met ∨ ∃ e ∈ sched, v ≠ [] ∧ get e.1 k = v := by
  induction sched generalizing s with
  | nil =>
    simp only [wrun, Option.some.injEq] at hrun
    subst hrun
    exact Or.inl hm
  | cons e rest ih =>
    obtain ⟨t, p⟩ := e
    simp only [wrun] at hrun
    cases h1 : wstep s t p with
    | none => rw [h1] at hrun; cases hrun
    | some s1 =>
      rw [h1] at hrun
      have hc : Canon t := hcanon (t, p) List.mem_cons_self
      rcases ih s1 (fun e he => hcanon e (List.mem_cons_of_mem _ he)) hrun with h | ⟨e, he, h⟩
      · rcases wstep_sound hc h1 k v h with h | h
        · exact Or.inl h
        · exact Or.inr ⟨(t, p), List.mem_cons_self, h⟩
      · exact Or.inr ⟨e, List.mem_cons_of_mem _ he, h⟩

/-- **exactness on an unchanging trie** -/
theorem walk_exact (t : Node) (hc : Canon t) (ps : List Path) (s' : WState)
    (hrun : wrun start (ps.map fun p => (t, p)) = some s') (hdone : s'.fog = []) (k : Path) (v : Bytes) :
    (k, v) ∈ s'.met ↔ v ≠ [] ∧ get t k = v := by
  have hcanon : ∀ e ∈ ps.map (fun p => (t, p)), Canon e.1 := by
    intro e he
    obtain ⟨p, _, rfl⟩ := List.mem_map.1 he
    exact hc
  constructor
  · intro hm
    rcases walk_sound _ start s' hcanon hrun k v hm with h | ⟨e, he, h⟩
    · simp [start] at h
    · obtain ⟨p, _, rfl⟩ := List.mem_map.1 he
      exact h
  · rintro ⟨hv, hg⟩
    refine walk_finds_stable _ s' hcanon k v hv ?_ hrun hdone
    intro e he
    obtain ⟨p, _, rfl⟩ := List.mem_map.1 he
    exact hg

/-- measure for termination: keys of all consulted versions have at most `L` nibbles -/
def mu (L : Nat) (f : Fog) : Nat := (f.map fun q => 17 ^ (L + 1 - q.length)).sum

/-- every unexplored prefix is the root prefix or has a stored key of some consulted version below it -/
def Grounded (L : Nat) (f : Fog) : Prop := ∀ q ∈ f, q.length ≤ L

theorem mu_cons (L : Nat) (x : Path) (f : Fog) : mu L (x :: f) = 17 ^ (L + 1 - x.length) + mu L f := by
  simp [mu]

theorem mu_insert_le (L : Nat) (f : Fog) (q : Path) :
    mu L (Fog.insert f q) ≤ mu L f + 17 ^ (L + 1 - q.length) := by
  induction f with
  | nil => simp [Fog.insert, mu]
  | cons x rest ih =>
    unfold Fog.insert
    split
    · simp only [mu_cons]
      generalize 17 ^ (L + 1 - q.length) = c
      omega
    · split
      · exact Nat.le_add_right _ _
      · simp only [mu_cons]
        generalize 17 ^ (L + 1 - q.length) = c at ih ⊢
        omega

theorem mu_foldl_le (L : Nat) (l : List Path) (f : Fog) :
    mu L (l.foldl Fog.insert f) ≤ mu L f + (l.map fun q => 17 ^ (L + 1 - q.length)).sum := by
  induction l generalizing f with
  | nil => simp
  | cons x xs ih =>
    simp only [List.foldl_cons, List.map_cons, List.sum_cons]
    have := ih (Fog.insert f x)
    have := mu_insert_le L f x
    omega

theorem erase_of_not_mem (f : Fog) (p : Path) (h : p ∉ f) : erase f p = f := by
  unfold erase
  rw [List.filter_eq_self]
  intro a ha
  have : a ≠ p := fun e => h (e ▸ ha)
  simp [this]

theorem mu_erase (L : Nat) (f : Fog) (p : Path) (hs : Sorted f) (hp : p ∈ f) :
    mu L f = mu L (erase f p) + 17 ^ (L + 1 - p.length) := by
  induction f with
  | nil => cases hp
  | cons x xs ih =>
    have ⟨hx, hxs⟩ := List.pairwise_cons.1 hs
    by_cases hxp : x = p
    · subst hxp
      have hn : x ∉ xs := fun hm => plt_ne (hx x hm) rfl
      have : erase (x :: xs) x = xs := by
        have := erase_of_not_mem xs x hn
        simpa [erase] using this
      rw [this, mu_cons]; omega
    · have hp' : p ∈ xs := by
        rcases List.mem_cons.1 hp with e | h
        · exact absurd e.symm hxp
        · exact h
      have : erase (x :: xs) p = x :: erase xs p := by
        simp [erase, hxp]
      rw [this, mu_cons, mu_cons, ih hxs hp']; omega

theorem sum_le_length_mul (l : List Path) (g : Path → Nat) (B : Nat) (h : ∀ q ∈ l, g q ≤ B) :
    (l.map g).sum ≤ l.length * B := by
  induction l with
  | nil => simp
  | cons x xs ih =>
    have h1 := h x List.mem_cons_self
    have h2 := ih (fun q hq => h q (List.mem_cons_of_mem _ hq))
    simp only [List.map_cons, List.sum_cons, List.length_cons, Nat.succ_mul]
    omega

/-- **termination**: if no version stores a key longer than `L` nibbles, every step strictly decreases
    the measure (so at most `17^(L+1)` steps are possible, whatever the order and the interleaving) -/
theorem wstep_decreases (L : Nat) (s s' : WState) (hw : Wf s.fog) (hg : Grounded L s.fog) (t : Node) (hc : Canon t)
    (hL : ∀ k, get t k ≠ [] → k.length ≤ L) (p : Path) (hp : p ∈ s.fog) (h : wstep s t p = some s') :
    mu L s'.fog < mu L s.fog ∧ Grounded L s'.fog := by
  obtain ⟨d, f', hd, hf, rfl⟩ := wstep_some h
  obtain ⟨hnd, hlen⟩ := desc_subs_small t p d hd
  obtain ⟨hsub, _⟩ := traverse_subs t hc p d hd
  have hmem := explore_mem hf
  obtain ⟨_, rfl⟩ := (explore_eq_ok_iff s.fog p d.subs f').1 hf
  have hpL : p.length ≤ L := hg p hp
  refine ⟨?_, ?_⟩
  · simp only
    have h1 := mu_foldl_le L (d.subs.map (p ++ ·)) (erase s.fog p)
    have h2 := mu_erase L s.fog p hw.1 hp
    have h3 : ((d.subs.map (p ++ ·)).map fun q => 17 ^ (L + 1 - q.length)).sum ≤
        (d.subs.map (p ++ ·)).length * 17 ^ (L - p.length) := by
      apply sum_le_length_mul
      intro q hq
      obtain ⟨s0, hs0, rfl⟩ := List.mem_map.1 hq
      have hne := (hsub s0 hs0).1
      have : 0 < s0.length := List.length_pos_iff.2 hne
      apply Nat.pow_le_pow_right (by omega)
      simp only [List.length_append]
      omega
    have h4 : 17 ^ (L + 1 - p.length) = 17 * 17 ^ (L - p.length) := by
      have : L + 1 - p.length = (L - p.length) + 1 := by omega
      rw [this, Nat.pow_succ, Nat.mul_comm]
    have h5 : 0 < 17 ^ (L - p.length) := Nat.pow_pos (by omega)
    have h6 : (d.subs.map (p ++ ·)).length * 17 ^ (L - p.length) ≤ 16 * 17 ^ (L - p.length) := by
      apply Nat.mul_le_mul_right
      simpa using hlen
    omega
  · intro q hq
    rcases (hmem q).1 hq with ⟨hq, _⟩ | ⟨s0, hs0, rfl⟩
    · exact hg q hq
    · obtain ⟨_, k, hk, hkv⟩ := hsub s0 hs0
      exact Nat.le_trans hk.length_le (hL k hkv)

theorem mu_start (L : Nat) : mu L Fog.init = 17 ^ (L + 1) ∧ Grounded L Fog.init := by
  refine ⟨by simp [mu, Fog.init], ?_⟩
  intro q hq
  simp [Fog.init] at hq
  subst hq
  simp

end PyTrie.Walk
