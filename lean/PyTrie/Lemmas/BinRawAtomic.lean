import PyTrie.Model.BinRawT
/-! `Model/BinRawT.lean` (raw-level `BinaryTrie._set` returning the state also when an exception leaves it) agrees with
    `Model/BinRaw.lean` on every input, and **a call refused with `NodeOverrideError` has saved nothing**: the state at
    exit is the state at entry (every input, every database, no hypotheses) — C12 "a refused call leaves the trie and
    the database as they were" at the level of the transcription. -/
namespace PyTrie.BinRawT
open PyTrie PyTrie.Bin
open PyTrie.BinRaw (St load saveKv saveBranch saveLeaf)

variable (H : Bytes → Bytes)

def forget (r : BinRaw.St × Except BinRaw.Err Hash) : Except BinRaw.Err (Hash × BinRaw.St) :=
  match r with
  | (st, .ok h) => .ok (h, st)
  | (_, .error e) => .error e

@[simp] theorem forget_ok (st : St) (h : Hash) : forget (st, .ok h) = .ok (h, st) := rfl
@[simp] theorem forget_error (st : St) (e : BinRaw.Err) : forget (st, .error e) = .error e := rfl

@[simp] theorem forget_saveKvT (st p c) : forget (saveKvT H st p c) = saveKv H st p c := by
  unfold saveKvT; cases saveKv H st p c <;> simp
@[simp] theorem forget_saveLeafT (st v) : forget (saveLeafT H st v) = saveLeaf H st v := by
  unfold saveLeafT; cases saveLeaf H st v <;> simp
@[simp] theorem forget_saveBranchT (st l r) : forget (saveBranchT H st l r) = saveBranch H st l r := by
  unfold saveBranchT; cases saveBranch H st l r <;> simp

def bindT (a : St × Except BinRaw.Err Hash) (f : St → Hash → St × Except BinRaw.Err Hash) :
    St × Except BinRaw.Err Hash :=
  match a with
  | (st1, .error e) => (st1, .error e)
  | (st1, .ok h) => f st1 h

def bindR (a : Except BinRaw.Err (Hash × St)) (f : Hash → St → Except BinRaw.Err (Hash × St)) :
    Except BinRaw.Err (Hash × St) :=
  match a with
  | .error e => .error e
  | .ok (h, st1) => f h st1

theorem matchT_eq (a : St × Except BinRaw.Err Hash) (f : St → Hash → St × Except BinRaw.Err Hash) :
    rawSetT.match_1 (fun _ => St × Except BinRaw.Err Hash) a (fun st1 e => (st1, .error e)) f = bindT a f := by
  rcases a with ⟨st1, e | h⟩ <;> rfl

theorem matchR_eq (a : Except BinRaw.Err (Hash × St)) (f : Hash → St → Except BinRaw.Err (Hash × St)) :
    BinRaw.rawSet.match_1 (fun _ => Except BinRaw.Err (Hash × St)) a (fun e => .error e) f = bindR a f := by
  rcases a with e | ⟨h, st1⟩ <;> rfl

theorem forget_bind (a : St × Except BinRaw.Err Hash) (f : St → Hash → St × Except BinRaw.Err Hash) :
    forget (bindT a f) = bindR (forget a) (fun h st1 => forget (f st1 h)) := by
  rcases a with ⟨st1, e | h⟩ <;> rfl

theorem forget_ite (c : Prop) [Decidable c] (a b : St × Except BinRaw.Err Hash) :
    forget (if c then a else b) = if c then forget a else forget b := by
  split <;> rfl

theorem rawSetT_agrees (blank : Hash) (fuel : Nat) (st : BinRaw.St) (h : Hash) (k : Bits) (v : Bytes) (sub : Bool) :
    BinRaw.rawSet H blank fuel st h k v sub = forget (rawSetT H blank fuel st h k v sub) := by
  induction fuel generalizing st h k v sub with
  | zero => simp [BinRaw.rawSet, rawSetT]
  | succ n ih =>
    simp only [BinRaw.rawSet, rawSetT, ih]
    split
    · split
      · rw [← forget_saveLeafT]
        rcases saveLeafT H st v with ⟨st1, (e | lh)⟩ <;> simp
      · simp
    · rcases hl : load st h with e | (⟨l, r⟩ | ⟨p, c⟩ | lv)
      · simp
      · simp only []
        rcases k with _ | ⟨b, k'⟩
        · simp only []; split <;> simp
        · cases b <;> simp only [Bool.true_eq_false, if_true, if_false]
          · rcases rawSetT H blank n st l k' v sub with ⟨st1, (e | nh)⟩
            · simp
            · simp only [forget_ok]
              split
              · rcases hl1 : load st1 (if nh ≠ blank then nh else r) with e | (⟨l, r⟩ | ⟨p, c⟩ | lv) <;> simp
              · simp
          · rcases rawSetT H blank n st r k' v sub with ⟨st1, (e | nh)⟩
            · simp
            · simp only [forget_ok]
              split
              · rcases hl1 : load st1 (if l ≠ blank then l else nh) with e | (⟨l, r⟩ | ⟨p, c⟩ | lv) <;> simp
              · simp
      · simp only []
        split
        · split <;> simp
        · split
          · simp
          · split
            · rcases rawSetT H blank n st c (k.drop p.length) v sub with ⟨st1, (e | nh)⟩
              · simp
              · simp only [forget_ok]
                split
                · simp
                · rcases hl1 : load st1 nh with e | (⟨l, r⟩ | ⟨p, c⟩ | lv) <;> simp
            · simp only [matchT_eq, matchR_eq, forget_bind, forget_ite, forget_saveKvT, forget_saveLeafT, forget_saveBranchT, forget_ok, forget_error]
      · simp only []
        repeat' split
        all_goals simp

/-! ### atomicity and growth -/

def Suf (st st' : St) : Prop := ∃ added, st'.db = added ++ st.db

theorem Suf.refl (st : St) : Suf st st := ⟨[], rfl⟩
theorem Suf.trans {a b c : St} (h1 : Suf a b) (h2 : Suf b c) : Suf a c := by
  rcases h1 with ⟨x, hx⟩; rcases h2 with ⟨y, hy⟩
  exact ⟨y ++ x, by rw [hy, hx, List.append_assoc]⟩

/-- result grows the log; an `override` exit leaves the state untouched -/
def OK (st : St) (r : St × Except BinRaw.Err Hash) : Prop :=
  Suf st r.1 ∧ (r.2 = .error .override → r.1 = st)
/-- result grows the log and is not an `override` exit -/
def NoOv (st : St) (r : St × Except BinRaw.Err Hash) : Prop :=
  Suf st r.1 ∧ r.2 ≠ .error .override

theorem NoOv.toOK {st r} (h : NoOv st r) : OK st r := ⟨h.1, fun he => absurd he h.2⟩

theorem NoOv_ok (st : St) (h : Hash) : NoOv st (st, .ok h) := ⟨Suf.refl st, by simp⟩
theorem OK_error (st : St) (e : BinRaw.Err) : OK st (st, .error e) := ⟨Suf.refl st, fun _ => rfl⟩
theorem NoOv_load_error {st1 : St} {x : Hash} {e : BinRaw.Err} (h : load st1 x = .error e) :
    NoOv st1 (st1, .error e) := by
  refine ⟨Suf.refl _, ?_⟩
  unfold load at h
  intro he
  simp only [Except.error.injEq] at he
  subst he
  split at h
  · cases h
  · split at h <;> cases h

theorem NoOv_saveKvT (st : St) (p : Bits) (c : Hash) : NoOv st (saveKvT H st p c) := by
  unfold saveKvT saveKv
  cases encodeKv p c with
  | error e => simp [NoOv, Suf]
  | ok b => exact ⟨⟨[(H b, b)], rfl⟩, by simp [BinRaw.save]⟩
theorem NoOv_saveLeafT (st : St) (v : Bytes) : NoOv st (saveLeafT H st v) := by
  unfold saveLeafT saveLeaf
  cases encodeLeaf v with
  | error e => simp [NoOv, Suf]
  | ok b => exact ⟨⟨[(H b, b)], rfl⟩, by simp [BinRaw.save]⟩
theorem NoOv_saveBranchT (st : St) (l r : Hash) : NoOv st (saveBranchT H st l r) := by
  unfold saveBranchT saveBranch
  cases encodeBranch l r with
  | error e => simp [NoOv, Suf]
  | ok b => exact ⟨⟨[(H b, b)], rfl⟩, by simp [BinRaw.save]⟩

theorem OK_bind {st a f} (ha : OK st a) (hf : ∀ st1 h, NoOv st1 (f st1 h)) : OK st (bindT a f) := by
  rcases a with ⟨st1, e | h⟩
  · exact ha
  · exact ⟨ha.1.trans (hf st1 h).1, fun he => absurd he (hf st1 h).2⟩

theorem NoOv_bind {st a f} (ha : NoOv st a) (hf : ∀ st1 h, NoOv st1 (f st1 h)) : NoOv st (bindT a f) := by
  rcases a with ⟨st1, e | h⟩
  · exact ha
  · exact ⟨ha.1.trans (hf st1 h).1, (hf st1 h).2⟩

theorem rawSetT_OK (blank : Hash) (fuel : Nat) (st : BinRaw.St) (h : Hash) (k : Bits) (v : Bytes) (sub : Bool) :
    OK st (rawSetT H blank fuel st h k v sub) := by
  induction fuel generalizing st h k v sub with
  | zero => exact OK_error _ _
  | succ n ih =>
    simp only [rawSetT, matchT_eq]
    repeat' first
      | exact ih _ _ _ _ _
      | exact OK_error _ _
      | exact NoOv_ok _ _
      | exact NoOv_saveKvT H _ _ _
      | exact NoOv_saveLeafT H _ _
      | exact NoOv_saveBranchT H _ _ _
      | exact NoOv_load_error (by assumption)
      | apply OK_bind
      | apply NoOv_bind
      | intro _ _
      | split
      | apply NoOv.toOK

/-- a refused call has saved nothing -/
theorem rawSetT_override_atomic (blank : Hash) (fuel : Nat) (st : BinRaw.St) (h : Hash) (k : Bits) (v : Bytes) (sub : Bool)
    (he : (rawSetT H blank fuel st h k v sub).2 = .error .override) :
    (rawSetT H blank fuel st h k v sub).1 = st :=
  (rawSetT_OK H blank fuel st h k v sub).2 he

/-- the database only grows: every entry present before is present (same lookup) unless shadowed by a save of the same hash;
    stated simply: the old write log is a suffix of the new one -/
theorem rawSetT_db_suffix (blank : Hash) (fuel : Nat) (st : BinRaw.St) (h : Hash) (k : Bits) (v : Bytes) (sub : Bool) :
    ∃ added, (rawSetT H blank fuel st h k v sub).1.db = added ++ st.db :=
  (rawSetT_OK H blank fuel st h k v sub).1

end PyTrie.BinRawT
