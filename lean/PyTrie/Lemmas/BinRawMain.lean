import PyTrie.Lemmas.BinRawTree
/-! The refinement induction: `rawSet` on a database storing a canonical tree computes `expected … (bsetS …)`. -/
namespace PyTrie.BinRaw
open PyTrie.Bin PyTrie.Bin.BNode

variable (H : Bytes → Bytes)

/-! ### the parts after the recursive call -/

theorem kvCont_expected (hlen : ∀ b, (H b).length = 32) (st : St) (p : Bits) (hp : p ≠ [])
    (res : Except Bin.Err (Option BNode)) (s : List BNode)
    (hx : ∀ x, res = .ok (some x) →
      hashNode H x ≠ H [] ∧ load (after H st s) (hashNode H x) = .ok (parsedOf H x)) :
    kvCont H (H []) p (expected H st (res, s)) = expected H st (kvRes p (res, s)) := by
  rcases res with e | o
  · rfl
  · cases o with
    | none => simp only [expected_ok, kvCont, kvRes, rootOf, if_true]
    | some x =>
      obtain ⟨h1, h2⟩ := hx x rfl
      simp only [expected_ok, kvCont, kvRes, rootOf, if_neg h1, h2]
      cases x with
      | leaf w =>
        simp only [parsedOf, mkKv]
        rw [saveKv_enc H hlen _ p hp (leaf w), after_append]
      | kv p2 c2 =>
        simp only [parsedOf, mkKv]
        rw [saveKv_enc H hlen _ (p ++ p2) (by simp [hp]) c2, after_append]
      | branch l r =>
        simp only [parsedOf, mkKv]
        rw [saveKv_enc H hlen _ p hp (branch l r), after_append]

/-- a branch whose other side became blank is replaced by a kv node over the remaining side -/
theorem collapse_ok (hlen : ∀ b, (H b).length = 32) (st1 : St) (bit : Bool) (o : BNode)
    (hload : load st1 (hashNode H o) = .ok (parsedOf H o)) :
    collapse H st1 bit (hashNode H o) =
      .ok (hashNode H (mkKv [bit] o), after H st1 [mkKv [bit] o]) := by
  rw [collapse, hload]
  cases o with
  | leaf w =>
    simp only [parsedOf, mkKv]
    exact saveKv_enc H hlen _ [bit] (by simp) (leaf w)
  | kv p2 c2 =>
    simp only [parsedOf, mkKv]
    exact saveKv_enc H hlen _ (bit :: p2) (by simp) c2
  | branch l r =>
    simp only [parsedOf, mkKv]
    exact saveKv_enc H hlen _ [bit] (by simp) (branch l r)

theorem brCont_expected (hlen : ∀ b, (H b).length = 32) (st : St) (b : Bool) (l r : BNode)
    (res : Except Bin.Err (Option BNode)) (s : List BNode)
    (hl : hashNode H l ≠ H []) (hr : hashNode H r ≠ H [])
    (hll : load (after H st s) (hashNode H l) = .ok (parsedOf H l))
    (hlr : load (after H st s) (hashNode H r) = .ok (parsedOf H r))
    (hx : ∀ x, res = .ok (some x) → hashNode H x ≠ H []) :
    brCont H (H []) b (hashNode H l) (hashNode H r) (expected H st (res, s)) =
      expected H st (brRes b l r (res, s)) := by
  rcases res with e | o
  · rfl
  · cases o with
    | none =>
      cases b
      · simp only [expected_ok, brCont, brRes, rootOf, if_true, Bool.true_or, ne_eq, not_true_eq_false,
          if_false, hr, not_false_eq_true, decide_true]
        rw [collapse_ok H hlen _ true r hlr, after_append]
      · simp only [expected_ok, brCont, brRes, rootOf, Bool.true_eq_false, if_false, decide_true, Bool.or_true,
          if_true, ne_eq, hl, not_false_eq_true, not_true_eq_false]
        rw [collapse_ok H hlen _ false l hll, after_append]
    | some x =>
      have h1 := hx x rfl
      cases b
      · simp only [expected_ok, brCont, brRes, rootOf, if_true, h1, hr, decide_false, Bool.or_false,
          Bool.false_eq_true, if_false]
        rw [saveBranch_enc H hlen _ x r, after_append]
      · simp only [expected_ok, brCont, brRes, rootOf, Bool.true_eq_false, if_false, h1, hl, decide_false,
          Bool.or_false, Bool.false_eq_true]
        rw [saveBranch_enc H hlen _ l x, after_append]

/-! ### tree-level facts about the save list -/

theorem bcanon_sub (t x : BNode) (hc : BCanon t) (h : Sub x t) : BCanon x := by
  induction h with
  | refl => exact hc
  | kv p _ ih => exact ih hc.2.2
  | left r _ ih => exact ih hc.1
  | right l _ ih => exact ih hc.2

theorem kvRes_mem (p : Bits) (r : TRes) (x : BNode) (h : x ∈ r.2) : x ∈ (kvRes p r).2 := by
  obtain ⟨res, s⟩ := r
  rcases res with e | o
  · exact h
  · cases o with
    | none => exact h
    | some y => exact List.mem_append_left _ h

theorem brRes_mem (b : Bool) (l r : BNode) (q : TRes) (x : BNode) (h : x ∈ q.2) : x ∈ (brRes b l r q).2 := by
  obtain ⟨res, s⟩ := q
  rcases res with e | o
  · exact h
  · cases o <;> cases b <;> exact List.mem_append_left _ h

theorem kvRes_root (p : Bits) (r : TRes) (x : BNode) (h : (kvRes p r).1 = .ok (some x)) : x ∈ (kvRes p r).2 := by
  obtain ⟨res, s⟩ := r
  rcases res with e | o
  · cases h
  · cases o with
    | none => cases h
    | some y =>
      simp only [kvRes, Except.ok.injEq, Option.some.injEq] at h
      subst h
      simp [kvRes]

theorem brRes_root (b : Bool) (l r : BNode) (q : TRes) (x : BNode) (h : (brRes b l r q).1 = .ok (some x)) :
    x ∈ (brRes b l r q).2 := by
  obtain ⟨res, s⟩ := q
  rcases res with e | o
  · cases h
  · cases o <;> cases b <;>
    · simp only [brRes, if_true, Bool.true_eq_false, if_false, Except.ok.injEq, Option.some.injEq] at h
      subst h
      simp [brRes]

theorem splitRes_root (p : Bits) (c : BNode) (k : Bits) (v : Bytes) (x : BNode)
    (h : (splitRes p c k v).1 = .ok (some x)) : x ∈ (splitRes p c k v).2 := by
  unfold splitRes at h ⊢
  by_cases h1 : k.length ≤ cpl p k
  · rw [if_pos h1] at h; cases h
  · rw [if_neg h1] at h ⊢
    by_cases h2 : cpl p k = 0
    · rw [if_pos h2] at h ⊢
      simp only [Except.ok.injEq, Option.some.injEq] at h
      subst h
      simp
    · rw [if_neg h2] at h ⊢
      simp only [Except.ok.injEq, Option.some.injEq] at h
      subst h
      simp

/-- the root of the result was saved by the call, or is the old root -/
theorem bsetS_root (t : BNode) (k : Bits) (v : Bytes) (sub : Bool) (x : BNode)
    (h : (bsetS t k v sub).1 = .ok (some x)) : x ∈ (bsetS t k v sub).2 ∨ x = t := by
  cases t with
  | leaf w =>
    rw [bsetS_leaf] at h ⊢
    by_cases h1 : k ≠ []
    · rw [if_pos h1] at h; cases h
    · rw [if_neg h1] at h ⊢
      by_cases h2 : sub = true
      · rw [if_pos h2] at h; cases h
      · rw [if_neg h2] at h ⊢
        by_cases h3 : v ≠ []
        · rw [if_pos h3] at h ⊢
          simp only [Except.ok.injEq, Option.some.injEq] at h
          subst h
          simp
        · rw [if_neg h3] at h; cases h
  | kv p c =>
    rw [bsetS_kv] at h ⊢
    by_cases h1 : k = []
    · rw [if_pos h1] at h; split at h <;> cases h
    · rw [if_neg h1] at h ⊢
      by_cases h2 : sub = true ∧ k.length < p.length ∧ k <+: p
      · rw [if_pos h2] at h; cases h
      · rw [if_neg h2] at h ⊢
        by_cases h3 : p <+: k
        · rw [if_pos h3] at h ⊢
          exact .inl (kvRes_root p _ x h)
        · rw [if_neg h3] at h ⊢
          by_cases h4 : v = [] ∨ sub = true
          · rw [if_pos h4] at h
            simp only [Except.ok.injEq, Option.some.injEq] at h
            exact .inr h.symm
          · rw [if_neg h4] at h ⊢
            exact .inl (splitRes_root p c k v x h)
  | branch l r =>
    cases k with
    | nil =>
      rw [bsetS_branch_nil] at h
      split at h <;> cases h
    | cons b k' =>
      rw [bsetS_branch_cons] at h ⊢
      exact .inl (brRes_root b l r _ x h)

/-- after the saves `s` of a call on `t`, a node that is among `s` or is an old node of `t` loads as itself -/
theorem loadable_after (hlen : ∀ b, (H b).length = 32) (st : St) (t : BNode) (s : List BNode) (x : BNode)
    (hcx : BCanon x)
    (hst : ∀ n, Sub n t → hashNode H n ≠ H [] ∧ lookup st.db (hashNode H n) = some (encNode H n))
    (h2 : ∀ a ∈ s, ∀ n, Sub n t → hashNode H a = hashNode H n → encNode H a = encNode H n)
    (h3 : ∀ a ∈ s, ∀ b ∈ s, hashNode H a = hashNode H b → encNode H a = encNode H b)
    (hx : x ∈ s ∨ Sub x t) : load (after H st s) (hashNode H x) = .ok (parsedOf H x) := by
  apply load_stored H hlen _ x hcx
  show lookup (saveAll H st.db s) (hashNode H x) = some (encNode H x)
  rcases hx with hx | hx
  · exact lookup_saveAll H st.db s x (fun a ha => h3 a ha x hx) (.inl hx)
  · exact lookup_saveAll H st.db s x (fun a ha => h2 a ha x hx) (.inr (hst x hx).2)

end PyTrie.BinRaw
