import PyTrie.Model.Nibbles
import PyTrie.Model.BinEnc
import PyTrie.Model.HexEnc
import PyTrie.Lemmas.EncBits
/-! Encodings are exact bijections matching their specifications (C16). No bound on lengths. -/
namespace PyTrie.EncSpec
open PyTrie PyTrie.Nibbles PyTrie.Bin

/-- all nibbles are in range -/
def Valid (ns : List Nat) : Prop := ∀ n ∈ ns, n < 16

/-- the Yellow Paper's hex-prefix function HP(x, t) (appendix C), written out literally -/
def ypPairs : List Nat → Bytes
  | a :: b :: r => UInt8.ofNat (16 * a + b) :: ypPairs r
  | _ => []
def HPyp (x : List Nat) (t : Bool) : Bytes :=
  let f : Nat := if t then 2 else 0
  if x.length % 2 = 0 then UInt8.ofNat (16 * f) :: ypPairs x
  else match x with
    | x0 :: r => UInt8.ofNat (16 * (f + 1) + x0) :: ypPairs r
    | [] => []

def withTerm (x : List Nat) (t : Bool) : List Nat := if t then x ++ [TERM] else x

/-! ### helper lemmas (nibbles) -/

theorem pack_eq_ypPairs : ∀ x, pack x = ypPairs x
  | [] => rfl
  | [_] => rfl
  | a :: b :: r => by simp [pack, ypPairs, pack_eq_ypPairs r, Nat.mul_comm]

theorem packNibs_eq_ypPairs : ∀ x, Hex.packNibs x = ypPairs x
  | [] => rfl
  | [_] => rfl
  | a :: b :: r => by simp [Hex.packNibs, ypPairs, packNibs_eq_ypPairs r, Nat.mul_comm]

theorem any_of_valid (x : List Nat) (hx : Valid x) : x.any (fun n => !(decide (n < 16))) = false := by
  simp only [List.any_eq_false]
  intro n hn
  simp [hx n hn]

theorem isTerminated_valid (x : List Nat) (hx : Valid x) : isTerminated x = false := by
  unfold isTerminated
  split
  · rename_i y hy
    have := hx y (List.mem_of_getLast? hy)
    simp [TERM]; omega
  · rfl

theorem isTerminated_concat (x : List Nat) : isTerminated (x ++ [TERM]) = true := by
  simp [isTerminated]

theorem removeTerminator_concat (x : List Nat) : removeTerminator (x ++ [TERM]) = x := by
  simp [removeTerminator, isTerminated_concat]

theorem removeTerminator_valid (x : List Nat) (hx : Valid x) : removeTerminator x = x := by
  simp [removeTerminator, isTerminated_valid x hx]

theorem nibblesToBytes_ok (ns : List Nat) (hv : Valid ns) (he : ns.length % 2 = 0) :
    nibblesToBytes ns = .ok (pack ns) := by
  unfold nibblesToBytes
  rw [any_of_valid ns hv]
  simp [he]

theorem removeTerminator_withTerm' (x : List Nat) (hx : Valid x) (t : Bool) :
    removeTerminator (withTerm x t) = x ∧ isTerminated (withTerm x t) = t := by
  cases t
  · simp [withTerm, removeTerminator_valid x hx, isTerminated_valid x hx]
  · simp [withTerm, removeTerminator_concat, isTerminated_concat]

theorem valid_cons {a : Nat} {x : List Nat} (ha : a < 16) (hx : Valid x) : Valid (a :: x) := by
  intro n hn
  rcases List.mem_cons.1 hn with rfl | h
  · exact ha
  · exact hx n h

theorem valid_tail {a : Nat} {x : List Nat} (h : Valid (a :: x)) : a < 16 ∧ Valid x :=
  ⟨h a (by simp), fun n hn => h n (by simp [hn])⟩

theorem b2n_cons (a b : Nat) (ha : a < 16) (hb : b < 16) (rest : Bytes) :
    bytesToNibbles (UInt8.ofNat (16 * a + b) :: rest) = a :: b :: bytesToNibbles rest := by
  have h0 : (UInt8.ofNat (16 * a + b)).toNat = 16 * a + b := by simp; omega
  have h1 : (16 * a + b) / 16 = a := by omega
  have h2 : (16 * a + b) % 16 = b := by omega
  simp only [bytesToNibbles, h0, h1, h2]

theorem b2n_ypPairs : ∀ (x : List Nat), Valid x → x.length % 2 = 0 → bytesToNibbles (ypPairs x) = x
  | [], _, _ => rfl
  | [a], _, h => by simp at h
  | a :: b :: r, hv, h => by
    obtain ⟨ha, hv1⟩ := valid_tail hv
    obtain ⟨hb, hv2⟩ := valid_tail hv1
    have ih := b2n_ypPairs r hv2 (by simp at h; omega)
    simp only [ypPairs, b2n_cons a b ha hb, ih]

theorem addTerminator_valid (x : List Nat) (hx : Valid x) : addTerminator x = x ++ [TERM] := by
  simp [addTerminator, isTerminated_valid x hx]

theorem pack_b2n (b : Bytes) : pack (bytesToNibbles b) = b := by
  induction b with
  | nil => rfl
  | cons a r ih =>
    simp only [bytesToNibbles, pack, ih]
    congr 1
    have : a.toNat / 16 * 16 + a.toNat % 16 = a.toNat := by omega
    rw [this]; simp

theorem bytesToNibbles_valid' (b : Bytes) : Valid (bytesToNibbles b) ∧ (bytesToNibbles b).length = 2 * b.length := by
  induction b with
  | nil => exact ⟨by intro n hn; simp [bytesToNibbles] at hn, rfl⟩
  | cons a r ih =>
    refine ⟨?_, by simp [bytesToNibbles, ih.2]; omega⟩
    have := a.toNat_lt
    exact valid_cons (by omega) (valid_cons (by omega) ih.1)

/-! ### the target theorems -/

/-- `encode_nibbles` is the Yellow Paper's HP -/
theorem encodeNibbles_eq_HP (x : List Nat) (hx : Valid x) (t : Bool) :
    encodeNibbles (withTerm x t) = .ok (HPyp x t) := by
  obtain ⟨h1, h2⟩ := removeTerminator_withTerm' x hx t
  unfold encodeNibbles
  simp only [h1, h2]
  by_cases hodd : x.length % 2 = 1
  · simp only [hodd, ↓reduceIte]
    rw [nibblesToBytes_ok _ (valid_cons (by cases t <;> simp) hx) (by simp; omega)]
    unfold HPyp
    have : ¬ x.length % 2 = 0 := by omega
    simp only [this, ↓reduceIte]
    match x, hodd with
    | a :: r, _ => simp [pack, pack_eq_ypPairs, Nat.mul_comm]
  · simp only [hodd, ↓reduceIte]
    have he : x.length % 2 = 0 := by omega
    rw [nibblesToBytes_ok _ (valid_cons (by cases t <;> simp) (valid_cons (by omega) hx)) (by simp; omega)]
    unfold HPyp
    simp [he, pack, pack_eq_ypPairs, Nat.mul_comm]

/-- … and the tree model's `hp` (used for every stored node) is the same function -/
theorem hp_eq_HP (p : Hex.Path) (t : Bool) : Hex.hp p t = HPyp (p.map (·.val)) t := by
  unfold Hex.hp HPyp
  simp only [List.length_map, packNibs_eq_ypPairs]
  by_cases hodd : p.length % 2 = 1
  · have : ¬ p.length % 2 = 0 := by omega
    rw [if_pos hodd, if_neg this]
    match p, hodd with
    | a :: r, _ => simp only [List.map_cons, ypPairs]
  · have he : p.length % 2 = 0 := by omega
    rw [if_neg hodd, if_pos he]
    simp only [ypPairs, Nat.add_zero]

/-- `decode_nibbles` inverts it: the sequence and the terminator flag come back -/
theorem decodeNibbles_HP (x : List Nat) (hx : Valid x) (t : Bool) :
    decodeNibbles (HPyp x t) = .ok (withTerm x t) := by
  unfold HPyp
  by_cases he : x.length % 2 = 0
  · simp only [he, ↓reduceIte]
    have := b2n_cons (if t then 2 else 0) 0 (by split <;> omega) (by omega) (ypPairs x)
    rw [Nat.add_zero] at this
    unfold decodeNibbles
    rw [this, b2n_ypPairs x hx he]
    cases t <;> simp [withTerm, addTerminator_valid x hx]
  · simp only [he, ↓reduceIte]
    match x, he, hx with
    | a :: r, he, hx =>
      obtain ⟨ha, hr⟩ := valid_tail hx
      have := b2n_cons ((if t then 2 else 0) + 1) a (by split <;> omega) ha (ypPairs r)
      unfold decodeNibbles
      simp only [this]
      rw [b2n_ypPairs r hr (by simp at he; omega)]
      cases t <;> simp [withTerm, addTerminator_valid _ hx]

theorem removeTerminator_withTerm (x : List Nat) (hx : Valid x) (t : Bool) :
    removeTerminator (withTerm x t) = x ∧ isTerminated (withTerm x t) = t := by
  exact removeTerminator_withTerm' x hx t

/-- bytes → nibbles → bytes -/
theorem nibblesToBytes_bytesToNibbles (b : Bytes) : nibblesToBytes (bytesToNibbles b) = .ok b := by
  have := bytesToNibbles_valid' b
  rw [nibblesToBytes_ok _ this.1 (by omega), pack_b2n]

theorem bytesToNibbles_valid (b : Bytes) : Valid (bytesToNibbles b) ∧ (bytesToNibbles b).length = 2 * b.length := by
  exact bytesToNibbles_valid' b

/-- nibbles → bytes → nibbles, for even-length in-range sequences; anything else is refused -/
theorem bytesToNibbles_nibblesToBytes (ns : List Nat) (hv : Valid ns) (he : ns.length % 2 = 0) :
    ∃ b, nibblesToBytes ns = .ok b ∧ bytesToNibbles b = ns := by
  refine ⟨pack ns, nibblesToBytes_ok ns hv he, ?_⟩
  rw [pack_eq_ypPairs, b2n_ypPairs ns hv he]

theorem nibblesToBytes_refuses (ns : List Nat) (h : ¬ Valid ns ∨ ns.length % 2 = 1) :
    nibblesToBytes ns = .error .invalidNibbles := by
  unfold nibblesToBytes
  split
  · rfl
  · rename_i hany
    rcases h with h | h
    · exfalso; apply h
      intro n hn
      simp only [List.any_eq_true, not_exists, not_and] at hany
      have := hany n hn
      simpa using this
    · simp [h]

/-- bytes → bits → bytes -/
theorem ofBits_toBits (b : Bytes) : ofBits (toBits b) = b := by
  exact EncBits.ofBits_toBits b

/-- bits → bytes → bits for whole bytes -/
theorem toBits_ofBits (bits : Bits) (h : bits.length % 8 = 0) : toBits (ofBits bits) = bits := by
  exact EncBits.toBits_ofBits bits h

/-- key-path packing round-trips every bit string (the empty one included) -/
theorem decodeKeypath_encodeKeypath (p : Bits) : decodeKeypath (encodeKeypath p) = .ok p := by
  exact EncBits.decodeKeypath_encodeKeypath p

/-- binary node encodings parse back to their parts -/
theorem parseNode_encodeKv (p : Bits) (hp : p ≠ []) (c : Bytes) (hc : c.length = 32) :
    ∃ b, encodeKv p c = .ok b ∧ parseNode b = .ok (.kv p c) := by
  exact EncBits.parseNode_encodeKv p hp c hc

theorem parseNode_encodeBranch (l r : Bytes) (hl : l.length = 32) (hr : r.length = 32) :
    ∃ b, encodeBranch l r = .ok b ∧ parseNode b = .ok (.branch l r) := by
  exact EncBits.parseNode_encodeBranch l r hl hr

theorem parseNode_encodeLeaf (v : Bytes) (hv : v ≠ []) :
    ∃ b, encodeLeaf v = .ok b ∧ parseNode b = .ok (.leaf v) := by
  exact EncBits.parseNode_encodeLeaf v hv

/-- malformed binary nodes are rejected with `InvalidNode`: empty, unknown type byte, impossible length -/
theorem parseNode_rejects (n : Bytes)
    (h : n = [] ∨ (∃ t r, n = t :: r ∧ t ≠ 0 ∧ t ≠ 1 ∧ t ≠ 2) ∨
         (∃ r, n = 1 :: r ∧ n.length ≠ 65) ∨ (∃ r, n = 0 :: r ∧ n.length ≤ 33) ∨ n = [2]) :
    parseNode n = .error .invalidNode := by
  exact EncBits.parseNode_rejects n h

/-- the encoders refuse empty key paths / values and child hashes that are not 32 bytes long -/
theorem encoders_refuse (p : Bits) (c l r v : Bytes) :
    ((p = [] ∨ c.length ≠ 32) → encodeKv p c = .error .validation) ∧
    ((l.length ≠ 32 ∨ r.length ≠ 32) → encodeBranch l r = .error .validation) ∧
    (v = [] → encodeLeaf v = .error .validation) := by
  exact EncBits.encoders_refuse p c l r v

end PyTrie.EncSpec
