import PyTrie.Lemmas.PruneDict
/-! What a store *will contain after a commit with deletes* (`Store.view`), and the observational behaviour
    of `Store.write` / `Store.del` / `Store.contains` under it, uniformly for a plain dict (`cache = none`)
    and for a `ScratchDB` in front of one (`cache = some c`). -/
namespace PyTrie.HexW
open PyTrie.Hex hiding get set

/-- what the store will contain after a commit with deletes -/
def Store.view (s : Store) (h : Hash) : Bool :=
  match s.cache with
  | none => s.base.contains h
  | some c =>
    match Dict.get? c h with
    | some (some _) => true
    | some none => false
    | none => s.base.contains h

/-- the ScratchDB cache (if there is one) has unique keys; it starts as `[]` and is only changed by
    `Dict.insert`, so this always holds of a reachable store -/
def Store.CacheNoDup (s : Store) : Prop := ∀ c, s.cache = some c → NoDupKeys c

theorem Store.cacheNoDup_plain (s : Store) (hc : s.cache = none) : s.CacheNoDup := by
  intro c h; rw [hc] at h; cases h

theorem Store.view_plain (s : Store) (hc : s.cache = none) (h : Hash) : s.view h = s.base.contains h := by
  unfold Store.view; rw [hc]

theorem Store.contains_of_view' (s : Store) (h : Hash) (hv : s.view h = true) : s.contains h = true := by
  unfold Store.view at hv
  unfold Store.contains
  cases hc : s.cache with
  | none => rw [hc] at hv; exact hv
  | some c =>
    rw [hc] at hv
    simp only at hv ⊢
    cases hg : Dict.get? c h with
    | none => rw [hg] at hv; exact hv
    | some o =>
      rw [hg] at hv
      cases o with
      | none => cases hv
      | some v => rfl

/-- a write (no injected fault) succeeds and adds exactly its key to the view -/
theorem Store.write_view (s : Store) (hfa : s.failAfter = none) (hwf : s.CacheNoDup) (h : Hash) (b : Bytes) :
    ∃ s', s.write h b = some s' ∧ s'.failAfter = none ∧ s'.CacheNoDup ∧
      ∀ x, s'.view x = true ↔ (s.view x = true ∨ x = h) := by
  obtain ⟨base, cache, fa⟩ := s
  simp only at hfa
  subst hfa
  cases cache with
  | none =>
    refine ⟨_, rfl, rfl, Store.cacheNoDup_plain _ rfl, fun x => ?_⟩
    simp only [Store.view]
    exact Dict.contains_insert _ _ _ _
  | some c =>
    refine ⟨_, rfl, rfl, ?_, fun x => ?_⟩
    · intro c' hc'
      simp only [Option.some.injEq] at hc'
      subst hc'
      exact NoDupKeys.insert (hwf c rfl) _ _
    · simp only [Store.view]
      by_cases hx : x = h
      · subst hx
        rw [Dict.get?_insert_self']
        simp
      · rw [Dict.get?_insert_other' c h x _ hx]
        simp [hx]

/-- deleting a key of the view succeeds and removes exactly that key from the view -/
theorem Store.del_view (s : Store) (hwf : s.CacheNoDup) (h : Hash) (hv : s.view h = true) :
    ∃ s', s.del h = some s' ∧ s'.failAfter = s.failAfter ∧ s'.CacheNoDup ∧
      ∀ x, s'.view x = true ↔ (s.view x = true ∧ x ≠ h) := by
  obtain ⟨base, cache, fa⟩ := s
  cases cache with
  | none =>
    simp only [Store.view] at hv
    refine ⟨{ base := Dict.erase base h, cache := none, failAfter := fa }, ?_, rfl,
      Store.cacheNoDup_plain _ rfl, fun x => ?_⟩
    · simp [Store.del, hv]
    · simp only [Store.view]
      exact Dict.contains_erase _ _ _
  | some c =>
    refine ⟨_, rfl, rfl, ?_, fun x => ?_⟩
    · intro c' hc'
      simp only [Option.some.injEq] at hc'
      subst hc'
      exact NoDupKeys.insert (hwf c rfl) _ _
    · simp only [Store.view]
      by_cases hx : x = h
      · subst hx
        rw [Dict.get?_insert_self']
        simp
      · rw [Dict.get?_insert_other' c h x _ hx]
        simp [hx]

end PyTrie.HexW
