import PyTrie.Lemmas.MissingProofs
/-! C07, remaining clause: the node a failing `set` / `delete` reports lies on the requested path — for
    `delete`, "on the path" includes the one sibling `_normalize_branch_node` must read to collapse a
    branch on that path. -/
namespace PyTrie.HexW
open PyTrie.Hex hiding get set
open PyTrie.Hex.Node

variable (Hs : Hashing) (blankRootHash : Hash)

/-- `h` is the hash of a hashed subtree of `t` sitting at a non-empty prefix of `k` -/
def OnPath (t : Node) (k : Path) (h : Hash) : Prop :=
  ∃ q n, q <+: k ∧ q ≠ [] ∧ nodeAt t q = some n ∧ Hs.hashed n = true ∧ Hs.hashOf n = h

/-- `h` is the hash of a hashed child of a branch node of `t` that sits on the path of `k`
    (the sibling read by `_normalize_branch_node`) -/
def SiblingOnPath (t : Node) (k : Path) (h : Hash) : Prop :=
  ∃ q ch v i, q <+: k ∧ nodeAt t q = some (branch ch v) ∧ Hs.hashed (ch i) = true ∧ Hs.hashOf (ch i) = h

/-! ### helpers -/

theorem mem_readEv_mp (n : Node) (h : Hash) :
    Ev.read h ∈ readEv Hs n ↔ Hs.hashed n = true ∧ Hs.hashOf n = h := by
  unfold readEv
  split
  · next hh => simp only [List.mem_singleton, Ev.read.injEq, hh, true_and]; exact eq_comm
  · next hh => simp [hh]

theorem not_mem_pruneEv (n : Node) (h : Hash) : Ev.read h ∉ pruneEv Hs n :=
  fun hm => noRead_pruneEv Hs n _ hm h rfl

theorem not_mem_persistEv (n : Node) (h : Hash) : Ev.read h ∉ persistEv Hs n :=
  fun hm => noRead_persistEv Hs n _ hm h rfl

theorem onPath_ext (p : Path) (c : Node) (hp : p ≠ []) (r : Path) (h : Hash)
    (ho : OnPath Hs c r h) : OnPath Hs (ext p c) (p ++ r) h := by
  obtain ⟨q, n, hq, _, hn, hh, hh2⟩ := ho
  exact ⟨p ++ q, n, (List.prefix_append_right_inj p).2 hq, by simp [hp],
    nodeAt_ext_append p c q n hn hp, hh, hh2⟩

theorem onPath_ext_child (p : Path) (c : Node) (hp : p ≠ []) (r : Path) (h : Hash)
    (hh : Hs.hashed c = true) (hh2 : Hs.hashOf c = h) : OnPath Hs (ext p c) (p ++ r) h := by
  refine ⟨p, c, List.prefix_append _ _, hp, ?_, hh, hh2⟩
  simpa using nodeAt_ext_append p c [] c (by simp [nodeAt]) hp

theorem onPath_branch (ch : Nib → Node) (v : Bytes) (a : Nib) (k : Path) (h : Hash)
    (ho : OnPath Hs (ch a) k h) : OnPath Hs (branch ch v) (a :: k) h := by
  obtain ⟨q, n, hq, _, hn, hh, hh2⟩ := ho
  exact ⟨a :: q, n, by simpa using hq, by simp, by simpa [nodeAt] using hn, hh, hh2⟩

theorem onPath_branch_child (ch : Nib → Node) (v : Bytes) (a : Nib) (k : Path) (h : Hash)
    (hh : Hs.hashed (ch a) = true) (hh2 : Hs.hashOf (ch a) = h) : OnPath Hs (branch ch v) (a :: k) h :=
  ⟨[a], ch a, by simp, by simp, by simp [nodeAt], hh, hh2⟩

theorem siblingOnPath_ext (p : Path) (c : Node) (hp : p ≠ []) (r : Path) (h : Hash)
    (ho : SiblingOnPath Hs c r h) : SiblingOnPath Hs (ext p c) (p ++ r) h := by
  obtain ⟨q, ch, v, i, hq, hn, hh, hh2⟩ := ho
  exact ⟨p ++ q, ch, v, i, (List.prefix_append_right_inj p).2 hq,
    nodeAt_ext_append p c q _ hn hp, hh, hh2⟩

theorem siblingOnPath_branch (ch : Nib → Node) (v : Bytes) (a : Nib) (k : Path) (h : Hash)
    (ho : SiblingOnPath Hs (ch a) k h) : SiblingOnPath Hs (branch ch v) (a :: k) h := by
  obtain ⟨q, ch', v', i, hq, hn, hh, hh2⟩ := ho
  exact ⟨a :: q, ch', v', i, by simpa using hq, by simpa [nodeAt] using hn, hh, hh2⟩

theorem siblingOnPath_here (ch : Nib → Node) (v : Bytes) (k : Path) (h : Hash) (i : Nib)
    (hh : Hs.hashed (ch i) = true) (hh2 : Hs.hashOf (ch i) = h) : SiblingOnPath Hs (branch ch v) k h :=
  ⟨[], ch, v, i, List.nil_prefix, by simp [nodeAt], hh, hh2⟩

theorem normalizeE_reads_path (ch : Nib → Node) (v : Bytes) (h : Hash)
    (hm : Ev.read h ∈ (normalizeE Hs ch v).2) : ∃ i, Hs.hashed (ch i) = true ∧ Hs.hashOf (ch i) = h := by
  unfold normalizeE at hm
  split at hm
  · simp at hm
  · simp at hm
  · next _ i _ =>
    split at hm <;>
      simp only [List.mem_append, mem_readEv_mp, not_mem_pruneEv, or_false] at hm <;> exact ⟨i, hm⟩
  · simp at hm

/-- every fetch of `_set` is a hashed subtree on the key's path -/
theorem setE_reads_on_path (t : Node) (hc : Canon t) (k : Path) (v : Bytes) (h : Hash)
    (hm : Ev.read h ∈ (setE Hs t k v).2) : OnPath Hs t k h := by
  induction t generalizing k with
  | blank => simp [setE] at hm
  | leaf p pv =>
    have hnr : NoRead (setE Hs (leaf p pv) k v).2 := by
      simp only [setE]
      split <;> simp
    exact absurd rfl (hnr _ hm h)
  | ext p c ih =>
    obtain ⟨hpne, hbr, hcc⟩ := hc
    simp only [setE] at hm
    split at hm
    · next _ _ hd =>
      obtain ⟨r, hr⟩ := (cpl_drop_left_nil_iff p k).1 hd
      subst hr
      simp only [cpl_append_left, List.drop_left] at hm
      simp only [List.mem_append, mem_readEv_mp, not_mem_pruneEv, not_mem_persistEv, or_false, false_or] at hm
      rcases hm with ⟨hh, hh2⟩ | h2
      · exact onPath_ext_child Hs p c hpne r h hh hh2
      · exact onPath_ext Hs p c hpne r h (ih hcc r h2)
    · refine absurd rfl ((?_ : NoRead _) _ hm h); simp
    · refine absurd rfl ((?_ : NoRead _) _ hm h); simp
  | branch ch bv ih =>
    cases k with
    | nil => simp [setE, not_mem_pruneEv] at hm
    | cons n k =>
      simp only [setE, List.mem_append, mem_readEv_mp, not_mem_pruneEv, not_mem_persistEv, or_false, false_or] at hm
      rcases hm with ⟨hh, hh2⟩ | h2
      · exact onPath_branch_child Hs ch bv n k h hh hh2
      · exact onPath_branch Hs ch bv n k h (ih n (hc.1 n) k h2)

/-- every fetch of `_delete` is a hashed subtree on the key's path or the sibling needed to collapse a
    branch on that path -/
theorem deleteE_reads_on_path (t : Node) (hc : Canon t) (k : Path) (h : Hash)
    (hm : Ev.read h ∈ (deleteE Hs t k).2) : OnPath Hs t k h ∨ SiblingOnPath Hs t k h := by
  induction t generalizing k with
  | blank => simp [deleteE] at hm
  | leaf p v => simp [deleteE, not_mem_pruneEv] at hm
  | ext p c ih =>
    obtain ⟨hpne, hbr, hcc⟩ := hc
    simp only [deleteE] at hm
    split at hm
    · next hpk =>
      obtain ⟨r, rfl⟩ := hpk
      have IH := ih hcc r
      simp only [List.drop_left] at hm
      generalize deleteE Hs c r = d at IH hm
      have key : Ev.read h ∈ pruneEv Hs (ext p c) ++ readEv Hs c ++ d.2 ++ persistEv Hs d.1 →
          OnPath Hs (ext p c) (p ++ r) h ∨ SiblingOnPath Hs (ext p c) (p ++ r) h := by
        intro hm
        simp only [List.mem_append, mem_readEv_mp, not_mem_pruneEv, not_mem_persistEv, or_false, false_or] at hm
        rcases hm with ⟨hh, hh2⟩ | h2
        · exact .inl (onPath_ext_child Hs p c hpne r h hh hh2)
        · exact (IH h2).imp (onPath_ext Hs p c hpne r h) (siblingOnPath_ext Hs p c hpne r h)
      split at hm
      · exact key hm
      · split at hm
        · exact key hm
        · rcases List.mem_append.1 hm with h1 | h2
          · exact key h1
          · exact absurd h2 (not_mem_pruneEv Hs _ h)
        · rcases List.mem_append.1 hm with h1 | h2
          · exact key h1
          · exact absurd h2 (not_mem_pruneEv Hs _ h)
        · exact key hm
    · exact absurd hm (not_mem_pruneEv Hs _ h)
  | branch ch v ih =>
    cases k with
    | nil =>
      simp only [deleteE, List.mem_append, not_mem_pruneEv, false_or] at hm
      obtain ⟨i, hh, hh2⟩ := normalizeE_reads_path Hs ch [] h hm
      exact .inr (siblingOnPath_here Hs ch v [] h i hh hh2)
    | cons n k =>
      have IH := ih n (hc.1 n) k
      simp only [deleteE] at hm
      generalize deleteE Hs (ch n) k = d at IH hm
      have key : Ev.read h ∈ pruneEv Hs (branch ch v) ++ readEv Hs (ch n) ++ d.2 ++ persistEv Hs d.1 →
          OnPath Hs (branch ch v) (n :: k) h ∨ SiblingOnPath Hs (branch ch v) (n :: k) h := by
        intro hm
        simp only [List.mem_append, mem_readEv_mp, not_mem_pruneEv, not_mem_persistEv, or_false, false_or] at hm
        rcases hm with ⟨hh, hh2⟩ | h2
        · exact .inl (onPath_branch_child Hs ch v n k h hh hh2)
        · exact (IH h2).imp (onPath_branch Hs ch v n k h) (siblingOnPath_branch Hs ch v n k h)
      split at hm
      · exact key hm
      · split at hm
        · next hb =>
          have e : d.1 = blank := (isBlank_iff _).1 hb
          rcases List.mem_append.1 hm with h1 | h2
          · exact key h1
          · obtain ⟨i, hh, hh2⟩ := normalizeE_reads_path Hs _ v h h2
            by_cases hin : i = n
            · subst hin
              simp [upd, e, Hs.hashed_blank] at hh
            · simp only [upd, hin, ↓reduceIte] at hh hh2
              exact .inr (siblingOnPath_here Hs ch v _ h i hh hh2)
        · exact key hm

theorem runEvs_missing_mem (prune : Bool) (root key : Bytes) (s : OpSt) (es : List Ev)
    (h root' rk : Bytes) (pre : Option Path)
    (he : (runEvs prune root key s es).2 = some (.missingTrieNode h root' rk pre)) :
    Ev.read h ∈ es := by
  induction es generalizing s with
  | nil => simp [runEvs] at he
  | cons e es ih =>
    simp only [runEvs] at he
    split at he
    · next s' _ => exact List.mem_cons_of_mem _ (ih s' he)
    · next x hx =>
      cases e with
      | read y =>
        simp only [runEv] at hx
        split at hx
        · simp at hx
        · simp only [Except.error.injEq] at hx
          subst hx
          simp only [Option.some.injEq, Exn.missingTrieNode.injEq] at he
          simp [he.1]
      | prune y => simp [runEv] at hx
      | persist y b =>
        simp only [runEv, setDbValue] at hx
        split at hx
        · simp at hx; subst hx; simp at he
        · simp at hx

theorem opCore_missing_mem (T : TrieSt) (key : Bytes) (val : Option Bytes) (s : OpSt)
    (h root rk : Bytes) (pre : Option Path)
    (he : (opCore Hs blankRootHash T key val s).2 = .error (.missingTrieNode h root rk pre)) :
    h = T.root ∨ Ev.read h ∈ (opTree Hs T key val).2 := by
  unfold opCore at he
  split at he
  · simp at he
    exact .inl he.1.symm
  · have hm := runEvs_missing_mem T.prune T.root key s (opTree Hs T key val).2 h root rk pre
    split at he
    · next s1 x hx =>
      simp only [Except.error.injEq] at he
      rw [hx] at hm
      exact .inr (hm (by rw [he]))
    · next s1 hx =>
      split at he
      · next x hw =>
        have := writeRoot_error_kind Hs blankRootHash T _ _ x hw
        subst this
        simp at he
      · next s3 newRoot hw =>
        split at he
        · next s4 x hf =>
          obtain ⟨w, rfl⟩ := finishPrune_error_kind T s3 x (by rw [hf])
          simp at he
        · simp at he

theorem opTree_reads_on_path (T : TrieSt) (hc : Canon T.tree) (key : Bytes) (val : Option Bytes) (h : Hash)
    (hm : Ev.read h ∈ (opTree Hs T key val).2) :
    OnPath Hs T.tree (nibs key) h ∨ SiblingOnPath Hs T.tree (nibs key) h := by
  unfold opTree at hm
  split at hm
  · split at hm
    · exact deleteE_reads_on_path Hs _ hc _ _ hm
    · exact .inl (setE_reads_on_path Hs _ hc _ _ _ hm)
  · exact deleteE_reads_on_path Hs _ hc _ _ hm

/-- **a failing `set` / `delete` reports a node on the requested path**: the hash named by the
    `MissingTrieNode` is the root's, or that of a hashed subtree at a prefix of the key, or (delete only)
    of the sibling that must be read to collapse a branch on that path -/
theorem opSetDel_missing_on_path (T : TrieSt) (hc : Canon T.tree) (key : Bytes) (val : Option Bytes) (s : OpSt)
    (h root rk : Bytes) (pre : Option Path)
    (he : (opSetDel Hs blankRootHash T key val s).2 = .error (.missingTrieNode h root rk pre)) :
    h = T.root ∨ OnPath Hs T.tree (nibs key) h ∨ SiblingOnPath Hs T.tree (nibs key) h := by
  unfold opSetDel at he
  rcases opCore_missing_mem Hs blankRootHash T key val _ h root rk pre he with hr | hm
  · exact .inl hr
  · exact .inr (opTree_reads_on_path Hs T hc key val h hm)

/-- the fetches still outstanding for a `set` / `delete`: its reads that are absent from the store -/
def outstandingOp (T : TrieSt) (key : Bytes) (val : Option Bytes) (st : Store) : List Hash :=
  ((opTree Hs T key val).2.filterMap (fun e => match e with | .read h => some h | _ => none)).filter
    (fun h => !(st.contains h))

/-- **retry makes progress for `set` / `delete` too**: after supplying the reported node, the same call
    never reports that hash again and strictly fewer of its fetches are outstanding -/
theorem opSetDel_retry_progress (T : TrieSt) (key : Bytes) (val : Option Bytes) (s : OpSt)
    (h root rk : Bytes) (pre : Option Path) (body : Bytes)
    (he : (opSetDel Hs blankRootHash T key val s).2 = .error (.missingTrieNode h root rk pre)) :
    let s' : OpSt := { s with store := { s.store with base := Dict.insert s.store.base h body } }
    (∀ root' rk' pre', (opSetDel Hs blankRootHash T key val s').2 ≠ .error (.missingTrieNode h root' rk' pre')) ∧
    (h = T.root ∨ (outstandingOp Hs T key val s'.store).length < (outstandingOp Hs T key val s.store).length) := by
  intro s'
  have hself : s'.store.contains h = true := Store.contains_insert_self s.store h body
  have hmono : ∀ x, s.store.contains x = true → s'.store.contains x = true :=
    fun x hx => Store.contains_insert_mono s.store h x body hx
  unfold opSetDel at he
  have habs : s.store.contains h = false :=
    (opCore_missing Hs blankRootHash T key val { s with pending := [] } h root rk pre _ rfl he).2.2.1
  refine ⟨?_, ?_⟩
  · intro root' rk' pre' he'
    unfold opSetDel at he'
    have := (opCore_missing Hs blankRootHash T key val { s' with pending := [] } h root' rk' pre' _ rfl he').2.2.1
    rw [show ({ s' with pending := [] } : OpSt).store = s'.store from rfl, hself] at this
    cases this
  · rcases opCore_missing_mem Hs blankRootHash T key val _ h root rk pre he with hr | hm
    · exact .inl hr
    · right
      unfold outstandingOp
      apply filter_length_lt _ _ _ _ h
      · exact List.mem_filterMap.2 ⟨_, hm, rfl⟩
      · simp [habs]
      · simp [hself]
      · intro x hx
        cases hsx : s.store.contains x
        · rfl
        · rw [hmono x hsx] at hx; simp at hx

end PyTrie.HexW
