import PyTrie.Model.HexRaw
import PyTrie.Lemmas.HexDbProofs
import PyTrie.Lemmas.HexEffTree
import PyTrie.Lemmas.MissingProofs
/-! Definitions used by the statements of the raw-level refinement theorems (`Lemmas/RawRefines.lean`). -/
namespace PyTrie.HexRaw
open PyTrie.Hex PyTrie.HexD PyTrie.Hex.Node

variable (H : Bytes → Bytes)

/-- the hashing of py-trie, for an arbitrary hash function: rlp encoding, embedded below 32 bytes -/
def stdHashing : Hashing where
  hashed := isHashed H
  hashOf := hashOf H
  encOf := enc H
  refEq a b := refOf H a == refOf H b
  hashed_blank := by simp [isHashed, isBlank]

theorem keccakHashing_eq : keccakHashing = stdHashing keccak := rfl

/-- every hashed proper subtree of `t` is stored under its hash (≠ the blank root hash) with its
    encoding, and that encoding decodes back to its raw node -/
def StoredD (db : Db) : Node → Prop
  | blank => True
  | leaf _ _ => True
  | ext _ c => (isHashed H c = true → hashOf H c ≠ blankRoot H ∧ lookup db (hashOf H c) = some (enc H c) ∧
      rlpDecode (enc H c) = some (toItem H c)) ∧ StoredD db c
  | branch ch _ => ∀ i, (isHashed H (ch i) = true → hashOf H (ch i) ≠ blankRoot H ∧
      lookup db (hashOf H (ch i)) = some (enc H (ch i)) ∧ rlpDecode (enc H (ch i)) = some (toItem H (ch i))) ∧
      StoredD db (ch i)

/-- the database after the persists of an event list (newest first) -/
def applyPersists (db : Db) (evs : List Ev) : Db :=
  evs.foldl (fun d e => match e with | .persist h b => (h, b) :: d | _ => d) db

end PyTrie.HexRaw
