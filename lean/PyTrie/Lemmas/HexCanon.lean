import PyTrie.Lemmas.Hex
/-! `Canon`: the shape invariant of honest tries, and uniqueness of the canonical tree of a mapping. -/
namespace PyTrie.Hex
open Node

def weight (ch : Nib → Node) (v : Bytes) : Nat := (liveIdx ch).length + (if v = [] then 0 else 1)

def Canon : Node → Prop
  | blank => True
  | leaf _ v => v ≠ []
  | ext p c => p ≠ [] ∧ isBranch c = true ∧ Canon c
  | branch ch v => (∀ i, Canon (ch i)) ∧ 2 ≤ weight ch v

@[simp] theorem canon_leaf (p : Path) (v : Bytes) : Canon (leaf p v) ↔ v ≠ [] := Iff.rfl
@[simp] theorem canon_ext (p : Path) (c : Node) :
    Canon (ext p c) ↔ p ≠ [] ∧ isBranch c = true ∧ Canon c := Iff.rfl
@[simp] theorem canon_branch (ch : Nib → Node) (v : Bytes) :
    Canon (branch ch v) ↔ (∀ i, Canon (ch i)) ∧ 2 ≤ weight ch v := Iff.rfl
@[simp] theorem canon_blank : Canon blank := trivial

theorem liveIdx_nodup (ch : Nib → Node) : (liveIdx ch).Nodup :=
  (List.nodup_finRange 16).sublist List.filter_sublist

theorem two_le_length_of_mem {α} {l : List α} {a b : α} (ha : a ∈ l) (hb : b ∈ l) (hab : a ≠ b) :
    2 ≤ l.length := by
  match l with
  | [] => simp at ha
  | [x] => simp at ha hb; exact absurd (ha.trans hb.symm) hab
  | _ :: _ :: _ => simp

/-- a non-blank canonical node holds at least one key -/
theorem exists_key (t : Node) (hc : Canon t) (hb : isBlank t = false) : ∃ k, get t k ≠ [] := by
  induction t with
  | blank => simp [isBlank] at hb
  | leaf p v => exact ⟨p, by simpa [get, Canon] using hc⟩
  | ext p c ih =>
    obtain ⟨_, hbr, hcc⟩ := hc
    have : isBlank c = false := by cases c <;> simp_all [isBranch, isBlank]
    obtain ⟨k, hk⟩ := ih hcc this
    exact ⟨p ++ k, by simpa [get] using hk⟩
  | branch ch v ih =>
    obtain ⟨hcc, hw⟩ := hc
    by_cases hv : v = []
    · have : 2 ≤ (liveIdx ch).length := by simpa [weight, hv] using hw
      match hl : liveIdx ch with
      | [] => simp [hl] at this
      | i :: _ =>
        have hi : i ∈ liveIdx ch := by simp [hl]
        obtain ⟨k, hk⟩ := ih i (hcc i) ((mem_liveIdx ch i).1 hi)
        exact ⟨i :: k, by simpa [get] using hk⟩
    · exact ⟨[], by simpa [get] using hv⟩

/-- keys below a canonical branch diverge immediately -/
theorem branch_diverge (ch : Nib → Node) (v : Bytes) (hc : Canon (branch ch v)) :
    (∃ a r, get (branch ch v) [] ≠ [] ∧ get (branch ch v) (a :: r) ≠ []) ∨
    (∃ a b r1 r2, a ≠ b ∧ get (branch ch v) (a :: r1) ≠ [] ∧ get (branch ch v) (b :: r2) ≠ []) := by
  obtain ⟨hcc, hw⟩ := hc
  by_cases hv : v = []
  · right
    have : 2 ≤ (liveIdx ch).length := by simpa [weight, hv] using hw
    match hl : liveIdx ch with
    | [] => simp [hl] at this
    | [_] => simp [hl] at this
    | i :: j :: _ =>
      have hi : i ∈ liveIdx ch := by simp [hl]
      have hj : j ∈ liveIdx ch := by simp [hl]
      have hij : i ≠ j := by
        have := liveIdx_nodup ch
        rw [hl] at this
        simp at this
        exact this.1.1
      obtain ⟨k1, hk1⟩ := exists_key _ (hcc i) ((mem_liveIdx ch i).1 hi)
      obtain ⟨k2, hk2⟩ := exists_key _ (hcc j) ((mem_liveIdx ch j).1 hj)
      exact ⟨i, j, k1, k2, hij, by simpa [get] using hk1, by simpa [get] using hk2⟩
  · left
    have : 1 ≤ (liveIdx ch).length := by simp [weight, hv] at hw; omega
    match hl : liveIdx ch with
    | [] => simp [hl] at this
    | i :: _ =>
      have hi : i ∈ liveIdx ch := by simp [hl]
      obtain ⟨k1, hk1⟩ := exists_key _ (hcc i) ((mem_liveIdx ch i).1 hi)
      exact ⟨i, k1, by simpa [get] using hv, by simpa [get] using hk1⟩

theorem eq_blank_of_no_keys (t : Node) (hc : Canon t) (h : ∀ k, get t k = []) : t = blank := by
  cases hb : isBlank t with
  | true => exact (isBlank_iff t).1 hb
  | false => obtain ⟨k, hk⟩ := exists_key t hc hb; exact absurd (h k) hk

theorem branch_two_keys (ch : Nib → Node) (v : Bytes) (hc : Canon (branch ch v)) :
    ∃ k1 k2, k1 ≠ k2 ∧ get (branch ch v) k1 ≠ [] ∧ get (branch ch v) k2 ≠ [] := by
  rcases branch_diverge ch v hc with ⟨a, r, h1, h2⟩ | ⟨a, b, r1, r2, hab, h1, h2⟩
  · exact ⟨[], a :: r, by simp, h1, h2⟩
  · exact ⟨a :: r1, b :: r2, by simp [hab], h1, h2⟩

theorem branch_no_common_prefix (ch : Nib → Node) (v : Bytes) (hc : Canon (branch ch v))
    (q : Path) (hq : q ≠ []) : ¬ (∀ k, get (branch ch v) k ≠ [] → q <+: k) := by
  intro h
  rcases branch_diverge ch v hc with ⟨a, r, h1, _⟩ | ⟨a, b, r1, r2, hab, h1, h2⟩
  · have := h [] h1
    simp at this; exact hq this
  · have p1 := h _ h1
    have p2 := h _ h2
    cases q with
    | nil => exact hq rfl
    | cons x xs =>
      obtain ⟨t1, ht1⟩ := p1
      obtain ⟨t2, ht2⟩ := p2
      simp at ht1 ht2
      exact hab (ht1.1.symm.trans ht2.1)

theorem ext_key_prefix (p : Path) (c : Node) (k : Path) (h : get (ext p c) k ≠ []) : p <+: k := by
  simp only [get] at h
  split at h
  · assumption
  · exact absurd rfl h

theorem ext_prefix_le (p : Path) (ch : Nib → Node) (v : Bytes) (hc : Canon (branch ch v)) (q : Path)
    (h : ∀ k, get (ext p (branch ch v)) k ≠ [] → q <+: k) : q <+: p := by
  obtain ⟨k0, hk0⟩ := exists_key (branch ch v) hc rfl
  have hq0 : q <+: p ++ k0 := h (p ++ k0) (by simpa [get] using hk0)
  rcases List.prefix_or_prefix_of_prefix hq0 (List.prefix_append p k0) with hqp | ⟨q', rfl⟩
  · exact hqp
  · by_cases hq' : q' = []
    · subst hq'; simp
    · exfalso
      apply branch_no_common_prefix ch v hc q' hq'
      intro k hk
      have := h (p ++ k) (by simpa [get] using hk)
      simpa [List.append_assoc, List.prefix_append_right_inj] using this

theorem leaf_key_eq (p : Path) (v : Bytes) (k : Path) (h : get (leaf p v) k ≠ []) : k = p := by
  simp only [get] at h
  split at h
  · assumption
  · exact absurd rfl h

theorem canon_unique (a b : Node) (ha : Canon a) (hb : Canon b) (h : ∀ k, get a k = get b k) :
    a = b := by
  induction a generalizing b with
  | blank => exact (eq_blank_of_no_keys b hb (fun k => (h k).symm.trans rfl)).symm
  | leaf p v =>
    have hv : v ≠ [] := ha
    have hp : get b p = v := by rw [← h p]; simp [get]
    cases b with
    | blank => simp [get] at hp; exact absurd hp hv
    | leaf p' v' =>
      simp only [get] at hp
      split at hp
      · next e => subst e; subst hp; rfl
      · exact absurd hp.symm hv
    | ext p' c' =>
      exfalso
      obtain ⟨_, hbr, hcc⟩ := hb
      cases c' with
      | branch ch' v' =>
        obtain ⟨k1, k2, hne, h1, h2⟩ := branch_two_keys ch' v' hcc
        have e1 : get (leaf p v) (p' ++ k1) ≠ [] := by rw [h]; simpa [get] using h1
        have e2 : get (leaf p v) (p' ++ k2) ≠ [] := by rw [h]; simpa [get] using h2
        exact hne (List.append_cancel_left ((leaf_key_eq _ _ _ e1).trans (leaf_key_eq _ _ _ e2).symm))
      | _ => simp [isBranch] at hbr
    | branch ch' v' =>
      exfalso
      obtain ⟨k1, k2, hne, h1, h2⟩ := branch_two_keys ch' v' hb
      have e1 : get (leaf p v) k1 ≠ [] := by rw [h]; exact h1
      have e2 : get (leaf p v) k2 ≠ [] := by rw [h]; exact h2
      exact hne ((leaf_key_eq _ _ _ e1).trans (leaf_key_eq _ _ _ e2).symm)
  | ext p c ih =>
    obtain ⟨hpne, hbr, hcc⟩ := ha
    cases c with
    | branch ch v =>
      cases b with
      | blank =>
        exfalso
        obtain ⟨k0, hk0⟩ := exists_key (branch ch v) hcc rfl
        have := h (p ++ k0)
        simp [get] at this; exact hk0 this
      | leaf p' v' =>
        exfalso
        obtain ⟨k1, k2, hne, h1, h2⟩ := branch_two_keys ch v hcc
        have e1 : get (leaf p' v') (p ++ k1) ≠ [] := by rw [← h]; simpa [get] using h1
        have e2 : get (leaf p' v') (p ++ k2) ≠ [] := by rw [← h]; simpa [get] using h2
        exact hne (List.append_cancel_left ((leaf_key_eq _ _ _ e1).trans (leaf_key_eq _ _ _ e2).symm))
      | ext p' c' =>
        obtain ⟨hpne', hbr', hcc'⟩ := hb
        cases c' with
        | branch ch' v' =>
          have l1 : p' <+: p := ext_prefix_le p ch v hcc p' (fun k hk => ext_key_prefix p' _ k (by rw [← h]; exact hk))
          have l2 : p <+: p' := ext_prefix_le p' ch' v' hcc' p (fun k hk => ext_key_prefix p _ k (by rw [h]; exact hk))
          have hpp : p = p' := l2.eq_of_length (Nat.le_antisymm l2.length_le l1.length_le)
          subst hpp
          have : branch ch v = branch ch' v' := ih _ hcc hcc' (fun k => by
            have := h (p ++ k); simpa [get] using this)
          rw [this]
        | _ => simp [isBranch] at hbr'
      | branch ch' v' =>
        exfalso
        apply branch_no_common_prefix ch' v' hb p hpne
        intro k hk
        exact ext_key_prefix p (branch ch v) k (by rw [h]; exact hk)
    | _ => simp [isBranch] at hbr
  | branch ch v ih =>
    cases b with
    | blank =>
      exfalso
      obtain ⟨k0, hk0⟩ := exists_key (branch ch v) ha rfl
      exact hk0 (by rw [h]; rfl)
    | leaf p' v' =>
      exfalso
      obtain ⟨k1, k2, hne, h1, h2⟩ := branch_two_keys ch v ha
      have e1 : get (leaf p' v') k1 ≠ [] := by rw [← h]; exact h1
      have e2 : get (leaf p' v') k2 ≠ [] := by rw [← h]; exact h2
      exact hne ((leaf_key_eq _ _ _ e1).trans (leaf_key_eq _ _ _ e2).symm)
    | ext p' c' =>
      exfalso
      obtain ⟨hpne', hbr', hcc'⟩ := hb
      apply branch_no_common_prefix ch v ha p' hpne'
      intro k hk
      exact ext_key_prefix p' c' k (by rw [← h]; exact hk)
    | branch ch' v' =>
      have hv : v = v' := by simpa [get] using h []
      have hch : ch = ch' := by
        funext i
        exact ih i _ (ha.1 i) (hb.1 i) (fun k => by simpa [get] using h (i :: k))
      rw [hv, hch]

end PyTrie.Hex
