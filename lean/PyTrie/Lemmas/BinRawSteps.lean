import PyTrie.Lemmas.BinRawAux
/-! `rawSet` unfolded one level, per kind of the loaded node, with the parts after the recursive call
    named (`kvCont`, `splitBody`, `brCont`). -/
namespace PyTrie.BinRaw
open PyTrie.Bin PyTrie.Bin.BNode

variable (H : Bytes → Bytes)

/-- `_set_kv_node` after the recursive call -/
def kvCont (blank : Hash) (p : Bits) (r : RRes) : RRes :=
  match r with
  | .error e => .error e
  | .ok (subHash, st1) =>
    if subHash = blank then .ok (blank, st1)
    else match load st1 subHash with
      | .error e => .error e
      | .ok (.kv p2 c2) => saveKv H st1 (p ++ p2) c2
      | .ok _ => saveKv H st1 p subHash

def valStep (st : St) (k : Bits) (n : Nat) (v : Bytes) : RRes :=
  if k.length = n + 1 then saveLeaf H st v
  else if k.length ≤ n then .error .override
  else match saveLeaf H st v with
    | .error e => .error e
    | .ok (lh, st1) => saveKv H st1 (k.drop (n + 1)) lh

def oldStep (st1 : St) (p : Bits) (n : Nat) (c : Hash) : RRes :=
  if p.length = n + 1 then .ok (c, st1) else saveKv H st1 (p.drop (n + 1)) c

def brStep (st2 : St) (k : Bits) (n : Nat) (oldnode valnode : Hash) : RRes :=
  if (k.drop n).head? = some true then saveBranch H st2 oldnode valnode
  else saveBranch H st2 valnode oldnode

def topStep (st3 : St) (p : Bits) (n : Nat) (newsub : Hash) : RRes :=
  if n ≠ 0 then saveKv H st3 (p.take n) newsub else .ok (newsub, st3)

/-- `_set_kv_node`, the split of a kv node -/
def splitBody (st : St) (p : Bits) (c : Hash) (k : Bits) (v : Bytes) : RRes :=
  match valStep H st k (cpl p k) v with
  | .error e => .error e
  | .ok (valnode, st1) =>
    match oldStep H st1 p (cpl p k) c with
    | .error e => .error e
    | .ok (oldnode, st2) =>
      match brStep H st2 k (cpl p k) oldnode valnode with
      | .error e => .error e
      | .ok (newsub, st3) => topStep H st3 p (cpl p k) newsub

/-- a branch whose other side became blank is replaced by a kv node over the remaining side -/
def collapse (st1 : St) (bit : Bool) (other : Hash) : RRes :=
  match load st1 other with
  | .error e => .error e
  | .ok (.kv p2 c2) => saveKv H st1 (bit :: p2) c2
  | .ok _ => saveKv H st1 [bit] other

/-- `_set_branch_node` after the recursive call -/
def brCont (blank : Hash) (b : Bool) (l r : Hash) (rec1 : RRes) : RRes :=
  match rec1 with
  | .error e => .error e
  | .ok (nh, st1) =>
    let newL := if b = false then nh else l
    let newR := if b = false then r else nh
    if newL = blank || newR = blank then
      collapse H st1 (if newR ≠ blank then true else false) (if newL ≠ blank then newL else newR)
    else saveBranch H st1 newL newR

theorem rawSet_blank_eq (blank : Hash) (fuel : Nat) (st : St) (k : Bits) (v : Bytes) (sub : Bool) :
    rawSet H blank (fuel + 1) st blank k v sub =
      if v ≠ [] then
        match saveLeaf H st v with
        | .error e => .error e
        | .ok (lh, st1) => saveKv H st1 k lh
      else .ok (blank, st) := by
  rw [rawSet, if_pos rfl]
  rfl

theorem rawSet_leaf (blank : Hash) (fuel : Nat) (st : St) (h : Hash) (k : Bits) (v : Bytes) (sub : Bool) (x : Bytes)
    (hne : h ≠ blank) (hl : load st h = .ok (.leaf x)) :
    rawSet H blank (fuel + 1) st h k v sub =
      if k ≠ [] then .error .override
      else if sub then .ok (blank, st)
      else if v ≠ [] then saveLeaf H st v else .ok (blank, st) := by
  rw [rawSet, if_neg hne]
  simp only [hl]

theorem rawSet_kv (blank : Hash) (fuel : Nat) (st : St) (h : Hash) (k : Bits) (v : Bytes) (sub : Bool) (p : Bits) (c : Hash)
    (hne : h ≠ blank) (hl : load st h = .ok (.kv p c)) :
    rawSet H blank (fuel + 1) st h k v sub =
      if k = [] then (if sub then .ok (blank, st) else .error .override)
      else if sub && decide (k.length < p.length) && decide (k <+: p) then .ok (blank, st)
      else if p <+: k then kvCont H blank p (rawSet H blank fuel st c (k.drop p.length) v sub)
      else if v = [] || sub then .ok (h, st)
      else splitBody H st p c k v := by
  rw [rawSet, if_neg hne]
  simp only [hl]
  rfl

theorem rawSet_branch_nil (blank : Hash) (fuel : Nat) (st : St) (h : Hash) (v : Bytes) (sub : Bool) (l r : Hash)
    (hne : h ≠ blank) (hl : load st h = .ok (.branch l r)) :
    rawSet H blank (fuel + 1) st h [] v sub = if sub then .ok (blank, st) else .error .override := by
  rw [rawSet, if_neg hne]
  simp only [hl]

theorem rawSet_branch_cons (blank : Hash) (fuel : Nat) (st : St) (h : Hash) (b : Bool) (k : Bits) (v : Bytes) (sub : Bool)
    (l r : Hash) (hne : h ≠ blank) (hl : load st h = .ok (.branch l r)) :
    rawSet H blank (fuel + 1) st h (b :: k) v sub =
      brCont H blank b l r (if b = false then rawSet H blank fuel st l k v sub else rawSet H blank fuel st r k v sub) := by
  rw [rawSet, if_neg hne]
  simp only [hl]
  rfl

end PyTrie.BinRaw
