import PyTrie.Lemmas.WalkDRefines
import PyTrie.Lemmas.NodesLoopD
/-! The fog-guided walk as callers run it, at raw level (`Model/WalkD.lean`: `cstepDR`, `crunDR`): root hash, database of
    encoded bodies — changing between steps —, a `TrieFrontierCache` of raw node bodies, and the caller's reaction to a stale
    cache entry (drop it, traverse from the root). Proved here: over databases that are complete for the version current at
    each step, the walk never raises; each step is the tree-level step `cstep` (after dropping the entry when the stale
    parent no longer resolves); hence it finds every stable key and meets nothing that was never stored. -/
namespace PyTrie.HexD
open PyTrie PyTrie.Hex PyTrie.Fog PyTrie.HexRaw PyTrie.Walk

variable (H : Bytes → Bytes)

/-! ### helpers -/

/-- a database that stores a tree is in particular partially consistent with it -/
theorem storedD_partialD (db : Db) (t : Node) (hs : StoredD H db t) : PartialD H db t := by
  have hc : ∀ c : Node, (isHashed H c = true → hashOf H c ≠ blankRoot H ∧ lookup db (hashOf H c) = some (enc H c) ∧
      rlpDecode (enc H c) = some (toItem H c)) → PartialC H db c := by
    intro c h hh
    obtain ⟨h1, h2, h3⟩ := h hh
    refine ⟨h1, fun b hb => ?_, h3⟩
    rw [h2] at hb
    injection hb with hb
    exact hb.symm
  induction t with
  | blank => trivial
  | leaf p v => trivial
  | ext p c ih => exact ⟨hc c hs.1, ih hs.2⟩
  | branch ch v ih => exact fun i => ⟨hc (ch i) (hs i).1, ih i (hs i).2⟩

/-- the traversal from the root (cache miss) on a complete database, whatever else the cache holds -/
theorem walkTraverseD_root_stored (hlen : ∀ b, (H b).length = 32) (db : Db) (root : Hash) (t : Node) (hc : Canon t)
    (hroot : RootPartial H db root t) (hrootIn : isBlank t = false → (lookup db root).isSome) (hst : StoredD H db t)
    (s : CState) (p : Path) (hmiss : Frontier.get s.cache p = none) :
    walkTraverseD H db root (toCD H s) p = .ok (TravOut.toD H (traverseOut t p)) := by
  unfold walkTraverseD
  simp only [toCD, frontier_get_map, hmiss, Option.map_none]
  have htrav := traverseOutD_stored H hlen db t hc hst p (db.length + p.length + 2) (by omega)
  unfold RootPartial at hroot
  cases hb : isBlank t with
  | true =>
    simp only [hb, ↓reduceIte] at hroot
    subst hroot
    have ht := (isBlank_iff t).1 hb
    subst ht
    have hfetch : fetch H db (.str (blankRoot H)) [] = .ok (toItem H Node.blank) := root_fetch_blank H db
    rw [hfetch]
    exact htrav
  | false =>
    simp only [hb, Bool.false_eq_true, ↓reduceIte] at hroot
    obtain ⟨hr, hne, hl, hd⟩ := hroot
    subst hr
    cases hlk : lookup db (hashOf H t) with
    | none =>
      have := hrootIn hb
      rw [hlk] at this
      cases this
    | some b =>
      have := hl b hlk
      subst this
      rw [fetch_hash_some H hlen db t [] hne hlk hd]
      exact htrav

/-- on a database that stores the current version, a step from the root (no cache entry for the prefix) never raises -/
theorem cstepD_root_complete (hlen : ∀ b, (H b).length = 32) (db : Db) (root : Hash) (t : Node) (hc : Canon t)
    (hroot : RootPartial H db root t) (hrootIn : isBlank t = false → (lookup db root).isSome) (hst : StoredD H db t)
    (s : CState) (p : Path) (hmiss : Frontier.get s.cache p = none) :
    cstepD H db root (toCD H s) p = .ok ((cstep t s p).map (toCD H)) := by
  rw [cstepD_eq, walkTraverseD_root_stored H hlen db root t hc hroot hrootIn hst s p hmiss]
  simp only [descD?_toD, cfinishD_toCD]
  rw [cstep_eq, descOf?_eq_desc, hmiss]

theorem toCD_delete (s : CState) (p : Path) :
    ({ toCD H s with cache := Frontier.delete (toCD H s).cache p } : CStateD) =
      toCD H { s with cache := Frontier.delete s.cache p } := by
  simp only [toCD]
  exact congrArg (fun c => CStateD.mk s.fog c s.met) (mapC_delete H s.cache p)

theorem frontier_get_delete_self {α : Type} (c : Frontier α) (p : Path) :
    Frontier.get (Frontier.delete c p) p = none := by
  unfold Frontier.delete
  rw [frontier_get_erase_eq]
  simp

/-- **one step with the retry never raises** on a database complete for the current version, whatever stale parents the
    cache holds: it is the tree-level step, taken either with the cache as it is or after dropping the entry for `p` -/
theorem cstepDR_complete (hlen : ∀ b, (H b).length = 32) (db : Db) (root : Hash) (t : Node) (hc : Canon t)
    (hroot : RootPartial H db root t) (hrootIn : isBlank t = false → (lookup db root).isSome) (hst : StoredD H db t)
    (s : CState) (hcache : CacheOkD H db s.cache) (p : Path) :
    ∃ s0 : CState, (s0 = s ∨ s0 = { s with cache := Frontier.delete s.cache p }) ∧
      cstepDR H db root (toCD H s) p = .ok ((cstep t s0 p).map (toCD H)) := by
  have hpd : PartialD H db t := storedD_partialD H db t hst
  unfold cstepDR
  rcases cstepD_refines H hlen db root t hc hroot hpd s hcache p with ⟨h, pre, he, _⟩ | hok
  · rw [he]
    simp only
    cases hg : Frontier.get s.cache p with
    | none =>
      have := cstepD_root_complete H hlen db root t hc hroot hrootIn hst s p hg
      rw [he] at this
      cases this
    | some e =>
      have hg' : Frontier.get (toCD H s).cache p = some (toItem H e.1, e.2) := by
        simp only [toCD, frontier_get_map, hg, Option.map_some]
      rw [hg']
      simp only
      refine ⟨{ s with cache := Frontier.delete s.cache p }, Or.inr rfl, ?_⟩
      rw [toCD_delete]
      exact cstepD_root_complete H hlen db root t hc hroot hrootIn hst _ p (frontier_get_delete_self _ p)
  · rw [hok]
    exact ⟨s, Or.inl rfl, rfl⟩

/-- a step of a schedule together with the tree the database stores at that moment -/
structure StepT where
  db : Db
  root : Hash
  t : Node
  p : Path

def StepT.toD (e : StepT) : StepD := ⟨e.db, e.root, e.p⟩

/-- the hypotheses on a schedule: each step's database is complete for the version current at that step, and stays
    partially consistent with every EARLIER version of the schedule (what `C09.earlier_versions_consistent` provides
    along every history of the executor) -/
def SchedOk (sched : List StepT) : Prop :=
  (∀ e ∈ sched, Canon e.t ∧ RootPartial H e.db e.root e.t ∧ (isBlank e.t = false → (lookup e.db e.root).isSome) ∧
      StoredD H e.db e.t) ∧
  (∀ i j (hi : i ≤ j) (hj : j < sched.length), PartialD H (sched[j]).db (sched[i]'(by omega)).t)

/-! ### the cache invariant across versions: every cached parent is derived from a version seen so far -/

/-- the nodes a walk can hold in its cache: a version seen, or the node (real or simulated) that a traversal from such a
    node describes -/
inductive Derived (V : List Node) : Node → Prop
  | base {v : Node} : v ∈ V → Derived V v
  | step {n : Node} {seg : Path} {d : Ann} : Derived V n → (traverseOut n seg).desc = some d → Derived V d.raw

theorem Derived.mono {V V' : List Node} (hsub : ∀ v ∈ V, v ∈ V') {n : Node} (h : Derived V n) : Derived V' n := by
  induction h with
  | base hv => exact .base (hsub _ hv)
  | step _ hd ih => exact .step ih hd

/-- every derived node is canonical and partially consistent with a database that is so with every version -/
theorem Derived.canon_partial {V : List Node} (db : Db) (hV : ∀ v ∈ V, Canon v ∧ PartialD H db v) {n : Node}
    (h : Derived V n) : Canon n ∧ PartialD H db n := by
  induction h with
  | base hv => exact hV _ hv
  | step _ hd ih => exact canon_partial_desc H db _ ih.1 ih.2 _ _ hd

/-- all cached parents satisfy `P` -/
def CacheP (P : Node → Prop) (c : Frontier Node) : Prop :=
  ∀ p parent seg, Frontier.get c p = some (parent, seg) → P parent

theorem cacheP_erase {P : Node → Prop} {c : Frontier Node} (hc : CacheP P c) (p : Path) :
    CacheP P (Frontier.erase c p) :=
  fun q parent seg h => hc q parent seg (frontier_get_erase c p q _ h)

theorem cacheP_put {P : Node → Prop} {c : Frontier Node} (hc : CacheP P c) (p seg : Path) (n : Node)
    (hn : P n) : CacheP P (Frontier.put c p (n, seg)) := by
  intro q parent seg' h
  rcases frontier_get_put c _ q _ _ h with ⟨rfl, h2⟩ | h2
  · cases h2; exact hn
  · exact hc q parent seg' h2

theorem cacheP_foldl_put {P : Node → Prop} (p : Path) (n : Node) (hn : P n) (subs : List Path) :
    ∀ c : Frontier Node, CacheP P c →
      CacheP P (subs.foldl (fun acc seg => Frontier.put acc (p ++ seg) (n, seg)) c) := by
  induction subs with
  | nil => intro c hc; exact hc
  | cons s subs ih =>
    intro c hc
    exact ih _ (cacheP_put hc (p ++ s) s n hn)

theorem cacheP_add {P : Node → Prop} {c : Frontier Node} (hc : CacheP P c) (p : Path) (n : Node)
    (hn : P n) (subs : List Path) : CacheP P (Frontier.add c p n subs) := by
  unfold Frontier.add
  apply cacheP_foldl_put p n hn subs
  split
  · exact cacheP_erase hc p
  · exact hc

theorem cfinish_cacheP {P : Node → Prop} (s : CState) (hcache : CacheP P s.cache) (p : Path) (od : Option Ann)
    (hod : ∀ d, od = some d → P d.raw) (s' : CState) (h : cfinish s p od = some s') : CacheP P s'.cache := by
  unfold cfinish at h
  cases od with
  | none => cases h
  | some d =>
    simp only at h
    cases he : Fog.explore s.fog p d.subs with
    | error e => rw [he] at h; cases h
    | ok fog' =>
      rw [he] at h
      simp only [Option.some.injEq] at h
      subst h
      simp only
      split
      · exact cacheP_add hcache p d.raw (hod d rfl) d.subs
      · exact cacheP_erase hcache p

/-- a successful tree-level step keeps "every cached parent is derived from a version seen" -/
theorem cstep_cacheDerived (V : List Node) (t : Node) (ht : t ∈ V) (s : CState)
    (hcache : CacheP (Derived V) s.cache) (p : Path) (s' : CState) (h : cstep t s p = some s') :
    CacheP (Derived V) s'.cache := by
  rw [cstep_eq] at h
  cases hg : Frontier.get s.cache p with
  | none =>
    rw [hg] at h
    exact cfinish_cacheP s hcache p _ (fun d hd => .step (.base ht) hd) s' h
  | some e =>
    obtain ⟨parent, seg⟩ := e
    rw [hg] at h
    exact cfinish_cacheP s hcache p _ (fun d hd => .step (hcache p parent seg hg) hd) s' h

theorem cacheOkV_sub {V V' : List Node} (hsub : ∀ v ∈ V, v ∈ V') {c : Frontier Node} (h : CacheOkV V c) :
    CacheOkV V' c := by
  intro p parent seg hg
  obtain ⟨v, hv, hcan, hd⟩ := h p parent seg hg
  exact ⟨v, hsub v hv, hcan, hd⟩

/-- the run from an arbitrary state: `V` are the versions of the steps already taken -/
theorem crunDR_aux (hlen : ∀ b, (H b).length = 32) (rest : List StepT) :
    ∀ (V : List Node) (s : CState),
      (∀ v ∈ V, Canon v ∧ ∀ e ∈ rest, PartialD H e.db v) →
      (∀ e ∈ rest, Canon e.t ∧ RootPartial H e.db e.root e.t ∧ (isBlank e.t = false → (lookup e.db e.root).isSome) ∧
        StoredD H e.db e.t) →
      rest.Pairwise (fun e e' => PartialD H e'.db e.t) →
      CacheP (Derived V) s.cache → CacheOkV V s.cache →
      (crunDR H (toCD H s) (rest.map StepT.toD) = .ok none) ∨
      ∃ s' : CState, crunDR H (toCD H s) (rest.map StepT.toD) = .ok (some (toCD H s')) ∧
        ∃ sched' : List (Node × Path), (∀ e ∈ sched', e.1 ∈ V ∨ ∃ e0 ∈ rest, e0.t = e.1) ∧
          wrun (toW s) sched' = some (toW s') := by
  induction rest with
  | nil =>
    intro V s _ _ _ _ _
    exact Or.inr ⟨s, rfl, [], by simp, rfl⟩
  | cons e rest ih =>
    intro V s hV hrest hpw hder hokv
    obtain ⟨hct, hroot, hrootIn, hst⟩ := hrest e List.mem_cons_self
    obtain ⟨hpw1, hpw2⟩ := List.pairwise_cons.1 hpw
    -- the cache invariant of the raw level over the database of this step
    have hcacheD : CacheOkD H e.db s.cache := fun p parent seg hg =>
      Derived.canon_partial H e.db (fun v hv => ⟨(hV v hv).1, (hV v hv).2 e List.mem_cons_self⟩) (hder p parent seg hg)
    obtain ⟨s0, hs0, hstep⟩ := cstepDR_complete H hlen e.db e.root e.t hct hroot hrootIn hst s hcacheD e.p
    have hW : toW s0 = toW s := by rcases hs0 with rfl | rfl <;> rfl
    have hsubV : ∀ v ∈ V, v ∈ e.t :: V := fun v hv => List.mem_cons_of_mem _ hv
    have hder0 : CacheP (Derived (e.t :: V)) s0.cache := by
      rcases hs0 with rfl | rfl
      · exact fun p parent seg hg => (hder p parent seg hg).mono hsubV
      · exact fun p parent seg hg => (hder p parent seg (frontier_get_erase _ _ _ _ hg)).mono hsubV
    have hokv0 : CacheOkV (e.t :: V) s0.cache := by
      rcases hs0 with rfl | rfl
      · exact cacheOkV_sub hsubV hokv
      · exact cacheOkV_sub hsubV (cacheOkV_erase hokv e.p)
    simp only [List.map_cons, crunDR]
    have hp : (StepT.toD e).p = e.p := rfl
    have hdb : (StepT.toD e).db = e.db := rfl
    have hrt : (StepT.toD e).root = e.root := rfl
    rw [hp, hdb, hrt, hstep]
    cases hcs : cstep e.t s0 e.p with
    | none => exact Or.inl rfl
    | some s1 =>
      simp only [Option.map_some]
      have hcanV : ∀ v ∈ e.t :: V, Canon v := by
        intro v hv
        rcases List.mem_cons.1 hv with rfl | hv
        · exact hct
        · exact (hV v hv).1
      obtain ⟨⟨v, hv, hw⟩, hokv1⟩ := cstep_is_wstep (e.t :: V) e.t List.mem_cons_self hcanV s0 hokv0 e.p s1 hcs
      have hder1 := cstep_cacheDerived (e.t :: V) e.t List.mem_cons_self s0 hder0 e.p s1 hcs
      have hV' : ∀ v ∈ e.t :: V, Canon v ∧ ∀ e' ∈ rest, PartialD H e'.db v := by
        intro v hv
        refine ⟨hcanV v hv, fun e' he' => ?_⟩
        rcases List.mem_cons.1 hv with rfl | hv
        · exact hpw1 e' he'
        · exact (hV v hv).2 e' (List.mem_cons_of_mem _ he')
      rcases ih (e.t :: V) s1 hV' (fun e' he' => hrest e' (List.mem_cons_of_mem _ he')) hpw2 hder1 hokv1 with
        hnone | ⟨s', hrun, sched', hmem, hwr⟩
      · exact Or.inl hnone
      · refine Or.inr ⟨s', hrun, (v, e.p) :: sched', ?_, ?_⟩
        · intro x hx
          rcases List.mem_cons.1 hx with rfl | hx
          · rcases List.mem_cons.1 hv with rfl | hv
            · exact Or.inr ⟨e, List.mem_cons_self, rfl⟩
            · exact Or.inl hv
          · rcases hmem x hx with h | ⟨e0, he0, h⟩
            · rcases List.mem_cons.1 h with h | h
              · exact Or.inr ⟨e, List.mem_cons_self, h.symm⟩
              · exact Or.inl h
            · exact Or.inr ⟨e0, List.mem_cons_of_mem _ he0, h⟩
        · rw [← hW]
          simp only [wrun, hw]
          exact hwr

/-- **the whole raw-level walk never raises and is a tree-level walk**: there is a tree-level concrete run — the same
    prefixes, at each step the current version, the cache entry possibly dropped first — with the same result -/
theorem crunDR_is_tree_run (hlen : ∀ b, (H b).length = 32) (sched : List StepT) (hok : SchedOk H sched) :
    (crunDR H cstartD (sched.map StepT.toD) = .ok none) ∨
    ∃ s' : CState, crunDR H cstartD (sched.map StepT.toD) = .ok (some (toCD H s')) ∧
      -- every met pair was stored in some version of the schedule
      (∀ k v, (k, v) ∈ s'.met → ∃ e ∈ sched, v ≠ [] ∧ get e.t k = v) ∧
      -- once the fog is complete every key that kept its value through all versions of the schedule has been met
      (s'.fog = [] → ∀ k val, val ≠ [] → (∀ e ∈ sched, get e.t k = val) → (k, val) ∈ s'.met) := by
  obtain ⟨hok1, hok2⟩ := hok
  have hpw : sched.Pairwise (fun e e' => PartialD H e'.db e.t) := by
    rw [List.pairwise_iff_getElem]
    intro i j hi hj hij
    exact hok2 i j (by omega) hj
  have hstart : toCD H cstart = cstartD := rfl
  rcases crunDR_aux H hlen sched [] cstart (by simp) hok1 hpw
      (fun p parent seg hg => by simp [cstart, Frontier.get] at hg) (cacheOkV_empty _) with
    hnone | ⟨s', hrun, sched', hmem, hwr⟩
  · left
    rw [← hstart]
    exact hnone
  · right
    rw [hstart] at hrun
    have hmem' : ∀ x ∈ sched', ∃ e0 ∈ sched, e0.t = x.1 := by
      intro x hx
      rcases hmem x hx with h | h
      · cases h
      · exact h
    have hcan' : ∀ x ∈ sched', Canon x.1 := by
      intro x hx
      obtain ⟨e0, he0, h0⟩ := hmem' x hx
      rw [← h0]
      exact (hok1 e0 he0).1
    have hwr' : wrun start sched' = some (toW s') := hwr
    refine ⟨s', hrun, ?_, ?_⟩
    · intro k v hm
      rcases walk_sound sched' start (toW s') hcan' hwr' k v hm with h | ⟨x, hx, hne, hg⟩
      · simp [start] at h
      · obtain ⟨e0, he0, h0⟩ := hmem' x hx
        exact ⟨e0, he0, hne, by rw [h0]; exact hg⟩
    · intro hdone k val hval hstable
      refine walk_finds_stable sched' (toW s') hcan' k val hval ?_ hwr' hdone
      intro x hx
      obtain ⟨e0, he0, h0⟩ := hmem' x hx
      rw [← h0]
      exact hstable e0 he0


end PyTrie.HexD
