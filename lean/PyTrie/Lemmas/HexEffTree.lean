import PyTrie.Lemmas.HexEffDel
/-! `deleteE` computes the same tree as `delete` on canonical trees when reference equality is sound. -/
namespace PyTrie.Hex
open Node
variable (Hs : Hashing)

theorem upd_self_eq (ch : Nib → Node) (n : Nib) : upd ch n (ch n) = ch := by
  funext j; unfold upd; split
  · next h => rw [h]
  · rfl

theorem normalize_of_weight {ch : Nib → Node} {v : Bytes} (hw : 2 ≤ weight ch v) :
    normalize ch v = branch ch v := by
  unfold normalize
  unfold weight at hw
  generalize hl : liveIdx ch = l at hw
  match l, v with
  | [], [] => simp at hw
  | [], _ :: _ => simp at hw
  | [i], [] => simp at hw
  | [i], _ :: _ => rfl
  | _ :: _ :: _, _ => rfl

theorem deleteE_fst (t : Node) (k : Path) (hrs : RefSound Hs t k) (hc : Canon t) :
    (deleteE Hs t k).1 = delete t k := by
  induction t generalizing k with
  | blank => rfl
  | leaf p v => simp only [deleteE, delete]
  | ext p c ih =>
    obtain ⟨hpne, hbr, hcc⟩ := hc
    simp only [deleteE, delete]
    split
    · next hpk =>
      simp only [RefSound] at hrs
      obtain ⟨hrs1, hrs2⟩ := hrs hpk
      have IH := ih (k.drop p.length) hrs1 hcc
      split
      · next hr =>
        have e := hrs2 hr
        rw [IH] at e
        rw [e]
        cases c with
        | branch ch v => rfl
        | _ => simp [isBranch] at hbr
      · rw [← IH]
        generalize (deleteE Hs c (List.drop p.length k)).1 = r1
        cases r1 <;> rfl
    · rfl
  | branch ch v ih =>
    obtain ⟨hcc, hw⟩ := hc
    cases k with
    | nil => simp only [deleteE, delete, normalizeE_fst]
    | cons n k =>
      simp only [RefSound] at hrs
      obtain ⟨hrs1, hrs2⟩ := hrs
      have IH := ih n k hrs1 (hcc n)
      simp only [deleteE, delete]
      split
      · next hr =>
        have e := hrs2 hr
        rw [IH] at e
        rw [e, upd_self_eq]
        split
        · exact (normalize_of_weight hw).symm
        · rfl
      · rw [← IH]
        split
        · simp only [normalizeE_fst]
        · rfl

end PyTrie.Hex
