import PyTrie.Lemmas.WorldMono
import PyTrie.Lemmas.HexEffTree
import PyTrie.Lemmas.MissingProofs
import PyTrie.Lemmas.PruneReads
import PyTrie.Lemmas.PruneRun
import PyTrie.Lemmas.KeccakEmbedded
/-! Exact pruning (C06) at world level: for a pruning trie over a plain dict that started from an empty
    database, after every `set` / `delete` the reference counts are the true number of references
    (`occRoot`: occurrences of hashed subtrees below the root, plus one for the root, which is always
    stored) and the database holds exactly the keys with a positive count. The structural heart — the
    balance lemmas `setE_balance` / `deleteE_balance` (for every hashing) — is already proved; this file
    lifts them through `opSetDel` (`_prune_on_success`, `_set_db_value`, `_set_root_node`,
    `_complete_pruning`). -/
namespace PyTrie.HexW
open PyTrie.Hex hiding get set
open PyTrie.Hex.Node

variable (Hs : Hashing) (blankRootHash : Hash)

/-- true number of stored references to hash `h` in the trie with root node `t`: hashed subtrees
    strictly below the root, plus the root itself (stored under its hash even when short) -/
def occRoot (t : Node) (h : Hash) : Nat :=
  occProper Hs t h + (if isBlank t = false ∧ Hs.hashOf t = h then 1 else 0)

/-- the pruning invariant of a trie state over a plain dict -/
structure PruneInv (T : TrieSt) (s : OpSt) : Prop where
  prune : T.prune = true
  plain : s.store.cache = none
  root : if isBlank T.tree then T.root = blankRootHash else T.root = Hs.hashOf T.tree ∧ T.root ≠ blankRootHash
  counts : ∀ h, s.counts.val h = occRoot Hs T.tree h
  keys : ∀ h, Dict.contains s.store.base h = true ↔ 0 < occRoot Hs T.tree h
  pending : s.pending = []

/-- the empty trie on an empty database satisfies the invariant -/
theorem pruneInv_init :
    PruneInv Hs blankRootHash { tree := blank, root := blankRootHash, prune := true }
      { store := { base := [], cache := none, failAfter := none }, counts := [], pending := [] } := by
  refine ⟨rfl, rfl, ?_, ?_, ?_, rfl⟩
  · simp [isBlank]
  · intro h; simp [occRoot, occProper, isBlank, Counts.val_nil]
  · intro h; simp [occRoot, occProper, isBlank, Dict.contains_nil]

/-! ### the tree-level facts, for either operation -/

theorem opTree_fst_p (T : TrieSt) (hc : Canon T.tree) (key : Bytes) (val : Option Bytes)
    (hrs : RefSound Hs T.tree (nibs key)) :
    (opTree Hs T key val).1 = (match val with
        | some v => if v = [] then Hex.delete T.tree (nibs key) else Hex.set T.tree (nibs key) v
        | none => Hex.delete T.tree (nibs key)) := by
  cases val with
  | none => exact deleteE_fst Hs _ _ hrs hc
  | some v =>
    simp only [opTree]
    split
    · exact deleteE_fst Hs _ _ hrs hc
    · exact setE_fst Hs _ _ _

theorem opTree_balance (T : TrieSt) (key : Bytes) (val : Option Bytes)
    (hrs : RefSound Hs T.tree (nibs key)) (h : Hash) :
    occProper Hs (opTree Hs T key val).1 h + cntPrune (opTree Hs T key val).2 h =
      occ Hs T.tree h + cntPersist (opTree Hs T key val).2 h := by
  unfold opTree
  split
  · split
    · exact deleteE_balance Hs _ _ hrs h
    · exact setE_balance Hs _ _ _ h
  · exact deleteE_balance Hs _ _ hrs h

theorem opTree_reads_occ (T : TrieSt) (key : Bytes) (val : Option Bytes) (h : Hash)
    (hm : Ev.read h ∈ (opTree Hs T key val).2) : 0 < occProper Hs T.tree h := by
  unfold opTree at hm
  split at hm
  · split at hm
    · exact deleteE_reads_occ Hs _ _ h hm
    · exact setE_reads_occ Hs _ _ _ h hm
  · exact deleteE_reads_occ Hs _ _ h hm

/-- the root reference splits into the hashed case (counted by `self`, pruned by the operation itself)
    and the short case (pruned by `_set_root_node`) -/
theorem root_split (t : Node) (h : Hash) :
    (if isBlank t = false ∧ Hs.hashOf t = h then 1 else 0) =
      self Hs t h + (if isBlank t = false ∧ Hs.hashed t = false ∧ Hs.hashOf t = h then 1 else 0) := by
  unfold self
  cases hb : isBlank t
  · cases hh : Hs.hashed t <;> by_cases he : Hs.hashOf t = h <;> simp [he]
  · have : Hs.hashed t = false := by rw [(isBlank_iff t).1 hb]; exact Hs.hashed_blank
    simp [this]

/-! ### the steps of `opCore` on a pruning trie over a plain dict -/

theorem schedOldRoot_spec (T : TrieSt) (s : OpSt) (hp : T.prune = true) (hc : s.store.cache = none)
    (hroot : if isBlank T.tree then T.root = blankRootHash else T.root = Hs.hashOf T.tree ∧ T.root ≠ blankRootHash)
    (hcont : isBlank T.tree = false → s.store.base.contains T.root = true)
    (hnd : NoDupKeys s.pending) (hpos : PosVals s.pending) :
    (schedOldRoot Hs blankRootHash T s).store = s.store ∧ (schedOldRoot Hs blankRootHash T s).counts = s.counts ∧
    NoDupKeys (schedOldRoot Hs blankRootHash T s).pending ∧ PosVals (schedOldRoot Hs blankRootHash T s).pending ∧
    ∀ h, (schedOldRoot Hs blankRootHash T s).pending.val h = s.pending.val h +
      (if isBlank T.tree = false ∧ Hs.hashed T.tree = false ∧ Hs.hashOf T.tree = h then 1 else 0) := by
  cases hb : isBlank T.tree
  · rw [hb] at hroot
    simp only [Bool.false_eq_true, ↓reduceIte] at hroot
    have h1 : (T.root != blankRootHash) = true := by simpa using hroot.2
    have h2 : s.store.contains T.root = true := by rw [Store.contains_plain _ hc]; exact hcont hb
    cases hh : Hs.hashed T.tree
    · have e : schedOldRoot Hs blankRootHash T s = { s with pending := s.pending.inc T.root } := by
        unfold schedOldRoot; simp [hp, h1, h2, hh]
      rw [e]
      refine ⟨rfl, rfl, hnd.inc _, hpos.inc _, fun h => ?_⟩
      simp only [Counts.val_inc, hroot.1, true_and]
      by_cases he : h = Hs.hashOf T.tree
      · subst he; simp
      · have he' : ¬ Hs.hashOf T.tree = h := fun e => he e.symm
        simp [he, he']
    · have e : schedOldRoot Hs blankRootHash T s = s := by
        unfold schedOldRoot; simp [hh]
      rw [e]
      exact ⟨rfl, rfl, hnd, hpos, fun h => by simp⟩
  · rw [hb] at hroot
    simp only [↓reduceIte] at hroot
    have e : schedOldRoot Hs blankRootHash T s = s := by
      unfold schedOldRoot; simp [hroot]
    rw [e]
    exact ⟨rfl, rfl, hnd, hpos, fun h => by simp⟩

theorem writeRoot_spec (T : TrieSt) (hp : T.prune = true) (new : Node) (s : OpSt)
    (hc : s.store.cache = none) (hfa : s.store.failAfter = none) :
    ∃ s', writeRoot Hs blankRootHash T new s = .ok (s', if isBlank new then blankRootHash else Hs.hashOf new) ∧
      s'.store.cache = none ∧ s'.pending = s.pending ∧
      (∀ h, s'.counts.val h = s.counts.val h + (if isBlank new = false ∧ Hs.hashOf new = h then 1 else 0)) ∧
      (∀ h, s'.store.base.contains h = true ↔
        (s.store.base.contains h = true ∨ (isBlank new = false ∧ Hs.hashOf new = h))) := by
  unfold writeRoot
  cases hb : isBlank new
  · have hw : s.store.write (Hs.hashOf new) (Hs.encOf new) =
        some { s.store with base := Dict.insert s.store.base (Hs.hashOf new) (Hs.encOf new) } := by
      unfold Store.write; rw [hc, hfa]; simp [hc, hfa]
    simp only [Bool.false_eq_true, ↓reduceIte, setDbValue, hw, hp]
    refine ⟨_, rfl, hc, rfl, fun h => ?_, fun h => ?_⟩
    · simp only [Counts.val_inc, true_and]
      by_cases he : h = Hs.hashOf new
      · subst he; simp
      · have he' : ¬ Hs.hashOf new = h := fun e => he e.symm
        simp [he, he']
    · simp only [Dict.contains_insert, true_and]
      constructor
      · rintro (a | a)
        · exact Or.inl a
        · exact Or.inr a.symm
      · rintro (a | a)
        · exact Or.inl a
        · exact Or.inr a.symm
  · simp only [↓reduceIte]
    exact ⟨s, rfl, hc, rfl, fun h => by simp, fun h => by simp⟩

theorem opCore_eq (T : TrieSt) (key : Bytes) (val : Option Bytes) (s : OpSt)
    (hroot : (T.root != blankRootHash && !(s.store.contains T.root)) = false)
    (s1 : OpSt) (h1 : runEvs T.prune T.root key s (opTree Hs T key val).2 = (s1, none))
    (s3 : OpSt) (r : Hash)
    (h3 : writeRoot Hs blankRootHash T (opTree Hs T key val).1 (schedOldRoot Hs blankRootHash T s1) = .ok (s3, r))
    (s4 : OpSt) (h4 : finishPrune T s3 = (s4, none)) :
    opCore Hs blankRootHash T key val s = (s4, .ok { T with tree := (opTree Hs T key val).1, root := r }) := by
  unfold opCore
  rw [hroot]
  simp only [Bool.false_eq_true, ↓reduceIte]
  rw [h1]
  simp only
  rw [h3]
  simp only
  rw [h4]

/-- the whole body of a pruning `set` / `delete` on a state satisfying the invariant -/
theorem opCore_prune (T : TrieSt) (key : Bytes) (val : Option Bytes) (s : OpSt)
    (hfa : s.store.failAfter = none) (hinv : PruneInv Hs blankRootHash T s)
    (hrs : RefSound Hs T.tree (nibs key))
    (hblank : isBlank (opTree Hs T key val).1 = false → Hs.hashOf (opTree Hs T key val).1 ≠ blankRootHash) :
    ∃ s4 r, opCore Hs blankRootHash T key val { s with pending := [] } =
        (s4, .ok { T with tree := (opTree Hs T key val).1, root := r }) ∧
      s4.store.cache = none ∧
      (if isBlank (opTree Hs T key val).1 then r = blankRootHash
        else r = Hs.hashOf (opTree Hs T key val).1 ∧ r ≠ blankRootHash) ∧
      (∀ h, s4.counts.val h = occRoot Hs (opTree Hs T key val).1 h) ∧
      (∀ h, Dict.contains s4.store.base h = true ↔ 0 < occRoot Hs (opTree Hs T key val).1 h) := by
  have hroot := hinv.root
  -- the root is present
  have hrootc : isBlank T.tree = false → s.store.base.contains T.root = true := by
    intro hb
    rw [hb] at hroot
    simp only [Bool.false_eq_true, ↓reduceIte] at hroot
    rw [hinv.keys, hroot.1]
    simp [occRoot, hb]
  have hcheck : (T.root != blankRootHash &&
      !(({ s with pending := [] } : OpSt).store.contains T.root)) = false := by
    cases hb : isBlank T.tree
    · have := hrootc hb
      rw [Store.contains_plain _ hinv.plain]
      simp [this]
    · rw [hb] at hroot
      simp only [↓reduceIte] at hroot
      simp [hroot]
  -- the events
  obtain ⟨s1, h1, R⟩ := runEvs_spec T.root key (opTree Hs T key val).2 { s with pending := [] }
    hinv.plain hfa NoDupKeys.nil PosVals.nil (by
      intro h hm
      have := opTree_reads_occ Hs T key val h hm
      show s.store.base.contains h = true
      rw [hinv.keys]
      unfold occRoot; omega)
  -- scheduling the old root
  obtain ⟨e2s, e2c, nd2, pos2, hp2⟩ := schedOldRoot_spec Hs blankRootHash T s1 hinv.prune R.cache hroot
    (fun hb => (R.keys _).2 (Or.inl (hrootc hb))) R.nodup R.pos
  -- writing the new root
  obtain ⟨s3, h3, hc3, hpend3, hcnt3, hkeys3⟩ := writeRoot_spec Hs blankRootHash T hinv.prune
    (opTree Hs T key val).1 (schedOldRoot Hs blankRootHash T s1) (by rw [e2s]; exact R.cache) (by rw [e2s]; exact R.fa)
  -- the accounting before `_complete_pruning`
  have hacc : ∀ h, s3.counts.val h = occRoot Hs (opTree Hs T key val).1 h + s3.pending.val h := by
    intro h
    have hb := opTree_balance Hs T key val hrs h
    have hs := root_split Hs T.tree h
    have hoe := occ_eq Hs T.tree h
    have c0 : s.counts.val h = occRoot Hs T.tree h := hinv.counts h
    have c1 := R.counts h
    have p1 := R.pending h
    have p2 := hp2 h
    have c3 := hcnt3 h
    rw [hpend3, c3, e2c, c1, p2, p1]
    show s.counts.val h + _ + _ = _ + (Counts.val [] h + _ + _)
    rw [c0, Counts.val_nil]
    unfold occRoot
    omega
  have hpos3 : ∀ h, s3.store.base.contains h = true ↔ 0 < s3.counts.val h := by
    intro h
    have c0 : s.counts.val h = occRoot Hs T.tree h := hinv.counts h
    have k0 := hinv.keys h
    have c1 := R.counts h
    have k1 := R.keys h
    have c3 := hcnt3 h
    rw [c3, e2c, c1, hkeys3, e2s, k1]
    change (s.store.base.contains h = true ∨ _) ∨ _ ↔ 0 < s.counts.val h + _ + _
    rw [k0, ← c0]
    by_cases hn : isBlank (opTree Hs T key val).1 = false ∧ Hs.hashOf (opTree Hs T key val).1 = h
    · rw [if_pos hn]
      exact ⟨fun _ => by omega, fun _ => Or.inr hn⟩
    · rw [if_neg hn]
      constructor
      · rintro ((a | a) | a)
        · omega
        · omega
        · exact absurd a hn
      · intro a
        left
        omega
  -- `_complete_pruning`
  obtain ⟨s4, h4, hc4, _, _, hcnt4, hkeys4⟩ := completePruning_spec s3.pending
    (by rw [hpend3]; exact nd2) s3 hc3 (by
      intro e he
      apply (hpos3 _).2
      have hv := Counts.val_of_mem (by rw [hpend3]; exact nd2) e he
      have hp : 0 < e.2 := by
        have := pos2
        rw [← hpend3] at this
        exact this e he
      have := hacc e.1
      omega)
  have hfin : finishPrune T s3 = (s4, none) := by
    unfold finishPrune; rw [hinv.prune]; simp only [↓reduceIte]; exact h4
  refine ⟨s4, _, opCore_eq Hs blankRootHash T key val _ hcheck s1 (by rw [hinv.prune]; exact h1) s3 _ h3 s4 hfin,
    hc4, ?_, ?_, ?_⟩
  · cases hb : isBlank (opTree Hs T key val).1
    · simp only [Bool.false_eq_true, ↓reduceIte, true_and]
      exact hblank hb
    · simp
  · intro h
    rw [hcnt4, hacc h]
    omega
  · intro h
    rw [hkeys4]
    have ha := hacc h
    constructor
    · rintro ⟨a, b⟩
      have hp := (hpos3 h).1 a
      cases hcn : Dict.contains s3.pending h
      · have := Counts.val_of_not_contains _ _ hcn
        omega
      · have := b hcn
        omega
    · intro hp
      exact ⟨(hpos3 h).2 (by omega), fun _ => by omega⟩

/-- **exact pruning is an invariant**: on a state satisfying it, `set` / `delete` does not raise, computes
    the tree-level operation, and re-establishes `counts = true references` and `database keys = keys with
    a positive count` for the new trie — nothing live is deleted, nothing dead is left behind -/
theorem opSetDel_pruneInv (T : TrieSt) (hc : Canon T.tree) (key : Bytes) (val : Option Bytes) (s : OpSt)
    (hfa : s.store.failAfter = none) (hinv : PruneInv Hs blankRootHash T s)
    (hrs : RefSound Hs T.tree (nibs key))
    (hblank : isBlank (opTree Hs T key val).1 = false → Hs.hashOf (opTree Hs T key val).1 ≠ blankRootHash) :
    ∃ T', (opSetDel Hs blankRootHash T key val s).2 = .ok T' ∧
      T'.tree = (match val with
        | some v => if v = [] then Hex.delete T.tree (nibs key) else Hex.set T.tree (nibs key) v
        | none => Hex.delete T.tree (nibs key)) ∧
      PruneInv Hs blankRootHash T' (opSetDel Hs blankRootHash T key val s).1 := by
  obtain ⟨s4, r, hop, hcache, hrootNew, hcounts, hkeys⟩ :=
    opCore_prune Hs blankRootHash T key val s hfa hinv hrs hblank
  refine ⟨{ T with tree := (opTree Hs T key val).1, root := r }, ?_, ?_, ?_⟩
  · unfold opSetDel; simp only; rw [hop]
  · have := opTree_fst_p Hs T hc key val hrs
    cases val <;> exact this
  · unfold opSetDel; simp only; rw [hop]
    exact ⟨hinv.prune, hcache, hrootNew, hcounts, hkeys, rfl⟩

/-- a node whose encoding is embedded (shorter than 32 bytes) has no hashed descendants -/
def EmbeddedLeafy : Prop := ∀ n, Hs.hashed n = false → ∀ h, occProper Hs n h = 0

theorem regen_child_count (hemb : EmbeddedLeafy Hs) (c : Node) (h : Hash)
    (ih : (regenSub Hs c).count h = occProper Hs c h) :
    (if Hs.hashed c then Hs.hashOf c :: regenSub Hs c else []).count h = occ Hs c h := by
  rw [occ_eq]
  cases hh : Hs.hashed c
  · simp [self, hh, hemb c hh h]
  · simp only [↓reduceIte, List.count_cons, ih, self, hh, true_and, beq_iff_eq]
    omega

theorem regenSub_count (hemb : EmbeddedLeafy Hs) (t : Node) (h : Hash) :
    (regenSub Hs t).count h = occProper Hs t h := by
  induction t with
  | blank => simp [regenSub, occProper]
  | leaf p v => simp [regenSub, occProper]
  | ext p c ih =>
    simp only [regenSub, occProper]
    exact regen_child_count Hs hemb c h ih
  | branch ch v ih =>
    simp only [regenSub, occProper, sumCh, List.count_flatMap]
    congr 1
    apply List.map_congr_left
    intro i _
    exact regen_child_count Hs hemb (ch i) h (ih i)

/-- `regenerate_ref_count` walks exactly the counted references (it skips embedded subtrees, which is
    harmless because they cannot contain hashed nodes): its multiset is `occRoot` -/
theorem regen_count (hemb : EmbeddedLeafy Hs) (t : Node) (h : Hash) : (regen Hs t).count h = occRoot Hs t h := by
  unfold regen occRoot
  cases hb : isBlank t
  · simp only [Bool.false_eq_true, ↓reduceIte, List.count_cons, regenSub_count Hs hemb, beq_iff_eq, true_and]
  · simp [occProper_of_isBlank Hs hb]

end PyTrie.HexW

namespace PyTrie.HexW
open PyTrie.Hex

/-- for py-trie's own hashing an embedded node has no hashed descendants: a reference to a hashed child
    is a 32-byte string, so the parent's encoding has at least 33 bytes -/
theorem keccak_embeddedLeafy : EmbeddedLeafy keccakHashing := by
  intro n
  induction n with
  | blank => intro _ h; rfl
  | leaf p v => intro _ h; rfl
  | ext p c ih =>
    intro hn h
    have hc : keccakHashing.hashed c = false := by
      cases hh : keccakHashing.hashed c
      · rfl
      · exact (HexD.isHashed_ext_of_child keccak keccak_length p c hh).symm.trans hn
    show occ keccakHashing c h = 0
    rw [occ_eq, ih hc h]
    simp [self, hc]
  | branch ch v ih =>
    intro hn h
    have hc : ∀ i, keccakHashing.hashed (ch i) = false := by
      intro i
      cases hh : keccakHashing.hashed (ch i)
      · rfl
      · exact (HexD.isHashed_branch_of_child keccak keccak_length ch v i hh).symm.trans hn
    show sumCh (fun i => occ keccakHashing (ch i) h) = 0
    have e : (fun i => occ keccakHashing (ch i) h) = (fun _ => 0) := by
      funext i
      rw [occ_eq, ih i (hc i) h]
      simp [self, hc i]
    rw [e, sumCh_zero]

end PyTrie.HexW
