import PyTrie.Model.HexWorld
import PyTrie.Lemmas.HexNodeAt
import PyTrie.Lemmas.HexEffTree
/-! C07: behaviour of `get` / `traverse` / `set` / `delete` when node bodies are absent from the store.

`traverseReads Hs t k pre` lists the hashed nodes `_traverse_from` fetches while following `k`, each with the
nibbles consumed to reach it; `opGet` / `opTraverse` report the first absent one. `setE` / `deleteE` list
the database traffic of `_set` / `_delete` in the code's order; `runEvs` stops at the first event that raises. -/
namespace PyTrie.HexW
open PyTrie.Hex hiding get set
open PyTrie.Hex.Node

variable (Hs : Hashing) (blankRootHash : Hash)

/-- every fetch of a traversal is a hashed subtree sitting exactly at the reported nibble prefix,
    and that prefix is a prefix of the requested path -/
theorem traverseReads_on_path (t : Node) (hc : Canon t) (k pre : Path) (h : Hash) (used : Path)
    (hm : (h, used) ∈ traverseReads Hs t k pre) :
    ∃ q n, used = pre ++ q ∧ q <+: k ∧ q ≠ [] ∧ nodeAt t q = some n ∧ Hs.hashed n = true ∧ Hs.hashOf n = h := by
  induction t generalizing k pre with
  | blank => cases k <;> simp [traverseReads] at hm
  | leaf p v => cases k <;> simp [traverseReads] at hm
  | ext p c ih =>
    obtain ⟨hpne, hbr, hcc⟩ := hc
    cases k with
    | nil => simp [traverseReads] at hm
    | cons a k =>
      simp only [traverseReads] at hm
      split at hm
      · next hd =>
        obtain ⟨r, hr⟩ := (cpl_drop_left_nil_iff p (a :: k)).1 hd
        rw [← hr] at hm ⊢
        simp only [cpl_append_left, List.take_left, List.drop_left] at hm
        rcases List.mem_append.1 hm with h1 | h2
        · split at h1
          · next hh =>
            simp at h1; obtain ⟨rfl, rfl⟩ := h1
            refine ⟨p, c, rfl, List.prefix_append _ _, hpne, ?_, hh, rfl⟩
            simpa using nodeAt_ext_append p c [] c (by simp [nodeAt]) hpne
          · simp at h1
        · obtain ⟨q, n, hu, hq, hqne, hn, hh, hh2⟩ := ih hcc r (pre ++ p) h2
          exact ⟨p ++ q, n, by simp [hu], (List.prefix_append_right_inj p).2 hq, by simp [hpne],
            nodeAt_ext_append p c q n hn hpne, hh, hh2⟩
      · simp at hm
  | branch ch v ih =>
    cases k with
    | nil => simp [traverseReads] at hm
    | cons a k =>
      simp only [traverseReads] at hm
      rcases List.mem_append.1 hm with h1 | h2
      · split at h1
        · next hh =>
          simp at h1; obtain ⟨rfl, rfl⟩ := h1
          exact ⟨[a], ch a, rfl, by simp, by simp, by simp [nodeAt], hh, rfl⟩
        · simp at h1
      · obtain ⟨q, n, hu, hq, hqne, hn, hh, hh2⟩ := ih a (hc.1 a) k (pre ++ [a]) h2
        exact ⟨a :: q, n, by simp [hu], by simpa using hq, by simp, by simpa [nodeAt] using hn, hh, hh2⟩

/-- **lookups report the truth**: a `MissingTrieNode` from `get` names a hash that is absent from the
    store, carries the trie's root and the requested key, and (unless it is the root itself) is the hash
    of the hashed subtree at the reported prefix, a prefix of the key's nibbles -/
theorem opGet_missing_truthful (T : TrieSt) (hc : Canon T.tree) (key : Bytes) (s : OpSt)
    (h root rk : Bytes) (pre : Option Path)
    (he : opGet Hs blankRootHash T key s = .error (.missingTrieNode h root rk pre)) :
    s.store.contains h = false ∧ root = T.root ∧ rk = key ∧
    ((h = T.root ∧ pre = some []) ∨
     ∃ q n, pre = some q ∧ q <+: nibs key ∧ nodeAt T.tree q = some n ∧ Hs.hashed n = true ∧ Hs.hashOf n = h) := by
  unfold opGet at he
  split at he
  · next hroot =>
    simp only [Except.error.injEq, Exn.missingTrieNode.injEq] at he
    obtain ⟨rfl, rfl, rfl, rfl⟩ := he
    simp at hroot
    exact ⟨hroot.2, rfl, rfl, .inl ⟨rfl, rfl⟩⟩
  · split at he
    · next h' pre' hf =>
      simp only [Except.error.injEq, Exn.missingTrieNode.injEq] at he
      obtain ⟨rfl, rfl, rfl, rfl⟩ := he
      have hm := List.mem_of_find?_eq_some hf
      have hp := List.find?_some hf
      obtain ⟨q, n, hu, hq, _, hn, hh, hh2⟩ := traverseReads_on_path Hs _ hc _ _ _ _ hm
      have hu' : pre' = q := by simpa using hu
      simp at hp
      exact ⟨hp, rfl, rfl, .inr ⟨q, n, by rw [hu'], hq, hn, hh, hh2⟩⟩
    · split at he <;> simp at he

/-- the only exception a lookup raises on a canonical trie is `MissingTrieNode` -/
theorem opGet_error_kind (T : TrieSt) (hc : Canon T.tree) (key : Bytes) (s : OpSt) (e : Exn)
    (he : opGet Hs blankRootHash T key s = .error e) : ∃ h root rk pre, e = .missingTrieNode h root rk pre := by
  have _ := hc
  unfold opGet at he
  split at he
  · simp only [Except.error.injEq] at he; exact ⟨_, _, _, _, he.symm⟩
  · split at he
    · simp only [Except.error.injEq] at he; exact ⟨_, _, _, _, he.symm⟩
    · obtain ⟨v, hv⟩ := getT_ne_error T.tree (nibs key)
      rw [hv] at he; simp at he

/-- **same result or missing**: a lookup that does not raise returns the contents of the tree -/
theorem opGet_ok (T : TrieSt) (hc : Canon T.tree) (key : Bytes) (s : OpSt) (v : Bytes)
    (he : opGet Hs blankRootHash T key s = .ok v) : v = Hex.get T.tree (nibs key) := by
  unfold opGet at he
  split at he
  · simp at he
  · split at he
    · simp at he
    · rw [getT_eq_get T.tree hc (nibs key)] at he
      simp at he; exact he.symm

/-- `traverse` / `traverse_from` likewise: the reported hash is absent and sits at the reported prefix
    (relative to the start node for `traverse_from`), or the result is that of the complete database -/
theorem opTraverse_truthful (root? : Option Hash) (t : Node) (hc : Canon t) (p : Path) (s : Store) :
    (∀ out, opTraverse Hs blankRootHash root? t p s = .ok out → out = traverseOut t p) ∧
    (∀ e, opTraverse Hs blankRootHash root? t p s = .error e →
      ∃ h used, e = .missingTraversalNode h used ∧ s.contains h = false ∧
        ((root? = some h ∧ used = []) ∨
         ∃ n, used <+: p ∧ nodeAt t used = some n ∧ Hs.hashed n = true ∧ Hs.hashOf n = h)) := by
  have key : ∀ (root? : Option Hash) (b : Bool), (∀ out,
      (if b then .error (.missingTraversalNode (root?.getD []) [])
        else match (traverseReads Hs t p []).find? (fun e => !(s.contains e.1)) with
          | some (h, pre) => .error (.missingTraversalNode h pre)
          | none => .ok (traverseOut t p) : Except Exn TravOut) = .ok out → out = traverseOut t p) ∧
      (∀ e, (if b then .error (.missingTraversalNode (root?.getD []) [])
        else match (traverseReads Hs t p []).find? (fun e => !(s.contains e.1)) with
          | some (h, pre) => .error (.missingTraversalNode h pre)
          | none => .ok (traverseOut t p) : Except Exn TravOut) = .error e →
        ∃ h used, e = .missingTraversalNode h used ∧ (b = true → h = root?.getD [] ∧ used = []) ∧
          (b = false → s.contains h = false ∧
            ∃ n, used <+: p ∧ nodeAt t used = some n ∧ Hs.hashed n = true ∧ Hs.hashOf n = h)) := by
    intro root? b
    cases b with
    | true =>
      refine ⟨fun out ho => by simp at ho, fun e he => ?_⟩
      simp only [↓reduceIte, Except.error.injEq] at he
      exact ⟨_, _, he.symm, fun _ => ⟨rfl, rfl⟩, fun h => by simp at h⟩
    | false =>
      simp only [Bool.false_eq_true, ↓reduceIte]
      constructor
      · intro out ho
        split at ho
        · simp at ho
        · simp at ho; exact ho.symm
      · intro e he
        split at he
        · next h' pre' hf =>
          simp only [Except.error.injEq] at he
          have hm := List.mem_of_find?_eq_some hf
          have hp := List.find?_some hf
          obtain ⟨q, n, hu, hq, _, hn, hh, hh2⟩ := traverseReads_on_path Hs _ hc _ _ _ _ hm
          have hu' : pre' = q := by simpa using hu
          simp at hp
          exact ⟨h', pre', he.symm, fun h => by simp at h, fun _ => ⟨hp, n, hu' ▸ hq, hu' ▸ hn, hh, hh2⟩⟩
        · simp at he
  cases root? with
  | none =>
    refine ⟨(key none false).1, fun e he => ?_⟩
    obtain ⟨h, used, he', _, h2⟩ := (key none false).2 e he
    obtain ⟨a, c⟩ := h2 rfl
    exact ⟨h, used, he', a, .inr c⟩
  | some r =>
    refine ⟨(key (some r) (r != blankRootHash && !(s.contains r))).1, fun e he => ?_⟩
    obtain ⟨h, used, he', h1, h2⟩ := (key (some r) (r != blankRootHash && !(s.contains r))).2 e he
    refine ⟨h, used, he', ?_⟩
    cases hb : (r != blankRootHash && !(s.contains r)) with
    | false => obtain ⟨a, c⟩ := h2 hb; exact ⟨a, .inr c⟩
    | true =>
      obtain ⟨rfl, rfl⟩ := h1 hb
      simp at hb
      exact ⟨by simpa using hb.2, .inl ⟨by simp, rfl⟩⟩

theorem Dict.contains_insert_self {α} (d : Dict α) (h : Hash) (v : α) :
    (Dict.insert d h v).contains h = true := by
  unfold Dict.insert
  split
  · next hc =>
    simp only [Dict.contains, List.any_eq_true, List.mem_map] at hc ⊢
    obtain ⟨e, he, heh⟩ := hc
    exact ⟨_, ⟨e, he, rfl⟩, by simp [heh]⟩
  · simp [Dict.contains]

theorem Dict.contains_insert_mono {α} (d : Dict α) (h x : Hash) (v : α) (hx : d.contains x = true) :
    (Dict.insert d h v).contains x = true := by
  unfold Dict.insert
  split
  · simp only [Dict.contains, List.any_eq_true, List.mem_map] at hx ⊢
    obtain ⟨e, he, hex⟩ := hx
    refine ⟨_, ⟨e, he, rfl⟩, ?_⟩
    by_cases heh : (e.1 == h) = true
    · simp only [heh, ↓reduceIte]
      simp at heh hex; simp [← heh, hex]
    · simp only [heh]; exact hex
  · simp only [Dict.contains, List.any_append] at hx ⊢; simp [hx]

theorem Store.contains_insert_self (s : Store) (h : Hash) (body : Bytes) :
    ({ s with base := Dict.insert s.base h body } : Store).contains h = true := by
  unfold Store.contains
  simp only []
  split
  · exact Dict.contains_insert_self _ _ _
  · split
    · rfl
    · exact Dict.contains_insert_self _ _ _

theorem Store.contains_insert_mono (s : Store) (h x : Hash) (body : Bytes) (hx : s.contains x = true) :
    ({ s with base := Dict.insert s.base h body } : Store).contains x = true := by
  unfold Store.contains at hx ⊢
  simp only [] at hx ⊢
  split
  · next hc => rw [hc] at hx; exact Dict.contains_insert_mono _ _ _ _ hx
  · next c hc =>
    rw [hc] at hx
    simp only [] at hx
    split
    · rfl
    · next hn =>
      split at hx
      · next v hv => exact absurd hv (hn v)
      · exact Dict.contains_insert_mono _ _ _ _ hx

theorem filter_length_le {α} (l : List α) (p q : α → Bool) (hpq : ∀ x, q x = true → p x = true) :
    (l.filter q).length ≤ (l.filter p).length := by
  induction l with
  | nil => simp
  | cons b l ih =>
    simp only [List.filter_cons]
    cases hq : q b <;> cases hp : p b
    · simpa using ih
    · simp; omega
    · rw [hpq b hq] at hp; cases hp
    · simpa using ih

theorem filter_length_lt {α} (l : List α) (p q : α → Bool) (hpq : ∀ x, q x = true → p x = true)
    (a : α) (ha : a ∈ l) (hpa : p a = true) (hqa : q a = false) :
    (l.filter q).length < (l.filter p).length := by
  induction l with
  | nil => simp at ha
  | cons b l ih =>
    simp only [List.filter_cons]
    rcases List.mem_cons.1 ha with rfl | hal
    · have := filter_length_le l p q hpq
      simp [hpa, hqa]; omega
    · have := ih hal
      cases hq : q b <;> cases hp : p b
      · simpa using this
      · simp; omega
      · rw [hpq b hq] at hp; cases hp
      · simpa using this

/-- a `MissingTrieNode` from `get` names a hash that is absent from the store (no shape assumption) -/
theorem opGet_missing_absent (T : TrieSt) (key : Bytes) (s : OpSt) (h root rk : Bytes) (pre : Option Path)
    (he : opGet Hs blankRootHash T key s = .error (.missingTrieNode h root rk pre)) :
    s.store.contains h = false ∧
      (h = T.root ∨ h ∈ (traverseReads Hs T.tree (nibs key) []).map (·.1)) := by
  unfold opGet at he
  split at he
  · next hroot =>
    simp only [Except.error.injEq, Exn.missingTrieNode.injEq] at he
    obtain ⟨rfl, rfl, rfl, rfl⟩ := he
    simp at hroot
    exact ⟨hroot.2, .inl rfl⟩
  · split at he
    · next h' pre' hf =>
      simp only [Except.error.injEq, Exn.missingTrieNode.injEq] at he
      obtain ⟨rfl, rfl, rfl, rfl⟩ := he
      have hm := List.mem_of_find?_eq_some hf
      have hp := List.find?_some hf
      simp at hp
      exact ⟨hp, .inr (List.mem_map.2 ⟨_, hm, rfl⟩)⟩
    · split at he <;> simp at he

/-- the fetches still outstanding for a lookup: hashed path nodes absent from the store -/
def outstanding (T : TrieSt) (key : Bytes) (st : Store) : List Hash :=
  ((traverseReads Hs T.tree (nibs key) []).map (·.1)).filter (fun h => !(st.contains h))

/-- **retry converges**: after supplying exactly the reported node (any body) the same lookup never
    reports that hash again and strictly fewer fetches are outstanding; so at most
    `1 + (traverseReads …).length` attempts are needed and no hash is asked for twice -/
theorem opGet_retry_progress_gen (T : TrieSt) (key : Bytes) (s : OpSt)
    (h root rk : Bytes) (pre : Option Path) (body : Bytes)
    (he : opGet Hs blankRootHash T key s = .error (.missingTrieNode h root rk pre)) :
    let s' : OpSt := { s with store := { s.store with base := Dict.insert s.store.base h body } }
    (∀ root' rk' pre', opGet Hs blankRootHash T key s' ≠ .error (.missingTrieNode h root' rk' pre')) ∧
    (h = T.root ∨ (outstanding Hs T key s'.store).length < (outstanding Hs T key s.store).length) ∧
    (∀ x, s.store.contains x = true → s'.store.contains x = true) := by
  intro s'
  have hself : s'.store.contains h = true := Store.contains_insert_self s.store h body
  have hmono : ∀ x, s.store.contains x = true → s'.store.contains x = true :=
    fun x hx => Store.contains_insert_mono s.store h x body hx
  obtain ⟨habs, hwhere⟩ := opGet_missing_absent Hs blankRootHash T key s h root rk pre he
  refine ⟨?_, ?_, hmono⟩
  · intro root' rk' pre' he'
    have := (opGet_missing_absent Hs blankRootHash T key s' h root' rk' pre' he').1
    rw [hself] at this; cases this
  · rcases hwhere with hr | hm
    · exact .inl hr
    · right
      unfold outstanding
      apply filter_length_lt _ _ _ _ h hm
      · simp [habs]
      · simp [hself]
      · intro x hx
        cases hsx : s.store.contains x
        · rfl
        · rw [hmono x hsx] at hx; simp at hx

/-- the same with the hypothesis "no scratch cache in front of the database" of the original statement
    (it is not needed: see `opGet_retry_progress_gen`) -/
theorem opGet_retry_progress (T : TrieSt) (key : Bytes) (s : OpSt) (hcache : s.store.cache = none)
    (h root rk : Bytes) (pre : Option Path) (body : Bytes)
    (he : opGet Hs blankRootHash T key s = .error (.missingTrieNode h root rk pre)) :
    let s' : OpSt := { s with store := { s.store with base := Dict.insert s.store.base h body } }
    (∀ root' rk' pre', opGet Hs blankRootHash T key s' ≠ .error (.missingTrieNode h root' rk' pre')) ∧
    (h = T.root ∨ (outstanding Hs T key s'.store).length < (outstanding Hs T key s.store).length) ∧
    (∀ x, s.store.contains x = true → s'.store.contains x = true) := by
  have _ := hcache
  exact opGet_retry_progress_gen Hs blankRootHash T key s h root rk pre body he

/-- in the event list of `_set` no fetch follows a database write -/
def ReadsFirst : List Ev → Prop
  | [] => True
  | .persist _ _ :: rest => (∀ e ∈ rest, ∀ h, e ≠ Ev.read h) ∧ ReadsFirst rest
  | _ :: rest => ReadsFirst rest

def NoRead (l : List Ev) : Prop := ∀ e ∈ l, ∀ h, e ≠ Ev.read h
def NoPersist (l : List Ev) : Prop := ∀ e ∈ l, ∀ h b, e ≠ Ev.persist h b

@[simp] theorem noRead_nil : NoRead [] := by simp [NoRead]
@[simp] theorem noPersist_nil : NoPersist [] := by simp [NoPersist]
@[simp] theorem noRead_append (a b : List Ev) : NoRead (a ++ b) ↔ NoRead a ∧ NoRead b := by
  simp only [NoRead, List.mem_append]
  exact ⟨fun h => ⟨fun e he => h e (.inl he), fun e he => h e (.inr he)⟩,
    fun h e he => he.elim (h.1 e) (h.2 e)⟩
@[simp] theorem noPersist_append (a b : List Ev) : NoPersist (a ++ b) ↔ NoPersist a ∧ NoPersist b := by
  simp only [NoPersist, List.mem_append]
  exact ⟨fun h => ⟨fun e he => h e (.inl he), fun e he => h e (.inr he)⟩,
    fun h e he => he.elim (h.1 e) (h.2 e)⟩
@[simp] theorem noRead_pruneEv (n : Node) : NoRead (pruneEv Hs n) := by
  unfold pruneEv; split <;> simp [NoRead]
@[simp] theorem noRead_persistEv (n : Node) : NoRead (persistEv Hs n) := by
  unfold persistEv; split <;> simp [NoRead]
@[simp] theorem noPersist_pruneEv (n : Node) : NoPersist (pruneEv Hs n) := by
  unfold pruneEv; split <;> simp [NoPersist]
@[simp] theorem noPersist_readEv (n : Node) : NoPersist (readEv Hs n) := by
  unfold readEv; split <;> simp [NoPersist]
@[simp] theorem noRead_ite (c : Prop) [Decidable c] (a b : List Ev) (ha : NoRead a) (hb : NoRead b) :
    NoRead (if c then a else b) := by split <;> assumption
@[simp] theorem persistEv_blank : persistEv Hs blank = [] := by simp [persistEv, Hs.hashed_blank]

theorem readsFirst_of_noRead (l : List Ev) (h : NoRead l) : ReadsFirst l := by
  induction l with
  | nil => trivial
  | cons e l ih =>
    have hl : NoRead l := fun x hx => h x (List.mem_cons_of_mem _ hx)
    cases e with
    | read x => exact absurd rfl (h _ (List.mem_cons_self ..) x)
    | prune x => exact ih hl
    | persist x b => exact ⟨hl, ih hl⟩

theorem readsFirst_of_noPersist (l : List Ev) (h : NoPersist l) : ReadsFirst l := by
  induction l with
  | nil => trivial
  | cons e l ih =>
    have hl : NoPersist l := fun x hx => h x (List.mem_cons_of_mem _ hx)
    cases e with
    | read x => exact ih hl
    | prune x => exact ih hl
    | persist x b => exact absurd rfl (h _ (List.mem_cons_self ..) x b)

theorem readsFirst_append (a b : List Ev) (ha : ReadsFirst a) (hb : ReadsFirst b)
    (h : NoPersist a ∨ NoRead b) : ReadsFirst (a ++ b) := by
  induction a with
  | nil => exact hb
  | cons e a ih =>
    have h' : NoPersist a ∨ NoRead b := h.imp (fun h x hx => h x (List.mem_cons_of_mem _ hx)) id
    cases e with
    | read x => exact ih ha h'
    | prune x => exact ih ha h'
    | persist x bd =>
      have hnr : NoRead b := h.elim (fun h => absurd rfl (h _ (List.mem_cons_self ..) x bd)) id
      refine ⟨?_, ih ha.2 h'⟩
      intro e he
      rcases List.mem_append.1 he with h1 | h2
      · exact ha.1 e h1
      · exact hnr e h2

theorem setE_readsFirst (t : Node) (k : Path) (v : Bytes) : ReadsFirst (setE Hs t k v).2 := by
  induction t generalizing k with
  | blank => simp [setE, ReadsFirst]
  | leaf p pv =>
    apply readsFirst_of_noRead
    simp only [setE]
    split <;> simp
  | ext p c ih =>
    simp only [setE]
    split
    · next kr _ _ =>
      apply readsFirst_append _ _ _ (readsFirst_of_noRead _ (by simp)) (.inr (by simp))
      exact readsFirst_append _ _ (readsFirst_of_noPersist _ (by simp)) (ih _) (.inl (by simp))
    · apply readsFirst_of_noRead; simp
    · apply readsFirst_of_noRead; simp
  | branch ch bv ih =>
    cases k with
    | nil => apply readsFirst_of_noRead; simp [setE]
    | cons n k =>
      simp only [setE]
      apply readsFirst_append _ _ _ (readsFirst_of_noRead _ (by simp)) (.inr (by simp))
      exact readsFirst_append _ _ (readsFirst_of_noPersist _ (by simp)) (ih n k) (.inl (by simp))

theorem normalizeE_noPersist (ch : Nib → Node) (v : Bytes) : NoPersist (normalizeE Hs ch v).2 := by
  unfold normalizeE
  split
  · simp
  · simp
  · split <;> simp
  · simp

/-- a deletion whose result is `blank` wrote nothing -/
theorem deleteE_blank_noPersist (t : Node) (k : Path) (hb : (deleteE Hs t k).1 = blank) :
    NoPersist (deleteE Hs t k).2 := by
  induction t generalizing k with
  | blank => simp [deleteE]
  | leaf p v => simp [deleteE]
  | ext p c ih =>
    simp only [deleteE] at hb ⊢
    split at hb
    · have IH := ih (k.drop p.length)
      simp only [↓reduceIte, *]
      generalize deleteE Hs c (k.drop p.length) = r at IH hb ⊢
      split at hb
      · cases hb
      · simp only [*]
        split at hb
        · next e =>
          simp only [e] at IH ⊢
          simp [IH]
        · cases hb
        · cases hb
        · cases hb
    · cases hb
  | branch ch v ih =>
    cases k with
    | nil => simp [deleteE, normalizeE_noPersist]
    | cons n k =>
      have IH := ih n k
      simp only [deleteE] at hb ⊢
      generalize deleteE Hs (ch n) k = r at IH hb ⊢
      split at hb
      · cases hb
      · simp only [*]
        split at hb
        · next hbl =>
          have e : r.1 = blank := (isBlank_iff _).1 hbl
          simp only [↓reduceIte, hbl]
          simp only [e] at IH ⊢
          simp [IH, normalizeE_noPersist]
        · cases hb

theorem deleteE_readsFirst_gen (t : Node) (k : Path) : ReadsFirst (deleteE Hs t k).2 := by
  induction t generalizing k with
  | blank => simp [deleteE, ReadsFirst]
  | leaf p v => apply readsFirst_of_noRead; simp [deleteE]
  | ext p c ih =>
    simp only [deleteE]
    split
    · have IH := ih (k.drop p.length)
      generalize deleteE Hs c (k.drop p.length) = r at IH
      have hevs : ReadsFirst (pruneEv Hs (ext p c) ++ readEv Hs c ++ r.2 ++ persistEv Hs r.1) := by
        apply readsFirst_append _ _ _ (readsFirst_of_noRead _ (by simp)) (.inr (by simp))
        exact readsFirst_append _ _ (readsFirst_of_noPersist _ (by simp)) IH (.inl (by simp))
      split
      · exact hevs
      · split
        · exact hevs
        · exact readsFirst_append _ _ hevs (readsFirst_of_noRead _ (by simp)) (.inr (by simp))
        · exact readsFirst_append _ _ hevs (readsFirst_of_noRead _ (by simp)) (.inr (by simp))
        · exact hevs
    · apply readsFirst_of_noRead; simp
  | branch ch v ih =>
    cases k with
    | nil =>
      apply readsFirst_of_noPersist
      simp [deleteE, normalizeE_noPersist]
    | cons n k =>
      have IH := ih n k
      have hbl := deleteE_blank_noPersist Hs (ch n) k
      simp only [deleteE]
      generalize deleteE Hs (ch n) k = r at IH hbl
      have hevs : ReadsFirst (pruneEv Hs (branch ch v) ++ readEv Hs (ch n) ++ r.2 ++ persistEv Hs r.1) := by
        apply readsFirst_append _ _ _ (readsFirst_of_noRead _ (by simp)) (.inr (by simp))
        exact readsFirst_append _ _ (readsFirst_of_noPersist _ (by simp)) IH (.inl (by simp))
      split
      · exact hevs
      · split
        · next hb =>
          have e : r.1 = blank := (isBlank_iff _).1 hb
          apply readsFirst_of_noPersist
          simp [e, hbl e, normalizeE_noPersist]
        · exact hevs

/-- … and likewise for `_delete` on a canonical trie (a subtree that becomes blank persisted nothing,
    so the sibling fetch of `_normalize_branch_node` still precedes every write) -/
theorem deleteE_readsFirst (t : Node) (hc : Canon t) (k : Path) (hrs : RefSound Hs t k) :
    ReadsFirst (deleteE Hs t k).2 := by
  have _ := hc
  have _ := hrs
  exact deleteE_readsFirst_gen Hs t k

theorem runEvs_noRead_ne_missing (prune : Bool) (root key : Bytes) (s : OpSt) (es : List Ev) (hnr : NoRead es)
    (h root' rk : Bytes) (pre : Option Path) :
    (runEvs prune root key s es).2 ≠ some (.missingTrieNode h root' rk pre) := by
  induction es generalizing s with
  | nil => simp [runEvs]
  | cons e es ih =>
    have hes : NoRead es := fun x hx => hnr x (List.mem_cons_of_mem _ hx)
    simp only [runEvs]
    split
    · next s' _ => exact ih s' hes
    · next x hx =>
      cases e with
      | read y => exact absurd rfl (hnr _ (List.mem_cons_self ..) y)
      | prune y => simp [runEv] at hx
      | persist y b =>
        simp only [runEv, setDbValue] at hx
        split at hx
        · simp at hx; subst hx; simp
        · simp at hx

/-- a `MissingTrieNode` out of an event list whose fetches precede its writes: only fetches and
    prune notes ran, so store and counts are untouched, and the reported hash is absent -/
theorem runEvs_missing (prune : Bool) (root key : Bytes) (s : OpSt) (es : List Ev) (hrf : ReadsFirst es)
    (h root' rk : Bytes) (pre : Option Path)
    (he : (runEvs prune root key s es).2 = some (.missingTrieNode h root' rk pre)) :
    (runEvs prune root key s es).1.store = s.store ∧ (runEvs prune root key s es).1.counts = s.counts ∧
    s.store.contains h = false ∧ root' = root ∧ rk = key := by
  induction es generalizing s with
  | nil => simp [runEvs] at he
  | cons e es ih =>
    cases e with
    | read y =>
      have hrf' : ReadsFirst es := hrf
      simp only [runEvs, runEv] at he ⊢
      by_cases hy : s.store.contains y = true
      · simp only [hy, ↓reduceIte] at he ⊢
        exact ih s hrf' he
      · simp only [hy] at he ⊢
        simp at he
        obtain ⟨rfl, rfl, rfl, rfl⟩ := he
        exact ⟨rfl, rfl, by simpa using hy, rfl, rfl⟩
    | prune y =>
      have hrf' : ReadsFirst es := hrf
      simp only [runEvs, runEv] at he ⊢
      have := ih _ hrf' he
      cases prune <;> simpa using this
    | persist y b =>
      have hnr : NoRead es := hrf.1
      exfalso
      simp only [runEvs] at he
      split at he
      · next s' _ => exact runEvs_noRead_ne_missing prune root key s' es hnr _ _ _ _ he
      · next x hx =>
        simp only [runEv, setDbValue] at hx
        split at hx
        · simp at hx; subst hx; simp at he
        · simp at hx

theorem writeRoot_error_kind (T : TrieSt) (new : Node) (s : OpSt) (x : Exn)
    (h : writeRoot Hs blankRootHash T new s = .error x) : x = .writeFailed := by
  unfold writeRoot at h
  split at h
  · simp at h
  · split at h
    · simp at h
    · next y hy =>
      simp only [setDbValue] at hy
      split at hy
      · simp at hy h; rw [← h, ← hy]
      · simp at hy

theorem completePruning_error_kind (s : OpSt) (l : List (Hash × Nat)) (x : Exn)
    (h : (completePruning s l).2 = some x) : ∃ w, x = .validation w := by
  induction l generalizing s with
  | nil => simp [completePruning] at h
  | cons kn rest ih =>
    simp only [completePruning] at h
    split at h
    · next s' _ => exact ih s' h
    · next y hy =>
      simp only [pruneStep] at hy
      split at hy
      · split at hy
        · simp at hy h; exact ⟨_, by rw [← h, ← hy]⟩
        · simp at hy
      · simp at hy

theorem finishPrune_error_kind (T : TrieSt) (s : OpSt) (x : Exn)
    (h : (finishPrune T s).2 = some x) : ∃ w, x = .validation w := by
  unfold finishPrune at h
  split at h
  · exact completePruning_error_kind s _ x h
  · simp at h

theorem opTree_readsFirst (T : TrieSt) (key : Bytes) (val : Option Bytes) :
    ReadsFirst (opTree Hs T key val).2 := by
  unfold opTree
  split
  · split
    · exact deleteE_readsFirst_gen Hs _ _
    · exact setE_readsFirst Hs _ _ _
  · exact deleteE_readsFirst_gen Hs _ _

theorem opCore_missing (T : TrieSt) (key : Bytes) (val : Option Bytes) (s : OpSt)
    (h root rk : Bytes) (pre : Option Path) (r : OpSt × Except Exn TrieSt)
    (hr : opCore Hs blankRootHash T key val s = r)
    (he : r.2 = .error (.missingTrieNode h root rk pre)) :
    r.1.store = s.store ∧ r.1.counts = s.counts ∧ s.store.contains h = false ∧ root = T.root ∧ rk = key := by
  unfold opCore at hr
  split at hr
  · next hroot =>
    subst hr
    simp at he hroot
    obtain ⟨rfl, rfl, rfl, rfl⟩ := he
    exact ⟨rfl, rfl, hroot.2, rfl, rfl⟩
  · have hm := runEvs_missing T.prune T.root key s _ (opTree_readsFirst Hs T key val) h root rk pre
    split at hr
    · next s1 x hx =>
      subst hr
      simp only [Except.error.injEq] at he
      rw [hx] at hm
      exact hm (by rw [he])
    · next s1 hx =>
      split at hr
      · next x hw =>
        subst hr
        have := writeRoot_error_kind Hs blankRootHash T _ _ x hw
        subst this
        simp at he
      · next s3 newRoot hw =>
        split at hr
        · next s4 x hf =>
          subst hr
          obtain ⟨w, rfl⟩ := finishPrune_error_kind T s3 x (by rw [hf])
          simp at he
        · subst hr; simp at he

/-- **failure is atomic**: when `set` / `delete` raises `MissingTrieNode`, the store (database and
    scratch cache), the reference counts and the pending prunes are exactly as before the call -/
theorem opSetDel_missing_atomic (T : TrieSt) (hc : Canon T.tree) (key : Bytes) (val : Option Bytes) (s : OpSt)
    (hrs : RefSound Hs T.tree (nibs key))
    (h root rk : Bytes) (pre : Option Path)
    (he : (opSetDel Hs blankRootHash T key val s).2 = .error (.missingTrieNode h root rk pre)) :
    (opSetDel Hs blankRootHash T key val s).1.store.base = s.store.base ∧
    (opSetDel Hs blankRootHash T key val s).1.store.cache = s.store.cache ∧
    (opSetDel Hs blankRootHash T key val s).1.counts = s.counts ∧
    (opSetDel Hs blankRootHash T key val s).1.pending = [] ∧
    s.store.contains h = false ∧ root = T.root ∧ rk = key := by
  have _ := hc
  have _ := hrs
  unfold opSetDel at he ⊢
  obtain ⟨h1, h2, h3, h4, h5⟩ :=
    opCore_missing Hs blankRootHash T key val { s with pending := [] } h root rk pre _ rfl he
  exact ⟨by rw [h1], by rw [h1], h2, rfl, h3, h4, h5⟩

end PyTrie.HexW
