import PyTrie.Lemmas.BinDel
/-! delete_subtrie on nodes, under `WF`. -/
namespace PyTrie.Bin
open BNode

/-- a successful delete_subtrie removes exactly the keys starting with `q` -/
theorem bget_bset_sub (t : BNode) (ht : WF t) (q : Bits) (t' : Option BNode)
    (h : bset t q [] true = .ok t') (k' : Bits) :
    bgetTop t' k' = if q <+: k' then none else bget t k' := by
  induction t generalizing q t' k' with
  | leaf x =>
    simp only [bset] at h
    split at h
    · cases h
    · next hk =>
      have hk : q = [] := by simpa using hk
      subst hk
      simp at h
      subst h
      simp [bgetTop_none]
  | kv p c ih =>
    obtain ⟨hp, hc⟩ := ht
    simp only [bset] at h
    split at h
    · next hk =>
      subst hk
      simp at h
      subst h
      simp [bgetTop_none]
    · next hk =>
      simp only [true_and] at h
      split at h
      · next hcond =>
        cases h
        rw [bgetTop_none]
        split
        · rfl
        · next hq =>
          rw [bget_kv]
          split
          · rfl
          · split
            · next hpre' => exact absurd (hcond.2.trans hpre') hq
            · rfl
      · next hcond =>
        split at h
        · next hpre =>
          obtain ⟨qr, rfl⟩ := hpre
          simp only [List.drop_left] at h
          split at h
          · cases h
          · next heq =>
            cases h
            have hi := ih hc qr none heq
            rw [bgetTop_none]
            split
            · rfl
            · next hne =>
              rw [bget_kv]
              split
              · rfl
              · split
                · next hpre' =>
                  obtain ⟨r, rfl⟩ := hpre'
                  have := hi r
                  rw [bgetTop_none, if_neg (by simpa [List.prefix_append_right_inj] using hne)] at this
                  simpa using this
                · rfl
          · next s hs =>
            cases h
            have hws := wf_bset c qr [] true hc s hs
            rw [bgetTop_some, bget_mkKv p s hws, bget_kv, bget_kv]
            by_cases hk' : k' = []
            · subst hk'; simp
            · simp only [hk', ↓reduceIte]
              by_cases hpre' : p <+: k'
              · obtain ⟨r, rfl⟩ := hpre'
                have := ih hc qr (some s) hs r
                rw [bgetTop_some] at this
                simp [this, List.prefix_append_right_inj]
              · have : ¬ (p ++ qr <+: k') := fun e => hpre' ((List.prefix_append _ _).trans e)
                simp [hpre', this]
        · next hpre =>
          simp only [or_true, ↓reduceIte] at h
          cases h
          rw [bgetTop_some]
          split
          · next hq =>
            rw [bget_kv, if_neg (by rintro rfl; simp at hq; exact hk hq)]
            split
            · next hpre' =>
              exfalso
              rcases List.prefix_or_prefix_of_prefix hq hpre' with h5 | h5
              · have hlen := h5.length_le
                by_cases hlt : q.length < p.length
                · exact hcond ⟨hlt, h5⟩
                · exact hpre (h5.eq_of_length_le (by omega) ▸ List.prefix_refl _)
              · exact hpre h5
            · rfl
          · rfl
  | branch l r ihl ihr =>
    obtain ⟨hl, hr⟩ := ht
    cases q with
    | nil =>
      simp [bset] at h
      subst h
      simp [bgetTop_none]
    | cons b k1 =>
      simp only [bset] at h
      split at h
      · next hb =>
        subst hb
        split at h
        · cases h
        · next heq =>
          cases h
          have hi := ihl hl k1 none heq
          rw [bgetTop_some, bget_mkKv _ _ hr]
          cases k' with
          | nil => simp [bget_kv, bget_branch_nil]
          | cons b' k2 =>
            rw [bget_kv, bget_branch_cons]
            have := hi k2
            rw [bgetTop_none] at this
            cases b' <;> simp [← this, List.cons_prefix_cons]
        · next nl hnl =>
          cases h
          have hi := ihl hl k1 (some nl) hnl
          rw [bgetTop_some]
          cases k' with
          | nil => simp [bget_branch_nil]
          | cons b' k2 =>
            have := hi k2
            rw [bgetTop_some] at this
            simp only [bget_branch_cons]
            cases b' <;> simp [this, List.cons_prefix_cons]
      · next hb =>
        have hb : b = true := by simpa using hb
        subst hb
        split at h
        · cases h
        · next heq =>
          cases h
          have hi := ihr hr k1 none heq
          rw [bgetTop_some, bget_mkKv _ _ hl]
          cases k' with
          | nil => simp [bget_kv, bget_branch_nil]
          | cons b' k2 =>
            rw [bget_kv, bget_branch_cons]
            have := hi k2
            rw [bgetTop_none] at this
            cases b' <;> simp [← this, List.cons_prefix_cons]
        · next nr hnr =>
          cases h
          have hi := ihr hr k1 (some nr) hnr
          rw [bgetTop_some]
          cases k' with
          | nil => simp [bget_branch_nil]
          | cons b' k2 =>
            have := hi k2
            rw [bgetTop_some] at this
            simp only [bget_branch_cons]
            cases b' <;> simp [this, List.cons_prefix_cons]

/-- delete_subtrie is refused only when `q` runs past a stored key -/
theorem bset_sub_override (t : BNode) (ht : WF t) (q : Bits)
    (h : bset t q [] true = .error .override) :
    ∃ k' v', bget t k' = some v' ∧ k' <+: q ∧ k' ≠ q := by
  induction t generalizing q with
  | leaf x =>
    simp only [bset] at h
    split at h
    · next hk =>
      have hk : q ≠ [] := by simpa using hk
      exact ⟨[], x, rfl, List.nil_prefix, Ne.symm hk⟩
    · simp at h
  | kv p c ih =>
    obtain ⟨hp, hc⟩ := ht
    simp only [bset] at h
    split at h
    · simp at h
    · next hk =>
      simp only [true_and] at h
      split at h
      · cases h
      · split at h
        · next hpre =>
          obtain ⟨qr, rfl⟩ := hpre
          simp only [List.drop_left] at h
          split at h
          · next e heq =>
            cases e
            obtain ⟨k', v', h1, h2, h3⟩ := ih hc qr heq
            exact ⟨p ++ k', v', (bget_kv_some ..).2 ⟨by simp [hp], k', rfl, h1⟩,
              by simpa [List.prefix_append_right_inj] using h2, by simpa using h3⟩
          · cases h
          · cases h
        · simp at h
  | branch l r ihl ihr =>
    obtain ⟨hl, hr⟩ := ht
    cases q with
    | nil => simp [bset] at h
    | cons b k1 =>
      simp only [bset] at h
      split at h
      · next hb =>
        subst hb
        split at h
        · next e heq =>
          cases e
          obtain ⟨k', v', h1, h2, h3⟩ := ihl hl k1 heq
          exact ⟨false :: k', v', by rw [bget_branch_cons]; exact h1,
            by simpa [List.cons_prefix_cons] using h2, by simpa using h3⟩
        · cases h
        · cases h
      · next hb =>
        have hb : b = true := by simpa using hb
        subst hb
        split at h
        · next e heq =>
          cases e
          obtain ⟨k', v', h1, h2, h3⟩ := ihr hr k1 heq
          exact ⟨true :: k', v', by rw [bget_branch_cons]; exact h1,
            by simpa [List.cons_prefix_cons] using h2, by simpa using h3⟩
        · cases h
        · cases h

end PyTrie.Bin
