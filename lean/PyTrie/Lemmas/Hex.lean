import PyTrie.Model.Hex
/-! Map semantics of the tree-level `set` / `delete` / `normalize` (no hypotheses). -/
namespace PyTrie.Hex


open Node

end PyTrie.Hex

namespace PyTrie.Hex
open Node

theorem take_cpl (p k : Path) : p.take (cpl p k) = k.take (cpl p k) := by
  induction p generalizing k with
  | nil => simp [cpl]
  | cons a as ih =>
    cases k with
    | nil => simp [cpl]
    | cons b bs =>
      simp only [cpl]
      split
      · next h => subst h; simp [ih]
      · simp

theorem cpl_le_left (p k : Path) : cpl p k ≤ p.length := by
  induction p generalizing k with
  | nil => simp [cpl]
  | cons a as ih =>
    cases k with
    | nil => simp [cpl]
    | cons b bs => simp only [cpl]; split <;> simp [ih]

theorem cpl_le_right (p k : Path) : cpl p k ≤ k.length := by
  induction p generalizing k with
  | nil => simp [cpl]
  | cons a as ih =>
    cases k with
    | nil => simp [cpl]
    | cons b bs => simp only [cpl]; split <;> simp [ih]

theorem cpl_head_ne (p k : Path) (ph kh : Nib) (pt kt : Path)
    (h1 : p.drop (cpl p k) = ph :: pt) (h2 : k.drop (cpl p k) = kh :: kt) : ph ≠ kh := by
  induction p generalizing k with
  | nil => simp [cpl] at h1
  | cons a as ih =>
    cases k with
    | nil => simp [cpl] at h2
    | cons b bs =>
      simp only [cpl] at h1 h2
      split at h1
      · next h => simp only [h, ↓reduceIte, List.drop_succ_cons] at h1 h2; exact ih bs h1 h2
      · next h => simp only [h, ↓reduceIte, List.drop_zero, List.cons.injEq] at h1 h2
                  obtain ⟨rfl, _⟩ := h1; obtain ⟨rfl, _⟩ := h2; exact h

theorem get_wrap (common : Path) (new : Node) (k : Path) :
    get (wrap common new) k = if common <+: k then get new (k.drop common.length) else [] := by
  unfold wrap
  split
  · next h => subst h; simp
  · simp [get]

@[simp] theorem get_emptyCh (i : Nib) (k : Path) : get (emptyCh i) k = [] := by simp [emptyCh, get]

theorem get_upd (ch : Nib → Node) (i j : Nib) (n : Node) (k : Path) :
    get (upd ch i n j) k = if j = i then get n k else get (ch j) k := by
  unfold upd; split <;> rfl

end PyTrie.Hex

namespace PyTrie.Hex
open Node

theorem split_at_cpl (p k : Path) :
    p = p.take (cpl p k) ++ p.drop (cpl p k) ∧ k = p.take (cpl p k) ++ k.drop (cpl p k) := by
  constructor
  · simp
  · rw [take_cpl]; simp

theorem get_branch_nil (ch : Nib → Node) (v : Bytes) : get (branch ch v) [] = v := rfl
theorem get_branch_cons (ch : Nib → Node) (v : Bytes) (a : Nib) (r : Path) :
    get (branch ch v) (a :: r) = get (ch a) r := rfl
theorem get_ext (p : Path) (c : Node) (k : Path) :
    get (ext p c) k = if p <+: k then get c (k.drop p.length) else [] := rfl
theorem get_leaf (p : Path) (v : Bytes) (k : Path) : get (leaf p v) k = if k = p then v else [] := rfl

theorem get_set (t : Node) (k : Path) (v : Bytes) (k' : Path) :
    get (set t k v) k' = if k' = k then v else get t k' := by
  induction t generalizing k k' with
  | blank => simp [set, get]
  | leaf p pv =>
    obtain ⟨hp, hk⟩ := split_at_cpl p k
    generalize hc : p.take (cpl p k) = c at hp hk
    simp only [set]
    generalize hpr : p.drop (cpl p k) = pr at hp hk
    generalize hkr : k.drop (cpl p k) = kr at hp hk
    have hne := cpl_head_ne p k
    rw [hpr, hkr] at hne
    subst hp hk
    rw [hc]
    by_cases hpre : c <+: k'
    · obtain ⟨r, rfl⟩ := hpre
      cases pr <;> cases kr <;> simp only [get_wrap, get_leaf, List.prefix_append, ↓reduceIte,
        List.drop_left, List.append_cancel_left_eq, List.append_nil] <;>
        cases r <;> simp [get_branch_nil, get_branch_cons, get_upd, get_leaf, get_emptyCh] <;> grind
    · have h1 : k' ≠ c ++ kr := fun h => hpre (h ▸ List.prefix_append _ _)
      have h2 : k' ≠ c ++ pr := fun h => hpre (h ▸ List.prefix_append _ _)
      cases pr <;> cases kr <;> simp_all [get_wrap, get_leaf]
  | ext p c ih =>
    obtain ⟨hp, hk⟩ := split_at_cpl p k
    generalize hc : p.take (cpl p k) = cm at hp hk
    simp only [set]
    generalize hpr : p.drop (cpl p k) = pr at hp hk
    generalize hkr : k.drop (cpl p k) = kr at hp hk
    have hne := cpl_head_ne p k
    rw [hpr, hkr] at hne
    subst hp hk
    rw [hc]
    cases pr with
    | nil =>
      simp only [List.append_nil, get_ext, ih]
      by_cases hpre : cm <+: k'
      · obtain ⟨r, rfl⟩ := hpre
        simp
      · have h1 : k' ≠ cm ++ kr := fun h => hpre (h ▸ List.prefix_append _ _)
        simp [hpre, h1]
    | cons ph pt =>
      by_cases hpre : cm <+: k'
      · obtain ⟨r, rfl⟩ := hpre
        cases kr <;> simp only [get_wrap, get_ext, List.prefix_append, ↓reduceIte,
          List.drop_left, List.append_cancel_left_eq, List.append_nil, List.prefix_append_right_inj,
          List.length_append, List.length_cons] <;>
          cases r <;> simp [get_branch_nil, get_branch_cons, get_upd, get_wrap, get_emptyCh, get_leaf] <;> grind
      · have h1 : k' ≠ cm ++ kr := fun h => hpre (h ▸ List.prefix_append _ _)
        have h2 : ¬ (cm ++ ph :: pt <+: k') := fun h => hpre ((List.prefix_append _ _).trans h)
        cases kr <;> simp_all [get_wrap, get_ext]
  | branch ch bv ih =>
    cases k with
    | nil => cases k' <;> simp [set, get]
    | cons n k =>
      cases k' with
      | nil => simp [set, get]
      | cons n' k' =>
        simp only [set, get_branch_cons, get_upd, ih]
        by_cases h : n' = n <;> simp [h]

end PyTrie.Hex

namespace PyTrie.Hex
open Node

theorem isBlank_iff (n : Node) : isBlank n = true ↔ n = blank := by cases n <;> simp [isBlank]

theorem get_blank_of_isBlank {n : Node} (h : isBlank n = true) (k : Path) : get n k = [] := by
  rw [(isBlank_iff n).1 h]; rfl

theorem mem_liveIdx (ch : Nib → Node) (i : Nib) : i ∈ liveIdx ch ↔ isBlank (ch i) = false := by
  simp [liveIdx]

theorem all_blank_of_liveIdx_nil {ch : Nib → Node} (h : liveIdx ch = []) (i : Nib) :
    isBlank (ch i) = true := by
  cases hc : isBlank (ch i) with
  | true => rfl
  | false => have : i ∈ liveIdx ch := (mem_liveIdx ch i).2 hc
             simp [h] at this

theorem blank_of_liveIdx_single {ch : Nib → Node} {i : Nib} (h : liveIdx ch = [i]) (j : Nib)
    (hj : j ≠ i) : isBlank (ch j) = true := by
  cases hc : isBlank (ch j) with
  | true => rfl
  | false => have : j ∈ liveIdx ch := (mem_liveIdx ch j).2 hc
             simp [h] at this; exact absurd this hj

theorem get_normalize (ch : Nib → Node) (v : Bytes) (k : Path) :
    get (normalize ch v) k = get (branch ch v) k := by
  unfold normalize
  generalize hl : liveIdx ch = l
  match l, v with
  | [], [] =>
    cases k with
    | nil => rfl
    | cons a r => simp [get, get_blank_of_isBlank (all_blank_of_liveIdx_nil hl a)]
  | [], b :: bs =>
    cases k with
    | nil => simp [get]
    | cons a r => simp [get, get_blank_of_isBlank (all_blank_of_liveIdx_nil hl a)]
  | [i], [] =>
    cases k with
    | nil => simp only []; split <;> simp [get]
    | cons a r =>
      simp only []
      by_cases ha : a = i
      · subst ha
        split <;> simp_all [get]
      · have := get_blank_of_isBlank (blank_of_liveIdx_single hl a ha) r
        split <;> simp_all [get] <;> grind
  | [i], b :: bs => rfl
  | i :: j :: r, v => rfl

end PyTrie.Hex

namespace PyTrie.Hex
open Node

theorem get_delete (t : Node) (k k' : Path) :
    get (delete t k) k' = if k' = k then [] else get t k' := by
  induction t generalizing k k' with
  | blank => simp [delete, get]
  | leaf p v => simp only [delete]; split <;> simp_all [get] <;> grind
  | ext p c ih =>
    simp only [delete]
    split
    · next hpk =>
      obtain ⟨kr, rfl⟩ := hpk
      have ihc := ih kr
      simp only [List.drop_left] at *
      by_cases hpre : p <+: k'
      · obtain ⟨r, rfl⟩ := hpre
        have := ihc r
        split <;> simp_all [get] <;> grind
      · have h1 : k' ≠ p ++ kr := fun h => hpre (h ▸ List.prefix_append _ _)
        split
        · simp [get, h1, hpre]
        · next p' v' _ =>
          have : ¬ (k' = p ++ p') := fun h => hpre (h ▸ List.prefix_append _ _)
          simp [get, h1, hpre, this]
        · next p' c' _ =>
          have : ¬ (p ++ p' <+: k') := fun h => hpre ((List.prefix_append _ _).trans h)
          simp [get, h1, hpre, this]
        · simp [get, h1, hpre]
    · next hpk =>
      have : k' = k → ¬ p <+: k' := fun h => h ▸ hpk
      simp only [get]; grind
  | branch ch bv ih =>
    cases k with
    | nil => simp only [delete, get_normalize]; cases k' <;> simp [get]
    | cons n k =>
      simp only [delete]
      split <;> (try simp only [get_normalize]) <;>
        (cases k' with
         | nil => simp [get]
         | cons n' k' =>
           simp only [get_branch_cons, get_upd, ih]
           by_cases h : n' = n <;> simp [h])

end PyTrie.Hex
