import PyTrie.Lemmas.WorldPruneV
/-! `PruneRunV.lean` / `WorldPruneV.lean` for a **cached** store (a ScratchDB in front of a database), without
    any assumption on `failAfter` and with reads only required to be *readable* (`Store.contains`) rather
    than in the view: on a cached store writes and deletes never fail, so `runEvs`, `writeRoot` and
    `completePruning` never raise, and their effect on counts / pending / view is exact for every key. -/
namespace PyTrie.HexW
open PyTrie.Hex hiding get set
open PyTrie.Hex.Node

/-- the store is a ScratchDB (unique cache keys) in front of `base0` -/
def Store.CachedOn (s : Store) (base0 : Dict Bytes) : Prop :=
  s.base = base0 ∧ ∃ c, s.cache = some c ∧ NoDupKeys c

/-- keys of the wrapped database are always readable through a ScratchDB -/
theorem Store.contains_of_base (s : Store) (h : Hash) (hb : Dict.contains s.base h = true) :
    s.contains h = true := by
  unfold Store.contains
  split
  · exact hb
  · split
    · rfl
    · exact hb

/-- for keys that are not in the wrapped database, readable = will be committed -/
theorem Store.contains_eq_view_of_new (s : Store) (h : Hash) (hb : Dict.contains s.base h = false) :
    s.contains h = s.view h := by
  unfold Store.contains Store.view
  cases s.cache with
  | none => rfl
  | some c =>
    simp only
    cases hg : Dict.get? c h with
    | none => rfl
    | some o =>
      cases o with
      | none => simp [hb]
      | some v => rfl

/-- a write on a cached store succeeds, adds exactly its key to the view, keeps everything readable -/
theorem Store.write_cached (s : Store) (base0 : Dict Bytes) (hc : s.CachedOn base0) (h : Hash) (b : Bytes) :
    ∃ s', s.write h b = some s' ∧ s'.CachedOn base0 ∧
      (∀ x, s'.view x = true ↔ (s.view x = true ∨ x = h)) ∧
      (∀ x, s.contains x = true → s'.contains x = true) := by
  obtain ⟨base, cache, fa⟩ := s
  obtain ⟨hb, c, hcc, hnd⟩ := hc
  simp only at hb hcc
  subst hb hcc
  refine ⟨_, rfl, ⟨rfl, _, rfl, NoDupKeys.insert hnd _ _⟩, fun x => ?_, fun x => ?_⟩
  · simp only [Store.view]
    by_cases hx : x = h
    · subst hx
      rw [Dict.get?_insert_self']
      simp
    · rw [Dict.get?_insert_other' c h x _ hx]
      simp [hx]
  · simp only [Store.contains]
    by_cases hx : x = h
    · subst hx
      rw [Dict.get?_insert_self']
      simp
    · rw [Dict.get?_insert_other' c h x _ hx]
      exact id

/-- a delete on a cached store never fails and removes exactly its key from the view -/
theorem Store.del_cached (s : Store) (base0 : Dict Bytes) (hc : s.CachedOn base0) (h : Hash) :
    ∃ s', s.del h = some s' ∧ s'.CachedOn base0 ∧
      ∀ x, s'.view x = true ↔ (s.view x = true ∧ x ≠ h) := by
  obtain ⟨base, cache, fa⟩ := s
  obtain ⟨hb, c, hcc, hnd⟩ := hc
  simp only at hb hcc
  subst hb hcc
  refine ⟨_, rfl, ⟨rfl, _, rfl, NoDupKeys.insert hnd _ _⟩, fun x => ?_⟩
  simp only [Store.view]
  by_cases hx : x = h
  · subst hx
    rw [Dict.get?_insert_self']
    simp
  · rw [Dict.get?_insert_other' c h x _ hx]
    simp [hx]

/-- state after a successful event list on a cached store -/
structure RunSpecNP (base0 : Dict Bytes) (s : OpSt) (es : List Ev) (s' : OpSt) : Prop where
  cached : s'.store.CachedOn base0
  nodup : NoDupKeys s'.pending
  pos : PosVals s'.pending
  counts : ∀ h, s'.counts.val h = s.counts.val h + cntPersist es h
  pending : ∀ h, s'.pending.val h = s.pending.val h + cntPrune es h
  keys : ∀ h, s'.store.view h = true ↔ (s.store.view h = true ∨ 0 < cntPersist es h)
  readable : ∀ h, s.store.contains h = true → s'.store.contains h = true

theorem runEvs_specNP (base0 : Dict Bytes) (root key : Bytes) (es : List Ev) (s : OpSt)
    (hc : s.store.CachedOn base0)
    (hnd : NoDupKeys s.pending) (hpos : PosVals s.pending)
    (hreads : ∀ h, Ev.read h ∈ es → s.store.contains h = true) :
    ∃ s', runEvs true root key s es = (s', none) ∧ RunSpecNP base0 s es s' := by
  induction es generalizing s with
  | nil =>
    exact ⟨s, rfl, hc, hnd, hpos, fun h => by simp, fun h => by simp, fun h => by simp, fun h a => a⟩
  | cons e es ih =>
    cases e with
    | read x =>
      have hx : s.store.contains x = true := hreads x (List.mem_cons_self ..)
      obtain ⟨s', h1, h2⟩ := ih s hc hnd hpos (fun h hm => hreads h (List.mem_cons_of_mem _ hm))
      refine ⟨s', ?_, h2.cached, h2.nodup, h2.pos, ?_, ?_, ?_, h2.readable⟩
      · simp only [runEvs, runEv, hx, ↓reduceIte]; exact h1
      · intro h; rw [h2.counts, cntPersist_cons]; simp [isPersistOf]
      · intro h; rw [h2.pending, cntPrune_cons]; simp
      · intro h; rw [h2.keys, cntPersist_cons]; simp [isPersistOf]
    | prune x =>
      obtain ⟨s', h1, h2⟩ := ih { s with pending := s.pending.inc x } hc (hnd.inc x) (hpos.inc x)
        (fun h hm => hreads h (List.mem_cons_of_mem _ hm))
      refine ⟨s', ?_, h2.cached, h2.nodup, h2.pos, ?_, ?_, ?_, h2.readable⟩
      · simp only [runEvs, runEv, ↓reduceIte]; exact h1
      · intro h; rw [h2.counts, cntPersist_cons]; simp [isPersistOf]
      · intro h
        rw [h2.pending, cntPrune_cons, Counts.val_inc]
        simp only [Ev.prune.injEq]
        by_cases hx : h = x
        · subst hx; simp; omega
        · have hx' : ¬ x = h := fun e => hx e.symm
          simp [hx, hx']
      · intro h; rw [h2.keys, cntPersist_cons]; simp [isPersistOf]
    | persist x b =>
      obtain ⟨st, hw, hc', hv', hr'⟩ := Store.write_cached s.store base0 hc x b
      obtain ⟨s', h1, h2⟩ := ih
        { s with store := st, counts := s.counts.inc x }
        hc' hnd hpos
        (fun h hm => hr' h (hreads h (List.mem_cons_of_mem _ hm)))
      refine ⟨s', ?_, h2.cached, h2.nodup, h2.pos, ?_, ?_, ?_, fun h a => h2.readable h (hr' h a)⟩
      · simp only [runEvs, runEv, setDbValue, hw, ↓reduceIte]; exact h1
      · intro h
        rw [h2.counts, cntPersist_cons, Counts.val_inc]
        simp only [isPersistOf, beq_iff_eq]
        by_cases hx : h = x
        · subst hx; simp; omega
        · have hx' : ¬ x = h := fun e => hx e.symm
          simp [hx, hx']
      · intro h; rw [h2.pending, cntPrune_cons]; simp
      · intro h
        rw [h2.keys, cntPersist_cons]
        show (st.view h = true ∨ _) ↔ _
        rw [hv']
        simp only [isPersistOf, beq_iff_eq]
        by_cases hx : h = x
        · subst hx; simp
        · have hx' : ¬ x = h := fun e => hx e.symm
          simp [hx, hx']

/-- one step of `_complete_pruning` on a cached store: never raises, whatever the counts are -/
theorem pruneStep_specNP (base0 : Dict Bytes) (s : OpSt) (kn : Hash × Nat) (hc : s.store.CachedOn base0) :
    ∃ s', pruneStep s kn = .ok s' ∧ s'.store.CachedOn base0 ∧ s'.pending = s.pending ∧
      (∀ k, s'.counts.val k = if k = kn.1 then s.counts.val k - kn.2 else s.counts.val k) ∧
      (∀ k, s'.store.view k = true ↔
        (s.store.view k = true ∧ (k = kn.1 → kn.2 < s.counts.val k))) := by
  unfold pruneStep
  simp only
  split
  · next hle =>
    obtain ⟨st, hd, hc', hv'⟩ := Store.del_cached s.store base0 hc kn.1
    rw [hd]
    refine ⟨_, rfl, hc', rfl, ?_, ?_⟩
    · intro k
      simp only [Counts.val_erase]
      split
      · next e => subst e; omega
      · rfl
    · intro k
      simp only [hv']
      constructor
      · rintro ⟨a, b⟩; exact ⟨a, fun e => absurd e b⟩
      · rintro ⟨a, b⟩
        refine ⟨a, fun e => ?_⟩
        have := b e
        subst e
        omega
  · next hlt =>
    refine ⟨_, rfl, hc, rfl, ?_, ?_⟩
    · intro k
      simp only [Counts.val_insert]
      split
      · next e => subst e; rfl
      · rfl
    · intro k
      constructor
      · intro a; exact ⟨a, fun e => by subst e; omega⟩
      · exact fun a => a.1

/-- `_complete_pruning` over a list of distinct keys on a cached store: never raises; counts drop by the
    pending amounts (clamped at zero), exactly the keys whose count does not exceed the pending amount leave
    the view -/
theorem completePruning_specNP (base0 : Dict Bytes) (l : List (Hash × Nat)) (hnd : NoDupKeys l) (s : OpSt)
    (hc : s.store.CachedOn base0) :
    ∃ s', completePruning s l = (s', none) ∧ s'.store.CachedOn base0 ∧ s'.pending = s.pending ∧
      (∀ k, s'.counts.val k = s.counts.val k - Counts.val l k) ∧
      (∀ k, s'.store.view k = true ↔
        (s.store.view k = true ∧ (Dict.contains l k = true → Counts.val l k < s.counts.val k))) := by
  induction l generalizing s with
  | nil =>
    refine ⟨s, rfl, hc, rfl, fun k => by simp [Counts.val_nil], fun k => ?_⟩
    simp [Dict.contains_nil]
  | cons kn rest ih =>
    have hnd' := hnd
    unfold NoDupKeys at hnd'
    rw [List.map_cons, List.nodup_cons] at hnd'
    obtain ⟨s1, h1, hc1, hp1, hcnt1, hkeys1⟩ := pruneStep_specNP base0 s kn hc
    obtain ⟨s2, h2, hc2, hp2, hcnt2, hkeys2⟩ := ih hnd'.2 s1 hc1
    have hrest : Dict.contains rest kn.1 = false := by
      cases hb : Dict.contains rest kn.1
      · rfl
      · exact absurd ((Dict.contains_iff_mem_keys rest kn.1).1 hb) hnd'.1
    refine ⟨s2, ?_, hc2, hp2.trans hp1, ?_, ?_⟩
    · simp only [completePruning, h1]; exact h2
    · intro k
      rw [hcnt2, hcnt1, Counts.val_cons]
      by_cases hkk : k = kn.1
      · subst hkk
        simp [Counts.val_of_not_contains rest _ hrest]
      · have hkk' : (kn.1 == k) = false := by simpa using (fun e => hkk (Eq.symm e))
        simp [hkk, hkk']
    · intro k
      rw [hkeys2, hkeys1, hcnt1, Dict.contains_cons, Counts.val_cons]
      by_cases hkk : k = kn.1
      · subst hkk
        simp [hrest, Counts.val_of_not_contains rest _ hrest]
      · have hkk' : (kn.1 == k) = false := by simpa using (fun e => hkk (Eq.symm e))
        simp [hkk, hkk']

variable (Hs : Hashing) (blankRootHash : Hash)

/-- `schedOldRoot_specV` with the old root only required to be readable -/
theorem schedOldRoot_specNP (T : TrieSt) (s : OpSt) (hp : T.prune = true)
    (hroot : if isBlank T.tree then T.root = blankRootHash else T.root = Hs.hashOf T.tree ∧ T.root ≠ blankRootHash)
    (hcont : isBlank T.tree = false → s.store.contains T.root = true)
    (hnd : NoDupKeys s.pending) (hpos : PosVals s.pending) :
    (schedOldRoot Hs blankRootHash T s).store = s.store ∧ (schedOldRoot Hs blankRootHash T s).counts = s.counts ∧
    NoDupKeys (schedOldRoot Hs blankRootHash T s).pending ∧ PosVals (schedOldRoot Hs blankRootHash T s).pending ∧
    ∀ h, (schedOldRoot Hs blankRootHash T s).pending.val h = s.pending.val h +
      (if isBlank T.tree = false ∧ Hs.hashed T.tree = false ∧ Hs.hashOf T.tree = h then 1 else 0) := by
  cases hb : isBlank T.tree
  · rw [hb] at hroot
    simp only [Bool.false_eq_true, ↓reduceIte] at hroot
    have h1 : (T.root != blankRootHash) = true := by simpa using hroot.2
    have h2 : s.store.contains T.root = true := hcont hb
    cases hh : Hs.hashed T.tree
    · have e : schedOldRoot Hs blankRootHash T s = { s with pending := s.pending.inc T.root } := by
        unfold schedOldRoot; simp [hp, h1, h2, hh]
      rw [e]
      refine ⟨rfl, rfl, hnd.inc _, hpos.inc _, fun h => ?_⟩
      simp only [Counts.val_inc, hroot.1, true_and]
      by_cases he : h = Hs.hashOf T.tree
      · subst he; simp
      · have he' : ¬ Hs.hashOf T.tree = h := fun e => he e.symm
        simp [he, he']
    · have e : schedOldRoot Hs blankRootHash T s = s := by
        unfold schedOldRoot; simp [hh]
      rw [e]
      exact ⟨rfl, rfl, hnd, hpos, fun h => by simp⟩
  · rw [hb] at hroot
    simp only [↓reduceIte] at hroot
    have e : schedOldRoot Hs blankRootHash T s = s := by
      unfold schedOldRoot; simp [hroot]
    rw [e]
    exact ⟨rfl, rfl, hnd, hpos, fun h => by simp⟩

theorem writeRoot_specNP (base0 : Dict Bytes) (T : TrieSt) (hp : T.prune = true) (new : Node) (s : OpSt)
    (hc : s.store.CachedOn base0) :
    ∃ s', writeRoot Hs blankRootHash T new s = .ok (s', if isBlank new then blankRootHash else Hs.hashOf new) ∧
      s'.store.CachedOn base0 ∧ s'.pending = s.pending ∧
      (∀ h, s'.counts.val h = s.counts.val h + (if isBlank new = false ∧ Hs.hashOf new = h then 1 else 0)) ∧
      (∀ h, s'.store.view h = true ↔
        (s.store.view h = true ∨ (isBlank new = false ∧ Hs.hashOf new = h))) := by
  unfold writeRoot
  cases hb : isBlank new
  · obtain ⟨st, hw, hc', hv', _⟩ := Store.write_cached s.store base0 hc (Hs.hashOf new) (Hs.encOf new)
    simp only [Bool.false_eq_true, ↓reduceIte, setDbValue, hw, hp]
    refine ⟨_, rfl, hc', rfl, fun h => ?_, fun h => ?_⟩
    · simp only [Counts.val_inc, true_and]
      by_cases he : h = Hs.hashOf new
      · subst he; simp
      · have he' : ¬ Hs.hashOf new = h := fun e => he e.symm
        simp [he, he']
    · simp only [hv', true_and]
      constructor
      · rintro (a | a)
        · exact Or.inl a
        · exact Or.inr a.symm
      · rintro (a | a)
        · exact Or.inl a
        · exact Or.inr a.symm
  · simp only [↓reduceIte]
    exact ⟨s, rfl, hc, rfl, fun h => by simp, fun h => by simp⟩

end PyTrie.HexW
