import PyTrie.Lemmas.HexCanon
/-! `set` and `delete` preserve `Canon`. -/
namespace PyTrie.Hex
open Node

def nlive (ch : Nib → Node) : Nat := (List.finRange 16).countP (fun i => !(isBlank (ch i)))

theorem liveIdx_length (ch : Nib → Node) : (liveIdx ch).length = nlive ch := by
  simp [liveIdx, nlive, List.countP_eq_length_filter]

theorem weight_eq (ch : Nib → Node) (v : Bytes) : weight ch v = nlive ch + (if v = [] then 0 else 1) := by
  simp [weight, liveIdx_length]

theorem nlive_upd_ge (ch : Nib → Node) (i : Nib) (n : Node) (hn : isBlank n = false) :
    nlive ch ≤ nlive (upd ch i n) := by
  unfold nlive
  apply List.countP_mono_left
  intro x _ hx
  unfold upd
  split
  · simp [hn]
  · exact hx

theorem nlive_upd_same (ch : Nib → Node) (i : Nib) (n : Node) (h : isBlank n = isBlank (ch i)) :
    nlive (upd ch i n) = nlive ch := by
  unfold nlive
  congr 1
  funext x
  unfold upd
  split
  · next e => subst e; simp [h]
  · rfl

theorem isBlank_upd_self (ch : Nib → Node) (i : Nib) (n : Node) : isBlank (upd ch i n i) = isBlank n := by
  simp [upd]
theorem upd_ne (ch : Nib → Node) (i j : Nib) (n : Node) (h : j ≠ i) : upd ch i n j = ch j := by
  simp [upd, h]
theorem upd_self (ch : Nib → Node) (i : Nib) (n : Node) : upd ch i n i = n := by simp [upd]

theorem mem_liveIdx_upd_self (ch : Nib → Node) (i : Nib) (n : Node) (hn : isBlank n = false) :
    i ∈ liveIdx (upd ch i n) := (mem_liveIdx _ _).2 (by simp [upd, hn])

theorem one_le_nlive_upd (ch : Nib → Node) (i : Nib) (n : Node) (hn : isBlank n = false) :
    1 ≤ nlive (upd ch i n) := by
  rw [← liveIdx_length]
  exact List.length_pos_of_mem (mem_liveIdx_upd_self ch i n hn)

theorem two_le_nlive_upd2 (ch : Nib → Node) (i j : Nib) (a b : Node) (hij : i ≠ j)
    (ha : isBlank a = false) (hb : isBlank b = false) : 2 ≤ nlive (upd (upd ch i a) j b) := by
  rw [← liveIdx_length]
  apply two_le_length_of_mem (a := i) (b := j) _ _ hij
  · exact (mem_liveIdx _ _).2 (by simp [upd, hij, ha])
  · exact mem_liveIdx_upd_self _ _ _ hb

theorem canon_wrap (c : Path) (n : Node) (hb : isBranch n = true) (hn : Canon n) : Canon (wrap c n) := by
  unfold wrap; split
  · exact hn
  · next h => exact ⟨h, hb, hn⟩

theorem isBlank_wrap (c : Path) (n : Node) (h : isBlank n = false) : isBlank (wrap c n) = false := by
  unfold wrap; split
  · exact h
  · rfl

theorem canon_upd (ch : Nib → Node) (i : Nib) (n : Node) (hch : ∀ j, Canon (ch j)) (hn : Canon n) :
    ∀ j, Canon (upd ch i n j) := by
  intro j; unfold upd; split <;> simp_all

theorem canon_emptyCh : ∀ j, Canon (emptyCh j) := fun _ => trivial

theorem isBlank_set (t : Node) (k : Path) (v : Bytes) : isBlank (set t k v) = false := by
  cases t with
  | blank => rfl
  | leaf p pv => simp only [set]; split <;> (try rfl) <;> exact isBlank_wrap _ _ rfl
  | ext p c => simp only [set]; split <;> (try rfl) <;> exact isBlank_wrap _ _ rfl
  | branch ch bv => cases k <;> rfl

theorem isBranch_set_branch (ch : Nib → Node) (bv : Bytes) (k : Path) (v : Bytes) :
    isBranch (set (branch ch bv) k v) = true := by cases k <;> rfl

theorem canon_set (t : Node) (k : Path) (v : Bytes) (hv : v ≠ []) (hc : Canon t) : Canon (set t k v) := by
  induction t generalizing k with
  | blank => exact hv
  | leaf p pv =>
    have hpv : pv ≠ [] := hc
    have hne := cpl_head_ne p k
    simp only [set]
    split
    · exact hv
    · apply canon_wrap _ _ rfl
      refine ⟨canon_upd _ _ _ canon_emptyCh hv, ?_⟩
      have := one_le_nlive_upd emptyCh ‹_› (leaf ‹_› v) rfl
      simp [weight_eq, hpv]; omega
    · apply canon_wrap _ _ rfl
      refine ⟨canon_upd _ _ _ canon_emptyCh hpv, ?_⟩
      have := one_le_nlive_upd emptyCh ‹_› (leaf ‹_› pv) rfl
      simp [weight_eq, hv]; omega
    · next ph pt kh kt h1 h2 =>
      apply canon_wrap _ _ rfl
      refine ⟨canon_upd _ _ _ (canon_upd _ _ _ canon_emptyCh hpv) hv, ?_⟩
      have := two_le_nlive_upd2 emptyCh ph kh (leaf pt pv) (leaf kt v) (hne ph kh pt kt h1 h2) rfl rfl
      simp [weight_eq]; omega
  | ext p c ih =>
    obtain ⟨hpne, hbr, hcc⟩ := hc
    have hne := cpl_head_ne p k
    have hcb : isBlank c = false := by cases c <;> simp_all [isBranch, isBlank]
    simp only [set]
    split
    · refine ⟨hpne, ?_, ih _ hcc⟩
      cases c with
      | branch ch bv => exact isBranch_set_branch _ _ _ _
      | _ => simp [isBranch] at hbr
    · next ph pt h1 h2 =>
      apply canon_wrap _ _ rfl
      refine ⟨canon_upd _ _ _ canon_emptyCh (canon_wrap _ _ hbr hcc), ?_⟩
      have := one_le_nlive_upd emptyCh ph (wrap pt c) (isBlank_wrap _ _ hcb)
      simp [weight_eq, hv]; omega
    · next ph pt kh kt h1 h2 =>
      apply canon_wrap _ _ rfl
      refine ⟨canon_upd _ _ _ (canon_upd _ _ _ canon_emptyCh (canon_wrap _ _ hbr hcc)) hv, ?_⟩
      have := two_le_nlive_upd2 emptyCh ph kh (wrap pt c) (leaf kt v) (hne ph kh pt kt h1 h2)
        (isBlank_wrap _ _ hcb) rfl
      simp [weight_eq]; omega
  | branch ch bv ih =>
    obtain ⟨hcc, hw⟩ := hc
    cases k with
    | nil =>
      refine ⟨hcc, ?_⟩
      simp only [weight_eq] at *
      simp [hv]; split at hw <;> omega
    | cons n k =>
      refine ⟨canon_upd _ _ _ hcc (ih n _ (hcc n)), ?_⟩
      have := nlive_upd_ge ch n (set (ch n) k v) (isBlank_set _ _ _)
      simp only [weight_eq] at *; omega

theorem canon_normalize (ch : Nib → Node) (v : Bytes) (hch : ∀ i, Canon (ch i)) :
    Canon (normalize ch v) := by
  unfold normalize
  generalize hl : liveIdx ch = l
  match l, v with
  | [], [] => trivial
  | [], b :: bs => simp
  | [i], [] =>
    have hi : isBlank (ch i) = false := (mem_liveIdx ch i).1 (by simp [hl])
    have hci := hch i
    simp only []
    split
    · next p lv e => rw [e] at hci; exact hci
    · next p c e => rw [e] at hci; exact ⟨by simp, hci.2.1, hci.2.2⟩
    · next h1 h2 =>
      cases hc : ch i with
      | blank => rw [hc] at hi; simp [isBlank] at hi
      | leaf p lv => exact absurd hc (h1 p lv)
      | ext p c => exact absurd hc (h2 p c)
      | branch ch' v' => rw [hc] at hci; exact ⟨by simp, rfl, hci⟩
  | [i], b :: bs => exact ⟨hch, by simp [weight, hl]⟩
  | i :: j :: r, v => exact ⟨hch, by simp [weight, hl]; omega⟩

theorem isBlank_delete_of_isBlank (t : Node) (k : Path) (h : isBlank t = true) :
    isBlank (delete t k) = true := by
  rw [(isBlank_iff t).1 h]; rfl

theorem canon_delete (t : Node) (k : Path) (hc : Canon t) : Canon (delete t k) := by
  induction t generalizing k with
  | blank => trivial
  | leaf p v => simp only [delete]; split
                · trivial
                · exact hc
  | ext p c ih =>
    obtain ⟨hpne, hbr, hcc⟩ := hc
    simp only [delete]
    split
    · have := ih (k.drop p.length) hcc
      split
      · trivial
      · next e => rw [e] at this; exact this
      · next e => rw [e] at this; exact ⟨by simp [hpne], this.2.1, this.2.2⟩
      · next e => rw [e] at this; exact ⟨hpne, rfl, this⟩
    · exact ⟨hpne, hbr, hcc⟩
  | branch ch v ih =>
    obtain ⟨hcc, hw⟩ := hc
    cases k with
    | nil => exact canon_normalize _ _ hcc
    | cons n k =>
      simp only [delete]
      have hcn := ih n k (hcc n)
      split
      · exact canon_normalize _ _ (canon_upd _ _ _ hcc hcn)
      · next hnb =>
        refine ⟨canon_upd _ _ _ hcc hcn, ?_⟩
        have hnb' : isBlank (delete (ch n) k) = false := by simpa using hnb
        have : isBlank (ch n) = false := by
          cases h : isBlank (ch n) with
          | false => rfl
          | true => rw [isBlank_delete_of_isBlank _ k h] at hnb'; exact absurd hnb' (by simp)
        have := nlive_upd_same ch n (delete (ch n) k) (by rw [hnb', this])
        simp only [weight_eq] at *; omega

end PyTrie.Hex
