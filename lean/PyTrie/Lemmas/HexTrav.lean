import PyTrie.Lemmas.HexCanon2
import PyTrie.Model.HexTrav
/-! The code-shaped lookup `getT` (= `_get` ∘ `_traverse_from`) agrees with the specification
    lookup `get` on canonical trees and never raises there. -/
namespace PyTrie.Hex
open Node

theorem cpl_drop_left_nil_iff (p k : Path) : p.drop (cpl p k) = [] ↔ p <+: k := by
  constructor
  · intro h
    have ⟨hp, hk⟩ := split_at_cpl p k
    rw [h] at hp
    simp at hp
    rw [hk, ← hp]; simp
  · rintro ⟨r, rfl⟩
    induction p with
    | nil => simp [cpl]
    | cons a as ih => simp [cpl, ih]

theorem cpl_append_left (p r : Path) : cpl p (p ++ r) = p.length := by
  induction p with
  | nil => cases r <;> simp [cpl]
  | cons a as ih => simp [cpl, ih]

theorem traverse_branch_rem (t : Node) (k : Path) :
    ∀ ch v r, traverseT t k = (branch ch v, r) → r = [] := by
  induction t generalizing k with
  | blank => intro ch v r h; cases k <;> simp [traverseT] at h
  | leaf p pv =>
    intro ch v r h
    cases k with
    | nil => simp [traverseT] at h
    | cons a k => simp only [traverseT] at h; split at h <;> simp at h
  | ext p c ih =>
    intro ch v r h
    cases k with
    | nil => simp [traverseT] at h
    | cons a k =>
      simp only [traverseT] at h
      split at h
      · exact ih _ ch v r h
      · split at h <;> simp at h
  | branch ch' v' ih =>
    intro ch v r h
    cases k with
    | nil => simp [traverseT] at h; exact h.2
    | cons a k => simp only [traverseT] at h; exact ih a k ch v r h

/-- `_get` never reaches its "branch with remaining key" `ValidationError` -/
theorem getT_ne_error (t : Node) (k : Path) : ∃ v, getT t k = .ok v := by
  unfold getT
  generalize h : traverseT t k = r
  obtain ⟨n, rem⟩ := r
  cases n with
  | blank => exact ⟨_, rfl⟩
  | leaf p v => exact ⟨_, rfl⟩
  | ext p c => exact ⟨_, rfl⟩
  | branch ch v =>
    have := traverse_branch_rem t k ch v rem h
    subst this
    exact ⟨v, by simp⟩

theorem getT_eq_get (t : Node) (hc : Canon t) (k : Path) : getT t k = .ok (get t k) := by
  induction t generalizing k with
  | blank => cases k <;> simp [getT, traverseT, get]
  | leaf p v =>
    cases k with
    | nil => simp [getT, traverseT, get]
    | cons a k =>
      simp only [getT, traverseT, get]
      by_cases h : a :: k <+: p
      · simp only [h, ↓reduceIte]
      · have : ¬ (a :: k = p) := fun e => h (e ▸ List.prefix_refl _)
        simp only [h, ↓reduceIte, this]
  | ext p c ih =>
    obtain ⟨hpne, hbr, hcc⟩ := hc
    cases k with
    | nil =>
      have : ¬ p <+: [] := by simpa using hpne
      simp [getT, traverseT, get, this]
    | cons a k =>
      simp only [getT, traverseT, get]
      by_cases hpre : p <+: a :: k
      · have h1 := (cpl_drop_left_nil_iff p (a :: k)).2 hpre
        obtain ⟨r, hr⟩ := hpre
        simp only [↓reduceIte, ← hr, cpl_append_left, List.drop_left, List.prefix_append]
        rw [← ih hcc r]; simp [getT]
      · have h1 : ¬ (p.drop (cpl p (a :: k)) = []) := fun h => hpre ((cpl_drop_left_nil_iff _ _).1 h)
        simp only [h1, ↓reduceIte, hpre]
        by_cases h2 : List.drop (cpl p (a :: k)) (a :: k) = [] <;> simp only [h2, ↓reduceIte]
  | branch ch v ih =>
    cases k with
    | nil => simp [getT, traverseT, get]
    | cons a k => simp only [get]; rw [← ih a (hc.1 a) k]; simp [getT, traverseT]

end PyTrie.Hex
