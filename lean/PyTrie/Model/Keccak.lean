namespace PyTrie.Keccak

def RC : Array UInt64 := #[
  0x0000000000000001, 0x0000000000008082, 0x800000000000808A, 0x8000000080008000,
  0x000000000000808B, 0x0000000080000001, 0x8000000080008081, 0x8000000000008009,
  0x000000000000008A, 0x0000000000000088, 0x0000000080008009, 0x000000008000000A,
  0x000000008000808B, 0x800000000000008B, 0x8000000000008089, 0x8000000000008003,
  0x8000000000008002, 0x8000000000000080, 0x000000000000800A, 0x800000008000000A,
  0x8000000080008081, 0x8000000000008080, 0x0000000080000001, 0x8000000080008008]

-- rotation offsets, indexed x + 5*y
def ROT : Array Nat := #[
  0, 1, 62, 28, 27,
  36, 44, 6, 55, 20,
  3, 10, 43, 25, 39,
  41, 45, 15, 21, 8,
  18, 2, 61, 56, 14]

@[inline] def rotl (x : UInt64) (n : Nat) : UInt64 :=
  if n % 64 = 0 then x else (x <<< (UInt64.ofNat (n % 64))) ||| (x >>> (UInt64.ofNat (64 - n % 64)))

def round (a : Array UInt64) (rc : UInt64) : Array UInt64 := Id.run do
  -- theta
  let mut c : Array UInt64 := Array.replicate 5 0
  for x in [0:5] do
    c := c.set! x (a[x]! ^^^ a[x+5]! ^^^ a[x+10]! ^^^ a[x+15]! ^^^ a[x+20]!)
  let mut a := a
  for x in [0:5] do
    let d := c[(x+4)%5]! ^^^ rotl c[(x+1)%5]! 1
    for y in [0:5] do
      a := a.set! (x+5*y) (a[x+5*y]! ^^^ d)
  -- rho, pi
  let mut b : Array UInt64 := Array.replicate 25 0
  for x in [0:5] do
    for y in [0:5] do
      b := b.set! (y + 5*((2*x+3*y)%5)) (rotl a[x+5*y]! ROT[x+5*y]!)
  -- chi
  let mut r : Array UInt64 := Array.replicate 25 0
  for x in [0:5] do
    for y in [0:5] do
      r := r.set! (x+5*y) (b[x+5*y]! ^^^ ((~~~ b[(x+1)%5+5*y]!) &&& b[(x+2)%5+5*y]!))
  -- iota
  r := r.set! 0 (r[0]! ^^^ rc)
  return r

def f1600 (a : Array UInt64) : Array UInt64 := Id.run do
  let mut a := a
  for i in [0:24] do
    a := round a RC[i]!
  return a

def lane (bs : Array UInt8) (off : Nat) : UInt64 := Id.run do
  let mut v : UInt64 := 0
  for i in [0:8] do
    v := v ||| ((bs[off+i]!).toUInt64 <<< (UInt64.ofNat (8*i)))
  return v

def keccak256 (msg : List UInt8) : List UInt8 := Id.run do
  let rate := 136
  -- pad10*1 with 0x01 domain
  let m := msg.toArray
  let padLen := rate - (m.size % rate)
  let mut p := m
  for i in [0:padLen] do
    let b : UInt8 := (if i = 0 then 0x01 else 0x00) ||| (if i = padLen - 1 then 0x80 else 0x00)
    p := p.push b
  let mut st : Array UInt64 := Array.replicate 25 0
  for blk in [0:p.size / rate] do
    for i in [0:17] do
      st := st.set! i (st[i]! ^^^ lane p (blk*rate + 8*i))
    st := f1600 st
  let mut out : List UInt8 := []
  for i in [0:4] do
    for j in [0:8] do
      out := out ++ [(st[i]! >>> (UInt64.ofNat (8*j))).toUInt8]
  return out

end PyTrie.Keccak

namespace PyTrie
/-- Keccak-256 as used by `eth_hash.auto.keccak` -/
def keccak (b : List UInt8) : List UInt8 := ((Keccak.keccak256 b) ++ List.replicate 32 0).take 32

/-- the digest has exactly 32 bytes (the sponge above always squeezes 32; the `take` makes that
    evident to the kernel without unfolding the permutation) -/
theorem keccak_length (b : List UInt8) : (keccak b).length = 32 := by
  simp [keccak]
end PyTrie
