import PyTrie.Model.Hex
import PyTrie.Model.Rlp
import PyTrie.Model.Keccak
/-! Encoding of tree nodes into the raw rlp items the code stores: hex-prefix paths, child
    references (blank / embedded when shorter than 32 bytes / hash), the root hash.
    `_node_to_db_mapping`, `_persist_node`, `_set_raw_node` ↔ `mkRef`, `toItem`, `rootHash`. -/
namespace PyTrie.Hex
open Node

def packNibs : List Nat → Bytes
  | a :: b :: r => UInt8.ofNat (a * 16 + b) :: packNibs r
  | _ => []

/-- hex-prefix encoding of a path (`compute_leaf_key` / `compute_extension_key`) -/
def hp (p : Path) (term : Bool) : Bytes :=
  let flag : Nat := if term then 2 else 0
  let ns : List Nat := p.map (·.val)
  packNibs (if ns.length % 2 = 1 then (flag + 1) :: ns else flag :: 0 :: ns)

/-- reference to an already built child item: blank stays blank, encodings shorter than 32 bytes
    are embedded, longer ones are replaced by their hash (`_persist_node`'s return value) -/
def mkRef (H : Bytes → Bytes) : Item → Item
  | .str [] => .str []
  | it => let e := rlp it
          if e.length < 32 then it else .str (H e)

/-- tree node → the raw node the code holds, children replaced by references -/
def toItem (H : Bytes → Bytes) : Node → Item
  | blank => .str []
  | leaf p v => .list [.str (hp p true), .str v]
  | ext p c => .list [.str (hp p false), mkRef H (toItem H c)]
  | branch ch v => .list ((List.finRange 16).map (fun i => mkRef H (toItem H (ch i))) ++ [.str v])

def enc (H : Bytes → Bytes) (n : Node) : Bytes := rlp (toItem H n)

/-- `encode_raw(node)` is at least 32 bytes long: the node lives in the database under its hash -/
def isHashed (H : Bytes → Bytes) (n : Node) : Bool := !(isBlank n) && decide (32 ≤ (enc H n).length)

def hashOf (H : Bytes → Bytes) (n : Node) : Hash := H (enc H n)

/-- the reference by which a parent points to `n` -/
def refOf (H : Bytes → Bytes) (n : Node) : Item := mkRef H (toItem H n)

/-- `root_hash`: the root is always stored under its hash, the empty trie has `keccak(rlp(b''))` -/
def rootHash (H : Bytes → Bytes) (t : Node) : Hash := H (enc H t)

def blankRoot (H : Bytes → Bytes) : Hash := H [0x80]

end PyTrie.Hex
