import PyTrie.Model.Basic
/-! RLP as used by py-trie: `rlp.codec.encode_raw` on nested lists of byte strings. -/
namespace PyTrie

inductive Item where
  | str (b : Bytes)
  | list (l : List Item)
  deriving Inhabited

mutual
def Item.beq : Item → Item → Bool
  | .str a, .str b => a == b
  | .list a, .list b => Item.beqList a b
  | _, _ => false
def Item.beqList : List Item → List Item → Bool
  | [], [] => true
  | x :: xs, y :: ys => Item.beq x y && Item.beqList xs ys
  | _, _ => false
end

instance : BEq Item := ⟨Item.beq⟩

/-- big-endian bytes of a positive number, no leading zero; `[]` for 0 -/
def natToBE (n : Nat) : Bytes :=
  if _h : n = 0 then [] else natToBE (n / 256) ++ [UInt8.ofNat (n % 256)]
termination_by n
decreasing_by omega

def rlpLen (off : Nat) (n : Nat) : Bytes :=
  if n < 56 then [UInt8.ofNat (off + n)]
  else let be := natToBE n; UInt8.ofNat (off + 55 + be.length) :: be

mutual
def rlp : Item → Bytes
  | .str b => match b with
    | [x] => if x < 0x80 then [x] else rlpLen 0x80 1 ++ [x]
    | _ => rlpLen 0x80 b.length ++ b
  | .list l => let body := rlpList l; rlpLen 0xc0 body.length ++ body
def rlpList : List Item → Bytes
  | [] => []
  | x :: xs => rlp x ++ rlpList xs
end

end PyTrie
