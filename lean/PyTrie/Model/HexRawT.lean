import PyTrie.Model.HexRaw
/-! The raw-level hexary write path **with the state at the moment an exception leaves it**. `Model/HexRaw.lean`
    returns `Except Err (Item × St)`: when `get_node` raises (`KeyError` → `MissingTrieNode`) the state is dropped, so
    nothing can be said there about what a *failed* call did to the database. The Python mutates `self.db` in place:
    whatever was persisted before the exception stays. Here the same functions, statement for statement, return the
    state in every case: `St × Except Err Item`. `Lemmas/RawAtomic.lean` proves that they agree with `HexRaw` on every
    input, and that on a partial database a failing `_set` / `_delete` has written nothing (C07: atomic failure). -/
namespace PyTrie.HexRawT
open PyTrie.Hex PyTrie.HexD PyTrie.HexRaw

variable (H : Bytes → Bytes)

/-- `get_node(ref)`; the state is unchanged when it raises -/
def getNodeT (st : St) (ref : Item) : St × Except Err Item :=
  match getNodeR H st ref with
  | .ok (it, st') => (st', .ok it)
  | .error e => (st, .error e)

mutual
/-- `_set(node, trie_key, value)` -/
def rawSetT : Nat → St → Item → Path → Bytes → St × Except Err Item
  | 0, st, _, _, _ => (st, .error .fuel)
  | fuel + 1, st, node, key, value =>
    let st := pruneNodeR H st node
    match classify node with
    | .blank => (st, .ok (.list [leafKey key, .str value]))
    | .leaf p x => rawSetKvT fuel st node p x false key value
    | .ext p x => rawSetKvT fuel st node p x true key value
    | .branch l =>
      match key with
      | a :: rest =>
        match getNodeT H st (l.getD a.val (.str [])) with
        | (st1, .error e) => (st1, .error e)
        | (st1, .ok sub) =>
          match rawSetT fuel st1 sub rest value with
          | (st2, .error e) => (st2, .error e)
          | (st2, .ok newNode) =>
            let (ref, st3) := persistNodeR H st2 newNode
            (st3, .ok (.list (setAt l a.val ref)))
      | [] => (st, .ok (.list (setAt l 16 (.str value))))
    | .invalid => (st, .error .invalid)
/-- `_set_kv_node(node, trie_key, value)` -/
def rawSetKvT : Nat → St → Item → Path → Item → Bool → Path → Bytes → St × Except Err Item
  | 0, st, _, _, _, _, _, _ => (st, .error .fuel)
  | fuel + 1, st, node, p, x, isExt, key, value =>
    let n := cpl p key
    let common := p.take n
    let ckr := p.drop n
    let tkr := key.drop n
    let inner : St × Except Err (Option Item) :=
      match ckr, tkr with
      | [], [] =>
        if !isExt then (st, .ok none)
        else match getNodeT H st x with
          | (st1, .error e) => (st1, .error e)
          | (st1, .ok sub) =>
            match rawSetT fuel st1 sub tkr value with
            | (st2, .error e) => (st2, .error e)
            | (st2, .ok r) => (st2, .ok (some r))
      | [], t0 :: trest =>
        if isExt then
          match getNodeT H st x with
          | (st1, .error e) => (st1, .error e)
          | (st1, .ok sub) =>
            match rawSetT fuel st1 sub tkr value with
            | (st2, .error e) => (st2, .error e)
            | (st2, .ok r) => (st2, .ok (some r))
        else
          let subNode := Item.list [leafKey trest, .str value]
          let (ref, st1) := persistNodeR H st subNode
          (st1, .ok (some (.list (setAt (List.replicate 16 (.str []) ++ [x]) t0.val ref))))
      | c0 :: crest, _ =>
        let (slot, st1) :=
          if crest = [] ∧ isExt then (x, st)
          else persistNodeR H st (.list [if isExt then extKey crest else leafKey crest, x])
        let l1 := setAt blank17 c0.val slot
        match tkr with
        | t0 :: trest =>
          let (ref, st2) := persistNodeR H st1 (.list [leafKey trest, .str value])
          (st2, .ok (some (.list (setAt l1 t0.val ref))))
        | [] => (st1, .ok (some (.list (setAt l1 16 (.str value)))))
    match inner with
    | (st1, .error e) => (st1, .error e)
    | (st1, .ok none) =>
      match node with
      | .list [k, _] => (st1, .ok (.list [k, .str value]))
      | _ => (st1, .error .invalid)
    | (st1, .ok (some newNode)) =>
      if common ≠ [] then
        let (ref, st2) := persistNodeR H st1 newNode
        (st2, .ok (.list [extKey common, ref]))
      else (st1, .ok newNode)
end

/-- `_normalize_branch_node(node)` -/
def rawNormalizeT (st : St) (l : List Item) : St × Except Err Item :=
  if twoTruthy l then (st, .ok (.list l))
  else if truthy (l.getD 16 (.str [])) then (st, .ok (.list [leafKey [], l.getD 16 (.str [])]))
  else
    match (List.range 16).find? (fun i => truthy (l.getD i (.str []))) with
    | none => (st, .error .invalid)
    | some idx =>
      let subRef := l.getD idx (.str [])
      match getNodeT H st subRef with
      | (st1, .error e) => (st1, .error e)
      | (st1, .ok sub) =>
        match classify sub with
        | .leaf p x =>
          let st2 := pruneNodeR H st1 sub
          (st2, .ok (.list [leafKey (toNib idx :: p), x]))
        | .ext p x =>
          let st2 := pruneNodeR H st1 sub
          (st2, .ok (.list [extKey (toNib idx :: p), x]))
        | .branch _ => (st1, .ok (.list [extKey [toNib idx], subRef]))
        | _ => (st1, .error .invalid)

/-- `_delete(node, trie_key)` -/
def rawDeleteT : Nat → St → Item → Path → St × Except Err Item
  | 0, st, _, _ => (st, .error .fuel)
  | fuel + 1, st, node, key =>
    let st := pruneNodeR H st node
    match classify node with
    | .blank => (st, .ok (.str []))
    | .leaf p _ =>
      if !(decide (p <+: key)) then (st, .ok node)
      else if key = p then (st, .ok (.str [])) else (st, .ok node)
    | .ext p x =>
      if !(decide (p <+: key)) then (st, .ok node)
      else
        match getNodeT H st x with
        | (st1, .error e) => (st1, .error e)
        | (st1, .ok sub) =>
          match rawDeleteT fuel st1 sub (key.drop p.length) with
          | (st2, .error e) => (st2, .error e)
          | (st2, .ok newSub) =>
            let (enc, st3) := persistNodeR H st2 newSub
            if enc == x then (st3, .ok node)
            else if newSub == Item.str [] then (st3, .ok (.str []))
            else
              match classify newSub with
              | .leaf p' x' =>
                let st4 := pruneNodeR H st3 newSub
                (st4, .ok (.list [leafKey (p ++ p'), x']))
              | .ext p' x' =>
                let st4 := pruneNodeR H st3 newSub
                (st4, .ok (.list [extKey (p ++ p'), x']))
              | .branch _ => (st3, .ok (.list [extKey p, enc]))
              | _ => (st3, .error .invalid)
    | .branch l =>
      match key with
      | [] => rawNormalizeT H st (setAt l 16 (.str []))
      | a :: rest =>
        match getNodeT H st (l.getD a.val (.str [])) with
        | (st1, .error e) => (st1, .error e)
        | (st1, .ok toDelete) =>
          match rawDeleteT fuel st1 toDelete rest with
          | (st2, .error e) => (st2, .error e)
          | (st2, .ok sub) =>
            let (enc, st3) := persistNodeR H st2 sub
            if enc == l.getD a.val (.str []) then (st3, .ok node)
            else
              let l' := setAt l a.val enc
              if enc == Item.str [] then rawNormalizeT H st3 l' else (st3, .ok (.list l'))
    | .invalid => (st, .error .invalid)

/-- `HexaryTrie.set(key, value)` / `delete(key)` on a non-pruning trie, end to end, with the state at exit:
    the root hash is the new one on success and the old one when an exception leaves the call -/
def rawOpT (db : Db) (root : Hash) (key : Bytes) (value : Option Bytes) : St × Except Err Hash :=
  let st0 : St := { db := db, evs := [] }
  match getNodeT H st0 (.str root) with
  | (st1, .error e) => (st1, .error e)
  | (st1, .ok rootNode) =>
    let fuel := 2 * (nibs key).length + 4
    let r := match value with
      | some v => if v = [] then rawDeleteT H fuel st1 rootNode (nibs key) else rawSetT H fuel st1 rootNode (nibs key) v
      | none => rawDeleteT H fuel st1 rootNode (nibs key)
    match r with
    | (st2, .error e) => (st2, .error e)
    | (st2, .ok newRoot) =>
      let (h, st3) := setRawRoot H st2 newRoot
      (st3, .ok h)

end PyTrie.HexRawT
