import PyTrie.Model.Iter
/-! One step of a fog-guided walk **as callers write it** (the loop body of `NodeIterator.nodes`, of the
    walk tests and of beam-sync style clients): given the unexplored prefix `p` chosen by `nearest_unknown` /
    `nearest_right`, look it up in the `TrieFrontierCache`; on a hit `traverse_from(cached parent, segment)`, on a
    miss `traverse(p)` from the current root; on `TraversedPartialPath` use the simulated node; `explore`; then
    `cache.add` / `cache.delete`; record the value met. The trie may have been modified since the cache entry
    was made — the cached parent is a node object of an *older* version. -/
namespace PyTrie.Hex
open PyTrie.Fog

structure CState where
  fog : Fog
  cache : Frontier Node
  met : List (Path × Bytes)

/-- the description the caller works with: the node, or the simulated node of a partial path -/
def descOf? : TravOut → Option Ann
  | .node a => some a
  | .partialPath _ _ _ sim => sim

/-- one concrete walk step on the current version `t` of the trie at the chosen prefix `p` -/
def cstep (t : Node) (s : CState) (p : Path) : Option CState :=
  let out := match Frontier.get s.cache p with
    | none => traverseOut t p
    | some (parent, seg) => traverseOut parent seg
  match descOf? out with
  | none => none
  | some d =>
    match Fog.explore s.fog p d.subs with
    | .error _ => none
    | .ok fog' =>
      let cache' := if d.subs ≠ [] then Frontier.add s.cache p d.raw d.subs else Frontier.delete s.cache p
      some ⟨fog', cache', if d.value ≠ [] then (p ++ d.suffix, d.value) :: s.met else s.met⟩

end PyTrie.Hex
