import PyTrie.Model.Basic
/-! Line-protocol front end for the `enc.*` commands (stub: to be filled in). -/
namespace PyTrie.EncDrv

structure St where
  dummy : Unit := ()
  deriving Inhabited

def step (st : St) (_cmd : String) (_args : List String) : St × String := (st, "bad-op")

end PyTrie.EncDrv
