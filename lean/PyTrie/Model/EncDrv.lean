import PyTrie.Model.Nibbles
import PyTrie.Model.BinEnc
import PyTrie.Model.HexDb
/-! Line-protocol front end for the encoding utilities (`enc.*`).
    Nibble lists: one hex digit per nibble, `t` = 16 (the terminator), `x` = 17 (an invalid nibble), `-` = empty.
    Bit strings: `0`/`1` characters, `-` = empty. -/
namespace PyTrie.EncDrv
open PyTrie.Nibbles PyTrie.Bin

structure St where
  dummy : Unit := ()
  deriving Inhabited

def parseNibs (s : String) : Option (List Nat) :=
  if s = "-" then some [] else
  s.toList.mapM fun c => if c = 't' then some 16 else if c = 'x' then some 17 else hexVal c

def showNibs (l : List Nat) : String :=
  if l.isEmpty then "-" else String.ofList (l.map fun n => if n = 16 then 't' else if n < 16 then hexDigit n else 'x')

def parseBits (s : String) : Option Bits :=
  if s = "-" then some [] else s.toList.mapM fun c => if c = '0' then some false else if c = '1' then some true else none

def showBits (b : Bits) : String := if b.isEmpty then "-" else String.ofList (b.map fun x => if x then '1' else '0')

def fmtNErr : Nibbles.Err → String
  | .invalidNibbles => "exn InvalidNibbles"
  | .indexError => "exn IndexError"

def pathNats (p : Hex.Path) : List Nat := p.map (·.val)

def step (st : St) (cmd : String) (args : List String) : St × String :=
  let bad := (st, "bad-op")
  match cmd, args with
  | "hp", [ns] =>
    match parseNibs ns with
    | some ns => (st, match encodeNibbles ns with | .ok b => toHex b | .error e => fmtNErr e)
    | none => bad
  | "hpdec", [b] =>
    match ofHex b with
    | some b => (st, match decodeNibbles b with | .ok ns => showNibs ns | .error e => fmtNErr e)
    | none => bad
  | "b2n", [b] => match ofHex b with | some b => (st, showNibs (bytesToNibbles b)) | none => bad
  | "n2b", [ns] =>
    match parseNibs ns with
    | some ns => (st, match nibblesToBytes ns with | .ok b => toHex b | .error e => fmtNErr e)
    | none => bad
  | "addterm", [ns] => match parseNibs ns with | some ns => (st, showNibs (addTerminator ns)) | none => bad
  | "remterm", [ns] => match parseNibs ns with | some ns => (st, showNibs (removeTerminator ns)) | none => bad
  | "tobin", [b] => match ofHex b with | some b => (st, showBits (toBits b)) | none => bad
  | "frombin", [bs] => match parseBits bs with | some bs => (st, toHex (ofBits bs)) | none => bad
  | "kp", [bs] => match parseBits bs with | some bs => (st, toHex (encodeKeypath bs)) | none => bad
  | "kpdec", [b] =>
    match ofHex b with
    | some b => (st, match decodeKeypath b with
        | .ok bits => showBits bits
        | .error .index => "exn IndexError"
        | .error .assertion => "exn AssertionError")
    | none => bad
  | "parse", [b] =>
    match ofHex b with
    | some b => (st, match parseNode b with
        | .ok (.branch l r) => s!"branch {toHex l} {toHex r}"
        | .ok (.kv p c) => s!"kv {showBits p} {toHex c}"
        | .ok (.leaf v) => s!"leaf {toHex v}"
        | .error .invalidNode => "exn InvalidNode"
        | .error .assertion => "exn AssertionError"
        | .error .index => "exn IndexError")
    | none => bad
  | "kv", [p, c] =>
    match parseBits p, ofHex c with
    | some p, some c => (st, match encodeKv p c with | .ok b => toHex b | .error _ => "exn ValidationError")
    | _, _ => bad
  | "br", [l, r] =>
    match ofHex l, ofHex r with
    | some l, some r => (st, match encodeBranch l r with | .ok b => toHex b | .error _ => "exn ValidationError")
    | _, _ => bad
  | "leaf", [v] =>
    match ofHex v with
    | some v => (st, match encodeLeaf v with | .ok b => toHex b | .error _ => "exn ValidationError")
    | none => bad
  -- get_node_type + extract_key of a decoded hexary node given by its rlp encoding
  | "hexnode", [b] =>
    match (ofHex b).bind HexD.rlpDecode with
    | some it => (st, match HexD.classify it with
        | .blank => "blank"
        | .leaf p _ => s!"leaf {showNibs (pathNats p)}"
        | .ext p _ => s!"ext {showNibs (pathNats p)}"
        | .branch _ => "branch"
        | .invalid => "invalid")
    | none => bad
  | _, _ => bad

end PyTrie.EncDrv
