import PyTrie.Model.BinRaw
/-! `BinaryTrie._set` at raw level **with the state at the moment an exception leaves it** (`NodeOverrideError`,
    `KeyError`, …): the same statements as `Model/BinRaw.lean`, returning `St × Except BinRaw.Err Hash`. The Python mutates the
    database in place, so whatever `_hash_and_save` stored before the exception stays. `Lemmas/BinRawAtomic.lean`: agrees
    with `BinRaw.rawSet` on every input; a call refused with `NodeOverrideError` has saved nothing. -/
namespace PyTrie.BinRawT
open PyTrie.Bin
open PyTrie.BinRaw (St Err load saveKv saveBranch saveLeaf)

variable (H : Bytes → Bytes)

def saveKvT (st : St) (p : Bits) (child : Hash) : St × Except BinRaw.Err Hash :=
  match saveKv H st p child with
  | .ok (h, st') => (st', .ok h)
  | .error e => (st, .error e)

def saveBranchT (st : St) (l r : Hash) : St × Except BinRaw.Err Hash :=
  match saveBranch H st l r with
  | .ok (h, st') => (st', .ok h)
  | .error e => (st, .error e)

def saveLeafT (st : St) (v : Bytes) : St × Except BinRaw.Err Hash :=
  match saveLeaf H st v with
  | .ok (h, st') => (st', .ok h)
  | .error e => (st, .error e)

/-- `_set(node_hash, keypath, value, if_delete_subtrie)` -/
def rawSetT (blank : Hash) : Nat → St → Hash → Bits → Bytes → Bool → St × Except BinRaw.Err Hash
  | 0, st, _, _, _, _ => (st, .error .fuel)
  | fuel + 1, st, h, k, v, sub =>
    if h = blank then
      if v ≠ [] then
        match saveLeafT H st v with
        | (st1, .error e) => (st1, .error e)
        | (st1, .ok lh) => saveKvT H st1 k lh
      else (st, .ok blank)
    else
      match load st h with
      | .error e => (st, .error e)
      | .ok (.leaf _) =>
        if k ≠ [] then (st, .error .override)
        else if sub then (st, .ok blank)
        else if v ≠ [] then saveLeafT H st v else (st, .ok blank)
      | .ok (.kv p c) =>
        if k = [] then (if sub then (st, .ok blank) else (st, .error .override))
        else
          if sub && decide (k.length < p.length) && decide (k <+: p) then (st, .ok blank)
          else if p <+: k then
            match rawSetT blank fuel st c (k.drop p.length) v sub with
            | (st1, .error e) => (st1, .error e)
            | (st1, .ok subHash) =>
              if subHash = blank then (st1, .ok blank)
              else match load st1 subHash with
                | .error e => (st1, .error e)
                | .ok (.kv p2 c2) => saveKvT H st1 (p ++ p2) c2
                | .ok _ => saveKvT H st1 p subHash
          else
            let n := cpl p k
            if v = [] || sub then (st, .ok h)
            else
              let valR : St × Except BinRaw.Err Hash :=
                if k.length = n + 1 then saveLeafT H st v
                else if k.length ≤ n then (st, .error .override)
                else match saveLeafT H st v with
                  | (st1, .error e) => (st1, .error e)
                  | (st1, .ok lh) => saveKvT H st1 (k.drop (n + 1)) lh
              match valR with
              | (st1, .error e) => (st1, .error e)
              | (st1, .ok valnode) =>
                let oldR : St × Except BinRaw.Err Hash :=
                  if p.length = n + 1 then (st1, .ok c) else saveKvT H st1 (p.drop (n + 1)) c
                match oldR with
                | (st2, .error e) => (st2, .error e)
                | (st2, .ok oldnode) =>
                  let subR := if (k.drop n).head? = some true then saveBranchT H st2 oldnode valnode
                              else saveBranchT H st2 valnode oldnode
                  match subR with
                  | (st3, .error e) => (st3, .error e)
                  | (st3, .ok newsub) => if n ≠ 0 then saveKvT H st3 (p.take n) newsub else (st3, .ok newsub)
      | .ok (.branch l r) =>
        match k with
        | [] => if sub then (st, .ok blank) else (st, .error .override)
        | b :: k' =>
          let rec1 := if b = false then rawSetT blank fuel st l k' v sub else rawSetT blank fuel st r k' v sub
          match rec1 with
          | (st1, .error e) => (st1, .error e)
          | (st1, .ok nh) =>
            let newL := if b = false then nh else l
            let newR := if b = false then r else nh
            if newL = blank || newR = blank then
              let other := if newL ≠ blank then newL else newR
              match load st1 other with
              | .error e => (st1, .error e)
              | .ok (.kv p2 c2) => saveKvT H st1 ((if newR ≠ blank then true else false) :: p2) c2
              | .ok _ => saveKvT H st1 [if newR ≠ blank then true else false] other
            else saveBranchT H st1 newL newR

end PyTrie.BinRawT
