/-! Shared basics of the executable model: byte strings, hex text for the line protocol.
    Core Lean only (no Mathlib): everything under `PyTrie/Model` links into `trie_model`. -/
namespace PyTrie

abbrev Bytes := List UInt8
abbrev Hash := Bytes

def hexDigit (n : Nat) : Char :=
  if n < 10 then Char.ofNat (48 + n) else Char.ofNat (87 + n)

/-- lower-case hex of a byte string; the empty string is written `-` so that it stays a token -/
def toHex (bs : Bytes) : String :=
  if bs.isEmpty then "-" else
  String.ofList (bs.flatMap fun b => [hexDigit (b.toNat / 16), hexDigit (b.toNat % 16)])

def hexVal (c : Char) : Option Nat :=
  if '0' ≤ c ∧ c ≤ '9' then some (c.toNat - 48)
  else if 'a' ≤ c ∧ c ≤ 'f' then some (c.toNat - 87)
  else none

def ofHexChars : List Char → Option Bytes
  | [] => some []
  | [_] => none
  | a :: b :: rest => do
    let x ← hexVal a
    let y ← hexVal b
    let r ← ofHexChars rest
    pure (UInt8.ofNat (x * 16 + y) :: r)

def ofHex (s : String) : Option Bytes :=
  if s = "-" then some [] else ofHexChars s.toList

end PyTrie
