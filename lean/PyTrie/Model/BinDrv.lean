import PyTrie.Model.Bin
import PyTrie.Model.BinRaw
import PyTrie.Model.BranchRaw
import PyTrie.Model.BinRawT
import PyTrie.Model.Keccak
/-! Line-protocol front end for the binary trie and the branch helpers (`bin.*`). All tries of a
    session share one database, as BinaryTrie objects sharing one dict do. -/
namespace PyTrie.BinDrv
open PyTrie.Bin

structure St where
  db : Db := []
  tries : Array (Option BNode) := #[]
  rr : Hash × Db := (keccak [], [])      -- root and database of the raw-level run (`BinRaw.rawSet` threaded)
  deriving Inhabited

def joinOr (l : List String) (sep : String) : String := if l.isEmpty then "-" else sep.intercalate l

def sortPairs (l : Db) : Db := (l.toArray.qsort (fun a b => toHex a.1 < toHex b.1)).toList

def save (db : Db) (n : BNode) : Db :=
  let h := hashNode keccak n
  if (lookup db h).isSome then db.map (fun e => if e.1 == h then (h, encNode keccak n) else e)
  else db ++ [(h, encNode keccak n)]

def fmtNodes (l : List BNode) : String := joinOr (l.map fun n => toHex (encNode keccak n)) ","

def applySet (st : St) (i : String) (k v : String) (sub : Bool) : St × String :=
  match i.toNat?, ofHex k, ofHex v with
  | some i, some k, some v =>
    match st.tries[i]? with
    | none => (st, "bad-op")
    | some t =>
      let (r, saves) := bsetTopS t (toBits k) v sub
      let db' := saves.foldl save st.db
      match r with
      | .ok t' => ({ st with db := db', tries := st.tries.set! i t' }, "ok")
      | .error .override => ({ st with db := db' }, "exn NodeOverrideError")
  | _, _, _ => (st, "bad-op")

def fmtRawErr : BranchRaw.Err → String
  | .keyError _ => "exn KeyError"
  | .invalidNode => "exn InvalidNode"
  | .assertion => "exn AssertionError"
  | .other => "exn Other"
  | .tooLong => "exn InvalidKeyError"
  | .tooShort => "exn InvalidKeyError"
  | .fuel => "exn Fuel"

def step (st : St) (cmd : String) (args : List String) : St × String :=
  let bad := (st, "bad-op")
  let trie (s : String) : Option (Option BNode) := s.toNat?.bind fun i => st.tries[i]?
  match cmd, args with
  | "reset", [] => ({}, "ok")
  | "new", [] => ({ st with tries := st.tries.push none }, toString st.tries.size)
  | "set", [i, k, v] => applySet st i k v false
  | "del", [i, k] => applySet st i k "-" false
  | "delsub", [i, k] => applySet st i k "-" true
  -- raw level: `_set` over hashes and the database as it is now; prints the new root and the entries added
  | "rawset", [i, k, v, sub] =>
    match trie i, ofHex k, ofHex v with
    | some t, some k, some v =>
      (st, match BinRaw.rawSet keccak (keccak []) (8 * k.length + 4) { db := st.db } (rootOf keccak t) (toBits k) v (sub == "1") with
        | .ok (h, st') =>
          let added := st'.db.filter (fun e => !(st.db.any (fun o => o.1 == e.1)))
          let ded := added.foldl (fun acc e => if acc.any (fun x => x.1 == e.1) then acc else acc ++ [e]) []
          s!"root={toHex h} added={joinOr ((sortPairs ded).map fun e => s!"{toHex e.1}:{toHex e.2}") ","}"
        | .error .override => "exn NodeOverrideError"
        | .error (.keyError _) => "exn KeyError"
        | .error .invalid => "exn Invalid"
        | .error .fuel => "exn Fuel")
    | _, _, _ => bad
  | "get", [i, k] =>
    match trie i, ofHex k with
    | some t, some k => (st, match bgetTop t (toBits k) with | some v => s!"v {toHex v}" | none => "None")
    | _, _ => bad
  | "root", [i] => match trie i with | some t => (st, toHex (rootOf keccak t)) | none => bad
  | "db", [] => (st, joinOr ((sortPairs st.db).map fun e => s!"{toHex e.1}:{toHex e.2}") ",")
  | "exists", [i, k] =>
    match trie i, ofHex k with
    | some t, some k => (st, if branchExistsTop t (toBits k) then "True" else "False")
    | _, _ => bad
  | "branch", [i, k] =>
    match trie i, ofHex k with
    | some t, some k => (st, match getBranchTop t (toBits k) with | .ok l => fmtNodes l | .error _ => "exn InvalidKeyError")
    | _, _ => bad
  | "nodes", [i] =>
    match trie i with
    | some t => (st, match t with | none => "-" | some n => fmtNodes (trieNodes n))
    | none => bad
  | "witness", [i, k] =>
    match trie i, ofHex k with
    | some t, some k => (st, match getWitnessTop t (toBits k) with | .ok l => fmtNodes l | .error _ => "exn InvalidKeyError")
    | _, _ => bad
  | "valid", [r, k, v, ns] =>
    let toks := if ns = "-" then [] else ns.splitOn ","
    let val : Option (Option Bytes) := if v = "None" then some none else (ofHex v).map some
    match ofHex r, ofHex k, val, toks.mapM ofHex with
    | some r, some k, some val, some nodes =>
      (st, match ifBranchValid keccak nodes r (toBits k) val with
        | .valid => "True"
        | .assertion => "exn AssertionError"
        | .validation => "exn ValidationError"
        | .keyError => "exn KeyError"
        | .invalidNode => "exn InvalidNode"
        | .other => "exn Other")
    | _, _, _, _ => bad
  -- raw level of `trie/branches.py`: over a root hash and the database as it is now
  | "rexists", [r, k] =>
    match ofHex r, ofHex k with
    | some r, some k =>
      (st, match BranchRaw.existsD (keccak []) st.db (st.db.length + 8 * k.length + 2) r (toBits k) with
        | .ok b => if b then "True" else "False"
        | .error e => fmtRawErr e)
    | _, _ => bad
  | "rbranch", [r, k] =>
    match ofHex r, ofHex k with
    | some r, some k =>
      (st, match BranchRaw.getBranchD (keccak []) st.db (st.db.length + 8 * k.length + 2) r (toBits k) with
        | .ok l => joinOr (l.map toHex) ","
        | .error e => fmtRawErr e)
    | _, _ => bad
  | "rnodes", [r] =>
    match ofHex r with
    | some r =>
      (st, match BranchRaw.trieNodesD st.db (st.db.length + 2) r with
        | .ok l => joinOr (l.map toHex) ","
        | .error e => fmtRawErr e)
    | _ => bad
  | "rwitness", [r, k] =>
    match ofHex r, ofHex k with
    | some r, some k =>
      (st, match BranchRaw.witnessD st.db (st.db.length + 2) (st.db.length + 8 * k.length + 2) r (toBits k) with
        | .ok l => joinOr (l.map toHex) ","
        | .error e => fmtRawErr e)
    | _, _ => bad
  -- remove / put back a database entry (partial databases for the raw-level readers)
  | "dbdel", [h] =>
    match ofHex h with
    | some h => ({ st with db := st.db.filter (fun e => !(e.1 == h)) }, "ok")
    | none => bad
  | "dbput", [h, b] =>
    match ofHex h, ofHex b with
    | some h, some b => ({ st with db := st.db.filter (fun e => !(e.1 == h)) ++ [(h, b)] }, "ok")
    | _, _ => bad
  -- a whole history at raw level, on its own root and database
  | "rrnew", [] => ({ st with rr := (keccak [], []) }, "ok")
  | "rrop", [k, v, sub] =>
    match ofHex k, ofHex v with
    | some k, some v =>
      -- `rawSetT`: the transcription that also returns the database when an exception leaves the call
      match BinRawT.rawSetT keccak (keccak []) (8 * k.length + 4) { db := st.rr.2 } st.rr.1 (toBits k) v (sub == "1") with
      | (st', .ok h) => ({ st with rr := (h, st'.db) }, s!"root={toHex h}")
      | (st', .error .override) => ({ st with rr := (st.rr.1, st'.db) }, "exn NodeOverrideError")
      | (st', .error (.keyError _)) => ({ st with rr := (st.rr.1, st'.db) }, "exn KeyError")
      | (st', .error .invalid) => ({ st with rr := (st.rr.1, st'.db) }, "exn Invalid")
      | (_, .error .fuel) => (st, "exn Fuel")
    | _, _ => bad
  | "rrdb", [] =>
    let ded := st.rr.2.foldl (fun acc e => if acc.any (fun x => x.1 == e.1) then acc else acc ++ [e]) []
    (st, joinOr ((sortPairs ded).map fun e => s!"{toHex e.1}:{toHex e.2}") ",")
  | "rrget", [k] =>
    match ofHex k with
    | some k =>
      (st, match bgetD (keccak []) st.rr.2 (8 * k.length + 2) st.rr.1 (toBits k) with
        | .ok (some v) => s!"v {toHex v}"
        | .ok none => "None"
        | .error (.keyError _) => "exn KeyError"
        | .error .invalidNode => "exn InvalidNode"
        | .error .assertion => "exn AssertionError"
        | .error _ => "exn Other")
    | none => bad
  | "getat", [r, k] =>
    match ofHex r, ofHex k with
    | some r, some k =>
      (st, match bgetD (keccak []) st.db (st.db.length + 8 * k.length + 2) r (toBits k) with
        | .ok (some v) => s!"v {toHex v}"
        | .ok none => "None"
        | .error (.keyError _) => "exn KeyError"
        | .error .invalidNode => "exn InvalidNode"
        | .error .assertion => "exn AssertionError"
        | .error _ => "exn Other")
    | _, _ => bad
  | _, _ => bad

end PyTrie.BinDrv
