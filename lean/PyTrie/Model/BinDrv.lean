import PyTrie.Model.Basic
/-! Line-protocol front end for the `bin.*` commands (stub: to be filled in). -/
namespace PyTrie.BinDrv

structure St where
  dummy : Unit := ()
  deriving Inhabited

def step (st : St) (_cmd : String) (_args : List String) : St × String := (st, "bad-op")

end PyTrie.BinDrv
