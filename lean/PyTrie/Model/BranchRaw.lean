import PyTrie.Model.Bin
/-! **Raw level** of `trie/branches.py`: `_check_if_branch_exist`, `_get_branch`, `_get_trie_nodes`,
    `_get_witness_for_key_prefix` transcribed statement by statement over node *hashes* and a database of
    encoded nodes (`parse_node(db[node_hash])`, `node_hash in db`). Generators become functions returning the
    list of yielded byte strings, or the exception that aborts `tuple(...)`. Nothing here knows about trees;
    `Lemmas/BranchRawRefines.lean` proves that on a database storing a canonical tree these compute the
    encodings of what the tree-level functions of `Model/Bin.lean` return. -/
namespace PyTrie.BranchRaw
open PyTrie.Bin

inductive Err where
  | keyError (h : Hash)         -- `db[node_hash]` missing
  | invalidNode                 -- `parse_node` raised InvalidNode
  | assertion                   -- the `assert` of `decode_to_bin_keypath`
  | other                       -- IndexError of `decode_to_bin_keypath`
  | tooLong                     -- InvalidKeyError("Key too long")
  | tooShort                    -- InvalidKeyError("Key too short")
  | fuel
  deriving DecidableEq, Repr

/-- `parse_node(body)` with its exceptions -/
def parse (body : Bytes) : Except Err Parsed :=
  match parseNode body with
  | .ok p => .ok p
  | .error .invalidNode => .error .invalidNode
  | .error .assertion => .error .assertion
  | .error .index => .error .other

/-- `_check_if_branch_exist(db, node_hash, key_prefix)` -/
def existsD (blank : Hash) (db : Db) : Nat → Hash → Bits → Except Err Bool
  | 0, _, _ => .error .fuel
  | fuel + 1, h, k =>
    if h = blank then .ok false
    else match lookup db h with
      | none => .error (.keyError h)
      | some body =>
        match parse body with
        | .error e => .error e
        | .ok (.leaf _) => if k ≠ [] then .ok false else .ok true
        | .ok (.kv p c) =>
          if k = [] then .ok true
          else if k.length < p.length then (if k = p.take k.length then .ok true else .ok false)
          else if k.take p.length = p then existsD blank db fuel c (k.drop p.length) else .ok false
        | .ok (.branch l r) =>
          if k = [] then .ok true
          else if k.take 1 = [false] then existsD blank db fuel l (k.drop 1)
          else existsD blank db fuel r (k.drop 1)

/-- `_get_branch(db, node_hash, keypath)` -/
def getBranchD (blank : Hash) (db : Db) : Nat → Hash → Bits → Except Err (List Bytes)
  | 0, _, _ => .error .fuel
  | fuel + 1, h, k =>
    if h = blank then .ok []
    else match lookup db h with
      | none => .error (.keyError h)
      | some node =>
        match parse node with
        | .error e => .error e
        | .ok (.leaf _) => if k = [] then .ok [node] else .error .tooLong
        | .ok (.kv p c) =>
          if k = [] then .error .tooShort
          else if k.take p.length = p then (getBranchD blank db fuel c (k.drop p.length)).map (node :: ·)
          else .ok [node]
        | .ok (.branch l r) =>
          if k = [] then .error .tooShort
          else if k.take 1 = [false] then (getBranchD blank db fuel l (k.drop 1)).map (node :: ·)
          else (getBranchD blank db fuel r (k.drop 1)).map (node :: ·)

/-- `_get_trie_nodes(db, node_hash)`: a hash that is not in the database yields nothing -/
def trieNodesD (db : Db) : Nat → Hash → Except Err (List Bytes)
  | 0, _ => .error .fuel
  | fuel + 1, h =>
    match lookup db h with
    | none => .ok []
    | some node =>
      match parse node with
      | .error e => .error e
      | .ok (.kv _ c) => (trieNodesD db fuel c).map (node :: ·)
      | .ok (.branch l r) =>
        match trieNodesD db fuel l with
        | .error e => .error e
        | .ok ls => (trieNodesD db fuel r).map (fun rs => node :: (ls ++ rs))
      | .ok (.leaf _) => .ok [node]

/-- `_get_witness_for_key_prefix(db, node_hash, keypath)`; `tfuel` bounds the `get_trie_nodes` recursions -/
def witnessD (db : Db) (tfuel : Nat) : Nat → Hash → Bits → Except Err (List Bytes)
  | 0, _, _ => .error .fuel
  | fuel + 1, h, k =>
    -- `if not keypath: yield from get_trie_nodes(db, node_hash)`
    let headR : Except Err (List Bytes) := if k = [] then trieNodesD db tfuel h else .ok []
    match headR with
    | .error e => .error e
    | .ok head =>
      match lookup db h with
      | none => .ok head
      | some node =>
        match parse node with
        | .error e => .error e
        | .ok (.leaf _) => if k ≠ [] then .error .tooLong else .ok head
        | .ok (.kv p c) =>
          if k.length < p.length ∧ p.take k.length = k then
            (trieNodesD db tfuel c).map (fun w => head ++ node :: w)
          else if k.take p.length = p then
            (witnessD db tfuel fuel c (k.drop p.length)).map (fun w => head ++ node :: w)
          else .ok (head ++ [node])
        | .ok (.branch l r) =>
          if k.take 1 = [false] then (witnessD db tfuel fuel l (k.drop 1)).map (fun w => head ++ node :: w)
          else (witnessD db tfuel fuel r (k.drop 1)).map (fun w => head ++ node :: w)

end PyTrie.BranchRaw
