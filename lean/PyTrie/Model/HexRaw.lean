import PyTrie.Model.HexDb
import PyTrie.Model.HexEff
/-! **Raw level** of the hexary write path: `_set`, `_set_kv_node`, `_set_branch_node`, `_delete`,
    `_delete_kv_node`, `_delete_branch_node`, `_normalize_branch_node`, `_persist_node`, `_prune_node`,
    `get_node` transcribed statement by statement over *raw nodes* (`Item`: `b""`, two-item lists, 17-item
    lists with byte strings, hashes or embedded lists as children) and a database of encoded nodes —
    the data the Python code actually manipulates. Nothing here knows about trees.

    The refinement theorems (`Lemmas/RawRefines.lean`) state that on the raw encoding of a tree these
    functions compute the raw encoding of the tree-level `set` / `delete` and emit exactly the event list
    of `setE` / `deleteE`; everything proved about the tree and effect layers thereby applies to this
    transcription, and the correspondence check runs it against the code as well.

    A state is the database (write log, newest first) and the events so far (oldest first). -/
namespace PyTrie.HexRaw
open PyTrie.Hex PyTrie.HexD

structure St where
  db : Db
  evs : List Ev

inductive Err where
  | missing (h : Hash)          -- `KeyError` from `self.db[node_hash]`
  | invalid                     -- undecodable / ill-formed node, impossible branch of the code
  | fuel
  deriving Repr

variable (H : Bytes → Bytes)

/-- `get_node(ref)`, recording a database fetch -/
def getNodeR (st : St) (ref : Item) : Except Err (Item × St) :=
  match ref with
  | .list l => .ok (.list l, st)
  | .str h =>
    if h = [] then .ok (.str [], st)
    else if h = blankRoot H then .ok (.str [], st)
    else if h.length < 32 then
      match rlpDecode h with
      | some it => .ok (it, st)
      | none => .error .invalid
    else match lookup st.db h with
      | none => .error (.missing h)
      | some b => match rlpDecode b with
        | some it => .ok (it, { st with evs := st.evs ++ [Ev.read h] })
        | none => .error .invalid

/-- `_node_to_db_mapping(node)`: `(key, body?)` — blank ↦ `(b"", None)`, short ↦ `(node, None)`, else `(hash, rlp)` -/
def nodeToDb (node : Item) : Item × Option Bytes :=
  match node with
  | .str [] => (.str [], none)
  | _ =>
    let e := rlp node
    if e.length < 32 then (node, none) else (.str (H e), some e)

/-- `_prune_node(node)` (the event is recorded whether or not the trie is pruning; the executor ignores
    it for a non-pruning trie) -/
def pruneNodeR (st : St) (node : Item) : St :=
  match nodeToDb H node with
  | (.str h, some _) => { st with evs := st.evs ++ [Ev.prune h] }
  | _ => st

/-- `_persist_node(node)`: store when long enough, return the reference -/
def persistNodeR (st : St) (node : Item) : Item × St :=
  match nodeToDb H node with
  | (.str h, some body) => (.str h, { db := (h, body) :: st.db, evs := st.evs ++ [Ev.persist h body] })
  | (key, _) => (key, st)

/-- `compute_leaf_key` / `compute_extension_key` -/
def leafKey (p : Path) : Item := .str (hp p true)
def extKey (p : Path) : Item := .str (hp p false)

def blank17 : List Item := List.replicate 17 (.str [])

/-- `node[i] = x` on a Python list -/
def setAt (l : List Item) (i : Nat) (x : Item) : List Item := l.set i x

/-- `any(iter_node) and any(iter_node)`: at least two truthy items among the 17 -/
def truthy : Item → Bool
  | .str [] => false
  | _ => true

def twoTruthy (l : List Item) : Bool := (l.filter truthy).length ≥ 2

mutual
/-- `_set(node, trie_key, value)` -/
def rawSet : Nat → St → Item → Path → Bytes → Except Err (Item × St)
  | 0, _, _, _, _ => .error .fuel
  | fuel + 1, st, node, key, value =>
    let st := pruneNodeR H st node
    match classify node with
    | .blank => .ok (.list [leafKey key, .str value], st)
    | .leaf p x => rawSetKv fuel st node p x false key value
    | .ext p x => rawSetKv fuel st node p x true key value
    | .branch l =>
      -- `_set_branch_node`
      match key with
      | a :: rest =>
        match getNodeR H st (l.getD a.val (.str [])) with
        | .error e => .error e
        | .ok (sub, st1) =>
          match rawSet fuel st1 sub rest value with
          | .error e => .error e
          | .ok (newNode, st2) =>
            let (ref, st3) := persistNodeR H st2 newNode
            .ok (.list (setAt l a.val ref), st3)
      | [] => .ok (.list (setAt l 16 (.str value)), st)
    | .invalid => .error .invalid
/-- `_set_kv_node(node, trie_key, value)`; `p` = `extract_key(node)`, `x` = `node[1]` -/
def rawSetKv : Nat → St → Item → Path → Item → Bool → Path → Bytes → Except Err (Item × St)
  | 0, _, _, _, _, _, _, _ => .error .fuel
  | fuel + 1, st, node, p, x, isExt, key, value =>
    let n := cpl p key
    let common := p.take n
    let ckr := p.drop n          -- current_key_remainder
    let tkr := key.drop n        -- trie_key_remainder
    -- the three-way `if` computing `new_node`; `none` = the early `return [node[0], value]`
    let inner : Except Err (Option (Item × St)) :=
      match ckr, tkr with
      | [], [] =>
        if !isExt then .ok none
        else match getNodeR H st x with
          | .error e => .error e
          | .ok (sub, st1) => (rawSet fuel st1 sub tkr value).map some
      | [], t0 :: trest =>
        if isExt then
          match getNodeR H st x with
          | .error e => .error e
          | .ok (sub, st1) => (rawSet fuel st1 sub tkr value).map some
        else
          let subNode := Item.list [leafKey trest, .str value]
          let (ref, st1) := persistNodeR H st subNode
          .ok (some (.list (setAt (List.replicate 16 (.str []) ++ [x]) t0.val ref), st1))
      | c0 :: crest, _ =>
        let (slot, st1) :=
          if crest = [] ∧ isExt then (x, st)
          else persistNodeR H st (.list [if isExt then extKey crest else leafKey crest, x])
        let l1 := setAt blank17 c0.val slot
        match tkr with
        | t0 :: trest =>
          let (ref, st2) := persistNodeR H st1 (.list [leafKey trest, .str value])
          .ok (some (.list (setAt l1 t0.val ref), st2))
        | [] => .ok (some (.list (setAt l1 16 (.str value)), st1))
    match inner with
    | .error e => .error e
    | .ok none =>
      match node with
      | .list [k, _] => .ok (.list [k, .str value], st)
      | _ => .error .invalid
    | .ok (some (newNode, st1)) =>
      if common ≠ [] then
        let (ref, st2) := persistNodeR H st1 newNode
        .ok (.list [extKey common, ref], st2)
      else .ok (newNode, st1)
end

/-- `_normalize_branch_node(node)` on the 17 items -/
def rawNormalize (st : St) (l : List Item) : Except Err (Item × St) :=
  if twoTruthy l then .ok (.list l, st)
  else if truthy (l.getD 16 (.str [])) then .ok (.list [leafKey [], l.getD 16 (.str [])], st)
  else
    match (List.range 16).find? (fun i => truthy (l.getD i (.str []))) with
    | none => .error .invalid                      -- `next()` on an empty generator: StopIteration
    | some idx =>
      let subRef := l.getD idx (.str [])
      match getNodeR H st subRef with
      | .error e => .error e
      | .ok (sub, st1) =>
        match classify sub with
        | .leaf p x =>
          let st2 := pruneNodeR H st1 sub
          .ok (.list [leafKey (toNib idx :: p), x], st2)
        | .ext p x =>
          let st2 := pruneNodeR H st1 sub
          .ok (.list [extKey (toNib idx :: p), x], st2)
        | .branch _ => .ok (.list [extKey [toNib idx], subRef], st1)
        | _ => .error .invalid

/-- `_delete(node, trie_key)` with `_delete_kv_node` and `_delete_branch_node` inlined -/
def rawDelete : Nat → St → Item → Path → Except Err (Item × St)
  | 0, _, _, _ => .error .fuel
  | fuel + 1, st, node, key =>
    let st := pruneNodeR H st node
    match classify node with
    | .blank => .ok (.str [], st)
    | .leaf p _ =>
      -- `_delete_kv_node`, leaf
      if !(decide (p <+: key)) then .ok (node, st)
      else if key = p then .ok (.str [], st) else .ok (node, st)
    | .ext p x =>
      -- `_delete_kv_node`, extension
      if !(decide (p <+: key)) then .ok (node, st)
      else
        match getNodeR H st x with
        | .error e => .error e
        | .ok (sub, st1) =>
          match rawDelete fuel st1 sub (key.drop p.length) with
          | .error e => .error e
          | .ok (newSub, st2) =>
            let (enc, st3) := persistNodeR H st2 newSub
            if enc == x then .ok (node, st3)
            else if newSub == Item.str [] then .ok (.str [], st3)
            else
              match classify newSub with
              | .leaf p' x' =>
                let st4 := pruneNodeR H st3 newSub
                .ok (.list [leafKey (p ++ p'), x'], st4)
              | .ext p' x' =>
                let st4 := pruneNodeR H st3 newSub
                .ok (.list [extKey (p ++ p'), x'], st4)
              | .branch _ => .ok (.list [extKey p, enc], st3)
              | _ => .error .invalid
    | .branch l =>
      -- `_delete_branch_node`
      match key with
      | [] => rawNormalize H st (setAt l 16 (.str []))
      | a :: rest =>
        match getNodeR H st (l.getD a.val (.str [])) with
        | .error e => .error e
        | .ok (toDelete, st1) =>
          match rawDelete fuel st1 toDelete rest with
          | .error e => .error e
          | .ok (sub, st2) =>
            let (enc, st3) := persistNodeR H st2 sub
            if enc == l.getD a.val (.str []) then .ok (node, st3)
            else
              let l' := setAt l a.val enc
              if enc == Item.str [] then rawNormalize H st3 l' else .ok (.list l', st3)
    | .invalid => .error .invalid

/-- `self.root_hash = self._set_raw_node(root_node)`: the root is stored under its hash even when short -/
def setRawRoot (st : St) (root : Item) : Hash × St :=
  match root with
  | .str [] => (blankRoot H, st)
  | _ =>
    let e := rlp root
    (H e, { db := (H e, e) :: st.db, evs := st.evs ++ [Ev.persist (H e) e] })

/-- `HexaryTrie.set(key, value)` / `delete(key)` on a non-pruning trie, end to end at raw level:
    fetch the root, run `_set` / `_delete`, store the new root. Returns the new root hash and database. -/
def rawOp (db : Db) (root : Hash) (key : Bytes) (value : Option Bytes) : Except Err (Hash × St) :=
  let st0 : St := { db := db, evs := [] }
  match getNodeR H st0 (.str root) with
  | .error e => .error e
  | .ok (rootNode, st1) =>
    let fuel := 2 * (nibs key).length + 4
    let r := match value with
      | some v => if v = [] then rawDelete H fuel st1 rootNode (nibs key) else rawSet H fuel st1 rootNode (nibs key) v
      | none => rawDelete H fuel st1 rootNode (nibs key)
    match r with
    | .error e => .error e
    | .ok (newRoot, st2) => .ok (setRawRoot H st2 newRoot)

end PyTrie.HexRaw
