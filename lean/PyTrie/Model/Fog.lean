import PyTrie.Model.HexTrav
import PyTrie.Model.HexEnc
import PyTrie.Model.HexDb
/-! `trie/fog.py` transcribed: `HexaryTrieFog` is an immutable sorted set of unexplored nibble
    prefixes (`SortedSet` ↔ strictly sorted `List Path` under Python's tuple order `plt`), and
    `TrieFrontierCache` a dict from prefixes to (parent node, segment).

    Python ↔ model
    * `SortedSet.add/update`, `remove`, `in`, `bisect` (= `bisect_right`)  ↔ `insert`, `erase`, `elem`, `bisect`
    * `explore`, `mark_all_complete`, `is_complete`                        ↔ `explore`, `markAllComplete`, `isComplete`
    * `nearest_unknown`, `nearest_right`, `_prefix_distance`               ↔ `nearestUnknown`, `nearestRight`, `prefixDistance`
    * `serialize` (list of hex-prefix encodings) / `deserialize`           ↔ `serialize` / `deserialize` -/
namespace PyTrie.Fog
open PyTrie.Hex

abbrev Fog := List Path

inductive Err | validation | perfect | fullDir
  deriving DecidableEq, Repr

/-- a fresh fog: only the root prefix is unexplored -/
def init : Fog := [[]]

/-- insertion into a strictly sorted list (no duplicates) -/
def insert : Fog → Path → Fog
  | [], p => [p]
  | q :: rest, p => if plt p q then p :: q :: rest else if p = q then q :: rest else q :: insert rest p

def erase (f : Fog) (p : Path) : Fog := f.filter (fun q => !(decide (q = p)))

def isComplete (f : Fog) : Bool := f.isEmpty

/-- the mixed-length guard of `explore`: a segment one of whose strictly shorter truncations (to a
    length occurring among the segments) is itself a segment -/
def nestedSegment (subs : List Path) : Bool :=
  let lengths := subs.map List.length
  subs.any fun seg => lengths.any fun n => decide (n < seg.length) && subs.contains (seg.take n)

/-- `explore(old_prefix, sub_segments)` -/
def explore (f : Fog) (old : Path) (subs : List Path) : Except Err Fog :=
  if !(f.contains old) then .error .validation
  else if !(decide subs.Nodup) then .error .validation
  else if (subs.map List.length).eraseDups.length > 1 && nestedSegment subs then .error .validation
  else .ok ((subs.map (old ++ ·)).foldl insert (erase f old))

/-- `mark_all_complete(prefixes)` -/
def markAllComplete : Fog → List Path → Except Err Fog
  | f, [] => .ok f
  | f, p :: ps => if f.contains p then markAllComplete (erase f p) ps else .error .validation

/-- `SortedSet.bisect(key)` = `bisect_right`: number of elements `≤ key` -/
def bisect (f : Fog) (key : Path) : Nat := (f.takeWhile (fun q => !(plt key q))).length

/-- `_prefix_distance(low, high)`: element-wise `high - low` with missing low = 15, missing high = 0 -/
def prefixDistance : Path → Path → List Int
  | [], [] => []
  | [], h :: hs => ((h.val : Int) - 15) :: prefixDistance [] hs
  | l :: ls, [] => (0 - (l.val : Int)) :: prefixDistance ls []
  | l :: ls, h :: hs => ((h.val : Int) - (l.val : Int)) :: prefixDistance ls hs

/-- Python's `<` on tuples of ints -/
def ilt : List Int → List Int → Bool
  | [], [] => false
  | [], _ :: _ => true
  | _ :: _, [] => false
  | a :: as, b :: bs => if a < b then true else if b < a then false else ilt as bs

/-- `nearest_unknown(key)` -/
def nearestUnknown (f : Fog) (key : Path) : Except Err Path :=
  let i := bisect f key
  if i = 0 then
    match f with
    | [] => .error .perfect
    | x :: _ => .ok x
  else if i = f.length then .ok (f.getLast?.getD [])
  else
    let left := f.getD (i - 1) []
    let right := f.getD i []
    if ilt (prefixDistance left key) (prefixDistance key right) then .ok left else .ok right

/-- `nearest_right(key)` -/
def nearestRight (f : Fog) (key : Path) : Except Err Path :=
  let i := bisect f key
  if i = 0 then
    match f with
    | [] => .error .perfect
    | x :: _ => .ok x
  else
    let left := f.getD (i - 1) []
    if left <+: key then .ok left
    else match f[i]? with
      | some x => .ok x
      | none => .error .fullDir

/-- the payload of `serialize`: hex-prefix encodings (no terminator) of the prefixes in order -/
def serialize (f : Fog) : List Bytes := f.map (fun p => hp p false)

/-- `deserialize`: decode every hex-prefix item and build the sorted set (`none` = an undecodable item) -/
def deserialize (l : List Bytes) : Option Fog :=
  (l.mapM fun b => (HexD.hpDecode b).map (·.1)).map fun ps => ps.foldl insert []

/-! ### `TrieFrontierCache`: prefix ↦ (parent node, segment from the parent); the node type is a parameter -/
abbrev Frontier (α : Type) := List (Path × (α × Path))

namespace Frontier
variable {α : Type}

/-- `get(prefix)`; `none` = `KeyError` -/
def get (c : Frontier α) (p : Path) : Option (α × Path) := (c.find? (fun e => e.1 == p)).map (·.2)

def erase (c : Frontier α) (p : Path) : Frontier α := c.filter (fun e => !(e.1 == p))

def put (c : Frontier α) (p : Path) (v : α × Path) : Frontier α := (p, v) :: erase c p

/-- `add(node_prefix, trie_node, sub_segments)` -/
def add (c : Frontier α) (pre : Path) (node : α) (subs : List Path) : Frontier α :=
  let c1 := if pre ≠ [] then erase c pre else c
  subs.foldl (fun acc seg => put acc (pre ++ seg) (node, seg)) c1

/-- `delete(prefix)` -/
def delete (c : Frontier α) (p : Path) : Frontier α := erase c p

end Frontier

end PyTrie.Fog
