import PyTrie.Model.BinEnc
/-! `trie/binary.py` and `trie/branches.py` on trees (Layer T), with the list of nodes saved by
    `_hash_and_save` (Layer E), the encoding / hashing of tree nodes, and the readers over a database of
    encoded nodes (Layer D: `_get`, `if_branch_valid`).

    Python ↔ model
    * `BinaryTrie._get`                                   ↔ `bget` / `bgetTop` (tree), `bgetD` (database)
    * `_set`, `_set_kv_node`, `_set_branch_node`          ↔ `bset` / `bsetTop` (flag `sub` = `if_delete_subtrie`)
    * `_hash_and_save` calls, in order                    ↔ second component of `bsetS` / `bsetTopS`
    * `check_if_branch_exist`, `get_branch`, `get_trie_nodes`, `get_witness_for_key_prefix`
                                                          ↔ `branchExists`, `getBranch`, `trieNodes`, `getWitness`
    * `if_branch_valid`                                   ↔ `ifBranchValid`
    A trie is `Option BNode`: `none` is the empty trie (`BLANK_HASH`). -/
namespace PyTrie.Bin

inductive BNode where
  | leaf (v : Bytes)
  | kv (p : Bits) (c : BNode)
  | branch (l r : BNode)
  deriving DecidableEq, Repr, Inhabited

open BNode

inductive Err | override
  deriving DecidableEq, Repr

def cpl : Bits → Bits → Nat
  | a :: as, b :: bs => if a = b then cpl as bs + 1 else 0
  | _, _ => 0

/-- `_get` on a non-blank node -/
def bget : BNode → Bits → Option Bytes
  | leaf v, k => if k = [] then some v else none
  | kv p c, k => if k = [] then none else if p <+: k then bget c (k.drop p.length) else none
  | branch _ _, [] => none
  | branch l r, b :: k => if b = false then bget l k else bget r k

def bgetTop : Option BNode → Bits → Option Bytes
  | none, _ => none
  | some n, k => bget n k

/-- compress `(k1, (k2, NODE)) -> (k1 ++ k2, NODE)` -/
def mkKv (p : Bits) : BNode → BNode
  | kv p2 c2 => kv (p ++ p2) c2
  | n => kv p n

/-- `_set` on a non-blank node; `none` result = BLANK_HASH -/
def bset : BNode → Bits → Bytes → Bool → Except Err (Option BNode)
  | leaf _, k, v, sub =>
    if k ≠ [] then .error .override
    else if sub then .ok none
    else .ok (if v ≠ [] then some (leaf v) else none)
  | kv p c, k, v, sub =>
    if k = [] then (if sub then .ok none else .error .override)
    else if sub ∧ k.length < p.length ∧ k <+: p then .ok none
    else if p <+: k then
      match bset c (k.drop p.length) v sub with
      | .error e => .error e
      | .ok none => .ok none
      | .ok (some s) => .ok (some (mkKv p s))
    else
      let n := cpl p k
      if v = [] ∨ sub then .ok (some (kv p c))
      else if k.length ≤ n then .error .override
      else
        let valnode := if k.length = n + 1 then leaf v else kv (k.drop (n + 1)) (leaf v)
        let oldnode := if p.length = n + 1 then c else kv (p.drop (n + 1)) c
        let newsub := if (k.drop n).head? = some true then branch oldnode valnode else branch valnode oldnode
        .ok (some (if n = 0 then newsub else kv (p.take n) newsub))
  | branch l r, k, v, sub =>
    match k with
    | [] => if sub then .ok none else .error .override
    | b :: k' =>
      if b = false then
        match bset l k' v sub with
        | .error e => .error e
        | .ok none => .ok (some (mkKv [true] r))
        | .ok (some nl) => .ok (some (branch nl r))
      else
        match bset r k' v sub with
        | .error e => .error e
        | .ok none => .ok (some (mkKv [false] l))
        | .ok (some nr) => .ok (some (branch l nr))

def bsetTop (t : Option BNode) (k : Bits) (v : Bytes) (sub : Bool) : Except Err (Option BNode) :=
  match t with
  | none => if v ≠ [] then .ok (some (kv k (leaf v))) else .ok none
  | some n => bset n k v sub

/-- `_set` together with the nodes handed to `_hash_and_save`, in call order. The saves are returned
    also when the call raises (the code would have written them before the exception). -/
def bsetS : BNode → Bits → Bytes → Bool → Except Err (Option BNode) × List BNode
  | leaf _, k, v, sub =>
    if k ≠ [] then (.error .override, [])
    else if sub then (.ok none, [])
    else if v ≠ [] then (.ok (some (leaf v)), [leaf v]) else (.ok none, [])
  | kv p c, k, v, sub =>
    if k = [] then (if sub then (.ok none, []) else (.error .override, []))
    else if sub ∧ k.length < p.length ∧ k <+: p then (.ok none, [])
    else if p <+: k then
      match bsetS c (k.drop p.length) v sub with
      | (.error e, s) => (.error e, s)
      | (.ok none, s) => (.ok none, s)
      | (.ok (some x), s) => (.ok (some (mkKv p x)), s ++ [mkKv p x])
    else
      let n := cpl p k
      if v = [] ∨ sub then (.ok (some (kv p c)), [])
      else if k.length ≤ n then (.error .override, [])
      else
        let valnode := if k.length = n + 1 then leaf v else kv (k.drop (n + 1)) (leaf v)
        let valsaves := if k.length = n + 1 then [leaf v] else [leaf v, kv (k.drop (n + 1)) (leaf v)]
        let oldnode := if p.length = n + 1 then c else kv (p.drop (n + 1)) c
        let oldsaves := if p.length = n + 1 then [] else [kv (p.drop (n + 1)) c]
        let newsub := if (k.drop n).head? = some true then branch oldnode valnode else branch valnode oldnode
        if n = 0 then (.ok (some newsub), valsaves ++ oldsaves ++ [newsub])
        else (.ok (some (kv (p.take n) newsub)), valsaves ++ oldsaves ++ [newsub, kv (p.take n) newsub])
  | branch l r, k, v, sub =>
    match k with
    | [] => if sub then (.ok none, []) else (.error .override, [])
    | b :: k' =>
      if b = false then
        match bsetS l k' v sub with
        | (.error e, s) => (.error e, s)
        | (.ok none, s) => (.ok (some (mkKv [true] r)), s ++ [mkKv [true] r])
        | (.ok (some nl), s) => (.ok (some (branch nl r)), s ++ [branch nl r])
      else
        match bsetS r k' v sub with
        | (.error e, s) => (.error e, s)
        | (.ok none, s) => (.ok (some (mkKv [false] l)), s ++ [mkKv [false] l])
        | (.ok (some nr), s) => (.ok (some (branch l nr)), s ++ [branch l nr])

def bsetTopS (t : Option BNode) (k : Bits) (v : Bytes) (sub : Bool) : Except Err (Option BNode) × List BNode :=
  match t with
  | none => if v ≠ [] then (.ok (some (kv k (leaf v))), [leaf v, kv k (leaf v)]) else (.ok none, [])
  | some n => bsetS n k v sub

/-! ### encoding and hashing of tree nodes -/
section enc
variable (H : Bytes → Bytes)

mutual
def encNode : BNode → Bytes
  | leaf v => 2 :: v
  | kv p c => 0 :: encodeKeypath p ++ hashNode c
  | branch l r => 1 :: hashNode l ++ hashNode r
def hashNode : BNode → Hash
  | leaf v => H (2 :: v)
  | kv p c => H (0 :: encodeKeypath p ++ hashNode c)
  | branch l r => H (1 :: hashNode l ++ hashNode r)
end

/-- `BLANK_HASH = keccak(b'')` for the empty trie -/
def rootOf : Option BNode → Hash
  | none => H []
  | some n => hashNode H n

end enc

/-! ### `trie/branches.py` on trees -/
inductive KeyErr | tooLong | tooShort
  deriving DecidableEq, Repr

/-- `check_if_branch_exist` -/
def branchExists : BNode → Bits → Bool
  | leaf _, k => k = []
  | kv p c, k =>
    if k = [] then true
    else if k.length < p.length then k <+: p
    else if p <+: k then branchExists c (k.drop p.length) else false
  | branch _ _, [] => true
  | branch l r, b :: k => if b = false then branchExists l k else branchExists r k

def branchExistsTop : Option BNode → Bits → Bool
  | none, _ => false
  | some n, k => branchExists n k

/-- `get_branch` -/
def getBranch : BNode → Bits → Except KeyErr (List BNode)
  | leaf v, k => if k = [] then .ok [leaf v] else .error .tooLong
  | kv p c, k =>
    if k = [] then .error .tooShort
    else if p <+: k then (getBranch c (k.drop p.length)).map (kv p c :: ·)
    else .ok [kv p c]
  | branch _ _, [] => .error .tooShort
  | branch l r, b :: k =>
    if b = false then (getBranch l k).map (branch l r :: ·) else (getBranch r k).map (branch l r :: ·)

def getBranchTop : Option BNode → Bits → Except KeyErr (List BNode)
  | none, _ => .ok []
  | some n, k => getBranch n k

/-- `get_trie_nodes` -/
def trieNodes : BNode → List BNode
  | leaf v => [leaf v]
  | kv p c => kv p c :: trieNodes c
  | branch l r => branch l r :: (trieNodes l ++ trieNodes r)

/-- `get_witness_for_key_prefix` (duplicates and all) -/
def getWitness : BNode → Bits → Except KeyErr (List BNode)
  | n@(leaf _), k => if k = [] then .ok (trieNodes n) else .error .tooLong
  | n@(kv p c), k =>
    let head := if k = [] then trieNodes n else []
    if k.length < p.length ∧ k <+: p then .ok (head ++ n :: trieNodes c)
    else if p <+: k then (getWitness c (k.drop p.length)).map (fun w => head ++ n :: w)
    else .ok (head ++ [n])
  | n@(branch l r), k =>
    let head := if k = [] then trieNodes n else []
    match k with
    | [] => (getWitness r []).map (fun w => head ++ n :: w)
    | b :: k' =>
      if b = false then (getWitness l k').map (fun w => head ++ n :: w)
      else (getWitness r k').map (fun w => head ++ n :: w)

def getWitnessTop : Option BNode → Bits → Except KeyErr (List BNode)
  | none, _ => .ok []
  | some n, k => getWitness n k

/-! ### Layer D: reading encoded nodes from a database -/
abbrev Db := List (Hash × Bytes)

def lookup (db : Db) (h : Hash) : Option Bytes := (db.find? (fun e => e.1 == h)).map (·.2)

inductive DErr where
  | keyError (h : Hash)       -- `db[node_hash]` missing
  | invalidNode
  | assertion                 -- the `assert` of `decode_to_bin_keypath`
  | other                     -- IndexError of `decode_to_bin_keypath`
  | fuel
  deriving DecidableEq, Repr

/-- `BinaryTrie._get(node_hash, keypath)` over a database of encoded nodes -/
def bgetD (blank : Hash) (db : Db) : Nat → Hash → Bits → Except DErr (Option Bytes)
  | 0, _, _ => .error .fuel
  | fuel + 1, h, k =>
    if h = blank then .ok none
    else match lookup db h with
      | none => .error (.keyError h)
      | some body =>
        match parseNode body with
        | .error .invalidNode => .error .invalidNode
        | .error .assertion => .error .assertion
        | .error .index => .error .other
        | .ok (.leaf v) => if k ≠ [] then .ok none else .ok (some v)
        | .ok (.kv p c) =>
          if k = [] then .ok none
          else if p <+: k then bgetD blank db fuel c (k.drop p.length) else .ok none
        | .ok (.branch l r) =>
          match k with
          | [] => .ok none
          | b :: k' => bgetD blank db fuel (if b = false then l else r) k'

inductive ValidOut where
  | valid
  | assertion          -- empty branch, or the answer differs
  | validation         -- a node fails `validate_is_bin_node`
  | keyError
  | invalidNode
  | other
  deriving DecidableEq, Repr

/-- `validate_is_bin_node` -/
def isBinNode (blank : Hash) (n : Bytes) : Bool :=
  n == blank || (match n with | t :: _ => t = 0 || t = 1 || t = 2 | [] => false)

/-- `if_branch_valid(branch, root_hash, key, value)` (`value = none` claims absence) -/
def ifBranchValid (H : Bytes → Bytes) (branch : List Bytes) (root : Hash) (key : Bits) (value : Option Bytes) : ValidOut :=
  if branch = [] then .assertion
  else if !(branch.all (isBinNode (H []))) then .validation
  else
    -- dict comprehension: later nodes overwrite earlier ones with the same hash
    let db : Db := (branch.map fun n => (H n, n)).reverse
    match bgetD (H []) db (branch.length + key.length + 2) root key with
    | .ok r => if r = value then .valid else .assertion
    | .error (.keyError _) => .keyError
    | .error .invalidNode => .invalidNode
    | .error .assertion => .assertion
    | .error _ => .other

end PyTrie.Bin
