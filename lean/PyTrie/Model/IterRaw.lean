import PyTrie.Model.HexRead
/-! **Raw level of `NodeIterator.next`**: `_get_next_key` and `_get_key_after` as written — over annotated raw
    nodes (`AnnD`), navigating with `traverse_from(node, segment)` through the database. The tree-level
    counterparts are `nextKey` / `keyAfter` (`Model/HexTrav.lean`); `Lemmas/IterRefines.lean` proves they agree. -/
namespace PyTrie.HexD
open PyTrie.Hex

variable (H : Bytes → Bytes)

/-- `self._trie.traverse_from(node, segment)`; a `TraversedPartialPath` propagates as an error -/
def travFrom (db : Db) (fuel : Nat) (node : AnnD) (seg : Path) : Except TErr AnnD :=
  match traverseOutD H db fuel node.raw seg with
  | .error e => .error e
  | .ok (.node a) => .ok a
  | .ok (.partialPath _ _ _ _) => .error .invalid

/-- `_get_next_key(node, traversed)` -/
def nextKeyD (db : Db) (tfuel : Nat) : Nat → AnnD → Path → Except TErr (Option Path)
  | 0, _, _ => .error .fuel
  | fuel + 1, node, tr =>
    if node.value ≠ [] then .ok (some (tr ++ node.suffix))
    else match node.subs with
      | [] => .ok none
      | seg :: _ =>
        match travFrom H db tfuel node seg with
        | .error e => .error e
        | .ok nx => nextKeyD db tfuel fuel nx (tr ++ seg)

mutual
/-- `_get_key_after(node, key, traversed)` -/
def keyAfterD (db : Db) (tfuel : Nat) : Nat → AnnD → Path → Path → Except TErr (Option Path)
  | 0, _, _, _ => .error .fuel
  | fuel + 1, node, key, tr =>
    match keyAfterSegs db tfuel fuel node node.subs key tr with
    | .error e => .error e
    | .ok (some r) => .ok (some r)
    | .ok none => if plt key node.suffix then .ok (some (tr ++ node.suffix)) else .ok none
/-- the `for next_segment in node.sub_segments` loop; `none` = fell off the end of the loop -/
def keyAfterSegs (db : Db) (tfuel : Nat) : Nat → AnnD → List Path → Path → Path → Except TErr (Option Path)
  | 0, _, _, _, _ => .error .fuel
  | _ + 1, _, [], _, _ => .ok none
  | fuel + 1, node, seg :: rest, key, tr =>
    if plt seg (key.take seg.length) then keyAfterSegs db tfuel fuel node rest key tr      -- to the left of the key: continue
    else
      match travFrom H db tfuel node seg with
      | .error e => .error e
      | .ok nx =>
        let n := cpl key seg
        if seg.drop n = [] then
          -- perfect match of the segment: look to the right of the key below it
          match keyAfterD db tfuel fuel nx (key.drop n) (tr ++ seg) with
          | .error e => .error e
          | .ok (some r) => .ok (some r)
          | .ok none => keyAfterSegs db tfuel fuel node rest key tr
        else nextKeyD H db tfuel fuel nx (tr ++ seg)
end

/-- `NodeIterator.next(key_bytes)` / `next()`; the root node is `trie.root_node` -/
def nextD (db : Db) (root : Hash) (key : Option Bytes) : Except TErr (Option Path) :=
  match fetch H db (.str root) [] with
  | .error e => .error e
  | .ok rootItem =>
    match annotateD rootItem with
    | none => .error .invalid
    | some rootNode =>
      let big := 4 * db.length + 200
      match key with
      | none => nextKeyD H db big big rootNode []
      | some k => keyAfterD H db big (big + 40 * (nibs k).length) rootNode (nibs k) []

end PyTrie.HexD
