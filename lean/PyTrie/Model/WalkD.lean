import PyTrie.Model.Walk
import PyTrie.Model.HexRead
/-! The walk step **at raw level**: the loop body of a fog-guided walk as callers write it, over what the code has —
    a root hash, a database, and a `TrieFrontierCache` holding *raw node bodies* (the `raw` field of the `HexaryTrieNode`
    objects the caller kept). On a cache hit the cached parent's children are read from the database **as it is now**
    (`traverse_from(parent, segment)`), on a miss the root node is fetched and `traverse(prefix)` runs; either may raise
    `MissingTraversalNode` (a pruned child of a stale parent, an incomplete database). `Lemmas/WalkDRefines.lean` proves
    that this computes the tree-level step of `Model/Walk.lean` or reports the first missing node. -/
namespace PyTrie.HexD
open PyTrie.Hex PyTrie.Fog

structure CStateD where
  fog : Fog
  cache : Frontier Item
  met : List (Path × Bytes)

/-- the description the caller works with: the node, or the simulated node of a partial path -/
def descD? : TravOutD → Option AnnD
  | .node a => some a
  | .partialPath _ _ _ sim => sim

variable (H : Bytes → Bytes)

/-- the traversal of one step: `traverse_from(cached parent, segment)` on a hit, `traverse(prefix)` from the root on a miss -/
def walkTraverseD (db : Db) (root : Hash) (s : CStateD) (p : Path) : Except TErr TravOutD :=
  match Frontier.get s.cache p with
  | some (parent, seg) => traverseOutD H db (db.length + seg.length + 2) parent seg
  | none =>
    match fetch H db (.str root) [] with
    | .error e => .error e
    | .ok rootNode => traverseOutD H db (db.length + p.length + 2) rootNode p

/-- one walk step at the chosen unexplored prefix `p`; `.error` = `MissingTraversalNode` (nothing changes);
    `.ok none` = the step could not be carried out (no description / `explore` rejected it) -/
def cstepD (db : Db) (root : Hash) (s : CStateD) (p : Path) : Except TErr (Option CStateD) :=
  match walkTraverseD H db root s p with
  | .error e => .error e
  | .ok out =>
    match descD? out with
    | none => .ok none
    | some d =>
      match Fog.explore s.fog p d.subs with
      | .error _ => .ok none
      | .ok fog' =>
        let cache' := if d.subs ≠ [] then Frontier.add s.cache p d.raw d.subs else Frontier.delete s.cache p
        .ok (some ⟨fog', cache', if d.value ≠ [] then (p ++ d.suffix, d.value) :: s.met else s.met⟩)

end PyTrie.HexD

/-! ### `NodeIterator.nodes()` at raw level -/
namespace PyTrie.HexD
open PyTrie.Hex PyTrie.Fog

variable (H : Bytes → Bytes)

/-- the loop of `nodes()` over the database: always the left-most unexplored prefix (`nearest_right(())`), `traverse`
    from the root on a cache miss, `traverse_from(cached parent body, segment)` on a hit; yields `(prefix, annotated node)`.
    A `TraversedPartialPath` / rejected `explore` ends the sequence (they would propagate); a missing node is an error. -/
def nodesLoopD (db : Db) (root : Hash) : Nat → Fog → Frontier Item → Except TErr (List (Path × AnnD))
  | 0, _, _ => .ok []
  | fuel + 1, fog, cache =>
    match nearestRight fog [] with
    | .error _ => .ok []
    | .ok p =>
      match walkTraverseD H db root ⟨fog, cache, []⟩ p with
      | .error e => .error e
      | .ok (.partialPath _ _ _ _) => .ok []
      | .ok (.node a) =>
        match Fog.explore fog p a.subs with
        | .error _ => .ok []
        | .ok fog' =>
          let cache' := if a.subs ≠ [] then Frontier.add cache p a.raw a.subs else Frontier.delete cache p
          match nodesLoopD db root fuel fog' cache' with
          | .error e => .error e
          | .ok rest => .ok ((p, a) :: rest)

def nodesOfD (db : Db) (root : Hash) (fuel : Nat) : Except TErr (List (Path × AnnD)) :=
  nodesLoopD H db root fuel Fog.init []

end PyTrie.HexD

/-! ### The walk as callers run it, at raw level: with the reaction to a stale cache entry, over an evolving database -/
namespace PyTrie.HexD
open PyTrie.Hex PyTrie.Fog

variable (H : Bytes → Bytes)

/-- the loop body with the caller's reaction to `MissingTraversalNode` from `traverse_from(cached parent, …)`: the cache
    entry is dropped and the prefix is traversed from the root (`except MissingTraversalNode: cache.delete(prefix); retry`).
    A missing node met on the way from the root propagates. -/
def cstepDR (db : Db) (root : Hash) (s : CStateD) (p : Path) : Except TErr (Option CStateD) :=
  match cstepD H db root s p with
  | .error (.missing h pre) =>
    match Frontier.get s.cache p with
    | some _ => cstepD H db root { s with cache := Frontier.delete s.cache p } p
    | none => .error (.missing h pre)
  | r => r

/-- one step of a schedule: the database and root hash as they are at that moment, and the prefix chosen -/
structure StepD where
  db : Db
  root : Hash
  p : Path

/-- a whole walk: between steps the trie may have been modified (the database and root of each step are its own) -/
def crunDR (s : CStateD) : List StepD → Except TErr (Option CStateD)
  | [] => .ok (some s)
  | e :: rest =>
    match cstepDR H e.db e.root s e.p with
    | .error err => .error err
    | .ok none => .ok none
    | .ok (some s') => crunDR s' rest

def cstartD : CStateD := ⟨Fog.init, [], []⟩

end PyTrie.HexD

namespace PyTrie.HexD
open PyTrie.Hex PyTrie.Fog

variable (H : Bytes → Bytes)

/-- `items()` at raw level: the pairs `(prefix + suffix, value)` of the nodes `nodes()` yields that carry a value
    (`keys()` / `values()` are its projections) -/
def itemsOfD (db : Db) (root : Hash) (fuel : Nat) : Except TErr (List (Path × Bytes)) :=
  match nodesOfD H db root fuel with
  | .error e => .error e
  | .ok l => .ok (l.filterMap fun e => if e.2.value ≠ [] then some (e.1 ++ e.2.suffix, e.2.value) else none)

end PyTrie.HexD
