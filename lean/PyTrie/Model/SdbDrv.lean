import PyTrie.Model.Sdb
/-! Line-protocol front end for `ScratchDB` (`sdb.*`). -/
namespace PyTrie.SdbDrv
open PyTrie.Sdb PyTrie.HexW

structure St where
  s : Sdb := {}
  deriving Inhabited

def joinOr (l : List String) (sep : String) : String := if l.isEmpty then "-" else sep.intercalate l

def sortPairs (l : Dict Bytes) : Dict Bytes := (l.toArray.qsort (fun a b => toHex a.1 < toHex b.1)).toList

def fmtDict (d : Dict Bytes) : String := joinOr ((sortPairs d).map fun e => s!"{toHex e.1}:{toHex e.2}") ","

def parsePairs (s : String) : Option (Dict Bytes) :=
  if s = "-" then some [] else
  (s.splitOn ",").mapM fun t =>
    match t.splitOn ":" with
    | [k, v] => do let k ← ofHex k; let v ← ofHex v; pure (k, v)
    | _ => none

def step (st : St) (cmd : String) (args : List String) : St × String :=
  let bad := (st, "bad-op")
  match cmd, args with
  | "reset", [] => ({}, "ok")
  | "new", [ps] =>
    match parsePairs ps with
    | some d => ({ s := { wrapped := d.foldl (fun acc e => Dict.insert acc e.1 e.2) [], cache := [] } }, "ok")
    | none => bad
  | "get", [k] =>
    match ofHex k with
    | some k => (st, match getItem st.s k with | some v => s!"v {toHex v}" | none => "exn KeyError")
    | none => bad
  | "set", [k, v] =>
    match ofHex k, ofHex v with
    | some k, some v => ({ s := setItem st.s k v }, "ok")
    | _, _ => bad
  | "del", [k] => match ofHex k with | some k => ({ s := delItem st.s k }, "ok") | none => bad
  | "contains", [k] => match ofHex k with | some k => (st, if contains st.s k then "True" else "False") | none => bad
  | "copy", [] => (st, fmtDict (copy st.s))
  | "wrapped", [] => (st, fmtDict st.s.wrapped)
  | "cachelen", [] => (st, toString st.s.cache.length)
  | "commit", [dd, fa] =>
    let fa? : Option (Option Nat) := if fa = "none" then some none else fa.toNat?.map some
    match fa? with
    | some fa =>
      let r := commit st.s (dd == "1") fa
      ({ s := r.2.1 }, if r.1 then "ok" else "exn WriteFailed")
    | none => bad
  | "abort", [] => ({ s := abort st.s }, "ok")
  | _, _ => bad

end PyTrie.SdbDrv
