import PyTrie.Model.Basic
/-! `trie/utils/nibbles.py` transcribed. Nibbles are `Nat`s here because the Python functions accept
    arbitrary ints and validate them; 16 is the terminator flag. -/
namespace PyTrie.Nibbles

inductive Err | invalidNibbles | indexError
  deriving DecidableEq, Repr

def TERM : Nat := 16

def bytesToNibbles : Bytes → List Nat
  | [] => []
  | b :: bs => (b.toNat / 16) :: (b.toNat % 16) :: bytesToNibbles bs

def pack : List Nat → Bytes
  | a :: b :: r => UInt8.ofNat (a * 16 + b) :: pack r
  | _ => []

/-- `nibbles_to_bytes`: first every nibble must be in range, then the length must be even -/
def nibblesToBytes (ns : List Nat) : Except Err Bytes :=
  if ns.any (fun n => !(n < 16)) then .error .invalidNibbles
  else if ns.length % 2 = 1 then .error .invalidNibbles
  else .ok (pack ns)

def isTerminated (ns : List Nat) : Bool :=
  match ns.getLast? with
  | some x => x == TERM
  | none => false

def addTerminator (ns : List Nat) : List Nat := if isTerminated ns then ns else ns ++ [TERM]
def removeTerminator (ns : List Nat) : List Nat := if isTerminated ns then ns.dropLast else ns

/-- `encode_nibbles` (the hex-prefix function on a possibly terminated nibble list) -/
def encodeNibbles (ns : List Nat) : Except Err Bytes :=
  let flag := if isTerminated ns then 2 else 0
  let raw := removeTerminator ns
  if raw.length % 2 = 1 then nibblesToBytes ((flag + 1) :: raw)
  else nibblesToBytes (flag :: 0 :: raw)

/-- `decode_nibbles` -/
def decodeNibbles (bs : Bytes) : Except Err (List Nat) :=
  match bytesToNibbles bs with
  | [] => .error .indexError
  | flag :: rest =>
    let needsTerm := flag == 2 || flag == 3
    let odd := flag == 1 || flag == 3
    let raw := if odd then rest else rest.drop 1
    .ok (if needsTerm then addTerminator raw else raw)

end PyTrie.Nibbles
