import PyTrie.Model.HexWorld
import PyTrie.Model.HexTrav
import PyTrie.Model.HexDb
import PyTrie.Model.Iter
import PyTrie.Model.HexRaw
import PyTrie.Model.HexRead
import PyTrie.Model.IterRaw
import PyTrie.Model.Walk
import PyTrie.Model.HexRawT
import PyTrie.Model.HexFree
import PyTrie.Model.WalkD
/-! Line-protocol front end for the hexary-trie model (commands `hx.*`). One reply line per
    command. Byte strings are lower-case hex (`-` = empty), nibble paths one hex digit per nibble
    (`-` = empty), the batch trie is addressed as `b`, other tries by number. -/
namespace PyTrie.HexDrv
open PyTrie.Hex PyTrie.HexW

def Hs : Hashing := keccakHashing
def blankRootHash : Hash := blankRoot keccak

structure St where
  w : World := {}
  regs : Array Node := #[]       -- node registers for traverse_from
  last : Option Node := none     -- raw node (real or simulated) returned by the latest traversal
  walk : CState := ⟨Fog.init, [], []⟩   -- state of the concrete fog walk (`Model/Walk.lean`)
  rr : Hash × HexD.Db := (blankRoot keccak, [])   -- root and database of the raw-level run (`HexRaw.rawOp` threaded)
  fw : HexFree.FWorld := HexFree.FWorld.init keccak false   -- the tree-free executor and its `squash_changes` (`Model/HexFree.lean`)
  walkDR : HexD.CStateD := ⟨Fog.init, [], []⟩  -- the same walk driven one whole step (with the retry on a stale entry) at a time: `cstepDR`
  walkD : HexD.CStateD := ⟨Fog.init, [], []⟩   -- the raw-level fog walk (`Model/WalkD.lean`): cache of raw node bodies, reads the db
  deriving Inhabited

def pathStr (p : Path) : String :=
  if p.isEmpty then "-" else String.ofList (p.map fun n => hexDigit n.val)

def parsePath (s : String) : Option Path :=
  if s = "-" then some [] else
  s.toList.mapM fun c => (hexVal c).map (Fin.ofNat 16)

def joinOr (l : List String) (sep : String) : String :=
  if l.isEmpty then "-" else sep.intercalate l

def fmtExn : Exn → String
  | .missingTrieNode h root key pre =>
    s!"exn MissingTrieNode {toHex h} {toHex root} {toHex key} {match pre with | none => "None" | some p => pathStr p}"
  | .missingTraversalNode h tr => s!"exn MissingTraversalNode {toHex h} {pathStr tr}"
  | .validation w => s!"exn ValidationError {w}"
  | .writeFailed => "exn WriteFailed"
  | .getErr => "exn ValidationError get"

/-- sort an association list by key for canonical output -/
def sortPairs {α} (l : List (Hash × α)) : List (Hash × α) :=
  (l.toArray.qsort (fun a b => toHex a.1 < toHex b.1)).toList

def countList (l : List Hash) : List (Hash × Nat) :=
  l.foldl (fun acc h => Dict.insert acc h ((Dict.get? acc h).getD 0 + 1)) []

def fmtCounts (c : List (Hash × Nat)) : String :=
  joinOr ((sortPairs (c.filter (fun e => e.2 ≠ 0))).map fun e => s!"{toHex e.1}:{e.2}") ","

def parseTarget (s : String) : Option Target :=
  if s = "b" then some .batch else s.toNat?.map .trie

def kindStr : Kind → String
  | .blank => "blank" | .leaf => "leaf" | .ext => "ext" | .branch => "branch"

def fmtAnn (a : Ann) : String :=
  s!"{kindStr a.kind} subs={joinOr (a.subs.map pathStr) ","} value={toHex a.value} suffix={pathStr a.suffix} raw={toHex (enc keccak a.raw)}"

def fmtTrav : TravOut → String
  | .node a => s!"node {fmtAnn a}"
  | .partialPath tr a tail sim =>
    s!"partial traversed={pathStr tr} tail={pathStr tail} node=[{fmtAnn a}] sim=[{match sim with | some s => fmtAnn s | none => "bug"}]"

/-- the raw node a traversal hands to the caller: the node, or the simulated node of a partial path -/
def descRaw : TravOut → Node
  | .node a => a.raw
  | .partialPath _ _ _ (some s) => s.raw
  | .partialPath _ a _ none => a.raw

def countsOf (w : World) : Target → Counts
  | .trie i => w.counts[i]!
  | .batch => match w.batch with | some b => b.counts | none => []

/-- the store a target reads through -/
def storeOf (w : World) : Target → Store
  | .batch => { base := w.base, cache := w.batch.map (·.cache), failAfter := none }
  | .trie _ => { base := w.base, cache := none, failAfter := none }

def travReads (w : World) (tg : Target) (root? : Option Hash) (t : Node) (p : Path) : Option Exn :=
  match opTraverse Hs blankRootHash root? t p (storeOf w tg) with
  | .ok _ => none
  | .error e => some e

def step (st : St) (cmd : String) (args : List String) : St × String :=
  let w := st.w
  let bad := (st, "bad-op")
  match cmd, args with
  | "reset", [] => ({}, "ok")
  | "new", [p] =>
    let (w', i) := w.newTrie blankRootHash (p == "1")
    ({ st with w := w' }, toString i)
  | "open", [r] =>
    match ofHex r with
    | none => bad
    | some root =>
      match w.openAt blankRootHash root with
      | some (w', i) => ({ st with w := w' }, toString i)
      | none => (st, "unknown-root")
  | "set", [tg, k, v] =>
    match parseTarget tg, ofHex k, ofHex v with
    | some tg, some k, some v =>
      let (r, w') := w.setDel Hs blankRootHash tg k (some v)
      ({ st with w := w' }, match r with | .ok _ => "ok" | .error e => fmtExn e)
    | _, _, _ => bad
  | "del", [tg, k] =>
    match parseTarget tg, ofHex k with
    | some tg, some k =>
      let (r, w') := w.setDel Hs blankRootHash tg k none
      ({ st with w := w' }, match r with | .ok _ => "ok" | .error e => fmtExn e)
    | _, _ => bad
  | "get", [tg, k] =>
    match parseTarget tg, ofHex k with
    | some tg, some k =>
      (st, match w.get Hs blankRootHash tg k with | .ok v => s!"v {toHex v}" | .error e => fmtExn e)
    | _, _ => bad
  | "root", [tg] =>
    match parseTarget tg with
    | some tg => (st, toHex (w.trieOf tg).root)
    | none => bad
  | "db", [] => (st, joinOr ((sortPairs w.base).map fun e => s!"{toHex e.1}:{toHex e.2}") ",")
  | "dbkeys", [] => (st, joinOr ((sortPairs w.base).map fun e => toHex e.1) ",")
  | "counts", [tg] =>
    match parseTarget tg with
    | some tg => (st, fmtCounts (countsOf w tg))
    | none => bad
  | "regen", [tg] =>
    match parseTarget tg with
    | some tg => (st, fmtCounts (countList (regen Hs (w.trieOf tg).tree)))
    | none => bad
  | "bbegin", [i] =>
    match i.toNat? with
    | some i => if w.batch.isSome || i ≥ w.tries.size then bad else ({ st with w := w.batchBegin i }, "ok")
    | none => bad
  | "bend", [r] =>
    let (res, w') := w.batchEnd (r == "1")
    ({ st with w := w' }, match res with | .ok _ => "ok" | .error e => fmtExn e)
  | "drop", [h] =>
    match ofHex h with
    | some h => ({ st with w := { w with base := Dict.erase w.base h } }, "ok")
    | none => bad
  | "put", [h, b] =>
    match ofHex h, ofHex b with
    | some h, some b => ({ st with w := { w with base := Dict.insert w.base h b } }, "ok")
    | _, _ => bad
  | "failafter", [n] =>
    if n = "none" then ({ st with w := { w with failAfter := none } }, "ok")
    else match n.toNat? with
      | some n => ({ st with w := { w with failAfter := some n } }, "ok")
      | none => bad
  | "trav", [tg, p] =>
    match parseTarget tg, parsePath p with
    | some tg, some p =>
      let T := w.trieOf tg
      match travReads w tg (some T.root) T.tree p with
      | some e => ({ st with last := none }, fmtExn e)
      | none => ({ st with last := some (descRaw (traverseOut T.tree p)) }, fmtTrav (traverseOut T.tree p))
    | _, _ => bad
  | "rootnode", [tg] =>
    match parseTarget tg with
    | some tg =>
      let T := w.trieOf tg
      match travReads w tg (some T.root) T.tree [] with
      | some e => (st, fmtExn e)
      | none => (st, s!"node {fmtAnn (annotate T.tree)}")
    | none => bad
  -- remember the node (real or simulated) found at a path of a trie, for `travfrom`
  | "reg", [tg, p] =>
    match parseTarget tg, parsePath p with
    | some tg, some p =>
      let T := w.trieOf tg
      let n := match traverseOut T.tree p with
        | .node a => a.raw
        | .partialPath _ _ _ (some s) => s.raw
        | .partialPath _ a _ none => a.raw
      ({ st with regs := st.regs.push n }, toString st.regs.size)
    | _, _ => bad
  | "travfrom", [tg, r, p] =>
    match parseTarget tg, r.toNat?, parsePath p with
    | some tg, some r, some p =>
      if r ≥ st.regs.size then bad else
      let n := st.regs[r]!
      match travReads w tg none n p with
      | some e => ({ st with last := none }, fmtExn e)
      | none => ({ st with last := some (descRaw (traverseOut n p)) }, fmtTrav (traverseOut n p))
    | _, _, _ => bad
  -- remember the node returned by the latest successful traversal (what a frontier cache stores)
  | "reglast", [] =>
    match st.last with
    | some n => ({ st with regs := st.regs.push n }, toString st.regs.size)
    | none => bad
  -- the concrete fog walk of `Model/Walk.lean`, one whole step at a time
  -- the raw-level fog walk of `Model/WalkD.lean`: root hash + database as they are now, cache of raw node bodies
  | "wdnew", [] => ({ st with walkD := ⟨Fog.init, [], []⟩ }, "ok")
  | "wdcnew", [] => ({ st with walkD := { st.walkD with cache := [] } }, "ok")
  | "wdrefog", [] => ({ st with walkD := { st.walkD with fog := Fog.init, met := [] } }, "ok")
  | "wdcdel", [p] =>
    match parsePath p with
    | some p => ({ st with walkD := { st.walkD with cache := Fog.Frontier.delete st.walkD.cache p } }, "ok")
    | none => bad
  | "wdstep", [tg, p, useCache] =>
    match parseTarget tg, parsePath p with
    | some tg, some p =>
      let T := w.trieOf tg
      let cs : HexD.CStateD := if useCache == "1" then st.walkD else { st.walkD with cache := [] }
      match HexD.cstepD keccak w.base T.root cs p with
      | .error (.missing h used) => (st, s!"exn MissingTraversalNode {toHex h} {pathStr used}")
      | .error _ => (st, "exn Invalid")
      | .ok none => (st, "none")
      | .ok (some cs') =>
        let cs'' : HexD.CStateD := if useCache == "1" then cs' else { cs' with cache := st.walkD.cache }
        let showF (f : Fog.Fog) := if f.isEmpty then "-" else ",".intercalate (f.map fun q => if q.isEmpty then "_" else pathStr q)
        let newMet := if cs'.met.length > cs.met.length then
            match cs'.met.head? with
            | some (k, v) => s!"{pathStr k}={toHex v}"
            | none => "-"
          else "-"
        ({ st with walkD := cs'' }, s!"fog {showF cs'.fog} met {newMet}")
    | _, _ => bad
  -- the raw-level walk step WITH the caller's retry (`cstepDR`): a stale cache entry whose parent no longer resolves is
  -- dropped and the prefix traversed from the root, as one transition
  | "wdrnew", [] => ({ st with walkDR := ⟨Fog.init, [], []⟩ }, "ok")
  | "wdrcnew", [] => ({ st with walkDR := { st.walkDR with cache := [] } }, "ok")
  | "wdrrefog", [] => ({ st with walkDR := { st.walkDR with fog := Fog.init, met := [] } }, "ok")
  | "wdstepr", [tg, p, useCache] =>
    match parseTarget tg, parsePath p with
    | some tg, some p =>
      let T := w.trieOf tg
      let cs : HexD.CStateD := if useCache == "1" then st.walkDR else { st.walkDR with cache := [] }
      match HexD.cstepDR keccak w.base T.root cs p with
      | .error (.missing h used) => (st, s!"exn MissingTraversalNode {toHex h} {pathStr used}")
      | .error _ => (st, "exn Invalid")
      | .ok none => (st, "none")
      | .ok (some cs') =>
        let cs'' : HexD.CStateD := if useCache == "1" then cs' else { cs' with cache := st.walkDR.cache }
        let showF (f : Fog.Fog) := if f.isEmpty then "-" else ",".intercalate (f.map fun q => if q.isEmpty then "_" else pathStr q)
        let newMet := if cs'.met.length > cs.met.length then
            match cs'.met.head? with
            | some (k, v) => s!"{pathStr k}={toHex v}"
            | none => "-"
          else "-"
        let ckeys := ",".intercalate ((cs''.cache.map fun e => if e.1.isEmpty then "_" else pathStr e.1).toArray.qsort (· < ·)).toList
        ({ st with walkDR := cs'' }, s!"fog {showF cs'.fog} met {newMet} cache {if ckeys.isEmpty then "-" else ckeys}")
    | _, _ => bad
  | "wnew", [] => ({ st with walk := ⟨Fog.init, [], []⟩ }, "ok")
  | "wcnew", [] => ({ st with walk := { st.walk with cache := [] } }, "ok")
  -- a new walk (fresh fog, nothing met yet) that keeps the frontier cache of the previous one
  | "wrefog", [] => ({ st with walk := { st.walk with fog := Fog.init, met := [] } }, "ok")
  | "wcdel", [p] =>
    match parsePath p with
    | some p => ({ st with walk := { st.walk with cache := Fog.Frontier.delete st.walk.cache p } }, "ok")
    | none => bad
  | "wstep", [tg, p, useCache] =>
    match parseTarget tg, parsePath p with
    | some tg, some p =>
      let T := w.trieOf tg
      let cs : CState := if useCache == "1" then st.walk else { st.walk with cache := [] }
      -- a stale cached parent may have been pruned from the database: the traversal raises and nothing changes
      let miss := match Fog.Frontier.get cs.cache p with
        | some (parent, seg) => travReads w tg none parent seg
        | none => travReads w tg (some T.root) T.tree p
      match miss with
      | some e => (st, fmtExn e)
      | none =>
        match cstep T.tree cs p with
        | none => (st, "none")
        | some cs' =>
          let cs'' : CState := if useCache == "1" then cs' else { cs' with cache := st.walk.cache }
          let showF (f : Fog.Fog) := if f.isEmpty then "-" else ",".intercalate (f.map fun q => if q.isEmpty then "_" else pathStr q)
          let newMet := if cs'.met.length > cs.met.length then
              match cs'.met.head? with
              | some (k, v) => s!"{pathStr k}={toHex v}"
              | none => "-"
            else "-"
          ({ st with walk := cs'' }, s!"fog {showF cs'.fog} met {newMet}")
    | _, _ => bad
  | "proof", [tg, k] =>
    match parseTarget tg, ofHex k with
    | some tg, some k =>
      (st, joinOr ((getProof (w.trieOf tg).tree (nibs k)).map fun n => toHex (enc keccak n)) ",")
    | _, _ => bad
  | "next", [tg, k] =>
    match parseTarget tg with
    | some tg =>
      let t := (w.trieOf tg).tree
      let r := if k = "none" then some (nextKey t []) else (ofHex k).map fun k => keyAfter t (nibs k) []
      match r with
      | some (some p) => (st, s!"k {pathStr p}")
      | some none => (st, "None")
      | none => bad
    | none => bad
  | "items", [tg] =>
    match parseTarget tg with
    | some tg =>
      let its := (itemsOf (w.trieOf tg).tree).map fun e => s!"{pathStr e.1}={toHex e.2}"
      (st, joinOr its ";")
    | none => bad
  -- items() at raw level: nodes() over the database, filtered
  | "itemsd", [tg] =>
    match parseTarget tg with
    | some tg =>
      (st, match HexD.itemsOfD keccak w.base (w.trieOf tg).root 100000 with
        | .ok l => joinOr (l.map fun e => s!"{pathStr e.1}={toHex e.2}") ";"
        | .error (.missing h used) => s!"exn MissingTraversalNode {toHex h} {pathStr used}"
        | .error _ => "exn Invalid")
    | none => bad
  -- nodes() as the code computes it: the fog + frontier-cache loop
  | "nodesloop", [tg] =>
    match parseTarget tg with
    | some tg =>
      (st, joinOr ((nodesOf (w.trieOf tg).tree 100000).map fun e => s!"{pathStr e.1}={fmtAnn (annotate e.2)}") ";")
    | none => bad
  -- nodes() at raw level: the same loop over the database as it is now (root hash + encoded bodies, cache of raw bodies)
  | "nodesloopd", [tg] =>
    match parseTarget tg with
    | some tg =>
      let fmtD (a : HexD.AnnD) : String :=
        s!"{kindStr a.kind} subs={joinOr (a.subs.map pathStr) ","} value={toHex a.value} suffix={pathStr a.suffix} raw={toHex (rlp a.raw)}"
      (st, match HexD.nodesOfD keccak w.base (w.trieOf tg).root 100000 with
        | .ok l => joinOr (l.map fun e => s!"{pathStr e.1}={fmtD e.2}") ";"
        | .error (.missing h used) => s!"exn MissingTraversalNode {toHex h} {pathStr used}"
        | .error _ => "exn Invalid")
    | none => bad
  | "preorder", [tg] =>
    match parseTarget tg with
    | some tg =>
      (st, joinOr ((preorder (w.trieOf tg).tree []).map fun e => s!"{pathStr e.1}={fmtAnn (annotate e.2)}") ";")
    | none => bad
  -- Layer D: read a key at a root hash through the world's database of encoded nodes
  | "getat", [r, k] =>
    match ofHex r, ofHex k with
    | some r, some k =>
      (st, match HexD.getD keccak w.base r (nibs k) with
        | .ok v => s!"v {toHex v}"
        | .error (.missing h used) => s!"exn MissingTrieNode {toHex h} {toHex r} {toHex k} {pathStr used}"
        | .error .invalid => "exn Invalid"
        | .error .fuel => "exn Fuel")
    | _, _ => bad
  -- get_from_proof(root, key, nodes); nodes = comma separated rlp encodings (`-` = none)
  | "verify", [r, k, ns] =>
    match ofHex r, ofHex k with
    | some r, some k =>
      let toks := if ns = "-" then [] else ns.splitOn ","
      match toks.mapM (fun t => (ofHex t).bind HexD.rlpDecode) with
      | none => bad
      | some nodes =>
        (st, match HexD.getFromProof keccak r k nodes with
          | .value v => s!"v {toHex v}"
          | .badProof => "exn BadTrieProof"
          | .other => "exn Other")
    | _, _ => bad
  -- raw level: `set`/`delete` of a non-pruning trie on the current database, statement-by-statement
  -- transcription over raw nodes; prints the new root and the database entries added (state unchanged)
  -- a whole history at raw level, on its own root and database (independent of the world)
  -- the tree-free executor: root hash + database, raw-level `_set`/`_delete` produce the events, pruning bookkeeping applies them;
  -- `b` addresses the batch trie of the open `squash_changes` block
  | "fnew", [p] => ({ st with fw := HexFree.FWorld.init keccak (p == "1") }, "ok")
  | "fop", [tg, k, v] =>
    match ofHex k with
    | some k =>
      let val : Option (Option Bytes) := if v = "none" then some none else (ofHex v).map some
      match val with
      | none => bad
      | some val =>
        let (r, fw') := st.fw.setDel keccak (tg == "b") k val
        ({ st with fw := fw' }, match r with | .ok _ => "ok" | .error e => fmtExn e)
    | none => bad
  | "fbbegin", [] => if st.fw.batch.isSome then bad else ({ st with fw := st.fw.batchBegin }, "ok")
  | "fbend", [raised] =>
    let (r, fw') := st.fw.batchEnd (raised == "1")
    ({ st with fw := fw' }, match r with | .ok _ => "ok" | .error e => fmtExn e)
  | "ffailafter", [n] => ({ st with fw := { st.fw with failAfter := n.toNat? } }, "ok")
  | "froot", [tg] => (st, toHex (if tg == "b" then (st.fw.batch.map (·.trie.root)).getD [] else st.fw.outer.root))
  | "fdb", [] => (st, joinOr ((sortPairs st.fw.base).map fun e => s!"{toHex e.1}:{toHex e.2}") ",")
  | "fdbkeys", [] => (st, joinOr ((sortPairs st.fw.base).map fun e => toHex e.1) ",")
  | "fcounts", [tg] => (st, fmtCounts (if tg == "b" then (st.fw.batch.map (·.counts)).getD [] else st.fw.counts))
  | "fget", [tg, k] =>
    match ofHex k with
    | some k => (st, match st.fw.get keccak (tg == "b") k with | .ok v => s!"v {toHex v}" | .error e => fmtExn e)
    | none => bad
  | "fdrop", [h] =>
    match ofHex h with
    | some h => ({ st with fw := { st.fw with base := Dict.erase st.fw.base h } }, "ok")
    | none => bad
  | "fput", [h, b] =>
    match ofHex h, ofHex b with
    | some h, some b => ({ st with fw := { st.fw with base := Dict.insert st.fw.base h b } }, "ok")
    | _, _ => bad
  | "rrnew", [] => ({ st with rr := (blankRoot keccak, []) }, "ok")
  | "rrop", [k, v] =>
    match ofHex k with
    | some k =>
      let val : Option (Option Bytes) := if v = "none" then some none else (ofHex v).map some
      match val with
      | none => bad
      | some val =>
        match HexRaw.rawOp keccak st.rr.2 st.rr.1 k val with
        | .ok (newRoot, st') => ({ st with rr := (newRoot, st'.db) }, s!"root={toHex newRoot}")
        | .error (.missing h) => (st, s!"exn missing {toHex h}")
        | .error .invalid => (st, "exn invalid")
        | .error .fuel => (st, "exn fuel")
    | none => bad
  | "rrdb", [] =>
    let ded := st.rr.2.foldl (fun acc e => if acc.any (fun x => x.1 == e.1) then acc else acc ++ [e]) []
    (st, joinOr ((sortPairs ded).map fun e => s!"{toHex e.1}:{toHex e.2}") ",")
  | "rrget", [k] =>
    match ofHex k with
    | some k =>
      (st, match HexD.getD keccak st.rr.2 st.rr.1 (nibs k) with
        | .ok v => s!"v {toHex v}"
        | .error (.missing h used) => s!"exn missing {toHex h} {pathStr used}"
        | .error _ => "exn invalid")
    | none => bad
  | "rawop", [r, k, v] =>
    match ofHex r, ofHex k with
    | some r, some k =>
      let val : Option (Option Bytes) := if v = "none" then some none else (ofHex v).map some
      match val with
      | none => bad
      | some val =>
        -- `rawOpT`: the transcription that also returns the state when an exception leaves the call
        (st, match HexRawT.rawOpT keccak w.base r k val with
          | (st', .ok newRoot) =>
            let added := st'.db.filter (fun e => !(w.base.any (fun o => o.1 == e.1)))
            let ded := added.foldl (fun acc e => if acc.any (fun x => x.1 == e.1) then acc else acc ++ [e]) []
            s!"root={toHex newRoot} added={joinOr ((sortPairs ded).map fun e => s!"{toHex e.1}:{toHex e.2}") ","}"
          | (st', .error (.missing h)) =>
            -- what the failed call wrote before the exception (nothing, on the pinned code)
            let wrote := st'.db.length - w.base.length
            if wrote = 0 then s!"exn missing {toHex h}" else s!"exn missing {toHex h} after-writing {wrote}"
          | (_, .error .invalid) => "exn invalid"
          | (_, .error .fuel) => "exn fuel")
    | _, _ => bad
  -- raw level of the read path: traverse / get_proof over raw nodes read from the world's database
  | "travd", [r, p] =>
    match ofHex r, parsePath p with
    | some r, some p =>
      let fmtD (a : HexD.AnnD) : String :=
        s!"{kindStr a.kind} subs={joinOr (a.subs.map pathStr) ","} value={toHex a.value} suffix={pathStr a.suffix} raw={toHex (rlp a.raw)}"
      (st, match HexD.fetch keccak w.base (.str r) [] with
        | .error (.missing h used) => s!"exn MissingTraversalNode {toHex h} {pathStr used}"
        | .error _ => "exn Invalid"
        | .ok rootNode =>
          match HexD.traverseOutD keccak w.base (w.base.length + p.length + 2) rootNode p with
          | .ok (.node a) => s!"node {fmtD a}"
          | .ok (.partialPath tr a tail sim) =>
            s!"partial traversed={pathStr tr} tail={pathStr tail} node=[{fmtD a}] sim=[{match sim with | some x => fmtD x | none => "bug"}]"
          | .error (.missing h used) => s!"exn MissingTraversalNode {toHex h} {pathStr used}"
          | .error _ => "exn Invalid")
    | _, _ => bad
  -- raw level of `traverse_from(node, segment)`: the kept node (register) is turned into its raw item and its children are
  -- read from the database AS IT IS NOW (a stale parent of an older version over the current, possibly pruned, database)
  | "travfromd", [r, p] =>
    match r.toNat?, parsePath p with
    | some r, some p =>
      if r ≥ st.regs.size then bad else
      let fmtD (a : HexD.AnnD) : String :=
        s!"{kindStr a.kind} subs={joinOr (a.subs.map pathStr) ","} value={toHex a.value} suffix={pathStr a.suffix} raw={toHex (rlp a.raw)}"
      (st, match HexD.traverseOutD keccak w.base (w.base.length + p.length + 2) (toItem keccak st.regs[r]!) p with
        | .ok (.node a) => s!"node {fmtD a}"
        | .ok (.partialPath tr a tail sim) =>
          s!"partial traversed={pathStr tr} tail={pathStr tail} node=[{fmtD a}] sim=[{match sim with | some x => fmtD x | none => "bug"}]"
        | .error (.missing h used) => s!"exn MissingTraversalNode {toHex h} {pathStr used}"
        | .error _ => "exn Invalid")
    | _, _ => bad
  | "proofd", [r, k] =>
    match ofHex r, ofHex k with
    | some r, some k =>
      (st, match HexD.fetch keccak w.base (.str r) [] with
        | .error _ => "exn Missing"
        | .ok rootNode =>
          match HexD.getProofD keccak w.base (w.base.length + 2 * k.length + 2) rootNode (nibs k) with
          | .ok l => joinOr (l.map fun n => toHex (rlp n)) ","
          | .error _ => "exn Missing")
    | _, _ => bad
  -- raw level of NodeIterator.next: _get_key_after / _get_next_key over annotated raw nodes and the database
  | "nextd", [r, k] =>
    match ofHex r with
    | some r =>
      let key? : Option (Option Bytes) := if k = "none" then some none else (ofHex k).map some
      match key? with
      | none => bad
      | some key =>
        (st, match HexD.nextD keccak w.base r key with
          | .ok (some p) => s!"k {pathStr p}"
          | .ok none => "None"
          | .error _ => "exn")
    | none => bad
  | "rlpdec", [b] =>
    match ofHex b with
    | some b => (st, match HexD.rlpDecode b with | some it => toHex (rlp it) | none => "none")
    | none => bad
  | _, _ => bad

end PyTrie.HexDrv
