import PyTrie.Model.HexEnc
/-! Layer E of the hexary trie: `set` / `delete` instrumented with the database traffic the code
    performs, in the code's order. Hashing is a parameter so that structural facts (reference-count
    balance, reads-before-writes) are proved once for every hashing.

    * `get_node(ref)` on a hashed child            ↔ `Ev.read h`
    * `_prune_node(node)`                           ↔ `Ev.prune h`   (only when the node is hashed)
    * `_persist_node(node)` → `_set_db_value`       ↔ `Ev.persist h body` (only when hashed) -/
namespace PyTrie.Hex
open Node

inductive Ev where
  | read (h : Hash)
  | prune (h : Hash)
  | persist (h : Hash) (body : Bytes)
  deriving DecidableEq, Repr

structure Hashing where
  hashed : Node → Bool          -- rlp length ≥ 32 (never true for blank)
  hashOf : Node → Hash
  encOf  : Node → Bytes
  refEq  : Node → Node → Bool   -- equality of references as the code compares them
  hashed_blank : hashed Node.blank = false

variable (Hs : Hashing)

def readEv (n : Node) : List Ev := if Hs.hashed n then [Ev.read (Hs.hashOf n)] else []
def pruneEv (n : Node) : List Ev := if Hs.hashed n then [Ev.prune (Hs.hashOf n)] else []
def persistEv (n : Node) : List Ev := if Hs.hashed n then [Ev.persist (Hs.hashOf n) (Hs.encOf n)] else []

/-- `_set` : prune the visited node, then dispatch. Returns the new (unpersisted) node. -/
def setE : Node → Path → Bytes → Node × List Ev
  | blank, k, v => (leaf k v, [])
  | leaf p pv, k, v =>
    let self := leaf p pv
    let n := cpl p k
    match p.drop n, k.drop n with
    | [], [] => (leaf p v, pruneEv Hs self)
    | [], kh :: kt =>
      let sub := leaf kt v
      let br := branch (upd emptyCh kh sub) pv
      (wrap (p.take n) br, pruneEv Hs self ++ persistEv Hs sub ++ (if p.take n = [] then [] else persistEv Hs br))
    | ph :: pt, [] =>
      let old := leaf pt pv
      let br := branch (upd emptyCh ph old) v
      (wrap (p.take n) br, pruneEv Hs self ++ persistEv Hs old ++ (if p.take n = [] then [] else persistEv Hs br))
    | ph :: pt, kh :: kt =>
      let old := leaf pt pv
      let sub := leaf kt v
      let br := branch (upd (upd emptyCh ph old) kh sub) []
      (wrap (p.take n) br, pruneEv Hs self ++ persistEv Hs old ++ persistEv Hs sub ++
        (if p.take n = [] then [] else persistEv Hs br))
  | ext p c, k, v =>
    let self := ext p c
    let n := cpl p k
    match p.drop n, k.drop n with
    | [], kr =>
      let r := setE c kr v
      (ext p r.1, pruneEv Hs self ++ readEv Hs c ++ r.2 ++ persistEv Hs r.1)
    | ph :: pt, [] =>
      let old := wrap pt c
      let br := branch (upd emptyCh ph old) v
      (wrap (p.take n) br, pruneEv Hs self ++ (if pt = [] then [] else persistEv Hs old) ++
        (if p.take n = [] then [] else persistEv Hs br))
    | ph :: pt, kh :: kt =>
      let old := wrap pt c
      let sub := leaf kt v
      let br := branch (upd (upd emptyCh ph old) kh sub) []
      (wrap (p.take n) br, pruneEv Hs self ++ (if pt = [] then [] else persistEv Hs old) ++ persistEv Hs sub ++
        (if p.take n = [] then [] else persistEv Hs br))
  | branch ch bv, [], v => (branch ch v, pruneEv Hs (branch ch bv))
  | branch ch bv, n :: k, v =>
    let r := setE (ch n) k v
    (branch (upd ch n r.1) bv, pruneEv Hs (branch ch bv) ++ readEv Hs (ch n) ++ r.2 ++ persistEv Hs r.1)

/-- `_normalize_branch_node`: returns node and events (read of the single child, prune if merged) -/
def normalizeE (ch : Nib → Node) (v : Bytes) : Node × List Ev :=
  match liveIdx ch, v with
  | [], [] => (blank, [])
  | [], _ :: _ => (leaf [] v, [])
  | [i], [] =>
    match ch i with
    | leaf p lv => (leaf (i :: p) lv, readEv Hs (ch i) ++ pruneEv Hs (ch i))
    | ext p c => (ext (i :: p) c, readEv Hs (ch i) ++ pruneEv Hs (ch i))
    | _ => (ext [i] (ch i), readEv Hs (ch i))
  | _, _ => (branch ch v, [])

/-- `_delete` and helpers, with the two "reference unchanged" short-circuits -/
def deleteE : Node → Path → Node × List Ev
  | blank, _ => (blank, [])
  | leaf p v, k => (if k = p then blank else leaf p v, pruneEv Hs (leaf p v))
  | ext p c, k =>
    let self := ext p c
    if p <+: k then
      let r := deleteE c (k.drop p.length)
      let evs := pruneEv Hs self ++ readEv Hs c ++ r.2 ++ persistEv Hs r.1
      if Hs.refEq r.1 c then (self, evs)
      else match r.1 with
        | blank => (blank, evs)
        | leaf p' v' => (leaf (p ++ p') v', evs ++ pruneEv Hs r.1)
        | ext p' c' => (ext (p ++ p') c', evs ++ pruneEv Hs r.1)
        | branch ch v => (ext p (branch ch v), evs)
    else (self, pruneEv Hs self)
  | branch ch v, [] =>
    let r := normalizeE Hs ch []
    (r.1, pruneEv Hs (branch ch v) ++ r.2)
  | branch ch v, n :: k =>
    let self := branch ch v
    let r := deleteE (ch n) k
    let evs := pruneEv Hs self ++ readEv Hs (ch n) ++ r.2 ++ persistEv Hs r.1
    if Hs.refEq r.1 (ch n) then (self, evs)
    else if isBlank r.1 then
      let nr := normalizeE Hs (upd ch n r.1) v
      (nr.1, evs ++ nr.2)
    else (branch (upd ch n r.1) v, evs)

/-- the hashed nodes `_traverse_from` fetches, each with the nibbles consumed to reach it
    (`used_key` of `MissingTraversalNode`), in order; `pre` is what was consumed before `n` -/
def traverseReads : Node → Path → Path → List (Hash × Path)
  | _, [], _ => []
  | blank, _ :: _, _ => []
  | leaf _ _, _ :: _, _ => []
  | ext p c, k@(_ :: _), pre =>
    let n := cpl p k
    if p.drop n = [] then
      (if Hs.hashed c then [(Hs.hashOf c, pre ++ k.take n)] else []) ++ traverseReads c (k.drop n) (pre ++ k.take n)
    else []
  | branch ch _, a :: k, pre =>
    (if Hs.hashed (ch a) then [(Hs.hashOf (ch a), pre ++ [a])] else []) ++ traverseReads (ch a) k (pre ++ [a])

/-- the concrete hashing of py-trie: rlp + Keccak-256, embedded below 32 bytes -/
def keccakHashing : Hashing where
  hashed := isHashed keccak
  hashOf := hashOf keccak
  encOf := enc keccak
  refEq a b := refOf keccak a == refOf keccak b
  hashed_blank := by simp [isHashed, isBlank]

end PyTrie.Hex
