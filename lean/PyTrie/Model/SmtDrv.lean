import PyTrie.Model.Smt
import PyTrie.Model.SmtInt
import PyTrie.Model.Keccak
/-! Line-protocol front end for the sparse Merkle tree and its streamed proof (`smt.*`). -/
namespace PyTrie.SmtDrv
open PyTrie.Smt PyTrie.Bin

structure St where
  trees : Array Tree := #[]
  proofs : Array Proof := #[]
  pkeys : Array Bytes := #[]        -- the tracked keys as byte strings (for the integer arithmetic of `update`)

instance : Inhabited St := ⟨{}⟩

def joinOr (l : List String) (sep : String) : String := if l.isEmpty then "-" else sep.intercalate l

def hashes (l : List Hash) : String := joinOr (l.map toHex) ","

def parseHashes (s : String) : Option (List Hash) :=
  if s = "-" then some [] else (s.splitOn ",").mapM ofHex

/-- canonical view of a write log as a dict: last write per key wins, sorted by key -/
def dictOf (db : Db) : List (Hash × Bytes) :=
  let ded := db.foldl (fun acc e => if acc.any (fun x => x.1 == e.1) then acc else acc ++ [e]) []
  (ded.toArray.qsort (fun a b => toHex a.1 < toHex b.1)).toList

def step (st : St) (cmd : String) (args : List String) : St × String :=
  let bad := (st, "bad-op")
  let tree (s : String) : Option Tree := s.toNat?.bind fun i => st.trees[i]?
  match cmd, args with
  | "reset", [] => ({}, "ok")
  | "new", [ks, d] =>
    match ks.toNat?, ofHex d with
    | some ks, some d => ({ st with trees := st.trees.push (Smt.init keccak (8 * ks) d) }, toString st.trees.size)
    | _, _ => bad
  | "fromdb", [i, r] =>
    match tree i, ofHex r with
    | some t, some r => ({ st with trees := st.trees.push { t with root := r } }, toString st.trees.size)
    | _, _ => bad
  | "setroot", [i, r] =>   -- `tree.root_hash = r` on a live object (same database)
    match i.toNat?, ofHex r with
    | some n, some r =>
      match st.trees[n]? with
      | some t => ({ st with trees := st.trees.set! n { t with root := r } }, "ok")
      | none => bad
    | _, _ => bad
  | "set", [i, k, v] =>
    match i.toNat?, ofHex k, ofHex v with
    | some i, some k, some v =>
      match st.trees[i]? with
      | none => bad
      | some t =>
        match SmtInt.setI keccak t k v with
        | some (t', ups) => ({ st with trees := st.trees.set! i t' }, hashes ups)
        | none => (st, "exn KeyError")
    | _, _, _ => bad
  | "del", [i, k] =>
    match i.toNat?, ofHex k with
    | some i, some k =>
      match st.trees[i]? with
      | none => bad
      | some t =>
        match SmtInt.setI keccak t k t.default with
        | some (t', ups) => ({ st with trees := st.trees.set! i t' }, hashes ups)
        | none => (st, "exn KeyError")
    | _, _ => bad
  | "get", [i, k] =>
    match tree i, ofHex k with
    | some t, some k =>
      (st, match SmtInt.getI t.db t.root t.depth k with
        | some (v, _) => if v = [] then "exn KeyError" else s!"v {toHex v}"
        | none => "exn KeyError")
    | _, _ => bad
  | "branch", [i, k] =>
    match tree i, ofHex k with
    | some t, some k =>
      (st, match SmtInt.getI t.db t.root t.depth k with
        | some (v, br) => if v = [] then "exn KeyError" else hashes br
        | none => "exn KeyError")
    | _, _ => bad
  | "exists", [i, k] =>
    match tree i, ofHex k with
    | some t, some k => (st, if Smt.exists_ t (toBits k) then "True" else "False")
    | _, _ => bad
  | "root", [i] => match tree i with | some t => (st, toHex t.root) | none => bad
  | "db", [i] =>
    match tree i with
    | some t => (st, joinOr ((dictOf t.db).map fun e => s!"{toHex e.1}:{toHex e.2}") ",")
    | none => bad
  | "dbsize", [i] => match tree i with | some t => (st, toString (dictOf t.db).length) | none => bad
  | "calcroot", [k, v, br] =>
    match ofHex k, ofHex v, parseHashes br with
    | some k, some v, some br =>
      if br.length ≠ 8 * k.length then (st, "exn ValidationError") else (st, toHex (SmtInt.calcRootI keccak k v br))
    | _, _, _ => bad
  | "proof", [k, v, br] =>
    match ofHex k, ofHex v, parseHashes br with
    | some k, some v, some br =>
      if br.length ≠ 8 * k.length then (st, "exn ValidationError")
      else ({ st with proofs := st.proofs.push { key := toBits k, value := v, branch := br },
                       pkeys := st.pkeys.push k }, toString st.proofs.size)
    | _, _, _ => bad
  | "pupdate", [i, k, v, ups] =>
    match i.toNat?, ofHex k, ofHex v, parseHashes ups with
    | some i, some k, some v, some ups =>
      match st.proofs[i]? with
      | none => bad
      | some p =>
        if 8 * k.length ≠ p.key.length then (st, "exn ValidationError")
        else match SmtInt.updateI (st.pkeys[i]!) p k v ups with
          | .ok p' => ({ st with proofs := st.proofs.set! i p' }, "ok")
          | .error _ => (st, "exn ValidationError")
    | _, _, _, _ => bad
  | "pshow", [i] =>
    match i.toNat?.bind (fun i => st.proofs[i]?) with
    | some p =>
      let k0 := st.pkeys[i.toNat?.getD 0]!
      (st, s!"{toHex p.value};{hashes p.branch};{toHex (SmtInt.calcRootI keccak k0 p.value p.branch)}")
    | none => bad
  | _, _ => bad

end PyTrie.SmtDrv
