import PyTrie.Model.BinEnc
/-! `trie/smt.py` transcribed at database level. The database is a *write log*, newest first
    (`lookup` = first match = a dict under overwrite). Keys enter as bit lists, most significant bit
    first (`Bin.toBits key`), which is the root → leaf order; `to_int(key) & (1 << i)` of the code is
    the `(depth-1-i)`-th element of that list.

    Python ↔ model
    * `SparseMerkleTree.__init__`                 ↔ `init`
    * `_get`, `get`, `branch`, `exists`           ↔ `getAux`, `get`, `branch`, `exists`
    * `set`, `delete`                             ↔ `set`, `delete`
    * `calc_root`                                 ↔ `calcRoot`
    * `SparseMerkleProof.__init__/update/root_hash` ↔ `Proof`, `Proof.update`, `Proof.rootHash` -/
namespace PyTrie.Smt
open PyTrie.Bin (Bits)

abbrev Db := List (Hash × Bytes)

def lookup (db : Db) (h : Hash) : Option Bytes := (db.find? (fun e => e.1 == h)).map (·.2)

variable (H : Bytes → Bytes)

structure Tree where
  db : Db
  root : Hash
  depth : Nat
  default : Bytes

/-- the constructor's loop: `depth` levels of `node = hash + hash`, then the root -/
def initLoop : Nat → Bytes → Db → Bytes × Db
  | 0, node, db => (node, db)
  | n + 1, node, db => initLoop n (H node ++ H node) ((H node, node) :: db)

def init (depth : Nat) (default : Bytes) : Tree :=
  let r := initLoop H depth default []
  { db := (H r.1, r.1) :: r.2, root := H r.1, depth := depth, default := default }

/-- `_get`: value and sibling list (root → leaf); `none` = `KeyError` from the database -/
def getAux (db : Db) : Hash → Bits → Option (Bytes × List Hash)
  | h, [] => (lookup db h).map (fun v => (v, []))
  | h, b :: bs =>
    match lookup db h with
    | none => none
    | some node =>
      let l := node.take 32
      let r := node.drop 32
      if b then (getAux db r bs).map (fun x => (x.1, l :: x.2))
      else (getAux db l bs).map (fun x => (x.1, r :: x.2))

inductive Err | keyError | validation
  deriving DecidableEq, Repr

/-- `get`: a blank value reads as absent -/
def get (t : Tree) (key : Bits) : Except Err Bytes :=
  match getAux t.db t.root key with
  | none => .error .keyError
  | some (v, _) => if v = [] then .error .keyError else .ok v

def branch (t : Tree) (key : Bits) : Except Err (List Hash) :=
  match getAux t.db t.root key with
  | none => .error .keyError
  | some (v, br) => if v = [] then .error .keyError else .ok br

/-- `exists` swallows the `KeyError` of `get` -/
def exists_ (t : Tree) (key : Bits) : Bool :=
  match get t key with
  | .ok _ => true
  | .error _ => false

/-- the rebuild loop of `set`, written root → leaf: the node body at this level, the writes in the
    order the code performs them (deepest first), and the update hashes in root → leaf order -/
def setAux : Bits → List Hash → Bytes → Bytes × List (Hash × Bytes) × List Hash
  | b :: bs, s :: ss, value =>
    let r := setAux bs ss value
    let ch := H r.1
    (if b then s ++ ch else ch ++ s, r.2.1 ++ [(ch, r.1)], ch :: r.2.2)
  | _, _, value => (value, [], [])

/-- `set(key, value)`: new tree and the returned node hashes (root → leaf); `none` = `KeyError` of `_get` -/
def set (t : Tree) (key : Bits) (value : Bytes) : Option (Tree × List Hash) :=
  match getAux t.db t.root key with
  | none => none
  | some (_, br) =>
    let r := setAux H key br value
    let db' := (H r.1, r.1) :: (r.2.1.reverse ++ t.db)
    some ({ t with db := db', root := H r.1 }, r.2.2)

def delete (t : Tree) (key : Bits) : Option (Tree × List Hash) := set H t key t.default

/-- `calc_root(key, value, branch)` after its validation: fold from the leaf upwards -/
def calcRoot : Bits → Bytes → List Hash → Hash
  | b :: bs, value, s :: ss =>
    let ch := calcRoot bs value ss
    if b then H (s ++ ch) else H (ch ++ s)
  | _, value, _ => H value

/-- `SparseMerkleProof` -/
structure Proof where
  key : Bits
  value : Bytes
  branch : List Hash

def Proof.rootHash (p : Proof) : Hash := calcRoot H p.key p.value p.branch

/-- index of the first position where two bit strings differ -/
def firstDiff : Bits → Bits → Option Nat
  | a :: as, b :: bs => if a = b then (firstDiff as bs).map (· + 1) else some 0
  | _, _ => none

/-- `update(key, value, node_updates)` after the key validation -/
def Proof.update (p : Proof) (key : Bits) (value : Bytes) (updates : List Hash) : Except Err Proof :=
  match firstDiff p.key key with
  | none => .ok { p with value := value }
  | some i =>
    if updates.length ≤ i then .error .validation
    else .ok { p with branch := p.branch.set i (updates.getD i []) }

end PyTrie.Smt
