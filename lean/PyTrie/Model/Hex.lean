import PyTrie.Model.Basic
/-! Layer T of the hexary trie: the algorithms of `trie/hexary.py`, case for case, over an
    inductive tree whose children are subtrees instead of database references.

    Python ↔ model
    * `_set`, `_set_kv_node`, `_set_branch_node`            ↔ `set`
    * `_delete`, `_delete_kv_node`, `_delete_branch_node`   ↔ `delete`
    * `_normalize_branch_node`                              ↔ `normalize`
    * `_traverse_from`, `_traverse_extension`               ↔ `traverseT`
    * `_get` (after fix D1) / `_get` as pinned              ↔ `getT` / `getPinned`
    * `_get_proof`                                          ↔ `getProof`
    `get` is the *specification* lookup ("contents of a tree"); `getT` is the code-shaped one. -/
namespace PyTrie.Hex

abbrev Nib := Fin 16
abbrev Path := List Nib

inductive Node where
  | blank : Node
  | leaf (p : Path) (v : Bytes) : Node
  | ext (p : Path) (c : Node) : Node
  | branch (ch : Nib → Node) (v : Bytes) : Node

open Node

instance : Inhabited Node := ⟨blank⟩

/-- length of the common prefix (`get_common_prefix_length`) -/
def cpl : Path → Path → Nat
  | a :: as, b :: bs => if a = b then cpl as bs + 1 else 0
  | _, _ => 0

def emptyCh : Nib → Node := fun _ => blank

def upd (ch : Nib → Node) (i : Nib) (n : Node) : Nib → Node := fun j => if j = i then n else ch j

def isBlank : Node → Bool
  | blank => true
  | _ => false

def isBranch : Node → Bool
  | branch _ _ => true
  | _ => false

/-- specification lookup: the value stored under a nibble path -/
def get : Node → Path → Bytes
  | blank, _ => []
  | leaf p v, k => if k = p then v else []
  | ext p c, k => if p <+: k then get c (k.drop p.length) else []
  | branch _ v, [] => v
  | branch ch _, n :: k => get (ch n) k

/-- `[compute_extension_key(common_prefix), new_node]` when there is a common prefix -/
def wrap (common : Path) (new : Node) : Node := if common = [] then new else ext common new

/-- `_set` and its helpers -/
def set : Node → Path → Bytes → Node
  | blank, k, v => leaf k v
  | leaf p pv, k, v =>
    let n := cpl p k
    match p.drop n, k.drop n with
    | [], [] => leaf p v
    | [], kh :: kt => wrap (p.take n) (branch (upd emptyCh kh (leaf kt v)) pv)
    | ph :: pt, [] => wrap (p.take n) (branch (upd emptyCh ph (leaf pt pv)) v)
    | ph :: pt, kh :: kt => wrap (p.take n) (branch (upd (upd emptyCh ph (leaf pt pv)) kh (leaf kt v)) [])
  | ext p c, k, v =>
    let n := cpl p k
    match p.drop n, k.drop n with
    | [], kr => ext p (set c kr v)
    | ph :: pt, [] => wrap (p.take n) (branch (upd emptyCh ph (wrap pt c)) v)
    | ph :: pt, kh :: kt => wrap (p.take n) (branch (upd (upd emptyCh ph (wrap pt c)) kh (leaf kt v)) [])
  | branch ch _ , [], v => branch ch v
  | branch ch bv, n :: k, v => branch (upd ch n (set (ch n) k v)) bv

/-- indices of non-blank children, ascending -/
def liveIdx (ch : Nib → Node) : List Nib := (List.finRange 16).filter (fun i => !(isBlank (ch i)))

/-- `_normalize_branch_node` -/
def normalize (ch : Nib → Node) (v : Bytes) : Node :=
  match liveIdx ch, v with
  | [], [] => blank   -- unreachable for canonical input (the code would raise StopIteration)
  | [], _ :: _ => leaf [] v
  | [i], [] =>
    match ch i with
    | leaf p lv => leaf (i :: p) lv
    | ext p c => ext (i :: p) c
    | _ => ext [i] (ch i)
  | _, _ => branch ch v

/-- `_delete` and its helpers -/
def delete : Node → Path → Node
  | blank, _ => blank
  | leaf p v, k => if k = p then blank else leaf p v
  | ext p c, k =>
    if p <+: k then
      match delete c (k.drop p.length) with
      | blank => blank
      | leaf p' v' => leaf (p ++ p') v'
      | ext p' c' => ext (p ++ p') c'
      | branch ch v => ext p (branch ch v)
    else ext p c
  | branch ch _, [] => normalize ch []
  | branch ch v, n :: k =>
    let c' := delete (ch n) k
    if isBlank c' then normalize (upd ch n c') v else branch (upd ch n c') v

/-- result of `_traverse_from`: deepest node reached and unconsumed key -/
def traverseT : Node → Path → Node × Path
  | n, [] => (n, [])                                  -- `while remaining_key:` not entered
  | blank, _ :: _ => (blank, [])
  | leaf p v, k@(_ :: _) => if k <+: p then (leaf p v, k) else (blank, [])
  | ext p c, k@(_ :: _) =>
    let n := cpl p k
    if p.drop n = [] then traverseT c (k.drop n)      -- full extension consumed
    else if k.drop n = [] then (ext p c, k)           -- `_PartialTraversal`
    else (blank, [])                                  -- diverged
  | branch ch _, a :: k => traverseT (ch a) k

inductive GetErr | extensionWithRemainingKey | branchWithRemainingKey
  deriving DecidableEq, Repr

/-- `_get` as on the pinned tree (defect D1): kept for the machine-checked witness -/
def getPinned (t : Node) (k : Path) : Except GetErr Bytes :=
  match traverseT t k with
  | (blank, _) => .ok []
  | (leaf p v, r) => .ok (if r = p then v else [])
  | (ext _ _, r) => if r ≠ [] then .error .extensionWithRemainingKey else .ok []
  | (branch _ v, r) => if r ≠ [] then .error .branchWithRemainingKey else .ok v

/-- `_get` after the repair; the branch case still raises when a key remains (unreachable) -/
def getT (t : Node) (k : Path) : Except GetErr Bytes :=
  match traverseT t k with
  | (blank, _) => .ok []
  | (leaf p v, r) => .ok (if r = p then v else [])
  | (ext _ _, _) => .ok []
  | (branch _ v, r) => if r ≠ [] then .error .branchWithRemainingKey else .ok v

/-- `_get_proof`: the nodes visited on the way to the key (embedded nodes included) -/
def getProof : Node → Path → List Node
  | blank, _ => []
  | leaf p v, _ => [leaf p v]
  | ext p c, k => if p <+: k then ext p c :: getProof c (k.drop p.length) else [ext p c]
  | branch ch v, [] => [branch ch v]
  | branch ch v, a :: k => branch ch v :: getProof (ch a) k

/-- `bytes_to_nibbles` into a path -/
def nibs : Bytes → Path
  | [] => []
  | b :: bs => Fin.ofNat 16 (b.toNat / 16) :: Fin.ofNat 16 (b.toNat % 16) :: nibs bs

end PyTrie.Hex
