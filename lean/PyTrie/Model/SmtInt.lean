import PyTrie.Model.Smt
import PyTrie.Model.HexDb
/-! `trie/smt.py` with its **integer bit arithmetic** as written: `path = to_int(key)`,
    `target_bit = 1 << (depth - 1)` … `target_bit >>= 1` in `_get`, `target_bit = 1` … `target_bit <<= 1` over
    `reversed(branch)` in `set` and `calc_root`, `path_diff = to_int(self.key) ^ to_int(key)` and the scan
    `for bit in reversed(range(size))` in `SparseMerkleProof.update`. `Model/Smt.lean` uses bit lists
    (`toBits key`, most significant first); `Lemmas/SmtIntProofs.lean` proves the two agree, so the theorems of
    C14 / C15 are theorems about the arithmetic the code performs. -/
namespace PyTrie.SmtInt
open PyTrie.Smt

/-- `to_int(key)`: big-endian -/
def toInt (key : Bytes) : Nat := HexD.beToNat key

/-- `path & (1 << i) != 0` -/
def bit (path i : Nat) : Bool := path.testBit i

/-- `_get`'s loop: `n` = iterations left, the current target bit is `1 << (n - 1)`; `acc` = branch so far -/
def getLoop (db : Db) : Nat → Hash → Nat → List Hash → Option (Bytes × List Hash)
  | 0, h, _, acc => (lookup db h).map (fun v => (v, acc))
  | n + 1, h, path, acc =>
    match lookup db h with
    | none => none
    | some node =>
      if bit path n then getLoop db n (node.drop 32) path (acc ++ [node.take 32])
      else getLoop db n (node.take 32) path (acc ++ [node.drop 32])

/-- `_get(key)` for a tree of depth `depth` -/
def getI (db : Db) (root : Hash) (depth : Nat) (key : Bytes) : Option (Bytes × List Hash) :=
  getLoop db depth root (toInt key) []

variable (H : Bytes → Bytes)

/-- `set`'s loop over `reversed(branch)`: `i` = index of the current target bit (`target_bit = 1 << i`);
    returns the final node body, the writes in order (oldest first) and `proof_update` (leaf first) -/
def setLoop : List Hash → Nat → Nat → Bytes → List (Hash × Bytes) → List Hash → Bytes × List (Hash × Bytes) × List Hash
  | [], _, _, node, ws, ups => (node, ws, ups)
  | sib :: rest, i, path, node, ws, ups =>
    let nh := H node
    let node' := if bit path i then sib ++ nh else nh ++ sib
    setLoop rest (i + 1) path node' (ws ++ [(nh, node)]) (ups ++ [nh])

/-- `set(key, value)`; `none` = `KeyError` of `_get` -/
def setI (t : Tree) (key : Bytes) (value : Bytes) : Option (Tree × List Hash) :=
  match getI t.db t.root t.depth key with
  | none => none
  | some (_, br) =>
    let r := setLoop H br.reverse 0 (toInt key) value [] []
    some ({ t with db := (H r.1, r.1) :: (r.2.1.reverse ++ t.db), root := H r.1 }, r.2.2.reverse)

/-- `calc_root`'s loop over `reversed(branch)` -/
def calcLoop : List Hash → Nat → Nat → Hash → Hash
  | [], _, _, nh => nh
  | sib :: rest, i, path, nh => calcLoop rest (i + 1) path (if bit path i then H (sib ++ nh) else H (nh ++ sib))

def calcRootI (key : Bytes) (value : Bytes) (branch : List Hash) : Hash :=
  calcLoop H branch.reverse 0 (toInt key) (H value)

/-- the scan of `SparseMerkleProof.update`: the highest `bit < size` with `path_diff & (1 << bit) > 0`,
    turned into `branch_point = (size - 1) - bit`; `none` when the loop finds nothing -/
def scan (diff : Nat) : Nat → Nat → Option Nat
  | 0, _ => none
  | b + 1, size => if bit diff b then some (size - 1 - b) else scan diff b size

def branchPoint (size : Nat) (k0 k : Bytes) : Option Nat := scan (toInt k0 ^^^ toInt k) size size

/-- `SparseMerkleProof.update(key, value, node_updates)` after the key validation, on byte-string keys -/
def updateI (k0 : Bytes) (p : Proof) (key : Bytes) (value : Bytes) (updates : List Hash) : Except Err Proof :=
  if toInt k0 ^^^ toInt key = 0 then .ok { p with value := value }
  else match branchPoint p.branch.length k0 key with
    | none => .error .validation          -- unreachable for keys of the right size (UnboundLocalError in the code)
    | some i => if updates.length ≤ i then .error .validation
                else .ok { p with branch := p.branch.set i (updates.getD i []) }

end PyTrie.SmtInt
