import PyTrie.Model.HexWorld
import PyTrie.Model.HexRawT
/-! **The tree-free executor.** `Model/HexWorld.lean` carries the tree of every trie along and lets the tree-level effect
    functions (`setE` / `deleteE`) produce the event list of an operation. The Python has no tree: it has a root hash and
    a database. Here `HexaryTrie.set` / `delete` with `_prune_on_success`, `_prune_node`, `_set_db_value`, `_set_root_node`
    and `_complete_pruning` **as the code runs them**: the raw-level `_set` / `_delete` (`Model/HexRawT.lean`, over raw
    nodes fetched from the database) produce the node to store and the event list; the bookkeeping of `Model/HexWorld.lean`
    (`runEvs`, `setDbValue`, `completePruning`) applies them. The state of a trie is its root hash and its `prune` flag —
    nothing else. `Lemmas/FreeExec.lean`: on a complete database this executor and the tree-carrying one compute the
    same thing, so every theorem about the latter (C01, C04, C06 …) is a theorem about this one. Plain (unbatched) stores. -/
namespace PyTrie.HexFree
open PyTrie.Hex PyTrie.HexD PyTrie.HexW PyTrie.HexRaw PyTrie.HexRawT

structure Free where
  root : Hash
  prune : Bool
  deriving Inhabited

variable (H : Bytes → Bytes)

/-- `_set_root_node`, first half, from the fetched root node: a short old root is scheduled for pruning here -/
def schedOldRootF (F : Free) (rootNode : Item) (s : OpSt) : OpSt :=
  if F.prune && F.root != blankRoot H && s.store.contains F.root && !(decide ((rlp rootNode).length ≥ 32))
  then { s with pending := s.pending.inc F.root } else s

/-- `_set_root_node`, second half: `self.root_hash = self._set_raw_node(root_node)` -/
def writeRootF (F : Free) (new : Item) (s : OpSt) : Except Exn (OpSt × Hash) :=
  match new with
  | .str [] => .ok (s, blankRoot H)
  | _ =>
    match setDbValue F.prune s (H (rlp new)) (rlp new) with
    | .ok s' => .ok (s', H (rlp new))
    | .error x => .error x

/-- the events of the body of an operation: everything the raw-level `_set` / `_delete` recorded -/
def bodyT (db : Db) (rootNode : Item) (key : Bytes) (val : Option Bytes) : St × Except Err Item :=
  let st1 : St := { db := db, evs := [] }
  let fuel := 2 * (nibs key).length + 4
  match val with
  | some v => if v = [] then rawDeleteT H fuel st1 rootNode (nibs key) else rawSetT H fuel st1 rootNode (nibs key) v
  | none => rawDeleteT H fuel st1 rootNode (nibs key)

/-- body of `set` / `delete` inside `_prune_on_success` -/
def freeCore (F : Free) (key : Bytes) (val : Option Bytes) (s : OpSt) : OpSt × Except Exn Free :=
  -- root_node = self.get_node(self.root_hash)
  match getNodeT H { db := s.store.base, evs := [] } (.str F.root) with
  | (_, .error (.missing h)) => (s, .error (.missingTrieNode h F.root key none))
  | (_, .error _) => (s, .error (.validation "undecodable-node"))
  | (_, .ok rootNode) =>
    let r := bodyT H s.store.base rootNode key val
    match runEvs F.prune F.root key s r.1.evs with
    | (s1, some x) => (s1, .error x)
    | (s1, none) =>
      match r.2 with
      | .error (.missing h) => (s1, .error (.missingTrieNode h F.root key none))
      | .error _ => (s1, .error (.validation "undecodable-node"))
      | .ok newRoot =>
        match writeRootF H F newRoot (schedOldRootF H F rootNode s1) with
        | .error x => (schedOldRootF H F rootNode s1, .error x)
        | .ok (s3, newRootHash) =>
          match (if F.prune then completePruning s3 s3.pending else (s3, none)) with
          | (s4, some x) => (s4, .error x)
          | (s4, none) => (s4, .ok { F with root := newRootHash })

/-- `set` / `delete` with `_prune_on_success`: the pending keys start empty and are dropped on every exit -/
def freeSetDel (F : Free) (key : Bytes) (val : Option Bytes) (s0 : OpSt) : OpSt × Except Exn Free :=
  let r := freeCore H F key val { s0 with pending := [] }
  ({ r.1 with pending := [] }, r.2)

/-- `get`: the raw-level reader over the database -/
def freeGet (F : Free) (key : Bytes) (s : OpSt) : Except Exn Bytes :=
  match getD H s.store.base F.root (nibs key) with
  | .ok v => .ok v
  | .error (.missing h used) => .error (.missingTrieNode h F.root key (some used))
  | .error _ => .error .getErr

/-- a history on a fresh trie over an empty plain dict; stops at the first operation that raises -/
def freeRun (prune : Bool) : List (Bytes × Option Bytes) → Free × OpSt → Except Exn (Free × OpSt)
  | [], st => .ok st
  | (k, v) :: rest, (F, s) =>
    match freeSetDel H F k v s with
    | (s', .ok F') => freeRun prune rest (F', s')
    | (_, .error e) => .error e

end PyTrie.HexFree
