import PyTrie.Model.HexWorld
import PyTrie.Model.HexRawT
/-! **The tree-free executor.** `Model/HexWorld.lean` carries the tree of every trie along and lets the tree-level effect
    functions (`setE` / `deleteE`) produce the event list of an operation. The Python has no tree: it has a root hash and
    a database. Here `HexaryTrie.set` / `delete` with `_prune_on_success`, `_prune_node`, `_set_db_value`, `_set_root_node`
    and `_complete_pruning` **as the code runs them**: the raw-level `_set` / `_delete` (`Model/HexRawT.lean`, over raw
    nodes fetched from the database) produce the node to store and the event list; the bookkeeping of `Model/HexWorld.lean`
    (`runEvs`, `setDbValue`, `completePruning`) applies them. The state of a trie is its root hash and its `prune` flag —
    nothing else. `Lemmas/FreeExec.lean`: on a complete database this executor and the tree-carrying one compute the
    same thing, so every theorem about the latter (C01, C04, C06 …) is a theorem about this one. The database object is a
    plain dict or a `ScratchDB` in front of one (`storeDb`); `FWorld` adds `squash_changes` (one outer trie). -/
namespace PyTrie.HexFree
open PyTrie.Hex PyTrie.HexD PyTrie.HexW PyTrie.HexRaw PyTrie.HexRawT

structure Free where
  root : Hash
  prune : Bool
  deriving Inhabited

variable (H : Bytes → Bytes)

/-- what the trie can read through its database object: the plain dict, or — for a `ScratchDB` — the buffered writes in
    front of the wrapped dict (a buffered *delete* reads through to the wrapped dict: `ScratchDB.__getitem__`) -/
def storeDb (st : Store) : Db :=
  match st.cache with
  | none => st.base
  | some c => (c.filterMap fun e => e.2.map fun v => (e.1, v)) ++ st.base

/-- `_set_root_node`, first half, from the fetched root node: a short old root is scheduled for pruning here -/
def schedOldRootF (F : Free) (rootNode : Item) (s : OpSt) : OpSt :=
  if F.prune && F.root != blankRoot H && s.store.contains F.root && !(decide ((rlp rootNode).length ≥ 32))
  then { s with pending := s.pending.inc F.root } else s

/-- `_set_root_node`, second half: `self.root_hash = self._set_raw_node(root_node)` -/
def writeRootF (F : Free) (new : Item) (s : OpSt) : Except Exn (OpSt × Hash) :=
  match new with
  | .str [] => .ok (s, blankRoot H)
  | _ =>
    match setDbValue F.prune s (H (rlp new)) (rlp new) with
    | .ok s' => .ok (s', H (rlp new))
    | .error x => .error x

/-- the events of the body of an operation: everything the raw-level `_set` / `_delete` recorded -/
def bodyT (db : Db) (rootNode : Item) (key : Bytes) (val : Option Bytes) : St × Except Err Item :=
  let st1 : St := { db := db, evs := [] }
  let fuel := 2 * (nibs key).length + 4
  match val with
  | some v => if v = [] then rawDeleteT H fuel st1 rootNode (nibs key) else rawSetT H fuel st1 rootNode (nibs key) v
  | none => rawDeleteT H fuel st1 rootNode (nibs key)

/-- body of `set` / `delete` inside `_prune_on_success` -/
def freeCore (F : Free) (key : Bytes) (val : Option Bytes) (s : OpSt) : OpSt × Except Exn Free :=
  -- root_node = self.get_node(self.root_hash)
  match getNodeT H { db := storeDb s.store, evs := [] } (.str F.root) with
  | (_, .error (.missing h)) => (s, .error (.missingTrieNode h F.root key none))
  | (_, .error _) => (s, .error (.validation "undecodable-node"))
  | (_, .ok rootNode) =>
    let r := bodyT H (storeDb s.store) rootNode key val
    match runEvs F.prune F.root key s r.1.evs with
    | (s1, some x) => (s1, .error x)
    | (s1, none) =>
      match r.2 with
      | .error (.missing h) => (s1, .error (.missingTrieNode h F.root key none))
      | .error _ => (s1, .error (.validation "undecodable-node"))
      | .ok newRoot =>
        match writeRootF H F newRoot (schedOldRootF H F rootNode s1) with
        | .error x => (schedOldRootF H F rootNode s1, .error x)
        | .ok (s3, newRootHash) =>
          match (if F.prune then completePruning s3 s3.pending else (s3, none)) with
          | (s4, some x) => (s4, .error x)
          | (s4, none) => (s4, .ok { F with root := newRootHash })

/-- `set` / `delete` with `_prune_on_success`: the pending keys start empty and are dropped on every exit -/
def freeSetDel (F : Free) (key : Bytes) (val : Option Bytes) (s0 : OpSt) : OpSt × Except Exn Free :=
  let r := freeCore H F key val { s0 with pending := [] }
  ({ r.1 with pending := [] }, r.2)

/-- `get`: the raw-level reader over the database -/
def freeGet (F : Free) (key : Bytes) (s : OpSt) : Except Exn Bytes :=
  match getD H (storeDb s.store) F.root (nibs key) with
  | .ok v => .ok v
  | .error (.missing h used) => .error (.missingTrieNode h F.root key (some used))
  | .error _ => .error .getErr

/-- a history on a fresh trie over an empty plain dict; stops at the first operation that raises -/
def freeRun (prune : Bool) : List (Bytes × Option Bytes) → Free × OpSt → Except Exn (Free × OpSt)
  | [], st => .ok st
  | (k, v) :: rest, (F, s) =>
    match freeSetDel H F k v s with
    | (s', .ok F') => freeRun prune rest (F', s')
    | (_, .error e) => .error e

/-! ### `squash_changes` without trees: one outer trie over a plain dict, at most one open block -/

structure FBatch where
  cache : Dict (Option Bytes)
  trie : Free
  counts : Counts

structure FWorld where
  base : Dict Bytes := []
  failAfter : Option Nat := none
  outer : Free := ⟨[], false⟩
  counts : Counts := []
  batch : Option FBatch := none

def FWorld.init (prune : Bool) : FWorld := { outer := ⟨blankRoot H, prune⟩ }

def FWorld.opSt (w : FWorld) : OpSt :=
  { store := { base := w.base, cache := none, failAfter := w.failAfter }, counts := w.counts, pending := [] }

def FWorld.batchOpSt (w : FWorld) (b : FBatch) : OpSt :=
  { store := { base := w.base, cache := some b.cache, failAfter := w.failAfter }, counts := b.counts, pending := [] }

/-- `set` / `delete` on the outer trie (`inBatch = false`) or on the batch trie of the open block -/
def FWorld.setDel (w : FWorld) (inBatch : Bool) (key : Bytes) (val : Option Bytes) : Except Exn Unit × FWorld :=
  if !inBatch then
    let (st', r) := freeSetDel H w.outer key val w.opSt
    let w' : FWorld := { w with base := st'.store.base, failAfter := st'.store.failAfter, counts := st'.counts }
    match r with
    | .ok F' => (.ok (), { w' with outer := F' })
    | .error e => (.error e, w')
  else
    match w.batch with
    | none => (.error (.validation "no-batch"), w)
    | some b =>
      let (st', r) := freeSetDel H b.trie key val (w.batchOpSt b)
      let b' : FBatch := { b with cache := st'.store.cache.getD [], counts := st'.counts }
      let w' : FWorld := { w with base := st'.store.base, failAfter := st'.store.failAfter }
      match r with
      | .ok F' => (.ok (), { w' with batch := some { b' with trie := F' } })
      | .error e => (.error e, { w' with batch := some b' })

def FWorld.get (w : FWorld) (inBatch : Bool) (key : Bytes) : Except Exn Bytes :=
  if !inBatch then freeGet H w.outer key w.opSt
  else match w.batch with
    | none => .error (.validation "no-batch")
    | some b => freeGet H b.trie key (w.batchOpSt b)

/-- `with trie.squash_changes() as batch:` -/
def FWorld.batchBegin (w : FWorld) : FWorld :=
  { w with batch := some { cache := [], trie := { w.outer with prune := true },
                           counts := if w.outer.prune then w.counts else [] } }

/-- leaving the block: `raised = true` when the body raised (nothing is committed) -/
def FWorld.batchEnd (w : FWorld) (raised : Bool) : Except Exn Unit × FWorld :=
  match w.batch with
  | none => (.error (.validation "no-batch"), w)
  | some b =>
    if raised then (.ok (), { w with batch := none })
    else
      let (ok, base', fa') := commitLoop w.outer.prune b.cache w.base w.failAfter
      if ok then
        (.ok (), { w with base := base', failAfter := fa', batch := none,
                          outer := { w.outer with root := b.trie.root },
                          counts := if w.outer.prune then b.counts else w.counts })
      else (.error .writeFailed, { w with base := base', failAfter := fa', batch := none })

end PyTrie.HexFree
