import PyTrie.Model.HexEnc
/-! Layer D of the hexary trie: functions that really read *encoded* nodes through a database of
    `hash ↦ rlp bytes`, as `get_node` / `_traverse_from` / `_get` / `get_from_proof` do. Needed wherever
    the database is not the honest one: forged proofs (C03), missing nodes (C07), historical roots read
    by a fresh trie (C04).

    Python ↔ model
    * `rlp.decode` (strict, canonical encodings)                       ↔ `rlpDecode`
    * `decode_nibbles` + `remove_nibbles_terminator` + flag            ↔ `hpDecode`
    * `get_node_type` / `extract_key` on a raw node                    ↔ `classify`
    * `get_node`                                                       ↔ `getNode`
    * `_traverse_from`, `_traverse_extension`                          ↔ `traverseD`
    * `_traverse` + `_get`                                             ↔ `getD`
    * `_set_raw_node` on every proof node; `get_from_proof`            ↔ `proofDb`, `getFromProof`

    The database is a *write log*, newest first; `lookup` returns the first match — exactly a dict
    under overwrite. -/
namespace PyTrie.HexD
open PyTrie.Hex

abbrev Db := List (Hash × Bytes)

def lookup (db : Db) (h : Hash) : Option Bytes := (db.find? (fun e => e.1 == h)).map (·.2)

def beToNat (bs : Bytes) : Nat := bs.foldl (fun a b => a * 256 + b.toNat) 0

/-- a length field of a long string / list: big-endian, no leading zero, value at least 56 -/
def longLen (lenBytes : Bytes) : Option Nat :=
  match lenBytes with
  | [] => none
  | b :: _ => if b = 0 then none else
    let n := beToNat lenBytes
    if n < 56 then none else some n

mutual
/-- one item from the front of a byte string (strict: non-canonical encodings are rejected) -/
def decItem : Nat → Bytes → Option (Item × Bytes)
  | 0, _ => none
  | _, [] => none
  | fuel + 1, b :: rest =>
    let x := b.toNat
    if x < 0x80 then some (.str [b], rest)
    else if x < 0xb8 then
      let n := x - 0x80
      if rest.length < n then none
      else match rest.take n with
        | [c] => if c.toNat < 0x80 then none else some (.str [c], rest.drop n)
        | s => some (.str s, rest.drop n)
    else if x < 0xc0 then
      let ll := x - 0xb7
      if rest.length < ll then none
      else match longLen (rest.take ll) with
        | none => none
        | some n =>
          let r2 := rest.drop ll
          if r2.length < n then none else some (.str (r2.take n), r2.drop n)
    else if x < 0xf8 then
      let n := x - 0xc0
      if rest.length < n then none
      else (decList fuel (rest.take n)).map fun l => (.list l, rest.drop n)
    else
      let ll := x - 0xf7
      if rest.length < ll then none
      else match longLen (rest.take ll) with
        | none => none
        | some n =>
          let r2 := rest.drop ll
          if r2.length < n then none
          else (decList fuel (r2.take n)).map fun l => (.list l, r2.drop n)
def decList : Nat → Bytes → Option (List Item)
  | 0, _ => none
  | _, [] => some []
  | fuel + 1, b :: bs =>
    match decItem fuel (b :: bs) with
    | some (it, rest) => (decList fuel rest).map (it :: ·)
    | none => none
end

/-- `rlp.decode` (strict): the whole input is one item -/
def rlpDecode (bs : Bytes) : Option Item :=
  match decItem (2 * bs.length + 2) bs with
  | some (it, []) => some it
  | _ => none

def toNib (n : Nat) : Nib := Fin.ofNat 16 n

/-- hex-prefix decoding of the first item of a two-item node: path and "is a leaf";
    `none` = the empty string (`decode_nibbles` raises IndexError) -/
def hpDecode (k : Bytes) : Option (Path × Bool) :=
  match k with
  | [] => none
  | b :: rest =>
    let flag := b.toNat / 16
    let tail : Path := (rest.flatMap fun x => [toNib (x.toNat / 16), toNib (x.toNat % 16)])
    let raw : Path := if flag = 1 ∨ flag = 3 then toNib (b.toNat % 16) :: tail else tail
    some (raw, flag = 2 ∨ flag = 3)

/-- a raw node as the traversal sees it -/
inductive RNode where
  | blank
  | leaf (p : Path) (v : Item)
  | ext (p : Path) (c : Item)
  | branch (l : List Item)          -- 17 items
  | invalid

def classify : Item → RNode
  | .str [] => .blank
  | .str _ => .invalid
  | .list [.str k, x] =>
    match hpDecode k with
    | some (p, true) => .leaf p x
    | some (p, false) => .ext p x
    | none => .invalid
  | .list l => if l.length = 17 then .branch l else .invalid

inductive RErr where
  | missing (h : Hash)        -- `KeyError(h)` from the database
  | invalid                   -- anything else the code would raise (undecodable / ill-formed node)
  deriving Repr

variable (H : Bytes → Bytes)

/-- `get_node(ref)` -/
def getNode (db : Db) : Item → Except RErr Item
  | .list l => .ok (.list l)
  | .str h =>
    if h = [] then .ok (.str [])
    else if h = blankRoot H then .ok (.str [])
    else if h.length < 32 then
      match rlpDecode h with
      | some it => .ok it
      | none => .error .invalid
    else match lookup db h with
      | none => .error (.missing h)
      | some b => match rlpDecode b with
        | some it => .ok it
        | none => .error .invalid

inductive TErr where
  | missing (h : Hash) (used : Path)     -- `MissingTraversalNode(h, used_key)`
  | invalid
  | fuel                                 -- the model's recursion bound (never reached on acyclic data)
  deriving Repr

def fetch (db : Db) (ref : Item) (used : Path) : Except TErr Item :=
  match getNode H db ref with
  | .ok n => .ok n
  | .error (.missing h) => .error (.missing h used)
  | .error .invalid => .error .invalid

/-- `_traverse_from`: deepest node reached and unconsumed key; `used` = nibbles consumed so far -/
def traverseD (db : Db) : Nat → Item → Path → Path → Except TErr (Item × Path)
  | _, node, [], _ => .ok (node, [])
  | 0, _, _ :: _, _ => .error .fuel
  | fuel + 1, node, a :: rest, used =>
    let k := a :: rest
    match classify node with
    | .blank => .ok (.str [], [])
    | .leaf p _ => if k <+: p then .ok (node, k) else .ok (.str [], [])
    | .ext p c =>
      let n := cpl p k
      if p.drop n = [] then
        match fetch H db c (used ++ k.take n) with
        | .ok nx => traverseD db fuel nx (k.drop n) (used ++ k.take n)
        | .error e => .error e
      else if k.drop n = [] then .ok (node, k)
      else .ok (.str [], [])
    | .branch l =>
      match fetch H db (l.getD a.val (.str [])) (used ++ [a]) with
      | .ok nx => traverseD db fuel nx rest (used ++ [a])
      | .error e => .error e
    | .invalid => .error .invalid

def fuelFor (db : Db) (k : Path) : Nat := db.length + k.length + 2

/-- `_traverse(root_hash, key)` followed by `_get` -/
def getD (db : Db) (root : Hash) (key : Path) : Except TErr Bytes :=
  match fetch H db (.str root) [] with
  | .error e => .error e
  | .ok rootNode =>
    match traverseD H db (fuelFor db key) rootNode key [] with
    | .error e => .error e
    | .ok (node, rem) =>
      match classify node with
      | .blank => .ok []
      | .leaf p (.str v) => .ok (if rem = p then v else [])
      | .leaf p (.list _) => if rem = p then .error .invalid else .ok []
      | .ext _ _ => .ok []
      | .branch l => if rem ≠ [] then .error .invalid
                     else match l.getD 16 (.str []) with
                       | .str v => .ok v
                       | .list _ => .error .invalid
      | .invalid => .error .invalid

/-- `trie = HexaryTrie({}); for node in proof: trie._set_raw_node(node)` -/
def proofDb (nodes : List Item) : Db :=
  nodes.foldl (fun db n => if n == Item.str [] then db else (H (rlp n), rlp n) :: db) []

inductive ProofOut where
  | value (v : Bytes)
  | badProof                 -- `BadTrieProof`
  | other                    -- any other exception
  deriving Repr

/-- `HexaryTrie.get_from_proof(root_hash, key, proof)` -/
def getFromProof (root : Hash) (key : Bytes) (nodes : List Item) : ProofOut :=
  match getD H (proofDb H nodes) root (nibs key) with
  | .ok v => .value v
  | .error (.missing _ _) => .badProof
  | .error _ => .other

end PyTrie.HexD
