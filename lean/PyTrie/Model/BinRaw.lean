import PyTrie.Model.Bin
/-! **Raw level** of `trie/binary.py`: `_set`, `_set_kv_node`, `_set_branch_node`, `_hash_and_save`
    transcribed statement by statement over what the code manipulates — node *hashes* and a database of
    encoded nodes (`parse_node(self.db[hash])`, `encode_*_node`, `keccak`). Nothing here knows about trees.
    The refinement theorem (`Lemmas/BinRawRefines.lean`) states that on a database storing a canonical tree
    this computes the hash of the tree-level `bset` result and saves exactly the nodes `bsetS` lists. -/
namespace PyTrie.BinRaw
open PyTrie.Bin

structure St where
  db : Db                       -- write log, newest first

inductive Err where
  | override                    -- NodeOverrideError
  | keyError (h : Hash)         -- self.db[hash] missing
  | invalid                     -- InvalidNode / ValidationError from the encoders / decode assertions
  | fuel
  deriving DecidableEq, Repr

variable (H : Bytes → Bytes)

/-- `_hash_and_save(node)` -/
def save (st : St) (node : Bytes) : Hash × St := (H node, { db := (H node, node) :: st.db })

/-- `parse_node(self.db[h])` -/
def load (st : St) (h : Hash) : Except Err Parsed :=
  match lookup st.db h with
  | none => .error (.keyError h)
  | some body =>
    match parseNode body with
    | .ok p => .ok p
    | .error _ => .error .invalid

/-- `_hash_and_save(encode_kv_node(keypath, child))` -/
def saveKv (st : St) (p : Bits) (child : Hash) : Except Err (Hash × St) :=
  match encodeKv p child with
  | .ok b => .ok (save H st b)
  | .error _ => .error .invalid

def saveBranch (st : St) (l r : Hash) : Except Err (Hash × St) :=
  match encodeBranch l r with
  | .ok b => .ok (save H st b)
  | .error _ => .error .invalid

def saveLeaf (st : St) (v : Bytes) : Except Err (Hash × St) :=
  match encodeLeaf v with
  | .ok b => .ok (save H st b)
  | .error _ => .error .invalid

/-- `_set(node_hash, keypath, value, if_delete_subtrie)` with `_set_kv_node` and `_set_branch_node` inlined -/
def rawSet (blank : Hash) : Nat → St → Hash → Bits → Bytes → Bool → Except Err (Hash × St)
  | 0, _, _, _, _, _ => .error .fuel
  | fuel + 1, st, h, k, v, sub =>
    if h = blank then
      -- empty trie
      if v ≠ [] then
        match saveLeaf H st v with
        | .error e => .error e
        | .ok (lh, st1) => saveKv H st1 k lh
      else .ok (blank, st)
    else
      match load st h with
      | .error e => .error e
      | .ok (.leaf _) =>
        if k ≠ [] then .error .override
        else if sub then .ok (blank, st)
        else if v ≠ [] then saveLeaf H st v else .ok (blank, st)
      | .ok (.kv p c) =>
        if k = [] then (if sub then .ok (blank, st) else .error .override)
        else
          -- `_set_kv_node`
          if sub && decide (k.length < p.length) && decide (k <+: p) then .ok (blank, st)
          else if p <+: k then
            match rawSet blank fuel st c (k.drop p.length) v sub with
            | .error e => .error e
            | .ok (subHash, st1) =>
              if subHash = blank then .ok (blank, st1)
              else match load st1 subHash with
                | .error e => .error e
                | .ok (.kv p2 c2) => saveKv H st1 (p ++ p2) c2
                | .ok _ => saveKv H st1 p subHash
          else
            let n := cpl p k
            if v = [] || sub then .ok (h, st)
            else
              -- valnode
              let valR : Except Err (Hash × St) :=
                if k.length = n + 1 then saveLeaf H st v
                else if k.length ≤ n then .error .override
                else match saveLeaf H st v with
                  | .error e => .error e
                  | .ok (lh, st1) => saveKv H st1 (k.drop (n + 1)) lh
              match valR with
              | .error e => .error e
              | .ok (valnode, st1) =>
                -- oldnode
                let oldR : Except Err (Hash × St) :=
                  if p.length = n + 1 then .ok (c, st1) else saveKv H st1 (p.drop (n + 1)) c
                match oldR with
                | .error e => .error e
                | .ok (oldnode, st2) =>
                  let subR := if (k.drop n).head? = some true then saveBranch H st2 oldnode valnode
                              else saveBranch H st2 valnode oldnode
                  match subR with
                  | .error e => .error e
                  | .ok (newsub, st3) => if n ≠ 0 then saveKv H st3 (p.take n) newsub else .ok (newsub, st3)
      | .ok (.branch l r) =>
        match k with
        | [] => if sub then .ok (blank, st) else .error .override
        | b :: k' =>
          -- `_set_branch_node`
          let rec1 := if b = false then rawSet blank fuel st l k' v sub else rawSet blank fuel st r k' v sub
          match rec1 with
          | .error e => .error e
          | .ok (nh, st1) =>
            let newL := if b = false then nh else l
            let newR := if b = false then r else nh
            if newL = blank || newR = blank then
              let other := if newL ≠ blank then newL else newR
              match load st1 other with
              | .error e => .error e
              | .ok (.kv p2 c2) => saveKv H st1 ((if newR ≠ blank then true else false) :: p2) c2
              | .ok _ => saveKv H st1 [if newR ≠ blank then true else false] other
            else saveBranch H st1 newL newR

end PyTrie.BinRaw
