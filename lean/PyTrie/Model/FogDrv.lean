import PyTrie.Model.Fog
/-! Line-protocol front end for the `fog.*` commands. Fog values are immutable; every value ever
    produced is kept in a table and addressed by its index. Paths: one hex digit per nibble, `-` = ();
    path lists are comma separated, `-` = empty list. -/
namespace PyTrie.FogDrv
open PyTrie.Hex PyTrie.Fog

structure St where
  fogs : Array Fog := #[]
  cache : Frontier Nat := []        -- TrieFrontierCache; nodes are register numbers of the hexary driver
  deriving Inhabited

def pathStr (p : Path) : String :=
  if p.isEmpty then "-" else String.ofList (p.map fun n => hexDigit n.val)

def parsePath (s : String) : Option Path :=
  if s = "-" then some [] else s.toList.mapM fun c => (hexVal c).map (Fin.ofNat 16)

/-- `-` = no paths; `_` inside a list stands for the empty path -/
def parsePaths (s : String) : Option (List Path) :=
  if s = "-" then some [] else (s.splitOn ",").mapM fun t => if t = "_" then some [] else parsePath t

def showFog (f : Fog) : String := if f.isEmpty then "-" else ",".intercalate (f.map fun p => if p.isEmpty then "_" else pathStr p)

def fmtErr : Err → String
  | .validation => "exn ValidationError"
  | .perfect => "exn PerfectVisibility"
  | .fullDir => "exn FullDirectionalVisibility"

def step (st : St) (cmd : String) (args : List String) : St × String :=
  let bad := (st, "bad-op")
  let getFog (s : String) : Option Fog := s.toNat?.bind fun i => st.fogs[i]?
  match cmd, args with
  | "reset", [] => ({}, "ok")
  | "new", [] => ({ st with fogs := st.fogs.push Fog.init }, toString st.fogs.size)
  | "explore", [i, old, subs] =>
    match getFog i, parsePath old, parsePaths subs with
    | some f, some old, some subs =>
      match explore f old subs with
      | .ok f' => ({ st with fogs := st.fogs.push f' }, toString st.fogs.size)
      | .error e => (st, fmtErr e)
    | _, _, _ => bad
  | "mark", [i, ps] =>
    match getFog i, parsePaths ps with
    | some f, some ps =>
      match markAllComplete f ps with
      | .ok f' => ({ st with fogs := st.fogs.push f' }, toString st.fogs.size)
      | .error e => (st, fmtErr e)
    | _, _ => bad
  | "show", [i] => match getFog i with | some f => (st, showFog f) | none => bad
  | "complete", [i] => match getFog i with | some f => (st, if isComplete f then "True" else "False") | none => bad
  | "nu", [i, k] =>
    match getFog i, parsePath k with
    | some f, some k => (st, match nearestUnknown f k with | .ok p => "p " ++ pathStr p | .error e => fmtErr e)
    | _, _ => bad
  | "nr", [i, k] =>
    match getFog i, parsePath k with
    | some f, some k => (st, match nearestRight f k with | .ok p => "p " ++ pathStr p | .error e => fmtErr e)
    | _, _ => bad
  | "ser", [i] =>
    match getFog i with
    | some f => (st, if f.isEmpty then "-" else ",".intercalate ((serialize f).map toHex))
    | none => bad
  | "deser", [bs] =>
    let toks := if bs = "-" then [] else bs.splitOn ","
    match toks.mapM ofHex with
    | none => bad
    | some l => match deserialize l with
      | some f => ({ st with fogs := st.fogs.push f }, toString st.fogs.size)
      | none => (st, "exn IndexError")
  | "cnew", [] => ({ st with cache := [] }, "ok")
  | "cget", [p] =>
    match parsePath p with
    | some p => (st, match Frontier.get st.cache p with | some (r, seg) => s!"hit {r} {pathStr seg}" | none => "miss")
    | none => bad
  | "cadd", [p, r, subs] =>
    match parsePath p, r.toNat?, parsePaths subs with
    | some p, some r, some subs => ({ st with cache := Frontier.add st.cache p r subs }, "ok")
    | _, _, _ => bad
  | "cdel", [p] =>
    match parsePath p with
    | some p => ({ st with cache := Frontier.delete st.cache p }, "ok")
    | none => bad
  | "eq", [i, j] =>
    match getFog i, getFog j with
    | some a, some b => (st, if a = b then "True" else "False")
    | _, _ => bad
  | _, _ => bad

end PyTrie.FogDrv
