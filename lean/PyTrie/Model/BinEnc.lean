import PyTrie.Model.Basic
/-! `trie/utils/binaries.py` and the binary-trie half of `trie/utils/nodes.py` transcribed.

    Python ↔ model
    * `encode_to_bin`, `decode_from_bin`                        ↔ `toBits`, `ofBits`
    * `encode_from_bin_keypath`, `decode_to_bin_keypath`        ↔ `encodeKeypath`, `decodeKeypath`
    * `parse_node`                                              ↔ `parseNode`
    * `encode_kv_node`, `encode_branch_node`, `encode_leaf_node`↔ `encodeKv`, `encodeBranch`, `encodeLeaf`
    Bit strings (`bytes` of 0/1 in Python) are `List Bool`. -/
namespace PyTrie.Bin

abbrev Bits := List Bool

def bitOf (b : UInt8) (i : Nat) : Bool := (b.toNat / 2 ^ i) % 2 = 1

/-- the 8 bits of a byte, most significant first (`for exp in EXP: char & exp`) -/
def byteBits (b : UInt8) : Bits :=
  [bitOf b 7, bitOf b 6, bitOf b 5, bitOf b 4, bitOf b 3, bitOf b 2, bitOf b 1, bitOf b 0]

/-- `encode_to_bin` -/
def toBits (bs : Bytes) : Bits := bs.flatMap byteBits

/-- value of a chunk of at most 8 bits read as a binary number -/
def chunkVal (c : Bits) : Nat := c.foldl (fun a b => 2 * a + (if b then 1 else 0)) 0

/-- `decode_from_bin`: chunks of 8 (`partition_all`), the last one possibly shorter -/
def ofBits (bs : Bits) : Bytes :=
  match _h : bs with
  | [] => []
  | _ :: _ => UInt8.ofNat (chunkVal (bs.take 8)) :: ofBits (bs.drop 8)
termination_by bs.length
decreasing_by simp [_h]; omega

def twoBits (n : Nat) : Bits := [n / 2 % 2 = 1, n % 2 = 1]

/-- `encode_from_bin_keypath` -/
def encodeKeypath (p : Bits) : Bytes :=
  let padded := List.replicate ((4 - p.length % 4) % 4) false ++ p
  let pre := twoBits (p.length % 4)
  if padded.length % 8 = 4 then ofBits ([false, false] ++ pre ++ padded)
  else ofBits ([true, false, false, false, false, false] ++ pre ++ padded)

inductive DecErr | index | assertion
  deriving DecidableEq, Repr

/-- `decode_to_bin_keypath` -/
def decodeKeypath (bs : Bytes) : Except DecErr Bits :=
  match toBits bs with
  | [] => .error .index
  | b0 :: rest =>
    let bits := if b0 then (b0 :: rest).drop 4 else b0 :: rest
    if bits.take 2 ≠ [false, false] then .error .assertion
    else
      let a := (bits.drop 2).headD false
      let b := (bits.drop 3).headD false
      let paddedLen := (if a then 2 else 0) + (if b then 1 else 0)
      .ok (bits.drop (4 + (4 - paddedLen) % 4))

inductive Parsed where
  | branch (l r : Bytes)
  | kv (p : Bits) (c : Bytes)
  | leaf (v : Bytes)
  deriving DecidableEq, Repr

inductive PErr | invalidNode | assertion | index
  deriving DecidableEq, Repr

/-- `parse_node` -/
def parseNode (n : Bytes) : Except PErr Parsed :=
  match n with
  | [] => .error .invalidNode
  | t :: body =>
    if t = 1 then
      if n.length ≠ 65 then .error .invalidNode else .ok (.branch (body.take 32) (body.drop 32))
    else if t = 0 then
      if n.length ≤ 33 then .error .invalidNode
      else match decodeKeypath (body.take (body.length - 32)) with
        | .ok p => .ok (.kv p (body.drop (body.length - 32)))
        | .error .index => .error .index
        | .error .assertion => .error .assertion
    else if t = 2 then
      if body = [] then .error .invalidNode else .ok (.leaf body)
    else .error .invalidNode

inductive EncErr | validation
  deriving DecidableEq, Repr

/-- `encode_kv_node` (arguments already known to be byte strings) -/
def encodeKv (p : Bits) (child : Bytes) : Except EncErr Bytes :=
  if p = [] then .error .validation
  else if child.length ≠ 32 then .error .validation
  else .ok (0 :: encodeKeypath p ++ child)

/-- `encode_branch_node` -/
def encodeBranch (l r : Bytes) : Except EncErr Bytes :=
  if l.length ≠ 32 ∨ r.length ≠ 32 then .error .validation else .ok (1 :: l ++ r)

/-- `encode_leaf_node` -/
def encodeLeaf (v : Bytes) : Except EncErr Bytes :=
  if v = [] then .error .validation else .ok (2 :: v)

end PyTrie.Bin
