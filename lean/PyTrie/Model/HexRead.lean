import PyTrie.Model.HexDb
import PyTrie.Model.HexTrav
import PyTrie.Model.HexRaw
/-! **Raw level of the hexary read path**: `annotate_node`, `TraversedPartialPath._make_simulated_node`,
    `traverse` / `traverse_from`, `_get_proof` over raw nodes (`Item`) and a database of rlp bytes —
    the counterparts of `annotate`, `simulate`, `traverseOut`, `getProof` on trees. (`_traverse_from` and `_get`
    are `HexD.traverseD` / `HexD.getD`.) `Lemmas/ReadRefines.lean` proves they agree on the raw encoding of a
    canonical stored tree. -/
namespace PyTrie.HexD
open PyTrie.Hex

/-- `HexaryTrieNode` over a raw node -/
structure AnnD where
  subs : List Path
  value : Bytes
  suffix : Path
  raw : Item
  kind : Kind

def itemBytes : Item → Bytes
  | .str b => b
  | .list _ => []

/-- `annotate_node(node_body)`; `none` = the node is not a valid raw node -/
def annotateD (it : Item) : Option AnnD :=
  match classify it with
  | .blank => some ⟨[], [], [], it, .blank⟩
  | .leaf p v => some ⟨[], itemBytes v, p, it, .leaf⟩
  | .ext p _ => some ⟨[p], [], [], it, .ext⟩
  | .branch l =>
    some ⟨((List.range 16).filter fun i => HexRaw.truthy (l.getD i (.str []))).map (fun i => [toNib i]),
          itemBytes (l.getD 16 (.str [])), [], it, .branch⟩
  | .invalid => none

/-- `_make_simulated_node`; `none` = one of its "Internal traverse bug" `ValidationError`s -/
def simulateD (a : AnnD) (tail : Path) : Option AnnD :=
  match a.subs with
  | [] =>
    if tail <+: a.suffix then
      let trimmed := a.suffix.drop tail.length
      match a.raw with
      | .list [_, v] => some ⟨[], a.value, trimmed, .list [.str (hp trimmed true), v], .leaf⟩
      | _ => none
    else none
  | [e] =>
    if !(decide (tail <+: e)) then none
    else if tail.length = e.length then none
    else
      let trimmed := e.drop tail.length
      match a.raw with
      | .list [_, c] => some ⟨[trimmed], a.value, a.suffix, .list [.str (hp trimmed false), c], .ext⟩
      | _ => none
  | _ => none

inductive TravOutD where
  | node (a : AnnD)
  | partialPath (traversed : Path) (a : AnnD) (tail : Path) (sim : Option AnnD)

variable (H : Bytes → Bytes)

/-- `traverse_from(node, path)` (and `traverse(path)` once the root node is fetched) -/
def traverseOutD (db : Db) (fuel : Nat) (node : Item) (p : Path) : Except TErr TravOutD :=
  match traverseD H db fuel node p [] with
  | .error e => .error e
  | .ok (n, rem) =>
    match annotateD n with
    | none => .error .invalid
    | some a =>
      if rem = [] then .ok (.node a)
      else .ok (.partialPath (p.take (p.length - rem.length)) a rem (simulateD a rem))

/-- `_get_proof(node, trie_key)` -/
def getProofD (db : Db) : Nat → Item → Path → Except TErr (List Item)
  | 0, _, _ => .error .fuel
  | fuel + 1, node, k =>
    match classify node with
    | .blank => .ok []
    | .leaf _ _ => .ok [node]
    | .ext p c =>
      if p <+: k then
        match fetch H db c [] with
        | .error e => .error e
        | .ok nx => (getProofD db fuel nx (k.drop p.length)).map (node :: ·)
      else .ok [node]
    | .branch l =>
      match k with
      | [] => .ok [node]
      | a :: rest =>
        match fetch H db (l.getD a.val (.str [])) [] with
        | .error e => .error e
        | .ok nx => (getProofD db fuel nx rest).map (node :: ·)
    | .invalid => .error .invalid

end PyTrie.HexD
