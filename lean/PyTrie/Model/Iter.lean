import PyTrie.Model.Fog
/-! `NodeIterator.nodes()` as written: the loop over a `HexaryTrieFog` (always the left-most unexplored
    prefix, `nearest_right(())`) with a `TrieFrontierCache` of parent nodes, `traverse` from the root when
    the cache misses and `traverse_from(cached parent, segment)` when it hits. -/
namespace PyTrie.Hex
open PyTrie.Fog

/-- the loop of `nodes()`; `fuel` bounds the number of iterations. A `TraversedPartialPath` /
    rejected `explore` would propagate as an exception: the sequence ends there. -/
def nodesLoop (t : Node) : Nat → Fog → Frontier Node → List (Path × Node)
  | 0, _, _ => []
  | fuel + 1, fog, cache =>
    match nearestRight fog [] with
    | .error _ => []                                  -- PerfectVisibility: done
    | .ok p =>
      let out := match Frontier.get cache p with
        | none => traverseOut t p                     -- cache miss: traverse from the root
        | some (parent, seg) => traverseOut parent seg   -- cache hit: traverse_from(parent, seg)
      match out with
      | .partialPath _ _ _ _ => []
      | .node a =>
        match Fog.explore fog p a.subs with
        | .error _ => []
        | .ok fog' =>
          let cache' := if a.subs ≠ [] then Frontier.add cache p a.raw a.subs else Frontier.delete cache p
          (p, a.raw) :: nodesLoop t fuel fog' cache'

/-- `nodes()` -/
def nodesOf (t : Node) (fuel : Nat) : List (Path × Node) := nodesLoop t fuel Fog.init []

end PyTrie.Hex
