import PyTrie.Model.Hex
/-! `traverse`, `traverse_from`, `annotate_node`, `TraversedPartialPath._make_simulated_node`
    and `NodeIterator._get_key_after / _get_next_key` on trees. -/
namespace PyTrie.Hex
open Node

inductive Kind | blank | leaf | ext | branch
  deriving DecidableEq, Repr

/-- `HexaryTrieNode` -/
structure Ann where
  subs : List Path
  value : Bytes
  suffix : Path
  raw : Node
  kind : Kind

/-- `annotate_node` -/
def annotate : Node → Ann
  | blank => ⟨[], [], [], blank, .blank⟩
  | leaf p v => ⟨[], v, p, leaf p v, .leaf⟩
  | ext p c => ⟨[p], [], [], ext p c, .ext⟩
  | branch ch v => ⟨(liveIdx ch).map (fun i => [i]), v, [], branch ch v, .branch⟩

/-- second item of a two-item raw node (`actual_node.raw[1]`) re-wrapped under a new path -/
def rewrapLeaf (n : Node) (p : Path) : Option Node :=
  match n with
  | leaf _ v => some (leaf p v)
  | _ => none
def rewrapExt (n : Node) (p : Path) : Option Node :=
  match n with
  | ext _ c => some (ext p c)
  | _ => none

/-- `_make_simulated_node`; `none` = the "Internal traverse bug" `ValidationError`s -/
def simulate (a : Ann) (tail : Path) : Option Ann :=
  match a.subs with
  | [] =>
    if tail <+: a.suffix then
      let trimmed := a.suffix.drop tail.length
      (rewrapLeaf a.raw trimmed).map fun r => ⟨[], a.value, trimmed, r, .leaf⟩
    else none
  | [e] =>
    if !(decide (tail <+: e)) then none
    else if tail.length = e.length then none
    else
      let trimmed := e.drop tail.length
      (rewrapExt a.raw trimmed).map fun r => ⟨[trimmed], a.value, a.suffix, r, .ext⟩
  | _ => none

inductive TravOut where
  | node (a : Ann)
  | partialPath (traversed : Path) (a : Ann) (tail : Path) (sim : Option Ann)

/-- `traverse` / `traverse_from` after the node fetches succeeded -/
def traverseOut (t : Node) (p : Path) : TravOut :=
  let (n, rem) := traverseT t p
  let a := annotate n
  if rem = [] then .node a
  else .partialPath (p.take (p.length - rem.length)) a rem (simulate a rem)

/-- Python's tuple order on nibble tuples -/
def plt : Path → Path → Bool
  | [], [] => false
  | [], _ :: _ => true
  | _ :: _, [] => false
  | a :: as, b :: bs => if a < b then true else if b < a then false else plt as bs

/-- `_get_next_key`: the left-most key in `node`, `tr` = nibbles traversed so far -/
def nextKey : Node → Path → Option Path
  | blank, _ => none
  | leaf p v, tr => if v ≠ [] then some (tr ++ p) else none
  | ext p c, tr => nextKey c (tr ++ p)
  | branch ch v, tr =>
    if v ≠ [] then some tr
    else match (List.finRange 16).find? (fun i => !(isBlank (ch i))) with
      | none => none
      | some i => nextKey (ch i) (tr ++ [i])

/-- `_get_key_after`: the smallest key in `node` strictly greater than `key` -/
def keyAfter : Node → Path → Path → Option Path
  | blank, _, _ => none
  | leaf p _, key, tr => if plt key p then some (tr ++ p) else none
  | ext p c, key, tr =>
    -- one sub-segment `p`
    if plt p (key.take p.length) then none          -- segment is to the left; suffix () > key is false
    else
      let n := cpl key p
      if p.drop n = [] then keyAfter c (key.drop n) (tr ++ p)   -- None ⇒ loop ends ⇒ None
      else nextKey c (tr ++ p)
  | branch ch _, key, tr =>
    let r := (List.finRange 16).findSome? fun i =>
      if isBlank (ch i) then none
      else if plt [i] (key.take 1) then none         -- to the left of the key
      else match key with
        | [] => some (nextKey (ch i) (tr ++ [i]))    -- segment not consumed: left-most key below
        | a :: rest =>
          if a = i then
            match keyAfter (ch i) rest (tr ++ [i]) with
            | none => none                            -- keep looking to the right
            | some k => some (some k)
          else some (nextKey (ch i) (tr ++ [i]))
    match r with
    | some x => x
    | none => none

/-- depth-first pre-order of (prefix, node), children left to right: what `nodes()` yields -/
def preorder : Node → Path → List (Path × Node)
  | blank, pre => [(pre, blank)]
  | leaf p v, pre => [(pre, leaf p v)]
  | ext p c, pre => (pre, ext p c) :: preorder c (pre ++ p)
  | branch ch v, pre => (pre, branch ch v) ::
      (List.finRange 16).flatMap fun i => if isBlank (ch i) then [] else preorder (ch i) (pre ++ [i])

/-- `items()`: the nodes of `nodes()` that carry a value, as (full key path, value) -/
def itemsOf (t : Node) : List (Path × Bytes) :=
  (preorder t []).filterMap fun e =>
    let a := annotate e.2
    if a.value ≠ [] then some (e.1 ++ a.suffix, a.value) else none

/-- Python's order on `bytes` -/
def blt : Bytes → Bytes → Bool
  | [], [] => false
  | [], _ :: _ => true
  | _ :: _, [] => false
  | a :: as, b :: bs => if a < b then true else if b < a then false else blt as bs

end PyTrie.Hex
