import PyTrie.Model.Validate
/-! Line-protocol front end for argument validation (`val.check <entry point> <ctx> <arg>…`).
    Values: `B<hex>` bytes (`B-` empty), `S` a str, `I<n>` an int (`I-3` negative), `N` None, `D` a dict,
    `L<items>` a list whose items are separated by `;` (`L` alone = empty list; one nesting level: an
    item `M<a.b.c>` is an inner list with items separated by `.`). -/
namespace PyTrie.ValDrv
open PyTrie.Val

structure St where
  dummy : Unit := ()
  deriving Inhabited

def parseAtom (s : String) : Option PyVal :=
  match s.toList with
  | 'B' :: r => (ofHex (String.ofList r)).map .bytes
  | 'Y' :: r => (ofHex (String.ofList r)).map .bytearray
  | ['S'] => some .str
  | ['N'] => some .none
  | ['D'] => some .dict
  | 'I' :: '-' :: r => (String.ofList r).toNat?.map fun n => .int (-(n : Int))
  | 'I' :: r => (String.ofList r).toNat?.map fun n => .int n
  | _ => none

def parseInner (s : String) : Option PyVal :=
  match s.toList with
  | 'M' :: r =>
    let body := String.ofList r
    if body = "" then some (.list []) else ((body.splitOn ".").mapM parseAtom).map .list
  | _ => parseAtom s

def parseVal (s : String) : Option PyVal :=
  match s.toList with
  | 'L' :: r =>
    let body := String.ofList r
    if body = "" then some (.list []) else ((body.splitOn ";").mapM parseInner).map .list
  | _ => parseAtom s

def step (st : St) (cmd : String) (args : List String) : St × String :=
  match cmd, args with
  | "check", ep :: ctx :: vals =>
    match ctx.toNat?, vals.mapM parseVal with
    | some ctx, some vs =>
      (st, match validate ep ctx vs with
        | .ok _ => "ok"
        | .error .validation => "exn ValidationError"
        | .error .valueError => "exn ValueError"
        | .error .typeError => "exn TypeError")
    | _, _ => (st, "bad-op")
  | _, _ => (st, "bad-op")

end PyTrie.ValDrv
