import PyTrie.Model.HexEff
import PyTrie.Model.HexTrav
/-! Layer E, second half: a *world* (database, tries, open batch, reference counts) and the way
    `HexaryTrie.set/delete/get/squash_changes/at_root`, `ScratchDB` and the pruning bookkeeping
    (`_prune_on_success`, `_prune_node`, `_complete_pruning`, `_set_root_node`, `_set_db_value`)
    apply an event list to it, including where an exception leaves things.

    The tree of every trie is carried along (the code re-reads it from the database); the
    database is nevertheless maintained exactly as the code maintains it, and every `read` is
    checked against it, so missing nodes and failing writes behave as in the code. -/
namespace PyTrie.HexW
open PyTrie.Hex hiding get set
open PyTrie.Hex.Node

abbrev Dict (α : Type) := List (Hash × α)

namespace Dict
def get? {α} (d : Dict α) (h : Hash) : Option α := (d.find? (fun e => e.1 == h)).map (·.2)
def contains {α} (d : Dict α) (h : Hash) : Bool := d.any (fun e => e.1 == h)
/-- `d[h] = v`: overwrite in place (keeps the first insertion position, as a Python dict) -/
def insert {α} (d : Dict α) (h : Hash) (v : α) : Dict α :=
  if d.contains h then d.map (fun e => if e.1 == h then (h, v) else e) else d ++ [(h, v)]
def erase {α} (d : Dict α) (h : Hash) : Dict α := d.filter (fun e => !(e.1 == h))
end Dict

abbrev Counts := Dict Nat
def Counts.val (c : Counts) (h : Hash) : Nat := (Dict.get? c h).getD 0
def Counts.inc (c : Counts) (h : Hash) : Counts := Dict.insert c h (c.val h + 1)

inductive Exn where
  | missingTrieNode (h root key : Bytes) (pre : Option Path)
  | missingTraversalNode (h : Bytes) (traversed : Path)
  | validation (what : String)
  | writeFailed
  | getErr
  deriving Repr

/-- the database a trie talks to: a plain dict, or a `ScratchDB` (cache of writes / DELETED
    markers) in front of it; `failAfter` injects a failing `__setitem__` on the plain dict -/
structure Store where
  base : Dict Bytes
  cache : Option (Dict (Option Bytes))
  failAfter : Option Nat

structure OpSt where
  store : Store
  counts : Counts
  pending : Counts

/-- `key in db` / a successful `db[key]` -/
def Store.contains (s : Store) (h : Hash) : Bool :=
  match s.cache with
  | none => s.base.contains h
  | some c => match Dict.get? c h with
    | some (some _) => true
    | _ => s.base.contains h

def Store.get? (s : Store) (h : Hash) : Option Bytes :=
  match s.cache with
  | none => Dict.get? s.base h
  | some c => match Dict.get? c h with
    | some (some v) => some v
    | _ => Dict.get? s.base h

/-- `db[key] = value`; `none` = the injected failure of the plain dict's `__setitem__` -/
def Store.write (s : Store) (h : Hash) (b : Bytes) : Option Store :=
  match s.cache with
  | some c => some { s with cache := some (Dict.insert c h (some b)) }
  | none =>
    match s.failAfter with
    | some 0 => none
    | some (n+1) => some { s with base := Dict.insert s.base h b, failAfter := some n }
    | none => some { s with base := Dict.insert s.base h b }

/-- `del db[key]`; `none` stands for the `KeyError` of a plain dict (a ScratchDB never raises) -/
def Store.del (s : Store) (h : Hash) : Option Store :=
  match s.cache with
  | some c => some { s with cache := some (Dict.insert c h none) }
  | none => if s.base.contains h then some { s with base := Dict.erase s.base h } else none

structure TrieSt where
  tree : Node
  root : Hash
  prune : Bool
  deriving Inhabited

variable (Hs : Hashing) (blankRootHash : Hash)

/-- `_set_db_value`: write, then count (nothing is counted when the write raises) -/
def setDbValue (prune : Bool) (s : OpSt) (h : Hash) (b : Bytes) : Except Exn OpSt :=
  match s.store.write h b with
  | none => .error .writeFailed
  | some st => .ok { s with store := st, counts := if prune then s.counts.inc h else s.counts }

/-- one event; an event that raises leaves the state as it was -/
def runEv (prune : Bool) (root key : Bytes) (s : OpSt) : Ev → Except Exn OpSt
  | .read h => if s.store.contains h then .ok s else .error (.missingTrieNode h root key none)
  | .persist h b => setDbValue prune s h b
  | .prune h => .ok (if prune then { s with pending := s.pending.inc h } else s)

/-- events in order, stopping at the first one that raises -/
def runEvs (prune : Bool) (root key : Bytes) : OpSt → List Ev → OpSt × Option Exn
  | s, [] => (s, none)
  | s, e :: es =>
    match runEv prune root key s e with
    | .ok s' => runEvs prune root key s' es
    | .error x => (s, some x)

/-- one iteration of `_complete_pruning` -/
def pruneStep (s : OpSt) (kn : Hash × Nat) : Except Exn OpSt :=
  let cur := s.counts.val kn.1
  if cur ≤ kn.2 then
    -- new_count <= 0: delete from the database, `KeyError` becomes `ValidationError`
    match s.store.del kn.1 with
    | none => .error (.validation "prune-missing")
    | some st => .ok { s with store := st, counts := Dict.erase s.counts kn.1 }
  else .ok { s with counts := Dict.insert s.counts kn.1 (cur - kn.2) }

/-- `_complete_pruning`: the pending keys in insertion order -/
def completePruning : OpSt → List (Hash × Nat) → OpSt × Option Exn
  | s, [] => (s, none)
  | s, kn :: rest =>
    match pruneStep s kn with
    | .ok s' => completePruning s' rest
    | .error x => (s, some x)

/-- `_set_root_node`, first half: a short old root is scheduled for pruning here -/
def schedOldRoot (T : TrieSt) (s : OpSt) : OpSt :=
  if T.prune && T.root != blankRootHash && s.store.contains T.root && !(Hs.hashed T.tree)
  then { s with pending := s.pending.inc T.root } else s

/-- the tree-level work of `set` / `delete` (value `none`): new root node and event list -/
def opTree (T : TrieSt) (key : Bytes) (val : Option Bytes) : Node × List Ev :=
  match val with
  | some v => if v = [] then deleteE Hs T.tree (nibs key) else setE Hs T.tree (nibs key) v
  | none => deleteE Hs T.tree (nibs key)

/-- `_set_root_node`, second half: `self.root_hash = self._set_raw_node(root_node)` -/
def writeRoot (T : TrieSt) (new : Node) (s : OpSt) : Except Exn (OpSt × Hash) :=
  if isBlank new then .ok (s, blankRootHash)
  else match setDbValue T.prune s (Hs.hashOf new) (Hs.encOf new) with
    | .ok s' => .ok (s', Hs.hashOf new)
    | .error x => .error x

def finishPrune (T : TrieSt) (s : OpSt) : OpSt × Option Exn :=
  if T.prune then completePruning s s.pending else (s, none)

/-- body of `set` / `delete` inside `_prune_on_success`: state at exit, and the new trie or the
    exception that left the block -/
def opCore (T : TrieSt) (key : Bytes) (val : Option Bytes) (s : OpSt) : OpSt × Except Exn TrieSt :=
  -- root_node = self.get_node(self.root_hash)
  if T.root != blankRootHash && !(s.store.contains T.root) then
    (s, .error (.missingTrieNode T.root T.root key none))
  else
    match runEvs T.prune T.root key s (opTree Hs T key val).2 with
    | (s1, some x) => (s1, .error x)
    | (s1, none) =>
      match writeRoot Hs blankRootHash T (opTree Hs T key val).1 (schedOldRoot Hs blankRootHash T s1) with
      | .error x => (schedOldRoot Hs blankRootHash T s1, .error x)
      | .ok (s3, newRoot) =>
        match finishPrune T s3 with
        | (s4, some x) => (s4, .error x)
        | (s4, none) => (s4, .ok { T with tree := (opTree Hs T key val).1, root := newRoot })

/-- `set` / `delete` with `_prune_on_success`: the pending keys start empty and are dropped on
    every exit (`finally`) -/
def opSetDel (T : TrieSt) (key : Bytes) (val : Option Bytes) (s0 : OpSt) : OpSt × Except Exn TrieSt :=
  let r := opCore Hs blankRootHash T key val { s0 with pending := [] }
  ({ r.1 with pending := [] }, r.2)

/-- `get`: root fetch, then `_traverse_from`'s fetches, then `_get` -/
def opGet (T : TrieSt) (key : Bytes) (s : OpSt) : Except Exn Bytes :=
  if T.root != blankRootHash && !(s.store.contains T.root) then
    .error (.missingTrieNode T.root T.root key (some []))
  else
    match (traverseReads Hs T.tree (nibs key) []).find? (fun e => !(s.store.contains e.1)) with
    | some (h, pre) => .error (.missingTrieNode h T.root key (some pre))
    | none =>
      match getT T.tree (nibs key) with
      | .ok v => .ok v
      | .error _ => .error .getErr

/-- `traverse(path)` (`root? = some root_hash`) / `traverse_from(node, path)` (`root? = none`):
    the root fetch (only for `traverse`), then the hashed nodes `_traverse_from` fetches on the way;
    the first absent one is reported with the nibbles consumed to reach it -/
def opTraverse (root? : Option Hash) (t : Node) (p : Path) (s : Store) : Except Exn TravOut :=
  let rootMissing := match root? with
    | some r => r != blankRootHash && !(s.contains r)
    | none => false
  if rootMissing then .error (.missingTraversalNode (root?.getD []) [])
  else
    match (traverseReads Hs t p []).find? (fun e => !(s.contains e.1)) with
    | some (h, pre) => .error (.missingTraversalNode h pre)
    | none => .ok (traverseOut t p)

/-- multiset of counted references, as `regenerate_ref_count` walks them: the root, then hashed
    children of hashed (or root) nodes; embedded children are skipped altogether -/
def regenSub : Node → List Hash
  | blank => []
  | leaf _ _ => []
  | ext _ c => if Hs.hashed c then Hs.hashOf c :: regenSub c else []
  | branch ch _ => (List.finRange 16).flatMap fun i =>
      if Hs.hashed (ch i) then Hs.hashOf (ch i) :: regenSub (ch i) else []

def regen (t : Node) : List Hash := if isBlank t then [] else Hs.hashOf t :: regenSub Hs t

end PyTrie.HexW

namespace PyTrie.HexW
open PyTrie.Hex hiding get set
open PyTrie.Hex.Node

/-- an open `squash_changes` block: the ScratchDB cache, the batch trie and its reference counts
    (its own copy since fix D2) -/
structure Batch where
  outer : Nat
  cache : Dict (Option Bytes)
  trie : TrieSt
  counts : Counts

structure World where
  base : Dict Bytes := []
  failAfter : Option Nat := none
  tries : Array TrieSt := #[]
  counts : Array Counts := #[]
  batch : Option Batch := none
  roots : List (Hash × Node) := []      -- every root a trie has had, with its tree
  deriving Inhabited

variable (Hs : Hashing) (blankRootHash : Hash)

def World.noteRoot (w : World) (T : TrieSt) : World :=
  if w.roots.any (fun e => e.1 == T.root) then w else { w with roots := (T.root, T.tree) :: w.roots }

/-- `HexaryTrie(db, prune=…)` on the world's database, empty root -/
def World.newTrie (w : World) (prune : Bool) : World × Nat :=
  ({ w with tries := w.tries.push { tree := blank, root := blankRootHash, prune := prune },
            counts := w.counts.push [] }, w.tries.size)

/-- `HexaryTrie(db, root)` / `at_root(root)`: a non-pruning trie at a root that existed before -/
def World.openAt (w : World) (root : Hash) : Option (World × Nat) :=
  let tree? := if root == blankRootHash then some blank else (w.roots.find? (fun e => e.1 == root)).map (·.2)
  tree?.map fun t =>
    ({ w with tries := w.tries.push { tree := t, root := root, prune := false },
              counts := w.counts.push [] }, w.tries.size)

def World.opSt (w : World) (i : Nat) : OpSt :=
  { store := { base := w.base, cache := none, failAfter := w.failAfter }, counts := w.counts[i]!, pending := [] }

def World.batchOpSt (w : World) (b : Batch) : OpSt :=
  { store := { base := w.base, cache := some b.cache, failAfter := w.failAfter }, counts := b.counts, pending := [] }

/-- target of an operation: trie number `i`, or the batch trie of the open block -/
inductive Target | trie (i : Nat) | batch

def World.setDel (w : World) (tg : Target) (key : Bytes) (val : Option Bytes) : Except Exn Unit × World :=
  match tg with
  | .trie i =>
    let (st', r) := opSetDel Hs blankRootHash w.tries[i]! key val (w.opSt i)
    let w' : World := { w with base := st'.store.base, failAfter := st'.store.failAfter,
                               counts := w.counts.set! i st'.counts }
    match r with
    | .ok T' => (.ok (), ({ w' with tries := w'.tries.set! i T' } : World).noteRoot T')
    | .error e => (.error e, w')
  | .batch =>
    match w.batch with
    | none => (.error (.validation "no-batch"), w)
    | some b =>
      let (st', r) := opSetDel Hs blankRootHash b.trie key val (w.batchOpSt b)
      let b' : Batch := { b with cache := st'.store.cache.getD [], counts := st'.counts }
      let w' : World := { w with base := st'.store.base, failAfter := st'.store.failAfter }
      match r with
      | .ok T' => (.ok (), ({ w' with batch := some { b' with trie := T' } } : World).noteRoot T')
      | .error e => (.error e, { w' with batch := some b' })

def World.get (w : World) (tg : Target) (key : Bytes) : Except Exn Bytes :=
  match tg with
  | .trie i => opGet Hs blankRootHash w.tries[i]! key (w.opSt i)
  | .batch => match w.batch with
    | none => .error (.validation "no-batch")
    | some b => opGet Hs blankRootHash b.trie key (w.batchOpSt b)

def World.trieOf (w : World) (tg : Target) : TrieSt :=
  match tg with
  | .trie i => w.tries[i]!
  | .batch => match w.batch with | some b => b.trie | none => default

/-- `with trie.squash_changes() as batch:` -/
def World.batchBegin (w : World) (i : Nat) : World :=
  let T := w.tries[i]!
  { w with batch := some { outer := i, cache := [], trie := { T with prune := true },
                           counts := if T.prune then w.counts[i]! else [] } }

/-- `ScratchDB.batch_commit`'s `else:` branch — the commit loop; a failing write stops it -/
def commitLoop (doDeletes : Bool) : List (Hash × Option Bytes) → Dict Bytes → Option Nat →
    Bool × Dict Bytes × Option Nat
  | [], base, fa => (true, base, fa)
  | (k, some v) :: rest, base, fa =>
    match fa with
    | some 0 => (false, base, fa)
    | some (n+1) => commitLoop doDeletes rest (Dict.insert base k v) (some n)
    | none => commitLoop doDeletes rest (Dict.insert base k v) none
  | (k, none) :: rest, base, fa =>
    commitLoop doDeletes rest (if doDeletes then Dict.erase base k else base) fa

/-- leaving the block: `raised = true` when the body raised (nothing is committed) -/
def World.batchEnd (w : World) (raised : Bool) : Except Exn Unit × World :=
  match w.batch with
  | none => (.error (.validation "no-batch"), w)
  | some b =>
    if raised then (.ok (), { w with batch := none })
    else
      let outer := w.tries[b.outer]!
      let (ok, base', fa') := commitLoop outer.prune b.cache w.base w.failAfter
      if ok then
        let T' : TrieSt := { tree := b.trie.tree, root := b.trie.root, prune := outer.prune }
        (.ok (), { w with base := base', failAfter := fa', batch := none,
                          tries := w.tries.set! b.outer T',
                          counts := if outer.prune then w.counts.set! b.outer b.counts else w.counts })
      else (.error .writeFailed, { w with base := base', failAfter := fa', batch := none })

end PyTrie.HexW
