import PyTrie.Model.HexEff
/-! Layer E, second half: a *world* (database, tries, open batch, reference counts) and the way
    `HexaryTrie.set/delete/get/squash_changes/at_root`, `ScratchDB` and the pruning bookkeeping
    (`_prune_on_success`, `_prune_node`, `_complete_pruning`, `_set_root_node`, `_set_db_value`)
    apply an event list to it, including where an exception leaves things.

    The tree of every trie is carried along (the code re-reads it from the database); the
    database is nevertheless maintained exactly as the code maintains it, and every `read` is
    checked against it, so missing nodes and failing writes behave as in the code. -/
namespace PyTrie.HexW
open PyTrie.Hex hiding get set
open PyTrie.Hex.Node

abbrev Dict (α : Type) := List (Hash × α)

namespace Dict
def get? {α} (d : Dict α) (h : Hash) : Option α := (d.find? (fun e => e.1 == h)).map (·.2)
def contains {α} (d : Dict α) (h : Hash) : Bool := d.any (fun e => e.1 == h)
/-- `d[h] = v`: overwrite in place (keeps the first insertion position, as a Python dict) -/
def insert {α} (d : Dict α) (h : Hash) (v : α) : Dict α :=
  if d.contains h then d.map (fun e => if e.1 == h then (h, v) else e) else d ++ [(h, v)]
def erase {α} (d : Dict α) (h : Hash) : Dict α := d.filter (fun e => !(e.1 == h))
end Dict

abbrev Counts := Dict Nat
def Counts.val (c : Counts) (h : Hash) : Nat := (Dict.get? c h).getD 0
def Counts.inc (c : Counts) (h : Hash) : Counts := Dict.insert c h (c.val h + 1)

inductive Exn where
  | missingTrieNode (h root key : Bytes) (pre : Option Path)
  | missingTraversalNode (h : Bytes) (traversed : Path)
  | validation (what : String)
  | writeFailed
  | getErr
  deriving Repr

/-- the database a trie talks to: a plain dict, or a `ScratchDB` (cache of writes / DELETED
    markers) in front of it; `failAfter` injects a failing `__setitem__` on the plain dict -/
structure Store where
  base : Dict Bytes
  cache : Option (Dict (Option Bytes))
  failAfter : Option Nat

structure OpSt where
  store : Store
  counts : Counts
  pending : Counts

abbrev M := ExceptT Exn (StateM OpSt)

/-- `key in db` / a successful `db[key]` -/
def Store.contains (s : Store) (h : Hash) : Bool :=
  match s.cache with
  | none => s.base.contains h
  | some c => match Dict.get? c h with
    | some (some _) => true
    | _ => s.base.contains h

def Store.get? (s : Store) (h : Hash) : Option Bytes :=
  match s.cache with
  | none => Dict.get? s.base h
  | some c => match Dict.get? c h with
    | some (some v) => some v
    | _ => Dict.get? s.base h

def dbHas (h : Hash) : M Bool := do return (← get).store.contains h

/-- `db[key] = value` -/
def dbWrite (h : Hash) (b : Bytes) : M Unit := do
  let s ← get
  match s.store.cache with
  | some c => set { s with store := { s.store with cache := some (Dict.insert c h (some b)) } }
  | none =>
    match s.store.failAfter with
    | some 0 => throw .writeFailed
    | some (n+1) => set { s with store := { s.store with base := Dict.insert s.store.base h b, failAfter := some n } }
    | none => set { s with store := { s.store with base := Dict.insert s.store.base h b } }

/-- `del db[key]`; `false` stands for the `KeyError` of a plain dict (a ScratchDB never raises) -/
def dbDel (h : Hash) : M Bool := do
  let s ← get
  match s.store.cache with
  | some c => set { s with store := { s.store with cache := some (Dict.insert c h none) } }; return true
  | none =>
    if s.store.base.contains h then
      set { s with store := { s.store with base := Dict.erase s.store.base h } }; return true
    else return false

/-- `_set_db_value` -/
def setDbValue (prune : Bool) (h : Hash) (b : Bytes) : M Unit := do
  dbWrite h b
  if prune then modify fun s => { s with counts := s.counts.inc h }

structure TrieSt where
  tree : Node
  root : Hash
  prune : Bool
  deriving Inhabited

variable (Hs : Hashing) (blankRootHash : Hash)

def runEv (prune : Bool) (root key : Bytes) : Ev → M Unit
  | .read h => do
    if !(← dbHas h) then throw (.missingTrieNode h root key none)
  | .persist h b => setDbValue prune h b
  | .prune h => do if prune then modify fun s => { s with pending := s.pending.inc h }

/-- `_complete_pruning` -/
def completePruning : M Unit := do
  let pend := (← get).pending
  for (key, n) in pend do
    let cur := (← get).counts.val key
    if cur ≤ n then
      -- new_count <= 0: delete from the database, `KeyError` becomes `ValidationError`
      if !(← dbDel key) then throw (.validation "prune-missing")
      modify fun s => { s with counts := Dict.erase s.counts key }
    else
      modify fun s => { s with counts := Dict.insert s.counts key (cur - n) }

/-- `set` / `delete` (value `none`), inside `_prune_on_success`: the body of the `with` block -/
def opBody (T : TrieSt) (key : Bytes) (val : Option Bytes) : M TrieSt := do
  -- root_node = self.get_node(self.root_hash)
  if T.root ≠ blankRootHash then
    if !(← dbHas T.root) then throw (.missingTrieNode T.root T.root key none)
  let r := match val with
    | some v => if v = [] then deleteE Hs T.tree (nibs key) else setE Hs T.tree (nibs key) v
    | none => deleteE Hs T.tree (nibs key)
  for ev in r.2 do runEv T.prune T.root key ev
  -- _set_root_node
  if T.prune && T.root ≠ blankRootHash then
    if (← dbHas T.root) then                       -- get_node(old_root_hash) did not raise
      if !(Hs.hashed T.tree) then                  -- node_body is None: a short root
        modify fun s => { s with pending := s.pending.inc T.root }
  let newRoot ← (if isBlank r.1 then pure blankRootHash else do
    let h := Hs.hashOf r.1
    setDbValue T.prune h (Hs.encOf r.1)
    pure h)
  if T.prune then completePruning
  return { T with tree := r.1, root := newRoot }

/-- `set`/`delete` with `_prune_on_success`'s `finally` (pending keys dropped on every exit) -/
def opSetDel (T : TrieSt) (key : Bytes) (val : Option Bytes) : M TrieSt :=
  fun s =>
    let (r, s') := (opBody Hs blankRootHash T key val) { s with pending := [] }
    (r, { s' with pending := [] })

/-- `get`: root fetch, then `_traverse_from`'s fetches, then `_get` -/
def opGet (T : TrieSt) (key : Bytes) : M Bytes := do
  if T.root ≠ blankRootHash then
    if !(← dbHas T.root) then throw (.missingTrieNode T.root T.root key (some []))
  for (h, pre) in traverseReads Hs T.tree (nibs key) [] do
    if !(← dbHas h) then throw (.missingTrieNode h T.root key (some pre))
  match getT T.tree (nibs key) with
  | .ok v => return v
  | .error _ => throw .getErr

/-- multiset of counted references, as `regenerate_ref_count` walks them: the root, then hashed
    children of hashed (or root) nodes; embedded children are skipped altogether -/
def regenSub : Node → List Hash
  | blank => []
  | leaf _ _ => []
  | ext _ c => if Hs.hashed c then Hs.hashOf c :: regenSub c else []
  | branch ch _ => (List.finRange 16).flatMap fun i =>
      if Hs.hashed (ch i) then Hs.hashOf (ch i) :: regenSub (ch i) else []

def regen (t : Node) : List Hash := if isBlank t then [] else Hs.hashOf t :: regenSub Hs t

end PyTrie.HexW

namespace PyTrie.HexW
open PyTrie.Hex hiding get set
open PyTrie.Hex.Node

/-- an open `squash_changes` block: the ScratchDB cache, the batch trie and its reference counts
    (its own copy since fix D2) -/
structure Batch where
  outer : Nat
  cache : Dict (Option Bytes)
  trie : TrieSt
  counts : Counts

structure World where
  base : Dict Bytes := []
  failAfter : Option Nat := none
  tries : Array TrieSt := #[]
  counts : Array Counts := #[]
  batch : Option Batch := none
  roots : List (Hash × Node) := []      -- every root a trie has had, with its tree
  deriving Inhabited

variable (Hs : Hashing) (blankRootHash : Hash)

def World.noteRoot (w : World) (T : TrieSt) : World :=
  if w.roots.any (fun e => e.1 == T.root) then w else { w with roots := (T.root, T.tree) :: w.roots }

/-- `HexaryTrie(db, prune=…)` on the world's database, empty root -/
def World.newTrie (w : World) (prune : Bool) : World × Nat :=
  ({ w with tries := w.tries.push { tree := blank, root := blankRootHash, prune := prune },
            counts := w.counts.push [] }, w.tries.size)

/-- `HexaryTrie(db, root)` / `at_root(root)`: a non-pruning trie at a root that existed before -/
def World.openAt (w : World) (root : Hash) : Option (World × Nat) :=
  let tree? := if root == blankRootHash then some blank else (w.roots.find? (fun e => e.1 == root)).map (·.2)
  tree?.map fun t =>
    ({ w with tries := w.tries.push { tree := t, root := root, prune := false },
              counts := w.counts.push [] }, w.tries.size)

def World.runTrie {α} (w : World) (i : Nat) (act : TrieSt → M α) : Except Exn α × World :=
  let st : OpSt := { store := { base := w.base, cache := none, failAfter := w.failAfter },
                     counts := w.counts[i]!, pending := [] }
  let (r, st') := act w.tries[i]! st
  (r, { w with base := st'.store.base, failAfter := st'.store.failAfter,
               counts := w.counts.set! i st'.counts })

def World.runBatch {α} (w : World) (b : Batch) (act : TrieSt → M α) : Except Exn α × World × Batch :=
  let st : OpSt := { store := { base := w.base, cache := some b.cache, failAfter := w.failAfter },
                     counts := b.counts, pending := [] }
  let (r, st') := act b.trie st
  (r, w, { b with cache := st'.store.cache.getD [], counts := st'.counts })

/-- target of an operation: trie number `i`, or the batch trie of the open block -/
inductive Target | trie (i : Nat) | batch

def World.setDel (w : World) (tg : Target) (key : Bytes) (val : Option Bytes) : Except Exn Unit × World :=
  match tg with
  | .trie i =>
    match w.runTrie i (fun T => opSetDel Hs blankRootHash T key val) with
    | (.ok T', w') => (.ok (), ({ w' with tries := w'.tries.set! i T' } : World).noteRoot T')
    | (.error e, w') => (.error e, w')
  | .batch =>
    match w.batch with
    | none => (.error (.validation "no-batch"), w)
    | some b =>
      match w.runBatch b (fun T => opSetDel Hs blankRootHash T key val) with
      | (.ok T', w', b') => (.ok (), ({ w' with batch := some { b' with trie := T' } } : World).noteRoot T')
      | (.error e, w', b') => (.error e, { w' with batch := some b' })

def World.get (w : World) (tg : Target) (key : Bytes) : Except Exn Bytes :=
  match tg with
  | .trie i => (w.runTrie i (fun T => opGet Hs blankRootHash T key)).1
  | .batch => match w.batch with
    | none => .error (.validation "no-batch")
    | some b => (w.runBatch b (fun T => opGet Hs blankRootHash T key)).1

def World.trieOf (w : World) (tg : Target) : TrieSt :=
  match tg with
  | .trie i => w.tries[i]!
  | .batch => match w.batch with | some b => b.trie | none => default

/-- `with trie.squash_changes() as batch:` -/
def World.batchBegin (w : World) (i : Nat) : World :=
  let T := w.tries[i]!
  { w with batch := some { outer := i, cache := [], trie := { T with prune := true },
                           counts := if T.prune then w.counts[i]! else [] } }

/-- `ScratchDB.batch_commit`'s `else:` branch — the commit loop; a failing write stops it -/
def commitLoop (doDeletes : Bool) : List (Hash × Option Bytes) → Dict Bytes → Option Nat →
    Bool × Dict Bytes × Option Nat
  | [], base, fa => (true, base, fa)
  | (k, some v) :: rest, base, fa =>
    match fa with
    | some 0 => (false, base, fa)
    | some (n+1) => commitLoop doDeletes rest (Dict.insert base k v) (some n)
    | none => commitLoop doDeletes rest (Dict.insert base k v) none
  | (k, none) :: rest, base, fa =>
    commitLoop doDeletes rest (if doDeletes then Dict.erase base k else base) fa

/-- leaving the block: `raised = true` when the body raised (nothing is committed) -/
def World.batchEnd (w : World) (raised : Bool) : Except Exn Unit × World :=
  match w.batch with
  | none => (.error (.validation "no-batch"), w)
  | some b =>
    if raised then (.ok (), { w with batch := none })
    else
      let outer := w.tries[b.outer]!
      let (ok, base', fa') := commitLoop outer.prune b.cache w.base w.failAfter
      if ok then
        let T' : TrieSt := { tree := b.trie.tree, root := b.trie.root, prune := outer.prune }
        (.ok (), { w with base := base', failAfter := fa', batch := none,
                          tries := w.tries.set! b.outer T',
                          counts := if outer.prune then w.counts.set! b.outer b.counts else w.counts })
      else (.error .writeFailed, { w with base := base', failAfter := fa', batch := none })

end PyTrie.HexW
