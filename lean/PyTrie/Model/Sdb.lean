import PyTrie.Model.HexWorld
/-! `trie/utils/db.py`: `ScratchDB` on its own (the hexary world model uses the same functions through
    `HexW.Store`). `wrapped` and `cache` are insertion-ordered dicts (`HexW.Dict`); a cache value `none`
    is the `DELETED` marker.

    Python ↔ model: `__getitem__` ↔ `getItem`, `__setitem__` ↔ `setItem`, `__delitem__` ↔ `delItem`,
    `__contains__` ↔ `contains`, `copy` ↔ `copy`, leaving `batch_commit` normally ↔ `commit`
    (with an injected failure of the wrapped dict's n-th write), by exception ↔ `abort`. -/
namespace PyTrie.Sdb
open PyTrie.HexW

structure Sdb where
  wrapped : Dict Bytes := []
  cache : Dict (Option Bytes) := []
  deriving Inhabited

/-- `__getitem__`; `none` = `KeyError` from the wrapped database -/
def getItem (s : Sdb) (k : Bytes) : Option Bytes :=
  match Dict.get? s.cache k with
  | some (some v) => some v
  | _ => Dict.get? s.wrapped k

def setItem (s : Sdb) (k v : Bytes) : Sdb := { s with cache := Dict.insert s.cache k (some v) }

def delItem (s : Sdb) (k : Bytes) : Sdb := { s with cache := Dict.insert s.cache k none }

def contains (s : Sdb) (k : Bytes) : Bool :=
  match Dict.get? s.cache k with
  | some (some _) => true
  | _ => s.wrapped.contains k

/-- `copy()`: `merge(wrapped, cache)` without the `DELETED` entries (as a set of pairs) -/
def copy (s : Sdb) : Dict Bytes :=
  let merged : Dict (Option Bytes) := s.cache.foldl (fun acc e => Dict.insert acc e.1 e.2) (s.wrapped.map fun e => (e.1, some e.2))
  merged.filterMap fun e => e.2.map fun v => (e.1, v)

/-- leaving the `batch_commit` block normally: the commit loop over the cache in insertion order
    (a failing write of the wrapped dict stops it), then `finally: self.cache = {}`.
    Returns whether the loop completed, the new ScratchDB and the remaining failure budget. -/
def commit (s : Sdb) (doDeletes : Bool) (failAfter : Option Nat) : Bool × Sdb × Option Nat :=
  let r := commitLoop doDeletes s.cache s.wrapped failAfter
  (r.1, { wrapped := r.2.1, cache := [] }, r.2.2)

/-- leaving the block by an exception: nothing is applied, the buffer is dropped -/
def abort (s : Sdb) : Sdb := { s with cache := [] }

end PyTrie.Sdb
