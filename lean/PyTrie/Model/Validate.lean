import PyTrie.Model.Basic
/-! Argument validation at the public entry points (C18): `trie/validation.py`, `Nibbles.__new__`
    (`trie/typing.py`) and the order in which each entry point applies them, over a sum type of the
    Python values a caller might pass.

    `validate ep ctx args` returns `.ok ()` when the call gets past its up-front validation (what it
    then does is the business of the other models) and the exception class otherwise. `ctx` is the
    tree's key size for the SparseMerkleTree / proof entry points. -/
namespace PyTrie.Val

inductive PyVal where
  | bytes (b : Bytes)
  | bytearray (b : Bytes)     -- bytes-like but not `bytes` (bytearray, memoryview): has a length, is not list-like
  | str
  | int (n : Int)
  | none
  | list (l : List PyVal)       -- list or tuple
  | dict
  deriving Inhabited

inductive Exc | validation | valueError | typeError
  deriving DecidableEq, Repr

/-- `validate_is_bytes` -/
def isBytes : PyVal → Except Exc Bytes
  | .bytes b => .ok b
  | _ => .error .validation

/-- `validate_length(value, n)` on something with a `len` -/
def hasLength (v : PyVal) (n : Nat) : Except Exc Unit :=
  match v with
  | .bytes b => if b.length = n then .ok () else .error .validation
  | .bytearray b => if b.length = n then .ok () else .error .validation
  | .list l => if l.length = n then .ok () else .error .validation
  | _ => .error .typeError        -- `len()` of an int / None raises TypeError

/-- `Nibble(x)` for one element -/
def isNibble : PyVal → Bool
  | .int n => 0 ≤ n && n ≤ 15
  | _ => false

/-- `Nibbles(x)`: TypeError unless list-like (bytes and str are not), ValueError for a bad element -/
def isNibbles : PyVal → Except Exc Unit
  | .list l => if l.all isNibble then .ok () else .error .valueError
  | _ => .error .typeError

/-- a sequence of nibble sequences (`foggy_sub_segments`, `prefix_inputs`) -/
def isNibblesList : PyVal → Except Exc Unit
  | .list l => l.foldlM (fun _ x => isNibbles x) ()
  | _ => .error .typeError

def arg (args : List PyVal) (i : Nat) : PyVal := args.getD i .none

def bytesLen (v : PyVal) : Nat := match v with | .bytes b => b.length | _ => 0

/-- the up-front validation of each public entry point, in the code's order -/
def validate (ep : String) (ctx : Nat) (args : List PyVal) : Except Exc Unit :=
  let a := arg args
  let key1 : Except Exc Unit := (isBytes (a 0)).map fun _ => ()
  let keyval : Except Exc Unit := do let _ ← isBytes (a 0); let _ ← isBytes (a 1); pure ()
  match ep with
  -- HexaryTrie
  | "hx.init" => key1
  | "hx.init_refcount_noprune" => .error .valueError
  | "hx.get" | "hx.exists" | "hx.getitem" | "hx.contains" | "hx.delete" | "hx.delitem" | "hx.get_proof" => key1
  | "hx.set" | "hx.setitem" => keyval
  | "hx.traverse" => isNibbles (a 0)
  | "hx.traverse_from" => isNibbles (a 0)
  | "hx.at_root_pruning" => .error .validation
  | "hx.get_from_proof" => keyval            -- root hash, then key
  -- BinaryTrie and the branch helpers
  | "bin.init" | "bin.get" | "bin.exists" | "bin.delete" | "bin.delete_subtrie" | "bin.getitem" | "bin.contains" => key1
  | "bin.set" | "bin.setitem" => keyval
  | "br.exist" | "br.get_branch" | "br.witness" | "br.valid" => key1
  -- SparseMerkleTree, calc_root, SparseMerkleProof
  | "smt.init" => match a 0 with
    | .int n => if 1 ≤ n && n ≤ 32 then .ok () else .error .validation
    | _ => .error .typeError
  | "smt.get" | "smt.branch" | "smt.exists" | "smt.delete" | "smt.getitem" | "smt.contains" | "smt.delitem" => do
    let _ ← isBytes (a 0); hasLength (a 0) ctx
  | "smt.set" | "smt.setitem" => do
    let _ ← isBytes (a 0); hasLength (a 0) ctx; let _ ← isBytes (a 1); pure ()
  | "smt.from_db" => do let _ ← isBytes (a 0); hasLength (a 0) 32
  | "smt.calc_root" | "smt.proof_init" => do
    let _ ← isBytes (a 0); let _ ← isBytes (a 1); hasLength (a 2) (bytesLen (a 0) * 8)
  | "smt.proof_update" => do let _ ← isBytes (a 0); hasLength (a 0) ctx
  -- HexaryTrieFog and Nibbles
  | "fog.explore" => do isNibbles (a 0); isNibblesList (a 1)
  | "fog.mark_all_complete" => isNibblesList (a 0)
  | "fog.nearest_unknown" | "fog.nearest_right" => isNibbles (a 0)
  | "nibbles.new" => isNibbles (a 0)
  | _ => .error .typeError

end PyTrie.Val
