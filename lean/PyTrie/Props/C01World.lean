import PyTrie.Lemmas.WorldGet
/-! # C01 — through the executor and the database (companion of `Props/C01.lean`)

`ReachOps prune ops T s`: the trie state `T` and store `s` reached by applying the history `ops` to a fresh
`HexaryTrie(db={}, prune=…)` through `opSetDel` — i.e. with all the database traffic, the pruning
bookkeeping (`_prune_on_success`, `_complete_pruning`) and the root pointer updates of the code — carrying
the run-level no-collision facts of each step (`RefSound`; no node hashes to the blank root; for the
non-pruning trie `NoClobber` of the step's writes). `opGet` is `get`: root fetch, `_traverse_from`'s fetches
through the database, `_get`. -/
namespace PyTrie.Props.C01
open PyTrie PyTrie.Hex PyTrie.HexW

/-- the executor computes the tree-level history -/
theorem world_tree (Hs : Hashing) (blankRootHash : Hash) (prune : Bool) (ops : List Op) (T : TrieSt) (s : OpSt)
    (h : ReachOps Hs blankRootHash prune ops T s) : T.tree = run ops ∧ T.prune = prune :=
  reachOps_tree Hs blankRootHash prune ops T s h

/-- no `set` / `delete` of such a history ever raises -/
theorem world_progress (Hs : Hashing) (blankRootHash : Hash) (prune : Bool) (ops : List Op) (T : TrieSt) (s : OpSt)
    (h : ReachOps Hs blankRootHash prune ops T s) (o : Op)
    (hrs : RefSound Hs T.tree (nibs (opKey o)))
    (hbl : isBlank (opTree Hs T (opKey o) (opVal o)).1 = false → Hs.hashOf (opTree Hs T (opKey o) (opVal o)).1 ≠ blankRootHash)
    (hnc : prune = false → NoClobber s.store.base (opWrites Hs T (opKey o) (opVal o))) :
    ∃ T', (opSetDel Hs blankRootHash T (opKey o) (opVal o) s).2 = .ok T' :=
  reachOps_progress Hs blankRootHash prune ops T s h o hrs hbl hnc

/-- **`get(k)` through the database** returns the value most recently stored under `k` and `b""` for every
    other key, and never raises — for every history, every byte-string key, pruning on or off -/
theorem world_get (Hs : Hashing) (blankRootHash : Hash) (prune : Bool) (ops : List Op) (T : TrieSt) (s : OpSt)
    (h : ReachOps Hs blankRootHash prune ops T s) (key : Bytes) :
    opGet Hs blankRootHash T key s = .ok (spec ops key) :=
  reachOps_get Hs blankRootHash prune ops T s h key

end PyTrie.Props.C01
