import PyTrie.Props.C09
import PyTrie.Lemmas.WalkBound
/-! # C09 — termination of whole walks ("always terminates with the fog complete")

`C09.step_decreases` is the one-step statement: while no consulted version stores a key longer than `L` nibbles, a step
strictly decreases the measure `mu L fog`, which starts at `17^(L+1)`. Here it is composed over whole walks, at the three
levels at which walks are modelled: the abstract walk (`wrun`), the walk as callers write it with the `TrieFrontierCache`
(`crun`), and the raw-level walk over root hash + database + cache of raw bodies with the caller's retry (`crunDR`), the trie
being modified between steps. In every case

    number of steps taken + measure of the fog that is left ≤ 17^(L+1),

so no walk has more than `17^(L+1)` steps, and a walk loop `while not fog.is_complete: step(some unexplored prefix)` — which
by `raw_walk_never_stuck` can always take its next step — must reach the complete fog. (Termination under unboundedly many
ever-longer keys is false and not claimed: `L` bounds the keys of the versions consulted.) -/
namespace PyTrie.Props.C09
open PyTrie PyTrie.Hex PyTrie.HexD PyTrie.Fog PyTrie.Walk

/-- every unexplored prefix weighs at least one -/
theorem fog_length_le_mu (L : Nat) (f : Fog) : f.length ≤ mu L f := by
  exact length_le_mu L f

/-- **whole abstract walks are bounded** -/
theorem walk_length_bounded (L : Nat) (sched : List (Node × Path)) (s' : WState)
    (hcanon : ∀ e ∈ sched, Canon e.1) (hL : ∀ e ∈ sched, ∀ k, get e.1 k ≠ [] → k.length ≤ L)
    (hrun : wrun start sched = some s') :
    sched.length + mu L s'.fog ≤ 17 ^ (L + 1) := by
  have h := wrun_bound L sched start s' wf_init (mu_start L).2 hcanon hL hrun
  have h0 : mu L start.fog = 17 ^ (L + 1) := (mu_start L).1
  omega

/-- **whole walks with the frontier cache are bounded** (stale cache entries included: each concrete step is an abstract step
    on a version of the schedule) -/
theorem concrete_walk_length_bounded (L : Nat) (sched : List (Node × Path)) (s' : CState)
    (hcanon : ∀ e ∈ sched, Canon e.1) (hL : ∀ e ∈ sched, ∀ k, get e.1 k ≠ [] → k.length ≤ L)
    (hrun : crun cstart sched = some s') :
    sched.length + mu L s'.fog ≤ 17 ^ (L + 1) := by
  have hcv : ∀ v ∈ sched.map Prod.fst, Canon v := by
    intro v hv
    obtain ⟨e, he, rfl⟩ := List.mem_map.mp hv
    exact hcanon e he
  obtain ⟨sched', hm, hV, hr⟩ := crun_is_wrun (sched.map Prod.fst) hcv sched cstart s'
    (fun e he => List.mem_map.mpr ⟨e, he, rfl⟩) (cacheOkV_empty _) hrun
  have hcan' : ∀ e ∈ sched', Canon e.1 := fun e he => hcv _ (hV e he)
  have hL' : ∀ e ∈ sched', ∀ k, get e.1 k ≠ [] → k.length ≤ L := by
    intro e he
    obtain ⟨e0, he0, h0⟩ := List.mem_map.mp (hV e he)
    rw [← h0]
    exact hL e0 he0
  have hlen : sched'.length = sched.length := by
    have := congrArg List.length hm
    simpa using this
  have h := walk_length_bounded L sched' (toW s') hcan' hL' hr
  rw [hlen] at h
  exact h

/-- **whole raw-level walks are bounded** — root hash and database as they are at each step, cache of raw bodies, retry on a
    stale entry; whatever state the run ends in -/
theorem raw_walk_length_bounded (H : Bytes → Bytes) (hlen : ∀ b, (H b).length = 32) (L : Nat) (sched : List StepT)
    (hok : SchedOk H sched) (hL : ∀ e ∈ sched, ∀ k, get e.t k ≠ [] → k.length ≤ L)
    (r : CStateD) (hrun : crunDR H cstartD (sched.map StepT.toD) = .ok (some r)) :
    sched.length + mu L r.fog ≤ 17 ^ (L + 1) ∧ sched.length + r.fog.length ≤ 17 ^ (L + 1) := by
  have h1 : sched.length + mu L r.fog ≤ 17 ^ (L + 1) := by
    rcases crunDR_is_wrun_len H hlen sched hok with hnone | ⟨s', hrun', sched', hlen', hmem, hwr⟩
    · rw [hnone] at hrun; cases hrun
    · rw [hrun'] at hrun
      have hr : r = toCD H s' := by
        injection hrun with hrun
        injection hrun with hrun
        exact hrun.symm
      subst hr
      have hcan' : ∀ x ∈ sched', Canon x.1 := by
        intro x hx
        obtain ⟨e0, he0, h0⟩ := hmem x hx
        rw [← h0]
        exact (hok.1 e0 he0).1
      have hL' : ∀ x ∈ sched', ∀ k, get x.1 k ≠ [] → k.length ≤ L := by
        intro x hx
        obtain ⟨e0, he0, h0⟩ := hmem x hx
        rw [← h0]
        exact hL e0 he0
      have h := walk_length_bounded L sched' (toW s') hcan' hL' hwr
      rw [hlen'] at h
      exact h
  have h2 := fog_length_le_mu L r.fog
  exact ⟨h1, by omega⟩

/-- hence: a raw-level walk that has taken `17^(L+1)` steps has a complete fog (and no walk is longer) -/
theorem raw_walk_complete_at_bound (H : Bytes → Bytes) (hlen : ∀ b, (H b).length = 32) (L : Nat) (sched : List StepT)
    (hok : SchedOk H sched) (hL : ∀ e ∈ sched, ∀ k, get e.t k ≠ [] → k.length ≤ L)
    (r : CStateD) (hrun : crunDR H cstartD (sched.map StepT.toD) = .ok (some r)) :
    sched.length ≤ 17 ^ (L + 1) ∧ (sched.length = 17 ^ (L + 1) → r.fog = []) := by
  obtain ⟨_, h⟩ := raw_walk_length_bounded H hlen L sched hok hL r hrun
  refine ⟨by omega, fun he => ?_⟩
  have : r.fog.length = 0 := by omega
  exact List.length_eq_zero_iff.1 this

end PyTrie.Props.C09
