import PyTrie.Lemmas.WorldMono
import PyTrie.Lemmas.WorldComplete
import PyTrie.Props.C03
/-! # C04 — non-pruning tries never lose or alter history: old roots stay readable

World executor (`Model/HexWorld.lean`): `opSetDel` is `HexaryTrie.set/delete` on a store, including
where a failing write or a missing node leaves things; `commitLoop` is the commit of
`ScratchDB.batch_commit`; `World.setDel` applies them to one of several tries sharing one database.
No injectivity of the hash is assumed: an old binding survives, *or the operation overwrote a key
with a different body* — which for content-addressed writes is a hash collision (`Clobbers`). -/
namespace PyTrie.Props.C04
open PyTrie PyTrie.Hex PyTrie.HexW

/-- every database write of `_set` is `db[hash(node)] = encoding(node)` -/
theorem set_writes_addressed (Hs : Hashing) (t : Node) (k : Path) (v : Bytes) :
    ∀ e ∈ writesOf (setE Hs t k v).2, ∃ n, e = (Hs.hashOf n, Hs.encOf n) := setE_writes_addressed Hs t k v

theorem delete_writes_addressed (Hs : Hashing) (t : Node) (k : Path) :
    ∀ e ∈ writesOf (deleteE Hs t k).2, ∃ n, e = (Hs.hashOf n, Hs.encOf n) := deleteE_writes_addressed Hs t k

/-- **append-only, at every crash point**: `set`/`delete` on a non-pruning trie over a plain dict —
    successful, failing on a missing node, or aborted by a failing write at *any* position (`failAfter`) —
    leaves every old binding unchanged (or exhibits a collision), adds only its own content-addressed
    writes, and deletes nothing -/
theorem set_delete_append_only (Hs : Hashing) (blankRootHash : Hash) (T : TrieSt) (hp : T.prune = false)
    (key : Bytes) (val : Option Bytes) (s : OpSt) (hc : s.store.cache = none) :
    let r := opSetDel Hs blankRootHash T key val s
    let ws := writesOf (opTree Hs T key val).2 ++ [(Hs.hashOf (opTree Hs T key val).1, Hs.encOf (opTree Hs T key val).1)]
    r.1.store.cache = none ∧
    (Preserved s.store.base r.1.store.base ∨ Clobbers s.store.base ws) ∧
    OnlyAdds s.store.base r.1.store.base ws := opSetDel_noprune_db Hs blankRootHash T hp key val s hc

/-- a failed operation leaves every trie's root pointer and tree as they were -/
theorem failed_op_keeps_roots (Hs : Hashing) (blankRootHash : Hash) (w : World) (i : Nat) (key : Bytes)
    (val : Option Bytes) (e : Exn) (h : (w.setDel Hs blankRootHash (.trie i) key val).1 = .error e) :
    (w.setDel Hs blankRootHash (.trie i) key val).2.tries = w.tries :=
  setDel_error_keeps_tries Hs blankRootHash w i key val e h

/-- the commit of a `squash_changes` block of a non-pruning trie only inserts, and this holds for
    every prefix of the commit loop, i.e. also when one of its writes fails -/
theorem batch_commit_append_only (cache : List (Hash × Option Bytes)) (base : Dict Bytes) (fa : Option Nat) :
    let r := commitLoop false cache base fa
    let ws := cache.filterMap (fun e => e.2.map (fun v => (e.1, v)))
    (Preserved base r.2.1 ∨ Clobbers base ws) ∧ OnlyAdds base r.2.1 ws := commitLoop_noDeletes cache base fa

/-- **old roots stay readable**: if the database resolved the stored nodes on a key's path of a
    historical tree `t` before, and the bindings were preserved, then a fresh trie opened at that root
    (the Layer-D reader over the later database) still returns exactly the historical contents -/
theorem old_root_still_readable (H : Bytes → Bytes) (hlen : ∀ b, (H b).length = 32)
    (t : Node) (hc : Canon t) (db db' : HexD.Db) (k : Path) (hdec : HexD.DecOkOn H t k)
    (hres : ∀ n ∈ getProof t k, HexD.Stored H t n → HexD.Resolves H db n)
    (hpres : ∀ h b, HexD.lookup db h = some b → HexD.lookup db' h = some b) :
    HexD.getD H db' (rootHash H t) k = .ok (get t k) := by
  apply HexD.getD_of_path H hlen t hc db' k hdec
  intro n hn hs
  obtain ⟨h1, h2⟩ := hres n hn hs
  exact ⟨h1, hpres _ _ h2⟩

/-- `Dict.get?` of the world model and `lookup` of the Layer-D reader are the same function -/
theorem lookup_eq_get? (d : Dict Bytes) (h : Hash) : HexD.lookup d h = Dict.get? d h := rfl

/-! ## The completeness invariant (proved after the first round)

`Complete d T`: the root pointer is the hash of the tree, the root node and every hashed subtree are
stored under their hashes with their encodings. -/

/-- **a non-pruning `set` / `delete` on a complete database never raises, computes the tree-level
    operation, keeps every old binding and leaves a complete database for the new root** (no write fault
    injected; `NoClobber` is the run-level no-collision predicate for this operation's writes) -/
theorem op_keeps_complete (Hs : Hashing) (blankRootHash : Hash) (T : TrieSt) (hp : T.prune = false) (hc : Canon T.tree)
    (key : Bytes) (val : Option Bytes) (s : OpSt) (hcache : s.store.cache = none) (hfa : s.store.failAfter = none)
    (hcomp : Complete Hs blankRootHash s.store.base T) (hrs : RefSound Hs T.tree (nibs key))
    (hnc : NoClobber s.store.base (opWrites Hs T key val))
    (hblank : isBlank (opTree Hs T key val).1 = false → Hs.hashOf (opTree Hs T key val).1 ≠ blankRootHash) :
    ∃ T', (opSetDel Hs blankRootHash T key val s).2 = .ok T' ∧
      T'.tree = (opTree Hs T key val).1 ∧ T'.prune = false ∧
      Preserved s.store.base (opSetDel Hs blankRootHash T key val s).1.store.base ∧
      Complete Hs blankRootHash (opSetDel Hs blankRootHash T key val s).1.store.base T' := by
  obtain ⟨T', h1, _, h3, h4, h5⟩ := opSetDel_complete Hs blankRootHash T hp hc key val s hcache hfa hcomp hrs hnc hblank
  refine ⟨T', h1, ?_, h3, h4, h5⟩
  -- the new tree is the first component of `opTree` by definition of the executor
  unfold opSetDel at h1
  simp only at h1
  unfold opCore at h1
  split at h1
  · cases h1
  · split at h1
    · cases h1
    · split at h1
      · cases h1
      · split at h1
        · cases h1
        · simp only [Except.ok.injEq] at h1
          rw [← h1]

/-- every trie that was complete stays complete whatever is added later (other tries on the same
    database, later operations, batches): bindings are only ever preserved -/
theorem complete_survives (Hs : Hashing) (blankRootHash : Hash) (d d' : Dict Bytes) (hp : Preserved d d') (T : TrieSt)
    (h : Complete Hs blankRootHash d T) : Complete Hs blankRootHash d' T := complete_mono Hs blankRootHash d d' hp T h

end PyTrie.Props.C04
