import PyTrie.Props.C09Termination
import PyTrie.Props.HistoryProgress
import PyTrie.Lemmas.FailCommitAux
/-! # C09 — a fog-guided walk interleaved with a history that contains `squash_changes` blocks (non-pruning trie)

`C09.walk_over_history` interleaves the walk with direct `set` / `delete` calls. The repository's own walk tests change the trie
through `squash_changes` while walking. Here: events are steps of a history with blocks (`HStep`: a direct call, a block left
normally or by an exception) or steps of the walk; each walk step sees the database, root and version of the tree-carrying world
at that moment (`schedOfB`). For a NON-pruning trie the database only gains bindings along such a history, so it stays complete
for every earlier version: the schedule satisfies `SchedOk`, and every theorem about raw-level walks applies — never raises
(with the caller's retry on stale cache entries), meets only what some version held, finds every key that kept its value, ends
within the bound. Premises: `Good'` of the history (no-collision facts of every call) and the two physical side conditions on
the database at each walk step. -/
namespace PyTrie.Props.C09
open PyTrie PyTrie.Hex PyTrie.HexD PyTrie.HexW PyTrie.HexRaw PyTrie.HexFree PyTrie.Fog PyTrie.Walk
open PyTrie.Props.Free (Good')

inductive WEvB where
  | hstep (s : HStep)
  | step (p : Path)

section
variable (H : Bytes → Bytes)

def hstepsOf : List WEvB → List HStep
  | [] => []
  | .hstep s :: r => s :: hstepsOf r
  | .step _ :: r => hstepsOf r

/-- the steps of the walk with what the world is at each of them -/
def schedOfB (w : World) : List WEvB → List StepT
  | [] => []
  | .step p :: r => ⟨w.base, (w.tries[0]!).root, (w.tries[0]!).tree, p⟩ :: schedOfB w r
  | .hstep s :: r => schedOfB (stepW H w s).2 r

/-- the two physical side conditions on the database a walk step reads: nothing stored under the blank root's hash, every
    body shorter than 2^64 bytes -/
def StepsPhysical (sched : List StepT) : Prop :=
  ∀ e ∈ sched, Dict.get? e.db (blankRoot H) = none ∧ ∀ h b, Dict.get? e.db h = some b → b.length < 2 ^ 64

/-- inside a block the block invariant is kept under the weaker premise -/
private theorem inner_binv (w0 : World) (inner : List (Bytes × Option Bytes)) :
    ∀ w : World, BInv H false w0 w → PyTrie.Props.Free.GoodInner' H w inner → BInv H false w0 (innerW H w inner).2 := by
  induction inner with
  | nil => intro w hb _; exact hb
  | cons kv rest ih =>
    obtain ⟨k, v⟩ := kv
    intro w hb hg
    obtain ⟨hg1, hg2⟩ := hg
    obtain ⟨b, hwb, _⟩ := hb.blk
    rw [hwb] at hg1
    simp only at hg1
    have hgc := PyTrie.Props.Free.batch_call_progress H false w0 w hb b hwb k v hg1
    have hb' := binv_inner H false w0 w hb b hwb k v hgc
    rw [innerW_cons]
    exact ih _ hb' hg2

/-- one step of a history on a non-pruning trie: the between-steps invariant is kept, no binding is lost -/
private theorem step_preserves (w : World) (hw : WInv H false w) (s : HStep) (rest : List HStep)
    (hg : Good' H w (s :: rest)) :
    WInv H false (stepW H w s).2 ∧ Preserved w.base (stepW H w s).2.base ∧ Good' H (stepW H w s).2 rest := by
  cases s with
  | op k v =>
    obtain ⟨hg1, hg2⟩ := hg
    have hgc := PyTrie.Props.Free.direct_call_progress H false w hw k v hg1
    have hinv' : WInv H false (stepW H w (.op k v)).2 := winv_op H false w hw k v hgc
    refine ⟨hinv', ?_, hg2⟩
    obtain ⟨hrs, hbl, hnc, _, _, T', hok⟩ := hgc
    obtain ⟨_, hbase, _⟩ := World.setDel_trie_ok (stdHashing H) (blankRoot H) w 0 k v T' hok
    have hnc' : NoClobber (w.opSt 0).store.base (opWrites (stdHashing H) w.tries[0]! k v) := hnc
    have hfa0 : (w.opSt 0).store.failAfter = none := hw.fa
    have hcomp0 : Complete (stdHashing H) (blankRoot H) (w.opSt 0).store.base w.tries[0]! := hw.comp
    obtain ⟨_, _, _, _, hpres, _⟩ := opSetDel_complete (stdHashing H) (blankRoot H) w.tries[0]! hw.pr
      hw.canon k v (w.opSt 0) rfl hfa0 hcomp0 hrs hnc' hbl
    rw [stepW_op]
    show Preserved w.base (w.setDel (stdHashing H) (blankRoot H) (.trie 0) k v).2.base
    rw [hbase]
    exact hpres
  | block inner raised =>
    obtain ⟨hg1, hg2⟩ := hg
    have hb1 := binv_begin H false w hw
    have j3 := inner_binv H w inner _ hb1 hg1
    have hinv' : WInv H false (stepW H w (.block inner raised)).2 := winv_end H false w _ hw j3 raised
    refine ⟨hinv', ?_, hg2⟩
    rw [stepW_block]
    show Preserved w.base ((innerW H (w.batchBegin 0) inner).2.batchEnd raised).2.base
    generalize (innerW H (w.batchBegin 0) inner).2 = w1 at j3
    obtain ⟨hbase0, hfa0, htries0, hcounts0, b, hb, hbo, hcan, hcomp, hpv, hnp⟩ := j3
    cases raised with
    | true =>
      rw [World.batchEnd_true_eq w1 b hb]
      show Preserved w.base w1.base
      rw [hbase0]
      exact fun _ _ h => h
    | false =>
      obtain ⟨bo, bc, bt, bn⟩ := b
      simp only at hbo
      subst hbo
      have hpr : (w1.tries[0]!).prune = false := by rw [htries0]; exact hw.pr
      obtain ⟨_, hc2⟩ := commit_np_complete (stdHashing H) (blankRoot H) w.base bt (w1.batchOpSt ⟨0, bc, bt, bn⟩)
        (hnp rfl).1 (hnp rfl).2 bc rfl hcomp
      rw [World.batchEnd_false_eq w1 _ hb hfa0]
      show Preserved w.base (commitLoop (w1.tries[0]!).prune bc w1.base none).2.1
      rw [hpr, hbase0]
      exact hc2

/-- **along a history with blocks on a non-pruning trie no database binding is ever lost** -/
theorem history_blocks_preserves (steps : List HStep) (w : World) (hw : WInv H false w) (hg : Good' H w steps) :
    Preserved w.base (runW H w steps).2.base := by
  induction steps generalizing w with
  | nil => exact fun _ _ h => h
  | cons s rest ih =>
    obtain ⟨h1, h2, h3⟩ := step_preserves H w hw s rest hg
    rw [runW_cons]
    exact fun h b hb => ih _ h1 h3 h b (h2 h b hb)

/-- every walk step of the interleaving sees a canonical version, a database complete for it that kept every binding of the
    starting database; later steps' databases keep every binding of earlier steps' databases -/
private theorem sched_inv (evs : List WEvB) : ∀ w : World, WInv H false w → Good' H w (hstepsOf evs) →
    (∀ e ∈ schedOfB H w evs, Canon e.t ∧ Complete (stdHashing H) (blankRoot H) e.db ⟨e.t, e.root, false⟩ ∧
      Preserved w.base e.db) ∧
    (schedOfB H w evs).Pairwise (fun a b => Preserved a.db b.db) := by
  induction evs with
  | nil => intro w _ _; exact ⟨fun e he => (by cases he), List.Pairwise.nil⟩
  | cons ev r ih =>
    intro w hw hg
    cases ev with
    | step p =>
      obtain ⟨i1, i2⟩ := ih w hw hg
      have hT : w.tries[0]! = ⟨(w.tries[0]!).tree, (w.tries[0]!).root, false⟩ := by
        have := hw.pr
        generalize w.tries[0]! = T at this ⊢
        obtain ⟨t, rt, pr⟩ := T
        simp only at this
        subst this
        rfl
      refine ⟨?_, ?_⟩
      · intro e he
        simp only [schedOfB, List.mem_cons] at he
        rcases he with he | he
        · subst he
          refine ⟨hw.canon, ?_, fun _ _ h => h⟩
          have := hw.comp
          rw [hT] at this
          exact this
        · exact i1 e he
      · simp only [schedOfB]
        exact List.Pairwise.cons (fun e he => (i1 e he).2.2) i2
    | hstep s =>
      obtain ⟨h1, h2, h3⟩ := step_preserves H w hw s (hstepsOf r) hg
      obtain ⟨i1, i2⟩ := ih _ h1 h3
      refine ⟨?_, i2⟩
      intro e he
      obtain ⟨a, b, c⟩ := i1 e he
      exact ⟨a, b, fun h x hx => c h x (h2 h x hx)⟩

/-- **the schedule of a walk interleaved with a history with blocks satisfies `SchedOk`** -/
theorem schedOk_of_history_with_blocks (hlen : ∀ b, (H b).length = 32) (evs : List WEvB)
    (hgood : Good' H (freshW H false) (hstepsOf evs))
    (hphys : StepsPhysical H (schedOfB H (freshW H false) evs)) :
    SchedOk H (schedOfB H (freshW H false) evs) := by
  have _ := hlen -- kept for uniformity with the raw-level theorems
  obtain ⟨h1, h2⟩ := sched_inv H evs _ (winv_fresh H false) hgood
  apply schedOk_of'
  refine ⟨?_, ?_⟩
  · intro e he
    obtain ⟨hc, hcomp, _⟩ := h1 e he
    obtain ⟨hbk, hsm⟩ := hphys e he
    have hag : DbAgrees e.db e.db := fun _ => rfl
    have hp := partial_of_complete H ⟨e.t, e.root, false⟩ e.db hcomp hbk hsm
    refine ⟨hc, hp.1, ?_, storedD_of_storedBelow H hag hbk hsm e.t hcomp.2⟩
    intro hb
    have h1 := hcomp.1
    simp only [hb, Bool.false_eq_true, if_false] at h1
    obtain ⟨_, _, hg⟩ := h1
    show (Dict.get? e.db e.root).isSome
    rw [hg]; rfl
  · refine List.Pairwise.imp_of_mem ?_ h2
    intro a b ha hb hab
    obtain ⟨_, hcomp, _⟩ := h1 a ha
    obtain ⟨hbk, hsm⟩ := hphys b hb
    have hcomp' := complete_mono (stdHashing H) (blankRoot H) a.db b.db hab _ hcomp
    exact (partial_of_complete H ⟨a.t, a.root, false⟩ b.db hcomp' hbk hsm).2

/-- **hence the walk never raises, is sound and finds every key that kept its value** (`raw_walk_finds_stable_and_sound`
    instantiated) -/
theorem walk_over_history_with_blocks (hlen : ∀ b, (H b).length = 32) (evs : List WEvB)
    (hgood : Good' H (freshW H false) (hstepsOf evs))
    (hphys : StepsPhysical H (schedOfB H (freshW H false) evs)) :
    let sched := schedOfB H (freshW H false) evs
    (crunDR H cstartD (sched.map StepT.toD) = .ok none) ∨
    ∃ s' : CState, crunDR H cstartD (sched.map StepT.toD) = .ok (some (toCD H s')) ∧
      (∀ k v, (k, v) ∈ s'.met → ∃ e ∈ sched, v ≠ [] ∧ get e.t k = v) ∧
      (s'.fog = [] → ∀ k val, val ≠ [] → (∀ e ∈ sched, get e.t k = val) → (k, val) ∈ s'.met) :=
  raw_walk_finds_stable_and_sound H hlen _ (schedOk_of_history_with_blocks H hlen evs hgood hphys)

end
end PyTrie.Props.C09

/-! ### termination for walks interleaved with histories with blocks -/
namespace PyTrie.Props.C09
open PyTrie PyTrie.Hex PyTrie.HexD PyTrie.HexW PyTrie.HexRaw PyTrie.HexFree PyTrie.Fog PyTrie.Walk
open PyTrie.Props.Free (Good')

/-- **a walk interleaved with a history with blocks is bounded**: steps taken + what is left of the fog ≤ 17^(L+1) while the
    versions between the steps store keys of at most `L` nibbles; at the bound the fog is complete -/
theorem walk_over_history_with_blocks_bounded (H : Bytes → Bytes) (hlen : ∀ b, (H b).length = 32) (L : Nat) (evs : List WEvB)
    (hgood : Good' H (freshW H false) (hstepsOf evs))
    (hphys : StepsPhysical H (schedOfB H (freshW H false) evs))
    (hL : ∀ e ∈ schedOfB H (freshW H false) evs, ∀ k, get e.t k ≠ [] → k.length ≤ L)
    (r : CStateD) (hrun : crunDR H cstartD ((schedOfB H (freshW H false) evs).map StepT.toD) = .ok (some r)) :
    (schedOfB H (freshW H false) evs).length + r.fog.length ≤ 17 ^ (L + 1) ∧
    ((schedOfB H (freshW H false) evs).length = 17 ^ (L + 1) → r.fog = []) :=
  ⟨(raw_walk_length_bounded H hlen L _ (schedOk_of_history_with_blocks H hlen evs hgood hphys) hL r hrun).2,
   (raw_walk_complete_at_bound H hlen L _ (schedOk_of_history_with_blocks H hlen evs hgood hphys) hL r hrun).2⟩

end PyTrie.Props.C09
