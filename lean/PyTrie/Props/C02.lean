import PyTrie.Props.C01
import PyTrie.Model.HexEnc
import PyTrie.Lemmas.YellowPaper
/-! # C02 — the root hash is a function of the contents only (canonical MPT root)

`rootHash H t = H (rlp (toItem H t))` is the Yellow-Paper encoding of the tree `t`
(hex-prefix paths, RLP, children shorter than 32 bytes embedded, root always hashed), written in
`Model/HexEnc.lean`. The theorems below show, for **every** hash function `H` (nothing is assumed
about it), that two histories with the same resulting mapping produce *the same tree*, hence the
same root, the same database for a pruning trie, the same everything; and that the empty mapping
has the blank root. Conformance of `toItem`/`rlp`/`hp`/Keccak with the Yellow Paper proper is
pinned by external vectors (four ethereum/tests roots + constants, checked on every run) and by
the independent Yellow-Paper oracle of the correspondence harness; the theorem
`root_eq_ypRoot` (tree = the Yellow Paper's `c(J,0)` construction) is future work and is recorded
as such in DESIGN.md. -/
namespace PyTrie.Props.C02
open PyTrie PyTrie.Hex PyTrie.Props.C01

/-- only byte-string keys are ever stored: paths outside the image of `nibs` hold nothing -/
theorem get_off_image (ops : List Op) (p : Path) (hp : ∀ k, p ≠ nibs k) : get (run ops) p = [] := by
  unfold run
  suffices h : ∀ (t : Node), get t p = [] → get (ops.foldl applyOp t) p = [] from h _ (by simp [Hex.get])
  induction ops with
  | nil => intro t h; exact h
  | cons o os ih =>
    intro t h
    apply ih
    cases o with
    | set k v =>
      simp only [applyOp]
      split
      · rw [Hex.get_delete]; simp [hp k, h]
      · rw [Hex.get_set]; simp [hp k, h]
    | delete k => simp only [applyOp]; rw [Hex.get_delete]; simp [hp k, h]

/-- Two histories (any order, overwrites, deletions, set-to-empty; by `flatten` also any batching)
    that lead to the same mapping lead to the same tree. -/
theorem run_eq_of_spec_eq (ops₁ ops₂ : List Op) (h : ∀ k, spec ops₁ k = spec ops₂ k) :
    run ops₁ = run ops₂ := by
  apply canon_unique _ _ (canon_run ops₁) (canon_run ops₂)
  intro p
  by_cases hp : ∃ k, p = nibs k
  · obtain ⟨k, rfl⟩ := hp
    rw [run_get, run_get, h]
  · have hp' : ∀ k, p ≠ nibs k := fun k e => hp ⟨k, e⟩
    rw [get_off_image ops₁ p hp', get_off_image ops₂ p hp']

/-- the root hash depends only on the contents, for every hash function -/
theorem root_depends_only_on_contents (H : Bytes → Bytes) (ops₁ ops₂ : List Op)
    (h : ∀ k, spec ops₁ k = spec ops₂ k) : rootHash H (run ops₁) = rootHash H (run ops₂) := by
  rw [run_eq_of_spec_eq ops₁ ops₂ h]

/-- … including histories that were applied through committed / aborted squash_changes blocks -/
theorem root_batched (H : Bytes → Bytes) (h₁ h₂ : List HOp)
    (h : ∀ k, spec (flatten h₁) k = spec (flatten h₂) k) :
    rootHash H (run (flatten h₁)) = rootHash H (run (flatten h₂)) :=
  root_depends_only_on_contents H _ _ h

/-- an empty mapping always has the blank root `H(rlp(b''))`, whatever happened before -/
theorem root_empty (H : Bytes → Bytes) (ops : List Op) (h : ∀ k, spec ops k = []) :
    rootHash H (run ops) = blankRoot H := by
  have : run ops = run [] := run_eq_of_spec_eq ops [] (fun k => by rw [h k]; rfl)
  rw [this]
  rfl

/-- with Keccak-256 the blank root is the constant `BLANK_NODE_HASH` of `trie/constants.py` -/
theorem blank_root_constant :
    toHex (blankRoot keccak) = "56e81f171bcc55a6ff8345e692c0f86e5b48e01b996cadc001622fb5e363b421" := by
  decide +kernel

/-- non-vacuity: two different insertion orders with an overwrite and a deleted key -/
example : (∀ k, spec [.set [1] [5], .set [2] [6], .set [1] [7], .delete [2]] k = spec [.set [2] [9], .delete [2], .set [1] [7]] k) := by
  intro k; simp only [spec, List.foldl, specStep]; split <;> simp_all

/-! ## Conformance with the Yellow Paper (Appendix D), proved

`YP.ypC` / `YP.ypRef` / `YP.ypRoot` are the paper's `c(J, i)`, `n(J, i)`, `TRIE(J)` written out literally over the list of
(nibble key, value) pairs (`Lemmas/YellowPaper.lean`). `itemsOf t` is the sorted list of the stored pairs
(`C10.items_exact`, `C10.items_sorted`). -/

/-- the raw node structure py-trie builds for any history **is** the Yellow Paper's construction applied
    to the current contents; the root hash is `TRIE(contents)` — for every hash function `H` -/
theorem root_is_yellow_paper_trie (H : Bytes → Bytes) (ops : List Op) :
    rootHash H (run ops) = YP.ypRoot H (YP.height (run ops)) (itemsOf (run ops)) :=
  YP.rootHash_eq_ypRoot H (run ops) (canon_run ops) _ (Nat.le_refl _)

/-- every canonical subtree is `c(J, i)` of its contents, every child reference is `n(J, i)` -/
theorem node_is_yellow_paper_c (H : Bytes → Bytes) (t : Node) (hc : Canon t) (hb : isBlank t = false) (pre : Path) :
    toItem H t = YP.ypC H (YP.height t) (YP.entriesAt t pre) pre.length :=
  YP.toItem_eq_ypC H t hc hb pre _ (Nat.le_refl _)

theorem ref_is_yellow_paper_n (H : Bytes → Bytes) (t : Node) (hc : Canon t) (pre : Path) :
    refOf H t = YP.ypRef H (YP.entriesAt t pre) (YP.ypC H (YP.height t) (YP.entriesAt t pre) pre.length) :=
  YP.refOf_eq_ypRef H t hc pre _ (Nat.le_refl _)

end PyTrie.Props.C02
