import PyTrie.Lemmas.FreeBatch
import PyTrie.Lemmas.BeamHistory
import PyTrie.Props.FreeExec
/-! # C05 and C07 stated directly on the tree-free transcription (what is run against the code)

`FWorld` = `squash_changes` without trees (`Model/HexFree.lean`). The C05 statements below need no run-level hypothesis: they
hold for every world, key, value and fault position. The C07 statements are about whole histories in which node bodies
disappear from the database and are supplied again between the calls ("beam sync"). -/
namespace PyTrie.Props.Free
open PyTrie PyTrie.Hex PyTrie.HexD PyTrie.HexW PyTrie.HexRaw PyTrie.HexFree

/-- an operation on the batch trie never touches the wrapped database, the fault counter, the outer trie or its counts -/
theorem batch_op_leaves_outer (H : Bytes → Bytes) (w : FWorld) (key : Bytes) (val : Option Bytes) :
    let w' := (w.setDel H true key val).2
    w'.base = w.base ∧ w'.failAfter = w.failAfter ∧ w'.outer = w.outer ∧ w'.counts = w.counts ∧
    (w.batch.isSome → w'.batch.isSome) :=
  fw_batch_op_leaves_outer H w key val

/-- **a block left by an exception restores the world exactly**, whatever was done inside it -/
theorem abort_restores (H : Bytes → Bytes) (w : FWorld) (hb : w.batch = none) (ops : List (Bytes × Option Bytes)) :
    ((FWorld.batchRun H w.batchBegin ops).batchEnd true).2 = w :=
  fw_abort_restores H w hb ops

/-- **a failing commit keeps the outer root and counts**, and the block is closed -/
theorem commit_failure_keeps_outer (H : Bytes → Bytes) (w : FWorld) (hb : w.batch = none) (ops : List (Bytes × Option Bytes)) :
    let wb := FWorld.batchRun H w.batchBegin ops
    (wb.batchEnd false).1 = .error .writeFailed →
    (wb.batchEnd false).2.outer = w.outer ∧ (wb.batchEnd false).2.counts = w.counts ∧ (wb.batchEnd false).2.batch = none :=
  fw_commit_failure_keeps_outer H w hb ops

/-- **a successful commit adopts the batch root** (counts iff pruning) and the database is what the commit loop wrote -/
theorem commit_adopts_root (H : Bytes → Bytes) (w : FWorld) (hb : w.batch = none) (ops : List (Bytes × Option Bytes)) :
    let wb := FWorld.batchRun H w.batchBegin ops
    (wb.batchEnd false).1 = .ok () →
    ∃ b, wb.batch = some b ∧ (wb.batchEnd false).2.outer = { w.outer with root := b.trie.root } ∧
      (wb.batchEnd false).2.counts = (if w.outer.prune then b.counts else w.counts) ∧ (wb.batchEnd false).2.batch = none ∧
      (wb.batchEnd false).2.base = (commitLoop w.outer.prune b.cache w.base w.failAfter).2.1 :=
  fw_commit_adopts_root H w hb ops

/-- the partial-consistency invariant is kept by every event of a history with withheld bodies -/
theorem beam_invariant_step (H : Bytes → Bytes) (hlen : ∀ b, (H b).length = 32) (T : TrieSt) (s : OpSt) (e : BEv)
    (hinv : BeamInv H T s) (hg : GoodEv H T s e) : BeamInv H (bstepT H T s e).1.1 (bstepT H T s e).1.2 :=
  beam_inv_step H hlen T s e hinv hg

/-- **whole histories with withheld node bodies: the tree-free executor = the tree-carrying executor** — the same outcome at
    every call (success, `MissingTrieNode` with the same fields), the same final database, counts and root -/
theorem beam_history_lockstep (H : Bytes → Bytes) (hlen : ∀ b, (H b).length = 32) (T : TrieSt) (s : OpSt) (evs : List BEv)
    (hinv : BeamInv H T s) (hg : GoodRun H T s evs) :
    brunF H (toFree T) s evs = ((toFree (brunT H T s evs).1.1, (brunT H T s evs).1.2), (brunT H T s evs).2) ∧
    BeamInv H (brunT H T s evs).1.1 (brunT H T s evs).1.2 :=
  HexFree.beam_history_lockstep H hlen T s evs hinv hg

/-- **a call that raises `MissingTrieNode` at any point of such a history changed nothing** (root, database, fault
    counter, reference counts; no pending prune mark) **and names an absent node on the key's path** -/
theorem beam_failed_call_atomic (H : Bytes → Bytes) (hlen : ∀ b, (H b).length = 32) (T : TrieSt) (s : OpSt) (key : Bytes)
    (val : Option Bytes) (hinv : BeamInv H T s) (hg : GoodEv H T s (.op key val)) (h root rk : Bytes) (pre : Option Path)
    (he : (bstepF H (toFree T) s (.op key val)).2 = some (.error (.missingTrieNode h root rk pre))) :
    (bstepF H (toFree T) s (.op key val)).1.1 = toFree T ∧
    (bstepF H (toFree T) s (.op key val)).1.2.store = s.store ∧
    (bstepF H (toFree T) s (.op key val)).1.2.counts = s.counts ∧
    (bstepF H (toFree T) s (.op key val)).1.2.pending = [] ∧
    s.store.contains h = false ∧
    (h = T.root ∨ OnPath (stdHashing H) T.tree (nibs key) h ∨ SiblingOnPath (stdHashing H) T.tree (nibs key) h) :=
  HexFree.beam_failed_call_atomic H hlen T s key val hinv hg h root rk pre he

end PyTrie.Props.Free
