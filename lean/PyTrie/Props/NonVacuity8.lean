import PyTrie.Props.NonVacuity7
import PyTrie.Props.C10Raw
import PyTrie.Props.C04History
/-! # Non-vacuity, part 8: the history-level raw theorems

With the toy hash `toyH` and the checked executor histories of `NonVacuity4/6/7.lean`:

1. `C09.walk_over_history` / `C09.walk_over_history_never_stuck`: five walk steps interleaved with the eight operations of
   the pruning history `hist8`; the third step hits a stale cached parent one of whose children was pruned by the operation
   just before it (`cstepD` raises `MissingTraversalNode`, `cstepDR` retries from the root and succeeds); the walk ends with
   an empty fog; the pairs met are stated, and the two conclusions of the theorem are instantiated on them;
2. `C10.raw_nodes_is_preorder` on the final pruned database of `hist8`: the five nodes in pre-order;
3. `C10.raw_nodes_partial`, left disjunct: the same database with one live hashed leaf withheld;
4. `C04.history_old_roots_readable`: the non-pruning run of `hist5`, version 2 read through the final database.

Hypotheses are discharged from the checked `ReachVersions` / `ReachOpsNC` proofs; concrete outcomes by kernel evaluation. -/
namespace PyTrie.Props.NonVacuity8
open PyTrie PyTrie.Hex PyTrie.Hex.Node PyTrie.HexD PyTrie.Fog PyTrie.Walk
open PyTrie.Props.NonVacuity PyTrie.Props.NonVacuity2 PyTrie.Props.NonVacuity4 PyTrie.Props.NonVacuity6
open PyTrie.Props.NonVacuity7
open PyTrie.HexW PyTrie.HexRaw
open PyTrie.HexFree (ReachVersions WritesAgree WEv opsOf schedOf initT initS)
open PyTrie.Props.C01 (Op run spec applyOp)

/-! ## 0. Equality tests for raw items and raw annotated nodes -/

mutual
theorem item_eq_of_beq : ∀ a b : Item, Item.beq a b = true → a = b
  | .str a, .str b, h => by simp only [Item.beq, beq_iff_eq] at h; rw [h]
  | .list a, .list b, h => by simp only [Item.beq] at h; rw [itemList_eq_of_beq a b h]
  | .str _, .list _, h => by simp [Item.beq] at h
  | .list _, .str _, h => by simp [Item.beq] at h
theorem itemList_eq_of_beq : ∀ a b : List Item, Item.beqList a b = true → a = b
  | [], [], _ => rfl
  | x :: xs, y :: ys, h => by
    simp only [Item.beqList, Bool.and_eq_true] at h
    rw [item_eq_of_beq x y h.1, itemList_eq_of_beq xs ys h.2]
  | [], _ :: _, h => by simp [Item.beqList] at h
  | _ :: _, [], h => by simp [Item.beqList] at h
end

/-- the raw cache holds `(parent, seg)` at `p`, as a test -/
def hitDB (c : Frontier Item) (p : Path) (parent : Item) (seg : Path) : Bool :=
  match Frontier.get c p with
  | some (n, s) => Item.beq n parent && s == seg
  | none => false

theorem hitD_of_B (c : Frontier Item) (p : Path) (parent : Item) (seg : Path) (h : hitDB c p parent seg = true) :
    Frontier.get c p = some (parent, seg) := by
  unfold hitDB at h
  split at h
  · next n s heq =>
    simp only [Bool.and_eq_true, beq_iff_eq] at h
    rw [heq, item_eq_of_beq _ _ h.1, h.2]
  · cases h

/-- the raw-level step returned a new state with this fog and these pairs met -/
def stepShapeB (fog : Fog) (met : List (Path × Bytes)) : Except TErr (Option CStateD) → Bool
  | .ok (some r) => r.fog == fog && r.met == met
  | _ => false

theorem of_stepShapeB (fog : Fog) (met : List (Path × Bytes)) (x : Except TErr (Option CStateD))
    (h : stepShapeB fog met x = true) : ∃ r, x = .ok (some r) ∧ r.fog = fog ∧ r.met = met := by
  unfold stepShapeB at h
  split at h
  · next r =>
    simp only [Bool.and_eq_true, beq_iff_eq] at h
    exact ⟨r, rfl, h.1, h.2⟩
  · cases h

/-! ## 1. `C09.walk_over_history` on a walk interleaved with the pruning history `hist8`

`hist8 = hist6 ++ [set k1 longV, set k3 [6,6]]` (`NonVacuity7.lean`). After `hist6` the trie is `t6`: a root branch whose
child 1 is the hashed branch `br6` over two hashed leaves (`k1 ↦ longW` at `[1,2]`, `k3 ↦ longV` at `[1,4]`) and whose child 2
is an embedded leaf (`k4 ↦ [6]`). The events:

* the six operations of `hist6`;
* walk step at `[]` (root `t6`; caches `t6` as parent of `[1]` and `[2]`), walk step at `[1]` (hit on `t6`; caches `br6` as
  parent of `[1,2]` and `[1,4]`);
* `set k1 longV`: the pruning trie removes the leaf holding `longW`, the branch `br6` and the root `t6`;
* walk step at `[1,2]`: hit on the stale parent `br6`, whose child 2 is the pruned leaf — `MissingTraversalNode`; the retry
  drops the entry and traverses from the current root: meets `(k1, longV)`;
* walk step at `[1,4]`: hit on the stale parent `br6`, whose child 4 (the leaf holding `longV`) is still in the database: meets
  `(k3, longV)`;
* `set k3 [6,6]`: branch and root pruned and replaced once more;
* walk step at `[2]`: hit on the stale (pruned) old root `t6`, child embedded: meets `(k4, [6])`. The fog is complete. -/

def evs : List WEv :=
  hist6.map .op ++
  [.step [], .step [1], .op (.set k1 longV), .step [1, 2], .step [1, 4], .op (.set k3 [6, 6]), .step [2]]

/-- the operations of the events are, definitionally, the checked pruning history `hist8` -/
theorem evs_ops : opsOf evs = hist8 := rfl

/-- **the hypothesis of `walk_over_history`**, from the checked `ReachVersions` proof of `hist8` (pruning on) -/
theorem evs_reach : ReachVersions toyH true (opsOf evs) Tp8 sp8 := hist8_versions_p

/-- the schedule of the theorem: each walk step with the executor's database, root and tree of that moment -/
def sched : List StepT := schedOf toyH (initT toyH true) initS evs

def schedD : List StepD := sched.map StepT.toD

/-- the state of the executor after seven operations (between the third and the fourth walk step) -/
def db7 : Dict Bytes := (runW toyHs (blankRoot toyH) true (hist8.take 7)).2.store.base
def t7 : Node := run (hist8.take 7)
def root7 : Hash := rootHash toyH t7

/-- the five steps see three different databases and roots -/
theorem schedD_steps :
    schedD.map (fun e => (e.db, e.root, e.p)) =
      [(prunedBase6, root6, []), (prunedBase6, root6, [1]), (db7, root7, [1, 2]), (db7, root7, [1, 4]), (db8, root8, [2])] := by
  decide +kernel

theorem sched_len : schedD.length = 5 := by decide +kernel

/-- what the trie holds for `k1`, `k2`, `k3`, `k4` at each of the five steps: only `k4` keeps one (non-empty) value -/
theorem sched_views :
    sched.map (fun e => (get e.t (nibs k1), get e.t (nibs k2), get e.t (nibs k3), get e.t (nibs k4))) =
      [(longW, [], longV, [6]), (longW, [], longV, [6]), (longV, [], longV, [6]), (longV, [], longV, [6]),
       (longV, [], [6, 6], [6])] := by
  decide +kernel

theorem k4_stable : ∀ e ∈ sched, get e.t (nibs k4) = [6] := by
  have h : sched.all (fun e => get e.t (nibs k4) == [6]) = true := by decide +kernel
  intro e he
  simpa using List.all_eq_true.1 h e he

/-- the general theorem's intermediate fact: `SchedOk` holds for this schedule -/
theorem sched_ok : SchedOk toyH sched :=
  PyTrie.HexFree.schedOk_of_history toyH toyH_len true evs Tp8 sp8 evs_reach

/-- the raw state after the first `n` steps of the schedule (the start state if the run stopped earlier — never the case) -/
def wAfter (n : Nat) : CStateD :=
  match crunDR toyH cstartD (schedD.take n) with
  | .ok (some r) => r
  | _ => cstartD

theorem wAfter_ok (n : Nat) (h : okSomeB (crunDR toyH cstartD (schedD.take n)) = true) :
    crunDR toyH cstartD (schedD.take n) = .ok (some (wAfter n)) := by
  unfold wAfter
  generalize crunDR toyH cstartD (schedD.take n) = r at h ⊢
  match r, h with
  | .ok (some r), _ => rfl

theorem run_ok : okSomeB (crunDR toyH cstartD schedD) = true := by decide +kernel

/-- **the run, evaluated**: every step returns a state -/
theorem run_eval : crunDR toyH cstartD schedD = .ok (some (wAfter 5)) := by
  have ht : schedD.take 5 = schedD := List.take_of_length_le (by rw [sched_len]; exact Nat.le_refl 5)
  have := wAfter_ok 5 (by rw [ht]; exact run_ok)
  rwa [ht] at this

theorem run2_eval : crunDR toyH cstartD (schedD.take 2) = .ok (some (wAfter 2)) := wAfter_ok 2 (by decide +kernel)

/-- fog and pairs met after 0 … 5 steps -/
theorem walk_progress :
    (List.range 6).map (fun n => ((wAfter n).fog, (wAfter n).met)) =
      [([[]], []),
       ([[1], [2]], []),
       ([[1, 2], [1, 4], [2]], []),
       ([[1, 4], [2]], [(nibs k1, longV)]),
       ([[2]], [(nibs k3, longV), (nibs k1, longV)]),
       ([], [(nibs k4, [6]), (nibs k3, longV), (nibs k1, longV)])] := by
  decide +kernel

theorem end_state :
    (wAfter 5).fog = [] ∧ (wAfter 5).met = [(nibs k4, [6]), (nibs k3, longV), (nibs k1, longV)] := by
  decide +kernel

/-- **the retry path runs at the third step** (prefix `[1,2]`, database and root after `set k1 longV`): the cache of the
    state after two steps holds the body of `br6` for `[1,2]`; the leaf holding `longW` — in the database when `br6` was
    cached — has been pruned; `cstepD` raises `MissingTraversalNode` for exactly that leaf (prefix `[2]` from the parent);
    `cstepDR` returns a state: the prefix explored, `(k1, longV)` — the NEW value, read from the current root — met -/
theorem retry_step :
    Frontier.get (wAfter 2).cache [1, 2] = some (toItem toyH br6, [2]) ∧
    lookup prunedBase6 (hashOf toyH (leaf [] longW)) = some (enc toyH (leaf [] longW)) ∧
    lookup db7 (hashOf toyH (leaf [] longW)) = none ∧
    cstepD toyH db7 root7 (wAfter 2) [1, 2] = .error (.missing (hashOf toyH (leaf [] longW)) [2]) ∧
    ∃ r, cstepDR toyH db7 root7 (wAfter 2) [1, 2] = .ok (some r) ∧ r.fog = [[1, 4], [2]] ∧ r.met = [(nibs k1, longV)] :=
  ⟨hitD_of_B _ _ _ _ (by decide +kernel), by decide +kernel, by decide +kernel,
   eq_of_missB _ _ _ (by decide +kernel), of_stepShapeB _ _ _ (by decide +kernel)⟩

/-- the fourth step is a hit on the same stale parent that still resolves (no retry), the fifth a hit on the pruned old root -/
theorem later_steps :
    Frontier.get (wAfter 3).cache [1, 4] = some (toItem toyH br6, [4]) ∧
    okSomeB (cstepD toyH db7 root7 (wAfter 3) [1, 4]) = true ∧
    Frontier.get (wAfter 4).cache [2] = some (toItem toyH t6, [2]) ∧ lookup db8 (hashOf toyH t6) = none ∧
    okSomeB (cstepD toyH db8 root8 (wAfter 4) [2]) = true :=
  ⟨hitD_of_B _ _ _ _ (by decide +kernel), by decide +kernel, hitD_of_B _ _ _ _ (by decide +kernel), by decide +kernel,
   by decide +kernel⟩

/-- **`C09.walk_over_history` on the witness**: the disjunct that holds is the right one; the state `s'` it provides has the raw
    image the evaluation shows (`wAfter 5`), hence an empty fog and these three pairs met — `(k4, [6])` for the one key whose
    value is the same at all five steps (its final value), `(k1, longV)` read from the current root by the retry (the final
    value; the first two steps saw `longW`), `(k3, longV)` read through the stale parent (the value of versions 5–7; the final
    one is `[6,6]`) —; and the theorem's two conclusions hold for it -/
theorem walk_over_history_witness :
    ∃ s' : CState, crunDR toyH cstartD (sched.map StepT.toD) = .ok (some (toCD toyH s')) ∧
      toCD toyH s' = wAfter 5 ∧ s'.fog = [] ∧
      s'.met = [(nibs k4, [6]), (nibs k3, longV), (nibs k1, longV)] ∧
      (∀ k v, (k, v) ∈ s'.met → v ≠ [] ∧ ∃ i, i ≤ hist8.length ∧ get (run (hist8.take i)) k = v) ∧
      (s'.fog = [] → ∀ k val, val ≠ [] → (∀ e ∈ sched, get e.t k = val) → (k, val) ∈ s'.met) := by
  rcases C09.walk_over_history toyH toyH_len true evs Tp8 sp8 evs_reach with hn | ⟨s', hrun, h1, h2⟩
  · have := run_eval
    rw [show schedD = (schedOf toyH (initT toyH true) initS evs).map StepT.toD from rfl, hn] at this
    cases this
  · have he : toCD toyH s' = wAfter 5 := by
      have := run_eval
      rw [show schedD = (schedOf toyH (initT toyH true) initS evs).map StepT.toD from rfl, hrun] at this
      injection this with this
      injection this
    have hf : s'.fog = (wAfter 5).fog := by rw [← he]; rfl
    have hm : s'.met = (wAfter 5).met := by rw [← he]; rfl
    exact ⟨s', hrun, he, hf.trans end_state.1, hm.trans end_state.2, h1, h2⟩

/-! ### `walk_over_history_never_stuck`: a Boolean checker for `InFogRun` -/
section InFog
variable (H : Bytes → Bytes)

/-- `InFogRun` as a test: run `cstepDR` along the schedule, checking at each step that the prefix is in the fog -/
def inFogRunB : CStateD → List StepD → Bool
  | _, [] => true
  | s, e :: rest =>
    decide (e.p ∈ s.fog) &&
      (match cstepDR H e.db e.root s e.p with
       | .ok (some s') => inFogRunB s' rest
       | _ => true)

/-- soundness of the test -/
theorem inFogRun_of_B (s : CStateD) (l : List StepD) (h : inFogRunB H s l = true) : InFogRun H s l := by
  induction l generalizing s with
  | nil => trivial
  | cons e rest ih =>
    simp only [inFogRunB, Bool.and_eq_true, decide_eq_true_eq] at h
    refine ⟨h.1, fun s' hs => ?_⟩
    have h2 := h.2
    rw [hs] at h2
    exact ih s' h2

end InFog

theorem sched_inFogB : inFogRunB toyH cstartD schedD = true := by decide +kernel

/-- every scheduled prefix is an unexplored prefix of the fog of that moment -/
theorem sched_inFog : InFogRun toyH cstartD (sched.map StepT.toD) := inFogRun_of_B toyH _ _ sched_inFogB

/-- **`C09.walk_over_history_never_stuck` applies** -/
theorem walk_never_stuck_witness :
    ∃ s' : CState, crunDR toyH cstartD (sched.map StepT.toD) = .ok (some (toCD toyH s')) :=
  C09.walk_over_history_never_stuck toyH toyH_len true evs Tp8 sp8 evs_reach sched_inFog

/-- **the two conclusions instantiated** (through the theorem, not by evaluation): completeness — `k4` holds `[6]` at every
    step, so `(k4, [6])` is met; soundness — the met pair `(k3, longV)` was held after some prefix of the history, although the
    final trie holds `[6,6]` there -/
theorem walk_over_history_instances :
    ∃ s' : CState, crunDR toyH cstartD (sched.map StepT.toD) = .ok (some (toCD toyH s')) ∧
      (nibs k4, [6]) ∈ s'.met ∧
      ((nibs k3, longV) ∈ s'.met ∧ ∃ i, i ≤ hist8.length ∧ get (run (hist8.take i)) (nibs k3) = longV) ∧
      get (run hist8) (nibs k3) = [6, 6] := by
  obtain ⟨s', hrun, _, hfog, hmet, h1, h2⟩ := walk_over_history_witness
  refine ⟨s', hrun, h2 hfog (nibs k4) [6] (by decide) k4_stable, ⟨?_, ?_⟩, by decide +kernel⟩
  · rw [hmet]; decide
  · exact (h1 (nibs k3) longV (by rw [hmet]; decide)).2

/-! ## 2. `C10.raw_nodes_is_preorder` on the final pruned database of `hist8` -/

/-- equality test for lists of (prefix, node) (`Node` has no decidable equality: `sameB`) -/
def sameListB : List (Path × Node) → List (Path × Node) → Bool
  | [], [] => true
  | e :: r, e' :: r' => e.1 == e'.1 && sameB e.2 e'.2 && sameListB r r'
  | _, _ => false

theorem sameListB_eq (a b : List (Path × Node)) (h : sameListB a b = true) : a = b := by
  induction a generalizing b with
  | nil => cases b with
    | nil => rfl
    | cons _ _ => cases h
  | cons e r ih =>
    cases b with
    | nil => cases h
    | cons e' r' =>
      simp only [sameListB, Bool.and_eq_true, beq_iff_eq] at h
      obtain ⟨p, n⟩ := e
      obtain ⟨p', n'⟩ := e'
      simp only at h
      rw [h.1.1, sameB_eq _ _ h.1.2, ih r' h.2]

/-- equality test for raw annotated nodes -/
def annDB (a b : AnnD) : Bool :=
  a.subs == b.subs && a.value == b.value && a.suffix == b.suffix && Item.beq a.raw b.raw && decide (a.kind = b.kind)

theorem annDB_eq (a b : AnnD) (h : annDB a b = true) : a = b := by
  obtain ⟨s1, v1, x1, r1, k1⟩ := a
  obtain ⟨s2, v2, x2, r2, k2⟩ := b
  simp only [annDB, Bool.and_eq_true, beq_iff_eq, decide_eq_true_eq] at h
  obtain ⟨⟨⟨⟨h1, h2⟩, h3⟩, h4⟩, h5⟩ := h
  rw [h1, h2, h3, item_eq_of_beq _ _ h4, h5]

def annListB : List (Path × AnnD) → List (Path × AnnD) → Bool
  | [], [] => true
  | e :: r, e' :: r' => e.1 == e'.1 && annDB e.2 e'.2 && annListB r r'
  | _, _ => false

theorem annListB_eq (a b : List (Path × AnnD)) (h : annListB a b = true) : a = b := by
  induction a generalizing b with
  | nil => cases b with
    | nil => rfl
    | cons _ _ => cases h
  | cons e r ih =>
    cases b with
    | nil => cases h
    | cons e' r' =>
      simp only [annListB, Bool.and_eq_true, beq_iff_eq] at h
      obtain ⟨p, n⟩ := e
      obtain ⟨p', n'⟩ := e'
      simp only at h
      rw [h.1.1, annDB_eq _ _ h.1.2, ih r' h.2]

/-- `nodes()` returned exactly this list -/
def nodesOkB (l : List (Path × AnnD)) : Except TErr (List (Path × AnnD)) → Bool
  | .ok l' => annListB l' l
  | _ => false

theorem nodes_of_okB (l : List (Path × AnnD)) (r : Except TErr (List (Path × AnnD))) (h : nodesOkB l r = true) :
    r = .ok l := by
  match r, h with
  | .ok l', h => rw [annListB_eq l' l h]

/-- the `ReachOpsNC` hypothesis, from the checked `ReachVersions` proof -/
theorem hist8_reach_nc : ReachOpsNC (stdHashing toyH) (blankRoot toyH) true hist8 Tp8 sp8 :=
  PyTrie.HexFree.reachVersions_nc toyH true hist8 Tp8 sp8 hist8_versions_p

theorem db8_blank : Dict.get? db8 (blankRoot toyH) = none := by decide +kernel

theorem db8_short : ∀ h b, Dict.get? db8 h = some b → b.length < 2 ^ 64 := by
  intro h b hg
  have := bodies_short db8 100 (by decide +kernel) h b hg
  omega

/-- the pre-order sequence of the final tree of `hist8`: root branch, hashed branch at `[1]`, hashed leaf at `[1,2]`, embedded
    leaves at `[1,4]` and `[2]` -/
def pre8 : List (Path × Node) :=
  [([], t8), ([1], br8), ([1, 2], leaf [] longV), ([1, 4], leaf [] [6, 6]), ([2], leaf [5] [6])]

theorem pre8_eq : preorder (run hist8) [] = pre8 := sameListB_eq _ _ (by decide +kernel)

/-- **`C10.raw_nodes_is_preorder` applies** (`fuel := 20`): `nodes()` over the pruned database yields the five nodes in pre-order -/
theorem nodes_preorder_witness :
    nodesOfD toyH db8 Tp8.root 20 = .ok (pre8.map (fun e => (e.1, Ann.toD toyH (annotate e.2)))) := by
  have h := C10.raw_nodes_is_preorder toyH toyH_len true hist8 Tp8 sp8 hist8_reach_nc db8_blank db8_short 20
    (by rw [pre8_eq]; decide)
  rw [pre8_eq] at h
  exact h

/-- cross-check: the same equation by evaluating `nodesOfD` in the kernel (no theorem involved) -/
theorem nodes_preorder_eval :
    nodesOfD toyH db8 Tp8.root 20 = .ok (pre8.map (fun e => (e.1, Ann.toD toyH (annotate e.2)))) :=
  nodes_of_okB _ _ (by decide +kernel)

/-- prefixes, kinds, and which of the nodes are stored under their hash -/
theorem nodes_preorder_shape :
    pre8.map (fun e => (e.1, (annotate e.2).kind, isHashed toyH e.2)) =
      [([], .branch, true), ([1], .branch, true), ([1, 2], .leaf, true), ([1, 4], .leaf, false), ([2], .leaf, false)] := by
  decide +kernel

/-! ## 3. `C10.raw_nodes_partial`, left disjunct: the same tree over its database with one body withheld -/

/-- the withheld node: the hashed leaf at `[1,2]` -/
def hW : Hash := hashOf toyH (leaf [] longV)

/-- the database of the final state with that body erased -/
def db8w : Dict Bytes := Dict.erase db8 hW

/-- the withheld node is hashed, is not the root, and was in the database (three entries, two left) -/
theorem withheld_live :
    isHashed toyH (leaf [] longV) = true ∧ (hW == root8) = false ∧
    lookup db8 hW = some (enc toyH (leaf [] longV)) ∧ db8.length = 3 ∧ db8w.length = 2 :=
  ⟨by decide +kernel, by decide +kernel, by decide +kernel, by decide +kernel, by decide +kernel⟩

theorem Tp8_tree : Tp8.tree = t8 := sameB_eq _ _ (by decide +kernel)

theorem db8_complete : Complete (stdHashing toyH) (blankRoot toyH) db8 Tp8 :=
  Raw.pruned_db_complete (stdHashing toyH) (blankRoot toyH) true hist8 Tp8 sp8 hist8_reach_nc

/-- **the hypotheses of `raw_nodes_partial`**: `Free.partial_of_complete_db` on the complete pruned database, then
    `Free.partial_kept_by_withholding` -/
theorem db8w_partial : RootPartial toyH db8w root8 t8 ∧ PartialD toyH db8w t8 := by
  have h := Free.partial_kept_by_withholding toyH Tp8 db8 hW
    (Free.partial_of_complete_db toyH Tp8 db8 db8_complete db8_blank db8_short)
  rw [Tp8_tree, Tp8_state.2] at h
  exact h

/-- `nodes()` raised `MissingTraversalNode(h, pre)` -/
def nodesMissB (h : Hash) (pre : Path) : Except TErr (List (Path × AnnD)) → Bool
  | .error (.missing h' pre') => h' == h && pre' == pre
  | _ => false

theorem nodes_of_missB (h : Hash) (pre : Path) (r : Except TErr (List (Path × AnnD))) (hm : nodesMissB h pre r = true) :
    r = .error (.missing h pre) := by
  unfold nodesMissB at hm
  split at hm
  · simp only [Bool.and_eq_true, beq_iff_eq] at hm
    rw [hm.1, hm.2]
  · cases hm

theorem nodes_partial_eval : nodesMissB hW [2] (nodesOfD toyH db8w root8 20) = true := by decide +kernel

/-- from `C10.raw_nodes_partial`: if the evaluation shows `MissingTraversalNode(h, pre)`, the left disjunct holds with these -/
theorem nodes_missing (db : Db) (root : Hash) (t : Node) (hc : Canon t) (hroot : RootPartial toyH db root t)
    (hst : PartialD toyH db t) (fuel : Nat) (h : Hash) (pre : Path)
    (hev : nodesMissB h pre (nodesOfD toyH db root fuel) = true) :
    nodesOfD toyH db root fuel = .error (.missing h pre) ∧ lookup db h = none ∧
    nodesOfD toyH db root fuel ≠ .ok ((nodesOf t fuel).map (fun e => (e.1, Ann.toD toyH (annotate e.2)))) := by
  have he := nodes_of_missB h pre _ hev
  rcases C10.raw_nodes_partial toyH toyH_len db root t hc hroot hst fuel with ⟨h', pre', he', hl⟩ | hr
  · rw [he] at he'
    injection he' with he'
    injection he' with h1 h2
    subst h1
    refine ⟨he, hl, ?_⟩
    rw [he]; intro hx; cases hx
  · rw [he] at hr; cases hr

/-- **`C10.raw_nodes_partial` on the witness is the left disjunct**: `MissingTraversalNode` for exactly the withheld leaf (prefix
    `[2]` from its cached parent, the branch at `[1]`), which the database indeed does not hold; the right disjunct is false -/
theorem nodes_partial_witness :
    nodesOfD toyH db8w root8 20 = .error (.missing hW [2]) ∧ lookup db8w hW = none ∧
    nodesOfD toyH db8w root8 20 ≠ .ok ((nodesOf t8 20).map (fun e => (e.1, Ann.toD toyH (annotate e.2)))) :=
  nodes_missing db8w root8 t8 t8_canon db8w_partial.1 db8w_partial.2 20 hW [2] nodes_partial_eval

/-- cross-check by evaluation -/
theorem nodes_partial_lookup_eval : lookup db8w hW = none := by decide +kernel

/-! ## 4. `C04.history_old_roots_readable` on the non-pruning run of `hist5`

`hist5 = [set k1 longV, set k2 [5], set k1 longW, set k3 longV, delete k2]` (`NonVacuity4.lean`): `k1` is overwritten by the third
operation, `k2` deleted by the fifth. Version 2 holds `k1 ↦ longV`, `k2 ↦ [5]`; the final trie `k1 ↦ longW`, `k3 ↦ longV`. -/

/-- the final state of the non-pruning run (its database is `fullBase`) -/
def Tnp : TrieSt := (runW toyHs (blankRoot toyH) false hist5).1
def snp : OpSt := (runW toyHs (blankRoot toyH) false hist5).2

theorem fullBase_blank : Dict.get? fullBase (blankRoot toyH) = none := by decide +kernel

theorem fullBase_short : ∀ h b, Dict.get? fullBase h = some b → b.length < 2 ^ 64 := by
  intro h b hg
  have := bodies_short fullBase 100 (by decide +kernel) h b hg
  omega

/-- **`C04.history_old_roots_readable` applies**, for every version `i ≤ 5` and every key -/
theorem old_root_readable (i : Nat) (hi : i ≤ 5) (key : Bytes) :
    getD toyH fullBase (rootHash toyH (run (hist5.take i))) (nibs key) = .ok (spec (hist5.take i) key) :=
  C04.history_old_roots_readable toyH toyH_len hist5 Tnp snp hist5_reach_np fullBase_blank fullBase_short i hi key

/-- version 2 and the final version differ on all three keys, and have different roots -/
theorem old_contents :
    spec (hist5.take 2) k1 = longV ∧ spec (hist5.take 2) k2 = [5] ∧ spec (hist5.take 2) k3 = [] ∧
    spec hist5 k1 = longW ∧ spec hist5 k2 = [] ∧ spec hist5 k3 = longV ∧
    rootHash toyH (run (hist5.take 2)) ≠ Tnp.root := by decide +kernel

/-- **the old root returns the OLD values through the FINAL database**: the overwritten key gives `longV` (now `longW`), the
    deleted key gives `[5]` (now absent) -/
theorem old_root_witness :
    getD toyH fullBase (rootHash toyH (run (hist5.take 2))) (nibs k1) = .ok longV ∧
    getD toyH fullBase (rootHash toyH (run (hist5.take 2))) (nibs k2) = .ok [5] ∧
    getD toyH fullBase Tnp.root (nibs k1) = .ok longW ∧
    getD toyH fullBase Tnp.root (nibs k2) = .ok [] := by
  refine ⟨?_, ?_, ?_, ?_⟩
  · rw [old_root_readable 2 (by decide) k1, old_contents.1]
  · rw [old_root_readable 2 (by decide) k2, old_contents.2.1]
  · have := full_get k1; rw [old_contents.2.2.2.1] at this; exact this
  · have := full_get k2; rw [old_contents.2.2.2.2.1] at this; exact this

def getOkB (v : Bytes) : Except TErr Bytes → Bool
  | .ok v' => v' == v
  | _ => false

/-- cross-check: the four reads evaluated in the kernel (no theorem involved) -/
theorem old_root_eval :
    getOkB longV (getD toyH fullBase (rootHash toyH (run (hist5.take 2))) (nibs k1)) = true ∧
    getOkB [5] (getD toyH fullBase (rootHash toyH (run (hist5.take 2))) (nibs k2)) = true ∧
    getOkB longW (getD toyH fullBase Tnp.root (nibs k1)) = true ∧
    getOkB [] (getD toyH fullBase Tnp.root (nibs k2)) = true := by decide +kernel

end PyTrie.Props.NonVacuity8

section Axioms
open PyTrie.Props.NonVacuity8
end Axioms
