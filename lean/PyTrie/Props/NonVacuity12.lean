import PyTrie.Props.NonVacuity3
import PyTrie.Props.C07Retry
import PyTrie.Props.C06Refused
/-! # Non-vacuity, part 12: the retry loops of C07 on a concrete trie, the refused first write of C06

`t1` (a hashed extension over a hashed branch with a hashed leaf and an embedded one) with NONE of its bodies present: the lookup
retry loop asks for the root, the branch and the leaf — each once, in that order — and then returns the stored value; the
`set` retry loop ends with a trie. `C07.get_retry_loop_converges` / `op_retry_loop_converges` are applied (their premises are
checked), and the loops are also evaluated directly. -/
namespace PyTrie.Props.NonVacuity12
open PyTrie PyTrie.Hex PyTrie.Hex.Node PyTrie.HexD PyTrie.HexW
open PyTrie.Props.NonVacuity PyTrie.Props.NonVacuity3
open PyTrie.Props.C07 (retryGet retryOp supply)

def T1 : TrieSt := { tree := t1, root := hRoot, prune := false }
def full : Dict Bytes := rawDb
def s0 : OpSt := { store := { base := [], cache := none, failAfter := none }, counts := [], pending := [] }

theorem full_has_root : T1.root ≠ blankRoot toyH → Dict.contains full T1.root = true := fun _ => by decide +kernel

theorem full_has_path : ∀ e ∈ traverseReads toyHs T1.tree (nibs k1) [], Dict.contains full e.1 = true := by
  have h : (traverseReads toyHs T1.tree (nibs k1) []).all (fun e => Dict.contains full e.1) = true := by decide +kernel
  exact fun e he => List.all_eq_true.1 h e he

theorem outstanding_len : (outstanding toyHs T1 k1 s0.store).length = 2 := by decide +kernel

/-- **`C07.get_retry_loop_converges` applies**: from an EMPTY database the loop converges to the stored value, asks for no
    hash twice and only for hashes the source has -/
theorem get_loop_witness :
    (retryGet toyHs (blankRoot toyH) full T1 k1 4 s0 []).1 = some (.ok (Hex.get t1 (nibs k1))) ∧
    (retryGet toyHs (blankRoot toyH) full T1 k1 4 s0 []).2.Nodup :=
  have h := C07.get_retry_loop_converges toyHs (blankRoot toyH) full T1 t1_canon k1 s0 full_has_root full_has_path 4
    (by rw [outstanding_len]; decide)
  ⟨h.1, h.2.1⟩

/-- … and by evaluation: exactly root, branch, leaf were asked for, latest first; three attempts failed, the fourth returned -/
theorem get_loop_evaluated :
    (retryGet toyHs (blankRoot toyH) full T1 k1 4 s0 []).2 = [hLeaf, hBr, hRoot] ∧
    (retryGet toyHs (blankRoot toyH) full T1 k1 3 s0 []).1.isNone = true ∧
    Hex.get t1 (nibs k1) = longV := by
  decide +kernel

theorem full_has_reads : ∀ e ∈ (opTree toyHs T1 k1 (some [9])).2, ∀ h, e = Ev.read h → Dict.contains full h = true := by
  have hall : ((opTree toyHs T1 k1 (some [9])).2.all fun e => match e with | .read h => Dict.contains full h | _ => true) = true := by
    decide +kernel
  intro e he h heq
  have := List.all_eq_true.1 hall e he
  rw [heq] at this
  exact this

theorem outstandingOp_len : (outstandingOp toyHs T1 k1 (some [9]) s0.store).length = 2 := by decide +kernel

/-- **`C07.op_retry_loop_converges` applies** to `set(k1, 09)` on the empty database -/
theorem op_loop_witness :
    ∃ s' r, (retryOp toyHs (blankRoot toyH) full T1 k1 (some [9]) 4 s0 []).1 = some (s', r) ∧
      (∀ h root rk pre, r ≠ .error (.missingTrieNode h root rk pre)) ∧
      (retryOp toyHs (blankRoot toyH) full T1 k1 (some [9]) 4 s0 []).2.Nodup := by
  obtain ⟨s', r, h1, h2, _, h4, _⟩ := C07.op_retry_loop_converges toyHs (blankRoot toyH) full T1 k1 (some [9]) s0
    full_has_root full_has_reads 4 (by rw [outstandingOp_len]; decide)
  exact ⟨s', r, h1, h2, h4⟩

/-- the same three hashes, by evaluation -/
theorem op_loop_evaluated : (retryOp toyHs (blankRoot toyH) full T1 k1 (some [9]) 4 s0 []).2 = [hLeaf, hBr, hRoot] := by
  decide +kernel

/-! ## a refused first write (C06) -/

def sFull : OpSt := { store := { base := rawDb, cache := none, failAfter := some 0 }, counts := [], pending := [] }
def T1p : TrieSt := { tree := t1, root := hRoot, prune := true }

def isWriteFailed : Except Exn TrieSt → Bool
  | .error .writeFailed => true
  | _ => false

theorem refused_is_writeFailed : isWriteFailed (opSetDel toyHs (blankRoot toyH) T1p k1 (some [9]) sFull).2 = true := by
  decide +kernel

/-- **`C06.first_write_refused_atomic` applies**: a `set` on a pruning trie whose first database write is refused returns
    `WriteFailed` and leaves store, counts and pending marks as they were -/
theorem refused_witness :
    (opSetDel toyHs (blankRoot toyH) T1p k1 (some [9]) sFull).1.store = sFull.store ∧
    (opSetDel toyHs (blankRoot toyH) T1p k1 (some [9]) sFull).1.counts = sFull.counts := by
  have hw : (opSetDel toyHs (blankRoot toyH) T1p k1 (some [9]) sFull).2 = .error .writeFailed := by
    have := refused_is_writeFailed
    unfold isWriteFailed at this
    split at this
    · assumption
    · cases this
  have h := C06.first_write_refused_atomic toyHs (blankRoot toyH) T1p k1 (some [9]) sFull rfl rfl hw
  exact ⟨h.1, h.2.1⟩

end PyTrie.Props.NonVacuity12
