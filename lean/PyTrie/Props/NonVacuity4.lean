import PyTrie.Props.NonVacuity3
import PyTrie.Props.RawLevel
/-! # Non-vacuity, part 4: a pruning history for the pruned-database theorems

`Raw.pruned_db_complete` and `Raw.pruned_db_get` are stated over `ReachOpsNC` (the executor's run of a history with
`NoClobber` at every step, pruning on or off). Here: a Boolean checker for `ReachOpsNC`, a five-operation history on a
**pruning** trie (toy hash `toyH`, as everywhere in these files) in which an overwrite and a delete really remove
entries from the database, and the two theorems applied to it. -/
namespace PyTrie.Props.NonVacuity4
open PyTrie PyTrie.Hex PyTrie.Hex.Node PyTrie.HexD
open PyTrie.Props.NonVacuity PyTrie.Props.NonVacuity2
open PyTrie.HexW PyTrie.HexRaw
open PyTrie.Props.C01 (Op run spec applyOp)

/-! ## 1. A Boolean checker for `ReachOpsNC` -/
section Checker

variable (Hs : Hashing) (brh : Hash)

/-- the run-level hypotheses of one step of `ReachOpsNC`, as a test: those of `ReachOps` (`stepOkB`) and `NoClobber`
    of the step's writes against the base before the step, **whatever the pruning mode** -/
def stepOkNCB (prune : Bool) (st : TrieSt × OpSt) (o : Op) : Bool :=
  stepOkB Hs brh prune st o && noClobberB st.2.store.base (opWrites Hs st.1 (opKey o) (opVal o))

/-- all steps of a history pass the test -/
def allOkNCB (prune : Bool) : TrieSt × OpSt → List Op → Bool
  | _, [] => true
  | st, o :: r => stepOkNCB Hs brh prune st o && allOkNCB prune (stepW Hs brh st o) r

theorem stepOkNC_spec (prune : Bool) (st : TrieSt × OpSt) (o : Op) (h : stepOkNCB Hs brh prune st o = true) :
    RefSound Hs st.1.tree (nibs (opKey o)) ∧
    (isBlank (opTree Hs st.1 (opKey o) (opVal o)).1 = false → Hs.hashOf (opTree Hs st.1 (opKey o) (opVal o)).1 ≠ brh) ∧
    NoClobber st.2.store.base (opWrites Hs st.1 (opKey o) (opVal o)) ∧
    (opSetDel Hs brh st.1 (opKey o) (opVal o) st.2).2 = .ok (stepW Hs brh st o).1 := by
  simp only [stepOkNCB, Bool.and_eq_true] at h
  obtain ⟨h1, h2, _, h4⟩ := stepOk_spec Hs brh prune st o h.1
  exact ⟨h1, h2, noClobber_of_B _ _ h.2, h4⟩

theorem reachOpsNC_of_allOk (prune : Bool) (pre : List Op) (st : TrieSt × OpSt) (ops : List Op)
    (hr : ReachOpsNC Hs brh prune pre st.1 st.2) (h : allOkNCB Hs brh prune st ops = true) :
    ReachOpsNC Hs brh prune (pre ++ ops) (ops.foldl (stepW Hs brh) st).1 (ops.foldl (stepW Hs brh) st).2 := by
  induction ops generalizing pre st with
  | nil => simpa using hr
  | cons o r ih =>
    simp only [allOkNCB, Bool.and_eq_true] at h
    obtain ⟨h1, h2, h3, h4⟩ := stepOkNC_spec Hs brh prune st o h.1
    have := ih (pre ++ [o]) (stepW Hs brh st o) (ReachOpsNC.step pre st.1 st.2 o _ hr h1 h2 h3 h4) h.2
    simpa using this

/-- **a history all of whose steps pass the test is a `ReachOpsNC` history** -/
theorem reachOpsNC_of_check (prune : Bool) (ops : List Op) (h : allOkNCB Hs brh prune (initW brh prune) ops = true) :
    ReachOpsNC Hs brh prune ops (runW Hs brh prune ops).1 (runW Hs brh prune ops).2 := by
  simpa [runW] using reachOpsNC_of_allOk Hs brh prune [] (initW brh prune) ops ReachOpsNC.init h

end Checker

/-! ## 2. The history -/

/-- a second 33-byte value -/
def longW : Bytes := List.replicate 33 8

def k3 : Bytes := [0x14]

/-- five operations on three keys sharing their first nibble:
    1. `set k1 longV` — the root is a (hashed) leaf;
    2. `set k2 [5]` — root extension over a hashed branch holding a hashed leaf (`longV`) and an embedded one; the old
       root is pruned;
    3. `set k1 longW` — **overwrite of a ≥ 32-byte value**: the hashed leaf, the branch and the root are pruned and
       replaced (database stays at three entries; the non-pruning one grows to seven);
    4. `set k3 longV` — a third key with a hashed leaf: branch and root pruned and replaced;
    5. `delete k2` — the embedded leaf goes: branch and root pruned and replaced. -/
def hist5 : List Op := [.set k1 longV, .set k2 [5], .set k1 longW, .set k3 longV, .delete k2]

example : 4 ≤ hist5.length := by decide

theorem hist5_ok_p : allOkNCB toyHs (blankRoot toyH) true (initW (blankRoot toyH) true) hist5 = true := by
  decide +kernel

theorem hist5_ok_np : allOkNCB toyHs (blankRoot toyH) false (initW (blankRoot toyH) false) hist5 = true := by
  decide +kernel

/-- the final state of the pruning run -/
def Tp : TrieSt := (runW toyHs (blankRoot toyH) true hist5).1
def sp : OpSt := (runW toyHs (blankRoot toyH) true hist5).2

/-- the final pruned database -/
def prunedBase : Dict Bytes := sp.store.base

/-- the database of the same history on a non-pruning trie -/
def fullBase : Dict Bytes := (runW toyHs (blankRoot toyH) false hist5).2.store.base

/-- **`ReachOpsNC` with pruning on** for the five-operation history … -/
theorem hist5_reach_p : ReachOpsNC toyHs (blankRoot toyH) true hist5 Tp sp :=
  reachOpsNC_of_check toyHs _ true hist5 hist5_ok_p

/-- … and with pruning off (for comparison) -/
theorem hist5_reach_np : ReachOpsNC toyHs (blankRoot toyH) false hist5
    (runW toyHs (blankRoot toyH) false hist5).1 (runW toyHs (blankRoot toyH) false hist5).2 :=
  reachOpsNC_of_check toyHs _ false hist5 hist5_ok_np

/-- the trie does prune -/
theorem Tp_prune : Tp.prune = true := by decide +kernel

/-! ## 3. The witness visibly involves pruning -/

/-- the final pruned database has four entries, the non-pruning one eleven -/
theorem prunedBase_length : prunedBase.length = 4 ∧ fullBase.length = 11 ∧ prunedBase.length < fullBase.length := by
  decide +kernel

/-- database sizes after each prefix of the history (pruning, non-pruning): the overwrite (step 3) and the delete
    (step 5) leave the pruned database no larger although each writes new nodes -/
theorem base_sizes :
    (List.range 6).map (fun i => ((runW toyHs (blankRoot toyH) true (hist5.take i)).2.store.base.length,
      (runW toyHs (blankRoot toyH) false (hist5.take i)).2.store.base.length)) =
    [(0, 0), (1, 1), (3, 4), (3, 7), (4, 9), (4, 11)] := by
  decide +kernel

/-- the final tree: extension over a branch with two hashed leaves -/
def tEnd : Node := ext [1] (branch (upd (upd emptyCh 2 (leaf [] longW)) 4 (leaf [] longV)) [])

theorem Tp_tree : Tp.tree = tEnd := sameB_eq _ _ (by decide +kernel)

/-- the keys of the final pruned database are exactly the hashes of the four (hashed) nodes of the final tree:
    the two leaves, the branch, the root -/
theorem prunedBase_keys : prunedBase.map (·.1) =
    [hashOf toyH (leaf [] longW), hashOf toyH (leaf [] longV),
     hashOf toyH (branch (upd (upd emptyCh 2 (leaf [] longW)) 4 (leaf [] longV)) []), hashOf toyH tEnd] := by
  decide +kernel

/-- nodes that were live earlier are gone from the pruned database but still in the non-pruning one: the first root
    (a leaf holding `longV` under the whole key), the root and the branch after step 2 (`t1`, `t1br` of `NonVacuity.lean`) -/
theorem pruned_gone :
    Dict.contains prunedBase (hashOf toyH (leaf (nibs k1) longV)) = false ∧
    Dict.contains fullBase (hashOf toyH (leaf (nibs k1) longV)) = true ∧
    Dict.contains prunedBase (hashOf toyH t1') = false ∧ Dict.contains fullBase (hashOf toyH t1') = true ∧
    Dict.contains prunedBase (hashOf toyH t1br) = false ∧ Dict.contains fullBase (hashOf toyH t1br) = true := by
  decide +kernel

/-- the overwrite of step 3 removed the hashed leaf holding `longV` (it comes back with step 4, under another key) -/
theorem overwrite_prunes_leaf :
    Dict.contains (runW toyHs (blankRoot toyH) true (hist5.take 2)).2.store.base (hashOf toyH (leaf [] longV)) = true ∧
    Dict.contains (runW toyHs (blankRoot toyH) true (hist5.take 3)).2.store.base (hashOf toyH (leaf [] longV)) = false ∧
    Dict.contains (runW toyHs (blankRoot toyH) true (hist5.take 3)).2.store.base (hashOf toyH (leaf [] longW)) = true := by
  decide +kernel

/-! ## 4. `pruned_db_complete` on the witness -/

/-- **`Raw.pruned_db_complete` applies**: the pruned database is complete for the final root -/
theorem pruned_complete : Complete toyHs (blankRoot toyH) prunedBase Tp :=
  Raw.pruned_db_complete toyHs (blankRoot toyH) true hist5 Tp sp hist5_reach_p

/-- in particular the root pointer is the hash of the final tree and its body is stored under it -/
theorem pruned_root : Tp.root = hashOf toyH tEnd ∧ Dict.get? prunedBase Tp.root = some (enc toyH tEnd) := by
  have h := pruned_complete.1
  rw [Tp_tree] at h
  have hb : isBlank tEnd = false := rfl
  simp only [hb, Bool.false_eq_true, ↓reduceIte] at h
  exact ⟨h.1, h.2.2⟩

/-! ## 5. `pruned_db_get` on the witness -/

theorem prunedBase_blank : Dict.get? prunedBase (blankRoot toyH) = none := by decide +kernel

theorem prunedBase_short : ∀ h b, Dict.get? prunedBase h = some b → b.length < 2 ^ 64 := by
  intro h b hg
  have := bodies_short prunedBase 100 (by decide +kernel) h b hg
  omega

/-- **`Raw.pruned_db_get` applies**, for every key -/
theorem pruned_get (key : Bytes) : getD toyH prunedBase Tp.root (nibs key) = .ok (spec hist5 key) :=
  Raw.pruned_db_get toyH toyH_len true hist5 Tp sp hist5_reach_p prunedBase_blank prunedBase_short key

/-- a key stored at the end, overwritten on the way: the reader walks root → hashed branch → hashed leaf in the pruned
    database and returns the **later** value -/
theorem pruned_get_k1 : getD toyH prunedBase Tp.root (nibs k1) = .ok longW := by
  rw [pruned_get k1]
  have : spec hist5 k1 = longW := by decide
  rw [this]

/-- a key stored at the end whose leaf was pruned in between and written again -/
theorem pruned_get_k3 : getD toyH prunedBase Tp.root (nibs k3) = .ok longV := by
  rw [pruned_get k3]
  have : spec hist5 k3 = longV := by decide
  rw [this]

/-- the deleted key -/
theorem pruned_get_k2 : getD toyH prunedBase Tp.root (nibs k2) = .ok [] := by
  rw [pruned_get k2]
  have : spec hist5 k2 = [] := by decide
  rw [this]

/-- a key never written -/
theorem pruned_get_absent : getD toyH prunedBase Tp.root (nibs [0x77, 0x01]) = .ok [] := by
  rw [pruned_get [0x77, 0x01]]
  have : spec hist5 [0x77, 0x01] = [] := by decide
  rw [this]

/-- the same theorem on the non-pruning run of the history (`prune := false` instance) -/
theorem full_get (key : Bytes) :
    getD toyH fullBase (runW toyHs (blankRoot toyH) false hist5).1.root (nibs key) = .ok (spec hist5 key) :=
  Raw.pruned_db_get toyH toyH_len false hist5 _ _ hist5_reach_np (by decide +kernel)
    (fun h b hg => by
      have := bodies_short fullBase 100 (by decide +kernel) h b hg
      omega) key

end PyTrie.Props.NonVacuity4

section Axioms
open PyTrie.Props.NonVacuity4
end Axioms
