import PyTrie.Props.C03
import PyTrie.Props.C08
import PyTrie.Props.C10
/-! History-level corollaries for C03 and C08: the tree-level theorems instantiated at the trie reached by
    an arbitrary history (`C01.run ops`, canonical by `C01.canon_run`) and restated with byte-string keys and the
    map model `C01.spec`. -/
namespace PyTrie.Props.Histories
open PyTrie PyTrie.Hex PyTrie.Hex.Node PyTrie.Props.C01 PyTrie.HexD

/-- C03 completeness for every history and key: `get_from_proof(root, key, get_proof(key)) = get(key)` -/
theorem proof_complete_run (H : Bytes → Bytes) (hlen : ∀ b, (H b).length = 32) (ops : List Op) (key : Bytes)
    (hsz : ∀ n ∈ getProof (run ops) (nibs key), (enc H n).length < 2 ^ 64)
    (hnc : C03.NoCollision H (run ops) (nibs key) ((getProof (run ops) (nibs key)).map (toItem H))) :
    getFromProof H (rootHash H (run ops)) key ((getProof (run ops) (nibs key)).map (toItem H)) = .value (spec ops key) := by
  rw [C03.proof_complete H hlen (run ops) (canon_run ops) key (C03.decOkOn_of_small H _ _ hsz) hnc, run_get]

/-- C03 soundness for every history, key and offered node list -/
theorem proof_sound_run (H : Bytes → Bytes) (hlen : ∀ b, (H b).length = 32) (ops : List Op) (key : Bytes)
    (hsz : ∀ n ∈ getProof (run ops) (nibs key), (enc H n).length < 2 ^ 64)
    (ns : List Item) (hnc : C03.NoCollision H (run ops) (nibs key) ns) :
    getFromProof H (rootHash H (run ops)) key ns = .value (spec ops key) ∨
    getFromProof H (rootHash H (run ops)) key ns = .badProof := by
  have := C03.proof_sound H hlen (run ops) (canon_run ops) key (C03.decOkOn_of_small H _ _ hsz) ns hnc
  rwa [run_get] at this

/-- C08: `traverse(path)` is blank exactly when no stored byte-string key starts with the path -/
theorem traverse_blank_iff_run (ops : List Op) (p : Path) :
    (traverseT (run ops) p).1 = blank ↔ ∀ k : Bytes, p <+: nibs k → spec ops k = [] := by
  rw [C08.traverse_blank_iff (run ops) (canon_run ops) p]
  constructor
  · intro h k hk
    rw [← run_get]; exact h _ hk
  · intro h q hq
    cases hg : get (run ops) q with
    | nil => rfl
    | cons a as =>
      obtain ⟨k, hk⟩ := C10.stored_path_is_key ops q (by rw [hg]; simp)
      subst hk
      have := h k hq
      rw [← run_get, hg] at this
      exact this

/-- C08: the description at `path` covers every stored byte-string key below it -/
theorem traverse_covers_run (ops : List Op) (p : Path) (d : Ann)
    (hd : (traverseOut (run ops) p).desc = some d) (k : Bytes) (hpk : p <+: nibs k) (hk : spec ops k ≠ []) :
    (nibs k = p ++ d.suffix ∧ d.value = spec ops k) ∨ (∃ s ∈ d.subs, (p ++ s) <+: nibs k) := by
  have := C08.traverse_covers (run ops) (canon_run ops) p d hd (nibs k) hpk (by rw [run_get]; exact hk)
  rwa [run_get] at this

end PyTrie.Props.Histories
