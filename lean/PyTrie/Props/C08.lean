import PyTrie.Lemmas.HexTravProofs
import PyTrie.Model.HexEff
/-! # C08 — traverse / traverse_from describe the canonical node at every nibble path

`traverseT` mirrors `_traverse_from`/`_traverse_extension`, `traverseOut` mirrors `traverse` /
`traverse_from` (annotation, `TraversedPartialPath`, simulated node). All statements are in terms of
the *contents* `get t` of a canonical tree (every reachable trie is canonical: `C01.canon_run`), for
every nibble path — there is no bound on depth or length. -/
namespace PyTrie.Props.C08
open PyTrie PyTrie.Hex PyTrie.Hex.Node

/-- `root_node` = `traverse(())` = the annotated root -/
theorem traverse_nil (t : Node) : traverseOut t [] = .node (annotate t) := Hex.traverse_nil t

/-- blank exactly when no stored key starts with the path -/
theorem traverse_blank_iff (t : Node) (hc : Canon t) (p : Path) :
    (traverseT t p).1 = blank ↔ ∀ k, p <+: k → get t k = [] := Hex.traverse_blank_iff t hc p

/-- `TraversedPartialPath`: raised only inside a leaf or extension, with `traversed ++ tail = path`,
    a non-empty tail, and always with a simulated node -/
theorem traverse_partial_sim (t : Node) (hc : Canon t) (p tr tail : Path) (a : Ann) (sim : Option Ann)
    (h : traverseOut t p = .partialPath tr a tail sim) :
    sim.isSome = true ∧ tr ++ tail = p ∧ tail ≠ [] ∧ (a.kind = .leaf ∨ a.kind = .ext) :=
  Hex.traverse_partial_sim t hc p tr tail a sim h

/-- the description (real or simulated node) covers the contents below the path: every stored key
    starting with `p` is `p ++ suffix` with the described value, or runs through a listed sub-segment -/
theorem traverse_covers (t : Node) (hc : Canon t) (p : Path) (d : Ann)
    (hd : (traverseOut t p).desc = some d) (k : Path) (hpk : p <+: k) (hk : get t k ≠ []) :
    (k = p ++ d.suffix ∧ d.value = get t k) ∨ (∃ s ∈ d.subs, (p ++ s) <+: k) :=
  Hex.traverse_covers t hc p d hd k hpk hk

theorem traverse_value (t : Node) (hc : Canon t) (p : Path) (d : Ann)
    (hd : (traverseOut t p).desc = some d) (hv : d.value ≠ []) : get t (p ++ d.suffix) = d.value :=
  Hex.traverse_value t hc p d hd hv

/-- sub-segments are non-empty, each leads to a stored key, none is a prefix of another -/
theorem traverse_subs (t : Node) (hc : Canon t) (p : Path) (d : Ann)
    (hd : (traverseOut t p).desc = some d) :
    (∀ s ∈ d.subs, s ≠ [] ∧ ∃ k, (p ++ s) <+: k ∧ get t k ≠ []) ∧
    (∀ s₁ ∈ d.subs, ∀ s₂ ∈ d.subs, s₁ <+: s₂ → s₁ = s₂) := Hex.traverse_subs t hc p d hd

/-- `traverse_from(node at prefix, segment)` = `traverse(prefix ++ segment)` -/
theorem traverse_from_eq (t : Node) (p : Path) (n : Node) (hn : nodeAt t p = some n) (s : Path) :
    traverseT n s = traverseT t (p ++ s) := Hex.traverse_from_eq t p n hn s

/-- … also from the simulated node of a position inside a leaf or extension -/
theorem traverse_from_sim (t : Node) (hc : Canon t) (p tr tail : Path) (a sim : Ann)
    (h : traverseOut t p = .partialPath tr a tail (some sim)) (s : Path) :
    (traverseOut sim.raw s).desc = (traverseOut t (p ++ s)).desc :=
  Hex.traverse_from_sim t hc p tr tail a sim h s

/-- `traverse_from` fetches at most one database entry per child hop: the hashed nodes read while
    following `k` through a canonical tree are at most as many as the nibbles consumed -/
theorem traverse_reads_le (Hs : Hashing) (t : Node) (hc : Canon t) (k pre : Path) :
    (traverseReads Hs t k pre).length ≤ k.length := by
  induction t generalizing k pre with
  | blank => cases k <;> simp [traverseReads]
  | leaf p v => cases k <;> simp [traverseReads]
  | ext p c ih =>
    cases k with
    | nil => simp [traverseReads]
    | cons a k =>
      obtain ⟨hp, _, hcc⟩ := hc
      simp only [traverseReads]
      split
      · next h =>
        have hpk : p <+: a :: k := (cpl_drop_left_nil_iff p (a :: k)).1 h
        obtain ⟨r, hr⟩ := hpk
        have hn : cpl p (a :: k) = p.length := by rw [← hr]; exact cpl_append_left p r
        have hpl : 1 ≤ p.length := by cases p <;> simp_all
        have hle := cpl_le_right p (a :: k)
        have := ih hcc ((a :: k).drop (cpl p (a :: k))) (pre ++ (a :: k).take (cpl p (a :: k)))
        have hl : (a :: k).length = k.length + 1 := rfl
        simp only [List.length_append, List.length_drop] at this ⊢
        split <;> simp <;> omega
      · simp
  | branch ch v ih =>
    cases k with
    | nil => simp [traverseReads]
    | cons a k =>
      simp only [traverseReads, List.length_append, List.length_cons]
      have := ih a (hc.1 a) k (pre ++ [a])
      split <;> simp <;> omega

end PyTrie.Props.C08
