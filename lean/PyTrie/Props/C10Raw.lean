import PyTrie.Lemmas.NodesLoopD
import PyTrie.Lemmas.NodesLoopDPartial
import PyTrie.Lemmas.PartialInv
import PyTrie.Props.C10
/-! # C10 at raw level — `NodeIterator.nodes()` over the database of encoded bodies

`Model/WalkD.lean` `nodesLoopD` is the loop of `nodes()` as the code runs it: the trie is a root hash over a database, the
`TrieFrontierCache` holds raw node bodies, `traverse` / `traverse_from` fetch and decode children from the database. -/
namespace PyTrie.Props.C10
open PyTrie PyTrie.Hex PyTrie.Hex.Node PyTrie.HexD PyTrie.HexW PyTrie.HexRaw PyTrie.Fog
open PyTrie.Props.C01 (Op run spec)
open PyTrie.HexFree (partial_of_complete)

/-- on any database that stores the (canonical) trie the raw-level loop yields exactly the raw images of what the
    tree-level loop yields, from any fog and any cache of stored parents -/
theorem raw_nodes_loop_refines (H : Bytes → Bytes) (hlen : ∀ b, (H b).length = 32) (db : Db) (root : Hash) (t : Node)
    (hc : Canon t) (hroot : RootPartial H db root t) (hrootIn : isBlank t = false → (lookup db root).isSome)
    (hst : StoredD H db t) (fuel : Nat) (fog : Fog) (cache : Frontier Node)
    (hcache : ∀ p parent seg, Frontier.get cache p = some (parent, seg) → Canon parent ∧ StoredD H db parent) :
    nodesLoopD H db root fuel fog (mapCache H cache) =
      .ok ((nodesLoop t fuel fog cache).map (fun e => (e.1, Ann.toD H (annotate e.2)))) :=
  nodesLoopD_refines H hlen db root t hc hroot hrootIn hst fuel fog cache hcache

/-- **`nodes()` over the database the executor left — pruning on or off — is the pre-order sequence of the trie of the
    history**: never `MissingTraversalNode`, never a partial path, every node once, parents before children, left to right -/
theorem raw_nodes_is_preorder (H : Bytes → Bytes) (hlen : ∀ b, (H b).length = 32) (prune : Bool) (ops : List Op)
    (T : TrieSt) (s : OpSt) (h : ReachOpsNC (stdHashing H) (blankRoot H) prune ops T s)
    (hbk : Dict.get? s.store.base (blankRoot H) = none)
    (hsm : ∀ h b, Dict.get? s.store.base h = some b → b.length < 2 ^ 64)
    (fuel : Nat) (hf : (preorder (run ops) []).length < fuel) :
    nodesOfD H s.store.base T.root fuel =
      .ok ((preorder (run ops) []).map (fun e => (e.1, Ann.toD H (annotate e.2)))) := by
  have hcomp := reachOpsNC_complete (stdHashing H) (blankRoot H) prune ops T s h
  have htree : T.tree = run ops :=
    (reachOps_tree (stdHashing H) (blankRoot H) prune ops T s
      (reachOpsNC_reachOps (stdHashing H) (blankRoot H) prune ops T s h)).1
  have hcanon : Canon T.tree := htree ▸ PyTrie.Props.C01.canon_run ops
  have hag : DbAgrees s.store.base s.store.base := fun _ => rfl
  have hst : StoredD H s.store.base T.tree := storedD_of_storedBelow H hag hbk hsm T.tree hcomp.2
  have hp := partial_of_complete H T s.store.base hcomp hbk hsm
  have hrootIn : isBlank T.tree = false → (lookup s.store.base T.root).isSome := by
    intro hb
    have h1 := hcomp.1
    rw [hb] at h1
    simp only [Bool.false_eq_true, if_false] at h1
    obtain ⟨_, _, hg⟩ := h1
    show (Dict.get? s.store.base T.root).isSome
    rw [hg]; rfl
  rw [nodesOfD_refines H hlen s.store.base T.root T.tree hcanon hp.1 hrootIn hst fuel, htree,
    nodes_loop_is_preorder ops fuel hf]

/-- **`items()` over the database the executor left — pruning on or off — yields exactly the stored pairs in key order**
    (`items_exact`, `items_sorted` describe `itemsOf`) -/
theorem raw_items_is_items (H : Bytes → Bytes) (hlen : ∀ b, (H b).length = 32) (prune : Bool) (ops : List Op)
    (T : TrieSt) (s : OpSt) (h : ReachOpsNC (stdHashing H) (blankRoot H) prune ops T s)
    (hbk : Dict.get? s.store.base (blankRoot H) = none)
    (hsm : ∀ h b, Dict.get? s.store.base h = some b → b.length < 2 ^ 64)
    (fuel : Nat) (hf : (preorder (run ops) []).length < fuel) :
    itemsOfD H s.store.base T.root fuel = .ok (itemsOf (run ops)) := by
  unfold itemsOfD
  rw [raw_nodes_is_preorder H hlen prune ops T s h hbk hsm fuel hf]
  simp only [itemsOf, List.filterMap_map]
  rfl

/-- … hence: a pair is yielded iff it is stored (every stored key exactly once, nothing else) -/
theorem raw_items_exact (H : Bytes → Bytes) (hlen : ∀ b, (H b).length = 32) (prune : Bool) (ops : List Op)
    (T : TrieSt) (s : OpSt) (h : ReachOpsNC (stdHashing H) (blankRoot H) prune ops T s)
    (hbk : Dict.get? s.store.base (blankRoot H) = none)
    (hsm : ∀ h b, Dict.get? s.store.base h = some b → b.length < 2 ^ 64)
    (fuel : Nat) (hf : (preorder (run ops) []).length < fuel) :
    ∃ l, itemsOfD H s.store.base T.root fuel = .ok l ∧
      (∀ k v, (nibs k, v) ∈ l ↔ v ≠ [] ∧ spec ops k = v) ∧
      (l.map (·.1)).Pairwise (fun a b => plt a b = true) :=
  ⟨itemsOf (run ops), raw_items_is_items H hlen prune ops T s h hbk hsm fuel hf,
    fun k v => items_exact ops k v, items_sorted ops⟩

/-- **`nodes()` over an incomplete database** (bodies withheld, pruned, not yet downloaded; a cache that may hold stale parents of
    earlier versions): the loop yields exactly the raw images of the tree-level loop, or stops with `MissingTraversalNode`
    naming a node that really is absent — never a wrong node, a skipped subtree or a present node reported missing -/
theorem raw_nodes_loop_partial (H : Bytes → Bytes) (hlen : ∀ b, (H b).length = 32) (db : Db) (root : Hash) (t : Node)
    (hc : Canon t) (hroot : RootPartial H db root t) (hst : PartialD H db t) (fuel : Nat) (fog : Fog) (cache : Frontier Node)
    (hcache : CacheOkD H db cache) :
    (∃ h pre, nodesLoopD H db root fuel fog (mapCache H cache) = .error (.missing h pre) ∧ lookup db h = none) ∨
    nodesLoopD H db root fuel fog (mapCache H cache) =
      .ok ((nodesLoop t fuel fog cache).map (fun e => (e.1, Ann.toD H (annotate e.2)))) :=
  nodesLoopD_partial H hlen db root t hc hroot hst fuel fog cache hcache

theorem raw_nodes_partial (H : Bytes → Bytes) (hlen : ∀ b, (H b).length = 32) (db : Db) (root : Hash) (t : Node)
    (hc : Canon t) (hroot : RootPartial H db root t) (hst : PartialD H db t) (fuel : Nat) :
    (∃ h pre, nodesOfD H db root fuel = .error (.missing h pre) ∧ lookup db h = none) ∨
    nodesOfD H db root fuel = .ok ((nodesOf t fuel).map (fun e => (e.1, Ann.toD H (annotate e.2)))) :=
  nodesOfD_partial H hlen db root t hc hroot hst fuel

end PyTrie.Props.C10
