import PyTrie.Props.NonVacuity2
/-! # Non-vacuity, part 16: a stored VALUE that is the hash of a stored node is not followed (C13)

The situation of the seeded change `C13q-trie-nodes-follows-leaf-value-as-hash`: a second trie `side` lives in the same database
and the trie under test stores `side`'s root hash as the value of one of its keys. `C13.raw_trie_nodes` / `raw_witness` apply
(the database stores the whole trie — that it stores more does not matter): exactly the trie's own nodes come back. -/
namespace PyTrie.Props.NonVacuity16
open PyTrie PyTrie.Bin PyTrie.Bin.BNode PyTrie.BinRaw PyTrie.BranchRaw
open PyTrie.Props.NonVacuity PyTrie.Props.NonVacuity2

/-- the second trie -/
def side : BNode := branch (leaf [0x01]) (leaf [0x02])

/-- the trie under test: key `1` holds `side`'s root hash as its value -/
def acct : BNode := branch (kv [false, true] (leaf [0xaa])) (leaf (hashNode mixH side))

theorem acct_canon : BCanon acct := by
  have h : hashNode mixH side ≠ [] := by decide +kernel
  simp [acct, BCanon, h]

/-- one database holding the nodes of both tries -/
def bothDb : Bin.Db := applySaves mixH (applySaves mixH [] (trieNodes side).reverse) (trieNodes acct).reverse

theorem acct_allStored : AllStored mixH bothDb acct := by
  intro n hn
  rw [sub_iff] at hn
  revert n
  decide +kernel

/-- the value really is a key of the database -/
theorem value_is_a_stored_hash : (lookup bothDb (hashNode mixH side)).isSome = true ∧ bget acct [true] = some (hashNode mixH side) := by
  decide +kernel

/-- **`get_trie_nodes` returns exactly the four nodes of the trie** — not the three of the trie its value points at -/
theorem trie_nodes_do_not_follow_values :
    trieNodesD bothDb 4 (hashNode mixH acct) = .ok ((trieNodes acct).map (encNode mixH)) :=
  C13.raw_trie_nodes mixH mixH_len acct acct_canon bothDb acct_allStored 4 (by decide)

example : (trieNodes acct).length = 4 ∧ (trieNodes side).length = 3 ∧ bothDb.length = 7 := by decide +kernel

/-- … and so does the witness for the prefix `1` -/
theorem witness_does_not_follow_values :
    witnessD bothDb 4 4 (hashNode mixH acct) [true] = liftR mixH (getWitness acct [true]) :=
  C13.raw_witness mixH mixH_len acct acct_canon bothDb acct_allStored [true] 4 4 (by decide) (by decide)

end PyTrie.Props.NonVacuity16
