import PyTrie.Lemmas.EncProofs
import PyTrie.Lemmas.HexDbProofs
/-! # C16 — path and node encodings are exact bijections matching their specifications

All statements are for every input, no length bound. `Nibbles.*` transcribes `trie/utils/nibbles.py`
over arbitrary ints with its validation, `Bin.*` transcribes `trie/utils/binaries.py` and the
binary-node half of `trie/utils/nodes.py`; `HPyp` is the Yellow Paper's HP function written out. -/
namespace PyTrie.Props.C16
open PyTrie PyTrie.Nibbles PyTrie.Bin PyTrie.EncSpec

theorem hp_is_yellow_paper (x : List Nat) (hx : Valid x) (t : Bool) :
    encodeNibbles (withTerm x t) = .ok (HPyp x t) := encodeNibbles_eq_HP x hx t

theorem tree_hp_is_yellow_paper (p : Hex.Path) (t : Bool) : Hex.hp p t = HPyp (p.map (·.val)) t := hp_eq_HP p t

theorem hp_decodes_back (x : List Nat) (hx : Valid x) (t : Bool) :
    decodeNibbles (HPyp x t) = .ok (withTerm x t) := decodeNibbles_HP x hx t

theorem terminator_flag (x : List Nat) (hx : Valid x) (t : Bool) :
    removeTerminator (withTerm x t) = x ∧ isTerminated (withTerm x t) = t := removeTerminator_withTerm x hx t

theorem bytes_nibbles_bytes (b : Bytes) : nibblesToBytes (bytesToNibbles b) = .ok b := nibblesToBytes_bytesToNibbles b

theorem nibbles_of_bytes_valid (b : Bytes) : Valid (bytesToNibbles b) ∧ (bytesToNibbles b).length = 2 * b.length :=
  bytesToNibbles_valid b

theorem nibbles_bytes_nibbles (ns : List Nat) (hv : Valid ns) (he : ns.length % 2 = 0) :
    ∃ b, nibblesToBytes ns = .ok b ∧ bytesToNibbles b = ns := bytesToNibbles_nibblesToBytes ns hv he

theorem bad_nibbles_refused (ns : List Nat) (h : ¬ Valid ns ∨ ns.length % 2 = 1) :
    nibblesToBytes ns = .error .invalidNibbles := nibblesToBytes_refuses ns h

theorem bytes_bits_bytes (b : Bytes) : ofBits (toBits b) = b := ofBits_toBits b

theorem bits_bytes_bits (bits : Bits) (h : bits.length % 8 = 0) : toBits (ofBits bits) = bits := toBits_ofBits bits h

theorem keypath_roundtrip (p : Bits) : decodeKeypath (encodeKeypath p) = .ok p := decodeKeypath_encodeKeypath p

theorem kv_node_roundtrip (p : Bits) (hp : p ≠ []) (c : Bytes) (hc : c.length = 32) :
    ∃ b, encodeKv p c = .ok b ∧ parseNode b = .ok (.kv p c) := parseNode_encodeKv p hp c hc

theorem branch_node_roundtrip (l r : Bytes) (hl : l.length = 32) (hr : r.length = 32) :
    ∃ b, encodeBranch l r = .ok b ∧ parseNode b = .ok (.branch l r) := parseNode_encodeBranch l r hl hr

theorem leaf_node_roundtrip (v : Bytes) (hv : v ≠ []) :
    ∃ b, encodeLeaf v = .ok b ∧ parseNode b = .ok (.leaf v) := parseNode_encodeLeaf v hv

theorem malformed_nodes_rejected (n : Bytes)
    (h : n = [] ∨ (∃ t r, n = t :: r ∧ t ≠ 0 ∧ t ≠ 1 ∧ t ≠ 2) ∨
         (∃ r, n = 1 :: r ∧ n.length ≠ 65) ∨ (∃ r, n = 0 :: r ∧ n.length ≤ 33) ∨ n = [2]) :
    parseNode n = .error .invalidNode := parseNode_rejects n h

theorem encoders_validate (p : Bits) (c l r v : Bytes) :
    ((p = [] ∨ c.length ≠ 32) → encodeKv p c = .error .validation) ∧
    ((l.length ≠ 32 ∨ r.length ≠ 32) → encodeBranch l r = .error .validation) ∧
    (v = [] → encodeLeaf v = .error .validation) := encoders_refuse p c l r v

/-- a hexary node read back from the database classifies as it was written and yields its key path -/
theorem hexary_leaf_classifies (H : Bytes → Bytes) (p : Hex.Path) (v : Bytes) :
    HexD.classify (Hex.toItem H (.leaf p v)) = .leaf p (.str v) := HexD.classify_leaf H p v

theorem hexary_ext_classifies (H : Bytes → Bytes) (p : Hex.Path) (c : Hex.Node) :
    HexD.classify (Hex.toItem H (.ext p c)) = .ext p (Hex.refOf H c) := HexD.classify_ext H p c

theorem hexary_path_decodes (p : Hex.Path) (t : Bool) : HexD.hpDecode (Hex.hp p t) = some (p, t) := HexD.hpDecode_hp p t

end PyTrie.Props.C16
