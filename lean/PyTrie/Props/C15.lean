import PyTrie.Props.C14
/-! # C15 — SparseMerkleProof stays in sync from streamed updates alone

A `Proof` tracks (key, value, branch). The tree's leaf function evolves by `upd`; after each tree write
`set(key, value)` returns `pathHashes` of the new tree along `key` (C14 `set_returns_path`), and the proof
is fed `(key, value, first n of those hashes)`. The proof never looks at the tree. -/
namespace PyTrie.Props.C15
open PyTrie PyTrie.Smt
open PyTrie.Bin (Bits)

variable (H : Bytes → Bytes)

/-- the proof holds the tree's current value and branch for its key -/
def InSync (d : Nat) (f : Bits → Bytes) (p : Proof) : Prop :=
  p.key.length = d ∧ p.value = f p.key ∧ p.branch = siblings H d f p.key

/-- one streamed update: the written key and value, and how many of the returned hashes are passed on -/
structure Update where
  key : Bits
  value : Bytes
  n : Nat

/-- the hashes reach the first bit where the updated key differs from the tracked key -/
def Sufficient (tracked : Bits) (u : Update) : Prop :=
  u.key = tracked ∨ ∃ i, firstDiff tracked u.key = some i ∧ i < u.n

/-- what the proof is handed for update `u` when the tree's leaf function is `f` -/
def offered (d : Nat) (f : Bits → Bytes) (u : Update) : List Hash :=
  (pathHashes H d (upd f u.key u.value) u.key).take u.n

/-- feed a stream; `none` as soon as an update is rejected -/
def feed (d : Nat) : (Bits → Bytes) → Proof → List Update → Option (Proof × (Bits → Bytes))
  | f, p, [] => some (p, f)
  | f, p, u :: us =>
    match p.update u.key u.value (offered H d f u) with
    | .ok p' => feed d (upd f u.key u.value) p' us
    | .error _ => none

/-- a synchronized proof has the tree's root hash -/
theorem in_sync_root (d : Nat) (f : Bits → Bytes) (p : Proof) (h : InSync H d f p) :
    p.rootHash H = merkleRoot H d f := proof_root H d f p h.1 h.2.1 h.2.2

/-- **one update** keeps a synchronized proof synchronized when the hashes are sufficient … -/
theorem update_keeps_sync (d : Nat) (f : Bits → Bytes) (p : Proof) (hs : InSync H d f p) (u : Update)
    (hk : u.key.length = d) (hsuf : Sufficient p.key u) :
    ∃ p', p.update u.key u.value (offered H d f u) = .ok p' ∧ p'.key = p.key ∧
      InSync H d (upd f u.key u.value) p' := by
  have ht := proof_update_tracks H d f p hs.1 hs.2.1 hs.2.2 u.key hk u.value u.n
  rcases hsuf with heq | ⟨i, hi, hlt⟩
  · obtain ⟨p', h1, h2, h3, h4⟩ := ht.1 heq
    exact ⟨p', h1, h2, by rw [InSync, h2]; exact ⟨hs.1, h3, h4⟩⟩
  · obtain ⟨p', h1, h2, h3, h4⟩ := ht.2.1 i hi hlt
    exact ⟨p', h1, h2, by rw [InSync, h2]; exact ⟨hs.1, h3, h4⟩⟩

/-- … and a list that stops short of the first differing bit is rejected with `ValidationError`
    (the proof, being a value, is unchanged) -/
theorem short_update_rejected (d : Nat) (f : Bits → Bytes) (p : Proof) (hs : InSync H d f p) (u : Update)
    (hk : u.key.length = d) (i : Nat) (hi : firstDiff p.key u.key = some i) (hn : u.n ≤ i) :
    p.update u.key u.value (offered H d f u) = .error .validation :=
  (proof_update_tracks H d f p hs.1 hs.2.1 hs.2.2 u.key hk u.value u.n).2.2 i hi hn

/-- **the whole stream**: fed every subsequent update of the tree in order — other keys at any
    divergence depth, its own key, repeated writes, deletions (= writes of the default) — with
    sufficient hash lists, the proof is accepted throughout and ends with the value, branch and root
    hash of the final tree -/
theorem stream_tracks (d : Nat) (f : Bits → Bytes) (p : Proof) (hs : InSync H d f p) (us : List Update)
    (hk : ∀ u ∈ us, u.key.length = d) (hsuf : ∀ u ∈ us, Sufficient p.key u) :
    ∃ p', feed H d f p us = some (p', us.foldl (fun g u => upd g u.key u.value) f) ∧ p'.key = p.key ∧
      InSync H d (us.foldl (fun g u => upd g u.key u.value) f) p' ∧
      p'.rootHash H = merkleRoot H d (us.foldl (fun g u => upd g u.key u.value) f) := by
  induction us generalizing f p with
  | nil => exact ⟨p, rfl, rfl, hs, in_sync_root H d f p hs⟩
  | cons u us ih =>
    obtain ⟨p1, h1, h2, h3⟩ := update_keeps_sync H d f p hs u (hk u (by simp)) (hsuf u (by simp))
    obtain ⟨p', h4, h5, h6, h7⟩ := ih (upd f u.key u.value) p1 h3 (fun x hx => hk x (by simp [hx]))
      (fun x hx => by rw [h2]; exact hsuf x (by simp [hx]))
    refine ⟨p', ?_, h5.trans h2, h6, h7⟩
    simp only [feed, h1, List.foldl_cons]
    exact h4

end PyTrie.Props.C15
