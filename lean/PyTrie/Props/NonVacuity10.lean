import PyTrie.Props.NonVacuity5
import PyTrie.Props.C04Shared
import PyTrie.Props.C12History
import PyTrie.Props.C09Termination
import PyTrie.Props.NonVacuity8
/-! # Non-vacuity, part 10: several tries over one database (C04), earlier roots of a binary trie (C12)

1. A Boolean checker for `C04.SGood`, its soundness, an interleaved history — two fresh non-pruning tries written to
   alternately, a third trie opened at an earlier root of the first and written to — that passes it under the toy hash, and
   `C04.shared_history` / `shared_history_reads` applied to it; the reads are cross-checked by kernel evaluation.
2. `Raw.bin_history_old_roots_readable` applied to the binary history of part 2 (`bops`): the final write log is functional,
   and the roots after 3 and 4 calls read their own contents from the final database. -/
namespace PyTrie.Props.NonVacuity10
open PyTrie PyTrie.Hex PyTrie.Hex.Node PyTrie.HexD
open PyTrie.Props.NonVacuity PyTrie.Props.NonVacuity2 PyTrie.Props.NonVacuity4 PyTrie.Props.NonVacuity5
open PyTrie.HexW PyTrie.HexRaw
open PyTrie.Props.C04 (SEv sstep srun SGoodEv SGood SInv)

/-! ## 1. Shared database -/
section Shared
variable (H : Bytes → Bytes)

def sgoodEvB (w : World) : SEv → Bool
  | .newTrie => true
  | .openAt _ => true
  | .op i k v =>
    decide (i < w.tries.size) &&
    refSoundB (stdHashing H) (w.tries[i]!).tree (nibs k) &&
    (isBlank (opTree (stdHashing H) (w.tries[i]!) k v).1 || !(hashOf H (opTree (stdHashing H) (w.tries[i]!) k v).1 == blankRoot H)) &&
    noClobberB w.base (opWrites (stdHashing H) (w.tries[i]!) k v)

theorem sgoodEv_of_B (w : World) (e : SEv) (h : sgoodEvB H w e = true) : SGoodEv H w e := by
  cases e with
  | newTrie => trivial
  | openAt r => trivial
  | op i k v =>
    simp only [sgoodEvB, Bool.and_eq_true, Bool.or_eq_true, Bool.not_eq_true', beq_eq_false_iff_ne, decide_eq_true_eq] at h
    obtain ⟨⟨⟨h1, h2⟩, h3⟩, h4⟩ := h
    refine ⟨h1, refSound_of_B _ _ _ h2, fun hb => ?_, noClobber_of_B _ _ h4⟩
    rcases h3 with h3 | h3
    · rw [hb] at h3; cases h3
    · exact h3

def sgoodB : World → List SEv → Bool
  | _, [] => true
  | w, e :: rest => sgoodEvB H w e && sgoodB (sstep H w e) rest

theorem sgood_of_B (w : World) (evs : List SEv) (h : sgoodB H w evs = true) : SGood H w evs := by
  induction evs generalizing w with
  | nil => trivial
  | cons e rest ih =>
    simp only [sgoodB, Bool.and_eq_true] at h
    exact ⟨sgoodEv_of_B H w e h.1, ih _ h.2⟩

end Shared

/-- the root trie 0 has after its first write (a hashed leaf) -/
def rootA : Hash := hashOf toyH (leaf (nibs k1) longV)

/-- two fresh tries on one database written to alternately (trie 1 stores another value under the same key and a second
    key); trie 0 overwrites; a third trie is opened at trie 0's FIRST root and written to; trie 1 deletes -/
def evs : List SEv :=
  [.newTrie, .newTrie,
   .op 0 k1 (some longV), .op 1 k1 (some longW), .op 1 k2 (some [5]),
   .op 0 k1 (some longW), .op 0 k3 (some longV),
   .openAt rootA, .op 2 k2 (some longV),
   .op 1 k1 none]

theorem evs_good_B : sgoodB toyH ({} : World) evs = true := by decide +kernel

theorem evs_good : SGood toyH ({} : World) evs := sgood_of_B toyH _ evs evs_good_B

def wEnd : World := srun toyH {} evs

/-- three tries, the third really was opened (the root was known) -/
theorem wEnd_shape : wEnd.tries.size = 3 ∧ (wEnd.tries[2]!).prune = false ∧ 4 ≤ wEnd.roots.length ∧ 5 ≤ wEnd.base.length := by
  decide +kernel

/-- **`C04.shared_history` applies**: the invariant holds at the end — the shared database is complete for all three tries
    and for every recorded root -/
theorem shared_witness : SInv toyH wEnd ∧ Preserved ({} : World).base wEnd.base :=
  C04.shared_history toyH evs {} (C04.sinv_empty toyH) evs_good

theorem wEnd_blank : Dict.get? wEnd.base (blankRoot toyH) = none := by decide +kernel
theorem wEnd_short : ∀ h b, Dict.get? wEnd.base h = some b → b.length < 2 ^ 64 := by
  intro h b hg
  have := bodies_short wEnd.base 100 (by decide +kernel) h b hg
  omega

/-- **`C04.shared_history_reads` applies**: every trie reads its own tree, every recorded root its own -/
theorem reads_witness (key : Bytes) :
    (∀ i, i < wEnd.tries.size →
      getD toyH wEnd.base (wEnd.tries[i]!).root (nibs key) = .ok (Hex.get (wEnd.tries[i]!).tree (nibs key))) ∧
    (∀ r t, (r, t) ∈ wEnd.roots → getD toyH wEnd.base r (nibs key) = .ok (Hex.get t (nibs key))) :=
  C04.shared_history_reads toyH toyH_len evs evs_good wEnd_blank wEnd_short key

def okWith (r : Except DErr Bytes) (v : Bytes) : Bool :=
  match r with
  | .ok x => x == v
  | .error _ => false

/-- the same reads by evaluation: the three tries disagree about `k1` / `k2` although they share the database, and the
    first root of trie 0 still reads the overwritten value -/
theorem reads_evaluated :
    okWith (getD toyH wEnd.base (wEnd.tries[0]!).root (nibs k1)) longW = true ∧
    okWith (getD toyH wEnd.base (wEnd.tries[1]!).root (nibs k1)) [] = true ∧
    okWith (getD toyH wEnd.base (wEnd.tries[1]!).root (nibs k2)) [5] = true ∧
    okWith (getD toyH wEnd.base (wEnd.tries[2]!).root (nibs k1)) longV = true ∧
    okWith (getD toyH wEnd.base (wEnd.tries[2]!).root (nibs k2)) longV = true ∧
    okWith (getD toyH wEnd.base rootA (nibs k1)) longV = true ∧
    okWith (getD toyH wEnd.base rootA (nibs k3)) [] = true := by
  decide +kernel

/-! ## 2. Earlier roots of the binary trie -/
section BinOld
open PyTrie.Bin PyTrie.Bin.BNode PyTrie.BinRaw
open PyTrie.Props.C12 (Op run spec)
open PyTrie.Props.Raw (FunctionalLog)

def bFinal : BinRaw.St := match binRawRun mixH bops (mixH [], { db := [] }) with
  | .ok r => r.2
  | .error _ => { db := [] }

theorem bFinal_run : binRawRun mixH bops (mixH [], { db := [] }) = .ok (rootOf mixH (run bops), bFinal) := by
  obtain ⟨st, h, _⟩ := bin_history_witness
  have : bFinal = st := by unfold bFinal; rw [h]
  rw [this]; exact h

def functionalB (db : Bin.Db) : Bool :=
  db.all fun e => db.all fun e' => !(e.1 == e'.1) || e.2 == e'.2

theorem functional_of_B (db : Bin.Db) (h : functionalB db = true) : FunctionalLog db := by
  intro x b b' h1 h2
  simp only [functionalB, List.all_eq_true, Bool.or_eq_true, Bool.not_eq_true', beq_eq_false_iff_ne, beq_iff_eq] at h
  rcases h _ h1 _ h2 with h | h
  · exact absurd rfl h
  · exact h

theorem bFinal_functional : FunctionalLog bFinal.db := functional_of_B _ (by decide +kernel)

/-- **`Raw.bin_history_old_roots_readable` applies**: the roots after 3 and after 4 calls, read through the final database
    (17 log entries, written by 6 calls), return the contents of that moment -/
theorem old_roots_witness (i : Nat) (k : Bits) :
    bgetD (mixH []) bFinal.db (k.length + 1) (rootOf mixH (run (bops.take i))) k = .ok (spec (bops.take i) k) :=
  Raw.bin_history_old_roots_readable mixH mixH_len bops _ bops_reach bFinal bFinal_run bFinal_functional i k

/-- after 4 calls the key `0010` held `aa` (deleted by the fifth call); after 3 calls `bk` was not stored yet -/
theorem old_roots_spec :
    spec (bops.take 4) [false, false, true, false] = some [0xaa] ∧ spec bops [false, false, true, false] = none ∧
    spec (bops.take 3) bk = none ∧ spec (bops.take 4) bk = some [0xee] := by
  have h4 := binReach_keys mixH _ _ (Raw.bin_reach_prefix mixH bops _ bops_reach 4)
  have h3 := binReach_keys mixH _ _ (Raw.bin_reach_prefix mixH bops _ bops_reach 3)
  have h6 := binReach_keys mixH _ _ bops_reach
  rw [← C12.run_get _ h4, ← C12.run_get _ h4, ← C12.run_get _ h3, ← C12.run_get _ h6]
  decide +kernel

end BinOld
end PyTrie.Props.NonVacuity10

/-! ## 3. Termination bound on the concrete walk of part 8 -/
namespace PyTrie.Props.NonVacuity10
open PyTrie PyTrie.Hex PyTrie.Hex.Node PyTrie.HexD PyTrie.Fog PyTrie.Walk
open PyTrie.Props.NonVacuity (toyH toyH_len)
open PyTrie.Props.NonVacuity8

/-- the key-length premise as a test on the stored items -/
theorem keys_short_of_items (t : Node) (hc : Canon t) (L : Nat)
    (h : (itemsOf t).all (fun e => decide (e.1.length ≤ L)) = true) : ∀ k, Hex.get t k ≠ [] → k.length ≤ L := by
  intro k hk
  have hm := (itemsOf_mem t hc k (Hex.get t k)).2 ⟨hk, rfl⟩
  simpa using List.all_eq_true.1 h _ hm

/-- every version the five-step walk of part 8 consults stores keys of at most two nibbles -/
theorem sched8_keys_short : ∀ e ∈ sched, ∀ k, Hex.get e.t k ≠ [] → k.length ≤ 2 := by
  intro e he
  have hc : Canon e.t := (sched_ok.1 e he).1
  have hall : sched.all (fun e => (itemsOf e.t).all (fun x => decide (x.1.length ≤ 2))) = true := by decide +kernel
  exact keys_short_of_items e.t hc 2 (List.all_eq_true.1 hall e he)

/-- **`C09.raw_walk_length_bounded` applies** to the walk interleaved with a pruning history (retry on a stale cached parent
    included): 5 steps + what is left of the fog stay below `17^3` -/
theorem walk_bound_witness (r : CStateD) (hrun : crunDR toyH cstartD (sched.map StepT.toD) = .ok (some r)) :
    sched.length + mu 2 r.fog ≤ 17 ^ 3 ∧ sched.length + r.fog.length ≤ 17 ^ 3 :=
  C09.raw_walk_length_bounded toyH toyH_len 2 sched sched_ok sched8_keys_short r hrun

end PyTrie.Props.NonVacuity10
