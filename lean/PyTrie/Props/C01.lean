import PyTrie.Lemmas.HexTrav
/-! # C01 — HexaryTrie behaves as a byte-string map under every history

The theorems are about the tree-level functions `set`/`delete` (transcribed from
`_set*`/`_delete*`/`_normalize_branch_node`) and the code-shaped lookup `getT`
(`_traverse_from` + `_get`); `run` folds an arbitrary history over the empty trie.
Batches: a committed `squash_changes` block contributes its operations, an aborted one
contributes nothing (`flatten`); that the world-level executor behaves so is C05. -/
namespace PyTrie.Props.C01
open PyTrie PyTrie.Hex

/-- one call of a history; `set k []` routes to delete, as `HexaryTrie.set` does -/
inductive Op where
  | set (k v : Bytes)
  | delete (k : Bytes)

def applyOp (t : Node) : Op → Node
  | .set k v => if v = [] then Hex.delete t (nibs k) else Hex.set t (nibs k) v
  | .delete k => Hex.delete t (nibs k)

/-- the trie after a history that started from the empty database -/
def run (ops : List Op) : Node := ops.foldl applyOp .blank

def specStep (m : Bytes → Bytes) : Op → Bytes → Bytes
  | .set k v => fun k' => if k' = k then v else m k'
  | .delete k => fun k' => if k' = k then [] else m k'

/-- the map model: last value written per key, `[]` for everything else -/
def spec (ops : List Op) : Bytes → Bytes := ops.foldl specStep (fun _ => [])

/-- history items including squash_changes blocks -/
inductive HOp where
  | op (o : Op)
  | batch (committed : Bool) (ops : List Op)

def flatten : List HOp → List Op
  | [] => []
  | .op o :: r => o :: flatten r
  | .batch true ops :: r => ops ++ flatten r
  | .batch false _ :: r => flatten r

theorem get_set (t : Node) (k : Path) (v : Bytes) (k' : Path) :
    get (Hex.set t k v) k' = if k' = k then v else get t k' := Hex.get_set t k v k'

theorem get_delete (t : Node) (k k' : Path) :
    get (Hex.delete t k) k' = if k' = k then [] else get t k' := Hex.get_delete t k k'

theorem getT_eq_get (t : Node) (hc : Canon t) (k : Path) : getT t k = .ok (get t k) :=
  Hex.getT_eq_get t hc k

private theorem byte_eq_of_nibbles (a b : UInt8)
    (h1 : Fin.ofNat 16 (a.toNat / 16) = Fin.ofNat 16 (b.toNat / 16))
    (h2 : Fin.ofNat 16 (a.toNat % 16) = Fin.ofNat 16 (b.toNat % 16)) : a = b := by
  have ha := a.toNat_lt
  have hb := b.toNat_lt
  have e1 : a.toNat / 16 % 16 = b.toNat / 16 % 16 := by simpa [Fin.ofNat, Fin.ext_iff] using h1
  have e2 : a.toNat % 16 % 16 = b.toNat % 16 % 16 := by simpa [Fin.ofNat, Fin.ext_iff] using h2
  apply UInt8.toNat_inj.1
  omega

/-- distinct byte strings have distinct nibble paths (`bytes_to_nibbles` is injective) -/
theorem nibs_injective : ∀ (a b : Bytes), nibs a = nibs b → a = b
  | [], [], _ => rfl
  | [], _ :: _, h => by simp [nibs] at h
  | _ :: _, [], h => by simp [nibs] at h
  | x :: xs, y :: ys, h => by
    simp only [nibs, List.cons.injEq] at h
    obtain ⟨h1, h2, h3⟩ := h
    rw [byte_eq_of_nibbles x y h1 h2, nibs_injective xs ys h3]

theorem canon_applyOp (t : Node) (o : Op) (hc : Canon t) : Canon (applyOp t o) := by
  cases o with
  | set k v =>
    simp only [applyOp]
    split
    · exact canon_delete _ _ hc
    · next hv => exact canon_set _ _ _ hv hc
  | delete k => exact canon_delete _ _ hc

theorem canon_foldl (ops : List Op) (t : Node) (hc : Canon t) : Canon (ops.foldl applyOp t) := by
  induction ops generalizing t with
  | nil => exact hc
  | cons o os ih => exact ih _ (canon_applyOp t o hc)

/-- every reachable trie is canonical -/
theorem canon_run (ops : List Op) : Canon (run ops) := canon_foldl ops .blank trivial

theorem get_applyOp (t : Node) (o : Op) (m : Bytes → Bytes) (h : ∀ k, get t (nibs k) = m k) :
    ∀ k, get (applyOp t o) (nibs k) = specStep m o k := by
  intro k'
  cases o with
  | set k v =>
    simp only [applyOp, specStep]
    split
    · next hv =>
      subst hv
      rw [Hex.get_delete]
      by_cases e : k' = k
      · simp [e]
      · have : nibs k' ≠ nibs k := fun hh => e (nibs_injective _ _ hh)
        simp [e, this, h]
    · rw [Hex.get_set]
      by_cases e : k' = k
      · simp [e]
      · have : nibs k' ≠ nibs k := fun hh => e (nibs_injective _ _ hh)
        simp [e, this, h]
  | delete k =>
    simp only [applyOp, specStep]
    rw [Hex.get_delete]
    by_cases e : k' = k
    · simp [e]
    · have : nibs k' ≠ nibs k := fun hh => e (nibs_injective _ _ hh)
      simp [e, this, h]

theorem get_foldl (ops : List Op) (t : Node) (m : Bytes → Bytes) (h : ∀ k, get t (nibs k) = m k) :
    ∀ k, get (ops.foldl applyOp t) (nibs k) = ops.foldl specStep m k := by
  induction ops generalizing t m with
  | nil => exact h
  | cons o os ih => exact ih _ _ (get_applyOp t o m h)

/-- after any history the contents are exactly the map model, for every byte-string key -/
theorem run_get (ops : List Op) (k : Bytes) : get (run ops) (nibs k) = spec ops k :=
  get_foldl ops .blank (fun _ => []) (fun k => by simp [Hex.get]) k

/-- the lookup the code performs (`_traverse_from` then `_get`) returns the map model's answer and
    never raises, for every history and every lookup key: stored, absent, the empty key, proper
    prefixes of stored keys, extensions, mid-path divergences — there is no case distinction. -/
theorem run_getT_never_raises (ops : List Op) (k : Bytes) :
    getT (run ops) (nibs k) = .ok (spec ops k) := by
  rw [Hex.getT_eq_get _ (canon_run ops), run_get]

/-- batched histories: committed blocks count, aborted blocks do not -/
theorem run_flatten_getT (h : List HOp) (k : Bytes) :
    getT (run (flatten h)) (nibs k) = .ok (spec (flatten h) k) := run_getT_never_raises _ k

/-! ## Defect D1, as a machine-checked fact about the pinned `_get`
Two keys sharing five nibbles, lookup of a key that ends inside the extension. -/
def d1Trie : Node := Hex.set (Hex.set .blank [1,2,3,4,5,6] [97]) [1,2,3,4,5,7] [98]

def isExtErr : Except GetErr Bytes → Bool
  | .error .extensionWithRemainingKey => true
  | _ => false

theorem d1_pinned_raises : isExtErr (getPinned d1Trie [1,2]) = true := by decide
example : (match getT d1Trie [1,2] with | .ok v => v == [] | .error _ => false) = true := by decide

/-! non-vacuity: a concrete history with a prefix key, an overwrite and a delete -/
example : spec [.set [0x12,0x34] [1], .set [0x12] [2], .set [0x12,0x34] [3], .delete [0x12]] [0x12,0x34] = [3] := by
  decide

end PyTrie.Props.C01
