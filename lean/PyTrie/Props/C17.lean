import PyTrie.Lemmas.SdbProofs
/-! # C17 — ScratchDB buffers a batch and commits it atomically or not at all

`Sdb.*` transcribes `trie/utils/db.py`. A batch is any list of buffered writes and deletes on a fresh
ScratchDB over any pre-existing wrapped database `w`; reads and membership tests do not change the
state, so they may be interleaved anywhere (the theorems describe what they return after any prefix). -/
namespace PyTrie.Props.C17
open PyTrie PyTrie.Sdb PyTrie.HexW

/-- while the batch is open the wrapped database is never written -/
theorem wrapped_untouched (w : Dict Bytes) (acts : List Act) :
    (runActs { wrapped := w, cache := [] } acts).wrapped = w := Sdb.wrapped_untouched w acts

/-- reads see the latest buffered write; after a buffered delete (or no action) they read through -/
theorem read_latest (w : Dict Bytes) (acts : List Act) (k : Bytes) :
    getItem (runActs { wrapped := w, cache := [] } acts) k =
      match lastAct acts k with
      | some (some v) => some v
      | _ => Dict.get? w k := Sdb.read_latest w acts k

theorem contains_latest (w : Dict Bytes) (acts : List Act) (k : Bytes) :
    contains (runActs { wrapped := w, cache := [] } acts) k =
      match lastAct acts k with
      | some (some _) => true
      | _ => Dict.contains w k := Sdb.contains_latest w acts k

/-- normal exit: last-write-wins, deletes only if requested, untouched keys untouched, buffer empty -/
theorem commit_spec (w : Dict Bytes) (hw : NoDupKeys w) (acts : List Act) (dd : Bool) (k : Bytes) :
    let r := commit (runActs { wrapped := w, cache := [] } acts) dd none
    r.1 = true ∧ r.2.1.cache = [] ∧
    Dict.get? r.2.1.wrapped k =
      match lastAct acts k with
      | some (some v) => some v
      | some none => if dd then none else Dict.get? w k
      | none => Dict.get? w k := Sdb.commit_spec w hw acts dd k

/-- exceptional exit at any position: wrapped database exactly as it was, buffer empty -/
theorem abort_spec (w : Dict Bytes) (acts : List Act) :
    abort (runActs { wrapped := w, cache := [] } acts) = { wrapped := w, cache := [] } := Sdb.abort_spec w acts

/-- a commit whose n-th write fails: buffer empty, every binding afterwards is old or a buffered write -/
theorem commit_failure_spec (w : Dict Bytes) (acts : List Act) (dd : Bool) (n : Nat) :
    let r := commit (runActs { wrapped := w, cache := [] } acts) dd (some n)
    r.2.1.cache = [] ∧
    ∀ k v, Dict.get? r.2.1.wrapped k = some v → Dict.get? w k = some v ∨ lastAct acts k = some (some v) :=
  Sdb.commit_failure_spec w acts dd n

/-- non-vacuity: write, delete, rewrite, delete of a pre-existing key -/
example : (commit (runActs { wrapped := [([1], [9]), ([2], [8])], cache := [] }
    [.write [1] [7], .delete [1], .write [3] [5], .delete [2], .write [1] [6]]) true none).2.1.wrapped
    = [([1], [6]), ([3], [5])] := by decide

end PyTrie.Props.C17
