import PyTrie.Props.RawLevel
import PyTrie.Props.C12
/-! # C12 — all earlier roots of a BinaryTrie remain readable from the same database, for every history

`binRawRun` threads `BinaryTrie._set` (raw level: node hashes and a database of encoded nodes, a write log) through a
history. The database is add-only (`Raw.bin_db_add_only`); here: after ANY history, reading at the root the trie had after
the first `i` calls — `BinaryTrie(db, old_root).get(k)` over the FINAL database — returns what was stored then.

Run-level premise besides `BinReach` (per-call no-collision facts): `FunctionalLog` — the final write log binds no hash to
two different bodies (false only if the run itself exhibits a hash collision between nodes of different versions). -/
namespace PyTrie.Props.Raw
open PyTrie PyTrie.Bin PyTrie.BinRaw
open PyTrie.Props.C12 (Op run spec)

/-- no hash is bound to two different bodies anywhere in the write log -/
def FunctionalLog (db : Db) : Prop := ∀ h b b', (h, b) ∈ db → (h, b') ∈ db → b = b'

private theorem binRawRun_append (H : Bytes → Bytes) (a b : List Op) (s : Hash × St) :
    binRawRun H (a ++ b) s =
      match binRawRun H a s with
      | .error e => .error e
      | .ok s' => binRawRun H b s' := by
  induction a generalizing s with
  | nil =>
    obtain ⟨root, st⟩ := s
    rfl
  | cons x rest ih =>
    obtain ⟨root, st⟩ := s
    simp only [List.cons_append, binRawRun]
    split
    · rfl
    · exact ih _

private theorem rawSet_db_grows (H : Bytes → Bytes) (blank : Hash) (fuel : Nat) (st : St) (h : Hash) (k : Bits) (v : Bytes)
    (sub : Bool) (r : Hash) (st' : St) (hs : rawSet H blank fuel st h k v sub = .ok (r, st')) :
    ∃ added, st'.db = added ++ st.db := by
  rw [binT_agrees] at hs
  obtain ⟨added, hadd⟩ := bin_db_add_only H blank fuel st h k v sub
  generalize BinRawT.rawSetT H blank fuel st h k v sub = p at hs hadd
  obtain ⟨p1, p2⟩ := p
  cases p2 with
  | error e => simp [BinRawT.forget] at hs
  | ok h' =>
    simp only [BinRawT.forget, Except.ok.injEq, Prod.mk.injEq] at hs
    obtain ⟨_, rfl⟩ := hs
    exact ⟨added, hadd⟩

private theorem binRawRun_db_grows (H : Bytes → Bytes) (ops : List Op) (s s' : Hash × St)
    (h : binRawRun H ops s = .ok s') : ∃ added, s'.2.db = added ++ s.2.db := by
  induction ops generalizing s with
  | nil =>
    obtain ⟨root, st⟩ := s
    simp only [binRawRun, Except.ok.injEq] at h
    subst h
    exact ⟨[], rfl⟩
  | cons o rest ih =>
    obtain ⟨root, st⟩ := s
    simp only [binRawRun] at h
    split at h
    · cases h
    · next r1 st1 h1 =>
      obtain ⟨a1, ha1⟩ := rawSet_db_grows H _ _ _ _ _ _ _ _ _ h1
      obtain ⟨a2, ha2⟩ := ih _ h
      refine ⟨a2 ++ a1, ?_⟩
      rw [ha2]
      show a2 ++ st1.db = _
      rw [ha1, List.append_assoc]

private theorem lookup_append_functional (added old : Db) (hfun : FunctionalLog (added ++ old)) (h : Hash) (b : Bytes)
    (hl : lookup old h = some b) : lookup (added ++ old) h = some b := by
  unfold lookup at hl ⊢
  rw [List.find?_append]
  cases hf : added.find? (fun e => e.1 == h) with
  | none => simpa using hl
  | some e =>
    obtain ⟨e', he', hb⟩ := Option.map_eq_some_iff.1 hl
    have hm' := List.mem_of_find?_eq_some he'
    have hh' := List.find?_some he'
    have hm := List.mem_of_find?_eq_some hf
    have hh := List.find?_some hf
    simp only [beq_iff_eq] at hh hh'
    obtain ⟨e1, e2⟩ := e
    obtain ⟨e1', e2'⟩ := e'
    simp only at hh hh' hb
    have := hfun h e2 b (hh ▸ List.mem_append_left _ hm) (hh' ▸ hb ▸ List.mem_append_right _ hm')
    simp [this]

/-- the history up to call `i` is itself a reachable history (prefix-closure of `BinReach`) -/
theorem bin_reach_prefix (H : Bytes → Bytes) (ops : List Op) (t : Option BNode) (h : BinReach H ops t) (i : Nat) :
    BinReach H (ops.take i) (run (ops.take i)) := by
  induction h with
  | init => simpa [run] using BinReach.init
  | step ops t o t' hr hk hap hnc ih =>
    by_cases hi : i ≤ ops.length
    · rw [List.take_append_of_le_length hi]
      exact ih
    · have hall : (ops ++ [o]).take i = ops ++ [o] := List.take_of_length_le (by simp; omega)
      rw [hall]
      have h' := BinReach.step ops t o t' hr hk hap hnc
      rw [← binReach_run H _ _ h']
      exact h'

/-- the write log of a prefix of the history is a suffix of the final write log -/
theorem bin_history_log_grows (H : Bytes → Bytes) (hlen : ∀ b, (H b).length = 32) (ops : List Op) (t : Option BNode)
    (h : BinReach H ops t) (i : Nat) :
    ∃ sti st added, binRawRun H (ops.take i) (H [], { db := [] }) = .ok (rootOf H (run (ops.take i)), sti) ∧
      binRawRun H ops (H [], { db := [] }) = .ok (rootOf H (run ops), st) ∧ st.db = added ++ sti.db := by
  obtain ⟨sti, hruni, _⟩ := binRawRun_refines H hlen _ _ (bin_reach_prefix H ops t h i)
  obtain ⟨st, hrun, _⟩ := binRawRun_refines H hlen ops t h
  rw [binReach_run H ops t h] at hrun
  have hsplit := binRawRun_append H (ops.take i) (ops.drop i) (H [], { db := [] })
  rw [List.take_append_drop, hrun, hruni] at hsplit
  obtain ⟨added, hadd⟩ := binRawRun_db_grows H _ _ _ hsplit.symm
  exact ⟨sti, st, added, hruni, hrun, hadd⟩

/-- **every earlier root stays fully readable**: `get` over the final database, started at the root the trie had after
    the first `i` calls, returns the map model's value of those `i` calls — for every key -/
theorem bin_history_old_roots_readable (H : Bytes → Bytes) (hlen : ∀ b, (H b).length = 32) (ops : List Op) (t : Option BNode)
    (h : BinReach H ops t) (st : St) (hrun : binRawRun H ops (H [], { db := [] }) = .ok (rootOf H (run ops), st))
    (hfun : FunctionalLog st.db) (i : Nat) (k : Bits) :
    bgetD (H []) st.db (k.length + 1) (rootOf H (run (ops.take i))) k = .ok (spec (ops.take i) k) := by
  have hp := bin_reach_prefix H ops t h i
  obtain ⟨sti, hruni, hsti⟩ := binRawRun_refines H hlen _ _ hp
  obtain ⟨sti', st', added, hruni', hrun', hadd⟩ := bin_history_log_grows H hlen ops t h i
  rw [hruni] at hruni'
  rw [hrun] at hrun'
  simp only [Except.ok.injEq, Prod.mk.injEq, true_and] at hruni' hrun'
  subst hruni' hrun'
  have hc := binReach_canon H _ _ hp
  have hkeys := binReach_keys H _ _ hp
  rw [← Props.C12.run_get (ops.take i) hkeys k]
  generalize run (ops.take i) = ti at hp hsti hc
  cases ti with
  | none => simp [rootOf, bgetD, bgetTop]
  | some n =>
    show bgetD (H []) st.db (k.length + 1) (hashNode H n) k = .ok (bget n k)
    apply bgetD_complete H hlen n hc st.db k _ _ (by omega)
    intro x hx
    have hx' := hsti n rfl x ((mem_trieNodes_iff n x).1 (pathNodes_sub_trieNodes n k x hx))
    refine ⟨hx'.1, ?_⟩
    rw [hadd]
    exact lookup_append_functional added sti.db (hadd ▸ hfun) _ _ hx'.2

end PyTrie.Props.Raw
