import PyTrie.Props.NonVacuity6
/-! # Non-vacuity, part 7: the raw-level walk step (`C09.raw_step_refines`, `C09.raw_cache_invariant`)

Both theorems are stated under `Canon t`, `RootPartial H db root t`, `PartialD H db t`, `CacheOkD H db s.cache`. Here, with
the toy hash `toyH` and the executor's pruning runs of `NonVacuity4.lean` / `NonVacuity6.lean`:

1. a complete walk (five raw-level steps, four of them cache hits) of the final tree of the six-operation history `hist6`
   (three keys; a hashed branch and two hashed leaves below the root) over its final pruned database;
2. the cache of that walk after two steps, kept while two more operations (`hist8`) prune a hashed leaf under a cached
   parent: over the *current* tree, root and database the stale cache still satisfies `CacheOkD`, and the step at the prefix
   of the pruned leaf is the left disjunct — `MissingTraversalNode` for exactly that leaf;
3. a stale hit in the same cache whose child is still in the database: the step succeeds and is the tree-level step, which
   describes the **old** version there (the value met is the old one, the current trie holds another);
4. `raw_cache_invariant` on the successful steps.

The hypotheses are not assumed: `Canon` is `C01.canon_run`, `RootPartial`/`PartialD` come from
`C09.earlier_versions_consistent` on checked `ReachVersions` histories, `CacheOkD` from the empty cache and
`C09.raw_cache_invariant`. Which disjunct of `raw_step_refines` holds is decided by evaluating `cstepD` in the kernel. -/
namespace PyTrie.Props.NonVacuity7
open PyTrie PyTrie.Hex PyTrie.Hex.Node PyTrie.HexD PyTrie.Fog PyTrie.Walk
open PyTrie.Props.NonVacuity PyTrie.Props.NonVacuity2 PyTrie.Props.NonVacuity4 PyTrie.Props.NonVacuity6
open PyTrie.HexW PyTrie.HexRaw
open PyTrie.HexFree (ReachVersions WritesAgree)
open PyTrie.Props.C01 (Op run spec applyOp)

/-! ## 0. Reading off the outcome of a step -/

/-- the state after a tree-level step (the old state if the step is not defined — never the case below) -/
def stepGet (t : Node) (s : CState) (p : Path) : CState := (cstep t s p).getD s

/-- the raw-level step returned a new state -/
def okSomeB : Except TErr (Option CStateD) → Bool
  | .ok (some _) => true
  | _ => false

/-- the raw-level step raised `MissingTraversalNode(h, pre)` -/
def missB (h : Hash) (pre : Path) : Except TErr (Option CStateD) → Bool
  | .error (.missing h' pre') => h' == h && pre' == pre
  | _ => false

theorem eq_of_missB (h : Hash) (pre : Path) (r : Except TErr (Option CStateD)) (hm : missB h pre r = true) :
    r = .error (.missing h pre) := by
  unfold missB at hm
  split at hm
  · simp only [Bool.and_eq_true, beq_iff_eq] at hm
    rw [hm.1, hm.2]
  · cases hm

/-- the cache holds `(parent, seg)` at `p`, as a test (`Node` has no decidable equality: `sameB`) -/
def hitB (c : Frontier Node) (p : Path) (parent : Node) (seg : Path) : Bool :=
  match Frontier.get c p with
  | some (n, s) => sameB n parent && s == seg
  | none => false

theorem hit_of_B (c : Frontier Node) (p : Path) (parent : Node) (seg : Path) (h : hitB c p parent seg = true) :
    Frontier.get c p = some (parent, seg) := by
  unfold hitB at h
  split at h
  · next n s heq =>
    simp only [Bool.and_eq_true, beq_iff_eq] at h
    rw [heq, sameB_eq _ _ h.1, h.2]
  · cases h

/-- a tree-level hit is a raw-level hit on the parent's body -/
theorem hit_raw (c : CState) (p : Path) (parent : Node) (seg : Path) (h : Frontier.get c.cache p = some (parent, seg)) :
    Frontier.get (toCD toyH c).cache p = some (toItem toyH parent, seg) := by
  simp only [toCD, frontier_get_map, h, Option.map_some]

theorem cacheOkD_nil (db : Db) : CacheOkD toyH db [] := by
  intro p parent seg h
  simp [Frontier.get] at h

/-- **one successful step, from `C09.raw_step_refines` and `C09.raw_cache_invariant`**: under the hypotheses of the two
    theorems, if the evaluation of `cstepD` shows a new state, then the tree-level step is defined, `cstepD` returns the raw
    image of its result, and the cache invariant holds afterwards -/
def StepOk (db : Db) (root : Hash) (t : Node) (s : CState) (p : Path) : Prop :=
  cstep t s p = some (stepGet t s p) ∧
  cstepD toyH db root (toCD toyH s) p = .ok (some (toCD toyH (stepGet t s p))) ∧
  cstepD toyH db root (toCD toyH s) p = .ok ((cstep t s p).map (toCD toyH)) ∧
  CacheOkD toyH db (stepGet t s p).cache

theorem step_ok (db : Db) (root : Hash) (t : Node) (hc : Canon t) (hroot : RootPartial toyH db root t)
    (hst : PartialD toyH db t) (s : CState) (hcache : CacheOkD toyH db s.cache) (p : Path)
    (hev : okSomeB (cstepD toyH db root (toCD toyH s) p) = true) : StepOk db root t s p := by
  rcases C09.raw_step_refines toyH toyH_len db root t hc hroot hst s hcache p with ⟨h, pre, he, _⟩ | hr
  · rw [he] at hev; cases hev
  · have hs : cstep t s p = some (stepGet t s p) := by
      unfold stepGet
      cases hcs : cstep t s p with
      | none => rw [hr, hcs] at hev; cases hev
      | some s' => rfl
    refine ⟨hs, ?_, hr, C09.raw_cache_invariant toyH db t hc hst s hcache p _ hs⟩
    rw [hr, hs]; rfl

/-- **one failing step, from `C09.raw_step_refines`**: if the evaluation of `cstepD` shows `MissingTraversalNode(h, pre)`,
    the theorem's left disjunct holds with these `h`, `pre` — in particular the database does not hold `h` -/
theorem step_missing (db : Db) (root : Hash) (t : Node) (hc : Canon t) (hroot : RootPartial toyH db root t)
    (hst : PartialD toyH db t) (s : CState) (hcache : CacheOkD toyH db s.cache) (p : Path) (h : Hash) (pre : Path)
    (hev : missB h pre (cstepD toyH db root (toCD toyH s) p) = true) :
    cstepD toyH db root (toCD toyH s) p = .error (.missing h pre) ∧ lookup db h = none := by
  have he := eq_of_missB h pre _ hev
  rcases C09.raw_step_refines toyH toyH_len db root t hc hroot hst s hcache p with ⟨h', pre', he', hl⟩ | hr
  · rw [he] at he'
    injection he' with he'
    injection he' with h1 h2
    subst h1
    exact ⟨he, hl⟩
  · rw [he] at hr; cases hr

/-! ## 1. A complete walk over a complete database

The final tree of `hist6` (`NonVacuity6.lean`; keys `k1 = 12`, `k3 = 14`, `k4 = 25`): a root branch whose child 1 is the
hashed branch `br6` over two hashed leaves (`longW` at `[1,2]`, `longV` at `[1,4]`) and whose child 2 is an embedded leaf. -/

def br6 : Node := branch (upd (upd emptyCh 2 (leaf [] longW)) 4 (leaf [] longV)) []

/-- the final tree of `hist6` -/
def t6 : Node := run (hist6.take 6)

def root6 : Hash := rootHash toyH t6

theorem t6_shape : t6 = branch (upd (upd emptyCh 1 br6) 2 (leaf [5] [6])) [] := sameB_eq _ _ (by decide +kernel)

/-- three keys; the branch and the two leaves below the root are stored under their hashes -/
theorem t6_contents :
    get t6 (nibs k1) = longW ∧ get t6 (nibs k3) = longV ∧ get t6 (nibs k4) = [6] ∧
    isHashed toyH br6 = true ∧ isHashed toyH (leaf [] longW) = true ∧ isHashed toyH (leaf [] longV) = true := by
  decide +kernel

theorem t6_canon : Canon t6 := C01.canon_run _

theorem t6_root : RootPartial toyH prunedBase6 root6 t6 := (hist6_versions_consistent 6 (by decide)).1

theorem t6_partial : PartialD toyH prunedBase6 t6 := (hist6_versions_consistent 6 (by decide)).2

/-- the database is complete for `t6`: nothing is missing on the path of any of its keys -/
theorem t6_db_complete :
    ∀ k ∈ [k1, k3, k4], firstMissingRead toyH prunedBase6 t6 (nibs k) [] = none := by decide +kernel

/-- the states of the walk: prefixes `[]`, `[1]`, `[1,2]`, `[1,4]`, `[2]` (always the left-most unexplored one) -/
def a0 : CState := cstart
def a1 : CState := stepGet t6 a0 []
def a2 : CState := stepGet t6 a1 [1]
def a3 : CState := stepGet t6 a2 [1, 2]
def a4 : CState := stepGet t6 a3 [1, 4]
def a5 : CState := stepGet t6 a4 [2]

/-- fog, cached prefixes with their segments, pairs met — after each step -/
structure Shape where
  fog : Fog
  cached : List (Path × Path)
  met : List (Path × Bytes)
  deriving DecidableEq

def shape (s : CState) : Shape := ⟨s.fog, s.cache.map (fun e => (e.1, e.2.2)), s.met⟩

theorem walk6_shapes :
    shape a0 = ⟨[[]], [], []⟩ ∧
    shape a1 = ⟨[[1], [2]], [([2], [2]), ([1], [1])], []⟩ ∧
    shape a2 = ⟨[[1, 2], [1, 4], [2]], [([1, 4], [4]), ([1, 2], [2]), ([2], [2])], []⟩ ∧
    shape a3 = ⟨[[1, 4], [2]], [([1, 4], [4]), ([2], [2])], [([1, 2], longW)]⟩ ∧
    shape a4 = ⟨[[2]], [([2], [2])], [([1, 4], longV), ([1, 2], longW)]⟩ ∧
    shape a5 = ⟨[], [], [([2, 5], [6]), ([1, 4], longV), ([1, 2], longW)]⟩ := by
  decide +kernel

/-- **cache hits**: at steps 2–5 the chosen prefix is in the cache filled by an earlier step — the root node (step 1) for
    `[1]` and `[2]`, the hashed branch `br6` (step 2) for `[1,2]` and `[1,4]` — so `traverse_from(cached parent, segment)` runs -/
theorem walk6_hits :
    Frontier.get a0.cache [] = none ∧
    Frontier.get a1.cache [1] = some (t6, [1]) ∧
    Frontier.get a2.cache [1, 2] = some (br6, [2]) ∧
    Frontier.get a3.cache [1, 4] = some (br6, [4]) ∧
    Frontier.get a4.cache [2] = some (t6, [2]) :=
  ⟨rfl, hit_of_B _ _ _ _ (by decide +kernel), hit_of_B _ _ _ _ (by decide +kernel), hit_of_B _ _ _ _ (by decide +kernel),
   hit_of_B _ _ _ _ (by decide +kernel)⟩

/-- the same at raw level: the cache of the raw state holds the parents' bodies -/
theorem walk6_hits_raw :
    Frontier.get (toCD toyH a1).cache [1] = some (toItem toyH t6, [1]) ∧
    Frontier.get (toCD toyH a2).cache [1, 2] = some (toItem toyH br6, [2]) ∧
    Frontier.get (toCD toyH a3).cache [1, 4] = some (toItem toyH br6, [4]) ∧
    Frontier.get (toCD toyH a4).cache [2] = some (toItem toyH t6, [2]) :=
  ⟨hit_raw a1 _ _ _ walk6_hits.2.1, hit_raw a2 _ _ _ walk6_hits.2.2.1, hit_raw a3 _ _ _ walk6_hits.2.2.2.1,
   hit_raw a4 _ _ _ walk6_hits.2.2.2.2⟩

/-- on a hit the traversal of the raw step is `traverse_from` on the cached body over the current database -/
theorem walk6_hit_runs_traverse_from :
    walkTraverseD toyH prunedBase6 root6 (toCD toyH a2) [1, 2] =
      traverseOutD toyH prunedBase6 (prunedBase6.length + 1 + 2) (toItem toyH br6) [2] := by
  unfold walkTraverseD
  rw [walk6_hits_raw.2.1]
  rfl

theorem walk6_ev1 : okSomeB (cstepD toyH prunedBase6 root6 (toCD toyH a0) []) = true := by decide +kernel
theorem walk6_ev2 : okSomeB (cstepD toyH prunedBase6 root6 (toCD toyH a1) [1]) = true := by decide +kernel
theorem walk6_ev3 : okSomeB (cstepD toyH prunedBase6 root6 (toCD toyH a2) [1, 2]) = true := by decide +kernel
theorem walk6_ev4 : okSomeB (cstepD toyH prunedBase6 root6 (toCD toyH a3) [1, 4]) = true := by decide +kernel
theorem walk6_ev5 : okSomeB (cstepD toyH prunedBase6 root6 (toCD toyH a4) [2]) = true := by decide +kernel

theorem walk6_s1 : StepOk prunedBase6 root6 t6 a0 [] := step_ok prunedBase6 root6 t6 t6_canon t6_root t6_partial a0 (cacheOkD_nil _) [] walk6_ev1
theorem walk6_s2 : StepOk prunedBase6 root6 t6 a1 [1] := step_ok prunedBase6 root6 t6 t6_canon t6_root t6_partial a1 walk6_s1.2.2.2 [1] walk6_ev2
theorem walk6_s3 : StepOk prunedBase6 root6 t6 a2 [1, 2] := step_ok prunedBase6 root6 t6 t6_canon t6_root t6_partial a2 walk6_s2.2.2.2 [1, 2] walk6_ev3
theorem walk6_s4 : StepOk prunedBase6 root6 t6 a3 [1, 4] := step_ok prunedBase6 root6 t6 t6_canon t6_root t6_partial a3 walk6_s3.2.2.2 [1, 4] walk6_ev4
theorem walk6_s5 : StepOk prunedBase6 root6 t6 a4 [2] := step_ok prunedBase6 root6 t6 t6_canon t6_root t6_partial a4 walk6_s4.2.2.2 [2] walk6_ev5

/-- **the hypotheses of `raw_step_refines` hold at every step of the walk** -/
theorem walk6_hyps :
    Canon t6 ∧ RootPartial toyH prunedBase6 root6 t6 ∧ PartialD toyH prunedBase6 t6 ∧
    CacheOkD toyH prunedBase6 a0.cache ∧ CacheOkD toyH prunedBase6 a1.cache ∧ CacheOkD toyH prunedBase6 a2.cache ∧
    CacheOkD toyH prunedBase6 a3.cache ∧ CacheOkD toyH prunedBase6 a4.cache :=
  ⟨t6_canon, t6_root, t6_partial, cacheOkD_nil _, walk6_s1.2.2.2, walk6_s2.2.2.2, walk6_s3.2.2.2, walk6_s4.2.2.2⟩

/-- **`C09.raw_step_refines` on the five steps: each is the right disjunct**, concretely `.ok (some (toCD aᵢ₊₁))` -/
theorem walk6_raw_steps :
    cstepD toyH prunedBase6 root6 (toCD toyH a0) [] = .ok (some (toCD toyH a1)) ∧
    cstepD toyH prunedBase6 root6 (toCD toyH a1) [1] = .ok (some (toCD toyH a2)) ∧
    cstepD toyH prunedBase6 root6 (toCD toyH a2) [1, 2] = .ok (some (toCD toyH a3)) ∧
    cstepD toyH prunedBase6 root6 (toCD toyH a3) [1, 4] = .ok (some (toCD toyH a4)) ∧
    cstepD toyH prunedBase6 root6 (toCD toyH a4) [2] = .ok (some (toCD toyH a5)) :=
  ⟨walk6_s1.2.1, walk6_s2.2.1, walk6_s3.2.1, walk6_s4.2.1, walk6_s5.2.1⟩

/-- … equal to the image of the tree-level step, in the form the theorem states it -/
theorem walk6_raw_steps_refine :
    cstepD toyH prunedBase6 root6 (toCD toyH a0) [] = .ok ((cstep t6 a0 []).map (toCD toyH)) ∧
    cstepD toyH prunedBase6 root6 (toCD toyH a1) [1] = .ok ((cstep t6 a1 [1]).map (toCD toyH)) ∧
    cstepD toyH prunedBase6 root6 (toCD toyH a2) [1, 2] = .ok ((cstep t6 a2 [1, 2]).map (toCD toyH)) ∧
    cstepD toyH prunedBase6 root6 (toCD toyH a3) [1, 4] = .ok ((cstep t6 a3 [1, 4]).map (toCD toyH)) ∧
    cstepD toyH prunedBase6 root6 (toCD toyH a4) [2] = .ok ((cstep t6 a4 [2]).map (toCD toyH)) :=
  ⟨walk6_s1.2.2.1, walk6_s2.2.2.1, walk6_s3.2.2.1, walk6_s4.2.2.1, walk6_s5.2.2.1⟩

/-- the tree-level steps -/
theorem walk6_tree_steps :
    cstep t6 a0 [] = some a1 ∧ cstep t6 a1 [1] = some a2 ∧ cstep t6 a2 [1, 2] = some a3 ∧
    cstep t6 a3 [1, 4] = some a4 ∧ cstep t6 a4 [2] = some a5 :=
  ⟨walk6_s1.1, walk6_s2.1, walk6_s3.1, walk6_s4.1, walk6_s5.1⟩

/-- the raw states have the fog and the pairs met of the tree-level ones: after three steps one pair is met, after five
    the fog is complete and the pairs met are the contents of the trie -/
theorem walk6_met :
    (toCD toyH a3).met = [([1, 2], longW)] ∧ (toCD toyH a3).met ≠ [] ∧
    (toCD toyH a5).fog = [] ∧ (toCD toyH a5).met = [(nibs k4, [6]), (nibs k3, longV), (nibs k1, longW)] := by
  decide +kernel

/-! ## 4. `raw_cache_invariant` on the successful steps -/

/-- **`C09.raw_cache_invariant` applied to each successful step of the walk** -/
theorem walk6_cache_invariant :
    CacheOkD toyH prunedBase6 a1.cache ∧ CacheOkD toyH prunedBase6 a2.cache ∧ CacheOkD toyH prunedBase6 a3.cache ∧
    CacheOkD toyH prunedBase6 a4.cache ∧ CacheOkD toyH prunedBase6 a5.cache :=
  ⟨C09.raw_cache_invariant toyH prunedBase6 t6 t6_canon t6_partial a0 (cacheOkD_nil _) [] a1 walk6_tree_steps.1,
   C09.raw_cache_invariant toyH prunedBase6 t6 t6_canon t6_partial a1 walk6_hyps.2.2.2.2.1 [1] a2 walk6_tree_steps.2.1,
   C09.raw_cache_invariant toyH prunedBase6 t6 t6_canon t6_partial a2 walk6_hyps.2.2.2.2.2.1 [1, 2] a3
     walk6_tree_steps.2.2.1,
   C09.raw_cache_invariant toyH prunedBase6 t6 t6_canon t6_partial a3 walk6_hyps.2.2.2.2.2.2.1 [1, 4] a4
     walk6_tree_steps.2.2.2.1,
   C09.raw_cache_invariant toyH prunedBase6 t6 t6_canon t6_partial a4 walk6_hyps.2.2.2.2.2.2.2 [2] a5
     walk6_tree_steps.2.2.2.2⟩

/-- what it says about an entry made by step 2: the cached hashed branch is canonical and partially consistent -/
theorem walk6_cached_branch : Canon br6 ∧ PartialD toyH prunedBase6 br6 :=
  walk6_cache_invariant.2.1 [1, 2] br6 [2] walk6_hits.2.2.1

/-! ## 2. A stale cache over a pruned database

Two more operations on the pruning trie: `set k1 longV` (the hashed leaf holding `longW` is pruned, with the branch `br6`
and the root `t6`) and `set k3 [6,6]` (the branch and the root once more). The cache is the one of the walk above after
two steps (`a2`: parents `t6` at `[2]`, `br6` at `[1,2]` and `[1,4]`) — filled at raw level over the database of that
time (`walk6_raw_steps`). -/

def hist8 : List Op := hist6 ++ [.set k1 longV, .set k3 [6, 6]]

theorem hist8_okV_p : allOkVB toyH true [] (initW (blankRoot toyH) true) hist8 = true := by
  decide +kernel

def Tp8 : TrieSt := (runW toyHs (blankRoot toyH) true hist8).1
def sp8 : OpSt := (runW toyHs (blankRoot toyH) true hist8).2

/-- the current (pruned) database -/
def db8 : Dict Bytes := sp8.store.base

theorem hist8_versions_p : ReachVersions toyH true hist8 Tp8 sp8 :=
  reachVersions_of_check toyH true hist8 hist8_okV_p

theorem hist8_versions_consistent (i : Nat) (hi : i ≤ 8) :
    RootPartial toyH db8 (rootHash toyH (run (hist8.take i))) (run (hist8.take i)) ∧
    PartialD toyH db8 (run (hist8.take i)) :=
  C09.earlier_versions_consistent toyH true hist8 Tp8 sp8 hist8_versions_p i hi

/-- the current tree -/
def t8 : Node := run (hist8.take 8)

def root8 : Hash := rootHash toyH t8

def br8 : Node := branch (upd (upd emptyCh 2 (leaf [] longV)) 4 (leaf [] [6, 6])) []

theorem t8_shape : t8 = branch (upd (upd emptyCh 1 br8) 2 (leaf [5] [6])) [] := sameB_eq _ _ (by decide +kernel)

theorem Tp8_state : Tp8.prune = true ∧ Tp8.root = root8 := by decide +kernel

/-- version 6 of the longer history is `t6` -/
theorem hist8_v6 : run (hist8.take 6) = t6 := rfl

theorem t8_canon : Canon t8 := C01.canon_run _
theorem t8_root : RootPartial toyH db8 root8 t8 := (hist8_versions_consistent 8 (by decide)).1
theorem t8_partial : PartialD toyH db8 t8 := (hist8_versions_consistent 8 (by decide)).2

/-- the old version `t6` is partially consistent with the current database -/
theorem t6_partial8 : PartialD toyH db8 t6 := hist8_v6 ▸ (hist8_versions_consistent 6 (by decide)).2

/-- **the pruning**: the current database has three entries (root, branch `br8`, the leaf holding `longV`); the leaf holding
    `longW`, the branch `br6` and the root `t6` — all in the database when the cache was filled — are gone; the leaf
    holding `longV` is still there -/
theorem db8_pruned :
    db8.length = 3 ∧
    lookup prunedBase6 (hashOf toyH (leaf [] longW)) = some (enc toyH (leaf [] longW)) ∧
    lookup db8 (hashOf toyH (leaf [] longW)) = none ∧
    lookup prunedBase6 (hashOf toyH br6) = some (enc toyH br6) ∧ lookup db8 (hashOf toyH br6) = none ∧
    lookup prunedBase6 (hashOf toyH t6) = some (enc toyH t6) ∧ lookup db8 (hashOf toyH t6) = none ∧
    lookup db8 (hashOf toyH (leaf [] longV)) = some (enc toyH (leaf [] longV)) ∧
    lookup db8 root8 = some (enc toyH t8) := by
  decide +kernel

/-- **`CacheOkD` holds for the stale cache over the current database**: `raw_cache_invariant` with the old version `t6`
    (partially consistent with the current database by `earlier_versions_consistent`) along the two steps that filled it -/
theorem stale_cacheOk : CacheOkD toyH db8 a2.cache :=
  C09.raw_cache_invariant toyH db8 t6 t6_canon t6_partial8 a1
    (C09.raw_cache_invariant toyH db8 t6 t6_canon t6_partial8 a0 (cacheOkD_nil _) [] a1 walk6_tree_steps.1)
    [1] a2 walk6_tree_steps.2.1

/-- in particular the stale parent `br6` — itself pruned, one of its two hashed children pruned — is canonical and
    partially consistent with the pruned database -/
theorem stale_parent_ok : Canon br6 ∧ PartialD toyH db8 br6 := stale_cacheOk [1, 2] br6 [2] walk6_hits.2.2.1

/-- the hypotheses of `raw_step_refines` for the current tree, root, database and the stale cache -/
theorem stale_hyps :
    Canon t8 ∧ RootPartial toyH db8 root8 t8 ∧ PartialD toyH db8 t8 ∧ CacheOkD toyH db8 a2.cache :=
  ⟨t8_canon, t8_root, t8_partial, stale_cacheOk⟩

theorem stale_ev_missing :
    missB (hashOf toyH (leaf [] longW)) [2] (cstepD toyH db8 root8 (toCD toyH a2) [1, 2]) = true := by decide +kernel

/-- **`C09.raw_step_refines` at `[1,2]` is the left disjunct**: the stale parent `br6` is asked for its child 2, the
    pruned leaf; `MissingTraversalNode` names its hash, with the prefix `[2]` *from the parent* -/
theorem stale_step_missing :
    cstepD toyH db8 root8 (toCD toyH a2) [1, 2] = .error (.missing (hashOf toyH (leaf [] longW)) [2]) ∧
    lookup db8 (hashOf toyH (leaf [] longW)) = none :=
  step_missing db8 root8 t8 t8_canon t8_root t8_partial a2 stale_cacheOk [1, 2] _ _ stale_ev_missing

/-- the hash, concretely (the toy hash keeps the first 32 bytes of the encoding) -/
theorem stale_missing_hash : hashOf toyH (leaf [] longW) = [227, 32, 161] ++ List.replicate 29 8 := by decide +kernel

/-- the right disjunct is false there: the tree-level step on the stale cache is defined (it describes the old leaf) -/
theorem stale_step_not_right :
    (cstep t8 a2 [1, 2]).isSome = true ∧
    cstepD toyH db8 root8 (toCD toyH a2) [1, 2] ≠ .ok ((cstep t8 a2 [1, 2]).map (toCD toyH)) := by
  refine ⟨by decide +kernel, ?_⟩
  rw [stale_step_missing.1]
  intro h; cases h

/-- without the cache entry the same prefix is read from the current root and succeeds: the failure is the stale parent's -/
theorem fresh_step_ok : okSomeB (cstepD toyH db8 root8 (toCD toyH a0) []) = true ∧
    okSomeB (cstepD toyH db8 root8 (toCD toyH ⟨a2.fog, [], a2.met⟩) [1, 2]) = true := by
  decide +kernel

/-! ## 3. A stale hit that still resolves

The same stale cache, prefix `[1,4]`: the stale parent `br6` is asked for its child 4, the leaf holding `longV`, which is
still in the database (the current tree uses it at `[1,2]`). -/

/-- the state after the stale hit -/
def c1 : CState := stepGet t8 a2 [1, 4]

theorem stale_ev_ok : okSomeB (cstepD toyH db8 root8 (toCD toyH a2) [1, 4]) = true := by decide +kernel

theorem stale_s : StepOk db8 root8 t8 a2 [1, 4] := step_ok db8 root8 t8 t8_canon t8_root t8_partial a2 stale_cacheOk [1, 4] stale_ev_ok

/-- **`C09.raw_step_refines` at `[1,4]` is the right disjunct**: `.ok`, equal to the tree-level step -/
theorem stale_step_ok :
    cstepD toyH db8 root8 (toCD toyH a2) [1, 4] = .ok (some (toCD toyH c1)) ∧
    cstepD toyH db8 root8 (toCD toyH a2) [1, 4] = .ok ((cstep t8 a2 [1, 4]).map (toCD toyH)) ∧
    cstep t8 a2 [1, 4] = some c1 :=
  ⟨stale_s.2.1, stale_s.2.2.1, stale_s.1⟩

/-- it is a hit on the stale parent, whose child is in the current database -/
theorem stale_hit :
    Frontier.get (toCD toyH a2).cache [1, 4] = some (toItem toyH br6, [4]) ∧
    lookup db8 (hashOf toyH (leaf [] longV)) = some (enc toyH (leaf [] longV)) :=
  ⟨hit_raw a2 _ _ _ (hit_of_B _ _ _ _ (by decide +kernel)), db8_pruned.2.2.2.2.2.2.2.1⟩

/-- **the tree-level step describes the OLD version `t6` at `[1,4]`** (the version the parent was cached from): the pair
    met is `(k3, longV)`, the value of `k3` in `t6`; in the current tree `t8` the value of `k3` is `[6,6]`, and a step
    without the cache entry meets that -/
theorem stale_step_old_version :
    shape c1 = ⟨[[1, 2], [2]], [([1, 2], [2]), ([2], [2])], [(nibs k3, longV)]⟩ ∧
    get t6 (nibs k3) = longV ∧ get t8 (nibs k3) = [6, 6] ∧
    shape (stepGet t6 a2 [1, 4]) = shape c1 ∧
    (stepGet t8 ⟨a2.fog, [], a2.met⟩ [1, 4]).met = [(nibs k3, [6, 6])] := by
  decide +kernel

/-- `raw_cache_invariant` on the successful stale step -/
theorem stale_step_cache_invariant : CacheOkD toyH db8 c1.cache :=
  C09.raw_cache_invariant toyH db8 t8 t8_canon t8_partial a2 stale_cacheOk [1, 4] c1 stale_step_ok.2.2

/-- the third stale entry (`[2]`, parent: the pruned old root `t6`, child embedded): resolves without any read -/
theorem stale_root_entry :
    Frontier.get (toCD toyH a2).cache [2] = some (toItem toyH t6, [2]) ∧
    cstepD toyH db8 root8 (toCD toyH a2) [2] = .ok (some (toCD toyH (stepGet t8 a2 [2]))) ∧
    (stepGet t8 a2 [2]).met = [(nibs k4, [6])] :=
  ⟨hit_raw a2 _ _ _ (hit_of_B _ _ _ _ (by decide +kernel)),
   (step_ok db8 root8 t8 t8_canon t8_root t8_partial a2 stale_cacheOk [2] (by decide +kernel)).2.1,
   by decide +kernel⟩

end PyTrie.Props.NonVacuity7

section Axioms
open PyTrie.Props.NonVacuity7
end Axioms
