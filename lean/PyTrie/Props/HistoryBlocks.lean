import PyTrie.Lemmas.FreeHistory
import PyTrie.Lemmas.HistoryBlocksAux
import PyTrie.Lemmas.RawHistoryGet
import PyTrie.Props.C01
import PyTrie.Props.FreeExec
import PyTrie.Props.C02
/-! # Whole histories with `squash_changes` blocks: contents, root, reads and pruning (C01, C02, C05, C06)

`Free.history_lockstep` says the tree-free world (what is run against the code) and the tree-carrying world agree along
every history with blocks. The theorems here say WHAT both compute: after any history of direct `set` / `delete` calls and
`squash_changes` blocks — each left normally (committed) or by an exception (aborted) — on a trie that started on an empty
database, pruning on or off,

* the trie is the tree-level run of the *flattened* history: committed blocks contribute their calls, aborted blocks
  contribute nothing (`history_blocks_world`);
* the database is complete for it and, when pruning, holds exactly the live nodes with true reference counts;
* `get` of the tree-free world returns the map model's value of the flattened history (`history_blocks_get`);
* its root hash is the Yellow Paper root of those contents (`history_blocks_root`).

`Good` is the run-level premise of `history_lockstep` (no hash collision among the data a call touches, the physical side
conditions, the call returns normally). -/
namespace PyTrie.Props.Free
open PyTrie PyTrie.Hex PyTrie.HexD PyTrie.HexW PyTrie.HexRaw PyTrie.HexFree
open PyTrie.Props.C01 (Op run spec)

/-- a call as the map model sees it (`set k b""` is a delete there too, as in `HexaryTrie.set`) -/
def toOp : Bytes × Option Bytes → Op
  | (k, some v) => .set k v
  | (k, none) => .delete k

/-- the calls that count: direct calls and the calls of committed blocks, in order; aborted blocks contribute nothing -/
def flattenSteps : List HStep → List Op
  | [] => []
  | .op k v :: r => toOp (k, v) :: flattenSteps r
  | .block inner false :: r => inner.map toOp ++ flattenSteps r
  | .block _ true :: r => flattenSteps r

private theorem applyOp_toOp (t : Node) (kv : Bytes × Option Bytes) : C01.applyOp t (toOp kv) = opNode t kv := by
  obtain ⟨k, v⟩ := kv
  cases v <;> rfl

private theorem foldl_inner (inner : List (Bytes × Option Bytes)) (t : Node) :
    inner.foldl opNode t = (inner.map toOp).foldl C01.applyOp t := by
  induction inner generalizing t with
  | nil => rfl
  | cons kv rest ih =>
    simp only [List.foldl_cons, List.map_cons]
    rw [applyOp_toOp, ih]

private theorem foldl_steps (steps : List HStep) (t : Node) :
    steps.foldl stepNode t = (flattenSteps steps).foldl C01.applyOp t := by
  induction steps generalizing t with
  | nil => rfl
  | cons s rest ih =>
    cases s with
    | op k v =>
      simp only [List.foldl_cons, flattenSteps, stepNode]
      rw [applyOp_toOp, ih]
    | block inner raised =>
      cases raised with
      | false =>
        simp only [List.foldl_cons, flattenSteps, stepNode, List.foldl_append]
        rw [ih, foldl_inner]
      | true =>
        simp only [List.foldl_cons, flattenSteps, stepNode]
        rw [ih]

/-- the invariant and the tree at the end of a good history from the fresh world -/
private theorem world_core (H : Bytes → Bytes) (prune : Bool) (steps : List HStep)
    (hgood : Good H (freshW H prune) steps) :
    WInv H prune (runW H (freshW H prune) steps).2 ∧
    ((runW H (freshW H prune) steps).2.tries[0]!).tree = run (flattenSteps steps) := by
  obtain ⟨h1, h2⟩ := run_tree H prune steps (freshW H prune) (winv_fresh H prune) hgood
  refine ⟨h1, ?_⟩
  rw [h2, foldl_steps]
  rfl


/-- **after any history with blocks the tree-carrying world holds the tree of the flattened history, a database complete
    for it, and — when pruning — exactly the live nodes with their true reference counts** -/
theorem history_blocks_world (H : Bytes → Bytes) (hlen : ∀ b, (H b).length = 32) (prune : Bool) (steps : List HStep)
    (hgood : Good H (freshW H prune) steps) :
    (runW H (freshW H prune) steps).2.batch = none ∧
    (runW H (freshW H prune) steps).2.tries.size = 1 ∧
    ((runW H (freshW H prune) steps).2.tries[0]!).tree = run (flattenSteps steps) ∧
    ((runW H (freshW H prune) steps).2.tries[0]!).prune = prune ∧
    Complete (stdHashing H) (blankRoot H) (runW H (freshW H prune) steps).2.base ((runW H (freshW H prune) steps).2.tries[0]!) ∧
    (prune = true →
      (∀ x, ((runW H (freshW H prune) steps).2.counts[0]!).val x = occRoot (stdHashing H) (run (flattenSteps steps)) x) ∧
      (∀ x, Dict.contains (runW H (freshW H prune) steps).2.base x = true ↔
              0 < occRoot (stdHashing H) (run (flattenSteps steps)) x)) := by
  obtain ⟨hinv, htree⟩ := world_core H prune steps hgood
  have _ := hlen
  refine ⟨hinv.nb, hinv.tsz, htree, hinv.pr, hinv.comp, fun hp => ?_⟩
  have hpi := hinv.pinv hp
  rw [← htree]
  exact ⟨hpi.counts, hpi.keys⟩

/-- **the root hash of the tree-free world after any history with blocks is the root of the flattened history's tree**
    (hence, by `C02.root_is_yellow_paper_trie`, the Yellow Paper root of the contents; hence independent of how the calls
    were grouped into blocks, of aborted blocks, and of pruning) -/
theorem history_blocks_root (H : Bytes → Bytes) (hlen : ∀ b, (H b).length = 32) (prune : Bool) (steps : List HStep)
    (hgood : Good H (freshW H prune) steps) :
    (runF H (FWorld.init H prune) steps).2.outer.root = rootHash H (run (flattenSteps steps)) ∧
    (runF H (FWorld.init H prune) steps).2.outer.root =
      PyTrie.YP.ypRoot H (PyTrie.YP.height (run (flattenSteps steps))) (itemsOf (run (flattenSteps steps))) := by
  obtain ⟨hinv, htree⟩ := world_core H prune steps hgood
  obtain ⟨_, _, _, _, hout, _, _⟩ := (lockstep_history H hlen prune steps hgood).2
  have hr : (runF H (FWorld.init H prune) steps).2.outer.root = rootHash H (run (flattenSteps steps)) := by
    rw [hout, ← htree]
    exact complete_root_eq H _ _ hinv.comp
  exact ⟨hr, hr.trans (C02.root_is_yellow_paper_trie H (flattenSteps steps))⟩

/-- **C01 over histories with blocks, for the tree-free world**: `get` (the raw-level reader over its database) returns
    the last value stored under the key by a direct call or a committed block, `b""` otherwise, and never raises -/
theorem history_blocks_get (H : Bytes → Bytes) (hlen : ∀ b, (H b).length = 32) (prune : Bool) (steps : List HStep)
    (hgood : Good H (freshW H prune) steps)
    (hbk : Dict.get? (runF H (FWorld.init H prune) steps).2.base (blankRoot H) = none)
    (hsm : ∀ h b, Dict.get? (runF H (FWorld.init H prune) steps).2.base h = some b → b.length < 2 ^ 64) (key : Bytes) :
    (runF H (FWorld.init H prune) steps).2.get H false key = .ok (spec (flattenSteps steps) key) := by
  obtain ⟨hinv, htree⟩ := world_core H prune steps hgood
  obtain ⟨hbase, _, _, _, hout, _, _⟩ := (lockstep_history H hlen prune steps hgood).2
  rw [hbase] at hbk hsm
  have hcanon : Canon ((runW H (freshW H prune) steps).2.tries[0]!).tree := hinv.canon
  have hg := PyTrie.HexRaw.getD_of_complete H hlen _ hcanon _ hinv.comp hbk hsm
    (runW H (freshW H prune) steps).2.base (fun _ => rfl) (nibs key)
  show freeGet H (runF H (FWorld.init H prune) steps).2.outer key (runF H (FWorld.init H prune) steps).2.opSt = _
  unfold freeGet
  have hdb : storeDb (runF H (FWorld.init H prune) steps).2.opSt.store = (runW H (freshW H prune) steps).2.base := hbase
  rw [hdb, hout]
  have e0 : (toFree ((runW H (freshW H prune) steps).2.tries[0]!)).root =
      ((runW H (freshW H prune) steps).2.tries[0]!).root := rfl
  rw [e0, hg, htree, C01.run_get]

/-- **C06 over histories with blocks, for the tree-free world**: reference counts are the true reference counts and the
    database holds exactly the live nodes -/
theorem history_blocks_pruning_exact (H : Bytes → Bytes) (hlen : ∀ b, (H b).length = 32) (steps : List HStep)
    (hgood : Good H (freshW H true) steps) :
    (∀ x, (runF H (FWorld.init H true) steps).2.counts.val x = occRoot (stdHashing H) (run (flattenSteps steps)) x) ∧
    (∀ x, Dict.contains (runF H (FWorld.init H true) steps).2.base x = true ↔
            0 < occRoot (stdHashing H) (run (flattenSteps steps)) x) := by
  obtain ⟨hbase, _, _, _, _, hcnt, _⟩ := (lockstep_history H hlen true steps hgood).2
  have h := (history_blocks_world H hlen true steps hgood).2.2.2.2.2 rfl
  rw [hbase, hcnt]
  exact h

/-- **grouping into blocks does not matter, aborted blocks do not matter, pruning does not matter**: two histories whose
    flattened call lists yield the same contents end at the same root hash -/
theorem history_blocks_root_depends_only_on_contents (H : Bytes → Bytes) (hlen : ∀ b, (H b).length = 32) (p₁ p₂ : Bool)
    (s₁ s₂ : List HStep) (h₁ : Good H (freshW H p₁) s₁) (h₂ : Good H (freshW H p₂) s₂)
    (heq : ∀ k, spec (flattenSteps s₁) k = spec (flattenSteps s₂) k) :
    (runF H (FWorld.init H p₁) s₁).2.outer.root = (runF H (FWorld.init H p₂) s₂).2.outer.root := by
  rw [(history_blocks_root H hlen p₁ s₁ h₁).1, (history_blocks_root H hlen p₂ s₂ h₂).1]
  exact C02.root_depends_only_on_contents H _ _ heq

end PyTrie.Props.Free
