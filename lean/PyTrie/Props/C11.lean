import PyTrie.Lemmas.FogProofs
/-! # C11 — HexaryTrieFog is an immutable, order-independent record of unexplored prefixes

`Fog` is the `SortedSet` of unexplored prefixes as a strictly sorted list; `explore`,
`markAllComplete`, `nearestUnknown`, `nearestRight`, `serialize`/`deserialize` are transcribed from
`trie/fog.py` (see `Model/Fog.lean`). The fog is a value: a call returns a new fog or an error, so
"the receiver is never modified" and "rejected without effect" hold by construction of the model
and are tied to the code by the correspondence check (receiver compared before/after every call). -/
namespace PyTrie.Props.C11
open PyTrie PyTrie.Hex PyTrie.Fog

/-- a call of the exploration API -/
inductive Call where
  | explore (old : Path) (subs : List Path)
  | mark (prefixes : List Path)

def call (f : Fog) : Call → Except Err Fog
  | .explore old subs => Fog.explore f old subs
  | .mark ps => markAllComplete f ps

/-- the fog a caller holds after a sequence of calls: a rejected call leaves it with the old fog -/
def runCalls (f : Fog) : List Call → Fog
  | [] => f
  | c :: cs => match call f c with
    | .ok f' => runCalls f' cs
    | .error _ => runCalls f cs

theorem markAllComplete_spec (f : Fog) (hw : Wf f) (ps : List Path) (f' : Fog)
    (h : markAllComplete f ps = .ok f') : Wf f' ∧ ∀ q, q ∈ f' ↔ q ∈ f ∧ q ∉ ps := by
  induction ps generalizing f with
  | nil =>
    simp only [markAllComplete, Except.ok.injEq] at h
    subst h
    exact ⟨hw, by simp⟩
  | cons p ps ih =>
    simp only [markAllComplete] at h
    split at h
    · have hw' : Wf (erase f p) := by
        refine ⟨sorted_erase f hw.1 p, ?_⟩
        intro a ha b hb hab
        exact hw.2 a ((mem_erase f p a).1 ha).1 b ((mem_erase f p b).1 hb).1 hab
      obtain ⟨h1, h2⟩ := ih (erase f p) hw' h
      refine ⟨h1, fun q => ?_⟩
      rw [h2, mem_erase]
      simp only [List.mem_cons, not_or]
      constructor
      · rintro ⟨⟨a, b⟩, c⟩; exact ⟨a, b, c⟩
      · rintro ⟨a, b, c⟩; exact ⟨⟨a, b⟩, c⟩
    · cases h

/-- **INVARIANT**: after any sequence of calls on a fresh fog — accepted or rejected — the unexplored
    prefixes are strictly sorted and no one starts with another -/
theorem wf_runCalls (calls : List Call) : Wf (runCalls Fog.init calls) := by
  suffices h : ∀ f, Wf f → Wf (runCalls f calls) from h _ wf_init
  induction calls with
  | nil => intro f hf; exact hf
  | cons c cs ih =>
    intro f hf
    simp only [runCalls]
    cases hc : call f c with
    | error e => exact ih f hf
    | ok f' =>
      apply ih
      cases c with
      | explore old subs => exact (explore_spec f hf old subs f' hc).1
      | mark ps => exact (markAllComplete_spec f hf ps f' hc).1

/-- `explore` leaves exactly the set obtained by replacing the explored prefix with its continuations -/
theorem explore_spec (f : Fog) (hw : Wf f) (old : Path) (subs : List Path) (f' : Fog)
    (h : Fog.explore f old subs = .ok f') :
    Wf f' ∧ ∀ q, q ∈ f' ↔ (q ∈ f ∧ q ≠ old) ∨ ∃ s ∈ subs, q = old ++ s := Fog.explore_spec f hw old subs f' h

/-- accepted exactly when the prefix is unexplored and the sub-segments are distinct and prefix-free;
    the only error is `ValidationError` -/
theorem explore_ok_iff (f : Fog) (old : Path) (subs : List Path) :
    (∃ f', Fog.explore f old subs = .ok f') ↔
      old ∈ f ∧ subs.Nodup ∧ (∀ a ∈ subs, ∀ b ∈ subs, a <+: b → a = b) := Fog.explore_ok_iff f old subs

theorem explore_err (f : Fog) (old : Path) (subs : List Path) (e : Err) (h : Fog.explore f old subs = .error e) :
    e = .validation := Fog.explore_err f old subs e h

/-- independent explorations commute (and the other order succeeds as well) -/
theorem explore_comm (f : Fog) (hw : Wf f) (p q : Path) (hpq : p ≠ q) (s₁ s₂ : List Path)
    (f₁ f₁₂ f₂ f₂₁ : Fog)
    (h1 : Fog.explore f p s₁ = .ok f₁) (h12 : Fog.explore f₁ q s₂ = .ok f₁₂)
    (h2 : Fog.explore f q s₂ = .ok f₂) (h21 : Fog.explore f₂ p s₁ = .ok f₂₁) : f₁₂ = f₂₁ :=
  Fog.explore_comm f hw p q hpq s₁ s₂ f₁ f₁₂ f₂ f₂₁ h1 h12 h2 h21

theorem explore_comm_ok (f : Fog) (hw : Wf f) (p q : Path) (hpq : p ≠ q) (s₁ s₂ : List Path)
    (f₁ f₁₂ : Fog) (h1 : Fog.explore f p s₁ = .ok f₁) (h12 : Fog.explore f₁ q s₂ = .ok f₁₂) (hq : q ∈ f) :
    ∃ f₂ f₂₁, Fog.explore f q s₂ = .ok f₂ ∧ Fog.explore f₂ p s₁ = .ok f₂₁ :=
  Fog.explore_comm_ok f hw p q hpq s₁ s₂ f₁ f₁₂ h1 h12 hq

/-- a fog is determined by its set of prefixes -/
theorem fog_ext (f g : Fog) (hf : Sorted f) (hg : Sorted g) (h : ∀ q, q ∈ f ↔ q ∈ g) : f = g :=
  sorted_ext f g hf hg h

theorem isComplete_iff (f : Fog) : isComplete f = true ↔ f = [] := Fog.isComplete_iff f

theorem markAllComplete_eq_fold (f : Fog) (ps : List Path) :
    markAllComplete f ps = ps.foldlM (fun g p => Fog.explore g p []) f := Fog.markAllComplete_eq_fold f ps

theorem nearestRight_spec (f : Fog) (hw : Wf f) (key : Path) :
    (nearestRight f key = .error .perfect ↔ f = []) ∧
    (nearestRight f key ≠ .error .validation) ∧
    (∀ r, nearestRight f key = .ok r → r ∈ f) ∧
    (∀ q ∈ f, q <+: key → nearestRight f key = .ok q) ∧
    ((∀ q ∈ f, ¬ q <+: key) → ∀ r, nearestRight f key = .ok r →
        plt key r = true ∧ ∀ q ∈ f, plt key q = true → plt q r = false) ∧
    (nearestRight f key = .error .fullDir ↔
        f ≠ [] ∧ (∀ q ∈ f, ¬ q <+: key) ∧ ∀ q ∈ f, plt key q = false) := Fog.nearestRight_spec f hw key

theorem nearestUnknown_spec (f : Fog) (hw : Wf f) (key : Path) :
    (nearestUnknown f key = .error .perfect ↔ f = []) ∧
    (∀ e, nearestUnknown f key = .error e → e = .perfect) ∧
    (∀ r, nearestUnknown f key = .ok r → r ∈ f) ∧
    (∀ q ∈ f, q <+: key → nearestUnknown f key = .ok q) ∧
    (∀ r, nearestUnknown f key = .ok r → ∀ q ∈ f,
        ¬ (plt r q = true ∧ plt q key = true) ∧ ¬ (plt key q = true ∧ plt q r = true)) :=
  Fog.nearestUnknown_spec f hw key

theorem deserialize_serialize (f : Fog) (hs : Sorted f) : deserialize (serialize f) = some f :=
  Fog.deserialize_serialize f hs

/-- non-vacuity: a fog reached by a branch, an extension and a mixed-length exploration -/
example : runCalls Fog.init [.explore [] [[1], [15]], .explore [1] [[2, 3]], .explore [15] [[0], [1, 2]],
    .explore [9] [], .mark [[1, 2, 3]]] = [[15, 0], [15, 1, 2]] := by decide

end PyTrie.Props.C11
