import PyTrie.Props.NonVacuity2
import PyTrie.Props.C12Refusals
/-! # Non-vacuity, part 13: a binary-trie history with refused calls in the middle -/
namespace PyTrie.Props.NonVacuity13
open PyTrie PyTrie.Bin PyTrie.Bin.BNode PyTrie.BinRaw
open PyTrie.Props.NonVacuity PyTrie.Props.NonVacuity2
open PyTrie.Props.C12 (Op run spec apply)
open PyTrie.Props.Raw (BinReachAll binRawRunAll acceptedFrom)

/-- the hypotheses of one `BinReachAll` step (accepted or refused), as a test -/
def stepAllB (H : Bytes → Bytes) (t : Option BNode) (o : Op) : Bool := !(o.key.isEmpty) && ncTopB H t o

def allB (H : Bytes → Bytes) : Option BNode → List Op → Bool
  | _, [] => true
  | t, o :: r => stepAllB H t o && allB H (C12.step t o) r

theorem reachAll_of_B (H : Bytes → Bytes) (pre : List Op) (t : Option BNode) (ops : List Op)
    (hr : BinReachAll H pre t) (h : allB H t ops = true) : BinReachAll H (pre ++ ops) (ops.foldl C12.step t) := by
  induction ops generalizing pre t with
  | nil => simpa using hr
  | cons o r ih =>
    simp only [allB, stepAllB, Bool.and_eq_true, Bool.not_eq_true', List.isEmpty_eq_false_iff] at h
    obtain ⟨⟨hk, hnc⟩, hrest⟩ := h
    have hstep : BinReachAll H (pre ++ [o]) (C12.step t o) := by
      unfold C12.step
      cases ha : apply t o with
      | ok t' => exact BinReachAll.ok pre t o t' hr hk ha (ncTop_of_B H t o hnc)
      | error e => exact BinReachAll.refused pre t o e hr hk ha (ncTop_of_B H t o hnc)
    have := ih (pre ++ [o]) (C12.step t o) hstep hrest
    simpa [List.append_assoc] using this

/-- two stored keys; a write to their common proper prefix `00` (refused); a write to an extension `00101` of a stored key
    (refused); an accepted write; a delete of an absent related key (a no-op or refused — whatever the tree level says) -/
def rops : List Op :=
  [.set [false, false, true, false] [0xaa], .set [false, false, true, true] [0xbb],
   .set [false, false] [0x01], .set [false, false, true, false, true] [0x02],
   .set [true] [0xdd], .delete [false, false]]

theorem rops_ok : allB mixH none rops = true := by decide +kernel

theorem rops_reach : BinReachAll mixH rops (run rops) := by
  have := reachAll_of_B mixH [] none rops BinReachAll.init rops_ok
  simpa [run] using this

/-- which calls were refused, by evaluation of the TREE level -/
theorem rops_accepted : acceptedFrom none rops = [true, true, false, false, true, true] := by decide +kernel

/-- **`Raw.bin_history_with_refusals` applies**: the raw-level run reports the same refusals and ends at the tree-level root -/
theorem refusals_witness :
    ∃ st, binRawRunAll mixH rops (mixH [], { db := [] }) = ([true, true, false, false, true, true], (rootOf mixH (run rops), st)) := by
  obtain ⟨st, h, _⟩ := Raw.bin_history_with_refusals mixH mixH_len rops _ rops_reach
  exact ⟨st, by rw [h, rops_accepted]⟩

/-- … and `get` over its database returns the map model with the prefix rule -/
theorem refusals_get_witness (k : Bits) :
    ∃ st, (binRawRunAll mixH rops (mixH [], { db := [] })).2 = (rootOf mixH (run rops), st) ∧
      bgetD (mixH []) st.db (k.length + 1) (rootOf mixH (run rops)) k = .ok (spec rops k) :=
  Raw.bin_history_with_refusals_get mixH mixH_len rops _ rops_reach k

end PyTrie.Props.NonVacuity13
