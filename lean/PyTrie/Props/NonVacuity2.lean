import PyTrie.Props.NonVacuity
import PyTrie.Props.RawLevel
import PyTrie.Props.C13
import PyTrie.Props.C09
/-! # Non-vacuity, part 2: concrete witnesses for the newer theorems -/
namespace PyTrie.Props.NonVacuity2
open PyTrie PyTrie.Hex PyTrie.Hex.Node PyTrie.HexD
open PyTrie.Props.NonVacuity

/-! ## 1. Whole histories at raw level (hexary) -/
section RawHist
open PyTrie.HexRaw PyTrie.HexW
open PyTrie.Props.C01 (Op run spec applyOp)

/-- every body of a concrete dictionary is shorter than `N` as soon as that holds of the listed entries -/
theorem bodies_short (d : Dict Bytes) (N : Nat) (hall : d.all (fun e => decide (e.2.length < N)) = true)
    (h : Hash) (b : Bytes) (hg : Dict.get? d h = some b) : b.length < N := by
  simp only [Dict.get?, Option.map_eq_some_iff] at hg
  obtain ⟨e, he, rfl⟩ := hg
  have hm := List.mem_of_find?_eq_some he
  simp only [List.all_eq_true, decide_eq_true_eq] at hall
  exact hall e hm

def histBase : Dict Bytes := (runW toyHs (blankRoot toyH) false hist).2.store.base

theorem histBase_blank : Dict.get? histBase (blankRoot toyH) = none := by decide +kernel

theorem histBase_short : ∀ h b, Dict.get? histBase h = some b → b.length < 2 ^ 64 := by
  intro h b hg
  have := bodies_short histBase 100 (by decide +kernel) h b hg
  omega

theorem raw_history_is_world_run :
    ∃ db, rawRun toyH hist (blankRoot toyH, []) = .ok ((runW toyHs (blankRoot toyH) false hist).1.root, db) ∧
      DbAgrees db histBase :=
  Raw.history_is_world_run toyH toyH_len hist _ _ hist_reach_np histBase_blank histBase_short

theorem raw_history_root_is_yellow_paper :
    ∃ db, rawRun toyH hist (blankRoot toyH, []) = .ok (YP.ypRoot toyH (YP.height (run hist)) (itemsOf (run hist)), db) :=
  Raw.history_root_is_yellow_paper toyH toyH_len hist _ _ hist_reach_np histBase_blank histBase_short

theorem raw_history_get (key : Bytes) :
    ∃ db, rawRun toyH hist (blankRoot toyH, []) = .ok (rootHash toyH (run hist), db) ∧
      getD toyH db (rootHash toyH (run hist)) (nibs key) = .ok (spec hist key) :=
  Raw.history_get toyH toyH_len hist _ _ hist_reach_np histBase_blank histBase_short key

/-- what the raw-level run returns on the witness: a root and a database (write log) of five entries -/
def rawEnd : Hash × Db := match rawRun toyH hist (blankRoot toyH, []) with | .ok r => r | .error _ => ([], [])

theorem rawRun_hist_ok : (match rawRun toyH hist (blankRoot toyH, []) with | .ok _ => true | .error _ => false) = true := by
  decide +kernel

theorem rawRun_hist : rawRun toyH hist (blankRoot toyH, []) = .ok rawEnd := by
  have h := rawRun_hist_ok
  unfold rawEnd
  cases hr : rawRun toyH hist (blankRoot toyH, []) with
  | ok r => rfl
  | error e => rw [hr] at h; cases h

example : rawEnd.2.length = 5 ∧ rawEnd.1 = rootHash toyH (leaf (nibs k2) [5]) := by decide +kernel

end RawHist

/-! ## 2. Whole histories of the binary trie at raw level -/
section BinHist
open PyTrie.Bin PyTrie.Bin.BNode PyTrie.BinRaw
open PyTrie.Props.C12 (Op run spec apply)

/-- Boolean form of `NoCollisionOp` (the nodes of `t` enumerated by `trieNodes`) -/
def ncOpB (H : Bytes → Bytes) (t : BNode) (saves : List BNode) : Bool :=
  saves.all (fun s => !(hashNode H s == H [])) &&
  saves.all (fun s => (trieNodes t).all fun n => !(hashNode H s == hashNode H n) || encNode H s == encNode H n) &&
  saves.all (fun s => saves.all fun s' => !(hashNode H s == hashNode H s') || encNode H s == encNode H s')

theorem ncOp_of_B (H : Bytes → Bytes) (t : BNode) (saves : List BNode) (h : ncOpB H t saves = true) :
    NoCollisionOp H t saves := by
  simp only [ncOpB, Bool.and_eq_true, List.all_eq_true, Bool.or_eq_true, Bool.not_eq_true', beq_eq_false_iff_ne,
    ne_eq, beq_iff_eq] at h
  obtain ⟨⟨h1, h2⟩, h3⟩ := h
  refine ⟨h1, fun s hs n hn he => ?_, fun s hs s' hs' he => ?_⟩
  · rcases h2 s hs n ((sub_iff t n).mp hn) with h | h
    · exact absurd he h
    · exact h
  · rcases h3 s hs s' hs' with h | h
    · exact absurd he h
    · exact h

/-- Boolean form of `NoCollTop` -/
def ncTopB (H : Bytes → Bytes) (t : Option BNode) (o : Op) : Bool :=
  match t with
  | some n => ncOpB H n (bsetS n o.key (opVal o) (opSub o)).2
  | none =>
    (bsetTopS none o.key (opVal o) (opSub o)).2.all (fun s => !(hashNode H s == H [])) &&
    (bsetTopS none o.key (opVal o) (opSub o)).2.all (fun s =>
      (bsetTopS none o.key (opVal o) (opSub o)).2.all fun s' =>
        !(hashNode H s == hashNode H s') || encNode H s == encNode H s')

theorem ncTop_of_B (H : Bytes → Bytes) (t : Option BNode) (o : Op) (h : ncTopB H t o = true) : NoCollTop H t o := by
  cases t with
  | some n => exact ncOp_of_B H n _ h
  | none =>
    simp only [ncTopB, Bool.and_eq_true, List.all_eq_true, Bool.or_eq_true, Bool.not_eq_true', beq_eq_false_iff_ne,
      ne_eq, beq_iff_eq] at h
    refine ⟨h.1, fun s hs s' hs' he => ?_⟩
    rcases h.2 s hs s' hs' with h | h
    · exact absurd he h
    · exact h

/-- the hypotheses of one `BinReach` step, as a test -/
def binStepB (H : Bytes → Bytes) (t : Option BNode) (o : Op) : Bool :=
  !(o.key.isEmpty) && (match apply t o with | .ok _ => true | .error _ => false) && ncTopB H t o

def binAllB (H : Bytes → Bytes) : Option BNode → List Op → Bool
  | _, [] => true
  | t, o :: r => binStepB H t o && binAllB H (C12.step t o) r

theorem binReach_of_allB (H : Bytes → Bytes) (pre : List Op) (t : Option BNode) (ops : List Op)
    (hr : BinReach H pre t) (h : binAllB H t ops = true) : BinReach H (pre ++ ops) (ops.foldl C12.step t) := by
  induction ops generalizing pre t with
  | nil => simpa using hr
  | cons o r ih =>
    simp only [binAllB, binStepB, Bool.and_eq_true, Bool.not_eq_true', List.isEmpty_eq_false_iff] at h
    obtain ⟨⟨⟨hk, hap⟩, hnc⟩, hrest⟩ := h
    have hstep : apply t o = .ok (C12.step t o) := by
      unfold C12.step
      cases ha : apply t o with
      | ok t' => rfl
      | error e => rw [ha] at hap; cases hap
    have := ih (pre ++ [o]) (C12.step t o) (BinReach.step pre t o _ hr hk hstep (ncTop_of_B H t o hnc)) hrest
    simpa using this

theorem binReach_of_check (H : Bytes → Bytes) (ops : List Op) (h : binAllB H none ops = true) :
    BinReach H ops (run ops) := by
  simpa [run] using binReach_of_allB H [] none ops BinReach.init h

/-- six accepted calls: the second splits the root kv node, the fourth splits the inner kv node `01`
    (new key `000`), then a `delete` (which merges nodes again) and a `delete_subtrie` -/
def bops : List Op :=
  [.set [false, false, true, false] [0xaa], .set [false, false, true, true] [0xbb, 0xcc], .set [true] [0xdd],
   .set bk [0xee], .delete [false, false, true, false], .deleteSubtrie [false, false]]

theorem bops_ok : binAllB mixH none bops = true := by decide +kernel

theorem bops_reach : BinReach mixH bops (run bops) := binReach_of_check mixH bops bops_ok

/-- the intermediate trees: after three calls the tree is `bt`; the fourth call splits its kv node -/
example : run (bops.take 3) = some bt := by decide

example : run (bops.take 4) =
    some (branch (kv [false] (branch (leaf [0xee]) (branch (leaf [0xaa]) (leaf [0xbb, 0xcc])))) (leaf [0xdd])) := by decide

/-- the delete turns the lower branch into a kv node; the `delete_subtrie` leaves one key -/
example : run (bops.take 5) =
    some (branch (kv [false] (branch (leaf [0xee]) (kv [true] (leaf [0xbb, 0xcc])))) (leaf [0xdd])) := by decide

theorem bops_run : run bops = some (kv [true] (leaf [0xdd])) := by decide

/-- the raw-level run succeeds and its database (a write log) has 17 entries -/
example : (match binRawRun mixH bops (mixH [], { db := [] }) with | .ok r => r.2.db.length | .error _ => 0) = 17 := by
  decide +kernel

theorem bin_history_witness :
    ∃ st, binRawRun mixH bops (mixH [], { db := [] }) = .ok (rootOf mixH (run bops), st) ∧
      (∀ n, run bops = some n → AllStored mixH st.db n) :=
  Raw.bin_history mixH mixH_len bops _ bops_reach

theorem bin_history_get_witness (k : Bits) :
    ∃ st, binRawRun mixH bops (mixH [], { db := [] }) = .ok (rootOf mixH (run bops), st) ∧
      bgetD (mixH []) st.db (k.length + 1) (rootOf mixH (run bops)) k = .ok (spec bops k) :=
  Raw.bin_history_get mixH mixH_len bops _ bops_reach k

end BinHist

/-! ## 3. C13 at raw level -/
section C13Raw
open PyTrie.Bin PyTrie.Bin.BNode PyTrie.BinRaw PyTrie.BranchRaw

/-- `_check_if_branch_exist` for the prefix `001` (inside the kv node and one step into the branch below) -/
theorem c13_raw_exists :
    existsD (mixH []) btDb 5 (hashNode mixH bt) [false, false, true] = .ok (branchExists bt [false, false, true]) :=
  C13.raw_exists mixH mixH_len bt bt_canon btDb bt_allStored [false, false, true] 5 (by decide)

example : branchExists bt [false, false, true] = true ∧ branchExists bt [false, true] = false := by decide

/-- `_get_branch` for the key `0011`: the four encoded nodes of `bpath` -/
theorem c13_raw_get_branch :
    getBranchD (mixH []) btDb 6 (hashNode mixH bt) [false, false, true, true] = .ok (bpath.map (encNode mixH)) := by
  rw [C13.raw_get_branch mixH mixH_len bt bt_canon btDb bt_allStored [false, false, true, true] 6 (by decide), bpath_ok]
  rfl

example : bpath.length = 4 := rfl

/-- `_get_trie_nodes` from the root: all six nodes -/
theorem c13_raw_trie_nodes :
    trieNodesD btDb 4 (hashNode mixH bt) = .ok ((trieNodes bt).map (encNode mixH)) :=
  C13.raw_trie_nodes mixH mixH_len bt bt_canon btDb bt_allStored 4 (by decide)

example : (trieNodes bt).length = 6 := by decide

/-- `_get_witness_for_key_prefix` for the prefix `00`: root, kv node and the whole subtree below it -/
theorem c13_raw_witness :
    witnessD btDb 4 4 (hashNode mixH bt) [false, false] = liftR mixH (getWitness bt [false, false]) :=
  C13.raw_witness mixH mixH_len bt bt_canon btDb bt_allStored [false, false] 4 4 (by decide) (by decide)

theorem bt_witness : getWitness bt [false, false] = .ok [bt, kv [false, true] (branch (leaf [0xaa]) (leaf [0xbb, 0xcc])),
    branch (leaf [0xaa]) (leaf [0xbb, 0xcc]), leaf [0xaa], leaf [0xbb, 0xcc]] := by
  rfl

end C13Raw

/-! ## 4. C09 — the concrete walk with a stale `TrieFrontierCache` -/
section Walk
open PyTrie.Fog PyTrie.Walk

/-- the root is explored while the trie is `t1`; then the trie is changed to `t2`, and the three remaining
    prefixes are explored through the cache entries made from nodes of `t1` -/
def csched : List (Node × Path) := [(t1, []), (t2, [1]), (t2, [1, 2]), (t2, [1, 3])]

theorem csched_runs : (crun cstart csched).isSome = true := by decide +kernel

def cEnd : CState := (crun cstart csched).getD cstart

theorem csched_run : crun cstart csched = some cEnd := by
  have h := csched_runs
  unfold cEnd
  cases hw : crun cstart csched with
  | none => rw [hw] at h; cases h
  | some s => rfl

theorem csched_done : cEnd.fog = [] := by decide +kernel

/-- the state after the first step (made under `t1`): the cache maps the prefix `1` to the root node of `t1` -/
def cMid1 : CState := (crun cstart (csched.take 1)).getD cstart

/-- the second step (current version `t2`) is a cache **hit**, on the entry holding the root of the older version `t1` -/
theorem cMid1_hit : (Frontier.get cMid1.cache [1]).map (fun e => (sameB e.1 t1, e.2)) = some (true, [1]) := by
  decide +kernel

/-- and so are the third and fourth (entries holding the branch node of `t1`, created in step 2 from the stale root) -/
def cMid2 : CState := (crun cstart (csched.take 2)).getD cstart

theorem cMid2_hits :
    (Frontier.get cMid2.cache [1, 2]).map (fun e => (sameB e.1 t1br, e.2)) = some (true, [2]) ∧
    (Frontier.get cMid2.cache [1, 3]).map (fun e => (sameB e.1 t1br, e.2)) = some (true, [3]) := by
  decide +kernel

theorem csched_canon : ∀ e ∈ csched, Canon e.1 := by
  intro e he
  simp only [csched, List.mem_cons, List.not_mem_nil, or_false] at he
  rcases he with rfl | rfl | rfl | rfl
  · exact t1_canon
  · exact t2_canon
  · exact t2_canon
  · exact t2_canon

/-- **`concrete_finds_stable` applies**: the stable key is met with its value -/
theorem cwalk_finds : (nibs k1, longV) ∈ cEnd.met := by
  refine C09.concrete_finds_stable csched cEnd csched_canon (nibs k1) longV (by decide) ?_ csched_run csched_done
  intro e he
  simp only [csched, List.mem_cons, List.not_mem_nil, or_false] at he
  rcases he with rfl | rfl | rfl | rfl <;> decide +kernel

/-- the pairs met: the changed key was read through the stale entry and so shows the value of the old version -/
theorem cEnd_met : cEnd.met = [(nibs k2, [5]), (nibs k1, longV)] := by decide +kernel

/-- **`concrete_sound` applies** to that stale pair: some version of the schedule did hold it (`t1`) -/
theorem cwalk_sound : ∃ e ∈ csched, ([5] : Bytes) ≠ [] ∧ get e.1 (nibs k2) = [5] :=
  C09.concrete_sound csched cEnd csched_canon csched_run (nibs k2) [5] (by rw [cEnd_met]; simp)

example : get t2 (nibs k2) = [7] ∧ get t1 (nibs k2) = [5] := by decide +kernel

end Walk

/-! ## 5. Hexary read path and `NodeIterator` at raw level -/
section ReadIter
open PyTrie.HexRaw PyTrie.HexW

theorem t1_height : YP.height t1 = 3 := by decide +kernel

theorem next_key_witness :
    nextKeyD toyH rawDb 64 4 (Ann.toD toyH (annotate t1)) [] = .ok (nextKey t1 []) :=
  Raw.next_key_refines toyH toyH_len t1 t1_canon rawDb t1_storedD [] 64 4 (by decide) (by rw [t1_height]; decide)

example : nextKey t1 [] = some (nibs k1) := by decide +kernel

theorem key_after_witness :
    keyAfterD toyH rawDb 64 80 (Ann.toD toyH (annotate t1)) (nibs k1) [] = .ok (keyAfter t1 (nibs k1) []) :=
  Raw.key_after_refines toyH toyH_len t1 t1_canon rawDb t1_storedD (nibs k1) [] 64 80 (by decide)
    (by rw [t1_height]; decide)

example : keyAfter t1 (nibs k1) [] = some (nibs k2) := by decide +kernel

theorem get_proof_witness :
    getProofD toyH rawDb 4 (toItem toyH t1) (nibs k1) = .ok ([t1', t1br, leaf [] longV].map (toItem toyH)) := by
  rw [Raw.get_proof_refines toyH toyH_len t1 t1_canon rawDb t1_storedD (nibs k1) 4 (by decide), t1_proof]

theorem annotate_witness : annotateD (toItem toyH t1br) = some (Ann.toD toyH (annotate t1br)) :=
  Raw.annotate_refines toyH toyH_len t1br

example : (annotate t1br).subs = [[2], [3]] := by decide +kernel

end ReadIter

end PyTrie.Props.NonVacuity2

section Axioms
open PyTrie.Props.NonVacuity2
end Axioms
