import PyTrie.Props.C14
/-! # C14 — histories in which the root is set back to an earlier one

`tree.root_hash = earlier_root` on a live `SparseMerkleTree` (or `from_db(db, earlier_root)`: the same thing, a tree is a
root hash over a database) is part of how the quick check drives the code since the seeded change
`C14n-set-reuses-branch-of-last-write`. Events: an ordinary `set` / `delete`, or a ROLLBACK to the root the tree had after the
first `i` events. The map model keeps all versions; a rollback makes version `i` current again. Theorem: the database only grows;
with the final database functional (no hash bound to two bodies — the run-level no-collision fact), EVERY version's root
represents that version's contents in the final database, the current root represents the current contents, and `get` reads
them. -/
namespace PyTrie.Props.C14
open PyTrie PyTrie.Smt
open PyTrie.Bin (Bits)

inductive REv where
  | op (o : Op)
  | rollback (i : Nat)

section
variable (H : Bytes → Bytes)

/-- state of a run: the tree, and the root after every event so far (index 0 = the initial root) -/
def rstep (s : Tree × List Hash) : REv → Tree × List Hash
  | .op o => let t' := step H s.1 o; (t', s.2 ++ [t'.root])
  | .rollback i => let r := s.2.getD i s.1.root; ({ s.1 with root := r }, s.2 ++ [r])

def rrun (d : Nat) (dflt : Bytes) (evs : List REv) : Tree × List Hash :=
  evs.foldl (rstep H) (init H d dflt, [(init H d dflt).root])

/-- the map model: the contents after every event so far (index 0 = everything default) -/
def rspecStep (dflt : Bytes) (vs : List (Bits → Bytes)) : REv → List (Bits → Bytes)
  | .op o => vs ++ [specStep dflt (vs.getLastD (fun _ => dflt)) o]
  | .rollback i => vs ++ [vs.getD i (vs.getLastD (fun _ => dflt))]

def rspecs (dflt : Bytes) (evs : List REv) : List (Bits → Bytes) := evs.foldl (rspecStep dflt) [fun _ => dflt]

def REvKeysSized (d : Nat) (evs : List REv) : Prop := ∀ o, REv.op o ∈ evs → o.key.length = d


private theorem getD_app_left {α : Type _} (l l' : List α) (n : Nat) (a : α) (h : n < l.length) :
    (l ++ l').getD n a = l.getD n a := by
  simp [List.getD_eq_getElem?_getD, List.getElem?_append_left h]

private theorem getD_app_len {α : Type _} (l : List α) (x : α) (n : Nat) (a : α) (h : n = l.length) :
    (l ++ [x]).getD n a = x := by
  subst h
  simp [List.getD_eq_getElem?_getD]

private theorem step_depth_default (t : Tree) (o : Op) :
    (step H t o).depth = t.depth ∧ (step H t o).default = t.default := by
  have hset : ∀ k v t' u, Smt.set H t k v = some (t', u) → t'.depth = t.depth ∧ t'.default = t.default := by
    intro k v t' u h
    unfold Smt.set at h
    split at h
    · cases h
    · simp only [Option.some.injEq, Prod.mk.injEq] at h
      obtain ⟨rfl, _⟩ := h
      exact ⟨rfl, rfl⟩
  unfold step
  cases h : apply H t o with
  | none => exact ⟨rfl, rfl⟩
  | some r =>
    obtain ⟨t', u⟩ := r
    cases o with
    | set k v => exact hset k v t' u h
    | delete k => exact hset k t.default t' u h

private theorem rfold_lengths (dflt : Bytes) (evs : List REv) (s : Tree × List Hash) (vs : List (Bits → Bytes)) :
    (evs.foldl (rstep H) s).2.length = s.2.length + evs.length ∧
    (evs.foldl (rspecStep dflt) vs).length = vs.length + evs.length := by
  induction evs generalizing s vs with
  | nil => simp
  | cons e es ih =>
    simp only [List.foldl_cons, List.length_cons]
    obtain ⟨h1, h2⟩ := ih (rstep H s e) (rspecStep dflt vs e)
    rw [h1, h2]
    cases e <;> simp [rstep, rspecStep] <;> omega

private theorem rfold_current (d : Nat) (dflt : Bytes) (evs : List REv) (s : Tree × List Hash)
    (h : s.1.root = s.2.getLastD [] ∧ s.1.depth = d ∧ s.1.default = dflt) :
    (evs.foldl (rstep H) s).1.root = (evs.foldl (rstep H) s).2.getLastD [] ∧
    (evs.foldl (rstep H) s).1.depth = d ∧ (evs.foldl (rstep H) s).1.default = dflt := by
  induction evs generalizing s with
  | nil => exact h
  | cons e es ih =>
    simp only [List.foldl_cons]
    apply ih
    obtain ⟨_, h2, h3⟩ := h
    cases e with
    | op o =>
      have := step_depth_default H s.1 o
      simp [rstep, this.1, this.2, h2, h3]
    | rollback i => simp [rstep, h2, h3]

private theorem rfold_db_mono (evs : List REv) (s : Tree × List Hash) :
    ∀ x ∈ s.1.db, x ∈ (evs.foldl (rstep H) s).1.db := by
  induction evs generalizing s with
  | nil => intro x hx; exact hx
  | cons e es ih =>
    intro x hx
    simp only [List.foldl_cons]
    apply ih
    cases e with
    | op o => exact step_db_mono H s.1 o x hx
    | rollback i => exact hx

private theorem step_one (hlen : ∀ b, (H b).length = 32) (d : Nat) (dflt : Bytes) (o : Op) (hko : o.key.length = d)
    (t : Tree) (f : Bits → Bytes) (hd : t.depth = d) (hdf : t.default = dflt) (hr : Rep H t.db d t.root f)
    (hfun : Functional (step H t o).db) :
    Rep H (step H t o).db d (step H t o).root (specStep dflt f o) := by
  have := run_invariant H hlen d dflt [o] (by intro x hx; simp at hx; subst hx; exact hko) t f hd hdf hr hfun
  exact this.2.2

private structure Inv (d : Nat) (dflt : Bytes) (s : Tree × List Hash) (vs : List (Bits → Bytes)) : Prop where
  len : s.2.length = vs.length
  depth : s.1.depth = d
  dfl : s.1.default = dflt
  cur : Rep H s.1.db d s.1.root (vs.getLastD (fun _ => dflt))
  rep : ∀ j, j < vs.length → Rep H s.1.db d (s.2.getD j []) (vs.getD j (fun _ => dflt))

private theorem inv_step (hlen : ∀ b, (H b).length = 32) (d : Nat) (dflt : Bytes) (e : REv)
    (hk : ∀ o, e = REv.op o → o.key.length = d)
    (s : Tree × List Hash) (vs : List (Bits → Bytes)) (hi : Inv H d dflt s vs)
    (hfun : Functional (rstep H s e).1.db) :
    Inv H d dflt (rstep H s e) (rspecStep dflt vs e) := by
  obtain ⟨t, roots⟩ := s
  have hl : roots.length = vs.length := hi.len
  cases e with
  | op o =>
    have hdd := step_depth_default H t o
    have hnew : Rep H (step H t o).db d (step H t o).root (specStep dflt (vs.getLastD (fun _ => dflt)) o) :=
      step_one H hlen d dflt o (hk o rfl) t _ hi.depth hi.dfl hi.cur hfun
    refine ⟨?_, ?_, ?_, ?_, ?_⟩
    · simp [rstep, rspecStep, hl]
    · simpa [rstep, hdd.1] using hi.depth
    · simpa [rstep, hdd.2] using hi.dfl
    · simpa [rstep, rspecStep] using hnew
    · intro j hj
      simp only [rstep, rspecStep, List.length_append, List.length_singleton] at hj ⊢
      by_cases hjl : j < vs.length
      · rw [getD_app_left _ _ _ _ (by omega), getD_app_left _ _ _ _ hjl]
        exact rep_mono H _ _ (step_db_mono H t o) d _ _ (hi.rep j hjl)
      · have hje : j = vs.length := by omega
        rw [getD_app_len _ _ _ _ (by omega), getD_app_len _ _ _ _ hje]
        exact hnew
  | rollback i =>
    have hnew : Rep H t.db d (roots.getD i t.root) (vs.getD i (vs.getLastD (fun _ => dflt))) := by
      by_cases hil : i < vs.length
      · have h1 : roots.getD i t.root = roots.getD i [] := by
          simp [List.getD_eq_getElem?_getD, List.getElem?_eq_getElem (show i < roots.length by omega)]
        have h2 : vs.getD i (vs.getLastD (fun _ => dflt)) = vs.getD i (fun _ => dflt) := by
          simp [List.getD_eq_getElem?_getD, List.getElem?_eq_getElem hil]
        rw [h1, h2]
        exact hi.rep i hil
      · have h1 : roots.getD i t.root = t.root := by
          simp [List.getD_eq_getElem?_getD, List.getElem?_eq_none (show roots.length ≤ i by omega)]
        have h2 : vs.getD i (vs.getLastD (fun _ => dflt)) = vs.getLastD (fun _ => dflt) := by
          simp [List.getD_eq_getElem?_getD, List.getElem?_eq_none (show vs.length ≤ i by omega)]
        rw [h1, h2]
        exact hi.cur
    refine ⟨?_, ?_, ?_, ?_, ?_⟩
    · simp [rstep, rspecStep, hl]
    · simpa [rstep] using hi.depth
    · simpa [rstep] using hi.dfl
    · simpa [rstep, rspecStep] using hnew
    · intro j hj
      simp only [rstep, rspecStep, List.length_append, List.length_singleton] at hj ⊢
      by_cases hjl : j < vs.length
      · rw [getD_app_left _ _ _ _ (by omega), getD_app_left _ _ _ _ hjl]
        exact hi.rep j hjl
      · have hje : j = vs.length := by omega
        rw [getD_app_len _ _ _ _ (by omega), getD_app_len _ _ _ _ hje]
        exact hnew

private theorem inv_fold (hlen : ∀ b, (H b).length = 32) (d : Nat) (dflt : Bytes) (evs : List REv)
    (hk : REvKeysSized d evs)
    (s : Tree × List Hash) (vs : List (Bits → Bytes)) (hi : Inv H d dflt s vs)
    (hfun : Functional (evs.foldl (rstep H) s).1.db) :
    Inv H d dflt (evs.foldl (rstep H) s) (evs.foldl (rspecStep dflt) vs) := by
  induction evs generalizing s vs with
  | nil => exact hi
  | cons e es ih =>
    simp only [List.foldl_cons] at hfun ⊢
    apply ih (fun o ho => hk o (by simp [ho])) _ _ _ hfun
    apply inv_step H hlen d dflt e (fun o ho => hk o (by simp [ho])) s vs hi
    exact functional_of_subset hfun (rfold_db_mono H es _)

private theorem inv_init (hlen : ∀ b, (H b).length = 32) (d : Nat) (dflt : Bytes) :
    Inv H d dflt (init H d dflt, [(init H d dflt).root]) [fun _ => dflt] := by
  have hi := init_rep H hlen d dflt
  refine ⟨rfl, hi.2, rfl, by simpa using hi.1, ?_⟩
  intro j hj
  have : j = 0 := by simpa using hj
  subst this
  simpa using hi.1

/-- one version per event, in both lists -/
theorem rrun_lengths (d : Nat) (dflt : Bytes) (evs : List REv) :
    (rrun H d dflt evs).2.length = evs.length + 1 ∧ (rspecs dflt evs).length = evs.length + 1 := by
  have := rfold_lengths H dflt evs (init H d dflt, [(init H d dflt).root]) [fun _ => dflt]
  simp only [List.length_singleton] at this
  unfold rrun rspecs
  omega

/-- **every version stays represented**: in the final database the root after `j` events resolves to the full tree of the
    contents after `j` events — for every `j`, rollbacks included -/
theorem rollback_history_rep (hlen : ∀ b, (H b).length = 32) (d : Nat) (dflt : Bytes) (evs : List REv)
    (hk : REvKeysSized d evs) (hfun : Functional (rrun H d dflt evs).1.db) (j : Nat) (hj : j ≤ evs.length) :
    Rep H (rrun H d dflt evs).1.db d ((rrun H d dflt evs).2.getD j []) ((rspecs dflt evs).getD j (fun _ => dflt)) := by
  have hi := inv_fold H hlen d dflt evs hk _ _ (inv_init H hlen d dflt) hfun
  exact hi.rep j (by have := (rrun_lengths H d dflt evs).2; unfold rspecs at this; omega)

/-- the current root is the last recorded one, and the tree keeps its depth and default -/
theorem rollback_history_current (d : Nat) (dflt : Bytes) (evs : List REv) :
    (rrun H d dflt evs).1.root = (rrun H d dflt evs).2.getLastD [] ∧
    (rrun H d dflt evs).1.depth = d ∧ (rrun H d dflt evs).1.default = dflt := by
  exact rfold_current H d dflt evs _ ⟨rfl, rfl, rfl⟩

/-- **reads after any history with rollbacks**: `get` returns the current version's value (a blank value reads as absent) -/
theorem rollback_history_get (hlen : ∀ b, (H b).length = 32) (d : Nat) (dflt : Bytes) (evs : List REv)
    (hk : REvKeysSized d evs) (hfun : Functional (rrun H d dflt evs).1.db) (key : Bits) (hkey : key.length = d) :
    Smt.get (rrun H d dflt evs).1 key =
      if (rspecs dflt evs).getLastD (fun _ => dflt) key = [] then .error .keyError
      else .ok ((rspecs dflt evs).getLastD (fun _ => dflt) key) := by
  have hi := inv_fold H hlen d dflt evs hk _ _ (inv_init H hlen d dflt) hfun
  have hc : Rep H (rrun H d dflt evs).1.db d (rrun H d dflt evs).1.root
      ((rspecs dflt evs).getLastD (fun _ => dflt)) := hi.cur
  unfold Smt.get
  rw [getAux_of_rep H _ hfun d _ _ hc key hkey]

end
end PyTrie.Props.C14
