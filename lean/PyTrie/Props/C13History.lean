import PyTrie.Props.C13
import PyTrie.Props.C12History
/-! # C13 over whole histories: the branch helpers on the database a BinaryTrie history leaves behind

The C13 theorems quantify over canonical trees stored in a database. Composed with the raw-level history theorem of C12
(`Raw.bin_history`: the raw-level run of any history of accepted calls returns the root of the tree-level history and a database
storing that whole tree) they become statements about `trie/branches.py` run on the root hash and database that the
`BinaryTrie` API itself produced, in terms of the map model `spec ops` — for every history with a non-empty result. -/
namespace PyTrie.Props.C13
open PyTrie PyTrie.Bin PyTrie.BinRaw PyTrie.BranchRaw
open PyTrie.Props.C12 (Op run spec)

/-- what every corollary starts from: the raw-level run ends at the hash of the (non-empty) tree, which is canonical, stored
    as a whole in the run's database, and answers `bget` like the map model -/
theorem history_base (H : Bytes → Bytes) (hlen : ∀ b, (H b).length = 32) (ops : List Op) (t : Option BNode)
    (h : BinReach H ops t) (n : BNode) (hn : run ops = some n) :
    ∃ st, binRawRun H ops (H [], { db := [] }) = .ok (hashNode H n, st) ∧ AllStored H st.db n ∧ BCanon n ∧
      ∀ k, bget n k = spec ops k := by
  obtain ⟨st, hrun, hst⟩ := Raw.bin_history H hlen ops t h
  have ht : t = some n := by rw [Raw.bin_history_tree H ops t h, hn]
  have hk := binReach_keys H ops t h
  refine ⟨st, ?_, hst n ht, reachable_canonical ops hk n hn, fun k => ?_⟩
  · rw [hrun, ht]; rfl
  · have := C12.run_get ops hk k
    rw [hn] at this
    exact this

/-- **`check_if_branch_exist(db, root, p)` over the history's own database is true exactly when some stored key starts with `p`** -/
theorem history_exists (H : Bytes → Bytes) (hlen : ∀ b, (H b).length = 32) (ops : List Op) (t : Option BNode)
    (h : BinReach H ops t) (n : BNode) (hn : run ops = some n) (p : Bits) (fuel : Nat) (hf : p.length + 1 < fuel) :
    ∃ st b, binRawRun H ops (H [], { db := [] }) = .ok (hashNode H n, st) ∧
      existsD (H []) st.db fuel (hashNode H n) p = .ok b ∧
      (b = true ↔ ∃ k v, spec ops k = some v ∧ p <+: k) := by
  obtain ⟨st, hrun, hst, hc, hget⟩ := history_base H hlen ops t h n hn
  refine ⟨st, branchExists n p, hrun, raw_exists H hlen n hc st.db hst p fuel hf, ?_⟩
  rw [exist_iff n hc p]
  constructor
  · rintro ⟨k, v, hkv, hp⟩; exact ⟨k, v, by rw [← hget]; exact hkv, hp⟩
  · rintro ⟨k, v, hkv, hp⟩; exact ⟨k, v, by rw [hget]; exact hkv, hp⟩

/-- **`get_branch` over the history's database returns the encodings of the tree-level branch, and `if_branch_valid`
    confirms the map model's answer with it** (present or absent key); a refusal means the key is unstored and related to a
    stored key -/
theorem history_branch (H : Bytes → Bytes) (hlen : ∀ b, (H b).length = 32) (ops : List Op) (t : Option BNode)
    (h : BinReach H ops t) (n : BNode) (hn : run ops = some n) (k : Bits) (fuel : Nat) (hf : k.length + 1 < fuel) :
    ∃ st, binRawRun H ops (H [], { db := [] }) = .ok (hashNode H n, st) ∧
      getBranchD (H []) st.db fuel (hashNode H n) k = liftR H (getBranch n k) ∧
      (∀ path, getBranch n k = .ok path → NoCollision H n (path.map (encNode H)) →
        ifBranchValid H (path.map (encNode H)) (hashNode H n) k (spec ops k) = .valid) ∧
      ((∃ e, getBranch n k = .error e) →
        spec ops k = none ∧ ∃ k' v', spec ops k' = some v' ∧ Related k' k) := by
  obtain ⟨st, hrun, hst, hc, hget⟩ := history_base H hlen ops t h n hn
  refine ⟨st, hrun, raw_get_branch H hlen n hc st.db hst k fuel hf, ?_, ?_⟩
  · intro path hp hnc
    rw [← hget]
    exact branch_valid H hlen n hc k path hp hnc
  · intro he
    obtain ⟨h1, k', v', h2, h3⟩ := branch_refusal n hc k he
    exact ⟨by rw [← hget]; exact h1, k', v', by rw [← hget]; exact h2, h3⟩

/-- **unforgeable, over histories**: whatever list of byte strings is offered against the history's root, `if_branch_valid`
    confirms only the map model's answer -/
theorem history_branch_sound (H : Bytes → Bytes) (hlen : ∀ b, (H b).length = 32) (ops : List Op) (t : Option BNode)
    (h : BinReach H ops t) (n : BNode) (hn : run ops = some n) (k : Bits) (nodes : List Bytes)
    (hnc : NoCollision H n nodes) (claimed : Option Bytes)
    (hv : ifBranchValid H nodes (hashNode H n) k claimed = .valid) : claimed = spec ops k := by
  obtain ⟨_, _, _, hc, hget⟩ := history_base H hlen ops t h n hn
  rw [← hget]
  exact branch_sound H hlen n hc k nodes hnc claimed hv

/-- **`get_trie_nodes` and `get_witness_for_key_prefix` over the history's database**: the encodings of exactly the nodes of
    the tree / of the tree-level witness; the witness is sufficient to answer `get(k)` = map model for every `k` under `p` -/
theorem history_nodes_and_witness (H : Bytes → Bytes) (hlen : ∀ b, (H b).length = 32) (ops : List Op) (t : Option BNode)
    (h : BinReach H ops t) (n : BNode) (hn : run ops = some n) (p : Bits) (tfuel fuel : Nat)
    (htf : bheight n < tfuel) (hf : bheight n < fuel) :
    ∃ st, binRawRun H ops (H [], { db := [] }) = .ok (hashNode H n, st) ∧
      trieNodesD st.db tfuel (hashNode H n) = .ok ((trieNodes n).map (encNode H)) ∧
      witnessD st.db tfuel fuel (hashNode H n) p = liftR H (getWitness n p) ∧
      (∀ w, getWitness n p = .ok w → NoCollision H n (w.map (encNode H)) →
        ∀ k, p <+: k → ∀ g, k.length + 1 < g →
          bgetD (H []) (offeredDb H (w.map (encNode H))) g (hashNode H n) k = .ok (spec ops k)) := by
  obtain ⟨st, hrun, hst, hc, hget⟩ := history_base H hlen ops t h n hn
  refine ⟨st, hrun, raw_trie_nodes H hlen n hc st.db hst tfuel htf, raw_witness H hlen n hc st.db hst p tfuel fuel htf hf, ?_⟩
  intro w hw hnc k hpk g hg
  rw [← hget]
  exact witness_sufficient H hlen n hc p w hw hnc k hpk g hg

end PyTrie.Props.C13
