import PyTrie.Lemmas.SmtIntProofs
/-! # The integer bit arithmetic of `smt.py` is the bit-list model (C14 / C15)

`Model/SmtInt.lean` transcribes `to_int(key)`, `path & target_bit`, the shifts and the xor scan as written and
is what the correspondence check runs against the code; these theorems identify it with `Model/Smt.lean`,
about which C14 and C15 are proved. -/
namespace PyTrie.Props.SmtInt
open PyTrie PyTrie.Smt PyTrie.SmtInt PyTrie.Bin

theorem bit_is_list_element (key : Bytes) (i : Nat) (hi : i < 8 * key.length) :
    bit (toInt key) i = (toBits key).getD (8 * key.length - 1 - i) false := bit_toInt key i hi

theorem get_agrees (db : Db) (root : Hash) (key : Bytes) :
    getI db root (8 * key.length) key = getAux db root (toBits key) := getI_eq db root key

theorem set_agrees (H : Bytes → Bytes) (t : Tree) (key : Bytes) (hd : t.depth = 8 * key.length) (value : Bytes)
    (hbr : ∀ v br, getAux t.db t.root (toBits key) = some (v, br) → br.length = t.depth) :
    setI H t key value = Smt.set H t (toBits key) value := setI_eq H t key hd value hbr

theorem calc_root_agrees (H : Bytes → Bytes) (key value : Bytes) (branch : List Hash) (hb : branch.length = 8 * key.length) :
    calcRootI H key value branch = calcRoot H (toBits key) value branch := calcRootI_eq H key value branch hb

theorem branch_point_is_first_diff (k0 k : Bytes) (hl : k0.length = k.length) :
    branchPoint (8 * k0.length) k0 k = firstDiff (toBits k0) (toBits k) := branchPoint_eq k0 k hl

theorem proof_update_agrees (k0 : Bytes) (p : Proof) (hk : p.key = toBits k0) (hb : p.branch.length = 8 * k0.length)
    (key : Bytes) (hl : key.length = k0.length) (value : Bytes) (updates : List Hash) :
    updateI k0 p key value updates = p.update (toBits key) value updates := updateI_eq k0 p hk hb key hl value updates

end PyTrie.Props.SmtInt
