import PyTrie.Props.NonVacuity11
import PyTrie.Props.HistoryFailOp
/-! # Non-vacuity, part 15: a history with a direct call cut short by a refused database write (C04)

Checker for `Free.GoodG`, a non-pruning history — a write; `set k2 longW` whose SECOND database write is refused (its first
write, the new leaf, stays behind as an unreachable entry); a failing commit; a write — that passes it, and the theorems applied. -/
namespace PyTrie.Props.NonVacuity15
open PyTrie PyTrie.Hex PyTrie.Hex.Node PyTrie.HexD
open PyTrie.Props.NonVacuity PyTrie.Props.NonVacuity2 PyTrie.Props.NonVacuity4 PyTrie.Props.NonVacuity5 PyTrie.Props.NonVacuity11
open PyTrie.HexW PyTrie.HexRaw PyTrie.HexFree
open PyTrie.Props.C01 (Op run spec)
open PyTrie.Props.Free (HStepF HStepG stepWG stepFG runWG runFG GoodG flattenStepsG)

section Checker
variable (H : Bytes → Bytes)

def goodGB : World → List HStepG → Bool
  | _, [] => true
  | w, .step s :: rest => goodFB H w [s] && goodGB (stepWG H w (.step s)).2 rest
  | w, .failOp k v n :: rest =>
    refSoundB (stdHashing H) (w.tries[0]!).tree (nibs k) &&
    noClobberB w.base (opWrites (stdHashing H) (w.tries[0]!) k v) &&
    (Dict.get? w.base (blankRoot H)).isNone &&
    w.base.all (fun e => decide (e.2.length < 2 ^ 64)) &&
    failedB (({ w with failAfter := some n } : World).setDel (stdHashing H) (blankRoot H) (.trie 0) k v).1 &&
    goodGB (stepWG H w (.failOp k v n)).2 rest

theorem goodG_of_B (w : World) (steps : List HStepG) (h : goodGB H w steps = true) : GoodG H w steps := by
  induction steps generalizing w with
  | nil => trivial
  | cons s rest ih =>
    cases s with
    | step s =>
      simp only [goodGB, Bool.and_eq_true] at h
      exact ⟨goodF_of_B H w [s] h.1, ih _ h.2⟩
    | failOp k v n =>
      simp only [goodGB, Bool.and_eq_true, Option.isNone_iff_eq_none] at h
      obtain ⟨⟨⟨⟨⟨h1, h2⟩, h3⟩, h4⟩, h5⟩, h6⟩ := h
      exact ⟨refSound_of_B _ _ _ h1, noClobber_of_B _ _ h2, h3, bodies_short _ _ h4, failed_of_B _ h5, ih _ h6⟩

end Checker

def gsteps : List HStepG :=
  [.step (.step (.op k1 (some longV))),
   .failOp k2 (some longW) 1,
   .step (.failBlock [(k3, some longV)] 0),
   .step (.step (.op k2 (some [5])))]

theorem gsteps_good_B : goodGB toyH (freshW toyH false) gsteps = true := by decide +kernel

theorem gsteps_good : GoodG toyH (freshW toyH false) gsteps := goodG_of_B toyH _ gsteps gsteps_good_B

theorem gflat : flattenStepsG gsteps = [.set k1 longV, .set k2 [5]] := rfl

/-- **`Free.history_fail_op_world` / `_lockstep` apply** -/
theorem world_witness :
    ((runWG toyH (freshW toyH false) gsteps).2.tries[0]!).tree = run (flattenStepsG gsteps) ∧
    Complete (stdHashing toyH) (blankRoot toyH) (runWG toyH (freshW toyH false) gsteps).2.base
      ((runWG toyH (freshW toyH false) gsteps).2.tries[0]!) :=
  (Free.history_fail_op_world toyH gsteps gsteps_good).2

theorem lockstep_witness :
    (runFG toyH (FWorld.init toyH false) gsteps).1 = (runWG toyH (freshW toyH false) gsteps).1 ∧
    Sim (runFG toyH (FWorld.init toyH false) gsteps).2 (runWG toyH (freshW toyH false) gsteps).2 :=
  Free.history_fail_op_lockstep toyH toyH_len gsteps gsteps_good

/-- by evaluation: the second outcome is the refused write; it left exactly one entry behind (3 → 4 entries … the refused
    call wrote one node before it was stopped), the root did not move -/
theorem evaluated :
    (runFG toyH (FWorld.init toyH false) gsteps).1.map okB' = [true, false, true, false, true] ∧
    (runFG toyH (FWorld.init toyH false) (gsteps.take 1)).2.base.length + 1 =
      (runFG toyH (FWorld.init toyH false) (gsteps.take 2)).2.base.length ∧
    (runFG toyH (FWorld.init toyH false) (gsteps.take 1)).2.outer.root =
      (runFG toyH (FWorld.init toyH false) (gsteps.take 2)).2.outer.root := by
  decide +kernel

end PyTrie.Props.NonVacuity15
