import PyTrie.Props.NonVacuity5
import PyTrie.Props.HistoryBlocks
/-! # Non-vacuity, part 9: the whole-history-with-blocks theorems on the concrete history of part 5

`NonVacuity5.steps` = two direct writes, a committed block (overwrite + delete + write), an aborted block, a direct delete;
`Good` holds of it under the toy hash in both modes (`good_p`, `good_np`). Here `Free.history_blocks_*` are applied to it and
their conclusions cross-checked against direct kernel evaluation. -/
namespace PyTrie.Props.NonVacuity9
open PyTrie PyTrie.Hex PyTrie.Hex.Node PyTrie.HexD
open PyTrie.Props.NonVacuity PyTrie.Props.NonVacuity2 PyTrie.Props.NonVacuity4 PyTrie.Props.NonVacuity5
open PyTrie.HexW PyTrie.HexRaw PyTrie.HexFree
open PyTrie.Props.C01 (Op run spec)
open PyTrie.Props.Free (flattenSteps toOp)

/-- the flattened history: the aborted block `set k2 [9]` is gone, the committed block's three calls are in place -/
theorem flat_eq :
    flattenSteps steps =
      [.set k1 longV, .set k2 [5], .set k1 longW, .delete k2, .set k3 longV, .delete k1] := rfl

/-- the map model of the flattened history: only `k3` holds a value -/
theorem flat_spec : spec (flattenSteps steps) k3 = longV ∧ spec (flattenSteps steps) k1 = [] ∧
    spec (flattenSteps steps) k2 = [] := by
  rw [flat_eq]; decide +kernel

/-- `history_blocks_world` applies (pruning on): the tree is the tree of the flattened history, the database is complete,
    counts and keys are exact -/
theorem world_witness_p :
    ((HexFree.runW toyH (freshW toyH true) steps).2.tries[0]!).tree = run (flattenSteps steps) ∧
    Complete (stdHashing toyH) (blankRoot toyH) (HexFree.runW toyH (freshW toyH true) steps).2.base
      ((HexFree.runW toyH (freshW toyH true) steps).2.tries[0]!) ∧
    (∀ x, ((HexFree.runW toyH (freshW toyH true) steps).2.counts[0]!).val x =
        occRoot (stdHashing toyH) (run (flattenSteps steps)) x) :=
  have h := Free.history_blocks_world toyH toyH_len true steps good_p
  ⟨h.2.2.1, h.2.2.2.2.1, (h.2.2.2.2.2 rfl).1⟩

/-- … and pruning off -/
theorem world_witness_np :
    ((HexFree.runW toyH (freshW toyH false) steps).2.tries[0]!).tree = run (flattenSteps steps) ∧
    Complete (stdHashing toyH) (blankRoot toyH) (HexFree.runW toyH (freshW toyH false) steps).2.base
      ((HexFree.runW toyH (freshW toyH false) steps).2.tries[0]!) :=
  have h := Free.history_blocks_world toyH toyH_len false steps good_np
  ⟨h.2.2.1, h.2.2.2.2.1⟩

/-- the tree it speaks about is the one-leaf tree of part 5 (cross-check by evaluation) -/
theorem flat_tree : sameB (run (flattenSteps steps)) tFinal = true := by
  rw [flat_eq]; decide +kernel

/-- `history_blocks_root` applies in both modes; the two roots coincide, and both are the hash of the one-leaf tree -/
theorem root_witness :
    (runF toyH (FWorld.init toyH true) steps).2.outer.root = (runF toyH (FWorld.init toyH false) steps).2.outer.root ∧
    (runF toyH (FWorld.init toyH true) steps).2.outer.root = rootHash toyH (run (flattenSteps steps)) :=
  ⟨Free.history_blocks_root_depends_only_on_contents toyH toyH_len true false steps steps good_p good_np (fun _ => rfl),
   (Free.history_blocks_root toyH toyH_len true steps good_p).1⟩

def finalBaseP : Dict Bytes := (runF toyH (FWorld.init toyH true) steps).2.base
def finalBaseNP : Dict Bytes := (runF toyH (FWorld.init toyH false) steps).2.base

theorem finalBaseP_blank : Dict.get? finalBaseP (blankRoot toyH) = none := by decide +kernel
theorem finalBaseNP_blank : Dict.get? finalBaseNP (blankRoot toyH) = none := by decide +kernel
theorem finalBaseP_short : ∀ h b, Dict.get? finalBaseP h = some b → b.length < 2 ^ 64 := by
  intro h b hg
  have := bodies_short finalBaseP 100 (by decide +kernel) h b hg
  omega
theorem finalBaseNP_short : ∀ h b, Dict.get? finalBaseNP h = some b → b.length < 2 ^ 64 := by
  intro h b hg
  have := bodies_short finalBaseNP 100 (by decide +kernel) h b hg
  omega

/-- `history_blocks_get` applies: the tree-free world reads `k3 ↦ longV` and nothing under `k1`, `k2` (written in the
    aborted block / deleted in the committed one), pruning on … -/
theorem get_witness_p :
    (runF toyH (FWorld.init toyH true) steps).2.get toyH false k3 = .ok longV ∧
    (runF toyH (FWorld.init toyH true) steps).2.get toyH false k2 = .ok [] ∧
    (runF toyH (FWorld.init toyH true) steps).2.get toyH false k1 = .ok [] := by
  have h := Free.history_blocks_get toyH toyH_len true steps good_p finalBaseP_blank finalBaseP_short
  exact ⟨by rw [h k3, flat_spec.1], by rw [h k2, flat_spec.2.2], by rw [h k1, flat_spec.2.1]⟩

/-- … and off -/
theorem get_witness_np :
    (runF toyH (FWorld.init toyH false) steps).2.get toyH false k3 = .ok longV ∧
    (runF toyH (FWorld.init toyH false) steps).2.get toyH false k2 = .ok [] := by
  have h := Free.history_blocks_get toyH toyH_len false steps good_np finalBaseNP_blank finalBaseNP_short
  exact ⟨by rw [h k3, flat_spec.1], by rw [h k2, flat_spec.2.2]⟩

/-- the same reads by direct evaluation of the tree-free world (independent of the theorem) -/
def isOkWith (r : Except Exn Bytes) (v : Bytes) : Bool :=
  match r with
  | .ok x => x == v
  | .error _ => false

theorem get_evaluated :
    isOkWith ((runF toyH (FWorld.init toyH true) steps).2.get toyH false k3) longV = true ∧
    isOkWith ((runF toyH (FWorld.init toyH false) steps).2.get toyH false k3) longV = true ∧
    isOkWith ((runF toyH (FWorld.init toyH true) steps).2.get toyH false k2) [] = true := by
  decide +kernel

/-- `history_blocks_pruning_exact` applies: counts and database keys of the pruning run are the true ones -/
theorem pruning_witness :
    (∀ x, (runF toyH (FWorld.init toyH true) steps).2.counts.val x = occRoot (stdHashing toyH) (run (flattenSteps steps)) x) ∧
    (∀ x, Dict.contains (runF toyH (FWorld.init toyH true) steps).2.base x = true ↔
            0 < occRoot (stdHashing toyH) (run (flattenSteps steps)) x) :=
  Free.history_blocks_pruning_exact toyH toyH_len steps good_p

end PyTrie.Props.NonVacuity9
