import PyTrie.Props.HistoryBlocks
/-! # No call of a history ever raises — as a CONCLUSION, not a premise

`Good` (the run-level premise of `Free.history_lockstep` and `Free.history_blocks_*`) contains, for every call, the conjunct
"the call returns normally". That conjunct is redundant: on the states a history reaches (database complete for the root, or
— inside a block — the view complete for the batch root, exact pruning bookkeeping) a `set` / `delete` whose writes collide
with nothing cannot raise. `Good'` is `Good` without it: only the no-collision facts and the two physical side conditions
remain. Theorems: `Good' → Good` along every history from the fresh world, hence every call of every history — direct or inside a
block, pruning on or off — returns normally in the tree-carrying AND in the tree-free world, and all `history_blocks_*`
theorems hold under `Good'`. -/
namespace PyTrie.Props.Free
open PyTrie PyTrie.Hex PyTrie.HexD PyTrie.HexW PyTrie.HexRaw PyTrie.HexFree
open PyTrie.Props.C01 (Op run spec)

section
variable (H : Bytes → Bytes)

/-- `GoodCall` without "the call returns normally" -/
def GoodCall' (T : TrieSt) (s : OpSt) (k : Bytes) (v : Option Bytes) : Prop :=
  RefSound (stdHashing H) T.tree (nibs k) ∧
  (isBlank (opTree (stdHashing H) T k v).1 = false → hashOf H (opTree (stdHashing H) T k v).1 ≠ blankRoot H) ∧
  NoClobber (storeDb s.store) (opWrites (stdHashing H) T k v) ∧
  Dict.get? (storeDb s.store) (blankRoot H) = none ∧
  (∀ h b, Dict.get? (storeDb s.store) h = some b → b.length < 2 ^ 64)

def GoodInner' : World → List (Bytes × Option Bytes) → Prop
  | _, [] => True
  | w, (k, v) :: rest =>
    (match w.batch with
     | some b => GoodCall' H b.trie (w.batchOpSt b) k v
     | none => False) ∧
    GoodInner' (w.setDel (stdHashing H) (blankRoot H) .batch k v).2 rest

def Good' : World → List HStep → Prop
  | _, [] => True
  | w, .op k v :: rest =>
    GoodCall' H w.tries[0]! (w.opSt 0) k v ∧ Good' (stepW H w (.op k v)).2 rest
  | w, .block inner raised :: rest =>
    GoodInner' H (w.batchBegin 0) inner ∧ Good' (stepW H w (.block inner raised)).2 rest

/-- **a direct call on a state satisfying the between-steps invariant returns normally** -/
theorem direct_call_progress (prune : Bool) (w : World) (hinv : WInv H prune w) (k : Bytes) (v : Option Bytes)
    (hg : GoodCall' H w.tries[0]! (w.opSt 0) k v) : GoodCall H w.tries[0]! (w.opSt 0) k v := by
  obtain ⟨hrs, hbl, hnc, hbk, hsm⟩ := hg
  refine ⟨hrs, hbl, hnc, hbk, hsm, ?_⟩
  have hnc' : NoClobber (w.opSt 0).store.base (opWrites (stdHashing H) w.tries[0]! k v) := hnc
  have hfa0 : (w.opSt 0).store.failAfter = none := hinv.fa
  have hcomp0 : Complete (stdHashing H) (blankRoot H) (w.opSt 0).store.base w.tries[0]! := hinv.comp
  cases prune with
  | false =>
    obtain ⟨T', hok, _⟩ := opSetDel_complete (stdHashing H) (blankRoot H) w.tries[0]! hinv.pr
      hinv.canon k v (w.opSt 0) rfl hfa0 hcomp0 hrs hnc' hbl
    exact ⟨T', hok⟩
  | true =>
    obtain ⟨T', hok, _⟩ := opSetDel_pruneInv (stdHashing H) (blankRoot H) w.tries[0]! hinv.canon k v
      (w.opSt 0) hfa0 (hinv.pinv rfl) hrs hbl
    exact ⟨T', hok⟩

/-- **a call on the batch trie inside a block returns normally** -/
theorem batch_call_progress (prune : Bool) (w0 w : World) (hinv : BInv H prune w0 w) (b : Batch) (hb : w.batch = some b)
    (k : Bytes) (v : Option Bytes) (hg : GoodCall' H b.trie (w.batchOpSt b) k v) :
    GoodCall H b.trie (w.batchOpSt b) k v := by
  obtain ⟨hbase0, hfa0, htries0, hcounts0, b0, hb0, hbo, hcan, hcomp, hpv, hnp⟩ := hinv
  rw [hb] at hb0
  cases hb0
  obtain ⟨hrs, hbl, hnc, hbk, hsm⟩ := hg
  refine ⟨hrs, hbl, hnc, hbk, hsm, ?_⟩
  have hfas : (w.batchOpSt b).store.failAfter = none := hfa0
  cases prune with
  | true =>
    obtain ⟨T', hok, _⟩ := opSetDel_pruneInvV (stdHashing H) (blankRoot H) b.trie hcan k v (w.batchOpSt b) hfas
      (hpv rfl) hrs hbl
    exact ⟨T', hok⟩
  | false =>
    obtain ⟨T', hok, _⟩ := opSetDel_batchInvNP (stdHashing H) (blankRoot H) w0.base b.trie hcan k v
      (w.batchOpSt b) (hnp rfl).1 hrs hbl
    exact ⟨T', hok⟩

/-- inside a block: the weaker premise gives the stronger one, every call returns normally, the block invariant is kept -/
private theorem inner_progress (prune : Bool) (w0 : World) (inner : List (Bytes × Option Bytes)) :
    ∀ w : World, BInv H prune w0 w → GoodInner' H w inner →
      GoodInner H w inner ∧ (∀ r ∈ (innerW H w inner).1, r = .ok ()) ∧ BInv H prune w0 (innerW H w inner).2 := by
  induction inner with
  | nil => intro w hb _; exact ⟨trivial, fun r hr => (by cases hr), hb⟩
  | cons kv rest ih =>
    obtain ⟨k, v⟩ := kv
    intro w hb hg
    obtain ⟨hg1, hg2⟩ := hg
    obtain ⟨b, hwb, _⟩ := hb.blk
    rw [hwb] at hg1
    simp only at hg1
    have hgc := batch_call_progress H prune w0 w hb b hwb k v hg1
    have hb' := binv_inner H prune w0 w hb b hwb k v hgc
    obtain ⟨T', hok⟩ := hgc.2.2.2.2.2
    have hout := (World.setDel_batch_ok (stdHashing H) (blankRoot H) w b hwb k v T' hok).1
    obtain ⟨i1, i2, i3⟩ := ih _ hb' hg2
    rw [innerW_cons]
    refine ⟨⟨?_, i1⟩, ?_, i3⟩
    · rw [hwb]; exact hgc
    · intro r hr
      simp only [List.mem_cons] at hr
      rcases hr with hr | hr
      · rw [hr]; exact hout
      · exact i2 r hr

private theorem run_progress (prune : Bool) (steps : List HStep) :
    ∀ w : World, WInv H prune w → Good' H w steps →
      Good H w steps ∧ (∀ r ∈ (runW H w steps).1, r = .ok ()) := by
  induction steps with
  | nil => intro w _ _; exact ⟨trivial, fun r hr => (by cases hr)⟩
  | cons s rest ih =>
    intro w hinv hg
    cases s with
    | op k v =>
      obtain ⟨hg1, hg2⟩ := hg
      have hgc := direct_call_progress H prune w hinv k v hg1
      have hinv' := winv_op H prune w hinv k v hgc
      obtain ⟨T', hok⟩ := hgc.2.2.2.2.2
      have hout := (World.setDel_trie_ok (stdHashing H) (blankRoot H) w 0 k v T' hok).1
      have hinv'' : WInv H prune (stepW H w (.op k v)).2 := hinv'
      obtain ⟨i1, i2⟩ := ih _ hinv'' hg2
      refine ⟨⟨hgc, i1⟩, ?_⟩
      intro r hr
      rw [runW_cons, stepW_op] at hr
      simp only [List.mem_append, List.mem_cons, List.not_mem_nil, or_false] at hr
      rcases hr with hr | hr
      · rw [hr]; exact hout
      · exact i2 r hr
    | block inner raised =>
      obtain ⟨hg1, hg2⟩ := hg
      have hb1 := binv_begin H prune w hinv
      obtain ⟨j1, j2, j3⟩ := inner_progress H prune w inner _ hb1 hg1
      have hinv' : WInv H prune (stepW H w (.block inner raised)).2 := winv_end H prune w _ hinv j3 raised
      obtain ⟨i1, i2⟩ := ih _ hinv' hg2
      have hend : ((innerW H (w.batchBegin 0) inner).2.batchEnd raised).1 = .ok () := by
        obtain ⟨b, hwb, _⟩ := j3.blk
        cases raised with
        | true => rw [World.batchEnd_true_eq _ b hwb]
        | false => rw [World.batchEnd_false_eq _ b hwb j3.fa]
      refine ⟨⟨j1, i1⟩, ?_⟩
      intro r hr
      rw [runW_cons, stepW_block] at hr
      simp only [List.mem_append, List.mem_cons, List.not_mem_nil, or_false] at hr
      rcases hr with (hr | hr) | hr
      · exact j2 r hr
      · rw [hr]; exact hend
      · exact i2 r hr

/-- **`Good'` implies `Good`** along every history from the fresh world -/
theorem good_of_good' (prune : Bool) (steps : List HStep) (h : Good' H (freshW H prune) steps) :
    Good H (freshW H prune) steps :=
  (run_progress H prune steps _ (winv_fresh H prune) h).1

/-- **no call of any history raises**: every outcome — of a direct call, of a call inside a block, of leaving a block — is a
    normal return, in the tree-carrying world and in the tree-free world -/
theorem history_never_raises (hlen : ∀ b, (H b).length = 32) (prune : Bool) (steps : List HStep)
    (h : Good' H (freshW H prune) steps) :
    (∀ r ∈ (runW H (freshW H prune) steps).1, r = .ok ()) ∧
    (∀ r ∈ (runF H (FWorld.init H prune) steps).1, r = .ok ()) := by
  have hw := (run_progress H prune steps _ (winv_fresh H prune) h).2
  refine ⟨hw, ?_⟩
  rw [(history_lockstep H hlen prune steps (good_of_good' H prune steps h)).1]
  exact hw

/-- the contents theorem under the weaker premise -/
theorem history_blocks_get' (hlen : ∀ b, (H b).length = 32) (prune : Bool) (steps : List HStep)
    (h : Good' H (freshW H prune) steps)
    (hbk : Dict.get? (runF H (FWorld.init H prune) steps).2.base (blankRoot H) = none)
    (hsm : ∀ h b, Dict.get? (runF H (FWorld.init H prune) steps).2.base h = some b → b.length < 2 ^ 64) (key : Bytes) :
    (runF H (FWorld.init H prune) steps).2.get H false key = .ok (spec (flattenSteps steps) key) :=
  history_blocks_get H hlen prune steps (good_of_good' H prune steps h) hbk hsm key

/-- the root theorem under the weaker premise: Yellow Paper root of the calls that count -/
theorem history_blocks_root' (hlen : ∀ b, (H b).length = 32) (prune : Bool) (steps : List HStep)
    (h : Good' H (freshW H prune) steps) :
    (runF H (FWorld.init H prune) steps).2.outer.root = rootHash H (run (flattenSteps steps)) :=
  (history_blocks_root H hlen prune steps (good_of_good' H prune steps h)).1

/-- exact pruning under the weaker premise -/
theorem history_blocks_pruning_exact' (hlen : ∀ b, (H b).length = 32) (steps : List HStep)
    (h : Good' H (freshW H true) steps) :
    (∀ x, (runF H (FWorld.init H true) steps).2.counts.val x = occRoot (stdHashing H) (run (flattenSteps steps)) x) ∧
    (∀ x, Dict.contains (runF H (FWorld.init H true) steps).2.base x = true ↔
            0 < occRoot (stdHashing H) (run (flattenSteps steps)) x) :=
  history_blocks_pruning_exact H hlen steps (good_of_good' H true steps h)

end
end PyTrie.Props.Free
