import PyTrie.Lemmas.HexEffTree
import PyTrie.Lemmas.WorldPrune
import PyTrie.Lemmas.HexCanon2
import PyTrie.Lemmas.FailAfterNone
/-! # C06 — pruning is exact, reference counts are true (structural core)

`setE`/`deleteE` are `_set`/`_delete` with the database traffic they cause. The theorems here are
the structural heart of exact pruning, for **every** hashing:

* the instrumented functions compute the same tree as the plain ones;
* *balance*: for every hash `h`, references to `h` in the new tree (below the root) plus the
  prunes of `h` equal the references in the old tree (root included) plus the persists of `h`.
  `_complete_pruning` applies `+persist` at once and `−prune` at the end, deleting at zero, so the
  balance is exactly what keeps `ref_count = occurrences` and `db keys = support`.

`RefSound` is the run-level hypothesis that the two `encoded == old reference` short-circuits of
the delete path did not confuse two different subtrees; it can fail only if the run exhibits a
hash collision (no injectivity of the hash function is assumed anywhere).

The lift of the balance through the world executor (`opSetDel`, batches) is in `C06World.lean`
as far as it is proved; the remainder is tied by the correspondence check (exact database key set,
counts and `regenerate_ref_count()` after every operation). -/
namespace PyTrie.Props.C06
open PyTrie PyTrie.Hex

/-- `setE` computes `set` -/
theorem setE_tree (Hs : Hashing) (t : Node) (k : Path) (v : Bytes) : (setE Hs t k v).1 = Hex.set t k v :=
  setE_fst Hs t k v

/-- `deleteE` computes `delete` on canonical trees -/
theorem deleteE_tree (Hs : Hashing) (t : Node) (k : Path) (hrs : RefSound Hs t k) (hc : Canon t) :
    (deleteE Hs t k).1 = Hex.delete t k := deleteE_fst Hs t k hrs hc

/-- insert side: references gained = persists, references lost = prunes, for every hash -/
theorem setE_balance (Hs : Hashing) (t : Node) (k : Path) (v : Bytes) (h : Hash) :
    occProper Hs (setE Hs t k v).1 h + cntPrune (setE Hs t k v).2 h =
    occ Hs t h + cntPersist (setE Hs t k v).2 h := Hex.setE_balance Hs t k v h

/-- delete side, including normalisation / extension merging, the persist-then-prune of a merged
    child and the two short-circuits -/
theorem deleteE_balance (Hs : Hashing) (t : Node) (k : Path) (hrs : RefSound Hs t k) (h : Hash) :
    occProper Hs (deleteE Hs t k).1 h + cntPrune (deleteE Hs t k).2 h =
    occ Hs t h + cntPersist (deleteE Hs t k).2 h := Hex.deleteE_balance Hs t k hrs h

/-- `RefSound` follows from (but is much weaker than) global soundness of reference equality -/
theorem refSound_of_sound (Hs : Hashing) (hre : ∀ a b, Hs.refEq a b = true → a = b) (t : Node) (k : Path) :
    RefSound Hs t k := Hex.refSound_of_sound Hs hre t k

/-! ## Exact pruning at world level (proved after the first round)

`PruneInv T s`: the root pointer is the hash of the tree; for **every** hash `h` the reference count is
`occRoot T.tree h` — the number of hashed subtrees below the root with that hash (shared identical
subtrees counted once per occurrence) plus one for the root, which is stored even when short — and the
database contains `h` **iff** that number is positive. So: nothing live is ever deleted, nothing dead is
left behind, the counts are true. -/
open PyTrie.HexW

/-- the invariant holds for a new pruning trie on an empty database … -/
theorem prune_invariant_init (Hs : Hashing) (blankRootHash : Hash) :
    PruneInv Hs blankRootHash { tree := .blank, root := blankRootHash, prune := true }
      { store := { base := [], cache := none, failAfter := none }, counts := [], pending := [] } :=
  pruneInv_init Hs blankRootHash

/-- … and every `set` / `delete` (through `_prune_on_success`, `_set_db_value`, `_set_root_node`,
    `_complete_pruning`) re-establishes it, never raising: **exact pruning is an invariant of the trie's own API** -/
theorem prune_invariant_step (Hs : Hashing) (blankRootHash : Hash) (T : TrieSt) (hc : Canon T.tree) (key : Bytes)
    (val : Option Bytes) (s : OpSt) (hfa : s.store.failAfter = none) (hinv : PruneInv Hs blankRootHash T s)
    (hrs : RefSound Hs T.tree (nibs key))
    (hblank : isBlank (opTree Hs T key val).1 = false → Hs.hashOf (opTree Hs T key val).1 ≠ blankRootHash) :
    ∃ T', (opSetDel Hs blankRootHash T key val s).2 = .ok T' ∧
      T'.tree = (match val with
        | some v => if v = [] then Hex.delete T.tree (nibs key) else Hex.set T.tree (nibs key) v
        | none => Hex.delete T.tree (nibs key)) ∧
      PruneInv Hs blankRootHash T' (opSetDel Hs blankRootHash T key val s).1 :=
  opSetDel_pruneInv Hs blankRootHash T hc key val s hfa hinv hrs hblank

/-- `regenerate_ref_count()` recomputes exactly these numbers (for hashings whose embedded nodes cannot
    contain hashed ones — true of rlp + Keccak: `keccak_embedded`), so `ref_count = regenerate_ref_count()` -/
theorem regenerate_is_true_count (Hs : Hashing) (hemb : EmbeddedLeafy Hs) (t : Node) (h : Hash) :
    (regen Hs t).count h = occRoot Hs t h := regen_count Hs hemb t h

theorem keccak_embedded : EmbeddedLeafy keccakHashing := keccak_embeddedLeafy

/-- a history of the trie's own API on a pruning trie that started from an empty database: the
    run-level hypotheses are the no-collision predicates of each step (`RefSound`, and that no node hashes
    to the blank root); the conclusion is the invariant after the whole history -/
inductive Reach (Hs : Hashing) (blankRootHash : Hash) : TrieSt → OpSt → Prop where
  | init : Reach Hs blankRootHash { tree := .blank, root := blankRootHash, prune := true }
      { store := { base := [], cache := none, failAfter := none }, counts := [], pending := [] }
  | step (T : TrieSt) (s : OpSt) (key : Bytes) (val : Option Bytes) (T' : TrieSt) :
      Reach Hs blankRootHash T s →
      RefSound Hs T.tree (nibs key) →
      (isBlank (opTree Hs T key val).1 = false → Hs.hashOf (opTree Hs T key val).1 ≠ blankRootHash) →
      (opSetDel Hs blankRootHash T key val s).2 = .ok T' →
      Reach Hs blankRootHash T' (opSetDel Hs blankRootHash T key val s).1

theorem reach_invariant (Hs : Hashing) (blankRootHash : Hash) (T : TrieSt) (s : OpSt)
    (h : Reach Hs blankRootHash T s) :
    Canon T.tree ∧ s.store.failAfter = none ∧ PruneInv Hs blankRootHash T s := by
  induction h with
  | init => exact ⟨trivial, rfl, pruneInv_init Hs blankRootHash⟩
  | step T s key val T' _ hrs hbl hok ih =>
    obtain ⟨hc, hfa, hinv⟩ := ih
    obtain ⟨T'', h1, h2, h3⟩ := opSetDel_pruneInv Hs blankRootHash T hc key val s hfa hinv hrs hbl
    rw [hok] at h1
    cases h1
    refine ⟨?_, ?_, h3⟩
    · rw [h2]
      cases val with
      | none => exact canon_delete _ _ hc
      | some v =>
        simp only
        split
        · exact canon_delete _ _ hc
        · next hv => exact canon_set _ _ _ hv hc
    · -- the failure budget is only consumed by `Store.write`, and `none` stays `none`
      have := h3.plain
      exact failAfter_none_preserved Hs blankRootHash T key val s hfa

end PyTrie.Props.C06
