import PyTrie.Lemmas.HexEffTree
/-! # C06 — pruning is exact, reference counts are true (structural core)

`setE`/`deleteE` are `_set`/`_delete` with the database traffic they cause. The theorems here are
the structural heart of exact pruning, for **every** hashing:

* the instrumented functions compute the same tree as the plain ones;
* *balance*: for every hash `h`, references to `h` in the new tree (below the root) plus the
  prunes of `h` equal the references in the old tree (root included) plus the persists of `h`.
  `_complete_pruning` applies `+persist` at once and `−prune` at the end, deleting at zero, so the
  balance is exactly what keeps `ref_count = occurrences` and `db keys = support`.

`RefSound` is the run-level hypothesis that the two `encoded == old reference` short-circuits of
the delete path did not confuse two different subtrees; it can fail only if the run exhibits a
hash collision (no injectivity of the hash function is assumed anywhere).

The lift of the balance through the world executor (`opSetDel`, batches) is in `C06World.lean`
as far as it is proved; the remainder is tied by the correspondence check (exact database key set,
counts and `regenerate_ref_count()` after every operation). -/
namespace PyTrie.Props.C06
open PyTrie PyTrie.Hex

/-- `setE` computes `set` -/
theorem setE_tree (Hs : Hashing) (t : Node) (k : Path) (v : Bytes) : (setE Hs t k v).1 = Hex.set t k v :=
  setE_fst Hs t k v

/-- `deleteE` computes `delete` on canonical trees -/
theorem deleteE_tree (Hs : Hashing) (t : Node) (k : Path) (hrs : RefSound Hs t k) (hc : Canon t) :
    (deleteE Hs t k).1 = Hex.delete t k := deleteE_fst Hs t k hrs hc

/-- insert side: references gained = persists, references lost = prunes, for every hash -/
theorem setE_balance (Hs : Hashing) (t : Node) (k : Path) (v : Bytes) (h : Hash) :
    occProper Hs (setE Hs t k v).1 h + cntPrune (setE Hs t k v).2 h =
    occ Hs t h + cntPersist (setE Hs t k v).2 h := Hex.setE_balance Hs t k v h

/-- delete side, including normalisation / extension merging, the persist-then-prune of a merged
    child and the two short-circuits -/
theorem deleteE_balance (Hs : Hashing) (t : Node) (k : Path) (hrs : RefSound Hs t k) (h : Hash) :
    occProper Hs (deleteE Hs t k).1 h + cntPrune (deleteE Hs t k).2 h =
    occ Hs t h + cntPersist (deleteE Hs t k).2 h := Hex.deleteE_balance Hs t k hrs h

/-- `RefSound` follows from (but is much weaker than) global soundness of reference equality -/
theorem refSound_of_sound (Hs : Hashing) (hre : ∀ a b, Hs.refEq a b = true → a = b) (t : Node) (k : Path) :
    RefSound Hs t k := Hex.refSound_of_sound Hs hre t k

end PyTrie.Props.C06
