import PyTrie.Lemmas.FreeExec
import PyTrie.Lemmas.FreePartial
/-! # The tree-free executor (C01, C04, C06, C07 over a transcription with no tree)

`Model/HexFree.lean` is `HexaryTrie.set` / `delete` / `get` as the code runs them: the trie is a root hash and a `prune`
flag over a database; the raw-level `_set` / `_delete` (raw nodes fetched from the database) produce the node to store
and the events; `_prune_on_success`, `_prune_node`, `_set_db_value`, `_set_root_node`, `_complete_pruning` apply them.
It is run against the code after every direct operation of every hexary history of the correspondence checks (outcome,
root, full database, reference counts). Here: it computes what the tree-carrying executor of `Model/HexWorld.lean`
computes, so the theorems proved about that executor are theorems about this transcription. -/
namespace PyTrie.Props.Free
open PyTrie PyTrie.Hex PyTrie.HexD PyTrie.HexW PyTrie.HexRaw PyTrie.HexFree
open PyTrie.Props.C01 (Op run spec)

/-- one `set` / `delete`, pruning on or off, on any database that is complete for the trie's root: same exit state, same
    new root, same exception — with no run-level hypothesis (only: the blank-root hash is not a key, no body has 2^64 bytes) -/
theorem op_is_executor_op (H : Bytes → Bytes) (hlen : ∀ b, (H b).length = 32) (T : TrieSt) (hc : Canon T.tree) (key : Bytes)
    (val : Option Bytes) (s : OpSt) (hcache : s.store.cache = none) (hfa : s.store.failAfter = none)
    (hcomp : Complete (stdHashing H) (blankRoot H) s.store.base T)
    (hbk : Dict.get? s.store.base (blankRoot H) = none)
    (hsm : ∀ h b, Dict.get? s.store.base h = some b → b.length < 2 ^ 64) :
    freeSetDel H (toFree T) key val s =
      ((opSetDel (stdHashing H) (blankRoot H) T key val s).1,
       match (opSetDel (stdHashing H) (blankRoot H) T key val s).2 with
       | .ok T' => .ok (toFree T')
       | .error e => .error e) :=
  freeSetDel_is_opSetDel H hlen T hc key val s hcache hfa hcomp hbk hsm

/-- whole histories: the tree-free run reaches exactly the executor's state (database, reference counts) and root -/
theorem run_is_executor_run (H : Bytes → Bytes) (hlen : ∀ b, (H b).length = 32) (prune : Bool) (ops : List Op) (T : TrieSt) (s : OpSt)
    (h : ReachFree H prune ops T s) :
    freeRun H prune (ops.map fun o => (opKey o, opVal o))
      (⟨blankRoot H, prune⟩, { store := { base := [], cache := none, failAfter := none }, counts := [], pending := [] }) =
      .ok (toFree T, s) :=
  freeRun_is_world_run H hlen prune ops T s h

/-- `ReachFree` is `ReachOpsNC` plus the two physical side conditions at every state -/
theorem reach_free_is_reach (H : Bytes → Bytes) (prune : Bool) (ops : List Op) (T : TrieSt) (s : OpSt) (h : ReachFree H prune ops T s) :
    ReachOpsNC (stdHashing H) (blankRoot H) prune ops T s := reachFree_nc H prune ops T s h

/-- **C01 / C06 for the tree-free executor**: after any history, pruning on or off, its `get` (the raw-level reader over
    its database) returns the last value stored under the key, `b""` if none -/
theorem run_get (H : Bytes → Bytes) (hlen : ∀ b, (H b).length = 32) (prune : Bool) (ops : List Op) (T : TrieSt) (s : OpSt)
    (h : ReachFree H prune ops T s)
    (hbk : Dict.get? s.store.base (blankRoot H) = none)
    (hsm : ∀ h b, Dict.get? s.store.base h = some b → b.length < 2 ^ 64) (key : Bytes) :
    freeGet H (toFree T) key s = .ok (spec ops key) :=
  freeRun_get H hlen prune ops T s h hbk hsm key

/-- **C06 for the tree-free executor**: after any history on a pruning trie its reference counts are the true reference
    counts and its database holds exactly the live nodes, each with its encoding -/
theorem run_pruning_exact (H : Bytes → Bytes) (hlen : ∀ b, (H b).length = 32) (ops : List Op) (T : TrieSt) (s : OpSt)
    (h : ReachFree H true ops T s) :
    freeRun H true (ops.map fun o => (opKey o, opVal o))
      (⟨blankRoot H, true⟩, { store := { base := [], cache := none, failAfter := none }, counts := [], pending := [] }) =
      .ok (toFree T, s) ∧
    (∀ x, s.counts.val x = occRoot (stdHashing H) (run ops) x) ∧
    (∀ x, Dict.contains s.store.base x = true ↔ 0 < occRoot (stdHashing H) (run ops) x) ∧
    Complete (stdHashing H) (blankRoot H) s.store.base T := by
  have hnc := reachFree_nc H true ops T s h
  have hr := reachOpsNC_reachOps _ _ true ops T s hnc
  obtain ⟨htree, _, _, _, hdb⟩ := reachOps_inv _ _ true ops T s hr
  simp only [if_true] at hdb
  refine ⟨freeRun_is_world_run H hlen true ops T s h, ?_, ?_, reachOpsNC_complete _ _ true ops T s hnc⟩
  · intro x; rw [← htree]; exact hdb.counts x
  · intro x; rw [← htree]; exact hdb.keys x

end PyTrie.Props.Free

/-! ## The tree-free executor on incomplete databases (C07) -/
namespace PyTrie.Props.Free
open PyTrie PyTrie.Hex PyTrie.HexD PyTrie.HexW PyTrie.HexRaw PyTrie.HexFree

/-- on ANY partial database (whatever is stored under a node's hash is its encoding) the tree-free `set` / `delete`
    returns the exit state, root and exception of the tree-carrying executor — pruning on or off -/
theorem op_partial (H : Bytes → Bytes) (hlen : ∀ b, (H b).length = 32) (T : TrieSt) (hc : Canon T.tree) (key : Bytes)
    (val : Option Bytes) (s : OpSt) (hcache : s.store.cache = none)
    (hroot : RootPartial H s.store.base T.root T.tree) (hst : PartialD H s.store.base T.tree) :
    freeSetDel H (toFree T) key val s =
      ((opSetDel (stdHashing H) (blankRoot H) T key val s).1,
       match (opSetDel (stdHashing H) (blankRoot H) T key val s).2 with
       | .ok T' => .ok (toFree T')
       | .error e => .error e) :=
  freeSetDel_partial H hlen T hc key val s hcache hroot hst

/-- **a tree-free `set` / `delete` that raises `MissingTrieNode`**: the whole store (database, failure counter) and the
    reference counts are what they were, no pending prune mark is left, the hash it names is absent and is the root's, a
    hashed subtree on the key's path, or the sibling a delete must read to collapse a branch -/
theorem op_missing_atomic (H : Bytes → Bytes) (hlen : ∀ b, (H b).length = 32) (T : TrieSt) (hc : Canon T.tree) (key : Bytes)
    (val : Option Bytes) (s : OpSt) (hcache : s.store.cache = none)
    (hroot : RootPartial H s.store.base T.root T.tree) (hst : PartialD H s.store.base T.tree)
    (hrs : RefSound (stdHashing H) T.tree (nibs key))
    (h root rk : Bytes) (pre : Option Path)
    (he : (freeSetDel H (toFree T) key val s).2 = .error (.missingTrieNode h root rk pre)) :
    (freeSetDel H (toFree T) key val s).1.store = s.store ∧ (freeSetDel H (toFree T) key val s).1.counts = s.counts ∧
    (freeSetDel H (toFree T) key val s).1.pending = [] ∧
    s.store.contains h = false ∧
    (h = T.root ∨ OnPath (stdHashing H) T.tree (nibs key) h ∨ SiblingOnPath (stdHashing H) T.tree (nibs key) h) :=
  freeSetDel_missing_atomic H hlen T hc key val s hcache hroot hst hrs h root rk pre he

end PyTrie.Props.Free
